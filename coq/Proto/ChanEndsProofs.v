(* Proto/ChanEndsProofs.v — C06_channel_ends (positive part): in the composed system of
   Proto/ClientView.v ([csys]: handle typestate, handle->client queue, client slice, the two FIFOs
   of every connection, the broker's channel entry driven by Model.chan_* ), with the repaired
   error path of claim() ([fl_refused_closed]) and every claim awaited to completion
   ([fl_cancel] = false), NO schedule makes a client reject a message or trip an assertion.

   Client-local invariant [AI] (holds at every point of the stream a client consumes): the
   "claimed token" of an end — the live handle with claimed = true, or the drop-driven close
   request in the handle queue, or the pending close — exists at most once, and the end is in the
   client's map iff it exists.  System invariant [CI]: with x' = the client slice after it will
   have consumed everything in flight towards it, draining succeeds; the pending maps of x' are
   exactly the requests still travelling to the broker; and x' agrees with the broker's channel
   entry: an end the broker regards as claimed by c has its token at c and c's entry state mirrors
   the state of the peer end; an end the broker regards as unclaimed has no token anywhere. *)
From stdpp Require Import gmap list.
From RecordUpdate Require Import RecordSet.
Import RecordSetNotations.
From Aldrin Require Import gen.ClientConsts gen.BrokerConsts Broker.Model Proto.ClientView.
Local Open Scope N_scope.

Definition cnt {A} (P : A -> bool) (m : gmap N A) : nat := size (filter (fun p => P p.2 = true) m).

Lemma cnt_empty {A} (P : A -> bool) : cnt P ∅ = 0%nat.
Proof. unfold cnt. rewrite map_filter_empty. apply map_size_empty. Qed.

Lemma cnt_insert_fresh {A} (P : A -> bool) m i x :
  m !! i = None -> cnt P (<[i := x]> m) = (cnt P m + if P x then 1 else 0)%nat.
Proof.
  intros Hi. unfold cnt. destruct (P x) eqn:E.
  - rewrite map_filter_insert_True by exact E. rewrite map_size_insert.
    rewrite (proj2 (map_filter_lookup_None _ _ _)) by (left; exact Hi). cbn. lia.
  - rewrite map_filter_insert_not'; [lia| cbn; congruence |]. intros y Hy. congruence.
Qed.

Lemma cnt_delete {A} (P : A -> bool) m i y :
  m !! i = Some y -> (cnt P (delete i m) + if P y then 1 else 0)%nat = cnt P m.
Proof.
  intros Hi. unfold cnt. rewrite map_filter_delete, map_size_delete. destruct (P y) eqn:E.
  - rewrite (proj2 (map_filter_lookup_Some _ _ _ _)) by (split; [exact Hi|exact E]).
    assert (size (filter (λ p : N * A, P p.2 = true) m) <> 0)%nat.
    { intros H0. apply map_size_empty_inv in H0.
      assert (filter (λ p : N * A, P p.2 = true) m !! i = Some y) by (apply map_filter_lookup_Some; split; [exact Hi|exact E]).
      rewrite H0, lookup_empty in H. discriminate. }
    destruct (size (filter (λ p : N * A, P p.2 = true) m)); [congruence|cbn; lia].
  - rewrite (proj2 (map_filter_lookup_None _ _ _)); [cbn; lia|]. right. intros z Hz. cbn. congruence.
Qed.

Lemma cnt_delete_none {A} (P : A -> bool) m i : m !! i = None -> cnt P (delete i m) = cnt P m.
Proof. intros H. rewrite delete_notin by exact H. reflexivity. Qed.

Lemma cnt_insert {A} (P : A -> bool) m i x y :
  m !! i = Some y ->
  (cnt P (<[i := x]> m) + if P y then 1 else 0)%nat = (cnt P m + if P x then 1 else 0)%nat.
Proof.
  intros Hi. rewrite <- (insert_delete_insert m i x).
  rewrite cnt_insert_fresh by apply lookup_delete. pose proof (cnt_delete P m i y Hi). lia.
Qed.

Lemma cnt_pos {A} (P : A -> bool) m i y : m !! i = Some y -> P y = true -> (1 <= cnt P m)%nat.
Proof. intros Hi Hp. pose proof (cnt_delete P m i y Hi). rewrite Hp in H. lia. Qed.

(* ---------------------------------------------------------------- tokens *)
Definition tok_handle (e : chan_end) (h : handle) : bool :=
  bool_decide (h_end h = e) && match h_kind h with HClaimed _ | HResult true => true | _ => false end.
Definition tok_close (e : chan_end) (p : chan_end * bool) : bool := bool_decide (p.1 = e) && p.2.
Definition tok_req (e : chan_end) (r : hreq) : bool :=
  match r with QClose e' true => bool_decide (e' = e) | _ => false end.
Definition nq (e : chan_end) (q : list hreq) : nat := length (List.filter (tok_req e) q).
Definition tokens (x : ccore) (q : list hreq) (e : chan_end) : nat :=
  (cnt (tok_handle e) (k_handles x) + nq e q + cnt (tok_close e) (k_pclose x))%nat.

Definition qclaim_hid (r : hreq) : option N := match r with QClaim _ _ hid => Some hid | _ => None end.

Lemma nq_app e q1 q2 : nq e (q1 ++ q2) = (nq e q1 + nq e q2)%nat.
Proof. unfold nq. rewrite List.filter_app, app_length. reflexivity. Qed.

Lemma nq_cons e r q : nq e (r :: q) = ((if tok_req e r then 1 else 0) + nq e q)%nat.
Proof. unfold nq. cbn. destruct (tok_req e r); reflexivity. Qed.

Lemma ent_set_same x e v : ent (set_ent x e v) e = v.
Proof. destruct x, e; reflexivity. Qed.
Lemma ent_set_other x e e' v : e <> e' -> ent (set_ent x e v) e' = ent x e'.
Proof. destruct x, e, e'; intros H; try contradiction; reflexivity. Qed.
Lemma other_end_ne e : other_end e <> e.
Proof. destruct e; discriminate. Qed.
Lemma other_end_invol e : other_end (other_end e) = e.
Proof. destruct e; reflexivity. Qed.
Lemma end_cases e e' : e' = e \/ e' = other_end e.
Proof. destruct e, e'; auto. Qed.

Record AI (x : ccore) (q : list hreq) : Prop := {
  ai_tok : forall e, (tokens x q e <= 1)%nat /\ (ent x e <> None <-> tokens x q e = 1%nat);
  ai_claim_h : forall s e hid, k_pclaim x !! s = Some (e, hid) ->
               k_handles x !! hid = Some {| h_end := e; h_kind := HClaiming |};
  ai_claim_inj : forall s1 s2 e1 e2 hid, k_pclaim x !! s1 = Some (e1, hid) -> k_pclaim x !! s2 = Some (e2, hid) -> s1 = s2;
  ai_q_claim : forall e cap hid, QClaim e cap hid ∈ q ->
               k_handles x !! hid = Some {| h_end := e; h_kind := HClaiming |} /\
               forall s e', k_pclaim x !! s <> Some (e', hid);
  ai_q_nodup : NoDup (omap qclaim_hid q);
  ai_q_send : forall q1 v q2, q = q1 ++ QSend v :: q2 ->
              (exists hid b, k_handles x !! hid = Some {| h_end := ESender; h_kind := HClaimed b |}) \/ QClose ESender true ∈ q2;
  ai_q_addcap : forall q1 n q2, q = q1 ++ QAddCap n :: q2 ->
              (exists hid b, k_handles x !! hid = Some {| h_end := EReceiver; h_kind := HClaimed b |}) \/ QClose EReceiver true ∈ q2 }.

Section ChanEnds.
Variable k : uuid.
Variable fl : flags.
Hypothesis Hfix : fl_refused_closed fl = true.
Hypothesis Hnc : fl_cancel fl = false.

Fixpoint cdrain (x : ccore) (d : list msg) : rres :=
  match d with
  | [] => ROk x
  | m :: r => match crecv fl x m with ROk x' => cdrain x' r | bad => bad end
  end.

Lemma cdrain_app x d1 d2 :
  cdrain x (d1 ++ d2) = match cdrain x d1 with ROk x1 => cdrain x1 d2 | bad => bad end.
Proof.
  revert x. induction d1 as [|m d1 IH]; intros x; cbn [cdrain app]; [reflexivity|].
  destruct (crecv fl x m); [apply IH|reflexivity|reflexivity].
Qed.

(* the token of an end with an entry can be located *)
Lemma tok_present x q e : AI x q -> ent x e <> None -> tokens x q e = 1%nat.
Proof. intros I H. apply (ai_tok _ _ I e). exact H. Qed.
Lemma tok_absent x q e : AI x q -> ent x e = None -> tokens x q e = 0%nat.
Proof.
  intros I H. destruct (ai_tok _ _ I e) as [Hle Hiff].
  destruct (tokens x q e) as [|[|n]] eqn:E; [reflexivity| |lia].
  exfalso. apply (proj2 Hiff); [reflexivity|exact H].
Qed.

(* ---------------------------------------------------------------- how tokens move *)
Lemma tokens_set_ent x q e v e' : tokens (set_ent x e v) q e' = tokens x q e'.
Proof. destruct x, e; reflexivity. Qed.

Lemma tokens_del_pclose x q s e b e' :
  k_pclose x !! s = Some (e, b) ->
  (tokens (x <| k_pclose ::= delete s |>) q e' + if tok_close e' (e, b) then 1 else 0)%nat = tokens x q e'.
Proof.
  intros H. destruct x as [es er pc pk hs]. unfold tokens. cbn in *.
  pose proof (cnt_delete (tok_close e') pc s (e, b) H). lia.
Qed.

Lemma tokens_ins_pclose x q s e b e' :
  k_pclose x !! s = None ->
  tokens (x <| k_pclose ::= <[s := (e, b)]> |>) q e' = (tokens x q e' + if tok_close e' (e, b) then 1 else 0)%nat.
Proof.
  intros H. destruct x as [es er pc pk hs]. unfold tokens. cbn in *.
  rewrite (cnt_insert_fresh (tok_close e') pc s (e, b) H). lia.
Qed.

Lemma tokens_pclaim x q f e' : tokens (x <| k_pclaim ::= f |>) q e' = tokens x q e'.
Proof. destruct x. reflexivity. Qed.

Lemma tokens_set_handle x q hid h h0 e' :
  k_handles x !! hid = Some h0 ->
  (tokens (x <| k_handles ::= <[hid := h]> |>) q e' + if tok_handle e' h0 then 1 else 0)%nat
  = (tokens x q e' + if tok_handle e' h then 1 else 0)%nat.
Proof.
  intros H. destruct x as [es er pc pk hs]. unfold tokens. cbn in *.
  pose proof (cnt_insert (tok_handle e') hs hid h h0 H). lia.
Qed.

Lemma tokens_new_handle x q hid h e' :
  k_handles x !! hid = None ->
  tokens (x <| k_handles ::= <[hid := h]> |>) q e' = (tokens x q e' + if tok_handle e' h then 1 else 0)%nat.
Proof.
  intros H. destruct x as [es er pc pk hs]. unfold tokens. cbn in *.
  rewrite (cnt_insert_fresh (tok_handle e') hs hid h H). lia.
Qed.

Lemma tokens_del_handle x q hid h0 e' :
  k_handles x !! hid = Some h0 ->
  (tokens (x <| k_handles ::= delete hid |>) q e' + if tok_handle e' h0 then 1 else 0)%nat = tokens x q e'.
Proof.
  intros H. destruct x as [es er pc pk hs]. unfold tokens. cbn in *.
  pose proof (cnt_delete (tok_handle e') hs hid h0 H). lia.
Qed.

Lemma tok_close_true e e' : tok_close e' (e, true) = bool_decide (e = e').
Proof. unfold tok_close. cbn. rewrite andb_true_r. reflexivity. Qed.
Lemma tok_close_false e e' : tok_close e' (e, false) = false.
Proof. unfold tok_close. cbn. apply andb_false_r. Qed.

Lemma tokens_ge_pclose x q s e : k_pclose x !! s = Some (e, true) -> (1 <= tokens x q e)%nat.
Proof.
  intros H. unfold tokens. pose proof (cnt_pos (tok_close e) (k_pclose x) s (e, true) H).
  rewrite tok_close_true, bool_decide_eq_true_2 in H0 by reflexivity. specialize (H0 eq_refl). lia.
Qed.

(* fields that setting an entry / deleting a pending entry does not touch *)
Lemma set_ent_fields x e v :
  k_pclose (set_ent x e v) = k_pclose x /\ k_pclaim (set_ent x e v) = k_pclaim x /\ k_handles (set_ent x e v) = k_handles x.
Proof. destruct x, e; repeat split. Qed.

Lemma deliver_claiming x hid e ok :
  k_handles x !! hid = Some {| h_end := e; h_kind := HClaiming |} ->
  deliver x hid ok = x <| k_handles ::= <[hid := {| h_end := e; h_kind := HResult ok |}]> |>.
Proof. intros H. unfold deliver. rewrite H. reflexivity. Qed.

(* ---------------------------------------------------------------- consuming a message keeps AI *)
Lemma AI_same_handles x x' q :
  AI x q -> k_handles x' = k_handles x -> k_pclaim x' = k_pclaim x ->
  (forall e, (tokens x' q e <= 1)%nat /\ (ent x' e <> None <-> tokens x' q e = 1%nat)) -> AI x' q.
Proof.
  intros I Hh Hp Ht. destruct I as [I1 I2 I3 I4 I5 I6 I7].
  constructor; rewrite ?Hh, ?Hp; assumption.
Qed.

Lemma crecv_AI x q m x' : AI x q -> crecv fl x m = ROk x' -> AI x' q.
Proof.
  intros I H. destruct m; cbn in H; try discriminate.
  - (* CloseChannelEndReply *)
    destruct (k_pclose x !! serial) as [[e claimed]|] eqn:E; cbn in H; [|discriminate].
    destruct claimed; cbn in H.
    + assert (Hent : ent x e <> None).
      { apply (ai_tok _ _ I e). pose proof (tokens_ge_pclose x q serial e E).
        pose proof (proj1 (ai_tok _ _ I e)). lia. }
      destruct (ent x e) as [st|] eqn:Ee; [|contradiction]. inversion H; subst x'; clear H.
      destruct (set_ent_fields (x <| k_pclose ::= delete serial |>) e None) as (F1 & F2 & F3).
      apply (AI_same_handles x); [exact I| rewrite F3; destruct x; reflexivity | rewrite F2; destruct x; reflexivity |].
      intros e'. rewrite tokens_set_ent.
      pose proof (tokens_del_pclose x q serial e true e' E) as Hd. rewrite tok_close_true in Hd.
      destruct (ai_tok _ _ I e') as [Hle Hiff].
      destruct (decide (e = e')) as [->|Hne].
      * rewrite bool_decide_eq_true_2 in Hd by reflexivity. rewrite ent_set_same.
        assert (tokens x q e' = 1%nat) by (apply Hiff; congruence).
        split; [lia|]. split; [intros Hx; contradiction|lia].
      * rewrite bool_decide_eq_false_2 in Hd by exact Hne. rewrite ent_set_other by exact Hne.
        assert (ent (x <| k_pclose ::= delete serial |>) e' = ent x e') by (destruct x, e'; reflexivity).
        rewrite H. split; [lia|]. rewrite Hiff. lia.
    + inversion H; subst x'; clear H.
      apply (AI_same_handles x); [exact I|destruct x; reflexivity|destruct x; reflexivity|].
      intros e'. pose proof (tokens_del_pclose x q serial e false e' E) as Hd. rewrite tok_close_false in Hd.
      assert (ent (x <| k_pclose ::= delete serial |>) e' = ent x e') by (destruct x, e'; reflexivity).
      rewrite H. destruct (ai_tok _ _ I e') as [Hle Hiff]. split; [lia|]. rewrite Hiff. lia.
  - (* ChannelEndClosed *)
    destruct (ent x (other_end e)) as [st|] eqn:Ee; [|discriminate].
    assert (x' = set_ent x (other_end e) (Some EPeerClosed)) by (destruct st; try discriminate; inversion H; reflexivity).
    subst x'. destruct (set_ent_fields x (other_end e) (Some EPeerClosed)) as (F1 & F2 & F3).
    apply (AI_same_handles x); [exact I|exact F3|exact F2|].
    intros e'. rewrite tokens_set_ent. destruct (ai_tok _ _ I e') as [Hle Hiff]. split; [exact Hle|].
    destruct (decide (other_end e = e')) as [<-|Hne].
    + rewrite ent_set_same. rewrite <- Hiff, Ee. split; intros; congruence.
    + rewrite ent_set_other by exact Hne. exact Hiff.
  - (* ClaimChannelEndReply *)
    destruct (k_pclaim x !! serial) as [[e hid]|] eqn:E; cbn in H; [|discriminate].
    pose proof (ai_claim_h _ _ I _ _ _ E) as Hh.
    assert (Hcommon : forall ok x1,
               k_pclaim x1 = delete serial (k_pclaim x) -> k_handles x1 = k_handles x ->
               (forall e', (tokens (deliver x1 hid ok) q e' <= 1)%nat /\
                           (ent (deliver x1 hid ok) e' <> None <-> tokens (deliver x1 hid ok) q e' = 1%nat)) ->
               AI (deliver x1 hid ok) q).
    { intros ok x1 Hp Hhs Ht.
      assert (Hd : deliver x1 hid ok = x1 <| k_handles ::= <[hid := {| h_end := e; h_kind := HResult ok |}]> |>).
      { apply deliver_claiming. rewrite Hhs. exact Hh. }
      assert (Hpk : k_pclaim (deliver x1 hid ok) = delete serial (k_pclaim x)) by (rewrite Hd; destruct x1; exact Hp).
      assert (Hhd : k_handles (deliver x1 hid ok) = <[hid := {| h_end := e; h_kind := HResult ok |}]> (k_handles x)).
      { rewrite Hd. destruct x1. cbn in *. rewrite Hhs. reflexivity. }
      destruct I as [I1 I2 I3 I4 I5 I6 I7]. constructor.
      - exact Ht.
      - intros s e0 hid0. rewrite Hpk, Hhd. intros Hs. apply lookup_delete_Some in Hs. destruct Hs as [Hne Hs].
        assert (hid0 <> hid) by (intros ->; apply Hne; symmetry; eapply I3; eassumption).
        rewrite lookup_insert_ne by congruence. eapply I2. exact Hs.
      - intros s1 s2 e1 e2 hid0. rewrite Hpk. intros H1 H2.
        apply lookup_delete_Some in H1. apply lookup_delete_Some in H2. eapply I3; [apply H1|apply H2].
      - intros e0 cap hid0 Hin. destruct (I4 _ _ _ Hin) as [G1 G2]. rewrite Hpk, Hhd.
        assert (hid0 <> hid) by (intros ->; eapply G2; exact E).
        rewrite lookup_insert_ne by congruence. split; [exact G1|].
        intros s e'. intros Hs. apply lookup_delete_Some in Hs. eapply G2. apply Hs.
      - exact I5.
      - intros q1 v q2 Hq. destruct (I6 _ _ _ Hq) as [(h & b & G)|G]; [|right; exact G].
        left. exists h, b. rewrite Hhd. rewrite lookup_insert_ne; [exact G|]. intros ->. rewrite Hh in G. discriminate.
      - intros q1 n q2 Hq. destruct (I7 _ _ _ Hq) as [(h & b & G)|G]; [|right; exact G].
        left. exists h, b. rewrite Hhd. rewrite lookup_insert_ne; [exact G|]. intros ->. rewrite Hh in G. discriminate. }
    assert (Hrefused : ROk (deliver (x <| k_pclaim ::= delete serial |>) hid false) = ROk x' -> AI x' q).
    { intros Hx. inversion Hx; subst x'; clear Hx. apply Hcommon; [destruct x; reflexivity|destruct x; reflexivity|].
      intros e'. rewrite (deliver_claiming _ hid e false) by (destruct x; exact Hh).
      pose proof (tokens_set_handle (x <| k_pclaim ::= delete serial |>) q hid {| h_end := e; h_kind := HResult false |}
                    {| h_end := e; h_kind := HClaiming |} e' ltac:(destruct x; exact Hh)) as Ht.
      unfold tok_handle in Ht at 1 2. cbn in Ht. rewrite !andb_false_r in Ht. rewrite tokens_pclaim in Ht.
      assert (Hent : ent (x <| k_pclaim ::= delete serial |> <| k_handles ::= <[hid:={| h_end := e; h_kind := HResult false |}]> |>) e' = ent x e')
        by (destruct x, e'; reflexivity).
      rewrite Hent. destruct (ai_tok _ _ I e') as [Hle Hiff]. split; [lia|]. rewrite Hiff. lia. }
    assert (Hok : ent x e = None ->
                  ROk (deliver (set_ent (x <| k_pclaim ::= delete serial |>) e (Some EEstablished)) hid true) = ROk x' -> AI x' q).
    { intros Hnone Hx. inversion Hx; subst x'; clear Hx.
      destruct (set_ent_fields (x <| k_pclaim ::= delete serial |>) e (Some EEstablished)) as (F1 & F2 & F3).
      apply Hcommon; [rewrite F2; destruct x; reflexivity|rewrite F3; destruct x; reflexivity|].
      intros e'. rewrite (deliver_claiming _ hid e true) by (rewrite F3; destruct x; exact Hh).
      pose proof (tokens_set_handle (set_ent (x <| k_pclaim ::= delete serial |>) e (Some EEstablished)) q hid
                    {| h_end := e; h_kind := HResult true |} {| h_end := e; h_kind := HClaiming |} e'
                    ltac:(rewrite F3; destruct x; exact Hh)) as Ht.
      rewrite tokens_set_ent, tokens_pclaim in Ht.
      unfold tok_handle in Ht at 1 2. cbn in Ht. rewrite andb_false_r, andb_true_r in Ht.
      assert (Hent : ent (set_ent (x <| k_pclaim ::= delete serial |>) e (Some EEstablished)
                           <| k_handles ::= <[hid:={| h_end := e; h_kind := HResult true |}]> |>) e'
                     = ent (set_ent x e (Some EEstablished)) e') by (destruct x, e, e'; reflexivity).
      rewrite Hent. destruct (ai_tok _ _ I e') as [Hle Hiff].
      destruct (decide (e = e')) as [->|Hne].
      - rewrite bool_decide_eq_true_2 in Ht by reflexivity. rewrite ent_set_same.
        pose proof (tok_absent x q e' I Hnone). split; [lia|]. split; [lia|congruence].
      - rewrite bool_decide_eq_false_2 in Ht by exact Hne. rewrite ent_set_other by exact Hne.
        split; [lia|]. rewrite Hiff. lia. }
    destruct e, r; cbn in H; try discriminate; try (apply Hrefused; exact H).
    + destruct (k_es x) eqn:Ee; [discriminate|]. apply Hok; [exact Ee|exact H].
    + destruct (k_er x) eqn:Ee; [discriminate|]. apply Hok; [exact Ee|exact H].
  - (* ChannelEndClaimed *)
    destruct (ent x (other_end (end_of_cap e))) as [st|] eqn:Ee; [|discriminate].
    assert (x' = set_ent x (other_end (end_of_cap e)) (Some EEstablished)) by (destruct st; try discriminate; inversion H; reflexivity).
    subst x'. destruct (set_ent_fields x (other_end (end_of_cap e)) (Some EEstablished)) as (F1 & F2 & F3).
    apply (AI_same_handles x); [exact I|exact F3|exact F2|].
    intros e'. rewrite tokens_set_ent. destruct (ai_tok _ _ I e') as [Hle Hiff]. split; [exact Hle|].
    destruct (decide (other_end (end_of_cap e) = e')) as [<-|Hne].
    + rewrite ent_set_same. rewrite <- Hiff, Ee. split; intros; congruence.
    + rewrite ent_set_other by exact Hne. exact Hiff.
  - (* AddChannelCapacity *)
    destruct (k_es x) as [[]|]; try discriminate. inversion H; subst. exact I.
  - (* ItemReceived *)
    destruct (k_er x) as [[]|]; try discriminate. inversion H; subst. exact I.
Qed.

Lemma cdrain_AI d : forall x q x', AI x q -> cdrain x d = ROk x' -> AI x' q.
Proof.
  induction d as [|m d IH]; intros x q x' I H; cbn [cdrain] in H.
  - inversion H; subst. exact I.
  - destruct (crecv fl x m) as [x1| |] eqn:E; try discriminate.
    eapply IH; [|exact H]. eapply crecv_AI; eassumption.
Qed.

(* ---------------------------------------------------------------- application steps keep AI *)
Definition upd_h (hid : N) (o : option handle) (hs : gmap N handle) : gmap N handle :=
  match o with Some h => <[hid := h]> hs | None => delete hid hs end.
Definition tokb (e : chan_end) (o : option handle) : nat :=
  match o with Some h => if tok_handle e h then 1%nat else 0%nat | None => 0%nat end.
Definition claiming (o : option handle) : Prop := exists e, o = Some {| h_end := e; h_kind := HClaiming |}.
Definition held (e : chan_end) (o : option handle) : Prop := exists b, o = Some {| h_end := e; h_kind := HClaimed b |}.

Lemma set_handle_core x hid o : c_core (set_handle x hid o) = c_core x <| k_handles ::= upd_h hid o |>.
Proof. destruct x as [c ? ? ? ? ?], c, o; reflexivity. Qed.

Lemma tokens_upd_h x q hid o e :
  (tokens (x <| k_handles ::= upd_h hid o |>) q e + tokb e (k_handles x !! hid))%nat = (tokens x q e + tokb e o)%nat.
Proof.
  destruct x as [es er pc pk hs]. unfold tokens. cbn.
  destruct o as [h|]; cbn [upd_h tokb].
  - destruct (hs !! hid) as [h0|] eqn:E; cbn [tokb].
    + pose proof (cnt_insert (tok_handle e) hs hid h h0 E). lia.
    + rewrite (cnt_insert_fresh (tok_handle e) hs hid h E). lia.
  - destruct (hs !! hid) as [h0|] eqn:E; cbn [tokb].
    + pose proof (cnt_delete (tok_handle e) hs hid h0 E). lia.
    + rewrite (cnt_delete_none (tok_handle e) hs hid E). lia.
Qed.

Lemma upd_h_lookup_ne hid o hs hid' : hid' <> hid -> upd_h hid o hs !! hid' = hs !! hid'.
Proof. intros H. destruct o; cbn; [apply lookup_insert_ne|apply lookup_delete_ne]; congruence. Qed.
Lemma upd_h_lookup hid o hs : upd_h hid o hs !! hid = o.
Proof. destruct o; cbn; [apply lookup_insert|apply lookup_delete]. Qed.

Lemma ent_upd_h x f e : ent (x <| k_handles ::= f |>) e = ent x e.
Proof. destruct x, e; reflexivity. Qed.

Lemma snoc_split {A} (q q1 q2 : list A) (r a : A) :
  q ++ [r] = q1 ++ a :: q2 -> (exists q2', q2 = q2' ++ [r] /\ q = q1 ++ a :: q2') \/ (q2 = [] /\ q = q1 /\ r = a).
Proof.
  intros H. destruct q2 as [|b q2' _] using rev_ind.
  - right. change (q1 ++ [a]) with (q1 ++ [a]) in H. apply app_inj_tail in H. destruct H; subst. auto.
  - left. exists q2'. rewrite app_comm_cons, app_assoc in H. apply app_inj_tail in H. destruct H; subst. auto.
Qed.

(* a handle that is neither claiming before nor after changes; the queue is untouched *)
Lemma AI_upd_handle x q hid o :
  AI x q -> ~ claiming (k_handles x !! hid) -> ~ claiming o ->
  (forall e, tokb e (k_handles x !! hid) = tokb e o) ->
  (forall e, held e (k_handles x !! hid) -> held e o) ->
  AI (x <| k_handles ::= upd_h hid o |>) q.
Proof.
  intros I Hold Hnew Htok Hheld. destruct I as [I1 I2 I3 I4 I5 I6 I7].
  assert (Hpk : k_pclaim (x <| k_handles ::= upd_h hid o |>) = k_pclaim x) by (destruct x; reflexivity).
  assert (Hhs : k_handles (x <| k_handles ::= upd_h hid o |>) = upd_h hid o (k_handles x)) by (destruct x; reflexivity).
  constructor.
  - intros e. pose proof (tokens_upd_h x q hid o e) as Ht. rewrite Htok in Ht. rewrite ent_upd_h.
    destruct (I1 e) as [Hle Hiff]. split; [lia|]. rewrite Hiff. lia.
  - intros s e hid0. rewrite Hpk, Hhs. intros Hs. pose proof (I2 _ _ _ Hs) as G.
    rewrite upd_h_lookup_ne; [exact G|]. intros ->. apply Hold. exists e. exact G.
  - intros s1 s2 e1 e2 hid0. rewrite Hpk. apply I3.
  - intros e cap hid0 Hin. destruct (I4 _ _ _ Hin) as [G1 G2]. rewrite Hpk, Hhs. split; [|exact G2].
    rewrite upd_h_lookup_ne; [exact G1|]. intros ->. apply Hold. exists e. exact G1.
  - exact I5.
  - intros q1 v q2 Hq. destruct (I6 _ _ _ Hq) as [(h & b & G)|G]; [|right; exact G]. left. rewrite Hhs.
    destruct (decide (h = hid)) as [->|Hne].
    + destruct (Hheld ESender (ex_intro _ b G)) as [b' Hb']. exists hid, b'. rewrite upd_h_lookup. exact Hb'.
    + exists h, b. rewrite upd_h_lookup_ne by exact Hne. exact G.
  - intros q1 n q2 Hq. destruct (I7 _ _ _ Hq) as [(h & b & G)|G]; [|right; exact G]. left. rewrite Hhs.
    destruct (decide (h = hid)) as [->|Hne].
    + destruct (Hheld EReceiver (ex_intro _ b G)) as [b' Hb']. exists hid, b'. rewrite upd_h_lookup. exact Hb'.
    + exists h, b. rewrite upd_h_lookup_ne by exact Hne. exact G.
Qed.

(* enqueueing a request that is neither a claim nor an item/capacity request, with no token *)
Lemma AI_enq_plain x q r :
  AI x q -> qclaim_hid r = None -> (forall e, tok_req e r = false) ->
  (forall v, r <> QSend v) -> (forall n, r <> QAddCap n) -> AI x (q ++ [r]).
Proof.
  intros I Hr Ht Hs Ha. destruct I as [I1 I2 I3 I4 I5 I6 I7]. constructor; try assumption.
  - intros e. assert (Heq : tokens x (q ++ [r]) e = tokens x q e).
    { unfold tokens. rewrite nq_app, nq_cons, Ht. cbn. lia. }
    rewrite Heq. apply I1.
  - intros e cap hid Hin. apply elem_of_app in Hin. destruct Hin as [Hin|Hin]; [eapply I4; exact Hin|].
    apply elem_of_list_singleton in Hin. subst r. discriminate.
  - rewrite omap_app. cbn. rewrite Hr. rewrite app_nil_r. exact I5.
  - intros q1 v q2 Hq. apply snoc_split in Hq. destruct Hq as [(q2' & -> & Hq)|(_ & _ & Hq)]; [|exfalso; eapply Hs; exact Hq].
    destruct (I6 _ _ _ Hq) as [G|G]; [left; exact G|right]. apply elem_of_app. left. exact G.
  - intros q1 n q2 Hq. apply snoc_split in Hq. destruct Hq as [(q2' & -> & Hq)|(_ & _ & Hq)]; [|exfalso; eapply Ha; exact Hq].
    destruct (I7 _ _ _ Hq) as [G|G]; [left; exact G|right]. apply elem_of_app. left. exact G.
Qed.

Lemma in_omap_qclaim (q : list hreq) (hid : N) : hid ∈ omap qclaim_hid q -> exists e cap, QClaim e cap hid ∈ q.
Proof.
  intros H. apply elem_of_list_omap in H. destruct H as (r & Hr & Hq). destruct r; try discriminate.
  inversion Hq; subst. eauto.
Qed.

Lemma AI_claim x q hid e cap :
  AI x q -> k_handles x !! hid = Some {| h_end := e; h_kind := HUnclaimed |} ->
  AI (x <| k_handles ::= upd_h hid (Some {| h_end := e; h_kind := HClaiming |}) |>) (q ++ [QClaim e cap hid]).
Proof.
  intros I Hh. destruct I as [I1 I2 I3 I4 I5 I6 I7].
  set (o := Some {| h_end := e; h_kind := HClaiming |}).
  assert (Hpk : k_pclaim (x <| k_handles ::= upd_h hid o |>) = k_pclaim x) by (destruct x; reflexivity).
  assert (Hhs : k_handles (x <| k_handles ::= upd_h hid o |>) = upd_h hid o (k_handles x)) by (destruct x; reflexivity).
  assert (Hnoentry : forall s e', k_pclaim x !! s <> Some (e', hid)).
  { intros s e' Hs. apply I2 in Hs. rewrite Hh in Hs. discriminate. }
  constructor.
  - intros e'. pose proof (tokens_upd_h x (q ++ [QClaim e cap hid]) hid o e') as Ht. rewrite Hh in Ht.
    subst o. cbn [tokb] in Ht. unfold tok_handle in Ht. cbn in Ht. rewrite !andb_false_r in Ht.
    assert (Hq : tokens x (q ++ [QClaim e cap hid]) e' = tokens x q e').
    { unfold tokens. rewrite nq_app, nq_cons. cbn. lia. }
    rewrite ent_upd_h. destruct (I1 e') as [Hle Hiff]. split; [lia|]. rewrite Hiff. lia.
  - intros s e0 hid0. rewrite Hpk, Hhs. intros Hs. pose proof (I2 _ _ _ Hs) as G.
    rewrite upd_h_lookup_ne; [exact G|]. intros ->. eapply Hnoentry. exact Hs.
  - intros s1 s2 e1 e2 hid0. rewrite Hpk. apply I3.
  - intros e0 cap0 hid0 Hin. rewrite Hpk, Hhs. apply elem_of_app in Hin. destruct Hin as [Hin|Hin].
    + destruct (I4 _ _ _ Hin) as [G1 G2]. split; [|exact G2].
      rewrite upd_h_lookup_ne; [exact G1|]. intros ->. rewrite Hh in G1. discriminate.
    + apply elem_of_list_singleton in Hin. inversion Hin; subst. split; [apply upd_h_lookup|exact Hnoentry].
  - rewrite omap_app. cbn. apply NoDup_app. split; [exact I5|]. split; [|apply NoDup_singleton].
    intros h Hin Hin'. apply elem_of_list_singleton in Hin'. subst h.
    apply in_omap_qclaim in Hin. destruct Hin as (e0 & cap0 & Hin). destruct (I4 _ _ _ Hin) as [G _].
    rewrite Hh in G. discriminate.
  - intros q1 v q2 Hq. apply snoc_split in Hq. destruct Hq as [(q2' & -> & Hq)|(_ & _ & Hq)]; [|discriminate].
    destruct (I6 _ _ _ Hq) as [(h & b & G)|G]; [left|right; apply elem_of_app; left; exact G].
    exists h, b. rewrite Hhs, upd_h_lookup_ne; [exact G|]. intros ->. rewrite Hh in G. discriminate.
  - intros q1 n q2 Hq. apply snoc_split in Hq. destruct Hq as [(q2' & -> & Hq)|(_ & _ & Hq)]; [|discriminate].
    destruct (I7 _ _ _ Hq) as [(h & b & G)|G]; [left|right; apply elem_of_app; left; exact G].
    exists h, b. rewrite Hhs, upd_h_lookup_ne; [exact G|]. intros ->. rewrite Hh in G. discriminate.
Qed.

Lemma AI_drop_claimed x q hid e b :
  AI x q -> k_handles x !! hid = Some {| h_end := e; h_kind := HClaimed b |} ->
  AI (x <| k_handles ::= upd_h hid None |>) (q ++ [QClose e true]).
Proof.
  intros I Hh. destruct I as [I1 I2 I3 I4 I5 I6 I7].
  assert (Hpk : k_pclaim (x <| k_handles ::= upd_h hid None |>) = k_pclaim x) by (destruct x; reflexivity).
  assert (Hhs : k_handles (x <| k_handles ::= upd_h hid None |>) = upd_h hid None (k_handles x)) by (destruct x; reflexivity).
  constructor.
  - intros e'. pose proof (tokens_upd_h x (q ++ [QClose e true]) hid None e') as Ht. rewrite Hh in Ht.
    cbn [tokb] in Ht. unfold tok_handle in Ht. cbn in Ht. rewrite andb_true_r in Ht.
    assert (Hq : tokens x (q ++ [QClose e true]) e' = (tokens x q e' + if bool_decide (e = e') then 1 else 0)%nat).
    { unfold tokens. rewrite nq_app, nq_cons. cbn. destruct (bool_decide (e = e')); lia. }
    rewrite ent_upd_h. destruct (I1 e') as [Hle Hiff]. destruct (bool_decide (e = e')); (split; [lia|]); rewrite Hiff; lia.
  - intros s e0 hid0. rewrite Hpk, Hhs. intros Hs. pose proof (I2 _ _ _ Hs) as G.
    rewrite upd_h_lookup_ne; [exact G|]. intros ->. rewrite Hh in G. discriminate.
  - intros s1 s2 e1 e2 hid0. rewrite Hpk. apply I3.
  - intros e0 cap0 hid0 Hin. rewrite Hpk, Hhs. apply elem_of_app in Hin. destruct Hin as [Hin|Hin].
    + destruct (I4 _ _ _ Hin) as [G1 G2]. split; [|exact G2].
      rewrite upd_h_lookup_ne; [exact G1|]. intros ->. rewrite Hh in G1. discriminate.
    + apply elem_of_list_singleton in Hin. discriminate.
  - rewrite omap_app. cbn. rewrite app_nil_r. exact I5.
  - intros q1 v q2 Hq. apply snoc_split in Hq. destruct Hq as [(q2' & -> & Hq)|(_ & _ & Hq)]; [|discriminate].
    destruct (I6 _ _ _ Hq) as [(h & b' & G)|G]; [|right; apply elem_of_app; left; exact G].
    destruct (decide (h = hid)) as [->|Hne].
    + right. rewrite Hh in G. inversion G; subst. apply elem_of_app. right. apply elem_of_list_singleton. reflexivity.
    + left. exists h, b'. rewrite Hhs, upd_h_lookup_ne by exact Hne. exact G.
  - intros q1 n q2 Hq. apply snoc_split in Hq. destruct Hq as [(q2' & -> & Hq)|(_ & _ & Hq)]; [|discriminate].
    destruct (I7 _ _ _ Hq) as [(h & b' & G)|G]; [|right; apply elem_of_app; left; exact G].
    destruct (decide (h = hid)) as [->|Hne].
    + right. rewrite Hh in G. inversion G; subst. apply elem_of_app. right. apply elem_of_list_singleton. reflexivity.
    + left. exists h, b'. rewrite Hhs, upd_h_lookup_ne by exact Hne. exact G.
Qed.

Lemma AI_enq_send x q v hid b :
  AI x q -> k_handles x !! hid = Some {| h_end := ESender; h_kind := HClaimed b |} -> AI x (q ++ [QSend v]).
Proof.
  intros I Hh. destruct I as [I1 I2 I3 I4 I5 I6 I7]. constructor; try assumption.
  - intros e. assert (Heq : tokens x (q ++ [QSend v]) e = tokens x q e).
    { unfold tokens. rewrite nq_app, nq_cons. cbn. lia. }
    rewrite Heq. apply I1.
  - intros e cap hid0 Hin. apply elem_of_app in Hin. destruct Hin as [Hin|Hin]; [eapply I4; exact Hin|].
    apply elem_of_list_singleton in Hin. discriminate.
  - rewrite omap_app. cbn. rewrite app_nil_r. exact I5.
  - intros q1 v0 q2 Hq. apply snoc_split in Hq. destruct Hq as [(q2' & -> & Hq)|(-> & _ & _)].
    + destruct (I6 _ _ _ Hq) as [G|G]; [left; exact G|right]. apply elem_of_app. left. exact G.
    + left. exists hid, b. exact Hh.
  - intros q1 n q2 Hq. apply snoc_split in Hq. destruct Hq as [(q2' & -> & Hq)|(_ & _ & Hq)]; [|discriminate].
    destruct (I7 _ _ _ Hq) as [G|G]; [left; exact G|right]. apply elem_of_app. left. exact G.
Qed.

Lemma AI_enq_addcap x q n hid b :
  AI x q -> k_handles x !! hid = Some {| h_end := EReceiver; h_kind := HClaimed b |} -> AI x (q ++ [QAddCap n]).
Proof.
  intros I Hh. destruct I as [I1 I2 I3 I4 I5 I6 I7]. constructor; try assumption.
  - intros e. assert (Heq : tokens x (q ++ [QAddCap n]) e = tokens x q e).
    { unfold tokens. rewrite nq_app, nq_cons. cbn. lia. }
    rewrite Heq. apply I1.
  - intros e cap hid0 Hin. apply elem_of_app in Hin. destruct Hin as [Hin|Hin]; [eapply I4; exact Hin|].
    apply elem_of_list_singleton in Hin. discriminate.
  - rewrite omap_app. cbn. rewrite app_nil_r. exact I5.
  - intros q1 v0 q2 Hq. apply snoc_split in Hq. destruct Hq as [(q2' & -> & Hq)|(_ & _ & Hq)]; [|discriminate].
    destruct (I6 _ _ _ Hq) as [G|G]; [left; exact G|right]. apply elem_of_app. left. exact G.
  - intros q1 n0 q2 Hq. apply snoc_split in Hq. destruct Hq as [(q2' & -> & Hq)|(-> & _ & _)].
    + destruct (I7 _ _ _ Hq) as [G|G]; [left; exact G|right]. apply elem_of_app. left. exact G.
    + left. exists hid, b. exact Hh.
Qed.

Definition hfresh (x : cl) : Prop := forall hid, is_Some (k_handles (c_core x) !! hid) -> hid < c_nexth x.

Lemma enq_fields x r :
  c_core (enq x r) = c_core x /\ c_q (enq x r) = c_q x ++ [r] /\ c_next (enq x r) = c_next x /\
  c_up (enq x r) = c_up x /\ c_down (enq x r) = c_down x /\ c_nexth (enq x r) = c_nexth x.
Proof. destruct x; repeat split. Qed.
Lemma set_handle_fields x hid o :
  c_q (set_handle x hid o) = c_q x /\ c_next (set_handle x hid o) = c_next x /\
  c_up (set_handle x hid o) = c_up x /\ c_down (set_handle x hid o) = c_down x /\ c_nexth (set_handle x hid o) = c_nexth x.
Proof. destruct x as [c ? ? ? ? ?], c, o; repeat split. Qed.

Lemma hfresh_upd x x2 hid o :
  hfresh x -> c_core x2 = c_core x <| k_handles ::= upd_h hid o |> -> c_nexth x <= c_nexth x2 ->
  (is_Some o -> hid < c_nexth x2) -> hfresh x2.
Proof.
  intros Hf Hc Hn Ho hid' Hs. rewrite Hc in Hs.
  assert (Hk : k_handles (c_core x <| k_handles ::= upd_h hid o |>) = upd_h hid o (k_handles (c_core x))) by (destruct (c_core x); reflexivity).
  rewrite Hk in Hs. destruct (decide (hid' = hid)) as [->|Hne].
  - rewrite upd_h_lookup in Hs. apply Ho. exact Hs.
  - rewrite upd_h_lookup_ne in Hs by exact Hne. apply Hf in Hs. lia.
Qed.

(* what an application step does to a client: one handle changes (never one whose claim is
   running), requests are appended; the number of tokens of each end stays the same *)
Lemma app_effect x o x2 :
  app_step fl x o = Some x2 -> hfresh x -> AI (c_core x) (c_q x) ->
  exists hid onew reqs,
    ~ claiming (k_handles (c_core x) !! hid) /\
    c_core x2 = c_core x <| k_handles ::= upd_h hid onew |> /\
    c_q x2 = c_q x ++ reqs /\ c_next x2 = c_next x /\ c_up x2 = c_up x /\ c_down x2 = c_down x /\
    (forall e, (tokb e onew + nq e reqs = tokb e (k_handles (c_core x) !! hid))%nat) /\
    hfresh x2 /\ AI (c_core x2) (c_q x2).
Proof.
  intros H Hf I. destruct o; cbn in H.
  - (* ABind *)
    inversion H; subst x2; clear H.
    assert (Hnone : k_handles (c_core x) !! c_nexth x = None).
    { destruct (k_handles (c_core x) !! c_nexth x) eqn:E; [|reflexivity].
      assert (c_nexth x < c_nexth x) by (apply Hf; eauto). lia. }
    exists (c_nexth x), (Some {| h_end := e; h_kind := HUnclaimed |}), [].
    assert (Hcore : c_core (set_handle x (c_nexth x) (Some {| h_end := e; h_kind := HUnclaimed |}) <| c_nexth ::= N.succ |>)
                    = c_core x <| k_handles ::= upd_h (c_nexth x) (Some {| h_end := e; h_kind := HUnclaimed |}) |>).
    { destruct x as [c ? ? ? ? ?], c. reflexivity. }
    rewrite Hnone. split; [intros [e0 He0]; discriminate|]. split; [exact Hcore|].
    split; [destruct x as [c ? ? ? ? ?], c; cbn; rewrite app_nil_r; reflexivity|].
    split; [destruct x as [c ? ? ? ? ?], c; reflexivity|]. split; [destruct x as [c ? ? ? ? ?], c; reflexivity|].
    split; [destruct x as [c ? ? ? ? ?], c; reflexivity|].
    split; [intros e0; cbn; unfold tok_handle; cbn; rewrite andb_false_r; reflexivity|].
    split.
    + eapply hfresh_upd; [exact Hf|exact Hcore| |]; destruct x as [c ? ? ? ? ?], c; cbn; intros; lia.
    + rewrite Hcore. replace (c_q (set_handle x (c_nexth x) (Some {| h_end := e; h_kind := HUnclaimed |}) <| c_nexth ::= N.succ |>)) with (c_q x)
        by (destruct x as [c ? ? ? ? ?], c; reflexivity).
      apply AI_upd_handle; [exact I|rewrite Hnone; intros [e0 He0]; discriminate|intros [e0 He0]; discriminate| |].
      * intros e0. rewrite Hnone. cbn. unfold tok_handle. cbn. rewrite andb_false_r. reflexivity.
      * intros e0 [b Hb]. rewrite Hnone in Hb. discriminate.
  - (* AClaim *)
    destruct (k_handles (c_core x) !! hid) as [[e [| | |]]|] eqn:E; try discriminate.
    inversion H; subst x2; clear H.
    exists hid, (Some {| h_end := e; h_kind := HClaiming |}), [QClaim e cap hid].
    destruct (enq_fields (set_handle x hid (Some {| h_end := e; h_kind := HClaiming |})) (QClaim e cap hid)) as (F1 & F2 & F3 & F4 & F5 & F6).
    destruct (set_handle_fields x hid (Some {| h_end := e; h_kind := HClaiming |})) as (G2 & G3 & G4 & G5 & G6).
    rewrite F1, F2, F3, F4, F5, set_handle_core, G2, G3, G4, G5. rewrite E.
    split; [intros [e0 He0]; discriminate|]. repeat (split; [reflexivity|]).
    split; [intros e0; cbn; unfold tok_handle; cbn; rewrite !andb_false_r; reflexivity|].
    split.
    + eapply hfresh_upd; [exact Hf|rewrite F1; apply set_handle_core|rewrite F6, G6; lia|].
      intros _. rewrite F6, G6. apply Hf. rewrite E. eauto.
    + apply AI_claim; assumption.
  - (* AFinish *)
    destruct (k_handles (c_core x) !! hid) as [[e [| |[]|]]|] eqn:E; try discriminate.
    + inversion H; subst x2; clear H.
      exists hid, (Some {| h_end := e; h_kind := HClaimed true |}), [].
      destruct (set_handle_fields x hid (Some {| h_end := e; h_kind := HClaimed true |})) as (G2 & G3 & G4 & G5 & G6).
      rewrite set_handle_core, G2, G3, G4, G5, E, app_nil_r.
      split; [intros [e0 He0]; discriminate|]. repeat (split; [reflexivity|]).
      split; [intros e0; cbn; unfold tok_handle; cbn; lia|].
      split.
      * eapply hfresh_upd; [exact Hf|apply set_handle_core|rewrite G6; lia|]. intros _. rewrite G6. apply Hf. rewrite E. eauto.
      * apply AI_upd_handle; [exact I|rewrite E; intros [e0 He0]; discriminate|intros [e0 He0]; discriminate| |].
        -- intros e0. rewrite E. cbn. unfold tok_handle. cbn. reflexivity.
        -- intros e0 [b Hb]. rewrite E in Hb. discriminate.
    + rewrite Hfix in H. inversion H; subst x2; clear H.
      exists hid, None, [].
      destruct (set_handle_fields x hid None) as (G2 & G3 & G4 & G5 & G6).
      rewrite set_handle_core, G2, G3, G4, G5, E, app_nil_r.
      split; [intros [e0 He0]; discriminate|]. repeat (split; [reflexivity|]).
      split; [intros e0; cbn; unfold tok_handle; cbn; rewrite andb_false_r; reflexivity|].
      split.
      * eapply hfresh_upd; [exact Hf|apply set_handle_core|rewrite G6; lia|]. intros [? ?]; discriminate.
      * apply AI_upd_handle; [exact I|rewrite E; intros [e0 He0]; discriminate|intros [e0 He0]; discriminate| |].
        -- intros e0. rewrite E. cbn. unfold tok_handle. cbn. rewrite andb_false_r. reflexivity.
        -- intros e0 [b Hb]. rewrite E in Hb. discriminate.
  - (* ADrop *)
    destruct (k_handles (c_core x) !! hid) as [[e kd]|] eqn:E; [|discriminate]. cbn in H. rewrite Hnc in H. cbn in H.
    rewrite andb_true_r in H.
    destruct kd as [| |ok|b]; cbn in H; try discriminate; inversion H; subst x2; clear H.
    + (* an unclaimed end *)
      exists hid, None, [QClose e false].
      destruct (enq_fields (set_handle x hid None) (QClose e false)) as (F1 & F2 & F3 & F4 & F5 & F6).
      destruct (set_handle_fields x hid None) as (G2 & G3 & G4 & G5 & G6).
      rewrite F1, F2, F3, F4, F5, set_handle_core, G2, G3, G4, G5, E.
      split; [intros [e0 He0]; discriminate|]. repeat (split; [reflexivity|]).
      split; [intros e0; cbn; unfold tok_handle; cbn; rewrite andb_false_r; reflexivity|].
      split.
      * eapply hfresh_upd; [exact Hf|rewrite F1; apply set_handle_core|rewrite F6, G6; lia|]. intros [? ?]; discriminate.
      * apply AI_enq_plain; [|reflexivity|reflexivity|discriminate|discriminate].
        apply AI_upd_handle; [exact I|rewrite E; intros [e0 He0]; discriminate|intros [e0 He0]; discriminate| |].
        -- intros e0. rewrite E. cbn. unfold tok_handle. cbn. rewrite andb_false_r. reflexivity.
        -- intros e0 [b Hb]. rewrite E in Hb. discriminate.
    + (* a claimed end: the token moves into the queue *)
      exists hid, None, [QClose e true].
      destruct (enq_fields (set_handle x hid None) (QClose e true)) as (F1 & F2 & F3 & F4 & F5 & F6).
      destruct (set_handle_fields x hid None) as (G2 & G3 & G4 & G5 & G6).
      rewrite F1, F2, F3, F4, F5, set_handle_core, G2, G3, G4, G5, E.
      split; [intros [e0 He0]; discriminate|]. repeat (split; [reflexivity|]).
      split; [intros e0; cbn; unfold tok_handle, nq; cbn; rewrite andb_true_r; destruct (bool_decide (e = e0)); reflexivity|].
      split.
      * eapply hfresh_upd; [exact Hf|rewrite F1; apply set_handle_core|rewrite F6, G6; lia|]. intros [? ?]; discriminate.
      * eapply AI_drop_claimed; eassumption.
  - (* AUnbind *)
    destruct (k_handles (c_core x) !! hid) as [[e [| | |]]|] eqn:E; try discriminate.
    inversion H; subst x2; clear H.
    exists hid, None, [].
    destruct (set_handle_fields x hid None) as (G2 & G3 & G4 & G5 & G6).
    rewrite set_handle_core, G2, G3, G4, G5, E, app_nil_r.
    split; [intros [e0 He0]; discriminate|]. repeat (split; [reflexivity|]).
    split; [intros e0; cbn; unfold tok_handle; cbn; rewrite andb_false_r; reflexivity|].
    split.
    + eapply hfresh_upd; [exact Hf|apply set_handle_core|rewrite G6; lia|]. intros [? ?]; discriminate.
    + apply AI_upd_handle; [exact I|rewrite E; intros [e0 He0]; discriminate|intros [e0 He0]; discriminate| |].
      * intros e0. rewrite E. cbn. unfold tok_handle. cbn. rewrite andb_false_r. reflexivity.
      * intros e0 [b Hb]. rewrite E in Hb. discriminate.
  - (* AEstablish *)
    destruct (k_handles (c_core x) !! hid) as [[e [| | |[]]]|] eqn:E; try discriminate.
    destruct (ent (c_core x) e) as [[]|]; try discriminate; inversion H; subst x2; clear H;
      (exists hid, (Some {| h_end := e; h_kind := HClaimed true |}), [];
       destruct (set_handle_fields x hid (Some {| h_end := e; h_kind := HClaimed true |})) as (G2 & G3 & G4 & G5 & G6);
       rewrite set_handle_core, G2, G3, G4, G5, E, app_nil_r;
       split; [intros [e0 He0]; discriminate|]; repeat (split; [reflexivity|]);
       split; [intros e0; cbn; unfold tok_handle; cbn; lia|];
       split;
       [ eapply hfresh_upd; [exact Hf|apply set_handle_core|rewrite G6; lia|]; intros _; rewrite G6; apply Hf; rewrite E; eauto
       | apply AI_upd_handle; [exact I|rewrite E; intros [e0 He0]; discriminate|intros [e0 He0]; discriminate| |];
         [ intros e0; rewrite E; cbn; unfold tok_handle; cbn; reflexivity
         | intros e0 [b Hb]; rewrite E in Hb; inversion Hb; subst; exists true; reflexivity ] ]).
  - (* ASend *)
    destruct (k_handles (c_core x) !! hid) as [[[] [| | |[]]]|] eqn:E; try discriminate.
    inversion H; subst x2; clear H.
    exists hid, (Some {| h_end := ESender; h_kind := HClaimed true |}), [QSend v].
    destruct (enq_fields x (QSend v)) as (F1 & F2 & F3 & F4 & F5 & F6).
    rewrite F1, F2, F3, F4, F5, E.
    split; [intros [e0 He0]; discriminate|].
    split; [destruct (c_core x) as [es er pc pk hs]; cbn in *; unfold set; cbn; rewrite insert_id by exact E; reflexivity|].
    repeat (split; [reflexivity|]).
    split; [intros e0; cbn; unfold nq; cbn; lia|].
    split; [intros h Hh; rewrite F1 in Hh; rewrite F6; apply Hf; exact Hh|].
    eapply AI_enq_send; eassumption.
  - (* AAddCap *)
    destruct (k_handles (c_core x) !! hid) as [[[] [| | |[]]]|] eqn:E; try discriminate.
    inversion H; subst x2; clear H.
    exists hid, (Some {| h_end := EReceiver; h_kind := HClaimed true |}), [QAddCap n].
    destruct (enq_fields x (QAddCap n)) as (F1 & F2 & F3 & F4 & F5 & F6).
    rewrite F1, F2, F3, F4, F5, E.
    split; [intros [e0 He0]; discriminate|].
    split; [destruct (c_core x) as [es er pc pk hs]; cbn in *; unfold set; cbn; rewrite insert_id by exact E; reflexivity|].
    repeat (split; [reflexivity|]).
    split; [intros e0; cbn; unfold nq; cbn; lia|].
    split; [intros h Hh; rewrite F1 in Hh; rewrite F6; apply Hf; exact Hh|].
    eapply AI_enq_addcap; eassumption.
Qed.

(* ---------------------------------------------------------------- draining commutes with what the client side does *)
Lemma deliver_upd_h x hid0 ok hid o :
  hid0 <> hid ->
  deliver (x <| k_handles ::= upd_h hid o |>) hid0 ok = deliver x hid0 ok <| k_handles ::= upd_h hid o |>.
Proof.
  intros Hne. destruct x as [es er pc pk hs]. unfold deliver. cbn.
  rewrite upd_h_lookup_ne by exact Hne.
  destruct (hs !! hid0) as [[e0 [| | |]]|]; try reflexivity.
  unfold set; cbn. f_equal. destruct o; cbn.
  - apply insert_commute. congruence.
  - symmetry. apply delete_insert_ne. congruence.
Qed.

Lemma crecv_upd_h x m x' hid o :
  crecv fl x m = ROk x' -> (forall s e, k_pclaim x !! s <> Some (e, hid)) ->
  crecv fl (x <| k_handles ::= upd_h hid o |>) m = ROk (x' <| k_handles ::= upd_h hid o |>) /\
  (forall s e, k_pclaim x' !! s <> Some (e, hid)).
Proof.
  intros H Hno. destruct m; cbn in H; try discriminate.
  - (* CloseChannelEndReply *)
    destruct x as [es er pc pk hs]. cbn in *.
    destruct (pc !! serial) as [[e claimed]|] eqn:E; cbn in H |- *; [|discriminate].
    destruct claimed; cbn in H |- *.
    + destruct e; cbn in H |- *.
      * destruct es; cbn in H |- *; [inversion H; subst; split; [reflexivity|exact Hno]|].
        destruct (fl_close_asserts fl); [discriminate|]. inversion H; subst. split; [reflexivity|exact Hno].
      * destruct er; cbn in H |- *; [inversion H; subst; split; [reflexivity|exact Hno]|].
        destruct (fl_close_asserts fl); [discriminate|]. inversion H; subst. split; [reflexivity|exact Hno].
    + inversion H; subst. split; [reflexivity|exact Hno].
  - (* ChannelEndClosed *)
    destruct x as [es er pc pk hs]. destruct e; cbn in *.
    + destruct er as [[]|]; try discriminate; inversion H; subst; (split; [reflexivity|exact Hno]).
    + destruct es as [[]|]; try discriminate; inversion H; subst; (split; [reflexivity|exact Hno]).
  - (* ClaimChannelEndReply *)
    destruct (k_pclaim x !! serial) as [[e hid0]|] eqn:E; cbn in H; [|discriminate].
    assert (Hne : hid0 <> hid) by (intros ->; eapply Hno; exact E).
    assert (Hpk : k_pclaim (x <| k_handles ::= upd_h hid o |>) = k_pclaim x) by (destruct x; reflexivity).
    cbn. rewrite E. cbn.
    assert (Hno' : forall x1 ok, k_pclaim x1 = delete serial (k_pclaim x) -> forall s e0, k_pclaim (deliver x1 hid0 ok) !! s <> Some (e0, hid)).
    { intros x1 ok Hx1 s e0. assert (k_pclaim (deliver x1 hid0 ok) = k_pclaim x1) as ->.
      { unfold deliver. destruct (k_handles x1 !! hid0) as [[? [| | |]]|]; try reflexivity; destruct x1; reflexivity. }
      rewrite Hx1. intros Hs. apply lookup_delete_Some in Hs. eapply Hno. apply Hs. }
    destruct e, r; cbn in H |- *; try discriminate.
    + destruct (k_es x) eqn:Ee; [discriminate|]. inversion H; subst x'. split.
      * rewrite <- deliver_upd_h by exact Hne. destruct x; reflexivity.
      * apply Hno'. destruct x; reflexivity.
    + inversion H; subst x'. split.
      * rewrite <- deliver_upd_h by exact Hne. destruct x; reflexivity.
      * apply Hno'. destruct x; reflexivity.
    + inversion H; subst x'. split.
      * rewrite <- deliver_upd_h by exact Hne. destruct x; reflexivity.
      * apply Hno'. destruct x; reflexivity.
    + destruct (k_er x) eqn:Ee; [discriminate|]. inversion H; subst x'. split.
      * rewrite <- deliver_upd_h by exact Hne. destruct x; reflexivity.
      * apply Hno'. destruct x; reflexivity.
    + inversion H; subst x'. split.
      * rewrite <- deliver_upd_h by exact Hne. destruct x; reflexivity.
      * apply Hno'. destruct x; reflexivity.
    + inversion H; subst x'. split.
      * rewrite <- deliver_upd_h by exact Hne. destruct x; reflexivity.
      * apply Hno'. destruct x; reflexivity.
  - (* ChannelEndClaimed *)
    destruct x as [es er pc pk hs]. destruct e; cbn in *.
    + destruct er as [[]|]; try discriminate; inversion H; subst; (split; [reflexivity|exact Hno]).
    + destruct es as [[]|]; try discriminate; inversion H; subst; (split; [reflexivity|exact Hno]).
  - destruct x as [es er pc pk hs]. cbn in *. destruct es as [[]|]; try discriminate; inversion H; subst; (split; [reflexivity|exact Hno]).
  - destruct x as [es er pc pk hs]. cbn in *. destruct er as [[]|]; try discriminate; inversion H; subst; (split; [reflexivity|exact Hno]).
Qed.

Lemma cdrain_upd_h d : forall x x' hid o,
  cdrain x d = ROk x' -> (forall s e, k_pclaim x !! s <> Some (e, hid)) ->
  cdrain (x <| k_handles ::= upd_h hid o |>) d = ROk (x' <| k_handles ::= upd_h hid o |>).
Proof.
  induction d as [|m d IH]; intros x x' hid o H Hno; cbn [cdrain] in *.
  - inversion H; subst. reflexivity.
  - destruct (crecv fl x m) as [x1| |] eqn:E; try discriminate.
    destruct (crecv_upd_h _ _ _ hid o E Hno) as [E' Hno']. rewrite E'. apply IH; assumption.
Qed.

Lemma deliver_pclose x hid ok f : deliver (x <| k_pclose ::= f |>) hid ok = deliver x hid ok <| k_pclose ::= f |>.
Proof. destruct x as [es er pc pk hs]. unfold deliver. cbn. destruct (hs !! hid) as [[? [| | |]]|]; reflexivity. Qed.
Lemma deliver_pclaim x hid ok f : deliver (x <| k_pclaim ::= f |>) hid ok = deliver x hid ok <| k_pclaim ::= f |>.
Proof. destruct x as [es er pc pk hs]. unfold deliver. cbn. destruct (hs !! hid) as [[? [| | |]]|]; reflexivity. Qed.
Lemma deliver_fields x hid ok :
  k_pclose (deliver x hid ok) = k_pclose x /\ k_pclaim (deliver x hid ok) = k_pclaim x /\
  k_es (deliver x hid ok) = k_es x /\ k_er (deliver x hid ok) = k_er x.
Proof. destruct x as [es er pc pk hs]. unfold deliver. cbn. destruct (hs !! hid) as [[? [| | |]]|]; repeat split. Qed.

Lemma crecv_ins_pclose x m x' s p :
  crecv fl x m = ROk x' -> k_pclose x !! s = None ->
  crecv fl (x <| k_pclose ::= <[s := p]> |>) m = ROk (x' <| k_pclose ::= <[s := p]> |>) /\ k_pclose x' !! s = None.
Proof.
  intros H Hs. destruct m; cbn in H; try discriminate.
  - destruct x as [es er pc pk hs]. cbn in *.
    destruct (pc !! serial) as [[e claimed]|] eqn:E; cbn in H; [|discriminate].
    assert (serial <> s) by (intros ->; congruence).
    rewrite lookup_insert_ne by congruence. rewrite E. cbn.
    destruct claimed; cbn in H |- *.
    + destruct e; cbn in H |- *.
      * destruct es; cbn in H |- *; [|destruct (fl_close_asserts fl); [discriminate|]]; inversion H; subst; cbn;
          (split; [unfold set; cbn; rewrite delete_insert_ne by congruence; reflexivity|rewrite lookup_delete_ne by congruence; exact Hs]).
      * destruct er; cbn in H |- *; [|destruct (fl_close_asserts fl); [discriminate|]]; inversion H; subst; cbn;
          (split; [unfold set; cbn; rewrite delete_insert_ne by congruence; reflexivity|rewrite lookup_delete_ne by congruence; exact Hs]).
    + inversion H; subst; cbn.
      split; [unfold set; cbn; rewrite delete_insert_ne by congruence; reflexivity|rewrite lookup_delete_ne by congruence; exact Hs].
  - destruct x as [es er pc pk hs]. destruct e; cbn in *.
    + destruct er as [[]|]; try discriminate; inversion H; subst; (split; [reflexivity|exact Hs]).
    + destruct es as [[]|]; try discriminate; inversion H; subst; (split; [reflexivity|exact Hs]).
  - destruct (k_pclaim x !! serial) as [[e hid0]|] eqn:E; cbn in H; [|discriminate].
    cbn. rewrite E. cbn.
    destruct e, r; cbn in H |- *; try discriminate.
    + destruct (k_es x) eqn:Ee; [discriminate|]. inversion H; subst x'. split.
      * rewrite <- deliver_pclose. destruct x; reflexivity.
      * destruct (deliver_fields (x <| k_pclaim ::= delete serial |> <| k_es := Some EEstablished |>) hid0 true) as (F & _). rewrite F. destruct x; exact Hs.
    + inversion H; subst x'. split; [rewrite <- deliver_pclose; destruct x; reflexivity|].
      destruct (deliver_fields (x <| k_pclaim ::= delete serial |>) hid0 false) as (F & _). rewrite F. destruct x; exact Hs.
    + inversion H; subst x'. split; [rewrite <- deliver_pclose; destruct x; reflexivity|].
      destruct (deliver_fields (x <| k_pclaim ::= delete serial |>) hid0 false) as (F & _). rewrite F. destruct x; exact Hs.
    + destruct (k_er x) eqn:Ee; [discriminate|]. inversion H; subst x'. split.
      * rewrite <- deliver_pclose. destruct x; reflexivity.
      * destruct (deliver_fields (x <| k_pclaim ::= delete serial |> <| k_er := Some EEstablished |>) hid0 true) as (F & _). rewrite F. destruct x; exact Hs.
    + inversion H; subst x'. split; [rewrite <- deliver_pclose; destruct x; reflexivity|].
      destruct (deliver_fields (x <| k_pclaim ::= delete serial |>) hid0 false) as (F & _). rewrite F. destruct x; exact Hs.
    + inversion H; subst x'. split; [rewrite <- deliver_pclose; destruct x; reflexivity|].
      destruct (deliver_fields (x <| k_pclaim ::= delete serial |>) hid0 false) as (F & _). rewrite F. destruct x; exact Hs.
  - destruct x as [es er pc pk hs]. destruct e; cbn in *.
    + destruct er as [[]|]; try discriminate; inversion H; subst; (split; [reflexivity|exact Hs]).
    + destruct es as [[]|]; try discriminate; inversion H; subst; (split; [reflexivity|exact Hs]).
  - destruct x as [es er pc pk hs]. cbn in *. destruct es as [[]|]; try discriminate; inversion H; subst; (split; [reflexivity|exact Hs]).
  - destruct x as [es er pc pk hs]. cbn in *. destruct er as [[]|]; try discriminate; inversion H; subst; (split; [reflexivity|exact Hs]).
Qed.

Lemma cdrain_ins_pclose d : forall x x' s p,
  cdrain x d = ROk x' -> k_pclose x !! s = None ->
  cdrain (x <| k_pclose ::= <[s := p]> |>) d = ROk (x' <| k_pclose ::= <[s := p]> |>) /\ k_pclose x' !! s = None.
Proof.
  induction d as [|m d IH]; intros x x' s p H Hs; cbn [cdrain] in *.
  - inversion H; subst. split; [reflexivity|exact Hs].
  - destruct (crecv fl x m) as [x1| |] eqn:E; try discriminate.
    destruct (crecv_ins_pclose _ _ _ s p E Hs) as [E' Hs']. rewrite E'. apply IH; assumption.
Qed.

Lemma crecv_ins_pclaim x m x' s p :
  crecv fl x m = ROk x' -> k_pclaim x !! s = None ->
  crecv fl (x <| k_pclaim ::= <[s := p]> |>) m = ROk (x' <| k_pclaim ::= <[s := p]> |>) /\ k_pclaim x' !! s = None.
Proof.
  intros H Hs. destruct m; cbn in H; try discriminate.
  - destruct x as [es er pc pk hs]. cbn in *.
    destruct (pc !! serial) as [[e claimed]|] eqn:E; cbn in H |- *; [|discriminate].
    destruct claimed; cbn in H |- *.
    + destruct e; cbn in H |- *.
      * destruct es; cbn in H |- *; [|destruct (fl_close_asserts fl); [discriminate|]]; inversion H; subst; (split; [reflexivity|exact Hs]).
      * destruct er; cbn in H |- *; [|destruct (fl_close_asserts fl); [discriminate|]]; inversion H; subst; (split; [reflexivity|exact Hs]).
    + inversion H; subst; (split; [reflexivity|exact Hs]).
  - destruct x as [es er pc pk hs]. destruct e; cbn in *.
    + destruct er as [[]|]; try discriminate; inversion H; subst; (split; [reflexivity|exact Hs]).
    + destruct es as [[]|]; try discriminate; inversion H; subst; (split; [reflexivity|exact Hs]).
  - destruct (k_pclaim x !! serial) as [[e hid0]|] eqn:E; cbn in H; [|discriminate].
    assert (serial <> s) by (intros ->; congruence).
    assert (Hl : k_pclaim (x <| k_pclaim ::= <[s := p]> |>) !! serial = Some (e, hid0)).
    { destruct x as [es er pc pk hs]. cbn in *. rewrite lookup_insert_ne by congruence. exact E. }
    cbn. cbn in Hl. rewrite Hl. cbn.
    assert (Hdel : forall x1 ok, k_pclaim x1 = delete serial (k_pclaim x) -> k_pclaim (deliver x1 hid0 ok) !! s = None).
    { intros x1 ok Hx1. destruct (deliver_fields x1 hid0 ok) as (_ & F & _). rewrite F, Hx1.
      rewrite lookup_delete_ne by congruence. exact Hs. }
    assert (Hcomm : forall (y : ccore), (y <| k_pclaim ::= <[s := p]> |> <| k_pclaim ::= delete serial |>)
                                        = (y <| k_pclaim ::= delete serial |> <| k_pclaim ::= <[s := p]> |>)).
    { intros [es er pc pk hs]. unfold set; cbn. f_equal. apply delete_insert_ne. congruence. }
    destruct e, r; cbn in H |- *; try discriminate.
    + destruct (k_es x) eqn:Ee; [discriminate|].
      inversion H; subst x'. split; [|apply Hdel; destruct x; reflexivity].
      rewrite <- deliver_pclaim. f_equal. f_equal. destruct x; unfold set; cbn. f_equal. apply delete_insert_ne. congruence.
    + inversion H; subst x'. split; [|apply Hdel; destruct x; reflexivity].
      rewrite <- deliver_pclaim. f_equal. f_equal. apply Hcomm.
    + inversion H; subst x'. split; [|apply Hdel; destruct x; reflexivity].
      rewrite <- deliver_pclaim. f_equal. f_equal. apply Hcomm.
    + destruct (k_er x) eqn:Ee; [discriminate|].
      inversion H; subst x'. split; [|apply Hdel; destruct x; reflexivity].
      rewrite <- deliver_pclaim. f_equal. f_equal. destruct x; unfold set; cbn. f_equal. apply delete_insert_ne. congruence.
    + inversion H; subst x'. split; [|apply Hdel; destruct x; reflexivity].
      rewrite <- deliver_pclaim. f_equal. f_equal. apply Hcomm.
    + inversion H; subst x'. split; [|apply Hdel; destruct x; reflexivity].
      rewrite <- deliver_pclaim. f_equal. f_equal. apply Hcomm.
  - destruct x as [es er pc pk hs]. destruct e; cbn in *.
    + destruct er as [[]|]; try discriminate; inversion H; subst; (split; [reflexivity|exact Hs]).
    + destruct es as [[]|]; try discriminate; inversion H; subst; (split; [reflexivity|exact Hs]).
  - destruct x as [es er pc pk hs]. cbn in *. destruct es as [[]|]; try discriminate; inversion H; subst; (split; [reflexivity|exact Hs]).
  - destruct x as [es er pc pk hs]. cbn in *. destruct er as [[]|]; try discriminate; inversion H; subst; (split; [reflexivity|exact Hs]).
Qed.

Lemma cdrain_ins_pclaim d : forall x x' s p,
  cdrain x d = ROk x' -> k_pclaim x !! s = None ->
  cdrain (x <| k_pclaim ::= <[s := p]> |>) d = ROk (x' <| k_pclaim ::= <[s := p]> |>) /\ k_pclaim x' !! s = None.
Proof.
  induction d as [|m d IH]; intros x x' s p H Hs; cbn [cdrain] in *.
  - inversion H; subst. split; [reflexivity|exact Hs].
  - destruct (crecv fl x m) as [x1| |] eqn:E; try discriminate.
    destruct (crecv_ins_pclaim _ _ _ s p E Hs) as [E' Hs']. rewrite E'. apply IH; assumption.
Qed.

(* ---------------------------------------------------------------- what consuming never does *)
Definition sub_core (x x' : ccore) : Prop :=
  (forall s, is_Some (k_pclose x' !! s) -> is_Some (k_pclose x !! s)) /\
  (forall s, is_Some (k_pclaim x' !! s) -> is_Some (k_pclaim x !! s)) /\
  (forall hid, is_Some (k_handles x' !! hid) <-> is_Some (k_handles x !! hid)) /\
  (forall hid h, k_handles x !! hid = Some h -> ~ claiming (Some h) -> k_handles x' !! hid = Some h).

Lemma sub_core_refl x : sub_core x x.
Proof. repeat split; auto. Qed.

Lemma sub_core_trans x1 x2 x3 : sub_core x1 x2 -> sub_core x2 x3 -> sub_core x1 x3.
Proof.
  intros (A1 & A2 & A3 & A4) (B1 & B2 & B3 & B4). repeat split; auto.
  - intros H. apply A3, B3. exact H.
  - intros H. apply B3, A3. exact H.
Qed.

Lemma sub_core_set_ent x e v : sub_core x (set_ent x e v).
Proof. destruct x as [es er pc pk hs], e; unfold sub_core; cbn; repeat split; auto. Qed.

Lemma deliver_sub x hid ok : sub_core x (deliver x hid ok).
Proof.
  destruct (deliver_fields x hid ok) as (F1 & F2 & _). unfold sub_core. rewrite F1, F2.
  split; [auto|]. split; [auto|]. unfold deliver.
  destruct (k_handles x !! hid) as [[e [| | |]]|] eqn:E; try (split; [tauto|auto]).
  assert (Hk : k_handles (x <| k_handles ::= <[hid:={| h_end := e; h_kind := HResult ok |}]> |>)
               = <[hid:={| h_end := e; h_kind := HResult ok |}]> (k_handles x)) by (destruct x; reflexivity).
  rewrite Hk. split.
  - intros h. destruct (decide (h = hid)) as [->|Hne].
    + rewrite lookup_insert, E. split; eauto.
    + rewrite lookup_insert_ne by congruence. tauto.
  - intros h h0 Hh Hnc'. destruct (decide (h = hid)) as [->|Hne].
    + rewrite E in Hh. inversion Hh; subst. exfalso. apply Hnc'. eexists. reflexivity.
    + rewrite lookup_insert_ne by congruence. exact Hh.
Qed.

Lemma crecv_sub x m x' : crecv fl x m = ROk x' -> sub_core x x'.
Proof.
  intros H. destruct m; cbn in H; try discriminate.
  - destruct (k_pclose x !! serial) as [[e claimed]|] eqn:E; cbn in H; [|discriminate].
    assert (Hd : sub_core x (x <| k_pclose ::= delete serial |>)).
    { destruct x as [es er pc pk hs]. unfold sub_core; cbn. split; [|repeat split; auto].
      intros s [v Hv]. apply lookup_delete_Some in Hv. destruct Hv. eauto. }
    destruct claimed; cbn in H.
    + destruct (ent x e); [|destruct (fl_close_asserts fl); [discriminate|]]; inversion H; subst; [|exact Hd].
      eapply sub_core_trans; [exact Hd|apply sub_core_set_ent].
    + inversion H; subst. exact Hd.
  - destruct (ent x (other_end e)) as [[]|]; try discriminate; inversion H; subst; apply sub_core_set_ent.
  - destruct (k_pclaim x !! serial) as [[e hid0]|] eqn:E; cbn in H; [|discriminate].
    assert (Hd : sub_core x (x <| k_pclaim ::= delete serial |>)).
    { destruct x as [es er pc pk hs]. unfold sub_core; cbn. split; [auto|]. split; [|repeat split; auto].
      intros s [v Hv]. apply lookup_delete_Some in Hv. destruct Hv. eauto. }
    assert (Hd' : forall st, sub_core x (set_ent (x <| k_pclaim ::= delete serial |>) e st)).
    { intros st. eapply sub_core_trans; [exact Hd|apply sub_core_set_ent]. }
    destruct e, r; cbn in H; try discriminate.
    + destruct (k_es x); [discriminate|]. inversion H; subst. eapply sub_core_trans; [apply (Hd' (Some EEstablished))|apply deliver_sub].
    + inversion H; subst. eapply sub_core_trans; [exact Hd|apply deliver_sub].
    + inversion H; subst. eapply sub_core_trans; [exact Hd|apply deliver_sub].
    + destruct (k_er x); [discriminate|]. inversion H; subst. eapply sub_core_trans; [apply (Hd' (Some EEstablished))|apply deliver_sub].
    + inversion H; subst. eapply sub_core_trans; [exact Hd|apply deliver_sub].
    + inversion H; subst. eapply sub_core_trans; [exact Hd|apply deliver_sub].
  - destruct (ent x (other_end (end_of_cap e))) as [[]|]; try discriminate; inversion H; subst; apply sub_core_set_ent.
  - destruct (k_es x) as [[]|]; try discriminate; inversion H; subst; apply sub_core_refl.
  - destruct (k_er x) as [[]|]; try discriminate; inversion H; subst; apply sub_core_refl.
Qed.

Lemma cdrain_sub d : forall x x', cdrain x d = ROk x' -> sub_core x x'.
Proof.
  induction d as [|m d IH]; intros x x' H; cbn [cdrain] in H.
  - inversion H; subst. apply sub_core_refl.
  - destruct (crecv fl x m) as [x1| |] eqn:E; try discriminate.
    eapply sub_core_trans; [eapply crecv_sub; exact E|apply IH; exact H].
Qed.

(* a handle whose claim is not running looks the same before and after draining *)
Lemma drained_handle x z hid :
  sub_core x z -> ~ claiming (k_handles x !! hid) -> k_handles z !! hid = k_handles x !! hid.
Proof.
  intros (_ & _ & S3 & S4) Hn. destruct (k_handles x !! hid) as [h|] eqn:E.
  - apply S4; [exact E|exact Hn].
  - destruct (k_handles z !! hid) eqn:E'; [|reflexivity].
    assert (is_Some (k_handles x !! hid)) by (apply S3; eauto). rewrite E in H. destruct H. discriminate.
Qed.

(* ---------------------------------------------------------------- the system invariant *)
Definition up_serial (m : msg) : option N :=
  match m with CloseChannelEnd s _ _ | ClaimChannelEnd s _ _ => Some s | _ => None end.
Definition is_upmsg (m : msg) : Prop :=
  match m with
  | CloseChannelEnd _ c _ | ClaimChannelEnd _ c _ | SendItem c _ | AddChannelCapacity c _ => c = k
  | _ => False
  end.

(* [z] = the client's core after it will have consumed everything in flight towards it *)
Record LI (x : cl) (z : ccore) : Prop := {
  li_drain : cdrain (c_core x) (c_down x) = ROk z;
  li_ai : AI (c_core x) (c_q x);
  li_hfresh : hfresh x;
  li_pclose_up : forall s e b, k_pclose z !! s = Some (e, b) -> CloseChannelEnd s k e ∈ c_up x;
  li_up_pclose : forall s e, CloseChannelEnd s k e ∈ c_up x -> exists b, k_pclose z !! s = Some (e, b);
  li_pclaim_up : forall s e hid, k_pclaim z !! s = Some (e, hid) -> exists cap, ClaimChannelEnd s k (cap_end e cap) ∈ c_up x;
  li_up_pclaim : forall s ec, ClaimChannelEnd s k ec ∈ c_up x -> exists hid, k_pclaim z !! s = Some (end_of_cap ec, hid);
  li_up_only : forall m, m ∈ c_up x -> is_upmsg m;
  li_nodup : NoDup (omap up_serial (c_up x));
  li_fresh_up : forall s, s ∈ omap up_serial (c_up x) -> s < c_next x;
  li_fresh_pclose : forall s, is_Some (k_pclose (c_core x) !! s) -> s < c_next x;
  li_fresh_pclaim : forall s, is_Some (k_pclaim (c_core x) !! s) -> s < c_next x }.

Definition end_st (ch : chan) (e : chan_end) : end_state := match e with ESender => ch_s ch | EReceiver => ch_r ch end.
Definition st_of (s : end_state) : est :=
  match s with Unclaimed => EPending | Claimed _ _ => EEstablished | Closed => EPeerClosed end.

(* [skip] = an end the broker is about to close: nothing is required about it *)
Definition linkx (skip : option chan_end) (ch : option chan) (c : conn) (z : ccore) (q : list hreq) : Prop :=
  match ch with
  | None => True
  | Some ch => forall e, skip <> Some e ->
      (forall cap, end_st ch e = Claimed c cap ->
                   tokens z q e = 1%nat /\ ent z e = Some (st_of (end_st ch (other_end e)))) /\
      (end_st ch e = Unclaimed -> tokens z q e = 0%nat)
  end.
Definition link := linkx None.

Definition PI (skip : option chan_end) (cls : gmap conn cl) (ch : option chan) : Prop :=
  forall c x, cls !! c = Some x -> exists z, LI x z /\ linkx skip ch c z (c_q x).

Definition CI (y : csys) : Prop := y_k y = k /\ PI None (y_cl y) (y_ch y).

Lemma LI_drained_AI x z : LI x z -> AI z (c_q x).
Proof. intros I. eapply cdrain_AI; [apply (li_ai _ _ I)|apply (li_drain _ _ I)]. Qed.

(* a link only looks at tokens and entries *)
Lemma link_same skip ch c z q z' q' :
  linkx skip ch c z q -> (forall e, tokens z' q' e = tokens z q e) -> (forall e, ent z' e = ent z e) -> linkx skip ch c z' q'.
Proof.
  intros L Ht He. destruct ch as [ch|]; [|exact Logic.I]. intros e Hs. rewrite Ht, He. apply L. exact Hs.
Qed.

Lemma linkx_weaken skip ch c z q : linkx None ch c z q -> linkx skip ch c z q.
Proof. destruct ch as [ch|]; [|auto]. intros L e _. apply L. discriminate. Qed.

(* ---------------------------------------------------------------- SRecv *)
Lemma LI_recv x z m d k' :
  LI x z -> c_down x = m :: d -> crecv fl (c_core x) m = ROk k' ->
  LI (x <| c_down := d |> <| c_core := k' |>) z.
Proof.
  intros I Hd Hr. destruct I as [I1 I2 I3 I4 I5 I6 I7 I8 I9 I10 I11 I12].
  rewrite Hd in I1. cbn [cdrain] in I1. rewrite Hr in I1.
  pose proof (crecv_sub _ _ _ Hr) as (S1 & S2 & S3 & S4).
  destruct x as [core nx nh q up dn]. cbn in *. constructor; cbn; try assumption.
  - eapply crecv_AI; eassumption.
  - intros hid Hs. apply I3. cbn. apply S3. exact Hs.
  - intros s Hs. apply I11. apply S1. exact Hs.
  - intros s Hs. apply I12. apply S2. exact Hs.
Qed.

Lemma recv_accepts x z m d :
  LI x z -> c_down x = m :: d -> exists k', crecv fl (c_core x) m = ROk k'.
Proof.
  intros I Hd. pose proof (li_drain _ _ I) as H. rewrite Hd in H. cbn [cdrain] in H.
  destruct (crecv fl (c_core x) m); try discriminate. eauto.
Qed.

(* ---------------------------------------------------------------- SApp *)
Lemma LI_app x z o x2 :
  LI x z -> app_step fl x o = Some x2 ->
  exists z2, LI x2 z2 /\ (forall e, tokens z2 (c_q x2) e = tokens z (c_q x) e) /\ (forall e, ent z2 e = ent z e).
Proof.
  intros I Ha. destruct (app_effect x o x2 Ha (li_hfresh _ _ I) (li_ai _ _ I))
    as (hid & onew & reqs & Hncl & Hcore & Hq & Hnx & Hup & Hdn & Hneutral & Hfr & Hai).
  pose proof (li_drain _ _ I) as Hd.
  assert (Hno : forall s e, k_pclaim (c_core x) !! s <> Some (e, hid)).
  { intros s e Hs. apply Hncl. exists e. eapply (ai_claim_h _ _ (li_ai _ _ I)). exact Hs. }
  pose proof (cdrain_upd_h _ _ _ hid onew Hd Hno) as Hd2.
  exists (z <| k_handles ::= upd_h hid onew |>).
  pose proof (cdrain_sub _ _ _ Hd) as Hsub.
  assert (Hzh : k_handles z !! hid = k_handles (c_core x) !! hid) by (apply drained_handle; assumption).
  split; [|split].
  - destruct I as [I1 I2 I3 I4 I5 I6 I7 I8 I9 I10 I11 I12]. constructor.
    + rewrite Hcore, Hdn. exact Hd2.
    + exact Hai.
    + exact Hfr.
    + rewrite Hup. intros s e b Hs. eapply I4. destruct z; exact Hs.
    + rewrite Hup. intros s e Hin. destruct (I5 _ _ Hin) as [b Hb]. exists b. destruct z; exact Hb.
    + rewrite Hup. intros s e h Hs. eapply I6. destruct z; exact Hs.
    + rewrite Hup. intros s ec Hin. destruct (I7 _ _ Hin) as [h Hh]. exists h. destruct z; exact Hh.
    + rewrite Hup. exact I8.
    + rewrite Hup. exact I9.
    + rewrite Hup, Hnx. exact I10.
    + rewrite Hcore, Hnx. intros s Hs. apply I11. destruct (c_core x); exact Hs.
    + rewrite Hcore, Hnx. intros s Hs. apply I12. destruct (c_core x); exact Hs.
  - intros e. rewrite Hq. pose proof (tokens_upd_h z (c_q x ++ reqs) hid onew e) as Ht. rewrite Hzh in Ht.
    specialize (Hneutral e).
    assert (tokens z (c_q x ++ reqs) e = (tokens z (c_q x) e + nq e reqs)%nat) by (unfold tokens; rewrite nq_app; lia).
    lia.
  - intros e. apply ent_upd_h.
Qed.

(* ---------------------------------------------------------------- SProc *)
Lemma AI_tail_common x x' r q :
  AI x (r :: q) -> k_handles x' = k_handles x ->
  (forall q1 v q2, q = q1 ++ QSend v :: q2 ->
     (exists hid b, k_handles x' !! hid = Some {| h_end := ESender; h_kind := HClaimed b |}) \/ QClose ESender true ∈ q2) /\
  (forall q1 n q2, q = q1 ++ QAddCap n :: q2 ->
     (exists hid b, k_handles x' !! hid = Some {| h_end := EReceiver; h_kind := HClaimed b |}) \/ QClose EReceiver true ∈ q2).
Proof.
  intros I Hh. rewrite Hh. split.
  - intros q1 v q2 Hq. apply (ai_q_send _ _ I (r :: q1) v q2). rewrite Hq. reflexivity.
  - intros q1 n q2 Hq. apply (ai_q_addcap _ _ I (r :: q1) n q2). rewrite Hq. reflexivity.
Qed.

Lemma AI_proc_close x e b q s :
  AI x (QClose e b :: q) -> k_pclose x !! s = None -> AI (x <| k_pclose ::= <[s := (e, b)]> |>) q.
Proof.
  intros I Hs. destruct (AI_tail_common x (x <| k_pclose ::= <[s := (e, b)]> |>) _ _ I ltac:(destruct x; reflexivity)) as [T6 T7].
  destruct I as [I1 I2 I3 I4 I5 I6 I7].
  assert (Hpk : k_pclaim (x <| k_pclose ::= <[s := (e, b)]> |>) = k_pclaim x) by (destruct x; reflexivity).
  assert (Hhs : k_handles (x <| k_pclose ::= <[s := (e, b)]> |>) = k_handles x) by (destruct x; reflexivity).
  constructor; rewrite ?Hpk, ?Hhs; try assumption.
  - intros e'. rewrite (tokens_ins_pclose x q s e b e' Hs).
    assert (Hq : tokens x (QClose e b :: q) e' = (tokens x q e' + if tok_close e' (e, b) then 1 else 0)%nat).
    { unfold tokens. rewrite nq_cons. unfold tok_req, tok_close. cbn.
      destruct b; cbn; [rewrite ?andb_true_r; destruct (bool_decide (e = e')); lia|rewrite ?andb_false_r; lia]. }
    assert (He : ent (x <| k_pclose ::= <[s := (e, b)]> |>) e' = ent x e') by (destruct x, e'; reflexivity).
    rewrite He, <- Hq. apply I1.
  - intros e0 cap hid Hin. apply (I4 e0 cap hid). right. exact Hin.
Qed.

Lemma AI_proc_claim x e cap hid q s :
  AI x (QClaim e cap hid :: q) -> k_pclaim x !! s = None -> AI (x <| k_pclaim ::= <[s := (e, hid)]> |>) q.
Proof.
  intros I Hs. destruct (AI_tail_common x (x <| k_pclaim ::= <[s := (e, hid)]> |>) _ _ I ltac:(destruct x; reflexivity)) as [T6 T7].
  destruct I as [I1 I2 I3 I4 I5 I6 I7].
  assert (Hpk : k_pclaim (x <| k_pclaim ::= <[s := (e, hid)]> |>) = <[s := (e, hid)]> (k_pclaim x)) by (destruct x; reflexivity).
  assert (Hhs : k_handles (x <| k_pclaim ::= <[s := (e, hid)]> |>) = k_handles x) by (destruct x; reflexivity).
  destruct (I4 e cap hid ltac:(left)) as [Hh Hnone].
  cbn in I5. apply NoDup_cons in I5. destruct I5 as [Hnotin I5].
  constructor; rewrite ?Hpk, ?Hhs; try assumption.
  - intros s0 e0 hid0 H0. destruct (decide (s0 = s)) as [->|Hne].
    + rewrite lookup_insert in H0. inversion H0; subst. exact Hh.
    + rewrite lookup_insert_ne in H0 by congruence. eapply I2. exact H0.
  - intros s1 s2 e1 e2 hid0 H1 H2.
    destruct (decide (s1 = s)) as [->|Hne1]; destruct (decide (s2 = s)) as [->|Hne2]; [reflexivity| | |].
    + rewrite lookup_insert in H1. inversion H1; subst. rewrite lookup_insert_ne in H2 by congruence. exfalso. eapply Hnone. exact H2.
    + rewrite lookup_insert in H2. inversion H2; subst. rewrite lookup_insert_ne in H1 by congruence. exfalso. eapply Hnone. exact H1.
    + rewrite lookup_insert_ne in H1, H2 by congruence. eapply I3; eassumption.
  - intros e0 cap0 hid0 Hin. destruct (I4 e0 cap0 hid0 ltac:(right; exact Hin)) as [G1 G2]. split; [exact G1|].
    intros s0 e' H0. destruct (decide (s0 = s)) as [->|Hne].
    + rewrite lookup_insert in H0. inversion H0; subst. apply Hnotin.
      apply elem_of_list_omap. eexists. split; [exact Hin|reflexivity].
    + rewrite lookup_insert_ne in H0 by congruence. eapply G2. exact H0.
Qed.

Lemma AI_proc_plain x r q :
  AI x (r :: q) -> qclaim_hid r = None -> (forall e, tok_req e r = false) -> AI x q.
Proof.
  intros I Hr Ht. destruct (AI_tail_common x x _ _ I eq_refl) as [T6 T7].
  destruct I as [I1 I2 I3 I4 I5 I6 I7]. constructor; try assumption.
  - intros e. assert (Hq : tokens x (r :: q) e = tokens x q e) by (unfold tokens; rewrite nq_cons, Ht; lia).
    rewrite <- Hq. apply I1.
  - intros e cap hid Hin. apply (I4 e cap hid). right. exact Hin.
  - cbn in I5. rewrite Hr in I5. exact I5.
Qed.

Lemma held_present x q e hid b :
  AI x q -> k_handles x !! hid = Some {| h_end := e; h_kind := HClaimed b |} -> ent x e <> None.
Proof.
  intros I Hh. apply (ai_tok _ _ I e).
  pose proof (cnt_pos (tok_handle e) (k_handles x) hid _ Hh) as Hp.
  unfold tok_handle in Hp at 1. cbn in Hp. rewrite bool_decide_eq_true_2 in Hp by reflexivity. specialize (Hp eq_refl).
  pose proof (proj1 (ai_tok _ _ I e)). unfold tokens in *. lia.
Qed.

Lemma qclose_present x q1 q2 e :
  AI x (q1 ++ q2) -> QClose e true ∈ q2 -> ent x e <> None.
Proof.
  intros I Hin. apply (ai_tok _ _ I e).
  assert (1 <= nq e (q1 ++ q2))%nat.
  { rewrite nq_app. apply elem_of_list_split in Hin. destruct Hin as (l1 & l2 & ->).
    rewrite nq_app, nq_cons. cbn. rewrite bool_decide_eq_true_2 by reflexivity. lia. }
  pose proof (proj1 (ai_tok _ _ I e)). unfold tokens in *. lia.
Qed.

Lemma LI_proc x z x2 :
  LI x z -> proc_step k x = POk x2 ->
  exists z2, LI x2 z2 /\ (forall e, tokens z2 (c_q x2) e = tokens z (c_q x) e) /\ (forall e, ent z2 e = ent z e).
Proof.
  intros I Hp. unfold proc_step in Hp. destruct (c_q x) as [|r q] eqn:Hq; [discriminate|].
  pose proof (li_drain _ _ I) as Hd. pose proof (li_ai _ _ I) as Hai. rewrite Hq in Hai.
  pose proof (LI_drained_AI _ _ I) as Haz. rewrite Hq in Haz.
  destruct I as [I1 I2 I3 I4 I5 I6 I7 I8 I9 I10 I11 I12].
  assert (Hfc : k_pclose (c_core x) !! c_next x = None).
  { destruct (k_pclose (c_core x) !! c_next x) eqn:E; [|reflexivity]. assert (c_next x < c_next x) by (apply I11; eauto). lia. }
  assert (Hfk : k_pclaim (c_core x) !! c_next x = None).
  { destruct (k_pclaim (c_core x) !! c_next x) eqn:E; [|reflexivity]. assert (c_next x < c_next x) by (apply I12; eauto). lia. }
  assert (Hnotup : c_next x ∉ omap up_serial (c_up x)) by (intros Hin; apply I10 in Hin; lia).
  destruct r as [e b|e cap hid|v|n]; cbn in Hp.
  - (* QClose *)
    inversion Hp; subst x2; clear Hp.
    destruct (cdrain_ins_pclose _ _ _ (c_next x) (e, b) Hd Hfc) as [Hd2 Hz].
    exists (z <| k_pclose ::= <[c_next x := (e, b)]> |>).
    destruct x as [core nx nh q0 up dn]. cbn in *. subst q0. split; [|split].
    + constructor; cbn.
      * exact Hd2.
      * apply AI_proc_close; assumption.
      * intros hid Hs. apply I3. cbn. destruct core; exact Hs.
      * intros s e0 b0 Hs. destruct z as [zes zer zpc zpk zhs]. cbn in *. destruct (decide (s = nx)) as [->|Hne].
        -- rewrite lookup_insert in Hs. inversion Hs; subst. apply elem_of_app. right. apply elem_of_list_singleton. reflexivity.
        -- rewrite lookup_insert_ne in Hs by congruence. apply elem_of_app. left. eapply I4. exact Hs.
      * intros s e0 Hin. destruct z as [zes zer zpc zpk zhs]. cbn in *. apply elem_of_app in Hin. destruct Hin as [Hin|Hin].
        -- destruct (I5 _ _ Hin) as [b0 Hb0]. exists b0. rewrite lookup_insert_ne; [exact Hb0|].
           intros <-. apply Hnotup. apply elem_of_list_omap. eexists. split; [exact Hin|reflexivity].
        -- apply elem_of_list_singleton in Hin. inversion Hin; subst. exists b. apply lookup_insert.
      * intros s e0 hid Hs. destruct (I6 s e0 hid ltac:(destruct z; exact Hs)) as [cap Hc]. exists cap. apply elem_of_app. left. exact Hc.
      * intros s ec Hin. apply elem_of_app in Hin. destruct Hin as [Hin|Hin].
        -- destruct (I7 _ _ Hin) as [h Hh]. exists h. destruct z; exact Hh.
        -- apply elem_of_list_singleton in Hin. discriminate.
      * intros m Hin. apply elem_of_app in Hin. destruct Hin as [Hin|Hin]; [apply I8; exact Hin|].
        apply elem_of_list_singleton in Hin. subst m. reflexivity.
      * rewrite omap_app. cbn. apply NoDup_app. split; [exact I9|]. split; [|apply NoDup_singleton].
        intros s Hin Hin'. apply elem_of_list_singleton in Hin'. subst s. apply Hnotup. exact Hin.
      * intros s. rewrite omap_app. cbn. rewrite elem_of_app, elem_of_list_singleton. intros [Hin | ->]; [apply I10 in Hin|]; lia.
      * intros s Hs. destruct core as [ces cer cpc cpk chs]. cbn in *. destruct (decide (s = nx)) as [->|Hne]; [lia|].
        rewrite lookup_insert_ne in Hs by congruence. apply I11 in Hs. lia.
      * intros s Hs. destruct core as [ces cer cpc cpk chs]. cbn in *. apply I12 in Hs. lia.
    + intros e'. cbn. rewrite (tokens_ins_pclose z q nx e b e' Hz).
      unfold tokens. rewrite nq_cons. unfold tok_req, tok_close. cbn.
      destruct b; cbn; [rewrite ?andb_true_r; destruct (bool_decide (e = e')); lia|rewrite ?andb_false_r; lia].
    + intros e'. destruct z, e'; reflexivity.
  - (* QClaim *)
    inversion Hp; subst x2; clear Hp.
    destruct (cdrain_ins_pclaim _ _ _ (c_next x) (e, hid) Hd Hfk) as [Hd2 Hz].
    exists (z <| k_pclaim ::= <[c_next x := (e, hid)]> |>).
    destruct x as [core nx nh q0 up dn]. cbn in *. subst q0. split; [|split].
    + constructor; cbn.
      * exact Hd2.
      * apply (AI_proc_claim _ e cap hid); assumption.
      * intros h Hs. apply I3. cbn. destruct core; exact Hs.
      * intros s e0 b0 Hs. apply elem_of_app. left. eapply I4. destruct z; exact Hs.
      * intros s e0 Hin. apply elem_of_app in Hin. destruct Hin as [Hin|Hin].
        -- destruct (I5 _ _ Hin) as [b0 Hb0]. exists b0. destruct z; exact Hb0.
        -- apply elem_of_list_singleton in Hin. discriminate.
      * intros s e0 h Hs. destruct z as [zes zer zpc zpk zhs]. cbn in *. destruct (decide (s = nx)) as [->|Hne].
        -- rewrite lookup_insert in Hs. inversion Hs; subst. exists cap. apply elem_of_app. right. apply elem_of_list_singleton. reflexivity.
        -- rewrite lookup_insert_ne in Hs by congruence. destruct (I6 _ _ _ Hs) as [cap0 Hc]. exists cap0. apply elem_of_app. left. exact Hc.
      * intros s ec Hin. destruct z as [zes zer zpc zpk zhs]. cbn in *. apply elem_of_app in Hin. destruct Hin as [Hin|Hin].
        -- destruct (I7 _ _ Hin) as [h Hh]. exists h. rewrite lookup_insert_ne; [exact Hh|].
           intros <-. apply Hnotup. apply elem_of_list_omap. eexists. split; [exact Hin|reflexivity].
        -- apply elem_of_list_singleton in Hin. inversion Hin; subst. exists hid. rewrite lookup_insert. destruct e; reflexivity.
      * intros m Hin. apply elem_of_app in Hin. destruct Hin as [Hin|Hin]; [apply I8; exact Hin|].
        apply elem_of_list_singleton in Hin. subst m. reflexivity.
      * rewrite omap_app. cbn. apply NoDup_app. split; [exact I9|]. split; [|apply NoDup_singleton].
        intros s Hin Hin'. apply elem_of_list_singleton in Hin'. subst s. apply Hnotup. exact Hin.
      * intros s. rewrite omap_app. cbn. rewrite elem_of_app, elem_of_list_singleton. intros [Hin | ->]; [apply I10 in Hin|]; lia.
      * intros s Hs. destruct core as [ces cer cpc cpk chs]. cbn in *. apply I11 in Hs. lia.
      * intros s Hs. destruct core as [ces cer cpc cpk chs]. cbn in *. destruct (decide (s = nx)) as [->|Hne]; [lia|].
        rewrite lookup_insert_ne in Hs by congruence. apply I12 in Hs. lia.
    + intros e'. cbn. rewrite tokens_pclaim. unfold tokens. rewrite nq_cons. cbn. lia.
    + intros e'. destruct z, e'; reflexivity.
  - (* QSend *)
    destruct (k_es (c_core x)) eqn:Ees; [|discriminate]. inversion Hp; subst x2; clear Hp.
    exists z. destruct x as [core nx nh q0 up dn]. cbn in *. subst q0. split; [|split].
    + constructor; cbn; try assumption.
      * eapply AI_proc_plain; [exact Hai|reflexivity|reflexivity].
      * intros s e0 b0 Hs. apply elem_of_app. left. eapply I4. exact Hs.
      * intros s e0 Hin. apply elem_of_app in Hin. destruct Hin as [Hin|Hin]; [apply I5; exact Hin|].
        apply elem_of_list_singleton in Hin. discriminate.
      * intros s e0 h Hs. destruct (I6 _ _ _ Hs) as [cap0 Hc]. exists cap0. apply elem_of_app. left. exact Hc.
      * intros s ec Hin. apply elem_of_app in Hin. destruct Hin as [Hin|Hin]; [apply I7; exact Hin|].
        apply elem_of_list_singleton in Hin. discriminate.
      * intros m Hin. apply elem_of_app in Hin. destruct Hin as [Hin|Hin]; [apply I8; exact Hin|].
        apply elem_of_list_singleton in Hin. subst m. reflexivity.
      * rewrite omap_app. cbn. rewrite app_nil_r. exact I9.
      * rewrite omap_app. cbn. rewrite app_nil_r. exact I10.
    + intros e'. cbn. unfold tokens. rewrite nq_cons. cbn. lia.
    + reflexivity.
  - (* QAddCap *)
    destruct (k_er (c_core x)) eqn:Eer; [|discriminate]. inversion Hp; subst x2; clear Hp.
    exists z. destruct x as [core nx nh q0 up dn]. cbn in *. subst q0. split; [|split].
    + constructor; cbn; try assumption.
      * eapply AI_proc_plain; [exact Hai|reflexivity|reflexivity].
      * intros s e0 b0 Hs. apply elem_of_app. left. eapply I4. exact Hs.
      * intros s e0 Hin. apply elem_of_app in Hin. destruct Hin as [Hin|Hin]; [apply I5; exact Hin|].
        apply elem_of_list_singleton in Hin. discriminate.
      * intros s e0 h Hs. destruct (I6 _ _ _ Hs) as [cap0 Hc]. exists cap0. apply elem_of_app. left. exact Hc.
      * intros s ec Hin. apply elem_of_app in Hin. destruct Hin as [Hin|Hin]; [apply I7; exact Hin|].
        apply elem_of_list_singleton in Hin. discriminate.
      * intros m Hin. apply elem_of_app in Hin. destruct Hin as [Hin|Hin]; [apply I8; exact Hin|].
        apply elem_of_list_singleton in Hin. subst m. reflexivity.
      * rewrite omap_app. cbn. rewrite app_nil_r. exact I9.
      * rewrite omap_app. cbn. rewrite app_nil_r. exact I10.
    + intros e'. cbn. unfold tokens. rewrite nq_cons. cbn. lia.
    + reflexivity.
Qed.

(* the two assertions of req_send_item / req_add_channel_capacity never fire *)
Lemma proc_no_panic x z site : LI x z -> proc_step k x <> PPanic site.
Proof.
  intros I Hp. unfold proc_step in Hp. destruct (c_q x) as [|r q] eqn:Hq; [discriminate|].
  pose proof (li_ai _ _ I) as Hai. rewrite Hq in Hai.
  destruct r as [e b|e cap hid|v|n]; cbn in Hp; try discriminate.
  - assert (Hent : ent (c_core x) ESender <> None).
    { destruct (ai_q_send _ _ Hai [] v q eq_refl) as [(h & b & Hh)|Hin].
      - eapply held_present; eassumption.
      - eapply (qclose_present _ [QSend v] q); [exact Hai|exact Hin]. }
    destruct x as [core nx nh q0 up dn]. cbn in *. destruct (k_es core); [discriminate|contradiction].
  - assert (Hent : ent (c_core x) EReceiver <> None).
    { destruct (ai_q_addcap _ _ Hai [] n q eq_refl) as [(h & b & Hh)|Hin].
      - eapply held_present; eassumption.
      - eapply (qclose_present _ [QAddCap n] q); [exact Hai|exact Hin]. }
    destruct x as [core nx nh q0 up dn]. cbn in *. destruct (k_er core); [discriminate|contradiction].
Qed.

(* ---------------------------------------------------------------- the broker side *)
Definition add_down (m : msg) (x : cl) : cl := x <| c_down ::= fun l => l ++ [m] |>.

Lemma push_down_cl y o m c' :
  y_cl (push_down y o m) !! c' = if decide (c' = o) then add_down m <$> y_cl y !! o else y_cl y !! c'.
Proof.
  unfold push_down. destruct (y_cl y !! o) as [x|] eqn:E; destruct (decide (c' = o)) as [->|Hne].
  - destruct y as [yk ych ycl]. cbn in *. rewrite lookup_insert. reflexivity.
  - destruct y as [yk ych ycl]. cbn in *. rewrite lookup_insert_ne by congruence. reflexivity.
  - rewrite E. reflexivity.
  - reflexivity.
Qed.
Lemma push_down_ch y o m : y_ch (push_down y o m) = y_ch y /\ y_k (push_down y o m) = y_k y.
Proof. unfold push_down. destruct (y_cl y !! o); [destruct y; split; reflexivity|split; reflexivity]. Qed.

(* notifications: everything the broker sends that is not a reply *)
Definition notif (m : msg) : Prop :=
  match m with ChannelEndClosed _ _ | ChannelEndClaimed _ _ | ItemReceived _ _ | AddChannelCapacity _ _ => True | _ => False end.

Lemma notif_crecv z m z2 :
  notif m -> crecv fl z m = ROk z2 ->
  k_pclose z2 = k_pclose z /\ k_pclaim z2 = k_pclaim z /\ k_handles z2 = k_handles z.
Proof.
  intros Hn H. destruct m; cbn in Hn; try contradiction; cbn in H.
  - destruct (ent z (other_end e)) as [[]|]; try discriminate; inversion H; subst; apply set_ent_fields.
  - destruct (ent z (other_end (end_of_cap e))) as [[]|]; try discriminate; inversion H; subst; apply set_ent_fields.
  - destruct (k_es z) as [[]|]; try discriminate; inversion H; subst; auto.
  - destruct (k_er z) as [[]|]; try discriminate; inversion H; subst; auto.
Qed.

Lemma tokens_same_fields z z2 q e :
  k_pclose z2 = k_pclose z -> k_handles z2 = k_handles z -> tokens z2 q e = tokens z q e.
Proof. intros H1 H2. unfold tokens. rewrite H1, H2. reflexivity. Qed.

Lemma LI_notify x z m z2 :
  LI x z -> notif m -> crecv fl z m = ROk z2 -> LI (add_down m x) z2.
Proof.
  intros I Hn Hr. destruct (notif_crecv _ _ _ Hn Hr) as (F1 & F2 & F3).
  destruct I as [I1 I2 I3 I4 I5 I6 I7 I8 I9 I10 I11 I12].
  destruct x as [core nx nh q up dn]. cbn in *. constructor; cbn; rewrite ?F1, ?F2; try assumption.
  rewrite cdrain_app, I1. cbn. rewrite Hr. reflexivity.
Qed.

(* the head request is answered *)
Lemma nodup_tail m u : NoDup (omap up_serial (m :: u)) -> NoDup (omap up_serial u).
Proof. cbn. destruct (up_serial m); [intros H; apply NoDup_cons in H; tauto|auto]. Qed.
Lemma head_not_in_tail m u s m' :
  NoDup (omap up_serial (m :: u)) -> up_serial m = Some s -> m' ∈ u -> up_serial m' = Some s -> False.
Proof.
  cbn. intros Hnd Hs Hin Hs'. rewrite Hs in Hnd. apply NoDup_cons in Hnd. destruct Hnd as [Hn _]. apply Hn.
  apply elem_of_list_omap. exists m'. split; assumption.
Qed.

Lemma LI_pop_common x z m u :
  LI x z -> c_up x = m :: u ->
  NoDup (omap up_serial u) /\ (forall s, s ∈ omap up_serial u -> s < c_next x) /\ (forall m', m' ∈ u -> is_upmsg m').
Proof.
  intros I Hu. pose proof (li_nodup _ _ I) as H1. pose proof (li_fresh_up _ _ I) as H2. pose proof (li_up_only _ _ I) as H3.
  rewrite Hu in *. split; [eapply nodup_tail; exact H1|]. split.
  - intros s Hs. apply H2. cbn. destruct (up_serial m); [right|]; exact Hs.
  - intros m' Hin. apply H3. right. exact Hin.
Qed.

Lemma LI_close_reply x z s e u r :
  LI x z -> c_up x = CloseChannelEnd s k e :: u ->
  exists (b : bool) z2, k_pclose z !! s = Some (e, b) /\ crecv fl z (CloseChannelEndReply s r) = ROk z2 /\
    z2 = (if b then set_ent (z <| k_pclose ::= delete s |>) e None else z <| k_pclose ::= delete s |>) /\
    LI (add_down (CloseChannelEndReply s r) (x <| c_up := u |>)) z2.
Proof.
  intros I Hu. destruct (LI_pop_common _ _ _ _ I Hu) as (P1 & P2 & P3).
  pose proof (LI_drained_AI _ _ I) as Haz.
  destruct (li_up_pclose _ _ I s e) as [b Hb]; [rewrite Hu; left|].
  exists b.
  assert (Hr : exists z2, crecv fl z (CloseChannelEndReply s r) = ROk z2 /\
               z2 = (if b then set_ent (z <| k_pclose ::= delete s |>) e None else z <| k_pclose ::= delete s |>)).
  { cbn. rewrite Hb. cbn. destruct b; [|eexists; split; reflexivity].
    assert (ent z e <> None).
    { apply (ai_tok _ _ Haz e). pose proof (tokens_ge_pclose z (c_q x) s e Hb). pose proof (proj1 (ai_tok _ _ Haz e)). lia. }
    destruct (ent z e); [|contradiction]. eexists; split; reflexivity. }
  destruct Hr as (z2 & Hr & Hz2). exists z2. split; [exact Hb|]. split; [exact Hr|]. split; [exact Hz2|].
  assert (Hpc : k_pclose z2 = delete s (k_pclose z)) by (subst z2; destruct b, z, e; reflexivity).
  assert (Hpk : k_pclaim z2 = k_pclaim z) by (subst z2; destruct b, z, e; reflexivity).
  destruct I as [I1 I2 I3 I4 I5 I6 I7 I8 I9 I10 I11 I12].
  destruct x as [core nx nh q up dn]. cbn in *. subst up. constructor; cbn; rewrite ?Hpc, ?Hpk; try assumption.
  - rewrite cdrain_app, I1. cbn. cbn in Hr. rewrite Hr. reflexivity.
  - intros s0 e0 b0 H0. apply lookup_delete_Some in H0. destruct H0 as [Hne H0].
    pose proof (I4 _ _ _ H0) as Hin. apply elem_of_cons in Hin. destruct Hin as [Hin|Hin]; [inversion Hin; congruence|exact Hin].
  - intros s0 e0 Hin. destruct (I5 s0 e0 ltac:(right; exact Hin)) as [b0 Hb0]. exists b0.
    rewrite lookup_delete_ne; [exact Hb0|]. intros <-.
    eapply (head_not_in_tail _ _ s _ I9); [reflexivity|exact Hin|reflexivity].
  - intros s0 e0 h H0. destruct (I6 _ _ _ H0) as [cap Hin]. exists cap.
    apply elem_of_cons in Hin. destruct Hin as [Hin|Hin]; [destruct e0; discriminate|exact Hin].
  - intros s0 ec Hin. apply I7. right. exact Hin.
Qed.

Lemma LI_claim_reply x z s ec u :
  LI x z -> c_up x = ClaimChannelEnd s k ec :: u ->
  exists hid, k_pclaim z !! s = Some (end_of_cap ec, hid) /\
    k_handles z !! hid = Some {| h_end := end_of_cap ec; h_kind := HClaiming |} /\
    forall r z2, crecv fl z (ClaimChannelEndReply s r) = ROk z2 ->
      k_pclose z2 = k_pclose z -> k_pclaim z2 = delete s (k_pclaim z) ->
      LI (add_down (ClaimChannelEndReply s r) (x <| c_up := u |>)) z2.
Proof.
  intros I Hu. destruct (LI_pop_common _ _ _ _ I Hu) as (P1 & P2 & P3).
  pose proof (LI_drained_AI _ _ I) as Haz.
  destruct (li_up_pclaim _ _ I s ec) as [hid Hh]; [rewrite Hu; left|].
  exists hid. split; [exact Hh|]. split; [eapply (ai_claim_h _ _ Haz); exact Hh|].
  intros r z2 Hr Hpc Hpk.
  destruct I as [I1 I2 I3 I4 I5 I6 I7 I8 I9 I10 I11 I12].
  destruct x as [core nx nh q up dn]. cbn in *. subst up. constructor; cbn; rewrite ?Hpc, ?Hpk; try assumption.
  - rewrite cdrain_app, I1. cbn. cbn in Hr. rewrite Hr. reflexivity.
  - intros s0 e0 b0 H0. pose proof (I4 _ _ _ H0) as Hin. apply elem_of_cons in Hin.
    destruct Hin as [Hin|Hin]; [discriminate|exact Hin].
  - intros s0 e0 Hin. apply I5. right. exact Hin.
  - intros s0 e0 h H0. apply lookup_delete_Some in H0. destruct H0 as [Hne H0].
    destruct (I6 _ _ _ H0) as [cap Hin]. exists cap.
    apply elem_of_cons in Hin. destruct Hin as [Hin|Hin]; [inversion Hin; congruence|exact Hin].
  - intros s0 ec0 Hin. destruct (I7 s0 ec0 ltac:(right; exact Hin)) as [h Hh0]. exists h.
    rewrite lookup_delete_ne; [exact Hh0|]. intros <-.
    eapply (head_not_in_tail _ _ s _ I9); [reflexivity|exact Hin|reflexivity].
Qed.

(* a request without a reply is taken from the queue *)
Lemma LI_pop_plain x z m u :
  LI x z -> c_up x = m :: u -> up_serial m = None -> LI (x <| c_up := u |>) z.
Proof.
  intros I Hu Hm. destruct (LI_pop_common _ _ _ _ I Hu) as (P1 & P2 & P3).
  destruct I as [I1 I2 I3 I4 I5 I6 I7 I8 I9 I10 I11 I12].
  destruct x as [core nx nh q up dn]. cbn in *. subst up. constructor; cbn; try assumption.
  - intros s e b H0. pose proof (I4 _ _ _ H0) as Hin. apply elem_of_cons in Hin.
    destruct Hin as [Hin|Hin]; [subst m; discriminate|exact Hin].
  - intros s e Hin. apply I5. right. exact Hin.
  - intros s e h H0. destruct (I6 _ _ _ H0) as [cap Hin]. exists cap. apply elem_of_cons in Hin.
    destruct Hin as [Hin|Hin]; [subst m; destruct e; discriminate|exact Hin].
  - intros s ec Hin. apply I7. right. exact Hin.
Qed.

(* ---------------------------------------------------------------- what the broker's channel functions do to the ends *)
Lemma chan_close_notify ch e ch' o :
  chan_close ch e = CloseNotify ch' o ->
  end_st ch' e = Closed /\ end_st ch' (other_end e) = end_st ch (other_end e) /\
  (exists cap, end_st ch (other_end e) = Claimed o cap) /\
  (end_st ch e = Unclaimed \/ exists o' cap', end_st ch e = Claimed o' cap').
Proof.
  unfold chan_close. destruct ch as [s r]. destruct e; cbn.
  - destruct s as [|so sc|], r as [|ro rc|]; intros H; inversion H; subst; cbn; eauto 10.
  - destruct r as [|ro rc|], s as [|so sc|]; intros H; inversion H; subst; cbn; eauto 10.
Qed.

Lemma chan_close_result_ok ch c e :
  chan_close_result ch c e <> R3Ok -> (forall cap, end_st ch e <> Claimed c cap) /\ end_st ch e <> Unclaimed.
Proof.
  unfold chan_close_result, end_st. destruct e; [destruct (ch_s ch) as [|o cp|]|destruct (ch_r ch) as [|o cp|]];
    intros H; try (exfalso; apply H; reflexivity); try (split; [intros cap|]; discriminate);
    (destruct (bool_decide (o = c)) eqn:E; [exfalso; apply H; reflexivity|]; apply bool_decide_eq_false in E;
     split; [intros cap Hc; inversion Hc; congruence|discriminate]).
Qed.

Lemma chan_claim_err ch c ec r : chan_claim ch c ec = ClaimErr r -> r = CLAlready \/ r = CLInvalid.
Proof.
  unfold chan_claim. destruct ec; [destruct (ch_s ch); [destruct (ch_r ch)| |]|destruct (ch_r ch); [destruct (ch_s ch)| |]];
    intros H; inversion H; auto.
Qed.

Lemma chan_claim_ok ch c ec ch' other r :
  chan_claim ch c ec = ClaimOk ch' other r ->
  let e := end_of_cap ec in
  end_st ch e = Unclaimed /\ (exists cap, end_st ch (other_end e) = Claimed other cap) /\
  (exists cap', end_st ch' e = Claimed c cap') /\ (exists cap'', end_st ch' (other_end e) = Claimed other cap'') /\
  match e with ESender => exists cp, r = CLSenderClaimed cp | EReceiver => r = CLReceiverClaimed end.
Proof.
  unfold chan_claim. destruct ch as [s rr]. destruct ec; cbn.
  - destruct s; try discriminate. destruct rr as [|ro rc|]; try discriminate. intros H; inversion H; subst; cbn. eauto 10.
  - destruct rr; try discriminate. destruct s as [|so sc|]; try discriminate. intros H; inversion H; subst; cbn. eauto 10.
Qed.

(* only the capacities change *)
Definition same_kind (a b : end_state) : Prop :=
  match a, b with
  | Unclaimed, Unclaimed | Closed, Closed => True
  | Claimed o _, Claimed o' _ => o = o'
  | _, _ => False
  end.
Definition same_ends (ch ch' : chan) : Prop := forall e, same_kind (end_st ch e) (end_st ch' e).

Lemma linkx_same_ends skip ch ch' c z q : same_ends ch ch' -> linkx skip (Some ch) c z q -> linkx skip (Some ch') c z q.
Proof.
  intros Hs L e Hsk. destruct (L e Hsk) as [La Lb]. pose proof (Hs e) as He. pose proof (Hs (other_end e)) as Ho.
  split.
  - intros cap Hc. rewrite Hc in He. destruct (end_st ch e) as [|o cp|] eqn:E; cbn in He; try contradiction. subst o.
    destruct (La cp eq_refl) as [G1 G2]. split; [exact G1|]. rewrite G2. f_equal.
    destruct (end_st ch (other_end e)), (end_st ch' (other_end e)); cbn in Ho; try contradiction; reflexivity.
  - intros Hu. rewrite Hu in He. destruct (end_st ch e) eqn:E; cbn in He; try contradiction. apply Lb. reflexivity.
Qed.

Lemma chan_send_item_forward ch c ch' ro add :
  chan_send_item ch c = ItemForward ch' ro add ->
  same_ends ch ch' /\ (exists sc, ch_s ch = Claimed c sc) /\ (exists rc, ch_r ch = Claimed ro rc).
Proof.
  unfold chan_send_item. destruct ch as [s r]; cbn. destruct s as [|so sc|]; try discriminate.
  destruct (bool_decide (so = c)) eqn:E; cbn; [|discriminate]. apply bool_decide_eq_true in E. subst so.
  destruct r as [|ro' rc|]; try discriminate.
  destruct (sc =? 0); [destruct (negb (rc =? 0)); discriminate|]. destruct (rc =? 0); [discriminate|].
  intros H. inversion H; subst. split; [|eauto]. intros []; cbn; reflexivity.
Qed.

Lemma chan_add_capacity_update ch c cap ch' notify :
  chan_add_capacity ch c cap = AddUpdate ch' notify ->
  same_ends ch ch' /\ (forall so n, notify = Some (so, n) -> (exists sc, ch_s ch = Claimed so sc) /\ exists ro rc, ch_r ch = Claimed ro rc).
Proof.
  unfold chan_add_capacity. destruct (cap =? 0); [discriminate|]. destruct ch as [s r]; cbn.
  destruct r as [|ro rc|]; try discriminate. destruct (negb (bool_decide (ro = c))); [discriminate|].
  destruct (channel_cap_add rc cap); [|discriminate].
  destruct s as [|so sc|]; cbn.
  - intros H; inversion H; subst. split; [intros []; cbn; reflexivity|discriminate].
  - destruct (sc <=? LOW_CAPACITY); [destruct (negb (sc <? n)); [discriminate|]|];
      intros H; inversion H; subst; (split; [intros []; cbn; reflexivity|]); [|discriminate].
    intros so' n' Hn. inversion Hn; subst. eauto.
  - intros H; inversion H; subst. split; [intros []; cbn; reflexivity|discriminate].
Qed.

(* ---------------------------------------------------------------- Broker::remove_channel_end *)
Definition good (r : cres) : Prop :=
  match r with COk y' => CI y' | CBrokerPanic _ => True | _ => False end.

Lemma PI_none skip skip' cls ch : PI skip cls ch -> PI skip' cls None.
Proof. intros P c x Hx. destruct (P c x Hx) as (z & I & _). exists z. split; [exact I|exact Logic.I]. Qed.

Lemma PI_weaken skip cls ch : PI None cls ch -> PI skip cls ch.
Proof. intros P c x Hx. destruct (P c x Hx) as (z & I & L). exists z. split; [exact I|apply linkx_weaken; exact L]. Qed.

Lemma remove_end_good y e :
  y_k y = k -> PI (Some e) (y_cl y) (y_ch y) -> good (b_remove_end y e).
Proof.
  intros Hk P. unfold b_remove_end. destruct (y_ch y) as [ch|] eqn:Ech.
  2:{ cbn. split; [exact Hk|]. rewrite Ech. eapply PI_none. exact P. }
  destruct (chan_close ch e) as [|ch' o|site] eqn:Ec; [| |exact Logic.I].
  - cbn. split; [destruct y; exact Hk|]. destruct y; cbn in *. eapply PI_none. exact P.
  - destruct (chan_close_notify _ _ _ _ Ec) as (C1 & C2 & (capo & C3) & C4).
    destruct (y_cl y !! o) as [xo|] eqn:Eo.
    2:{ cbn. split; [destruct y; exact Hk|]. destruct y; cbn in *. eapply PI_none. exact P. }
    cbn. destruct (push_down_ch (y <| y_ch := Some ch' |>) o (ChannelEndClosed (y_k y) e)) as [F1 F2].
    split; [rewrite F2; destruct y; exact Hk|]. rewrite F1.
    assert (Hch : y_ch (y <| y_ch := Some ch' |>) = Some ch') by (destruct y; reflexivity).
    assert (Hcl : y_cl (y <| y_ch := Some ch' |>) = y_cl y) by (destruct y; reflexivity).
    rewrite Hch. intros c' x' Hx'. rewrite push_down_cl, Hcl in Hx'.
    destruct (decide (c' = o)) as [->|Hne].
    + (* the owner of the other end is told *)
      rewrite Eo in Hx'. cbn in Hx'. inversion Hx'; subst x'; clear Hx'.
      destruct (P o xo Eo) as (z & I & L).
      destruct (L (other_end e) ltac:(intros H; inversion H as [H']; symmetry in H'; apply other_end_ne in H'; exact H')) as [La _].
      destruct (La capo C3) as [Lt Le]. rewrite other_end_invol in Le.
      assert (Hacc : crecv fl z (ChannelEndClosed (y_k y) e) = ROk (set_ent z (other_end e) (Some EPeerClosed))).
      { cbn. rewrite Le. destruct C4 as [C4|(o' & cap' & C4)]; rewrite C4; reflexivity. }
      exists (set_ent z (other_end e) (Some EPeerClosed)). split; [eapply LI_notify; [exact I|exact Logic.I|exact Hacc]|].
      intros e' _. destruct (end_cases e e') as [->| ->].
      * rewrite C1. split; [intros cap Hc; discriminate|discriminate].
      * rewrite C2, C3. split; [|discriminate]. intros cap Hc. rewrite tokens_set_ent, ent_set_same, other_end_invol, C1.
        split; [exact Lt|reflexivity].
    + destruct (P c' x' Hx') as (z & I & L). exists z. split; [exact I|].
      intros e' _. destruct (end_cases e e') as [->| ->].
      * rewrite C1. split; [intros cap Hc; discriminate|discriminate].
      * rewrite C2, C3. split; [intros cap Hc; inversion Hc; congruence|discriminate].
Qed.

(* ---------------------------------------------------------------- SBroker *)
Lemma put_fields y c x : y_k (put y c x) = y_k y /\ y_ch (put y c x) = y_ch y /\ y_cl (put y c x) = <[c := x]> (y_cl y).
Proof. destruct y; repeat split. Qed.

(* the clients of the state in which c's head request is taken and answered with [m] *)
Lemma popped_reply_cl y c x u m c' :
  y_cl (push_down (put y c (x <| c_up := u |>)) c m) !! c' =
  if decide (c' = c) then Some (add_down m (x <| c_up := u |>)) else y_cl y !! c'.
Proof.
  rewrite push_down_cl. destruct (put_fields y c (x <| c_up := u |>)) as (_ & _ & F). rewrite F.
  destruct (decide (c' = c)) as [->|Hne]; [rewrite lookup_insert; reflexivity|rewrite lookup_insert_ne by congruence; reflexivity].
Qed.

Lemma tokens0_absent z q e : AI z q -> tokens z q e = 0%nat -> ent z e = None.
Proof.
  intros I H. destruct (ent z e) eqn:E; [|reflexivity].
  assert (tokens z q e = 1%nat) by (apply (ai_tok _ _ I e); congruence). lia.
Qed.

Lemma ci_close y c x s k0 e u :
  CI y -> y_cl y !! c = Some x -> c_up x = CloseChannelEnd s k0 e :: u ->
  good (broker_msg (put y c (x <| c_up := u |>)) c (CloseChannelEnd s k0 e)).
Proof.
  intros [Hk P] Hc Hu. destruct (P c x Hc) as (z & I & L).
  assert (k0 = k) by (apply (li_up_only _ _ I (CloseChannelEnd s k0 e)); rewrite Hu; left). subst k0.
  set (y0 := put y c (x <| c_up := u |>)).
  destruct (put_fields y c (x <| c_up := u |>)) as (F1 & F2 & F3). fold y0 in F1, F2, F3.
  pose proof (LI_drained_AI _ _ I) as Haz.
  cbn [broker_msg]. rewrite F2.
  (* what the reply does to c, whatever its result *)
  assert (Hreply : forall r, exists b z2, k_pclose z !! s = Some (e, b) /\
             LI (add_down (CloseChannelEndReply s r) (x <| c_up := u |>)) z2 /\
             (forall e', e' <> e -> tokens z2 (c_q x) e' = tokens z (c_q x) e' /\ ent z2 e' = ent z e') /\
             (b = false -> tokens z2 (c_q x) e = tokens z (c_q x) e /\ ent z2 e = ent z e)).
  { intros r. destruct (LI_close_reply _ _ _ _ _ r I Hu) as (b & z2 & Hb & Hr & Hz2 & I2).
    exists b, z2. split; [exact Hb|]. split; [exact I2|].
    assert (Hq : c_q (x <| c_up := u |>) = c_q x) by (destruct x; reflexivity).
    split.
    - intros e' Hne. pose proof (tokens_del_pclose z (c_q x) s e b e' Hb) as Ht.
      assert (tok_close e' (e, b) = false) as Hf.
      { unfold tok_close. cbn. rewrite bool_decide_eq_false_2 by congruence. reflexivity. }
      rewrite Hf in Ht. subst z2. destruct b.
      + rewrite tokens_set_ent, ent_set_other by congruence. split; [lia|destruct z, e'; reflexivity].
      + split; [lia|destruct z, e'; reflexivity].
    - intros ->. pose proof (tokens_del_pclose z (c_q x) s e false e Hb) as Ht. rewrite tok_close_false in Ht.
      subst z2. split; [lia|destruct z, e; reflexivity]. }
  assert (Hqx : c_q (add_down (CloseChannelEndReply s R3Invalid) (x <| c_up := u |>)) = c_q x) by (destruct x; reflexivity).
  destruct (y_ch y) as [ch|] eqn:Ech.
  - (* the channel exists *)
    set (r := chan_close_result ch c e).
    destruct (Hreply r) as (b & z2 & Hb & I2 & Hoth & Hsame).
    assert (Hq2 : c_q (add_down (CloseChannelEndReply s r) (x <| c_up := u |>)) = c_q x) by (destruct x; reflexivity).
    set (y1 := push_down y0 c (CloseChannelEndReply s r)).
    destruct (push_down_ch y0 c (CloseChannelEndReply s r)) as [G1 G2]. fold y1 in G1, G2.
    assert (Hy1k : y_k y1 = k) by (rewrite G2, F1; exact Hk).
    assert (Hy1ch : y_ch y1 = Some ch) by (rewrite G1, F2; reflexivity).
    (* all clients but for what concerns end e of c *)
    assert (Hrest : forall skip, (skip = Some e \/ (r <> R3Ok)) -> PI skip (y_cl y1) (Some ch)).
    { intros skip Hskip c' x' Hx'. unfold y1, y0 in Hx'. rewrite popped_reply_cl in Hx'.
      destruct (decide (c' = c)) as [->|Hne].
      - inversion Hx'; subst x'; clear Hx'. exists z2. split; [exact I2|]. rewrite Hq2.
        intros e' Hsk. destruct (decide (e' = e)) as [->|Hne'].
        + destruct Hskip as [->|Hr]; [contradiction|].
          destruct (chan_close_result_ok ch c e Hr) as [R1 R2].
          split; [intros cap Hcap; exfalso; eapply R1; exact Hcap|intros Hun; contradiction].
        + destruct (Hoth e' Hne') as [T1 T2]. rewrite T1, T2. apply L. discriminate.
      - destruct (P c' x' Hx') as (z' & I' & L'). exists z'. split; [exact I'|]. apply linkx_weaken. exact L'. }
    destruct r eqn:Er; fold r in Er.
    + (* Ok: the end is removed *)
      apply remove_end_good; [exact Hy1k|]. rewrite Hy1ch. apply Hrest. left. reflexivity.
    + cbn. split; [exact Hy1k|]. rewrite Hy1ch. apply Hrest. right. congruence.
    + cbn. split; [exact Hy1k|]. rewrite Hy1ch. apply Hrest. right. congruence.
  - (* the channel is gone *)
    destruct (Hreply R3Invalid) as (b & z2 & Hb & I2 & _ & _).
    cbn. destruct (push_down_ch y0 c (CloseChannelEndReply s R3Invalid)) as [G1 G2].
    split; [rewrite G2, F1; exact Hk|]. rewrite G1, F2.
    intros c' x' Hx'. unfold y0 in Hx'. rewrite popped_reply_cl in Hx'. destruct (decide (c' = c)) as [->|Hne].
    + inversion Hx'; subst x'. exists z2. split; [exact I2|exact Logic.I].
    + destruct (P c' x' Hx') as (z' & I' & _). exists z'. split; [exact I'|exact Logic.I].
Qed.

Lemma claim_refused_effect z s e hid r q :
  k_pclaim z !! s = Some (e, hid) -> k_handles z !! hid = Some {| h_end := e; h_kind := HClaiming |} ->
  r = CLAlready \/ r = CLInvalid ->
  exists z2, crecv fl z (ClaimChannelEndReply s r) = ROk z2 /\
    k_pclose z2 = k_pclose z /\ k_pclaim z2 = delete s (k_pclaim z) /\
    (forall e', tokens z2 q e' = tokens z q e') /\ (forall e', ent z2 e' = ent z e').
Proof.
  intros Hs Hh Hr. exists (deliver (z <| k_pclaim ::= delete s |>) hid false).
  assert (Hh' : k_handles (z <| k_pclaim ::= delete s |>) !! hid = Some {| h_end := e; h_kind := HClaiming |}) by (destruct z; exact Hh).
  split; [cbn; rewrite Hs; cbn; destruct Hr as [-> | ->], e; reflexivity|].
  destruct (deliver_fields (z <| k_pclaim ::= delete s |>) hid false) as (F1 & F2 & F3 & F4).
  split; [rewrite F1; destruct z; reflexivity|]. split; [rewrite F2; destruct z; reflexivity|]. split.
  - intros e'. rewrite (deliver_claiming _ hid e false Hh').
    pose proof (tokens_set_handle (z <| k_pclaim ::= delete s |>) q hid {| h_end := e; h_kind := HResult false |} _ e' Hh') as Ht.
    unfold tok_handle in Ht at 1 2. cbn in Ht. rewrite !andb_false_r in Ht. rewrite tokens_pclaim in Ht. lia.
  - intros e'. destruct e'; cbn; [rewrite F3|rewrite F4]; destruct z; reflexivity.
Qed.

Lemma claim_granted_effect z s e hid r q :
  k_pclaim z !! s = Some (e, hid) -> k_handles z !! hid = Some {| h_end := e; h_kind := HClaiming |} ->
  match e with ESender => exists cp, r = CLSenderClaimed cp | EReceiver => r = CLReceiverClaimed end ->
  ent z e = None ->
  exists z2, crecv fl z (ClaimChannelEndReply s r) = ROk z2 /\
    k_pclose z2 = k_pclose z /\ k_pclaim z2 = delete s (k_pclaim z) /\
    tokens z2 q e = S (tokens z q e) /\ tokens z2 q (other_end e) = tokens z q (other_end e) /\
    ent z2 e = Some EEstablished /\ ent z2 (other_end e) = ent z (other_end e).
Proof.
  intros Hs Hh Hr Hnone. set (z1 := set_ent (z <| k_pclaim ::= delete s |>) e (Some EEstablished)).
  exists (deliver z1 hid true).
  destruct (set_ent_fields (z <| k_pclaim ::= delete s |>) e (Some EEstablished)) as (S1 & S2 & S3). fold z1 in S1, S2, S3.
  assert (Hh' : k_handles z1 !! hid = Some {| h_end := e; h_kind := HClaiming |}) by (rewrite S3; destruct z; exact Hh).
  split.
  { cbn. rewrite Hs. cbn. destruct e; cbn in *.
    - destruct Hr as [cp ->]. rewrite Hnone. reflexivity.
    - subst r. rewrite Hnone. reflexivity. }
  destruct (deliver_fields z1 hid true) as (F1 & F2 & F3 & F4).
  split; [rewrite F1, S1; destruct z; reflexivity|]. split; [rewrite F2, S2; destruct z; reflexivity|].
  assert (Htok : forall e', (tokens (deliver z1 hid true) q e' = tokens z q e' + if bool_decide (e = e') then 1 else 0)%nat).
  { intros e'. rewrite (deliver_claiming _ hid e true Hh').
    pose proof (tokens_set_handle z1 q hid {| h_end := e; h_kind := HResult true |} _ e' Hh') as Ht.
    unfold tok_handle in Ht at 1 2. cbn in Ht. rewrite andb_false_r, andb_true_r in Ht.
    unfold z1 in Ht. rewrite tokens_set_ent, tokens_pclaim in Ht. fold z1 in Ht. lia. }
  split; [rewrite Htok, bool_decide_eq_true_2 by reflexivity; lia|].
  split; [rewrite Htok, bool_decide_eq_false_2 by (intros H; symmetry in H; apply other_end_ne in H; exact H); lia|].
  assert (Hent : forall e', ent (deliver z1 hid true) e' = ent z1 e') by (intros []; cbn; [rewrite F3|rewrite F4]; reflexivity).
  split; [rewrite Hent; unfold z1; apply ent_set_same|].
  rewrite Hent. unfold z1. rewrite ent_set_other by (intros H; symmetry in H; apply other_end_ne in H; exact H).
  destruct z, e; reflexivity.
Qed.

Lemma claimed_notif_accept zz ec :
  ent zz (other_end (end_of_cap ec)) = Some EPending ->
  crecv fl zz (ChannelEndClaimed k ec) = ROk (set_ent zz (other_end (end_of_cap ec)) (Some EEstablished)).
Proof. intros H. cbn. rewrite H. reflexivity. Qed.

Lemma ci_claim y c x s k0 ec u :
  CI y -> y_cl y !! c = Some x -> c_up x = ClaimChannelEnd s k0 ec :: u ->
  good (broker_msg (put y c (x <| c_up := u |>)) c (ClaimChannelEnd s k0 ec)).
Proof.
  intros [Hk P] Hc Hu. destruct (P c x Hc) as (z & I & L).
  assert (k0 = k) by (apply (li_up_only _ _ I (ClaimChannelEnd s k0 ec)); rewrite Hu; left). subst k0.
  set (xp := x <| c_up := u |>). set (y0 := put y c xp).
  destruct (put_fields y c xp) as (F1 & F2 & F3). fold y0 in F1, F2, F3.
  pose proof (LI_drained_AI _ _ I) as Haz.
  destruct (LI_claim_reply _ _ _ _ _ I Hu) as (hid & Hs & Hh & Hli).
  set (e := end_of_cap ec) in *.
  assert (Hqp : forall m, c_q (add_down m xp) = c_q x) by (intros m; destruct x; reflexivity).
  (* a refusal: nothing but the reply *)
  assert (Hrefuse : forall r, r = CLAlready \/ r = CLInvalid ->
            good (COk (push_down y0 c (ClaimChannelEndReply s r)))).
  { intros r Hr. destruct (claim_refused_effect z s e hid r (c_q x) Hs Hh Hr) as (z2 & Hacc & G1 & G2 & G3 & G4).
    cbn. destruct (push_down_ch y0 c (ClaimChannelEndReply s r)) as [E1 E2].
    split; [rewrite E2, F1; exact Hk|]. rewrite E1, F2.
    intros c' x' Hx'. unfold y0, xp in Hx'. rewrite popped_reply_cl in Hx'. destruct (decide (c' = c)) as [->|Hne].
    - inversion Hx'; subst x'. exists z2. split; [apply Hli; assumption|]. fold xp. rewrite Hqp.
      eapply link_same; [exact L|exact G3|exact G4].
    - apply P. exact Hx'. }
  cbn [broker_msg]. rewrite F2. destruct (y_ch y) as [ch|] eqn:Ech.
  2:{ apply Hrefuse. right. reflexivity. }
  destruct (chan_claim ch c ec) as [r|ch' other r|site] eqn:Ecl; [| |exact Logic.I].
  { apply Hrefuse. eapply chan_claim_err. exact Ecl. }
  (* granted *)
  destruct (chan_claim_ok _ _ _ _ _ _ Ecl) as (C1 & (capo & C2) & (capc & C3) & (capo' & C4) & C5). fold e in C1, C2, C3, C4, C5.
  destruct (L e ltac:(discriminate)) as [_ Lb]. pose proof (Lb C1) as Ht0.
  pose proof (tokens0_absent z (c_q x) e Haz Ht0) as Hnone.
  destruct (claim_granted_effect z s e hid r (c_q x) Hs Hh C5 Hnone) as (z2 & Hacc & G1 & G2 & G3 & G4 & G5 & G6).
  pose proof (Hli r z2 Hacc G1 G2) as I2.
  set (y1 := push_down (y0 <| y_ch := Some ch' |>) c (ClaimChannelEndReply s r)).
  set (m2 := ChannelEndClaimed (y_k y0) ec).
  assert (Hm2 : m2 = ChannelEndClaimed k ec) by (unfold m2; rewrite F1, Hk; reflexivity).
  cbn. fold y1. fold m2.
  destruct (push_down_ch y1 other m2) as [E1 E2].
  destruct (push_down_ch (y0 <| y_ch := Some ch' |>) c (ClaimChannelEndReply s r)) as [E3 E4]. fold y1 in E3, E4.
  assert (Hy0' : y_ch (y0 <| y_ch := Some ch' |>) = Some ch' /\ y_k (y0 <| y_ch := Some ch' |>) = y_k y0 /\
                 y_cl (y0 <| y_ch := Some ch' |>) = y_cl y0) by (destruct y0; repeat split).
  destruct Hy0' as (E5 & E6 & E7).
  split; [rewrite E2, E4, E6, F1; exact Hk|]. rewrite E1, E3, E5.
  (* the clients of y1 *)
  assert (Hy1cl : forall c', y_cl y1 !! c' = if decide (c' = c) then Some (add_down (ClaimChannelEndReply s r) xp) else y_cl y !! c').
  { intros c'. unfold y1. rewrite push_down_cl, E7, F3. destruct (decide (c' = c)) as [->|Hne].
    - rewrite lookup_insert. reflexivity.
    - rewrite lookup_insert_ne by congruence. reflexivity. }
  (* links against the new channel entry *)
  assert (Lc : forall zz, (forall e', tokens zz (c_q x) e' = tokens z2 (c_q x) e') -> ent zz e = Some EEstablished ->
               (c = other -> ent zz (other_end e) = Some EEstablished) -> linkx None (Some ch') c zz (c_q x)).
  { intros zz Htk He Ho e' _. destruct (end_cases e e') as [-> | ->].
    - rewrite C3. split; [|discriminate]. intros cap _. rewrite Htk, G3, Ht0, C4. split; [reflexivity|exact He].
    - rewrite C4. split; [|discriminate]. intros cap Hcap. inversion Hcap; subst other.
      rewrite Htk, G4, other_end_invol, C3. destruct (L (other_end e) ltac:(discriminate)) as [La _].
      destruct (La capo C2) as [T _]. split; [exact T|]. apply Ho. reflexivity. }
  intros c' x' Hx'. rewrite push_down_cl in Hx'. destruct (decide (c' = other)) as [->|Hno].
  - (* the owner of the other end *)
    rewrite Hy1cl in Hx'. destruct (decide (other = c)) as [->|Hoc].
    + (* the claimer holds both ends *)
      cbn in Hx'. inversion Hx'; subst x'; clear Hx'.
      destruct (L (other_end e) ltac:(discriminate)) as [La _]. destruct (La capo C2) as [T Hpend].
      rewrite other_end_invol, C1 in Hpend. cbn in Hpend.
      assert (Hacc2 : crecv fl z2 m2 = ROk (set_ent z2 (other_end e) (Some EEstablished))).
      { rewrite Hm2. apply claimed_notif_accept. fold e. rewrite G6. exact Hpend. }
      exists (set_ent z2 (other_end e) (Some EEstablished)). split; [eapply LI_notify; [exact I2|rewrite Hm2; exact Logic.I|exact Hacc2]|].
      assert (Hq3 : c_q (add_down m2 (add_down (ClaimChannelEndReply s r) xp)) = c_q x) by (destruct x; reflexivity).
      rewrite Hq3. apply Lc.
      * intros e'. apply tokens_set_ent.
      * rewrite ent_set_other by apply other_end_ne. exact G5.
      * intros _. apply ent_set_same.
    + destruct (y_cl y !! other) as [xo|] eqn:Eo; cbn in Hx'; [|discriminate]. inversion Hx'; subst x'; clear Hx'.
      destruct (P other xo Eo) as (zo & Io & Lo).
      destruct (Lo (other_end e) ltac:(discriminate)) as [La _]. destruct (La capo C2) as [T Hpend].
      rewrite other_end_invol, C1 in Hpend. cbn in Hpend.
      assert (Hacc2 : crecv fl zo m2 = ROk (set_ent zo (other_end e) (Some EEstablished))).
      { rewrite Hm2. apply claimed_notif_accept. exact Hpend. }
      exists (set_ent zo (other_end e) (Some EEstablished)). split; [eapply LI_notify; [exact Io|rewrite Hm2; exact Logic.I|exact Hacc2]|].
      assert (Hq3 : c_q (add_down m2 xo) = c_q xo) by (destruct xo; reflexivity). rewrite Hq3.
      intros e' _. destruct (end_cases e e') as [-> | ->].
      * rewrite C3. split; [intros cap Hcap; inversion Hcap; congruence|discriminate].
      * rewrite C4. split; [|discriminate]. intros cap _. rewrite tokens_set_ent, ent_set_same, other_end_invol, C3.
        split; [exact T|reflexivity].
  - rewrite Hy1cl in Hx'. destruct (decide (c' = c)) as [->|Hnc'].
    + inversion Hx'; subst x'; clear Hx'. exists z2. split; [exact I2|]. rewrite Hqp. apply Lc.
      * reflexivity.
      * exact G5.
      * intros ->. contradiction.
    + destruct (P c' x' Hx') as (z' & I' & L'). exists z'. split; [exact I'|].
      intros e' _. destruct (end_cases e e') as [-> | ->].
      * rewrite C3. split; [intros cap Hcap; inversion Hcap; congruence|discriminate].
      * rewrite C4. split; [intros cap Hcap; inversion Hcap; congruence|discriminate].
Qed.

(* a request without reply is taken: c's slice only loses the request *)
Lemma PI_popped y c x u m :
  PI None (y_cl y) (y_ch y) -> y_cl y !! c = Some x -> c_up x = m :: u -> up_serial m = None ->
  PI None (y_cl (put y c (x <| c_up := u |>))) (y_ch y).
Proof.
  intros P Hc Hu Hm c' x' Hx'. destruct (put_fields y c (x <| c_up := u |>)) as (_ & _ & F). rewrite F in Hx'.
  destruct (decide (c' = c)) as [->|Hne].
  - rewrite lookup_insert in Hx'. inversion Hx'; subst x'. destruct (P c x Hc) as (z & I & L).
    exists z. split; [eapply LI_pop_plain; eassumption|]. destruct x; exact L.
  - rewrite lookup_insert_ne in Hx' by congruence. apply P. exact Hx'.
Qed.

(* a notification that leaves the drained core as it is, under an unchanged or cap-only-changed entry *)
Lemma PI_push_same cls ch ch' o m :
  PI None cls (Some ch) -> same_ends ch ch' -> notif m ->
  (forall xo z, cls !! o = Some xo -> LI xo z -> linkx None (Some ch) o z (c_q xo) -> crecv fl z m = ROk z) ->
  forall y, y_cl y = cls -> PI None (y_cl (push_down y o m)) (Some ch').
Proof.
  intros P Hs Hn Hacc y Hy c' x' Hx'. rewrite push_down_cl, Hy in Hx'. destruct (decide (c' = o)) as [->|Hne].
  - destruct (cls !! o) as [xo|] eqn:Eo; cbn in Hx'; [|discriminate]. inversion Hx'; subst x'.
    destruct (P o xo Eo) as (z & I & L). exists z. split; [eapply LI_notify; [exact I|exact Hn|exact (Hacc xo z eq_refl I L)]|].
    assert (Hq : c_q (add_down m xo) = c_q xo) by (destruct xo; reflexivity). rewrite Hq.
    eapply linkx_same_ends; eassumption.
  - destruct (P c' x' Hx') as (z & I & L). exists z. split; [exact I|eapply linkx_same_ends; eassumption].
Qed.

Lemma same_ends_refl ch : same_ends ch ch.
Proof. intros e. destruct (end_st ch e); cbn; auto. Qed.

Lemma ci_send_item y c x k0 v u :
  CI y -> y_cl y !! c = Some x -> c_up x = SendItem k0 v :: u ->
  good (broker_msg (put y c (x <| c_up := u |>)) c (SendItem k0 v)).
Proof.
  intros [Hk P] Hc Hu. set (y0 := put y c (x <| c_up := u |>)).
  destruct (put_fields y c (x <| c_up := u |>)) as (F1 & F2 & F3). fold y0 in F1, F2, F3.
  pose proof (PI_popped y c x u _ P Hc Hu eq_refl) as P0. fold y0 in P0.
  assert (G0 : CI y0) by (split; [rewrite F1; exact Hk|rewrite F2; exact P0]).
  cbn [broker_msg]. destruct (y_ch y0) as [ch|] eqn:Ech; [|exact G0].
  assert (Ech' : y_ch y = Some ch) by (symmetry; exact F2). rewrite Ech' in P0.
  destruct (chan_send_item ch c) as [| | |ch' ro add|site] eqn:Esi; [exact G0| | | |exact Logic.I].
  - (* the receiver is unclaimed: both ends are removed *)
    unfold cbind.
    pose proof (remove_end_good y0 EReceiver (proj1 G0) ltac:(rewrite Ech; apply PI_weaken; exact P0)) as R1.
    destruct (b_remove_end y0 EReceiver) as [y1| | | |site] eqn:E1; cbn in R1; try contradiction; [|exact Logic.I].
    apply remove_end_good; [apply R1|]. apply PI_weaken. apply R1.
  - apply remove_end_good; [apply G0|]. rewrite Ech. apply PI_weaken. exact P0.
  - (* forwarded *)
    destruct (chan_send_item_forward _ _ _ _ _ Esi) as (Hse & (sc & Hs) & (rc & Hr)).
    set (y1 := y0 <| y_ch := Some ch' |>).
    assert (Hy1 : y_cl y1 = y_cl y0 /\ y_k y1 = y_k y0 /\ y_ch y1 = Some ch') by (destruct y0; repeat split).
    destruct Hy1 as (Y1 & Y2 & Y3).
    set (y2 := push_down y1 ro (ItemReceived (y_k y0) v)).
    destruct (push_down_ch y1 ro (ItemReceived (y_k y0) v)) as [E1 E2]. fold y2 in E1, E2.
    assert (P2 : PI None (y_cl y2) (Some ch')).
    { unfold y2. eapply (PI_push_same (y_cl y0) ch ch' ro); [exact P0|exact Hse|exact Logic.I| |exact Y1].
      intros xo z Hxo Io Lo. destruct (Lo EReceiver ltac:(discriminate)) as [La _]. cbn in La.
      destruct (La rc Hr) as [_ He]. cbn in He. rewrite Hs in He. cbn in *. rewrite He. reflexivity. }
    destruct add as [a|].
    + cbn. fold y1. fold y2. destruct (push_down_ch y2 c (AddChannelCapacity (y_k y) a)) as [E3 E4].
      split; [rewrite E4, E2, Y2, F1; exact Hk|]. rewrite E3, E1, Y3.
      eapply (PI_push_same (y_cl y2) ch' ch' c); [exact P2|apply same_ends_refl|exact Logic.I| |reflexivity].
      intros xo z Hxo Io Lo. destruct (Lo ESender ltac:(discriminate)) as [La _]. cbn in La.
      assert (exists sc', ch_s ch' = Claimed c sc') as [sc' Hs'].
      { pose proof (Hse ESender) as H1. cbn in H1. rewrite Hs in H1. destruct (ch_s ch'); cbn in H1; try contradiction. subst. eauto. }
      assert (exists rc', ch_r ch' = Claimed ro rc') as [rc' Hr'].
      { pose proof (Hse EReceiver) as H1. cbn in H1. rewrite Hr in H1. destruct (ch_r ch'); cbn in H1; try contradiction. subst. eauto. }
      destruct (La sc' Hs') as [_ He]. cbn in He. rewrite Hr' in He. cbn in *. rewrite He. reflexivity.
    + cbn. fold y1. fold y2. split; [rewrite E2, Y2, F1; exact Hk|]. rewrite E1, Y3. exact P2.
Qed.

Lemma ci_add_capacity y c x k0 cap u :
  CI y -> y_cl y !! c = Some x -> c_up x = AddChannelCapacity k0 cap :: u ->
  good (broker_msg (put y c (x <| c_up := u |>)) c (AddChannelCapacity k0 cap)).
Proof.
  intros [Hk P] Hc Hu. set (y0 := put y c (x <| c_up := u |>)).
  destruct (put_fields y c (x <| c_up := u |>)) as (F1 & F2 & F3). fold y0 in F1, F2, F3.
  pose proof (PI_popped y c x u _ P Hc Hu eq_refl) as P0. fold y0 in P0.
  assert (G0 : CI y0) by (split; [rewrite F1; exact Hk|rewrite F2; exact P0]).
  cbn [broker_msg]. destruct (y_ch y0) as [ch|] eqn:Ech; [|exact G0].
  assert (Ech' : y_ch y = Some ch) by (symmetry; exact F2). rewrite Ech' in P0.
  destruct (chan_add_capacity ch c cap) as [| |ch' notify|site] eqn:Eac; [exact G0| | |exact Logic.I].
  - apply remove_end_good; [apply G0|]. rewrite Ech. apply PI_weaken. exact P0.
  - destruct (chan_add_capacity_update _ _ _ _ _ Eac) as (Hse & Hn).
    set (y1 := y0 <| y_ch := Some ch' |>).
    assert (Hy1 : y_cl y1 = y_cl y0 /\ y_k y1 = y_k y0 /\ y_ch y1 = Some ch') by (destruct y0; repeat split).
    destruct Hy1 as (Y1 & Y2 & Y3).
    destruct notify as [[so n]|].
    + cbn. fold y1. destruct (push_down_ch y1 so (AddChannelCapacity (y_k y) n)) as [E1 E2].
      split; [rewrite E2, Y2, F1; exact Hk|]. rewrite E1, Y3.
      destruct (Hn so n eq_refl) as ((sc & Hs) & (ro & rc & Hr)).
      eapply (PI_push_same (y_cl y0) ch ch' so); [exact P0|exact Hse|exact Logic.I| |exact Y1].
      intros xo z Hxo Io Lo. destruct (Lo ESender ltac:(discriminate)) as [La _]. cbn in La.
      destruct (La sc Hs) as [_ He]. cbn in He. rewrite Hr in He. cbn in *. rewrite He. reflexivity.
    + cbn. fold y1. split; [rewrite Y2, F1; exact Hk|]. rewrite Y3, Y1.
      intros c' x' Hx'. destruct (P0 c' x' Hx') as (z & I & L). exists z. split; [exact I|eapply linkx_same_ends; eassumption].
Qed.

Lemma ci_broker y c x m u :
  CI y -> y_cl y !! c = Some x -> c_up x = m :: u -> good (broker_msg (put y c (x <| c_up := u |>)) c m).
Proof.
  intros G Hc Hu. pose proof G as [Hk P]. destruct (P c x Hc) as (z & I & L).
  pose proof (li_up_only _ _ I m ltac:(rewrite Hu; left)) as Hm.
  destruct m; cbn in Hm; try contradiction.
  - eapply ci_close; eassumption.
  - eapply ci_claim; eassumption.
  - eapply ci_add_capacity; eassumption.
  - eapply ci_send_item; eassumption.
Qed.

(* ---------------------------------------------------------------- SDisconnect *)
Lemma ci_disconnect y c : CI y -> good (broker_disconnect y c).
Proof.
  intros [Hk P]. unfold broker_disconnect. set (y0 := y <| y_cl ::= delete c |>).
  assert (Hy0 : y_k y0 = y_k y /\ y_ch y0 = y_ch y /\ y_cl y0 = delete c (y_cl y)) by (destruct y; repeat split).
  destruct Hy0 as (Y1 & Y2 & Y3).
  assert (P0 : PI None (y_cl y0) (y_ch y0)).
  { rewrite Y2, Y3. intros c' x' Hx'. apply lookup_delete_Some in Hx'. apply P. apply Hx'. }
  assert (G0 : CI y0) by (split; [rewrite Y1; exact Hk|exact P0]).
  assert (Hsecond : forall y1, CI y1 ->
            good (match y_ch y1 with
                  | Some ch => if owned_by c (ch_r ch) then b_remove_end y1 EReceiver else COk y1
                  | None => COk y1 end)).
  { intros y1 G1. destruct (y_ch y1) as [ch|]; [|exact G1]. destruct (owned_by c (ch_r ch)); [|exact G1].
    apply remove_end_good; [apply G1|]. apply PI_weaken. apply G1. }
  unfold cbind. destruct (y_ch y0) as [ch|] eqn:Ech.
  - destruct (owned_by c (ch_s ch)).
    + pose proof (remove_end_good y0 ESender (proj1 G0) ltac:(rewrite Ech; apply PI_weaken; exact P0)) as R1.
      destruct (b_remove_end y0 ESender) as [y1| | | |site]; cbn in R1; try contradiction; [|exact Logic.I].
      apply Hsecond. exact R1.
    + exact (Hsecond y0 G0).
  - exact (Hsecond y0 G0).
Qed.

(* ---------------------------------------------------------------- every step, every schedule *)
Definition fine (r : cres) : Prop :=
  match r with COk y' => CI y' | CDisabled | CBrokerPanic _ => True | CReject _ | CPanic _ _ => False end.

Lemma PI_update y c x x2 :
  PI None (y_cl y) (y_ch y) -> y_cl y !! c = Some x ->
  (forall z, LI x z -> linkx None (y_ch y) c z (c_q x) -> exists z2, LI x2 z2 /\ linkx None (y_ch y) c z2 (c_q x2)) ->
  PI None (y_cl (put y c x2)) (y_ch (put y c x2)).
Proof.
  intros P Hc Hupd. destruct (put_fields y c x2) as (_ & F2 & F3). rewrite F2, F3.
  intros c' x' Hx'. destruct (decide (c' = c)) as [->|Hne].
  - rewrite lookup_insert in Hx'. inversion Hx'; subst x'. destruct (P c x Hc) as (z & I & L). apply (Hupd z I L).
  - rewrite lookup_insert_ne in Hx' by congruence. apply P. exact Hx'.
Qed.

Lemma ci_step y s : CI y -> fine (step fl y s).
Proof.
  intros G. pose proof G as [Hk P]. destruct s as [c o|c|c|c|c]; cbn [step].
  - (* SApp *)
    destruct (y_cl y !! c) as [x|] eqn:Hc; [|exact Logic.I].
    destruct (app_step fl x o) as [x2|] eqn:Ha; [|exact Logic.I]. cbn.
    split; [destruct (put_fields y c x2) as (F & _); rewrite F; exact Hk|].
    eapply PI_update; [exact P|exact Hc|]. intros z I L.
    destruct (LI_app x z o x2 I Ha) as (z2 & I2 & T & E). exists z2. split; [exact I2|eapply link_same; eassumption].
  - (* SProc *)
    destruct (y_cl y !! c) as [x|] eqn:Hc; [|exact Logic.I].
    destruct (P c x Hc) as (z0 & I0 & _).
    destruct (proc_step (y_k y) x) as [x2|site|] eqn:Hp; [| |exact Logic.I].
    + cbn. split; [destruct (put_fields y c x2) as (F & _); rewrite F; exact Hk|].
      eapply PI_update; [exact P|exact Hc|]. intros z I L. rewrite Hk in Hp.
      destruct (LI_proc x z x2 I Hp) as (z2 & I2 & T & E). exists z2. split; [exact I2|eapply link_same; eassumption].
    + rewrite Hk in Hp. exfalso. eapply proc_no_panic; eassumption.
  - (* SRecv *)
    destruct (y_cl y !! c) as [x|] eqn:Hc; [|exact Logic.I].
    destruct (c_down x) as [|m d] eqn:Hd; [exact Logic.I|].
    destruct (P c x Hc) as (z0 & I0 & _). destruct (recv_accepts x z0 m d I0 Hd) as [k' Hr]. rewrite Hr. cbn.
    split; [destruct (put_fields y c (x <| c_down := d |> <| c_core := k' |>)) as (F & _); rewrite F; exact Hk|].
    eapply PI_update; [exact P|exact Hc|]. intros z I L. exists z. split; [eapply LI_recv; eassumption|].
    destruct x; exact L.
  - (* SBroker *)
    destruct (y_cl y !! c) as [x|] eqn:Hc; [|exact Logic.I].
    destruct (c_up x) as [|m u] eqn:Hu; [exact Logic.I|].
    pose proof (ci_broker y c x m u G Hc Hu) as H.
    destruct (broker_msg (put y c (x <| c_up := u |>)) c m); cbn in H |- *; try contradiction; exact H.
  - (* SDisconnect *)
    destruct (y_cl y !! c) as [x|] eqn:Hc; [|exact Logic.I].
    pose proof (ci_disconnect y c G) as H.
    destruct (broker_disconnect y c); cbn in H |- *; try contradiction; exact H.
Qed.

Theorem ci_run sched : forall y, CI y -> fine (run fl y sched).
Proof.
  induction sched as [|s sched IH]; intros y G; cbn [run]; [exact G|].
  pose proof (ci_step y s G) as H. destruct (step fl y s) as [y'| | | |site]; cbn in H; try contradiction.
  - apply IH. exact H.
  - apply IH. exact G.
  - exact Logic.I.
Qed.

(* ---------------------------------------------------------------- the initial state *)
Lemma AI_core0 : AI core0 [].
Proof.
  constructor.
  - intros e. unfold tokens. cbn. rewrite !cnt_empty. cbn. split; [lia|]. destruct e; cbn; (split; [congruence|lia]).
  - intros s e hid H. cbn in H. rewrite lookup_empty in H. discriminate.
  - intros s1 s2 e1 e2 hid H. cbn in H. rewrite lookup_empty in H. discriminate.
  - intros e cap hid H. inversion H.
  - constructor.
  - intros q1 v q2 H. destruct q1; discriminate.
  - intros q1 n q2 H. destruct q1; discriminate.
Qed.

Lemma LI_cl0 : LI cl0 core0.
Proof.
  constructor; cbn.
  - reflexivity.
  - exact AI_core0.
  - intros hid [h H]. cbn in H. rewrite lookup_empty in H. discriminate.
  - intros s e b H. rewrite lookup_empty in H. discriminate.
  - intros s e H. inversion H.
  - intros s e hid H. rewrite lookup_empty in H. discriminate.
  - intros s ec H. inversion H.
  - intros m H. inversion H.
  - constructor.
  - intros s H. inversion H.
  - intros s [v H]. rewrite lookup_empty in H. discriminate.
  - intros s [v H]. rewrite lookup_empty in H. discriminate.
Qed.

Definition hs0 (mine : chan_end) : gmap N handle :=
  {[ 0 := {| h_end := mine; h_kind := HClaimed false |}; 1 := {| h_end := other_end mine; h_kind := HUnclaimed |} ]}.

Lemma cnt_hs0 mine e : cnt (tok_handle e) (hs0 mine) = if bool_decide (mine = e) then 1%nat else 0%nat.
Proof.
  unfold hs0.
  rewrite cnt_insert_fresh by (rewrite lookup_singleton_ne by discriminate; reflexivity).
  rewrite <- insert_empty, cnt_insert_fresh by apply lookup_empty. rewrite cnt_empty.
  unfold tok_handle. cbn. rewrite andb_false_r, andb_true_r. destruct (bool_decide (mine = e)); reflexivity.
Qed.

Definition core_created (mine : chan_end) : ccore := set_ent core0 mine (Some EPending) <| k_handles := hs0 mine |>.

Lemma tokens_created mine e : tokens (core_created mine) [] e = if bool_decide (mine = e) then 1%nat else 0%nat.
Proof.
  unfold tokens. assert (k_handles (core_created mine) = hs0 mine) as -> by (destruct mine; reflexivity).
  assert (k_pclose (core_created mine) = ∅) as -> by (destruct mine; reflexivity).
  rewrite cnt_hs0, cnt_empty. cbn. lia.
Qed.

Lemma ent_created mine e : ent (core_created mine) e = if bool_decide (mine = e) then Some EPending else None.
Proof. destruct mine, e; reflexivity. Qed.

Lemma AI_created mine : AI (core_created mine) [].
Proof.
  constructor.
  - intros e. rewrite tokens_created, ent_created. destruct (bool_decide (mine = e)); (split; [lia|]); split; (congruence || lia).
  - intros s e hid H. assert (k_pclaim (core_created mine) = ∅) as Hp by (destruct mine; reflexivity).
    rewrite Hp, lookup_empty in H. discriminate.
  - intros s1 s2 e1 e2 hid H. assert (k_pclaim (core_created mine) = ∅) as Hp by (destruct mine; reflexivity).
    rewrite Hp, lookup_empty in H. discriminate.
  - intros e cap hid H. inversion H.
  - constructor.
  - intros q1 v q2 H. destruct q1; discriminate.
  - intros q1 n q2 H. destruct q1; discriminate.
Qed.

Definition cl_created (mine : chan_end) : cl :=
  {| c_core := core_created mine; c_next := 0; c_nexth := 2; c_q := []; c_up := []; c_down := [] |}.

Lemma LI_created mine : LI (cl_created mine) (core_created mine).
Proof.
  assert (Hpc : k_pclose (core_created mine) = ∅) by (destruct mine; reflexivity).
  assert (Hpk : k_pclaim (core_created mine) = ∅) by (destruct mine; reflexivity).
  assert (Hh : k_handles (core_created mine) = hs0 mine) by (destruct mine; reflexivity).
  constructor; unfold cl_created; cbn [c_core c_next c_nexth c_q c_up c_down cdrain]; rewrite ?Hpc, ?Hpk.
  - reflexivity.
  - apply AI_created.
  - intros hid [h H]. cbn [c_core c_nexth] in *. rewrite Hh in H. unfold hs0 in H.
    apply lookup_insert_Some in H. destruct H as [[<- _]|[_ H]]; [lia|].
    apply lookup_singleton_Some in H. destruct H as [<- _]. lia.
  - intros s e b H. rewrite lookup_empty in H. discriminate.
  - intros s e H. inversion H.
  - intros s e hid H. rewrite lookup_empty in H. discriminate.
  - intros s ec H. inversion H.
  - intros m H. inversion H.
  - constructor.
  - intros s H. inversion H.
  - intros s [v H]. rewrite lookup_empty in H. discriminate.
  - intros s [v H]. rewrite lookup_empty in H. discriminate.
Qed.

Lemma created_CI c0 ec others : CI (created k c0 ec others).
Proof.
  split; [reflexivity|]. set (mine := end_of_cap ec).
  set (ch := match ec with
             | CSender => {| ch_s := Claimed c0 0; ch_r := Unclaimed |}
             | CReceiver cap => {| ch_s := Unclaimed; ch_r := Claimed c0 cap |}
             end).
  assert (Hmine : exists cap, end_st ch mine = Claimed c0 cap) by (destruct ec; cbn; eauto).
  assert (Hother : end_st ch (other_end mine) = Unclaimed) by (destruct ec; reflexivity).
  intros c' x' Hx'. cbn in Hx'. fold mine in Hx'. destruct (decide (c' = c0)) as [->|Hne].
  - rewrite lookup_insert in Hx'. inversion Hx'; subst x'; clear Hx'.
    exists (core_created mine). split; [exact (LI_created mine)|]. cbn. fold ch.
    intros e _. rewrite tokens_created, ent_created. destruct (end_cases mine e) as [-> | ->].
    + destruct Hmine as [cap Hm]. rewrite Hm, bool_decide_eq_true_2 by reflexivity. split; [|discriminate].
      intros cap' _. rewrite Hother. split; reflexivity.
    + rewrite Hother. rewrite bool_decide_eq_false_2 by (intros H; symmetry in H; apply other_end_ne in H; exact H).
      split; [intros cap Hc; discriminate|reflexivity].
  - rewrite lookup_insert_ne in Hx' by congruence.
    apply elem_of_list_to_map_2 in Hx'. apply elem_of_list_fmap in Hx'. destruct Hx' as (c'' & Hp & _). inversion Hp; subst.
    exists core0. split; [apply LI_cl0|]. cbn. fold ch. intros e _. split.
    + intros cap Hc. exfalso. destruct (end_cases mine e) as [-> | ->].
      * destruct Hmine as [cap' Hm]. rewrite Hm in Hc. inversion Hc. congruence.
      * rewrite Hother in Hc. discriminate.
    + intros _. unfold tokens. cbn. rewrite !cnt_empty. reflexivity.
Qed.

(* ---------------------------------------------------------------- the theorem *)
Theorem channel_ends_safe c0 ec others sched : fine (run fl (created k c0 ec others) sched).
Proof. apply ci_run. apply created_CI. Qed.

End ChanEnds.
