(* Proto/ChanEndsProofs.v — C06_channel_ends (positive part): in the composed system of
   Proto/ClientView.v ([csys]: handle typestate, handle->client queue, client slice, the two FIFOs
   of every connection, the broker's channel entry driven by Model.chan_* ), with the repaired
   error path of claim() ([fl_refused_closed]) and every claim awaited to completion
   ([fl_cancel] = false), NO schedule makes a client reject a message or trip an assertion.

   Client-local invariant [AI] (holds at every point of the stream a client consumes): the
   "claimed token" of an end — the live handle with claimed = true, or the drop-driven close
   request in the handle queue, or the pending close — exists at most once, and the end is in the
   client's map iff it exists.  System invariant [CI]: with x' = the client slice after it will
   have consumed everything in flight towards it, draining succeeds; the pending maps of x' are
   exactly the requests still travelling to the broker; and x' agrees with the broker's channel
   entry: an end the broker regards as claimed by c has its token at c and c's entry state mirrors
   the state of the peer end; an end the broker regards as unclaimed has no token anywhere. *)
From stdpp Require Import gmap list.
From RecordUpdate Require Import RecordSet.
Import RecordSetNotations.
From Aldrin Require Import gen.ClientConsts Broker.Model Proto.ClientView.
Local Open Scope N_scope.

Definition cnt {A} (P : A -> bool) (m : gmap N A) : nat := size (filter (fun p => P p.2 = true) m).

Lemma cnt_empty {A} (P : A -> bool) : cnt P ∅ = 0%nat.
Proof. unfold cnt. rewrite map_filter_empty. apply map_size_empty. Qed.

Lemma cnt_insert_fresh {A} (P : A -> bool) m i x :
  m !! i = None -> cnt P (<[i := x]> m) = (cnt P m + if P x then 1 else 0)%nat.
Proof.
  intros Hi. unfold cnt. destruct (P x) eqn:E.
  - rewrite map_filter_insert_True by exact E. rewrite map_size_insert.
    rewrite (proj2 (map_filter_lookup_None _ _ _)) by (left; exact Hi). cbn. lia.
  - rewrite map_filter_insert_not'; [lia| cbn; congruence |]. intros y Hy. congruence.
Qed.

Lemma cnt_delete {A} (P : A -> bool) m i y :
  m !! i = Some y -> (cnt P (delete i m) + if P y then 1 else 0)%nat = cnt P m.
Proof.
  intros Hi. unfold cnt. rewrite map_filter_delete, map_size_delete. destruct (P y) eqn:E.
  - rewrite (proj2 (map_filter_lookup_Some _ _ _ _)) by (split; [exact Hi|exact E]).
    assert (size (filter (λ p : N * A, P p.2 = true) m) <> 0)%nat.
    { intros H0. apply map_size_empty_inv in H0.
      assert (filter (λ p : N * A, P p.2 = true) m !! i = Some y) by (apply map_filter_lookup_Some; split; [exact Hi|exact E]).
      rewrite H0, lookup_empty in H. discriminate. }
    destruct (size (filter (λ p : N * A, P p.2 = true) m)); [congruence|cbn; lia].
  - rewrite (proj2 (map_filter_lookup_None _ _ _)); [cbn; lia|]. right. intros z Hz. cbn. congruence.
Qed.

Lemma cnt_delete_none {A} (P : A -> bool) m i : m !! i = None -> cnt P (delete i m) = cnt P m.
Proof. intros H. rewrite delete_notin by exact H. reflexivity. Qed.

Lemma cnt_insert {A} (P : A -> bool) m i x y :
  m !! i = Some y ->
  (cnt P (<[i := x]> m) + if P y then 1 else 0)%nat = (cnt P m + if P x then 1 else 0)%nat.
Proof.
  intros Hi. rewrite <- (insert_delete_insert m i x).
  rewrite cnt_insert_fresh by apply lookup_delete. pose proof (cnt_delete P m i y Hi). lia.
Qed.

Lemma cnt_pos {A} (P : A -> bool) m i y : m !! i = Some y -> P y = true -> (1 <= cnt P m)%nat.
Proof. intros Hi Hp. pose proof (cnt_delete P m i y Hi). rewrite Hp in H. lia. Qed.

(* ---------------------------------------------------------------- tokens *)
Definition tok_handle (e : chan_end) (h : handle) : bool :=
  bool_decide (h_end h = e) && match h_kind h with HClaimed _ | HResult true => true | _ => false end.
Definition tok_close (e : chan_end) (p : chan_end * bool) : bool := bool_decide (p.1 = e) && p.2.
Definition tok_req (e : chan_end) (r : hreq) : bool :=
  match r with QClose e' true => bool_decide (e' = e) | _ => false end.
Definition nq (e : chan_end) (q : list hreq) : nat := length (List.filter (tok_req e) q).
Definition tokens (x : ccore) (q : list hreq) (e : chan_end) : nat :=
  (cnt (tok_handle e) (k_handles x) + nq e q + cnt (tok_close e) (k_pclose x))%nat.

Definition qclaim_hid (r : hreq) : option N := match r with QClaim _ _ hid => Some hid | _ => None end.

Lemma nq_app e q1 q2 : nq e (q1 ++ q2) = (nq e q1 + nq e q2)%nat.
Proof. unfold nq. rewrite List.filter_app, app_length. reflexivity. Qed.

Lemma nq_cons e r q : nq e (r :: q) = ((if tok_req e r then 1 else 0) + nq e q)%nat.
Proof. unfold nq. cbn. destruct (tok_req e r); reflexivity. Qed.

Lemma ent_set_same x e v : ent (set_ent x e v) e = v.
Proof. destruct x, e; reflexivity. Qed.
Lemma ent_set_other x e e' v : e <> e' -> ent (set_ent x e v) e' = ent x e'.
Proof. destruct x, e, e'; intros H; try contradiction; reflexivity. Qed.
Lemma other_end_ne e : other_end e <> e.
Proof. destruct e; discriminate. Qed.
Lemma other_end_invol e : other_end (other_end e) = e.
Proof. destruct e; reflexivity. Qed.
Lemma end_cases e e' : e' = e \/ e' = other_end e.
Proof. destruct e, e'; auto. Qed.

Record AI (x : ccore) (q : list hreq) : Prop := {
  ai_tok : forall e, (tokens x q e <= 1)%nat /\ (ent x e <> None <-> tokens x q e = 1%nat);
  ai_claim_h : forall s e hid, k_pclaim x !! s = Some (e, hid) ->
               k_handles x !! hid = Some {| h_end := e; h_kind := HClaiming |};
  ai_claim_inj : forall s1 s2 e1 e2 hid, k_pclaim x !! s1 = Some (e1, hid) -> k_pclaim x !! s2 = Some (e2, hid) -> s1 = s2;
  ai_q_claim : forall e cap hid, QClaim e cap hid ∈ q ->
               k_handles x !! hid = Some {| h_end := e; h_kind := HClaiming |} /\
               forall s e', k_pclaim x !! s <> Some (e', hid);
  ai_q_nodup : NoDup (omap qclaim_hid q);
  ai_q_send : forall q1 v q2, q = q1 ++ QSend v :: q2 ->
              (exists hid b, k_handles x !! hid = Some {| h_end := ESender; h_kind := HClaimed b |}) \/ QClose ESender true ∈ q2;
  ai_q_addcap : forall q1 n q2, q = q1 ++ QAddCap n :: q2 ->
              (exists hid b, k_handles x !! hid = Some {| h_end := EReceiver; h_kind := HClaimed b |}) \/ QClose EReceiver true ∈ q2 }.

Section ChanEnds.
Variable k : uuid.
Variable fl : flags.
Hypothesis Hfix : fl_refused_closed fl = true.
Hypothesis Hnc : fl_cancel fl = false.

Fixpoint cdrain (x : ccore) (d : list msg) : rres :=
  match d with
  | [] => ROk x
  | m :: r => match crecv fl x m with ROk x' => cdrain x' r | bad => bad end
  end.

Lemma cdrain_app x d1 d2 :
  cdrain x (d1 ++ d2) = match cdrain x d1 with ROk x1 => cdrain x1 d2 | bad => bad end.
Proof.
  revert x. induction d1 as [|m d1 IH]; intros x; cbn [cdrain app]; [reflexivity|].
  destruct (crecv fl x m); [apply IH|reflexivity|reflexivity].
Qed.

(* the token of an end with an entry can be located *)
Lemma tok_present x q e : AI x q -> ent x e <> None -> tokens x q e = 1%nat.
Proof. intros I H. apply (ai_tok _ _ I e). exact H. Qed.
Lemma tok_absent x q e : AI x q -> ent x e = None -> tokens x q e = 0%nat.
Proof.
  intros I H. destruct (ai_tok _ _ I e) as [Hle Hiff].
  destruct (tokens x q e) as [|[|n]] eqn:E; [reflexivity| |lia].
  exfalso. apply (proj2 Hiff); [reflexivity|exact H].
Qed.

(* ---------------------------------------------------------------- how tokens move *)
Lemma tokens_set_ent x q e v e' : tokens (set_ent x e v) q e' = tokens x q e'.
Proof. destruct x, e; reflexivity. Qed.

Lemma tokens_del_pclose x q s e b e' :
  k_pclose x !! s = Some (e, b) ->
  (tokens (x <| k_pclose ::= delete s |>) q e' + if tok_close e' (e, b) then 1 else 0)%nat = tokens x q e'.
Proof.
  intros H. destruct x as [es er pc pk hs]. unfold tokens. cbn in *.
  pose proof (cnt_delete (tok_close e') pc s (e, b) H). lia.
Qed.

Lemma tokens_ins_pclose x q s e b e' :
  k_pclose x !! s = None ->
  tokens (x <| k_pclose ::= <[s := (e, b)]> |>) q e' = (tokens x q e' + if tok_close e' (e, b) then 1 else 0)%nat.
Proof.
  intros H. destruct x as [es er pc pk hs]. unfold tokens. cbn in *.
  rewrite (cnt_insert_fresh (tok_close e') pc s (e, b) H). lia.
Qed.

Lemma tokens_pclaim x q f e' : tokens (x <| k_pclaim ::= f |>) q e' = tokens x q e'.
Proof. destruct x. reflexivity. Qed.

Lemma tokens_set_handle x q hid h h0 e' :
  k_handles x !! hid = Some h0 ->
  (tokens (x <| k_handles ::= <[hid := h]> |>) q e' + if tok_handle e' h0 then 1 else 0)%nat
  = (tokens x q e' + if tok_handle e' h then 1 else 0)%nat.
Proof.
  intros H. destruct x as [es er pc pk hs]. unfold tokens. cbn in *.
  pose proof (cnt_insert (tok_handle e') hs hid h h0 H). lia.
Qed.

Lemma tokens_new_handle x q hid h e' :
  k_handles x !! hid = None ->
  tokens (x <| k_handles ::= <[hid := h]> |>) q e' = (tokens x q e' + if tok_handle e' h then 1 else 0)%nat.
Proof.
  intros H. destruct x as [es er pc pk hs]. unfold tokens. cbn in *.
  rewrite (cnt_insert_fresh (tok_handle e') hs hid h H). lia.
Qed.

Lemma tokens_del_handle x q hid h0 e' :
  k_handles x !! hid = Some h0 ->
  (tokens (x <| k_handles ::= delete hid |>) q e' + if tok_handle e' h0 then 1 else 0)%nat = tokens x q e'.
Proof.
  intros H. destruct x as [es er pc pk hs]. unfold tokens. cbn in *.
  pose proof (cnt_delete (tok_handle e') hs hid h0 H). lia.
Qed.

Lemma tok_close_true e e' : tok_close e' (e, true) = bool_decide (e = e').
Proof. unfold tok_close. cbn. rewrite andb_true_r. reflexivity. Qed.
Lemma tok_close_false e e' : tok_close e' (e, false) = false.
Proof. unfold tok_close. cbn. apply andb_false_r. Qed.

Lemma tokens_ge_pclose x q s e : k_pclose x !! s = Some (e, true) -> (1 <= tokens x q e)%nat.
Proof.
  intros H. unfold tokens. pose proof (cnt_pos (tok_close e) (k_pclose x) s (e, true) H).
  rewrite tok_close_true, bool_decide_eq_true_2 in H0 by reflexivity. specialize (H0 eq_refl). lia.
Qed.

(* fields that setting an entry / deleting a pending entry does not touch *)
Lemma set_ent_fields x e v :
  k_pclose (set_ent x e v) = k_pclose x /\ k_pclaim (set_ent x e v) = k_pclaim x /\ k_handles (set_ent x e v) = k_handles x.
Proof. destruct x, e; repeat split. Qed.

Lemma deliver_claiming x hid e ok :
  k_handles x !! hid = Some {| h_end := e; h_kind := HClaiming |} ->
  deliver x hid ok = x <| k_handles ::= <[hid := {| h_end := e; h_kind := HResult ok |}]> |>.
Proof. intros H. unfold deliver. rewrite H. reflexivity. Qed.

(* ---------------------------------------------------------------- consuming a message keeps AI *)
Lemma AI_same_handles x x' q :
  AI x q -> k_handles x' = k_handles x -> k_pclaim x' = k_pclaim x ->
  (forall e, (tokens x' q e <= 1)%nat /\ (ent x' e <> None <-> tokens x' q e = 1%nat)) -> AI x' q.
Proof.
  intros I Hh Hp Ht. destruct I as [I1 I2 I3 I4 I5 I6 I7].
  constructor; rewrite ?Hh, ?Hp; assumption.
Qed.

Lemma crecv_AI x q m x' : AI x q -> crecv fl x m = ROk x' -> AI x' q.
Proof.
  intros I H. destruct m; cbn in H; try discriminate.
  - (* CloseChannelEndReply *)
    destruct (k_pclose x !! serial) as [[e claimed]|] eqn:E; cbn in H; [|discriminate].
    destruct claimed; cbn in H.
    + assert (Hent : ent x e <> None).
      { apply (ai_tok _ _ I e). pose proof (tokens_ge_pclose x q serial e E).
        pose proof (proj1 (ai_tok _ _ I e)). lia. }
      destruct (ent x e) as [st|] eqn:Ee; [|contradiction]. inversion H; subst x'; clear H.
      destruct (set_ent_fields (x <| k_pclose ::= delete serial |>) e None) as (F1 & F2 & F3).
      apply (AI_same_handles x); [exact I| rewrite F3; destruct x; reflexivity | rewrite F2; destruct x; reflexivity |].
      intros e'. rewrite tokens_set_ent.
      pose proof (tokens_del_pclose x q serial e true e' E) as Hd. rewrite tok_close_true in Hd.
      destruct (ai_tok _ _ I e') as [Hle Hiff].
      destruct (decide (e = e')) as [->|Hne].
      * rewrite bool_decide_eq_true_2 in Hd by reflexivity. rewrite ent_set_same.
        assert (tokens x q e' = 1%nat) by (apply Hiff; congruence).
        split; [lia|]. split; [intros Hx; contradiction|lia].
      * rewrite bool_decide_eq_false_2 in Hd by exact Hne. rewrite ent_set_other by exact Hne.
        assert (ent (x <| k_pclose ::= delete serial |>) e' = ent x e') by (destruct x, e'; reflexivity).
        rewrite H. split; [lia|]. rewrite Hiff. lia.
    + inversion H; subst x'; clear H.
      apply (AI_same_handles x); [exact I|destruct x; reflexivity|destruct x; reflexivity|].
      intros e'. pose proof (tokens_del_pclose x q serial e false e' E) as Hd. rewrite tok_close_false in Hd.
      assert (ent (x <| k_pclose ::= delete serial |>) e' = ent x e') by (destruct x, e'; reflexivity).
      rewrite H. destruct (ai_tok _ _ I e') as [Hle Hiff]. split; [lia|]. rewrite Hiff. lia.
  - (* ChannelEndClosed *)
    destruct (ent x (other_end e)) as [st|] eqn:Ee; [|discriminate].
    assert (x' = set_ent x (other_end e) (Some EPeerClosed)) by (destruct st; try discriminate; inversion H; reflexivity).
    subst x'. destruct (set_ent_fields x (other_end e) (Some EPeerClosed)) as (F1 & F2 & F3).
    apply (AI_same_handles x); [exact I|exact F3|exact F2|].
    intros e'. rewrite tokens_set_ent. destruct (ai_tok _ _ I e') as [Hle Hiff]. split; [exact Hle|].
    destruct (decide (other_end e = e')) as [<-|Hne].
    + rewrite ent_set_same. rewrite <- Hiff, Ee. split; intros; congruence.
    + rewrite ent_set_other by exact Hne. exact Hiff.
  - (* ClaimChannelEndReply *)
    destruct (k_pclaim x !! serial) as [[e hid]|] eqn:E; cbn in H; [|discriminate].
    pose proof (ai_claim_h _ _ I _ _ _ E) as Hh.
    assert (Hcommon : forall ok x1,
               k_pclaim x1 = delete serial (k_pclaim x) -> k_handles x1 = k_handles x ->
               (forall e', (tokens (deliver x1 hid ok) q e' <= 1)%nat /\
                           (ent (deliver x1 hid ok) e' <> None <-> tokens (deliver x1 hid ok) q e' = 1%nat)) ->
               AI (deliver x1 hid ok) q).
    { intros ok x1 Hp Hhs Ht.
      assert (Hd : deliver x1 hid ok = x1 <| k_handles ::= <[hid := {| h_end := e; h_kind := HResult ok |}]> |>).
      { apply deliver_claiming. rewrite Hhs. exact Hh. }
      assert (Hpk : k_pclaim (deliver x1 hid ok) = delete serial (k_pclaim x)) by (rewrite Hd; destruct x1; exact Hp).
      assert (Hhd : k_handles (deliver x1 hid ok) = <[hid := {| h_end := e; h_kind := HResult ok |}]> (k_handles x)).
      { rewrite Hd. destruct x1. cbn in *. rewrite Hhs. reflexivity. }
      destruct I as [I1 I2 I3 I4 I5 I6 I7]. constructor.
      - exact Ht.
      - intros s e0 hid0. rewrite Hpk, Hhd. intros Hs. apply lookup_delete_Some in Hs. destruct Hs as [Hne Hs].
        assert (hid0 <> hid) by (intros ->; apply Hne; symmetry; eapply I3; eassumption).
        rewrite lookup_insert_ne by congruence. eapply I2. exact Hs.
      - intros s1 s2 e1 e2 hid0. rewrite Hpk. intros H1 H2.
        apply lookup_delete_Some in H1. apply lookup_delete_Some in H2. eapply I3; [apply H1|apply H2].
      - intros e0 cap hid0 Hin. destruct (I4 _ _ _ Hin) as [G1 G2]. rewrite Hpk, Hhd.
        assert (hid0 <> hid) by (intros ->; eapply G2; exact E).
        rewrite lookup_insert_ne by congruence. split; [exact G1|].
        intros s e'. intros Hs. apply lookup_delete_Some in Hs. eapply G2. apply Hs.
      - exact I5.
      - intros q1 v q2 Hq. destruct (I6 _ _ _ Hq) as [(h & b & G)|G]; [|right; exact G].
        left. exists h, b. rewrite Hhd. rewrite lookup_insert_ne; [exact G|]. intros ->. rewrite Hh in G. discriminate.
      - intros q1 n q2 Hq. destruct (I7 _ _ _ Hq) as [(h & b & G)|G]; [|right; exact G].
        left. exists h, b. rewrite Hhd. rewrite lookup_insert_ne; [exact G|]. intros ->. rewrite Hh in G. discriminate. }
    assert (Hrefused : ROk (deliver (x <| k_pclaim ::= delete serial |>) hid false) = ROk x' -> AI x' q).
    { intros Hx. inversion Hx; subst x'; clear Hx. apply Hcommon; [destruct x; reflexivity|destruct x; reflexivity|].
      intros e'. rewrite (deliver_claiming _ hid e false) by (destruct x; exact Hh).
      pose proof (tokens_set_handle (x <| k_pclaim ::= delete serial |>) q hid {| h_end := e; h_kind := HResult false |}
                    {| h_end := e; h_kind := HClaiming |} e' ltac:(destruct x; exact Hh)) as Ht.
      unfold tok_handle in Ht at 1 2. cbn in Ht. rewrite !andb_false_r in Ht. rewrite tokens_pclaim in Ht.
      assert (Hent : ent (x <| k_pclaim ::= delete serial |> <| k_handles ::= <[hid:={| h_end := e; h_kind := HResult false |}]> |>) e' = ent x e')
        by (destruct x, e'; reflexivity).
      rewrite Hent. destruct (ai_tok _ _ I e') as [Hle Hiff]. split; [lia|]. rewrite Hiff. lia. }
    assert (Hok : ent x e = None ->
                  ROk (deliver (set_ent (x <| k_pclaim ::= delete serial |>) e (Some EEstablished)) hid true) = ROk x' -> AI x' q).
    { intros Hnone Hx. inversion Hx; subst x'; clear Hx.
      destruct (set_ent_fields (x <| k_pclaim ::= delete serial |>) e (Some EEstablished)) as (F1 & F2 & F3).
      apply Hcommon; [rewrite F2; destruct x; reflexivity|rewrite F3; destruct x; reflexivity|].
      intros e'. rewrite (deliver_claiming _ hid e true) by (rewrite F3; destruct x; exact Hh).
      pose proof (tokens_set_handle (set_ent (x <| k_pclaim ::= delete serial |>) e (Some EEstablished)) q hid
                    {| h_end := e; h_kind := HResult true |} {| h_end := e; h_kind := HClaiming |} e'
                    ltac:(rewrite F3; destruct x; exact Hh)) as Ht.
      rewrite tokens_set_ent, tokens_pclaim in Ht.
      unfold tok_handle in Ht at 1 2. cbn in Ht. rewrite andb_false_r, andb_true_r in Ht.
      assert (Hent : ent (set_ent (x <| k_pclaim ::= delete serial |>) e (Some EEstablished)
                           <| k_handles ::= <[hid:={| h_end := e; h_kind := HResult true |}]> |>) e'
                     = ent (set_ent x e (Some EEstablished)) e') by (destruct x, e, e'; reflexivity).
      rewrite Hent. destruct (ai_tok _ _ I e') as [Hle Hiff].
      destruct (decide (e = e')) as [->|Hne].
      - rewrite bool_decide_eq_true_2 in Ht by reflexivity. rewrite ent_set_same.
        pose proof (tok_absent x q e' I Hnone). split; [lia|]. split; [lia|congruence].
      - rewrite bool_decide_eq_false_2 in Ht by exact Hne. rewrite ent_set_other by exact Hne.
        split; [lia|]. rewrite Hiff. lia. }
    destruct e, r; cbn in H; try discriminate; try (apply Hrefused; exact H).
    + destruct (k_es x) eqn:Ee; [discriminate|]. apply Hok; [exact Ee|exact H].
    + destruct (k_er x) eqn:Ee; [discriminate|]. apply Hok; [exact Ee|exact H].
  - (* ChannelEndClaimed *)
    destruct (ent x (other_end (end_of_cap e))) as [st|] eqn:Ee; [|discriminate].
    assert (x' = set_ent x (other_end (end_of_cap e)) (Some EEstablished)) by (destruct st; try discriminate; inversion H; reflexivity).
    subst x'. destruct (set_ent_fields x (other_end (end_of_cap e)) (Some EEstablished)) as (F1 & F2 & F3).
    apply (AI_same_handles x); [exact I|exact F3|exact F2|].
    intros e'. rewrite tokens_set_ent. destruct (ai_tok _ _ I e') as [Hle Hiff]. split; [exact Hle|].
    destruct (decide (other_end (end_of_cap e) = e')) as [<-|Hne].
    + rewrite ent_set_same. rewrite <- Hiff, Ee. split; intros; congruence.
    + rewrite ent_set_other by exact Hne. exact Hiff.
  - (* AddChannelCapacity *)
    destruct (k_es x) as [[]|]; try discriminate. inversion H; subst. exact I.
  - (* ItemReceived *)
    destruct (k_er x) as [[]|]; try discriminate. inversion H; subst. exact I.
Qed.

Lemma cdrain_AI d : forall x q x', AI x q -> cdrain x d = ROk x' -> AI x' q.
Proof.
  induction d as [|m d IH]; intros x q x' I H; cbn [cdrain] in H.
  - inversion H; subst. exact I.
  - destruct (crecv fl x m) as [x1| |] eqn:E; try discriminate.
    eapply IH; [|exact H]. eapply crecv_AI; eassumption.
Qed.

(* ---------------------------------------------------------------- application steps keep AI *)
Definition upd_h (hid : N) (o : option handle) (hs : gmap N handle) : gmap N handle :=
  match o with Some h => <[hid := h]> hs | None => delete hid hs end.
Definition tokb (e : chan_end) (o : option handle) : nat :=
  match o with Some h => if tok_handle e h then 1%nat else 0%nat | None => 0%nat end.
Definition claiming (o : option handle) : Prop := exists e, o = Some {| h_end := e; h_kind := HClaiming |}.
Definition held (e : chan_end) (o : option handle) : Prop := exists b, o = Some {| h_end := e; h_kind := HClaimed b |}.

Lemma set_handle_core x hid o : c_core (set_handle x hid o) = c_core x <| k_handles ::= upd_h hid o |>.
Proof. destruct x as [c ? ? ? ? ?], c, o; reflexivity. Qed.

Lemma tokens_upd_h x q hid o e :
  (tokens (x <| k_handles ::= upd_h hid o |>) q e + tokb e (k_handles x !! hid))%nat = (tokens x q e + tokb e o)%nat.
Proof.
  destruct x as [es er pc pk hs]. unfold tokens. cbn.
  destruct o as [h|]; cbn [upd_h tokb].
  - destruct (hs !! hid) as [h0|] eqn:E; cbn [tokb].
    + pose proof (cnt_insert (tok_handle e) hs hid h h0 E). lia.
    + rewrite (cnt_insert_fresh (tok_handle e) hs hid h E). lia.
  - destruct (hs !! hid) as [h0|] eqn:E; cbn [tokb].
    + pose proof (cnt_delete (tok_handle e) hs hid h0 E). lia.
    + rewrite (cnt_delete_none (tok_handle e) hs hid E). lia.
Qed.

Lemma upd_h_lookup_ne hid o hs hid' : hid' <> hid -> upd_h hid o hs !! hid' = hs !! hid'.
Proof. intros H. destruct o; cbn; [apply lookup_insert_ne|apply lookup_delete_ne]; congruence. Qed.
Lemma upd_h_lookup hid o hs : upd_h hid o hs !! hid = o.
Proof. destruct o; cbn; [apply lookup_insert|apply lookup_delete]. Qed.

Lemma ent_upd_h x f e : ent (x <| k_handles ::= f |>) e = ent x e.
Proof. destruct x, e; reflexivity. Qed.

Lemma snoc_split {A} (q q1 q2 : list A) (r a : A) :
  q ++ [r] = q1 ++ a :: q2 -> (exists q2', q2 = q2' ++ [r] /\ q = q1 ++ a :: q2') \/ (q2 = [] /\ q = q1 /\ r = a).
Proof.
  intros H. destruct q2 as [|b q2' _] using rev_ind.
  - right. change (q1 ++ [a]) with (q1 ++ [a]) in H. apply app_inj_tail in H. destruct H; subst. auto.
  - left. exists q2'. rewrite app_comm_cons, app_assoc in H. apply app_inj_tail in H. destruct H; subst. auto.
Qed.

(* a handle that is neither claiming before nor after changes; the queue is untouched *)
Lemma AI_upd_handle x q hid o :
  AI x q -> ~ claiming (k_handles x !! hid) -> ~ claiming o ->
  (forall e, tokb e (k_handles x !! hid) = tokb e o) ->
  (forall e, held e (k_handles x !! hid) -> held e o) ->
  AI (x <| k_handles ::= upd_h hid o |>) q.
Proof.
  intros I Hold Hnew Htok Hheld. destruct I as [I1 I2 I3 I4 I5 I6 I7].
  assert (Hpk : k_pclaim (x <| k_handles ::= upd_h hid o |>) = k_pclaim x) by (destruct x; reflexivity).
  assert (Hhs : k_handles (x <| k_handles ::= upd_h hid o |>) = upd_h hid o (k_handles x)) by (destruct x; reflexivity).
  constructor.
  - intros e. pose proof (tokens_upd_h x q hid o e) as Ht. rewrite Htok in Ht. rewrite ent_upd_h.
    destruct (I1 e) as [Hle Hiff]. split; [lia|]. rewrite Hiff. lia.
  - intros s e hid0. rewrite Hpk, Hhs. intros Hs. pose proof (I2 _ _ _ Hs) as G.
    rewrite upd_h_lookup_ne; [exact G|]. intros ->. apply Hold. exists e. exact G.
  - intros s1 s2 e1 e2 hid0. rewrite Hpk. apply I3.
  - intros e cap hid0 Hin. destruct (I4 _ _ _ Hin) as [G1 G2]. rewrite Hpk, Hhs. split; [|exact G2].
    rewrite upd_h_lookup_ne; [exact G1|]. intros ->. apply Hold. exists e. exact G1.
  - exact I5.
  - intros q1 v q2 Hq. destruct (I6 _ _ _ Hq) as [(h & b & G)|G]; [|right; exact G]. left. rewrite Hhs.
    destruct (decide (h = hid)) as [->|Hne].
    + destruct (Hheld ESender (ex_intro _ b G)) as [b' Hb']. exists hid, b'. rewrite upd_h_lookup. exact Hb'.
    + exists h, b. rewrite upd_h_lookup_ne by exact Hne. exact G.
  - intros q1 n q2 Hq. destruct (I7 _ _ _ Hq) as [(h & b & G)|G]; [|right; exact G]. left. rewrite Hhs.
    destruct (decide (h = hid)) as [->|Hne].
    + destruct (Hheld EReceiver (ex_intro _ b G)) as [b' Hb']. exists hid, b'. rewrite upd_h_lookup. exact Hb'.
    + exists h, b. rewrite upd_h_lookup_ne by exact Hne. exact G.
Qed.

(* enqueueing a request that is neither a claim nor an item/capacity request, with no token *)
Lemma AI_enq_plain x q r :
  AI x q -> qclaim_hid r = None -> (forall e, tok_req e r = false) ->
  (forall v, r <> QSend v) -> (forall n, r <> QAddCap n) -> AI x (q ++ [r]).
Proof.
  intros I Hr Ht Hs Ha. destruct I as [I1 I2 I3 I4 I5 I6 I7]. constructor; try assumption.
  - intros e. assert (Heq : tokens x (q ++ [r]) e = tokens x q e).
    { unfold tokens. rewrite nq_app, nq_cons, Ht. cbn. lia. }
    rewrite Heq. apply I1.
  - intros e cap hid Hin. apply elem_of_app in Hin. destruct Hin as [Hin|Hin]; [eapply I4; exact Hin|].
    apply elem_of_list_singleton in Hin. subst r. discriminate.
  - rewrite omap_app. cbn. rewrite Hr. rewrite app_nil_r. exact I5.
  - intros q1 v q2 Hq. apply snoc_split in Hq. destruct Hq as [(q2' & -> & Hq)|(_ & _ & Hq)]; [|exfalso; eapply Hs; exact Hq].
    destruct (I6 _ _ _ Hq) as [G|G]; [left; exact G|right]. apply elem_of_app. left. exact G.
  - intros q1 n q2 Hq. apply snoc_split in Hq. destruct Hq as [(q2' & -> & Hq)|(_ & _ & Hq)]; [|exfalso; eapply Ha; exact Hq].
    destruct (I7 _ _ _ Hq) as [G|G]; [left; exact G|right]. apply elem_of_app. left. exact G.
Qed.

Lemma in_omap_qclaim (q : list hreq) (hid : N) : hid ∈ omap qclaim_hid q -> exists e cap, QClaim e cap hid ∈ q.
Proof.
  intros H. apply elem_of_list_omap in H. destruct H as (r & Hr & Hq). destruct r; try discriminate.
  inversion Hq; subst. eauto.
Qed.

Lemma AI_claim x q hid e cap :
  AI x q -> k_handles x !! hid = Some {| h_end := e; h_kind := HUnclaimed |} ->
  AI (x <| k_handles ::= upd_h hid (Some {| h_end := e; h_kind := HClaiming |}) |>) (q ++ [QClaim e cap hid]).
Proof.
  intros I Hh. destruct I as [I1 I2 I3 I4 I5 I6 I7].
  set (o := Some {| h_end := e; h_kind := HClaiming |}).
  assert (Hpk : k_pclaim (x <| k_handles ::= upd_h hid o |>) = k_pclaim x) by (destruct x; reflexivity).
  assert (Hhs : k_handles (x <| k_handles ::= upd_h hid o |>) = upd_h hid o (k_handles x)) by (destruct x; reflexivity).
  assert (Hnoentry : forall s e', k_pclaim x !! s <> Some (e', hid)).
  { intros s e' Hs. apply I2 in Hs. rewrite Hh in Hs. discriminate. }
  constructor.
  - intros e'. pose proof (tokens_upd_h x (q ++ [QClaim e cap hid]) hid o e') as Ht. rewrite Hh in Ht.
    subst o. cbn [tokb] in Ht. unfold tok_handle in Ht. cbn in Ht. rewrite !andb_false_r in Ht.
    assert (Hq : tokens x (q ++ [QClaim e cap hid]) e' = tokens x q e').
    { unfold tokens. rewrite nq_app, nq_cons. cbn. lia. }
    rewrite ent_upd_h. destruct (I1 e') as [Hle Hiff]. split; [lia|]. rewrite Hiff. lia.
  - intros s e0 hid0. rewrite Hpk, Hhs. intros Hs. pose proof (I2 _ _ _ Hs) as G.
    rewrite upd_h_lookup_ne; [exact G|]. intros ->. eapply Hnoentry. exact Hs.
  - intros s1 s2 e1 e2 hid0. rewrite Hpk. apply I3.
  - intros e0 cap0 hid0 Hin. rewrite Hpk, Hhs. apply elem_of_app in Hin. destruct Hin as [Hin|Hin].
    + destruct (I4 _ _ _ Hin) as [G1 G2]. split; [|exact G2].
      rewrite upd_h_lookup_ne; [exact G1|]. intros ->. rewrite Hh in G1. discriminate.
    + apply elem_of_list_singleton in Hin. inversion Hin; subst. split; [apply upd_h_lookup|exact Hnoentry].
  - rewrite omap_app. cbn. apply NoDup_app. split; [exact I5|]. split; [|apply NoDup_singleton].
    intros h Hin Hin'. apply elem_of_list_singleton in Hin'. subst h.
    apply in_omap_qclaim in Hin. destruct Hin as (e0 & cap0 & Hin). destruct (I4 _ _ _ Hin) as [G _].
    rewrite Hh in G. discriminate.
  - intros q1 v q2 Hq. apply snoc_split in Hq. destruct Hq as [(q2' & -> & Hq)|(_ & _ & Hq)]; [|discriminate].
    destruct (I6 _ _ _ Hq) as [(h & b & G)|G]; [left|right; apply elem_of_app; left; exact G].
    exists h, b. rewrite Hhs, upd_h_lookup_ne; [exact G|]. intros ->. rewrite Hh in G. discriminate.
  - intros q1 n q2 Hq. apply snoc_split in Hq. destruct Hq as [(q2' & -> & Hq)|(_ & _ & Hq)]; [|discriminate].
    destruct (I7 _ _ _ Hq) as [(h & b & G)|G]; [left|right; apply elem_of_app; left; exact G].
    exists h, b. rewrite Hhs, upd_h_lookup_ne; [exact G|]. intros ->. rewrite Hh in G. discriminate.
Qed.

Lemma AI_drop_claimed x q hid e b :
  AI x q -> k_handles x !! hid = Some {| h_end := e; h_kind := HClaimed b |} ->
  AI (x <| k_handles ::= upd_h hid None |>) (q ++ [QClose e true]).
Proof.
  intros I Hh. destruct I as [I1 I2 I3 I4 I5 I6 I7].
  assert (Hpk : k_pclaim (x <| k_handles ::= upd_h hid None |>) = k_pclaim x) by (destruct x; reflexivity).
  assert (Hhs : k_handles (x <| k_handles ::= upd_h hid None |>) = upd_h hid None (k_handles x)) by (destruct x; reflexivity).
  constructor.
  - intros e'. pose proof (tokens_upd_h x (q ++ [QClose e true]) hid None e') as Ht. rewrite Hh in Ht.
    cbn [tokb] in Ht. unfold tok_handle in Ht. cbn in Ht. rewrite andb_true_r in Ht.
    assert (Hq : tokens x (q ++ [QClose e true]) e' = (tokens x q e' + if bool_decide (e = e') then 1 else 0)%nat).
    { unfold tokens. rewrite nq_app, nq_cons. cbn. destruct (bool_decide (e = e')); lia. }
    rewrite ent_upd_h. destruct (I1 e') as [Hle Hiff]. destruct (bool_decide (e = e')); (split; [lia|]); rewrite Hiff; lia.
  - intros s e0 hid0. rewrite Hpk, Hhs. intros Hs. pose proof (I2 _ _ _ Hs) as G.
    rewrite upd_h_lookup_ne; [exact G|]. intros ->. rewrite Hh in G. discriminate.
  - intros s1 s2 e1 e2 hid0. rewrite Hpk. apply I3.
  - intros e0 cap0 hid0 Hin. rewrite Hpk, Hhs. apply elem_of_app in Hin. destruct Hin as [Hin|Hin].
    + destruct (I4 _ _ _ Hin) as [G1 G2]. split; [|exact G2].
      rewrite upd_h_lookup_ne; [exact G1|]. intros ->. rewrite Hh in G1. discriminate.
    + apply elem_of_list_singleton in Hin. discriminate.
  - rewrite omap_app. cbn. rewrite app_nil_r. exact I5.
  - intros q1 v q2 Hq. apply snoc_split in Hq. destruct Hq as [(q2' & -> & Hq)|(_ & _ & Hq)]; [|discriminate].
    destruct (I6 _ _ _ Hq) as [(h & b' & G)|G]; [|right; apply elem_of_app; left; exact G].
    destruct (decide (h = hid)) as [->|Hne].
    + right. rewrite Hh in G. inversion G; subst. apply elem_of_app. right. apply elem_of_list_singleton. reflexivity.
    + left. exists h, b'. rewrite Hhs, upd_h_lookup_ne by exact Hne. exact G.
  - intros q1 n q2 Hq. apply snoc_split in Hq. destruct Hq as [(q2' & -> & Hq)|(_ & _ & Hq)]; [|discriminate].
    destruct (I7 _ _ _ Hq) as [(h & b' & G)|G]; [|right; apply elem_of_app; left; exact G].
    destruct (decide (h = hid)) as [->|Hne].
    + right. rewrite Hh in G. inversion G; subst. apply elem_of_app. right. apply elem_of_list_singleton. reflexivity.
    + left. exists h, b'. rewrite Hhs, upd_h_lookup_ne by exact Hne. exact G.
Qed.

Lemma AI_enq_send x q v hid b :
  AI x q -> k_handles x !! hid = Some {| h_end := ESender; h_kind := HClaimed b |} -> AI x (q ++ [QSend v]).
Proof.
  intros I Hh. destruct I as [I1 I2 I3 I4 I5 I6 I7]. constructor; try assumption.
  - intros e. assert (Heq : tokens x (q ++ [QSend v]) e = tokens x q e).
    { unfold tokens. rewrite nq_app, nq_cons. cbn. lia. }
    rewrite Heq. apply I1.
  - intros e cap hid0 Hin. apply elem_of_app in Hin. destruct Hin as [Hin|Hin]; [eapply I4; exact Hin|].
    apply elem_of_list_singleton in Hin. discriminate.
  - rewrite omap_app. cbn. rewrite app_nil_r. exact I5.
  - intros q1 v0 q2 Hq. apply snoc_split in Hq. destruct Hq as [(q2' & -> & Hq)|(-> & _ & _)].
    + destruct (I6 _ _ _ Hq) as [G|G]; [left; exact G|right]. apply elem_of_app. left. exact G.
    + left. exists hid, b. exact Hh.
  - intros q1 n q2 Hq. apply snoc_split in Hq. destruct Hq as [(q2' & -> & Hq)|(_ & _ & Hq)]; [|discriminate].
    destruct (I7 _ _ _ Hq) as [G|G]; [left; exact G|right]. apply elem_of_app. left. exact G.
Qed.

Lemma AI_enq_addcap x q n hid b :
  AI x q -> k_handles x !! hid = Some {| h_end := EReceiver; h_kind := HClaimed b |} -> AI x (q ++ [QAddCap n]).
Proof.
  intros I Hh. destruct I as [I1 I2 I3 I4 I5 I6 I7]. constructor; try assumption.
  - intros e. assert (Heq : tokens x (q ++ [QAddCap n]) e = tokens x q e).
    { unfold tokens. rewrite nq_app, nq_cons. cbn. lia. }
    rewrite Heq. apply I1.
  - intros e cap hid0 Hin. apply elem_of_app in Hin. destruct Hin as [Hin|Hin]; [eapply I4; exact Hin|].
    apply elem_of_list_singleton in Hin. discriminate.
  - rewrite omap_app. cbn. rewrite app_nil_r. exact I5.
  - intros q1 v0 q2 Hq. apply snoc_split in Hq. destruct Hq as [(q2' & -> & Hq)|(_ & _ & Hq)]; [|discriminate].
    destruct (I6 _ _ _ Hq) as [G|G]; [left; exact G|right]. apply elem_of_app. left. exact G.
  - intros q1 n0 q2 Hq. apply snoc_split in Hq. destruct Hq as [(q2' & -> & Hq)|(-> & _ & _)].
    + destruct (I7 _ _ _ Hq) as [G|G]; [left; exact G|right]. apply elem_of_app. left. exact G.
    + left. exists hid, b. exact Hh.
Qed.

Definition hfresh (x : cl) : Prop := forall hid, is_Some (k_handles (c_core x) !! hid) -> hid < c_nexth x.

Lemma enq_fields x r :
  c_core (enq x r) = c_core x /\ c_q (enq x r) = c_q x ++ [r] /\ c_next (enq x r) = c_next x /\
  c_up (enq x r) = c_up x /\ c_down (enq x r) = c_down x /\ c_nexth (enq x r) = c_nexth x.
Proof. destruct x; repeat split. Qed.
Lemma set_handle_fields x hid o :
  c_q (set_handle x hid o) = c_q x /\ c_next (set_handle x hid o) = c_next x /\
  c_up (set_handle x hid o) = c_up x /\ c_down (set_handle x hid o) = c_down x /\ c_nexth (set_handle x hid o) = c_nexth x.
Proof. destruct x as [c ? ? ? ? ?], c, o; repeat split. Qed.

Lemma hfresh_upd x x2 hid o :
  hfresh x -> c_core x2 = c_core x <| k_handles ::= upd_h hid o |> -> c_nexth x <= c_nexth x2 ->
  (is_Some o -> hid < c_nexth x2) -> hfresh x2.
Proof.
  intros Hf Hc Hn Ho hid' Hs. rewrite Hc in Hs.
  assert (Hk : k_handles (c_core x <| k_handles ::= upd_h hid o |>) = upd_h hid o (k_handles (c_core x))) by (destruct (c_core x); reflexivity).
  rewrite Hk in Hs. destruct (decide (hid' = hid)) as [->|Hne].
  - rewrite upd_h_lookup in Hs. apply Ho. exact Hs.
  - rewrite upd_h_lookup_ne in Hs by exact Hne. apply Hf in Hs. lia.
Qed.

(* what an application step does to a client: one handle changes (never one whose claim is
   running), requests are appended; the number of tokens of each end stays the same *)
Lemma app_effect x o x2 :
  app_step fl x o = Some x2 -> hfresh x -> AI (c_core x) (c_q x) ->
  exists hid onew reqs,
    ~ claiming (k_handles (c_core x) !! hid) /\
    c_core x2 = c_core x <| k_handles ::= upd_h hid onew |> /\
    c_q x2 = c_q x ++ reqs /\ c_next x2 = c_next x /\ c_up x2 = c_up x /\ c_down x2 = c_down x /\
    (forall e, (tokb e onew + nq e reqs = tokb e (k_handles (c_core x) !! hid))%nat) /\
    hfresh x2 /\ AI (c_core x2) (c_q x2).
Proof.
  intros H Hf I. destruct o; cbn in H.
  - (* ABind *)
    inversion H; subst x2; clear H.
    assert (Hnone : k_handles (c_core x) !! c_nexth x = None).
    { destruct (k_handles (c_core x) !! c_nexth x) eqn:E; [|reflexivity].
      assert (c_nexth x < c_nexth x) by (apply Hf; eauto). lia. }
    exists (c_nexth x), (Some {| h_end := e; h_kind := HUnclaimed |}), [].
    assert (Hcore : c_core (set_handle x (c_nexth x) (Some {| h_end := e; h_kind := HUnclaimed |}) <| c_nexth ::= N.succ |>)
                    = c_core x <| k_handles ::= upd_h (c_nexth x) (Some {| h_end := e; h_kind := HUnclaimed |}) |>).
    { destruct x as [c ? ? ? ? ?], c. reflexivity. }
    rewrite Hnone. split; [intros [e0 He0]; discriminate|]. split; [exact Hcore|].
    split; [destruct x as [c ? ? ? ? ?], c; cbn; rewrite app_nil_r; reflexivity|].
    split; [destruct x as [c ? ? ? ? ?], c; reflexivity|]. split; [destruct x as [c ? ? ? ? ?], c; reflexivity|].
    split; [destruct x as [c ? ? ? ? ?], c; reflexivity|].
    split; [intros e0; cbn; unfold tok_handle; cbn; rewrite andb_false_r; reflexivity|].
    split.
    + eapply hfresh_upd; [exact Hf|exact Hcore| |]; destruct x as [c ? ? ? ? ?], c; cbn; intros; lia.
    + rewrite Hcore. replace (c_q (set_handle x (c_nexth x) (Some {| h_end := e; h_kind := HUnclaimed |}) <| c_nexth ::= N.succ |>)) with (c_q x)
        by (destruct x as [c ? ? ? ? ?], c; reflexivity).
      apply AI_upd_handle; [exact I|rewrite Hnone; intros [e0 He0]; discriminate|intros [e0 He0]; discriminate| |].
      * intros e0. rewrite Hnone. cbn. unfold tok_handle. cbn. rewrite andb_false_r. reflexivity.
      * intros e0 [b Hb]. rewrite Hnone in Hb. discriminate.
  - (* AClaim *)
    destruct (k_handles (c_core x) !! hid) as [[e [| | |]]|] eqn:E; try discriminate.
    inversion H; subst x2; clear H.
    exists hid, (Some {| h_end := e; h_kind := HClaiming |}), [QClaim e cap hid].
    destruct (enq_fields (set_handle x hid (Some {| h_end := e; h_kind := HClaiming |})) (QClaim e cap hid)) as (F1 & F2 & F3 & F4 & F5 & F6).
    destruct (set_handle_fields x hid (Some {| h_end := e; h_kind := HClaiming |})) as (G2 & G3 & G4 & G5 & G6).
    rewrite F1, F2, F3, F4, F5, set_handle_core, G2, G3, G4, G5. rewrite E.
    split; [intros [e0 He0]; discriminate|]. repeat (split; [reflexivity|]).
    split; [intros e0; cbn; unfold tok_handle; cbn; rewrite !andb_false_r; reflexivity|].
    split.
    + eapply hfresh_upd; [exact Hf|rewrite F1; apply set_handle_core|rewrite F6, G6; lia|].
      intros _. rewrite F6, G6. apply Hf. rewrite E. eauto.
    + apply AI_claim; assumption.
  - (* AFinish *)
    destruct (k_handles (c_core x) !! hid) as [[e [| |[]|]]|] eqn:E; try discriminate.
    + inversion H; subst x2; clear H.
      exists hid, (Some {| h_end := e; h_kind := HClaimed true |}), [].
      destruct (set_handle_fields x hid (Some {| h_end := e; h_kind := HClaimed true |})) as (G2 & G3 & G4 & G5 & G6).
      rewrite set_handle_core, G2, G3, G4, G5, E, app_nil_r.
      split; [intros [e0 He0]; discriminate|]. repeat (split; [reflexivity|]).
      split; [intros e0; cbn; unfold tok_handle; cbn; lia|].
      split.
      * eapply hfresh_upd; [exact Hf|apply set_handle_core|rewrite G6; lia|]. intros _. rewrite G6. apply Hf. rewrite E. eauto.
      * apply AI_upd_handle; [exact I|rewrite E; intros [e0 He0]; discriminate|intros [e0 He0]; discriminate| |].
        -- intros e0. rewrite E. cbn. unfold tok_handle. cbn. reflexivity.
        -- intros e0 [b Hb]. rewrite E in Hb. discriminate.
    + rewrite Hfix in H. inversion H; subst x2; clear H.
      exists hid, None, [].
      destruct (set_handle_fields x hid None) as (G2 & G3 & G4 & G5 & G6).
      rewrite set_handle_core, G2, G3, G4, G5, E, app_nil_r.
      split; [intros [e0 He0]; discriminate|]. repeat (split; [reflexivity|]).
      split; [intros e0; cbn; unfold tok_handle; cbn; rewrite andb_false_r; reflexivity|].
      split.
      * eapply hfresh_upd; [exact Hf|apply set_handle_core|rewrite G6; lia|]. intros [? ?]; discriminate.
      * apply AI_upd_handle; [exact I|rewrite E; intros [e0 He0]; discriminate|intros [e0 He0]; discriminate| |].
        -- intros e0. rewrite E. cbn. unfold tok_handle. cbn. rewrite andb_false_r. reflexivity.
        -- intros e0 [b Hb]. rewrite E in Hb. discriminate.
  - (* ADrop *)
    destruct (k_handles (c_core x) !! hid) as [[e kd]|] eqn:E; [|discriminate]. cbn in H. rewrite Hnc in H. cbn in H.
    rewrite andb_true_r in H.
    destruct kd as [| |ok|b]; cbn in H; try discriminate; inversion H; subst x2; clear H.
    + (* an unclaimed end *)
      exists hid, None, [QClose e false].
      destruct (enq_fields (set_handle x hid None) (QClose e false)) as (F1 & F2 & F3 & F4 & F5 & F6).
      destruct (set_handle_fields x hid None) as (G2 & G3 & G4 & G5 & G6).
      rewrite F1, F2, F3, F4, F5, set_handle_core, G2, G3, G4, G5, E.
      split; [intros [e0 He0]; discriminate|]. repeat (split; [reflexivity|]).
      split; [intros e0; cbn; unfold tok_handle; cbn; rewrite andb_false_r; reflexivity|].
      split.
      * eapply hfresh_upd; [exact Hf|rewrite F1; apply set_handle_core|rewrite F6, G6; lia|]. intros [? ?]; discriminate.
      * apply AI_enq_plain; [|reflexivity|reflexivity|discriminate|discriminate].
        apply AI_upd_handle; [exact I|rewrite E; intros [e0 He0]; discriminate|intros [e0 He0]; discriminate| |].
        -- intros e0. rewrite E. cbn. unfold tok_handle. cbn. rewrite andb_false_r. reflexivity.
        -- intros e0 [b Hb]. rewrite E in Hb. discriminate.
    + (* a claimed end: the token moves into the queue *)
      exists hid, None, [QClose e true].
      destruct (enq_fields (set_handle x hid None) (QClose e true)) as (F1 & F2 & F3 & F4 & F5 & F6).
      destruct (set_handle_fields x hid None) as (G2 & G3 & G4 & G5 & G6).
      rewrite F1, F2, F3, F4, F5, set_handle_core, G2, G3, G4, G5, E.
      split; [intros [e0 He0]; discriminate|]. repeat (split; [reflexivity|]).
      split; [intros e0; cbn; unfold tok_handle, nq; cbn; rewrite andb_true_r; destruct (bool_decide (e = e0)); reflexivity|].
      split.
      * eapply hfresh_upd; [exact Hf|rewrite F1; apply set_handle_core|rewrite F6, G6; lia|]. intros [? ?]; discriminate.
      * eapply AI_drop_claimed; eassumption.
  - (* AUnbind *)
    destruct (k_handles (c_core x) !! hid) as [[e [| | |]]|] eqn:E; try discriminate.
    inversion H; subst x2; clear H.
    exists hid, None, [].
    destruct (set_handle_fields x hid None) as (G2 & G3 & G4 & G5 & G6).
    rewrite set_handle_core, G2, G3, G4, G5, E, app_nil_r.
    split; [intros [e0 He0]; discriminate|]. repeat (split; [reflexivity|]).
    split; [intros e0; cbn; unfold tok_handle; cbn; rewrite andb_false_r; reflexivity|].
    split.
    + eapply hfresh_upd; [exact Hf|apply set_handle_core|rewrite G6; lia|]. intros [? ?]; discriminate.
    + apply AI_upd_handle; [exact I|rewrite E; intros [e0 He0]; discriminate|intros [e0 He0]; discriminate| |].
      * intros e0. rewrite E. cbn. unfold tok_handle. cbn. rewrite andb_false_r. reflexivity.
      * intros e0 [b Hb]. rewrite E in Hb. discriminate.
  - (* AEstablish *)
    destruct (k_handles (c_core x) !! hid) as [[e [| | |[]]]|] eqn:E; try discriminate.
    destruct (ent (c_core x) e) as [[]|]; try discriminate; inversion H; subst x2; clear H;
      (exists hid, (Some {| h_end := e; h_kind := HClaimed true |}), [];
       destruct (set_handle_fields x hid (Some {| h_end := e; h_kind := HClaimed true |})) as (G2 & G3 & G4 & G5 & G6);
       rewrite set_handle_core, G2, G3, G4, G5, E, app_nil_r;
       split; [intros [e0 He0]; discriminate|]; repeat (split; [reflexivity|]);
       split; [intros e0; cbn; unfold tok_handle; cbn; lia|];
       split;
       [ eapply hfresh_upd; [exact Hf|apply set_handle_core|rewrite G6; lia|]; intros _; rewrite G6; apply Hf; rewrite E; eauto
       | apply AI_upd_handle; [exact I|rewrite E; intros [e0 He0]; discriminate|intros [e0 He0]; discriminate| |];
         [ intros e0; rewrite E; cbn; unfold tok_handle; cbn; reflexivity
         | intros e0 [b Hb]; rewrite E in Hb; inversion Hb; subst; exists true; reflexivity ] ]).
  - (* ASend *)
    destruct (k_handles (c_core x) !! hid) as [[[] [| | |[]]]|] eqn:E; try discriminate.
    inversion H; subst x2; clear H.
    exists hid, (Some {| h_end := ESender; h_kind := HClaimed true |}), [QSend v].
    destruct (enq_fields x (QSend v)) as (F1 & F2 & F3 & F4 & F5 & F6).
    rewrite F1, F2, F3, F4, F5, E.
    split; [intros [e0 He0]; discriminate|].
    split; [destruct (c_core x) as [es er pc pk hs]; cbn in *; unfold set; cbn; rewrite insert_id by exact E; reflexivity|].
    repeat (split; [reflexivity|]).
    split; [intros e0; cbn; unfold nq; cbn; lia|].
    split; [intros h Hh; rewrite F1 in Hh; rewrite F6; apply Hf; exact Hh|].
    eapply AI_enq_send; eassumption.
  - (* AAddCap *)
    destruct (k_handles (c_core x) !! hid) as [[[] [| | |[]]]|] eqn:E; try discriminate.
    inversion H; subst x2; clear H.
    exists hid, (Some {| h_end := EReceiver; h_kind := HClaimed true |}), [QAddCap n].
    destruct (enq_fields x (QAddCap n)) as (F1 & F2 & F3 & F4 & F5 & F6).
    rewrite F1, F2, F3, F4, F5, E.
    split; [intros [e0 He0]; discriminate|].
    split; [destruct (c_core x) as [es er pc pk hs]; cbn in *; unfold set; cbn; rewrite insert_id by exact E; reflexivity|].
    repeat (split; [reflexivity|]).
    split; [intros e0; cbn; unfold nq; cbn; lia|].
    split; [intros h Hh; rewrite F1 in Hh; rewrite F6; apply Hf; exact Hh|].
    eapply AI_enq_addcap; eassumption.
Qed.

(* ---------------------------------------------------------------- draining commutes with what the client side does *)
Lemma deliver_upd_h x hid0 ok hid o :
  hid0 <> hid ->
  deliver (x <| k_handles ::= upd_h hid o |>) hid0 ok = deliver x hid0 ok <| k_handles ::= upd_h hid o |>.
Proof.
  intros Hne. destruct x as [es er pc pk hs]. unfold deliver. cbn.
  rewrite upd_h_lookup_ne by exact Hne.
  destruct (hs !! hid0) as [[e0 [| | |]]|]; try reflexivity.
  unfold set; cbn. f_equal. destruct o; cbn.
  - apply insert_commute. congruence.
  - symmetry. apply delete_insert_ne. congruence.
Qed.

Lemma crecv_upd_h x m x' hid o :
  crecv fl x m = ROk x' -> (forall s e, k_pclaim x !! s <> Some (e, hid)) ->
  crecv fl (x <| k_handles ::= upd_h hid o |>) m = ROk (x' <| k_handles ::= upd_h hid o |>) /\
  (forall s e, k_pclaim x' !! s <> Some (e, hid)).
Proof.
  intros H Hno. destruct m; cbn in H; try discriminate.
  - (* CloseChannelEndReply *)
    destruct x as [es er pc pk hs]. cbn in *.
    destruct (pc !! serial) as [[e claimed]|] eqn:E; cbn in H |- *; [|discriminate].
    destruct claimed; cbn in H |- *.
    + destruct e; cbn in H |- *.
      * destruct es; cbn in H |- *; [inversion H; subst; split; [reflexivity|exact Hno]|].
        destruct (fl_close_asserts fl); [discriminate|]. inversion H; subst. split; [reflexivity|exact Hno].
      * destruct er; cbn in H |- *; [inversion H; subst; split; [reflexivity|exact Hno]|].
        destruct (fl_close_asserts fl); [discriminate|]. inversion H; subst. split; [reflexivity|exact Hno].
    + inversion H; subst. split; [reflexivity|exact Hno].
  - (* ChannelEndClosed *)
    destruct x as [es er pc pk hs]. destruct e; cbn in *.
    + destruct er as [[]|]; try discriminate; inversion H; subst; (split; [reflexivity|exact Hno]).
    + destruct es as [[]|]; try discriminate; inversion H; subst; (split; [reflexivity|exact Hno]).
  - (* ClaimChannelEndReply *)
    destruct (k_pclaim x !! serial) as [[e hid0]|] eqn:E; cbn in H; [|discriminate].
    assert (Hne : hid0 <> hid) by (intros ->; eapply Hno; exact E).
    assert (Hpk : k_pclaim (x <| k_handles ::= upd_h hid o |>) = k_pclaim x) by (destruct x; reflexivity).
    cbn. rewrite E. cbn.
    assert (Hno' : forall x1 ok, k_pclaim x1 = delete serial (k_pclaim x) -> forall s e0, k_pclaim (deliver x1 hid0 ok) !! s <> Some (e0, hid)).
    { intros x1 ok Hx1 s e0. assert (k_pclaim (deliver x1 hid0 ok) = k_pclaim x1) as ->.
      { unfold deliver. destruct (k_handles x1 !! hid0) as [[? [| | |]]|]; try reflexivity; destruct x1; reflexivity. }
      rewrite Hx1. intros Hs. apply lookup_delete_Some in Hs. eapply Hno. apply Hs. }
    destruct e, r; cbn in H |- *; try discriminate.
    + destruct (k_es x) eqn:Ee; [discriminate|]. inversion H; subst x'. split.
      * rewrite <- deliver_upd_h by exact Hne. destruct x; reflexivity.
      * apply Hno'. destruct x; reflexivity.
    + inversion H; subst x'. split.
      * rewrite <- deliver_upd_h by exact Hne. destruct x; reflexivity.
      * apply Hno'. destruct x; reflexivity.
    + inversion H; subst x'. split.
      * rewrite <- deliver_upd_h by exact Hne. destruct x; reflexivity.
      * apply Hno'. destruct x; reflexivity.
    + destruct (k_er x) eqn:Ee; [discriminate|]. inversion H; subst x'. split.
      * rewrite <- deliver_upd_h by exact Hne. destruct x; reflexivity.
      * apply Hno'. destruct x; reflexivity.
    + inversion H; subst x'. split.
      * rewrite <- deliver_upd_h by exact Hne. destruct x; reflexivity.
      * apply Hno'. destruct x; reflexivity.
    + inversion H; subst x'. split.
      * rewrite <- deliver_upd_h by exact Hne. destruct x; reflexivity.
      * apply Hno'. destruct x; reflexivity.
  - (* ChannelEndClaimed *)
    destruct x as [es er pc pk hs]. destruct e; cbn in *.
    + destruct er as [[]|]; try discriminate; inversion H; subst; (split; [reflexivity|exact Hno]).
    + destruct es as [[]|]; try discriminate; inversion H; subst; (split; [reflexivity|exact Hno]).
  - destruct x as [es er pc pk hs]. cbn in *. destruct es as [[]|]; try discriminate; inversion H; subst; (split; [reflexivity|exact Hno]).
  - destruct x as [es er pc pk hs]. cbn in *. destruct er as [[]|]; try discriminate; inversion H; subst; (split; [reflexivity|exact Hno]).
Qed.

Lemma cdrain_upd_h d : forall x x' hid o,
  cdrain x d = ROk x' -> (forall s e, k_pclaim x !! s <> Some (e, hid)) ->
  cdrain (x <| k_handles ::= upd_h hid o |>) d = ROk (x' <| k_handles ::= upd_h hid o |>).
Proof.
  induction d as [|m d IH]; intros x x' hid o H Hno; cbn [cdrain] in *.
  - inversion H; subst. reflexivity.
  - destruct (crecv fl x m) as [x1| |] eqn:E; try discriminate.
    destruct (crecv_upd_h _ _ _ hid o E Hno) as [E' Hno']. rewrite E'. apply IH; assumption.
Qed.

Lemma deliver_pclose x hid ok f : deliver (x <| k_pclose ::= f |>) hid ok = deliver x hid ok <| k_pclose ::= f |>.
Proof. destruct x as [es er pc pk hs]. unfold deliver. cbn. destruct (hs !! hid) as [[? [| | |]]|]; reflexivity. Qed.
Lemma deliver_pclaim x hid ok f : deliver (x <| k_pclaim ::= f |>) hid ok = deliver x hid ok <| k_pclaim ::= f |>.
Proof. destruct x as [es er pc pk hs]. unfold deliver. cbn. destruct (hs !! hid) as [[? [| | |]]|]; reflexivity. Qed.
Lemma deliver_fields x hid ok :
  k_pclose (deliver x hid ok) = k_pclose x /\ k_pclaim (deliver x hid ok) = k_pclaim x /\
  k_es (deliver x hid ok) = k_es x /\ k_er (deliver x hid ok) = k_er x.
Proof. destruct x as [es er pc pk hs]. unfold deliver. cbn. destruct (hs !! hid) as [[? [| | |]]|]; repeat split. Qed.

Lemma crecv_ins_pclose x m x' s p :
  crecv fl x m = ROk x' -> k_pclose x !! s = None ->
  crecv fl (x <| k_pclose ::= <[s := p]> |>) m = ROk (x' <| k_pclose ::= <[s := p]> |>) /\ k_pclose x' !! s = None.
Proof.
  intros H Hs. destruct m; cbn in H; try discriminate.
  - destruct x as [es er pc pk hs]. cbn in *.
    destruct (pc !! serial) as [[e claimed]|] eqn:E; cbn in H; [|discriminate].
    assert (serial <> s) by (intros ->; congruence).
    rewrite lookup_insert_ne by congruence. rewrite E. cbn.
    destruct claimed; cbn in H |- *.
    + destruct e; cbn in H |- *.
      * destruct es; cbn in H |- *; [|destruct (fl_close_asserts fl); [discriminate|]]; inversion H; subst; cbn;
          (split; [unfold set; cbn; rewrite delete_insert_ne by congruence; reflexivity|rewrite lookup_delete_ne by congruence; exact Hs]).
      * destruct er; cbn in H |- *; [|destruct (fl_close_asserts fl); [discriminate|]]; inversion H; subst; cbn;
          (split; [unfold set; cbn; rewrite delete_insert_ne by congruence; reflexivity|rewrite lookup_delete_ne by congruence; exact Hs]).
    + inversion H; subst; cbn.
      split; [unfold set; cbn; rewrite delete_insert_ne by congruence; reflexivity|rewrite lookup_delete_ne by congruence; exact Hs].
  - destruct x as [es er pc pk hs]. destruct e; cbn in *.
    + destruct er as [[]|]; try discriminate; inversion H; subst; (split; [reflexivity|exact Hs]).
    + destruct es as [[]|]; try discriminate; inversion H; subst; (split; [reflexivity|exact Hs]).
  - destruct (k_pclaim x !! serial) as [[e hid0]|] eqn:E; cbn in H; [|discriminate].
    cbn. rewrite E. cbn.
    destruct e, r; cbn in H |- *; try discriminate.
    + destruct (k_es x) eqn:Ee; [discriminate|]. inversion H; subst x'. split.
      * rewrite <- deliver_pclose. destruct x; reflexivity.
      * destruct (deliver_fields (x <| k_pclaim ::= delete serial |> <| k_es := Some EEstablished |>) hid0 true) as (F & _). rewrite F. destruct x; exact Hs.
    + inversion H; subst x'. split; [rewrite <- deliver_pclose; destruct x; reflexivity|].
      destruct (deliver_fields (x <| k_pclaim ::= delete serial |>) hid0 false) as (F & _). rewrite F. destruct x; exact Hs.
    + inversion H; subst x'. split; [rewrite <- deliver_pclose; destruct x; reflexivity|].
      destruct (deliver_fields (x <| k_pclaim ::= delete serial |>) hid0 false) as (F & _). rewrite F. destruct x; exact Hs.
    + destruct (k_er x) eqn:Ee; [discriminate|]. inversion H; subst x'. split.
      * rewrite <- deliver_pclose. destruct x; reflexivity.
      * destruct (deliver_fields (x <| k_pclaim ::= delete serial |> <| k_er := Some EEstablished |>) hid0 true) as (F & _). rewrite F. destruct x; exact Hs.
    + inversion H; subst x'. split; [rewrite <- deliver_pclose; destruct x; reflexivity|].
      destruct (deliver_fields (x <| k_pclaim ::= delete serial |>) hid0 false) as (F & _). rewrite F. destruct x; exact Hs.
    + inversion H; subst x'. split; [rewrite <- deliver_pclose; destruct x; reflexivity|].
      destruct (deliver_fields (x <| k_pclaim ::= delete serial |>) hid0 false) as (F & _). rewrite F. destruct x; exact Hs.
  - destruct x as [es er pc pk hs]. destruct e; cbn in *.
    + destruct er as [[]|]; try discriminate; inversion H; subst; (split; [reflexivity|exact Hs]).
    + destruct es as [[]|]; try discriminate; inversion H; subst; (split; [reflexivity|exact Hs]).
  - destruct x as [es er pc pk hs]. cbn in *. destruct es as [[]|]; try discriminate; inversion H; subst; (split; [reflexivity|exact Hs]).
  - destruct x as [es er pc pk hs]. cbn in *. destruct er as [[]|]; try discriminate; inversion H; subst; (split; [reflexivity|exact Hs]).
Qed.

Lemma cdrain_ins_pclose d : forall x x' s p,
  cdrain x d = ROk x' -> k_pclose x !! s = None ->
  cdrain (x <| k_pclose ::= <[s := p]> |>) d = ROk (x' <| k_pclose ::= <[s := p]> |>) /\ k_pclose x' !! s = None.
Proof.
  induction d as [|m d IH]; intros x x' s p H Hs; cbn [cdrain] in *.
  - inversion H; subst. split; [reflexivity|exact Hs].
  - destruct (crecv fl x m) as [x1| |] eqn:E; try discriminate.
    destruct (crecv_ins_pclose _ _ _ s p E Hs) as [E' Hs']. rewrite E'. apply IH; assumption.
Qed.

Lemma crecv_ins_pclaim x m x' s p :
  crecv fl x m = ROk x' -> k_pclaim x !! s = None ->
  crecv fl (x <| k_pclaim ::= <[s := p]> |>) m = ROk (x' <| k_pclaim ::= <[s := p]> |>) /\ k_pclaim x' !! s = None.
Proof.
  intros H Hs. destruct m; cbn in H; try discriminate.
  - destruct x as [es er pc pk hs]. cbn in *.
    destruct (pc !! serial) as [[e claimed]|] eqn:E; cbn in H |- *; [|discriminate].
    destruct claimed; cbn in H |- *.
    + destruct e; cbn in H |- *.
      * destruct es; cbn in H |- *; [|destruct (fl_close_asserts fl); [discriminate|]]; inversion H; subst; (split; [reflexivity|exact Hs]).
      * destruct er; cbn in H |- *; [|destruct (fl_close_asserts fl); [discriminate|]]; inversion H; subst; (split; [reflexivity|exact Hs]).
    + inversion H; subst; (split; [reflexivity|exact Hs]).
  - destruct x as [es er pc pk hs]. destruct e; cbn in *.
    + destruct er as [[]|]; try discriminate; inversion H; subst; (split; [reflexivity|exact Hs]).
    + destruct es as [[]|]; try discriminate; inversion H; subst; (split; [reflexivity|exact Hs]).
  - destruct (k_pclaim x !! serial) as [[e hid0]|] eqn:E; cbn in H; [|discriminate].
    assert (serial <> s) by (intros ->; congruence).
    assert (Hl : k_pclaim (x <| k_pclaim ::= <[s := p]> |>) !! serial = Some (e, hid0)).
    { destruct x as [es er pc pk hs]. cbn in *. rewrite lookup_insert_ne by congruence. exact E. }
    cbn. cbn in Hl. rewrite Hl. cbn.
    assert (Hdel : forall x1 ok, k_pclaim x1 = delete serial (k_pclaim x) -> k_pclaim (deliver x1 hid0 ok) !! s = None).
    { intros x1 ok Hx1. destruct (deliver_fields x1 hid0 ok) as (_ & F & _). rewrite F, Hx1.
      rewrite lookup_delete_ne by congruence. exact Hs. }
    assert (Hcomm : forall (y : ccore), (y <| k_pclaim ::= <[s := p]> |> <| k_pclaim ::= delete serial |>)
                                        = (y <| k_pclaim ::= delete serial |> <| k_pclaim ::= <[s := p]> |>)).
    { intros [es er pc pk hs]. unfold set; cbn. f_equal. apply delete_insert_ne. congruence. }
    destruct e, r; cbn in H |- *; try discriminate.
    + destruct (k_es x) eqn:Ee; [discriminate|].
      inversion H; subst x'. split; [|apply Hdel; destruct x; reflexivity].
      rewrite <- deliver_pclaim. f_equal. f_equal. destruct x; unfold set; cbn. f_equal. apply delete_insert_ne. congruence.
    + inversion H; subst x'. split; [|apply Hdel; destruct x; reflexivity].
      rewrite <- deliver_pclaim. f_equal. f_equal. apply Hcomm.
    + inversion H; subst x'. split; [|apply Hdel; destruct x; reflexivity].
      rewrite <- deliver_pclaim. f_equal. f_equal. apply Hcomm.
    + destruct (k_er x) eqn:Ee; [discriminate|].
      inversion H; subst x'. split; [|apply Hdel; destruct x; reflexivity].
      rewrite <- deliver_pclaim. f_equal. f_equal. destruct x; unfold set; cbn. f_equal. apply delete_insert_ne. congruence.
    + inversion H; subst x'. split; [|apply Hdel; destruct x; reflexivity].
      rewrite <- deliver_pclaim. f_equal. f_equal. apply Hcomm.
    + inversion H; subst x'. split; [|apply Hdel; destruct x; reflexivity].
      rewrite <- deliver_pclaim. f_equal. f_equal. apply Hcomm.
  - destruct x as [es er pc pk hs]. destruct e; cbn in *.
    + destruct er as [[]|]; try discriminate; inversion H; subst; (split; [reflexivity|exact Hs]).
    + destruct es as [[]|]; try discriminate; inversion H; subst; (split; [reflexivity|exact Hs]).
  - destruct x as [es er pc pk hs]. cbn in *. destruct es as [[]|]; try discriminate; inversion H; subst; (split; [reflexivity|exact Hs]).
  - destruct x as [es er pc pk hs]. cbn in *. destruct er as [[]|]; try discriminate; inversion H; subst; (split; [reflexivity|exact Hs]).
Qed.

Lemma cdrain_ins_pclaim d : forall x x' s p,
  cdrain x d = ROk x' -> k_pclaim x !! s = None ->
  cdrain (x <| k_pclaim ::= <[s := p]> |>) d = ROk (x' <| k_pclaim ::= <[s := p]> |>) /\ k_pclaim x' !! s = None.
Proof.
  induction d as [|m d IH]; intros x x' s p H Hs; cbn [cdrain] in *.
  - inversion H; subst. split; [reflexivity|exact Hs].
  - destruct (crecv fl x m) as [x1| |] eqn:E; try discriminate.
    destruct (crecv_ins_pclaim _ _ _ s p E Hs) as [E' Hs']. rewrite E'. apply IH; assumption.
Qed.

(* ---------------------------------------------------------------- what consuming never does *)
Definition sub_core (x x' : ccore) : Prop :=
  (forall s, is_Some (k_pclose x' !! s) -> is_Some (k_pclose x !! s)) /\
  (forall s, is_Some (k_pclaim x' !! s) -> is_Some (k_pclaim x !! s)) /\
  (forall hid, is_Some (k_handles x' !! hid) <-> is_Some (k_handles x !! hid)) /\
  (forall hid h, k_handles x !! hid = Some h -> ~ claiming (Some h) -> k_handles x' !! hid = Some h).

Lemma sub_core_refl x : sub_core x x.
Proof. repeat split; auto. Qed.

Lemma sub_core_trans x1 x2 x3 : sub_core x1 x2 -> sub_core x2 x3 -> sub_core x1 x3.
Proof.
  intros (A1 & A2 & A3 & A4) (B1 & B2 & B3 & B4). repeat split; auto.
  - intros H. apply A3, B3. exact H.
  - intros H. apply B3, A3. exact H.
Qed.

Lemma sub_core_set_ent x e v : sub_core x (set_ent x e v).
Proof. destruct x as [es er pc pk hs], e; unfold sub_core; cbn; repeat split; auto. Qed.

Lemma deliver_sub x hid ok : sub_core x (deliver x hid ok).
Proof.
  destruct (deliver_fields x hid ok) as (F1 & F2 & _). unfold sub_core. rewrite F1, F2.
  split; [auto|]. split; [auto|]. unfold deliver.
  destruct (k_handles x !! hid) as [[e [| | |]]|] eqn:E; try (split; [tauto|auto]).
  assert (Hk : k_handles (x <| k_handles ::= <[hid:={| h_end := e; h_kind := HResult ok |}]> |>)
               = <[hid:={| h_end := e; h_kind := HResult ok |}]> (k_handles x)) by (destruct x; reflexivity).
  rewrite Hk. split.
  - intros h. destruct (decide (h = hid)) as [->|Hne].
    + rewrite lookup_insert, E. split; eauto.
    + rewrite lookup_insert_ne by congruence. tauto.
  - intros h h0 Hh Hnc'. destruct (decide (h = hid)) as [->|Hne].
    + rewrite E in Hh. inversion Hh; subst. exfalso. apply Hnc'. eexists. reflexivity.
    + rewrite lookup_insert_ne by congruence. exact Hh.
Qed.

Lemma crecv_sub x m x' : crecv fl x m = ROk x' -> sub_core x x'.
Proof.
  intros H. destruct m; cbn in H; try discriminate.
  - destruct (k_pclose x !! serial) as [[e claimed]|] eqn:E; cbn in H; [|discriminate].
    assert (Hd : sub_core x (x <| k_pclose ::= delete serial |>)).
    { destruct x as [es er pc pk hs]. unfold sub_core; cbn. split; [|repeat split; auto].
      intros s [v Hv]. apply lookup_delete_Some in Hv. destruct Hv. eauto. }
    destruct claimed; cbn in H.
    + destruct (ent x e); [|destruct (fl_close_asserts fl); [discriminate|]]; inversion H; subst; [|exact Hd].
      eapply sub_core_trans; [exact Hd|apply sub_core_set_ent].
    + inversion H; subst. exact Hd.
  - destruct (ent x (other_end e)) as [[]|]; try discriminate; inversion H; subst; apply sub_core_set_ent.
  - destruct (k_pclaim x !! serial) as [[e hid0]|] eqn:E; cbn in H; [|discriminate].
    assert (Hd : sub_core x (x <| k_pclaim ::= delete serial |>)).
    { destruct x as [es er pc pk hs]. unfold sub_core; cbn. split; [auto|]. split; [|repeat split; auto].
      intros s [v Hv]. apply lookup_delete_Some in Hv. destruct Hv. eauto. }
    assert (Hd' : forall st, sub_core x (set_ent (x <| k_pclaim ::= delete serial |>) e st)).
    { intros st. eapply sub_core_trans; [exact Hd|apply sub_core_set_ent]. }
    destruct e, r; cbn in H; try discriminate.
    + destruct (k_es x); [discriminate|]. inversion H; subst. eapply sub_core_trans; [apply (Hd' (Some EEstablished))|apply deliver_sub].
    + inversion H; subst. eapply sub_core_trans; [exact Hd|apply deliver_sub].
    + inversion H; subst. eapply sub_core_trans; [exact Hd|apply deliver_sub].
    + destruct (k_er x); [discriminate|]. inversion H; subst. eapply sub_core_trans; [apply (Hd' (Some EEstablished))|apply deliver_sub].
    + inversion H; subst. eapply sub_core_trans; [exact Hd|apply deliver_sub].
    + inversion H; subst. eapply sub_core_trans; [exact Hd|apply deliver_sub].
  - destruct (ent x (other_end (end_of_cap e))) as [[]|]; try discriminate; inversion H; subst; apply sub_core_set_ent.
  - destruct (k_es x) as [[]|]; try discriminate; inversion H; subst; apply sub_core_refl.
  - destruct (k_er x) as [[]|]; try discriminate; inversion H; subst; apply sub_core_refl.
Qed.

Lemma cdrain_sub d : forall x x', cdrain x d = ROk x' -> sub_core x x'.
Proof.
  induction d as [|m d IH]; intros x x' H; cbn [cdrain] in H.
  - inversion H; subst. apply sub_core_refl.
  - destruct (crecv fl x m) as [x1| |] eqn:E; try discriminate.
    eapply sub_core_trans; [eapply crecv_sub; exact E|apply IH; exact H].
Qed.

(* a handle whose claim is not running looks the same before and after draining *)
Lemma drained_handle x z hid :
  sub_core x z -> ~ claiming (k_handles x !! hid) -> k_handles z !! hid = k_handles x !! hid.
Proof.
  intros (_ & _ & S3 & S4) Hn. destruct (k_handles x !! hid) as [h|] eqn:E.
  - apply S4; [exact E|exact Hn].
  - destruct (k_handles z !! hid) eqn:E'; [|reflexivity].
    assert (is_Some (k_handles x !! hid)) by (apply S3; eauto). rewrite E in H. destruct H. discriminate.
Qed.

End ChanEnds.
