(* Proto/Flow.v — the queueing network between the applications and the broker, for the
   no-deadlock part of C06.  Per connection i:

     application --(unbounded handle queue)--> client --> Buffered (unbounded VecDeque, client side)
        --> FIFO client->broker, bounded by [cap] >= 1 (aldrin_core::channel::bounded) or unbounded
        --> connection task --> broker queue, bounded by [bcap] >= 1 (shared by all connections)
        --> broker --> per-connection queue (unbounded) --> connection task --> Buffered
        --> FIFO broker->client, bounded by [cap] --> client.

   What blocks whom (read off the Rust):
   * the client (aldrin/src/client.rs select + send!): `Buffered::send_poll_ready` is always Ready,
     so handling a request or a message never waits; flushing moves messages from its Buffered into
     the FIFO while the FIFO has room; only `req_destroy_proxy`/`req_unsubscribe_all_events` await
     `transport.flush()`: in that state ([k_flushing]) the client does nothing but flush;
   * the connection task (broker/src/conn.rs): a message taken from the client FIFO is forwarded
     with `self.send.send(..).await` into the bounded broker queue — while that is full the task
     holds the message ([n_hold]) and does nothing else; otherwise it takes from the FIFO, from its
     unbounded queue (into its Buffered: never waits), or flushes its Buffered into the FIFO;
   * the broker (broker/src/broker.rs): takes one event from its queue and handles it completely,
     pushing outputs into the unbounded per-connection queues: it never waits for a connection.

   Messages are abstract ([nat] counts: only queue lengths matter for progress).  [C06_no_deadlock]:
   whenever some queue is non-empty or some task holds a message, some step is enabled — for every
   FIFO capacity >= 1 and every broker queue capacity >= 1, any number of connections.  Fairness of
   the select loops and waker delivery are not part of this model (the schedule harness explores
   them). *)
From Coq Require Import List Arith Lia Bool.
Import ListNotations.

Record conn := {
  k_req : nat;        (* handle requests waiting at the client *)
  k_flushing : bool;  (* the client is inside `transport.flush().await` *)
  k_cbuf : nat;       (* client's Buffered *)
  k_up : nat;         (* FIFO client -> broker *)
  n_hold : bool;      (* the connection task holds a message for the broker queue *)
  n_pq : nat;         (* broker's unbounded queue for this connection *)
  n_buf : nat;        (* connection task's Buffered *)
  k_down : nat }.     (* FIFO broker -> client *)

Record net := {
  cap : option nat;   (* FIFO size of the transports; None = unbounded *)
  bcap : nat;         (* broker queue capacity *)
  bq : nat;           (* broker queue length (events from all connections) *)
  conns : list conn }.

Definition room (cap : option nat) (n : nat) : bool :=
  match cap with None => true | Some c => n <? c end.

(* steps of connection i; [out] = how many messages the step produces where that is open-ended *)
Inductive step :=
| ClientRequest (i : nat) (out : nat) (flush : bool)  (* handle a request: out messages into Buffered; flush = the handler awaits flush() *)
| ClientRecv (i : nat) (out : nat)                    (* handle a message from the FIFO, possibly answering *)
| ClientFlush (i : nat)                               (* one message Buffered -> FIFO *)
| ClientFlushDone (i : nat)                           (* flush().await completes *)
| ConnTake (i : nat)                                  (* FIFO -> held *)
| ConnForward (i : nat)                               (* held -> broker queue *)
| ConnDeliver (i : nat)                               (* per-connection queue -> Buffered *)
| ConnFlush (i : nat)                                 (* Buffered -> FIFO *)
| Broker (outs : list nat).                           (* one event handled; outs[j] messages for connection j *)

Definition enabled_conn (n : net) (c : conn) (s : step) : bool :=
  match s with
  | ClientRequest _ _ _ => negb (k_flushing c) && (0 <? k_req c)
  | ClientRecv _ _ => negb (k_flushing c) && (0 <? k_down c)
  | ClientFlush _ => (0 <? k_cbuf c) && room (cap n) (k_up c)
  | ClientFlushDone _ => k_flushing c && (k_cbuf c =? 0)
  | ConnTake _ => negb (n_hold c) && (0 <? k_up c)
  | ConnForward _ => n_hold c && (bq n <? bcap n)
  | ConnDeliver _ => negb (n_hold c) && (0 <? n_pq c)
  | ConnFlush _ => negb (n_hold c) && (0 <? n_buf c) && room (cap n) (k_down c)
  | Broker _ => false
  end.

Definition idx (s : step) : option nat :=
  match s with
  | ClientRequest i _ _ | ClientRecv i _ | ClientFlush i | ClientFlushDone i
  | ConnTake i | ConnForward i | ConnDeliver i | ConnFlush i => Some i
  | Broker _ => None
  end.

Definition enabled (n : net) (s : step) : bool :=
  match idx s with
  | Some i => match nth_error (conns n) i with Some c => enabled_conn n c s | None => false end
  | None => 0 <? bq n
  end.

(* something is still to be done somewhere *)
Definition busy_conn (c : conn) : bool :=
  (0 <? k_req c) || k_flushing c || (0 <? k_cbuf c) || (0 <? k_up c) || n_hold c || (0 <? n_pq c)
  || (0 <? n_buf c) || (0 <? k_down c).

Definition busy (n : net) : bool := (0 <? bq n) || existsb busy_conn (conns n).

Definition wf (n : net) : Prop :=
  1 <= bcap n /\ match cap n with Some c => 1 <= c | None => True end.

(* the steps themselves (used by the Examples in Props/C06.v; progress does not depend on them) *)
Definition upd (l : list conn) (i : nat) (f : conn -> conn) : list conn :=
  map (fun p => if Nat.eqb (fst p) i then f (snd p) else snd p) (combine (seq 0 (length l)) l).

Definition apply (n : net) (s : step) : net :=
  let on i f := {| cap := cap n; bcap := bcap n; bq := bq n; conns := upd (conns n) i f |} in
  match s with
  | ClientRequest i out fl =>
      on i (fun c => {| k_req := k_req c - 1; k_flushing := fl; k_cbuf := k_cbuf c + out; k_up := k_up c;
                        n_hold := n_hold c; n_pq := n_pq c; n_buf := n_buf c; k_down := k_down c |})
  | ClientRecv i out =>
      on i (fun c => {| k_req := k_req c; k_flushing := k_flushing c; k_cbuf := k_cbuf c + out; k_up := k_up c;
                        n_hold := n_hold c; n_pq := n_pq c; n_buf := n_buf c; k_down := k_down c - 1 |})
  | ClientFlush i =>
      on i (fun c => {| k_req := k_req c; k_flushing := k_flushing c; k_cbuf := k_cbuf c - 1; k_up := k_up c + 1;
                        n_hold := n_hold c; n_pq := n_pq c; n_buf := n_buf c; k_down := k_down c |})
  | ClientFlushDone i =>
      on i (fun c => {| k_req := k_req c; k_flushing := false; k_cbuf := k_cbuf c; k_up := k_up c;
                        n_hold := n_hold c; n_pq := n_pq c; n_buf := n_buf c; k_down := k_down c |})
  | ConnTake i =>
      on i (fun c => {| k_req := k_req c; k_flushing := k_flushing c; k_cbuf := k_cbuf c; k_up := k_up c - 1;
                        n_hold := true; n_pq := n_pq c; n_buf := n_buf c; k_down := k_down c |})
  | ConnForward i =>
      {| cap := cap n; bcap := bcap n; bq := bq n + 1;
         conns := upd (conns n) i (fun c => {| k_req := k_req c; k_flushing := k_flushing c; k_cbuf := k_cbuf c;
                                               k_up := k_up c; n_hold := false; n_pq := n_pq c; n_buf := n_buf c;
                                               k_down := k_down c |}) |}
  | ConnDeliver i =>
      on i (fun c => {| k_req := k_req c; k_flushing := k_flushing c; k_cbuf := k_cbuf c; k_up := k_up c;
                        n_hold := n_hold c; n_pq := n_pq c - 1; n_buf := n_buf c + 1; k_down := k_down c |})
  | ConnFlush i =>
      on i (fun c => {| k_req := k_req c; k_flushing := k_flushing c; k_cbuf := k_cbuf c; k_up := k_up c;
                        n_hold := n_hold c; n_pq := n_pq c; n_buf := n_buf c - 1; k_down := k_down c + 1 |})
  | Broker outs =>
      {| cap := cap n; bcap := bcap n; bq := bq n - 1;
         conns := map (fun p => let c := snd p in
                                {| k_req := k_req c; k_flushing := k_flushing c; k_cbuf := k_cbuf c; k_up := k_up c;
                                   n_hold := n_hold c; n_pq := n_pq c + nth (fst p) outs 0; n_buf := n_buf c;
                                   k_down := k_down c |})
                      (combine (seq 0 (length (conns n))) (conns n)) |}
  end.

(* ---------------------------------------------------------------- progress *)
Lemma room_zero c : match c with Some x => 1 <= x | None => True end -> room c 0 = true.
Proof. destruct c as [x|]; [|reflexivity]. intros H. unfold room. apply Nat.ltb_lt. lia. Qed.

(* a busy connection in a network whose broker queue is empty can always move *)
Lemma conn_progress n c i :
  wf n -> bq n = 0 -> nth_error (conns n) i = Some c -> busy_conn c = true ->
  exists s, idx s = Some i /\ enabled n s = true.
Proof.
  intros [Hb Hc] Hq Hi Hbusy.
  assert (E : forall s, idx s = Some i -> enabled n s = enabled_conn n c s).
  { intros s Hs. unfold enabled. rewrite Hs, Hi. reflexivity. }
  assert (Hbq : (bq n <? bcap n) = true) by (apply Nat.ltb_lt; lia).
  (* the connection task first *)
  destruct (n_hold c) eqn:Hh.
  { exists (ConnForward i). split; [reflexivity|]. rewrite E by reflexivity. unfold enabled_conn. rewrite Hh, Hbq. reflexivity. }
  destruct (0 <? k_up c) eqn:Hup.
  { exists (ConnTake i). split; [reflexivity|]. rewrite E by reflexivity. unfold enabled_conn. rewrite Hh, Hup. reflexivity. }
  destruct (0 <? n_pq c) eqn:Hpq.
  { exists (ConnDeliver i). split; [reflexivity|]. rewrite E by reflexivity. unfold enabled_conn. rewrite Hh, Hpq. reflexivity. }
  apply Nat.ltb_ge in Hup. assert (Hup0 : k_up c = 0) by lia.
  (* the client: its FIFO towards the broker is empty, so flushing is possible *)
  destruct (0 <? k_cbuf c) eqn:Hcb.
  { exists (ClientFlush i). split; [reflexivity|]. rewrite E by reflexivity. unfold enabled_conn. rewrite Hcb, Hup0.
    rewrite room_zero by exact Hc. reflexivity. }
  apply Nat.ltb_ge in Hcb. assert (Hcb0 : k_cbuf c = 0) by lia.
  destruct (k_flushing c) eqn:Hf.
  { exists (ClientFlushDone i). split; [reflexivity|]. rewrite E by reflexivity. unfold enabled_conn. rewrite Hf, Hcb0. reflexivity. }
  destruct (0 <? k_req c) eqn:Hr.
  { exists (ClientRequest i 0 false). split; [reflexivity|]. rewrite E by reflexivity. unfold enabled_conn. rewrite Hf, Hr. reflexivity. }
  destruct (0 <? k_down c) eqn:Hd.
  { exists (ClientRecv i 0). split; [reflexivity|]. rewrite E by reflexivity. unfold enabled_conn. rewrite Hf, Hd. reflexivity. }
  apply Nat.ltb_ge in Hd. assert (Hd0 : k_down c = 0) by lia.
  destruct (0 <? n_buf c) eqn:Hnb.
  { exists (ConnFlush i). split; [reflexivity|]. rewrite E by reflexivity. unfold enabled_conn. rewrite Hh, Hnb, Hd0.
    rewrite room_zero by exact Hc. reflexivity. }
  (* nothing left: contradiction with busy *)
  unfold busy_conn in Hbusy. rewrite Hr, Hf, Hh, Hpq, Hnb in Hbusy.
  assert (H1 : (0 <? k_cbuf c) = false) by (apply Nat.ltb_ge; lia).
  assert (H2 : (0 <? k_up c) = false) by (apply Nat.ltb_ge; lia).
  assert (H3 : (0 <? k_down c) = false) by (apply Nat.ltb_ge; lia).
  rewrite H1, H2, H3 in Hbusy. discriminate.
Qed.

Theorem no_deadlock n : wf n -> busy n = true -> exists s, enabled n s = true.
Proof.
  intros Hwf Hbusy. unfold busy in Hbusy.
  destruct (0 <? bq n) eqn:Hq.
  { exists (Broker []). unfold enabled, idx. exact Hq. }
  rewrite orb_false_l in Hbusy. apply existsb_exists in Hbusy. destruct Hbusy as (c & Hin & Hc).
  apply In_nth_error in Hin. destruct Hin as [i Hi].
  apply Nat.ltb_ge in Hq. assert (Hq0 : bq n = 0) by lia.
  destruct (conn_progress n c i Hwf Hq0 Hi Hc) as (s & _ & Hs). exists s. exact Hs.
Qed.

(* the converse, to show [busy] is not vacuous: an idle network has no enabled step *)
Theorem idle_no_step n s : busy n = false -> enabled n s = false.
Proof.
  unfold busy. intros H. apply orb_false_iff in H. destruct H as [Hq Hc].
  unfold enabled. destruct (idx s) as [i|] eqn:Hi; [|exact Hq].
  destruct (nth_error (conns n) i) as [c|] eqn:Hn; [|reflexivity].
  assert (Hb : busy_conn c = false).
  { destruct (busy_conn c) eqn:Hb; [|reflexivity]. exfalso.
    assert (existsb busy_conn (conns n) = true) by (apply existsb_exists; exists c; split; [eapply nth_error_In; eauto|exact Hb]).
    congruence. }
  unfold busy_conn in Hb. repeat (apply orb_false_iff in Hb; destruct Hb as [Hb ?]).
  destruct s; unfold idx in Hi; try discriminate; unfold enabled_conn;
    repeat match goal with H : _ = false |- _ => rewrite H end;
    rewrite ?andb_false_r, ?andb_false_l; reflexivity.
Qed.
