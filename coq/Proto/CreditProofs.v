(* Proto/CreditProofs.v — the end-to-end credit system of Proto/Credit.v, for EVERY schedule:
   an invariant [Inv] (flags clear, receiver-local bounds, shape of the broker's entry, the two
   credit balances, shape of the four links, close bookkeeping, item order) is preserved by every
   step; from it: the broker never takes its CapacityExhausted / AddCapacityError branch, no
   debug_assert!/overflow site is reached, no client gets an unexpected message, the consumed
   sequence is a prefix of the sent sequence (equal when drained), the conservation equations,
   and progress (a drain schedule exists from every reachable state with both ends open). *)
From stdpp Require Import list.
From RecordUpdate Require Import RecordSet.
From Coq Require Import ZifyBool ZifyNat ZifyN Lia.
From Aldrin Require Import gen.BrokerConsts gen.ClientConsts Broker.Model Broker.ChannelProofs Proto.Credit.
Local Open Scope N_scope.
Arguments N.add : simpl never.
Arguments N.sub : simpl never.
Arguments N.mul : simpl never.
Arguments N.ltb : simpl never.
Arguments N.leb : simpl never.
Arguments N.eqb : simpl never.
Arguments N.le : simpl never.
Arguments N.lt : simpl never.
Arguments u32_max : simpl never.

Lemma client_low_val : CLIENT_LOW = 4.
Proof. reflexivity. Qed.

(* ---------------------------------------------------------------- list projections *)
Lemma len_nil {A} : len (@nil A) = 0.
Proof. reflexivity. Qed.
Lemma len_cons {A} (x : A) l : len (x :: l) = len l + 1.
Proof. unfold len. cbn [length]. lia. Qed.
Lemma len_app {A} (l k : list A) : len (l ++ k) = len l + len k.
Proof. unfold len. rewrite app_length. lia. Qed.

Lemma added_sum_app l n : added_sum (l ++ [n]) = added_sum l + n.
Proof. induction l as [|x l IH]; cbn [added_sum app]; lia. Qed.
Lemma added_sum_cons n l : added_sum (n :: l) = n + added_sum l.
Proof. reflexivity. Qed.
Lemma drain_added_spec l cap : cap + added_sum l <= u32_max -> drain_added l cap = Some (cap + added_sum l).
Proof.
  revert cap. induction l as [|n l IH]; intros cap H; cbn [drain_added].
  - f_equal. cbn. lia.
  - rewrite added_sum_cons in H. destruct (N.leb_spec (cap + n) u32_max); [|lia].
    rewrite IH by lia. f_equal. rewrite added_sum_cons. lia.
Qed.

Lemma sb_items_app q m : sb_items (q ++ [m]) = sb_items q ++ match m with SItem v => [v] | SClose => [] end.
Proof. induction q as [|[v|] q IH]; cbn; [destruct m; reflexivity|rewrite IH; reflexivity|exact IH]. Qed.
Lemma br_items_app q m : br_items (q ++ [m]) = br_items q ++ match m with BRItem v => [v] | _ => [] end.
Proof. induction q as [|[v| |r] q IH]; cbn; [destruct m; reflexivity|rewrite IH; reflexivity|exact IH|exact IH]. Qed.
Lemma bs_adds_app q m : bs_adds (q ++ [m]) = bs_adds q + match m with BSAdd n => n | _ => 0 end.
Proof. induction q as [|[n| |r] q IH]; cbn [bs_adds app]; [destruct m; cbn; lia|lia|exact IH|exact IH]. Qed.
Lemma rb_adds_app q m : rb_adds (q ++ [m]) = rb_adds q + match m with RAdd n => n | RClose => 0 end.
Proof. induction q as [|[n|] q IH]; cbn [rb_adds app]; [destruct m; cbn; lia|lia|exact IH]. Qed.

(* ---------------------------------------------------------------- shape of the links *)
(* upward: the close request is the last message an end ever sends *)
Fixpoint sb_wf (q : list smsg) : bool :=
  match q with [] => true | SItem _ :: q => sb_wf q | SClose :: q => match q with [] => true | _ => false end end.
Fixpoint sb_closing (q : list smsg) : bool :=
  match q with [] => false | SItem _ :: q => sb_closing q | SClose :: _ => true end.
Fixpoint rb_wf (q : list rmsg) : bool :=
  match q with [] => true | RAdd _ :: q => rb_wf q | RClose :: q => match q with [] => true | _ => false end end.
Fixpoint rb_closing (q : list rmsg) : bool :=
  match q with [] => false | RAdd _ :: q => rb_closing q | RClose :: _ => true end.

Lemma sb_wf_app q m : sb_wf q = true -> sb_closing q = false -> sb_wf (q ++ [m]) = true.
Proof. induction q as [|[v|] q IH]; cbn; intros H1 H2; [destruct m; reflexivity|auto|discriminate]. Qed.
Lemma sb_closing_app_item q v : sb_closing (q ++ [SItem v]) = sb_closing q.
Proof. induction q as [|[x|] q IH]; cbn; auto. Qed.
Lemma rb_wf_app q m : rb_wf q = true -> rb_closing q = false -> rb_wf (q ++ [m]) = true.
Proof. induction q as [|[v|] q IH]; cbn; intros H1 H2; [destruct m; reflexivity|auto|discriminate]. Qed.
Lemma rb_closing_app_add q v : rb_closing (q ++ [RAdd v]) = rb_closing q.
Proof. induction q as [|[x|] q IH]; cbn; auto. Qed.

(* downward: what the client's map entry goes through: 0 = Established, 1 = the peer's close was
   delivered, 2 = the own close was confirmed (entry removed).  [bs_final l q] = the level after
   the client has handled q starting at level l, None if some message of q would be answered with
   UnexpectedMessageReceived (or a close is refused). *)
Definition lvl (c : cend) : nat := match c with CEst => 0 | CPeer => 1 | CGone => 2 end.

Fixpoint bs_final (l : nat) (q : list bsmsg) : option nat :=
  match q with
  | [] => Some l
  | BSAdd _ :: q => match l with O => bs_final 0 q | _ => None end
  | BSPeerClosed :: q => match l with O => bs_final 1 q | _ => None end
  | BSCloseReply r :: q =>
      match l, r with
      | O, R3Ok | S O, R3Ok => bs_final 2 q
      | _, _ => None
      end
  end.
Fixpoint br_final (l : nat) (q : list brmsg) : option nat :=
  match q with
  | [] => Some l
  | BRItem _ :: q => match l with O => br_final 0 q | _ => None end
  | BRPeerClosed :: q => match l with O => br_final 1 q | _ => None end
  | BRCloseReply r :: q =>
      match l, r with
      | O, R3Ok | S O, R3Ok => br_final 2 q
      | _, _ => None
      end
  end.

Lemma bs_final_app l q m e : bs_final l q = Some e -> bs_final l (q ++ [m]) = bs_final e [m].
Proof.
  revert l. induction q as [|x q IH]; intros l H; [cbn in H; injection H as ->; reflexivity|].
  cbn [app]. destruct x as [n| |[| |]]; cbn [bs_final] in *; destruct l as [|[|l]]; try discriminate; auto.
Qed.
Lemma br_final_app l q m e : br_final l q = Some e -> br_final l (q ++ [m]) = br_final e [m].
Proof.
  revert l. induction q as [|x q IH]; intros l H; [cbn in H; injection H as ->; reflexivity|].
  cbn [app]. destruct x as [n| |[| |]]; cbn [br_final] in *; destruct l as [|[|l]]; try discriminate; auto.
Qed.
Lemma bs_final_2 q e : bs_final 2 q = Some e -> q = [] /\ e = 2%nat.
Proof. destruct q as [|[n| |[| |]] q]; cbn; intros H; try discriminate. injection H as <-. auto. Qed.
Lemma br_final_2 q e : br_final 2 q = Some e -> q = [] /\ e = 2%nat.
Proof. destruct q as [|[n| |[| |]] q]; cbn; intros H; try discriminate. injection H as <-. auto. Qed.

(* the level each client will have reached when its link is drained, read off the broker's entry *)
Definition exp_s (b : option chan) : nat :=
  match b with
  | Some {| ch_s := Claimed _ _; ch_r := Claimed _ _ |} => 0
  | Some {| ch_s := Claimed _ _; ch_r := _ |} => 1
  | _ => 2
  end.
Definition exp_r (b : option chan) : nat :=
  match b with
  | Some {| ch_s := Claimed _ _; ch_r := Claimed _ _ |} => 0
  | Some {| ch_s := _; ch_r := Claimed _ _ |} => 1
  | _ => 2
  end.

Section Owners.
Variable cS cR : conn.

(* the broker's entry: both ends claimed by their owners, or one end closed, or gone *)
Definition bshape (b : option chan) : Prop :=
  match b with
  | None => True
  | Some {| ch_s := Claimed so sc; ch_r := Claimed ro rc |} =>
      so = cS /\ ro = cR /\ sc <= rc /\ (sc <= 4 -> sc = rc) /\ rc <= u32_max
  | Some {| ch_s := Claimed so sc; ch_r := Closed |} => so = cS /\ sc <= u32_max
  | Some {| ch_s := Closed; ch_r := Claimed ro rc |} => ro = cR /\ rc <= u32_max
  | _ => False
  end.

Definition sres_ok (res : close_st) (open : bool) (cl : cend) : Prop :=
  match res with
  | KNone => open = true /\ cl <> CGone
  | KPending => open = false /\ cl <> CGone
  | KDone r => open = false /\ cl = CGone /\ r = R3Ok
  end.

Record Inv (cap : N) (w : world) : Prop := {
  i_cut : f_cut w = false;
  i_ovf : f_ovf w = false;
  i_pan : f_panic w = None;
  i_unx : f_unexp w = false;
  i_max : rv_max w = cap;
  i_cur : 1 <= rv_cur w /\ rv_cur w <= rv_max w /\ rv_max w <= u32_max /\
          (rv_cur w = rv_max w \/ 4 < rv_cur w);
  i_shape : bshape (br_ch w);
  i_sc : sd_cap w + added_sum (sd_added w) + len (sb_items (q_sb w)) + bs_adds (q_bs w)
         <= default u32_max (scap_of (br_ch w));
  i_sc_eq : sd_open w = true -> forall sc rc, scap_of (br_ch w) = Some sc -> rcap_of (br_ch w) = Some rc ->
            sd_cap w + added_sum (sd_added w) + len (sb_items (q_sb w)) + bs_adds (q_bs w) = sc;
  i_rc : forall rc, rcap_of (br_ch w) = Some rc ->
         rc + len (br_items (q_br w)) + len (rv_queue w) + rb_adds (q_rb w) <= rv_cur w;
  i_rc_eq : rv_open w = true -> forall rc, rcap_of (br_ch w) = Some rc ->
            rc + len (br_items (q_br w)) + len (rv_queue w) + rb_adds (q_rb w) = rv_cur w;
  i_sb : sb_wf (q_sb w) = true /\ (sd_open w = true -> sb_closing (q_sb w) = false) /\
         (scap_of (br_ch w) = None -> q_sb w = [] /\ sd_open w = false);
  i_rb : rb_wf (q_rb w) = true /\ (rv_open w = true -> rb_closing (q_rb w) = false) /\
         (rcap_of (br_ch w) = None -> q_rb w = [] /\ rv_open w = false);
  i_bs : bs_final (lvl (sd_cl w)) (q_bs w) = Some (exp_s (br_ch w));
  i_br : br_final (lvl (rv_cl w)) (q_br w) = Some (exp_r (br_ch w));
  i_sres : sres_ok (sd_res w) (sd_open w) (sd_cl w);
  i_rres : sres_ok (rv_res w) (rv_open w) (rv_cl w);
  i_ord : exists rest, sd_sent w = rv_got w ++ rv_queue w ++ rest /\
          (rv_open w = true -> rest = br_items (q_br w) ++ sb_items (q_sb w)) }.

Lemma inv_init cap : 1 <= cap -> cap <= u32_max -> Inv cap (winit cS cR cap).
Proof.
  intros H1 H2. constructor; cbn; try reflexivity; try lia.
  - intros _ sc rc [= <-] _. lia.
  - intros rc [= <-]. lia.
  - intros _ rc [= <-]. lia.
  - repeat split; discriminate.
  - repeat split; discriminate.
  - split; [reflexivity|discriminate].
  - split; [reflexivity|discriminate].
  - exists []. split; reflexivity.
Qed.

End Owners.

(* ---------------------------------------------------------------- every step preserves the invariant *)
Section Steps.
Variable cS cR : conn.
Notation Inv := (Inv cS cR).

Ltac dw w :=
  destruct w as [scap sadded sopen sres ssent scl rmax rcur ropen rres rqueue rgot rcl qsb qrb qbs qbr b
                 fcut fovf fpanic funexp].
Ltac di I :=
  destruct I as [Icut Iovf Ipan Iunx Imax Icur Ishape Isc Isceq Irc Irceq Isb Irb Ibs Ibr Isres Irres Iord];
  cbn in Icut, Iovf, Ipan, Iunx, Imax, Icur, Ishape, Isc, Isceq, Irc, Irceq, Isb, Irb, Ibs, Ibr, Isres, Irres, Iord.


(* lia on the arithmetic hypotheses only (the others make zify slow) *)
Ltac prune :=
  repeat match goal with
  | H : sres_ok _ _ _ |- _ => clear H
  | H : bs_final _ _ = _ |- _ => clear H
  | H : br_final _ _ = _ |- _ => clear H
  | H : ex _ |- _ => clear H
  | H : sb_wf _ = _ |- _ => clear H
  | H : rb_wf _ = _ |- _ => clear H
  | H : sb_wf _ = _ /\ _ |- _ => clear H
  | H : rb_wf _ = _ /\ _ |- _ => clear H
  | H : _ -> sb_closing _ = _ |- _ => clear H
  | H : _ -> rb_closing _ = _ |- _ => clear H
  | H : _ -> _ = [] /\ _ |- _ => clear H
  | H : @eq bool ?x _ |- _ => is_var x; clear H
  | H : @eq (option N) _ _ |- _ => clear H
  | H : @eq (list _) _ _ |- _ => clear H
  | H : @eq cend _ _ |- _ => clear H
  | H : _ \/ @eq cend _ _ |- _ => clear H
  end.
Ltac plia := prune; lia.

Lemma scap_le0 b : bshape cS cR b -> default u32_max (scap_of b) <= u32_max.
Proof. destruct b as [[[|so sc|] [|ro rc|]]|]; cbn; intros H; try contradiction; try lia. Qed.

Lemma bd_refl (c : conn) : bool_decide (c = c) = true.
Proof. apply bool_decide_eq_true_2. reflexivity. Qed.

Lemma len_one {A} (x : A) : len [x] = 1.
Proof. reflexivity. Qed.

Ltac norm :=
  rewrite ?sb_items_app, ?br_items_app, ?bs_adds_app, ?rb_adds_app, ?len_app, ?len_cons, ?len_one,
    ?len_nil, ?app_nil_r in *.

Lemma inv_absorb cap w : Inv cap w -> Inv cap (absorb w).
Proof.
  intros I. unfold absorb. dw w. di I. cbn.
  pose proof (scap_le0 b Ishape) as Hle.
  rewrite drain_added_spec by plia. cbn.
  constructor; cbn; try assumption.
  - cbn [added_sum]. plia.
  - intros Ho sc rc E1 E2. specialize (Isceq Ho sc rc E1 E2). cbn [added_sum]. plia.
Qed.

Lemma inv_app_send cap w v : Inv cap w -> Inv cap (app_send w v).
Proof.
  intros I0. unfold app_send. pose proof (inv_absorb cap w I0) as I. set (w1 := absorb w) in *. clearbody w1.
  clear I0 w. rename w1 into w. cbn zeta.
  unfold ready_of, added_ended. dw w. di I. cbn.
  destruct sopen; cbn; [|constructor; assumption].
  destruct scl; cbn; try (constructor; assumption).
  destruct (N.ltb_spec 0 scap); [|constructor; assumption].
  destruct (N.eqb_spec scap 0); [plia|]. cbn.
  destruct Isb as (Isb1 & Isb2 & Isb3). specialize (Isb2 eq_refl).
  constructor; cbn; try assumption; norm.
  - plia.
  - intros _ sc rc E1 E2. specialize (Isceq eq_refl sc rc E1 E2). plia.
  - split; [apply sb_wf_app; assumption|]. split; [intros _; rewrite sb_closing_app_item; assumption|].
    intros E. destruct (Isb3 E) as [_ ?]. discriminate.
  - destruct Iord as (rest & E & Er). exists (rest ++ [v]). split.
    + rewrite E, <- !app_assoc. reflexivity.
    + intros Ho. rewrite (Er Ho), <- !app_assoc. reflexivity.
Qed.

Lemma inv_app_close_s cap w : Inv cap w -> Inv cap (app_close_s w).
Proof.
  intros I. unfold app_close_s. dw w. di I. cbn.
  destruct sopen; cbn; [|constructor; assumption].
  destruct Isb as (Isb1 & Isb2 & Isb3). specialize (Isb2 eq_refl).
  constructor; cbn; try assumption; norm.
  - plia.
  - discriminate.
  - split; [apply sb_wf_app; assumption|]. split; [discriminate|].
    intros E. destruct (Isb3 E) as [_ ?]. discriminate.
  - destruct sres; cbn in *; destruct Isres as (? & ?); try discriminate. split; [reflexivity|assumption].
  - destruct Iord as (rest & E & Er). exists rest. split; [exact E|]. intros Ho. rewrite (Er Ho). reflexivity.
Qed.

Lemma inv_app_close_r cap w : Inv cap w -> Inv cap (app_close_r w).
Proof.
  intros I. unfold app_close_r. dw w. di I. cbn.
  destruct ropen; cbn; [|constructor; assumption].
  destruct Irb as (Irb1 & Irb2 & Irb3). specialize (Irb2 eq_refl).
  constructor; cbn; try assumption; norm.
  - intros rc E. specialize (Irc rc E). plia.
  - discriminate.
  - split; [apply rb_wf_app; assumption|]. split; [discriminate|].
    intros E. destruct (Irb3 E) as [_ ?]. discriminate.
  - destruct rres; cbn in *; destruct Irres as (? & ?); try discriminate. split; [reflexivity|assumption].
  - destruct Iord as (rest & E & Er). exists rest. split; [exact E|]. discriminate.
Qed.

Lemma inv_app_recv cap w : Inv cap w -> Inv cap (app_recv w).
Proof.
  intros I. unfold app_recv. dw w. di I. cbn. rewrite client_low_val.
  destruct Icur as (C1 & C2 & C3 & C4).
  destruct (N.eqb_spec rcur 0); [plia|]. destruct (N.ltb_spec rmax rcur); [plia|]. cbn.
  destruct rqueue as [|v l]; [constructor; cbn; try assumption; repeat split; assumption|].
  cbn. destruct Irb as (Irb1 & Irb2 & Irb3).
  destruct Iord as (rest & E & Er).
  assert (Hord : exists rest0, ssent = (rgot ++ [v]) ++ l ++ rest0 /\
            (ropen = true -> rest0 = br_items qbr ++ sb_items qsb)).
  { exists rest. split; [rewrite E, <- !app_assoc; reflexivity|exact Er]. }
  destruct (N.leb_spec (rcur - 1) 4).
  - destruct (N.leb_spec rmax (rcur - 1)); [plia|].
    destruct (N.ltb_spec u32_max (rcur - 1 + (rmax - (rcur - 1)))); [plia|].
    destruct ropen; cbn.
    + destruct (N.eqb_spec (rcur - 1 + (rmax - (rcur - 1))) 0); [plia|].
      destruct (N.ltb_spec rmax (rcur - 1 + (rmax - (rcur - 1)))); [plia|]. cbn.
      constructor; cbn; try assumption; norm.
      * plia.
      * intros rc Ec. specialize (Irc rc Ec). norm. plia.
      * intros _ rc Ec. specialize (Irceq eq_refl rc Ec). norm. plia.
      * split; [apply rb_wf_app; auto|]. split; [intros _; rewrite rb_closing_app_add; auto|].
        intros Ec. destruct (Irb3 Ec) as [_ ?]. discriminate.
    + destruct (N.eqb_spec (rcur - 1 + (rmax - (rcur - 1))) 0); [plia|].
      destruct (N.ltb_spec rmax (rcur - 1 + (rmax - (rcur - 1)))); [plia|]. cbn.
      constructor; cbn; try assumption; norm.
      * plia.
      * intros rc Ec. specialize (Irc rc Ec). norm. plia.
      * discriminate.
      * split; [|split]; assumption.
  - destruct (N.eqb_spec (rcur - 1) 0); [plia|]. destruct (N.ltb_spec rmax (rcur - 1)); [plia|]. cbn.
    constructor; cbn; try assumption; norm.
    + plia.
    + intros rc Ec. specialize (Irc rc Ec). norm. plia.
    + intros Ho rc Ec. specialize (Irceq Ho rc Ec). norm. plia.
    + split; [|split]; assumption.
Qed.

Lemma scap_le b : bshape cS cR b -> default u32_max (scap_of b) <= u32_max.
Proof. destruct b as [[[|so sc|] [|ro rc|]]|]; cbn; intros H; try contradiction; try plia. Qed.
Lemma exp_s_2 b : bshape cS cR b -> exp_s b = 2%nat -> scap_of b = None.
Proof. destruct b as [[[|so sc|] [|ro rc|]]|]; cbn; intros H; try contradiction; try discriminate; auto. Qed.
Lemma exp_r_2 b : bshape cS cR b -> exp_r b = 2%nat -> rcap_of b = None.
Proof. destruct b as [[[|so sc|] [|ro rc|]]|]; cbn; intros H; try contradiction; try discriminate; auto. Qed.

Lemma sres_peer res open : sres_ok res open CEst -> sres_ok res open CPeer.
Proof. destruct res; cbn; intros (? & ?); try (split; [assumption|discriminate]). destruct H0; discriminate. Qed.

Lemma inv_client_s cap w : Inv cap w -> Inv cap (client_s w).
Proof.
  intros I. unfold client_s. dw w. di I. cbn.
  destruct qbs as [|[n| |r] q]; [constructor; assumption| | |]; cbn; cbn [bs_adds] in Isc, Isceq.
  - destruct scl; cbn in Ibs; try discriminate. cbn.
    destruct sopen; cbn.
    + constructor; cbn; try assumption; rewrite ?added_sum_app.
      * plia.
      * intros _ sc rc E1 E2. specialize (Isceq eq_refl sc rc E1 E2). plia.
    + constructor; cbn; try assumption; [plia|discriminate].
  - destruct scl; cbn in Ibs; try discriminate. cbn.
    constructor; cbn; try assumption.
    apply sres_peer. assumption.
  - assert (Hq : (scl = CEst \/ scl = CPeer) /\ r = R3Ok /\ bs_final 2 q = Some (exp_s b)).
    { destruct scl, r; cbn in Ibs; try discriminate; auto. }
    destruct Hq as (Hcl & -> & Hq). apply bs_final_2 in Hq. destruct Hq as (-> & He).
    pose proof (exp_s_2 b Ishape He) as Hnone.
    destruct Isb as (Isb1 & Isb2 & Isb3). destruct (Isb3 Hnone) as (-> & ->).
    destruct sres; cbn in Isres; cbn.
    + destruct Isres; discriminate.
    + assert (Hm : match scl with CGone => False | _ => True end) by (destruct Hcl; subst; exact I).
      destruct scl; try contradiction; cbn;
        (constructor; cbn; try assumption; repeat split; auto).
    + destruct Isres as (_ & -> & _). destruct Hcl; discriminate.
Qed.

Lemma inv_client_r cap w : Inv cap w -> Inv cap (client_r w).
Proof.
  intros I. unfold client_r. dw w. di I. cbn.
  destruct qbr as [|[v| |r] q]; [constructor; assumption| | |]; cbn; cbn [br_items] in Irc, Irceq, Iord.
  - destruct rcl; cbn in Ibr; try discriminate. cbn.
    destruct Iord as (rest & E & Er).
    destruct ropen; cbn.
    + constructor; cbn; try assumption; norm.
      * intros rc Ec. specialize (Irc rc Ec). norm. plia.
      * intros _ rc Ec. specialize (Irceq eq_refl rc Ec). norm. plia.
      * exists (br_items q ++ sb_items qsb). split; [|reflexivity].
        rewrite E, (Er eq_refl). cbn. rewrite <- !app_assoc. reflexivity.
    + constructor; cbn; try assumption; norm.
      * intros rc Ec. specialize (Irc rc Ec). norm. plia.
      * discriminate.
      * exists rest. split; [exact E|discriminate].
  - destruct rcl; cbn in Ibr; try discriminate. cbn.
    constructor; cbn; try assumption.
    apply sres_peer. assumption.
  - assert (Hq : (rcl = CEst \/ rcl = CPeer) /\ r = R3Ok /\ br_final 2 q = Some (exp_r b)).
    { destruct rcl, r; cbn in Ibr; try discriminate; auto. }
    destruct Hq as (Hcl & -> & Hq). apply br_final_2 in Hq. destruct Hq as (-> & He).
    pose proof (exp_r_2 b Ishape He) as Hnone.
    destruct Irb as (Irb1 & Irb2 & Irb3). destruct (Irb3 Hnone) as (-> & ->).
    destruct rres; cbn in Irres; cbn.
    + destruct Irres; discriminate.
    + assert (Hm : match rcl with CGone => False | _ => True end) by (destruct Hcl; subst; exact I).
      destruct rcl; try contradiction; cbn;
        (constructor; cbn; try assumption; repeat split; auto).
    + destruct Irres as (_ & -> & _). destruct Hcl; discriminate.
Qed.

Lemma send_item_both sc rc :
  chan_send_item {| ch_s := Claimed cS sc; ch_r := Claimed cR rc |} cS =
  if sc =? 0 then (if negb (rc =? 0) then ItemPanic 33 else ItemExhausted) else
  if rc =? 0 then ItemPanic 34 else
  let add := if (sc - 1 <=? 4) && (sc - 1 <? rc - 1) then Some (rc - 1 - (sc - 1)) else None in
  ItemForward {| ch_s := Claimed cS (match add with Some _ => rc - 1 | None => sc - 1 end);
                 ch_r := Claimed cR (rc - 1) |} cR add.
Proof. unfold chan_send_item. cbn. rewrite bd_refl. reflexivity. Qed.

Lemma add_capacity_r sst rc n :
  chan_add_capacity {| ch_s := sst; ch_r := Claimed cR rc |} cR n =
  if n =? 0 then AddIgnore else
  if rc + n <=? u32_max then
    match sst with
    | Claimed so sc =>
        if sc <=? 4 then
          if negb (sc <? rc + n) then AddPanic 32
          else AddUpdate {| ch_s := Claimed so (rc + n); ch_r := Claimed cR (rc + n) |} (Some (so, rc + n - sc))
        else AddUpdate {| ch_s := sst; ch_r := Claimed cR (rc + n) |} None
    | _ => AddUpdate {| ch_s := sst; ch_r := Claimed cR (rc + n) |} None
    end
  else AddOverflow.
Proof.
  unfold chan_add_capacity, channel_cap_add. cbn. rewrite bd_refl. cbn.
  destruct (n =? 0); [reflexivity|]. destruct (rc + n <=? u32_max); [|reflexivity].
  destruct sst; reflexivity.
Qed.

Lemma close_result_s sc rst : chan_close_result {| ch_s := Claimed cS sc; ch_r := rst |} cS ESender = R3Ok.
Proof. unfold chan_close_result. cbn. rewrite bd_refl. reflexivity. Qed.
Lemma close_result_r rc sst : chan_close_result {| ch_s := sst; ch_r := Claimed cR rc |} cR EReceiver = R3Ok.
Proof. unfold chan_close_result. cbn. rewrite bd_refl. reflexivity. Qed.

Arguments chan_send_item : simpl never.
Arguments chan_add_capacity : simpl never.
Arguments chan_close_result : simpl never.

Lemma inv_broker_s cap w : Inv cap w -> Inv cap (broker_s cS w).
Proof.
  intros I. unfold broker_s. dw w. di I. cbn.
  destruct qsb as [|[v|] q]; [constructor; assumption| |]; cbn;
    cbn [sb_items sb_wf sb_closing] in Isc, Isceq, Isb, Iord; norm;
    destruct Isb as (Isb1 & Isb2 & Isb3).
  - (* SendItem *)
    unfold b_send_item. cbn.
    destruct b as [[[|so sc|] [|ro rc|]]|]; cbn in Ishape; try contradiction;
      try (destruct (Isb3 eq_refl); discriminate).
    + (* both ends claimed *)
      destruct Ishape as (-> & -> & S1 & S2 & S3). rewrite send_item_both. cbn in Isc.
      destruct (N.eqb_spec sc 0); [exfalso; plia|]. destruct (N.eqb_spec rc 0); [exfalso; plia|].
      cbn zeta.
      destruct Iord as (rest & E & Er).
      assert (Hord : exists rest0, ssent = rgot ++ rqueue ++ rest0 /\
                (ropen = true -> rest0 = br_items (qbr ++ [BRItem v]) ++ sb_items q)).
      { exists rest. split; [exact E|]. intros Ho. rewrite (Er Ho). norm.
        rewrite <- !app_assoc. reflexivity. }
      destruct ((sc - 1 <=? 4) && (sc - 1 <? rc - 1)) eqn:Eadd; cbn.
      * constructor; cbn; try assumption; norm.
        -- repeat split; plia.
        -- plia.
        -- intros Ho sc' rc' [= <-] [= <-]. specialize (Isceq Ho sc rc eq_refl eq_refl). plia.
        -- intros rc' [= <-]. specialize (Irc rc eq_refl). plia.
        -- intros Ho rc' [= <-]. specialize (Irceq Ho rc eq_refl). plia.
        -- repeat split; auto; discriminate.
        -- destruct Irb as (? & ? & ?). repeat split; auto; discriminate.
        -- rewrite (bs_final_app _ _ _ _ Ibs). reflexivity.
        -- rewrite (br_final_app _ _ _ _ Ibr). reflexivity.
      * constructor; cbn; try assumption; norm.
        -- repeat split; plia.
        -- plia.
        -- intros Ho sc' rc' [= <-] [= <-]. specialize (Isceq Ho sc rc eq_refl eq_refl). plia.
        -- intros rc' [= <-]. specialize (Irc rc eq_refl). plia.
        -- intros Ho rc' [= <-]. specialize (Irceq Ho rc eq_refl). plia.
        -- repeat split; auto; discriminate.
        -- destruct Irb as (? & ? & ?). repeat split; auto; discriminate.
        -- rewrite (br_final_app _ _ _ _ Ibr). reflexivity.
    + (* receiver closed at the broker: the item is ignored *)
      destruct Ishape as (-> & S1). unfold chan_send_item. cbn. rewrite bd_refl. cbn.
      destruct Irb as (Irb1 & Irb2 & Irb3). destruct (Irb3 eq_refl) as (-> & ->).
      destruct Iord as (rest & E & Er).
      constructor; cbn; try assumption.
      * auto.
      * cbn in Isc. plia.
      * discriminate.
      * repeat split; auto; discriminate.
      * repeat split; auto.
      * exists rest. split; [exact E|discriminate].
  - (* CloseChannelEnd(Sender) *)
    destruct q; [|discriminate]. unfold b_close. cbn.
    assert (Hso : sopen = false) by (destruct sopen; [discriminate (Isb2 eq_refl)|reflexivity]). subst sopen.
    destruct b as [[[|so sc|] [|ro rc|]]|]; cbn in Ishape; try contradiction;
      try (destruct (Isb3 eq_refl); discriminate).
    + destruct Ishape as (-> & -> & S1 & S2 & S3). rewrite close_result_s. cbn.
      constructor; cbn; try assumption; norm.
      * auto.
      * cbn in Isc. plia.
      * discriminate.
      * intros rc' [= <-]. specialize (Irc rc eq_refl). plia.
      * intros Ho rc' [= <-]. specialize (Irceq Ho rc eq_refl). plia.
      * repeat split; auto.
      * rewrite (bs_final_app _ _ _ _ Ibs). reflexivity.
      * rewrite (br_final_app _ _ _ _ Ibr). reflexivity.
      * exact Iord.
    + destruct Ishape as (-> & S1). rewrite close_result_s. cbn.
      constructor; cbn; try assumption; norm.
      * exact I.
      * cbn in Isc. plia.
      * discriminate.
      * repeat split; auto.
      * rewrite (bs_final_app _ _ _ _ Ibs). reflexivity.
Qed.

Lemma inv_broker_r cap w : Inv cap w -> Inv cap (broker_r cR w).
Proof.
  intros I. unfold broker_r. dw w. di I. cbn.
  destruct qrb as [|[n|] q]; [constructor; assumption| |]; cbn;
    cbn [rb_adds rb_wf rb_closing] in Irc, Irceq, Irb; norm;
    destruct Irb as (Irb1 & Irb2 & Irb3).
  - (* AddChannelCapacity *)
    unfold b_add_capacity. cbn. pose proof Icur as (C1 & C2 & C3 & C4).
    destruct b as [[[|so sc|] [|ro rc|]]|]; cbn in Ishape; try contradiction;
      try (destruct (Irb3 eq_refl); discriminate).
    + destruct Ishape as (-> & -> & S1 & S2 & S3). rewrite add_capacity_r.
      pose proof (Irc rc eq_refl) as Hrc.
      destruct (N.eqb_spec n 0) as [->|Hn].
      { constructor; cbn; try assumption; [repeat split; auto|repeat split; auto; discriminate]. }
      destruct (N.leb_spec (rc + n) u32_max); [|exfalso; plia].
      destruct (N.leb_spec sc 4); cbn.
      * destruct (N.ltb_spec sc (rc + n)); [|exfalso; plia]. cbn. cbn in Isc.
        constructor; cbn; try assumption; norm.
        -- repeat split; plia.
        -- plia.
        -- intros Ho sc' rc' [= <-] [= <-]. specialize (Isceq Ho sc rc eq_refl eq_refl). plia.
        -- intros rc' [= <-]. plia.
        -- intros Ho rc' [= <-]. specialize (Irceq Ho rc eq_refl). plia.
        -- destruct Isb as (? & ? & ?). repeat split; auto; discriminate.
        -- repeat split; auto; discriminate.
        -- rewrite (bs_final_app _ _ _ _ Ibs). reflexivity.
      * cbn in Isc.
        constructor; cbn; try assumption; norm.
        -- repeat split; plia.
        -- intros Ho sc' rc' [= <-] [= <-]. specialize (Isceq Ho sc rc eq_refl eq_refl).
           (* the sender's balance holds only at or below the low-water mark: above it the broker
              keeps the grant back *) plia.
        -- intros rc' [= <-]. plia.
        -- intros Ho rc' [= <-]. specialize (Irceq Ho rc eq_refl). plia.
        -- repeat split; auto; discriminate.
    + destruct Ishape as (-> & S1). rewrite add_capacity_r.
      pose proof (Irc rc eq_refl) as Hrc.
      destruct (N.eqb_spec n 0) as [->|Hn].
      { constructor; cbn; try assumption; [repeat split; auto|repeat split; auto; discriminate]. }
      destruct (N.leb_spec (rc + n) u32_max); [|exfalso; plia]. cbn.
      constructor; cbn; try assumption; norm.
      * split; [reflexivity|plia].
      * intros _ sc' rc' [=].
      * intros rc' [= <-]. plia.
      * intros Ho rc' [= <-]. specialize (Irceq Ho rc eq_refl). plia.
      * repeat split; auto; discriminate.
  - (* CloseChannelEnd(Receiver) *)
    destruct q; [|discriminate]. unfold b_close. cbn.
    assert (Hro : ropen = false) by (destruct ropen; [discriminate (Irb2 eq_refl)|reflexivity]). subst ropen.
    destruct b as [[[|so sc|] [|ro rc|]]|]; cbn in Ishape; try contradiction;
      try (destruct (Irb3 eq_refl); discriminate).
    + destruct Ishape as (-> & -> & S1 & S2 & S3). rewrite close_result_r. cbn.
      constructor; cbn; try assumption; norm.
      * split; [reflexivity|plia].
      * cbn in Isc. plia.
      * intros _ sc' rc' _ [=].
      * intros rc' [=].
      * discriminate.
      * repeat split; auto.
      * rewrite (bs_final_app _ _ _ _ Ibs). reflexivity.
      * rewrite (br_final_app _ _ _ _ Ibr). reflexivity.
      * destruct Iord as (rest & E & Er). exists rest. split; [exact E|discriminate].
    + destruct Ishape as (-> & S1). rewrite close_result_r. cbn.
      constructor; cbn; try assumption; norm.
      * exact I.
      * intros _ sc' rc' [=].
      * intros rc' [=].
      * discriminate.
      * repeat split; auto.
      * rewrite (br_final_app _ _ _ _ Ibr). reflexivity.
      * destruct Iord as (rest & E & Er). exists rest. split; [exact E|discriminate].
Qed.
End Steps.

(* ---------------------------------------------------------------- schedules, frames, draining, theorems *)
Section Main.
Variable cS cR : conn.
Notation Inv := (Inv cS cR).
Notation wstep := (wstep cS cR).
Notation wrun := (wrun cS cR).
Notation reachable := (reachable cS cR).
Notation winit := (winit cS cR).

Lemma inv_step cap w a : Inv cap w -> Inv cap (wstep w a).
Proof.
  destruct a; cbn [Credit.wstep]; auto using inv_app_send, inv_absorb, inv_app_recv, inv_app_close_s, inv_app_close_r,
    inv_broker_s, inv_broker_r, inv_client_s, inv_client_r.
Qed.

Lemma inv_reachable cap w : 1 <= cap -> cap <= u32_max -> reachable cap w -> Inv cap w.
Proof. intros H1 H2 R. induction R; [apply inv_init; assumption|apply inv_step; assumption]. Qed.

Lemma inv_run cap w sch : Inv cap w -> Inv cap (wrun w sch).
Proof. revert w. induction sch as [|a sch IH]; intros w I; cbn; [exact I|apply IH, inv_step, I]. Qed.

Lemma reachable_run cap w sch : reachable cap w -> reachable cap (wrun w sch).
Proof. revert w. induction sch as [|a sch IH]; intros w R; cbn; [exact R|apply IH; constructor; exact R]. Qed.

Lemma reachable_iff cap w : reachable cap w <-> exists sch, w = wrun (winit cap) sch.
Proof.
  split.
  - induction 1 as [|w a R (sch & ->)]; [exists []; reflexivity|].
    exists (sch ++ [a]). unfold Credit.wrun. rewrite fold_left_app. reflexivity.
  - intros (sch & ->). apply reachable_run. constructor.
Qed.

Lemma wrun_app w s1 s2 : wrun w (s1 ++ s2) = wrun (wrun w s1) s2.
Proof. unfold Credit.wrun. apply fold_left_app. Qed.

(* ---------- frames: which fields a step leaves alone ---------- *)
Ltac crush := repeat (first [progress cbn | case_match]); repeat split; try reflexivity.

Lemma frame_broker_s w :
  let w' := broker_s cS w in
  q_sb w' = tl (q_sb w) /\ sd_open w' = sd_open w /\ rv_open w' = rv_open w /\ sd_sent w' = sd_sent w /\
  q_rb w' = q_rb w /\ rv_queue w' = rv_queue w /\ rv_got w' = rv_got w.
Proof. unfold broker_s, b_send_item, b_close, b_remove_end, panic. destruct w; cbn. crush. Qed.

Lemma frame_client_r w :
  let w' := client_r w in
  q_br w' = tl (q_br w) /\ sd_open w' = sd_open w /\ rv_open w' = rv_open w /\ sd_sent w' = sd_sent w /\
  q_sb w' = q_sb w /\ q_rb w' = q_rb w /\ q_bs w' = q_bs w /\ rv_got w' = rv_got w.
Proof. unfold client_r, unexpected, panic. destruct w; cbn. crush. Qed.

Lemma frame_client_s w :
  let w' := client_s w in
  q_bs w' = tl (q_bs w) /\ sd_open w' = sd_open w /\ rv_open w' = rv_open w /\ sd_sent w' = sd_sent w /\
  q_sb w' = q_sb w /\ q_rb w' = q_rb w /\ q_br w' = q_br w /\ rv_queue w' = rv_queue w /\ rv_got w' = rv_got w.
Proof. unfold client_s, unexpected, panic. destruct w; cbn. crush. Qed.

(* the polls of the sender move announcements from the stream into the capacity *)
Lemma frame_absorb cap w : Inv cap w ->
  let w' := absorb w in
  sd_added w' = [] /\ sd_cap w' = sd_cap w + added_sum (sd_added w) /\
  sd_open w' = sd_open w /\ rv_open w' = rv_open w /\ sd_sent w' = sd_sent w /\
  q_sb w' = q_sb w /\ q_rb w' = q_rb w /\ q_bs w' = q_bs w /\ q_br w' = q_br w /\ rv_queue w' = rv_queue w /\
  rv_got w' = rv_got w /\ br_ch w' = br_ch w /\ sd_cl w' = sd_cl w.
Proof.
  intros I. pose proof (i_sc _ _ _ _ I) as H. pose proof (scap_le0 cS cR _ (i_shape _ _ _ _ I)) as Hle.
  unfold absorb. rewrite drain_added_spec by lia. destruct w; cbn. repeat split; reflexivity.
Qed.

(* poll_next_serialized does not touch the sender's side nor the downward links; under the
   invariant it takes the head of the queue *)
Lemma frame_app_recv cap w : Inv cap w ->
  let w' := app_recv w in
  rv_queue w' = tl (rv_queue w) /\ rv_got w' = rv_got w ++ firstn 1 (rv_queue w) /\
  sd_open w' = sd_open w /\ rv_open w' = rv_open w /\ sd_sent w' = sd_sent w /\
  q_sb w' = q_sb w /\ q_br w' = q_br w.
Proof.
  intros I. pose proof (i_cur _ _ _ _ I) as (C1 & C2 & C3 & C4). pose proof (i_pan _ _ _ _ I) as Hp.
  unfold app_recv, panic. rewrite client_low_val. destruct w; cbn in *. subst f_panic.
  destruct (N.eqb_spec rv_cur 0); [lia|]. destruct (N.ltb_spec rv_max rv_cur); [lia|]. cbn.
  destruct rv_queue as [|v l]; cbn; [rewrite app_nil_r; repeat split; reflexivity|].
  destruct (N.leb_spec (rv_cur - 1) 4); cbn.
  - destruct (N.leb_spec rv_max (rv_cur - 1)); [lia|].
    destruct rv_open; cbn.
    + destruct (N.ltb_spec u32_max (rv_cur - 1 + (rv_max - (rv_cur - 1)))); [lia|]. cbn.
      destruct (N.eqb_spec (rv_cur - 1 + (rv_max - (rv_cur - 1))) 0); [lia|].
      destruct (N.ltb_spec rv_max (rv_cur - 1 + (rv_max - (rv_cur - 1)))); [lia|]. cbn.
      repeat split; reflexivity.
    + destruct (N.ltb_spec u32_max (rv_cur - 1 + (rv_max - (rv_cur - 1)))); [lia|]. cbn.
      destruct (N.eqb_spec (rv_cur - 1 + (rv_max - (rv_cur - 1))) 0); [lia|].
      destruct (N.ltb_spec rv_max (rv_cur - 1 + (rv_max - (rv_cur - 1)))); [lia|]. cbn.
      repeat split; reflexivity.
  - destruct (N.eqb_spec (rv_cur - 1) 0); [lia|]. destruct (N.ltb_spec rv_max (rv_cur - 1)); [lia|]. cbn.
    repeat split; reflexivity.
Qed.

(* while the receiver is open its link to the broker carries grants only, and the broker's
   handling of a grant does not touch the link to the receiver *)
Lemma frame_broker_r cap w : Inv cap w -> rv_open w = true ->
  let w' := broker_r cR w in
  q_rb w' = tl (q_rb w) /\ sd_open w' = sd_open w /\ rv_open w' = rv_open w /\ sd_sent w' = sd_sent w /\
  q_sb w' = q_sb w /\ q_br w' = q_br w /\ rv_queue w' = rv_queue w /\ rv_got w' = rv_got w.
Proof.
  intros I Ho. pose proof (i_rb _ _ _ _ I) as (_ & Hc & _). specialize (Hc Ho).
  unfold broker_r, b_add_capacity, b_remove_end, panic. destruct w; cbn in *.
  destruct q_rb as [|[n|] q]; cbn in *; [repeat split; reflexivity| |discriminate].
  crush.
Qed.

(* ---------- draining one queue ---------- *)
Lemma drain_generic (P : world -> Prop) (a : act) (m : world -> nat) :
  (forall w, P w -> m w <> O -> P (wstep w a) /\ m (wstep w a) = pred (m w)) ->
  forall w, P w -> exists sch, P (wrun w sch) /\ m (wrun w sch) = O.
Proof.
  intros Hstep w. remember (m w) as k eqn:Ek. revert w Ek.
  induction k as [|k IH]; intros w Ek Pw; [exists []; auto|].
  destruct (Hstep w Pw) as (P' & E'); [rewrite <- Ek; discriminate|].
  destruct (IH (wstep w a)) as (sch & Ps & Es); [rewrite E', <- Ek; reflexivity|exact P'|].
  exists (a :: sch). split; assumption.
Qed.

Definition both_open (w : world) : Prop := sd_open w = true /\ rv_open w = true.

Lemma drain_all cap w : Inv cap w -> both_open w ->
  exists sch, let w' := wrun w sch in
    Inv cap w' /\ both_open w' /\ quiet w' /\ sd_sent w' = sd_sent w.
Proof.
  intros I (Hs & Hr). set (s0 := sd_sent w).
  pose (P1 := fun x => Inv cap x /\ both_open x /\ sd_sent x = s0).
  pose (P2 := fun x => P1 x /\ q_sb x = []).
  pose (P3 := fun x => P2 x /\ q_br x = []).
  pose (P4 := fun x => P3 x /\ rv_queue x = []).
  pose (P5 := fun x => P4 x /\ q_rb x = []).
  assert (H1 : P1 w) by (split; [exact I|split; [split; assumption|reflexivity]]).
  (* 1: the sender's link to the broker *)
  destruct (drain_generic P1 BrokerS (fun x => length (q_sb x))) with (w := w) as (s1 & Q1 & E1); [|exact H1|].
  { intros x (Ix & (Hxs & Hxr) & Hx) Hm. cbn [Credit.wstep].
    pose proof (frame_broker_s x) as (F1 & F2 & F3 & F4 & _). cbn zeta in *.
    split; [|rewrite F1; destruct (q_sb x); reflexivity].
    split; [apply (inv_step cap x BrokerS Ix)|]. split; [split; congruence|congruence]. }
  apply length_zero_iff_nil in E1.
  (* 2: the broker's link to the receiver *)
  destruct (drain_generic P2 ClientR (fun x => length (q_br x))) with (w := wrun w s1) as (s2 & Q2 & E2);
    [|split; assumption|].
  { intros x ((Ix & (Hxs & Hxr) & Hx) & Hq) Hm. cbn [Credit.wstep].
    pose proof (frame_client_r x) as (F1 & F2 & F3 & F4 & F5 & _). cbn zeta in *.
    split; [|rewrite F1; destruct (q_br x); reflexivity].
    split; [|congruence]. split; [apply (inv_step cap x ClientR Ix)|]. split; [split; congruence|congruence]. }
  apply length_zero_iff_nil in E2. rewrite <- wrun_app in *.
  (* 3: the receiver's queue *)
  destruct (drain_generic P3 ARecv (fun x => length (rv_queue x))) with (w := wrun w (s1 ++ s2)) as (s3 & Q3 & E3);
    [|split; assumption|].
  { intros x (((Ix & (Hxs & Hxr) & Hx) & Hq) & Hq2) Hm. cbn [Credit.wstep].
    pose proof (frame_app_recv cap x Ix) as (F1 & _ & F2 & F3 & F4 & F5 & F6). cbn zeta in *.
    split; [|rewrite F1; destruct (rv_queue x); reflexivity].
    split; [|congruence]. split; [|congruence].
    split; [apply (inv_step cap x ARecv Ix)|]. split; [split; congruence|congruence]. }
  apply length_zero_iff_nil in E3. rewrite <- wrun_app in *.
  (* 4: the receiver's link to the broker *)
  destruct (drain_generic P4 BrokerR (fun x => length (q_rb x))) with (w := wrun w ((s1 ++ s2) ++ s3)) as (s4 & Q4 & E4);
    [|split; assumption|].
  { intros x ((((Ix & (Hxs & Hxr) & Hx) & Hq) & Hq2) & Hq3) Hm. cbn [Credit.wstep].
    pose proof (frame_broker_r cap x Ix Hxr) as (F1 & F2 & F3 & F4 & F5 & F6 & F7 & _). cbn zeta in *.
    split; [|rewrite F1; destruct (q_rb x); reflexivity].
    split; [|congruence]. split; [|congruence]. split; [|congruence].
    split; [apply (inv_step cap x BrokerR Ix)|]. split; [split; congruence|congruence]. }
  apply length_zero_iff_nil in E4. rewrite <- wrun_app in *.
  (* 5: the broker's link to the sender *)
  destruct (drain_generic P5 ClientS (fun x => length (q_bs x))) with (w := wrun w (((s1 ++ s2) ++ s3) ++ s4)) as (s5 & Q5 & E5);
    [|split; assumption|].
  { intros x (((((Ix & (Hxs & Hxr) & Hx) & Hq) & Hq2) & Hq3) & Hq4) Hm. cbn [Credit.wstep].
    pose proof (frame_client_s x) as (F1 & F2 & F3 & F4 & F5 & F6 & F7 & F8 & _). cbn zeta in *.
    split; [|rewrite F1; destruct (q_bs x); reflexivity].
    split; [|congruence]. split; [|congruence]. split; [|congruence]. split; [|congruence].
    split; [apply (inv_step cap x ClientS Ix)|]. split; [split; congruence|congruence]. }
  apply length_zero_iff_nil in E5. rewrite <- wrun_app in *.
  (* 6: the sender polls: the announcements go into its capacity *)
  exists (((((s1 ++ s2) ++ s3) ++ s4) ++ s5) ++ [APollReady]). cbn zeta. rewrite wrun_app.
  set (x := wrun w ((((s1 ++ s2) ++ s3) ++ s4) ++ s5)) in *.
  destruct Q5 as (((((Ix & (Hxs & Hxr) & Hx) & Hq) & Hq2) & Hq3) & Hq4).
  change (wrun x [APollReady]) with (absorb x).
  pose proof (frame_absorb cap x Ix) as (F0 & _ & F1 & F2 & F3 & F4 & F5 & F6 & F7 & F8 & _). cbn zeta in *.
  split; [apply inv_absorb; exact Ix|]. split; [split; congruence|]. split; [|congruence].
  unfold quiet. repeat split; congruence.
Qed.

Ltac dw w :=
  destruct w as [scap sadded sopen sres ssent scl rmax rcur ropen rres rqueue rgot rcl qsb qrb qbs qbr b
                 fcut fovf fpanic funexp].
Ltac di I :=
  destruct I as [Icut Iovf Ipan Iunx Imax Icur Ishape Isc Isceq Irc Irceq Isb Irb Ibs Ibr Isres Irres Iord];
  cbn in Icut, Iovf, Ipan, Iunx, Imax, Icur, Ishape, Isc, Isceq, Irc, Irceq, Isb, Irb, Ibs, Ibr, Isres, Irres, Iord.

(* with both ends open and nothing in flight, the broker's entry has both ends claimed, the three
   credit counters agree where they must, and the sender is ready *)
Lemma quiet_state cap w : Inv cap w -> both_open w -> quiet w ->
  exists sc rc, br_ch w = Some {| ch_s := Claimed cS sc; ch_r := Claimed cR rc |} /\
    sd_cap w = sc /\ rv_cur w = rc /\ 1 <= sc /\ sc <= rc /\ sd_cl w = CEst /\ rv_cl w = CEst /\
    sd_sent w = rv_got w.
Proof.
  intros I (Hs & Hr) (Q1 & Q2 & Q3 & Q4 & Q5 & Q6). dw w. cbn in Hs, Hr, Q1, Q2, Q3, Q4, Q5, Q6. subst. di I.
  destruct Isb as (_ & _ & Isb3). destruct Irb as (_ & _ & Irb3).
  destruct b as [[[|so sc|] [|ro rc|]]|]; cbn in Ishape, Isb3, Irb3, Isceq, Irceq; try contradiction;
    try (destruct (Isb3 eq_refl); discriminate); try (destruct (Irb3 eq_refl); discriminate).
  destruct Ishape as (-> & -> & S1 & S2 & S3).
  specialize (Isceq eq_refl sc rc eq_refl eq_refl). specialize (Irceq eq_refl rc eq_refl).
  rewrite ?len_nil in *. cbn [bs_adds rb_adds added_sum len length N.of_nat] in *.
  exists sc, rc. cbn. split; [reflexivity|].
  destruct scl; cbn in Ibs; try discriminate. destruct rcl; cbn in Ibr; try discriminate.
  destruct Iord as (rest & E & Er). rewrite (Er eq_refl) in E. cbn in E. rewrite !app_nil_r in E.
  destruct Icur as (C1 & C2 & C3 & C4).
  clear Ibs Ibr Isres Irres Er Isb3 Irb3 Icut Iovf Ipan Iunx Isc Irc.
  repeat split; try reflexivity; try assumption; lia.
Qed.

Theorem quiet_ready cap w : Inv cap w -> both_open w -> quiet w -> send_ready w = RdOk.
Proof.
  intros I Ho Q. destruct (quiet_state cap w I Ho Q) as (sc & rc & _ & E1 & _ & H1 & _ & E2 & _).
  pose proof (frame_absorb cap w I) as (_ & F1 & F2 & _ & _ & _ & _ & _ & _ & _ & _ & _ & F3). cbn zeta in *.
  destruct Ho as (Hs & _). destruct Q as (_ & _ & _ & _ & _ & Q6).
  unfold send_ready, ready_of, added_ended. rewrite F1, F2, F3, Hs, E2, E1, Q6. cbn [added_sum negb orb].
  destruct (N.ltb_spec 0 (sc + 0)); [reflexivity|lia].
Qed.

Arguments chan_send_item : simpl never.

Lemma step_send_quiet w v : sd_added w = [] -> sd_open w = true -> sd_cl w = CEst -> 1 <= sd_cap w ->
  let w1 := app_send w v in
  q_sb w1 = q_sb w ++ [SItem v] /\ q_br w1 = q_br w /\ rv_queue w1 = rv_queue w /\ rv_got w1 = rv_got w /\
  br_ch w1 = br_ch w /\ rv_cl w1 = rv_cl w /\ rv_open w1 = rv_open w.
Proof.
  dw w. cbn. intros -> -> -> H. unfold app_send, absorb, ready_of, added_ended. cbn.
  destruct (N.ltb_spec 0 scap); [|lia]. destruct (N.eqb_spec scap 0); [lia|]. cbn.
  repeat split; reflexivity.
Qed.

Lemma step_broker_quiet w v sc rc :
  br_ch w = Some {| ch_s := Claimed cS sc; ch_r := Claimed cR rc |} -> 1 <= sc -> sc <= rc ->
  q_sb w = [SItem v] ->
  let w2 := broker_s cS w in
  q_br w2 = q_br w ++ [BRItem v] /\ rv_queue w2 = rv_queue w /\ rv_got w2 = rv_got w /\
  rv_cl w2 = rv_cl w /\ rv_open w2 = rv_open w.
Proof.
  dw w. cbn. intros -> H1 H2 ->. unfold broker_s, b_send_item. cbn. rewrite send_item_both.
  destruct (N.eqb_spec sc 0); [lia|]. destruct (N.eqb_spec rc 0); [lia|]. cbn zeta.
  destruct ((sc - 1 <=? 4) && (sc - 1 <? rc - 1)); cbn; repeat split; reflexivity.
Qed.

Lemma step_client_quiet w v : q_br w = [BRItem v] -> rv_cl w = CEst -> rv_open w = true ->
  let w3 := client_r w in rv_queue w3 = rv_queue w ++ [v] /\ rv_got w3 = rv_got w.
Proof. dw w. cbn. intros -> -> ->. unfold client_r. cbn. split; reflexivity. Qed.

Lemma quiet_deliver cap w v : Inv cap w -> both_open w -> quiet w ->
  rv_got (wrun w [ASend v; BrokerS; ClientR; ARecv]) = rv_got w ++ [v].
Proof.
  intros I Ho Q.
  destruct (quiet_state cap w I Ho Q) as (sc & rc & Eb & E1 & E2 & H1 & H2 & E3 & E4 & _).
  destruct Ho as (Hs & Hr). destruct Q as (Q1 & Q2 & Q3 & Q4 & Q5 & Q6).
  set (w1 := app_send w v). set (w2 := broker_s cS w1). set (w3 := client_r w2).
  assert (E : wrun w [ASend v; BrokerS; ClientR; ARecv] = app_recv w3) by reflexivity.
  rewrite E. clear E.
  pose proof (step_send_quiet w v Q6 Hs E3 ltac:(rewrite E1; exact H1)) as (A1 & A2 & A3 & A4 & A5 & A6 & A7).
  fold w1 in A1, A2, A3, A4, A5, A6, A7. rewrite Q1 in A1. cbn [app] in A1.
  pose proof (step_broker_quiet w1 v sc rc ltac:(rewrite A5; exact Eb) H1 H2 A1) as (B1 & B2 & B3 & B4 & B5).
  fold w2 in B1, B2, B3, B4, B5. rewrite A2, Q4 in B1. cbn [app] in B1.
  pose proof (step_client_quiet w2 v B1 ltac:(rewrite B4, A6; exact E4) ltac:(rewrite B5, A7; exact Hr)) as (C1 & C2).
  fold w3 in C1, C2. rewrite B2, A3, Q5 in C1. cbn [app] in C1.
  assert (I3 : Inv cap w3).
  { unfold w3, w2, w1. apply inv_client_r, inv_broker_s, inv_app_send, I. }
  pose proof (frame_app_recv cap w3 I3) as (_ & F & _). cbn zeta in F.
  rewrite F, C1, C2, B3, A4. reflexivity.
Qed.

(* ---------------------------------------------------------------- the statements (C05, end to end) *)
Definition cap_ok (cap : N) : Prop := 1 <= cap /\ cap <= u32_max.

Lemma run_inv cap sch : cap_ok cap -> Inv cap (wrun (winit cap) sch).
Proof. intros (H1 & H2). apply inv_run, inv_init; assumption. Qed.

(* (a) for every schedule: the broker never answers an item of this sender with CapacityExhausted,
   never an AddChannelCapacity of this receiver with AddCapacityError, no debug_assert!/
   unreachable!/overflow site is reached on either side, no client is sent a message it rejects *)
Theorem e2e_never_cut cap sch : cap_ok cap ->
  let w := wrun (winit cap) sch in
  f_cut w = false /\ f_ovf w = false /\ f_panic w = None /\ f_unexp w = false.
Proof. intros H w. pose proof (run_inv cap sch H) as I. fold w in I. repeat split; apply I. Qed.

(* the same as a statement about the branch of Channel::send_item: whenever an item of the sender is
   about to be handled, it is forwarded — or ignored because the receiver has closed *)
Theorem e2e_send_item_branch cap w ch v q : cap_ok cap -> reachable cap w ->
  br_ch w = Some ch -> q_sb w = SItem v :: q ->
  (exists ch' add, chan_send_item ch cS = ItemForward ch' cR add) \/
  (chan_send_item ch cS = ItemIgnore /\ ch_r ch = Closed /\ rv_open w = false).
Proof.
  intros (H1 & H2) R Eb Eq. pose proof (inv_reachable cap w H1 H2 R) as I. dw w. cbn in Eb, Eq. subst. di I.
  destruct Isb as (_ & _ & Isb3). destruct Irb as (_ & _ & Irb3).
  destruct ch as [[|so sc|] [|ro rc|]]; cbn in Ishape, Isb3, Irb3, Isc; try contradiction;
    try (destruct (Isb3 eq_refl); discriminate).
  - destruct Ishape as (-> & -> & S1 & S2 & S3). left. rewrite send_item_both.
    destruct (N.eqb_spec sc 0); [lia|]. destruct (N.eqb_spec rc 0); [lia|]. eauto.
  - destruct Ishape as (-> & _). right. destruct (Irb3 eq_refl) as (_ & ?).
    unfold chan_send_item. cbn. rewrite bd_refl. cbn. auto.
Qed.

(* (b) the consumed sequence is a prefix of the sent sequence; while the receiver has not closed,
   every sent item is at exactly one place of the pipeline, in send order (no loss, no duplicate,
   no reordering — whether or not the sender has closed meanwhile); drained = everything arrived *)
Theorem e2e_in_order cap sch : cap_ok cap ->
  let w := wrun (winit cap) sch in
  (exists rest, sd_sent w = rv_got w ++ rest) /\
  (rv_open w = true -> sd_sent w = rv_got w ++ rv_queue w ++ br_items (q_br w) ++ sb_items (q_sb w)) /\
  (rv_open w = true -> quiet w -> rv_got w = sd_sent w).
Proof.
  intros H w. pose proof (run_inv cap sch H) as I. fold w in I.
  destruct (i_ord _ _ _ _ I) as (rest & E & Er). split; [|split].
  - exists (rv_queue w ++ rest). exact E.
  - intros Ho. rewrite E, (Er Ho). reflexivity.
  - intros Ho (Q1 & _ & _ & Q4 & Q5 & _). rewrite E, (Er Ho), Q1, Q4, Q5. cbn. rewrite !app_nil_r. reflexivity.
Qed.

(* (c) conservation: what the sender may still send + what is in flight towards the broker + what
   the broker has announced but the sender has not yet seen = the broker's sender_capacity; that
   is at most the broker's receiver_capacity (equal at or below the low-water mark 4); and that
   + items in flight to the receiver + grants in flight = the receiver's cur_capacity <= max *)
Theorem e2e_conservation cap sch : cap_ok cap ->
  let w := wrun (winit cap) sch in
  rv_max w = cap /\ 1 <= rv_cur w /\ rv_cur w <= cap /\
  forall sc rc, b_scap w = Some sc -> b_rcap w = Some rc ->
    sd_cap w + added_sum (sd_added w) + len (sb_items (q_sb w)) + bs_adds (q_bs w) <= sc /\
    (sd_open w = true ->
     sd_cap w + added_sum (sd_added w) + len (sb_items (q_sb w)) + bs_adds (q_bs w) = sc) /\
    sc <= rc /\ (sc <= 4 -> sc = rc) /\
    rc + len (br_items (q_br w)) + len (rv_queue w) + rb_adds (q_rb w) <= rv_cur w /\
    (rv_open w = true -> rc + len (br_items (q_br w)) + len (rv_queue w) + rb_adds (q_rb w) = rv_cur w).
Proof.
  intros H w. pose proof (run_inv cap sch H) as I. fold w in I.
  pose proof (i_cur _ _ _ _ I) as (C1 & C2 & C3 & C4). pose proof (i_max _ _ _ _ I) as Hm.
  split; [exact Hm|]. split; [exact C1|]. split; [lia|].
  unfold b_scap, b_rcap. intros sc rc E1 E2.
  pose proof (i_sc _ _ _ _ I) as Hsc. rewrite E1 in Hsc. cbn [default] in Hsc.
  pose proof (i_shape _ _ _ _ I) as Hsh.
  split; [exact Hsc|]. split; [intros Ho; exact (i_sc_eq _ _ _ _ I Ho sc rc E1 E2)|].
  assert (Hs : sc <= rc /\ (sc <= 4 -> sc = rc)).
  { destruct (br_ch w) as [[[|so x|] [|ro y|]]|]; cbn in Hsh, E1, E2; try discriminate.
    injection E1 as <-. injection E2 as <-. destruct Hsh as (_ & _ & ? & ? & _). auto. }
  destruct Hs as (Hs1 & Hs2). split; [exact Hs1|]. split; [exact Hs2|].
  split; [exact (i_rc _ _ _ _ I rc E2)|intros Ho; exact (i_rc_eq _ _ _ _ I Ho rc E2)].
Qed.

(* the window: capacity the sender holds plus items on their way never exceed the capacity the
   receiver was claimed with *)
Corollary e2e_window cap sch : cap_ok cap ->
  let w := wrun (winit cap) sch in
  forall sc rc, b_scap w = Some sc -> b_rcap w = Some rc ->
  sd_cap w + added_sum (sd_added w) + len (sb_items (q_sb w)) + len (br_items (q_br w)) + len (rv_queue w) <= cap.
Proof.
  intros H w sc rc E1 E2. destruct (e2e_conservation cap sch H) as (_ & _ & Hc & Hf). fold w in Hc, Hf.
  destruct (Hf sc rc E1 E2) as (A & _ & B & _ & C & _). lia.
Qed.

(* close requests of this channel are always confirmed with Ok *)
Theorem e2e_close_confirmed cap sch : cap_ok cap ->
  let w := wrun (winit cap) sch in
  (forall r, sd_res w = KDone r -> r = R3Ok) /\ (forall r, rv_res w = KDone r -> r = R3Ok).
Proof.
  intros H w. pose proof (run_inv cap sch H) as I. fold w in I.
  pose proof (i_sres _ _ _ _ I) as Hs. pose proof (i_rres _ _ _ _ I) as Hr.
  split; intros r E; [rewrite E in Hs; apply Hs|rewrite E in Hr; apply Hr].
Qed.

(* (d) no deadlock: with both applications holding their ends open and nothing in flight the
   sender is ready (its poll_send_ready answers Ready(Ok)) ... *)
Theorem e2e_no_deadlock cap w : cap_ok cap -> reachable cap w ->
  sd_open w = true -> rv_open w = true -> quiet w -> send_ready w = RdOk.
Proof.
  intros (H1 & H2) R Hs Hr Q. apply (quiet_ready cap w); [apply inv_reachable; assumption|split; assumption|exact Q].
Qed.

(* ... and progress: from EVERY reachable state with both ends open there is a finite schedule
   (the links deliver, the receiver consumes, the sender polls — whichever of its two polls — and
   sends v) after which the receiver application has consumed everything sent so far and v *)
Theorem e2e_progress cap w v : cap_ok cap -> reachable cap w ->
  sd_open w = true -> rv_open w = true ->
  exists sch, rv_got (wrun w sch) = sd_sent w ++ [v].
Proof.
  intros (H1 & H2) R Hs Hr. pose proof (inv_reachable cap w H1 H2 R) as I.
  destruct (drain_all cap w I (conj Hs Hr)) as (s1 & I1 & Ho1 & Q1 & E1). cbn zeta in *.
  exists (s1 ++ [ASend v; BrokerS; ClientR; ARecv]). rewrite wrun_app.
  rewrite (quiet_deliver cap _ v I1 Ho1 Q1).
  destruct (quiet_state cap _ I1 Ho1 Q1) as (_ & _ & _ & _ & _ & _ & _ & _ & _ & Eq).
  rewrite <- Eq, E1. reflexivity.
Qed.

(* the same with the select!-pattern poll: an announcement consumed by poll_receiver_closed is
   not lost — polling it any number of times anywhere does not change what the sender may send *)
Theorem e2e_poll_closed_keeps_credit cap w : cap_ok cap -> reachable cap w ->
  let w' := wstep w APollClosed in
  sd_cap w' + added_sum (sd_added w') = sd_cap w + added_sum (sd_added w) /\ sd_added w' = [] /\
  send_ready w' = send_ready w.
Proof.
  intros (H1 & H2) R. pose proof (inv_reachable cap w H1 H2 R) as I. cbn [Credit.wstep]. cbn zeta.
  pose proof (frame_absorb cap w I) as (F0 & F1 & F2 & _ & _ & _ & _ & _ & _ & _ & _ & _ & F3). cbn zeta in *.
  rewrite F0, F1. cbn [added_sum]. split; [lia|]. split; [reflexivity|].
  pose proof (frame_absorb cap (absorb w) (inv_absorb cS cR cap w I)) as (G0 & G1 & G2 & _ & _ & _ & _ & _ & _ & _ & _ & _ & G3).
  cbn zeta in *. unfold send_ready, ready_of, added_ended. rewrite G1, G2, G3, F0, F1, F2, F3. cbn [added_sum].
  rewrite N.add_0_r. reflexivity.
Qed.
End Main.
