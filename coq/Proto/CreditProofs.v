(* Proto/CreditProofs.v — the end-to-end credit system of Proto/Credit.v, for EVERY schedule:
   an invariant [Inv] (flags clear, receiver-local bounds, shape of the broker's entry, the two
   credit balances, shape of the four links, close bookkeeping, item order) is preserved by every
   step; from it: the broker never takes its CapacityExhausted / AddCapacityError branch, no
   debug_assert!/overflow site is reached, no client gets an unexpected message, the consumed
   sequence is a prefix of the sent sequence (equal when drained), the conservation equations,
   and progress (a drain schedule exists from every reachable state with both ends open). *)
From stdpp Require Import list.
From RecordUpdate Require Import RecordSet.
From Coq Require Import ZifyBool ZifyNat ZifyN Lia.
From Aldrin Require Import gen.BrokerConsts gen.ClientConsts Broker.Model Broker.ChannelProofs Proto.Credit.
Local Open Scope N_scope.
Arguments N.add : simpl never.
Arguments N.sub : simpl never.
Arguments N.mul : simpl never.
Arguments N.ltb : simpl never.
Arguments N.leb : simpl never.
Arguments N.eqb : simpl never.
Arguments N.le : simpl never.
Arguments N.lt : simpl never.
Arguments u32_max : simpl never.

Lemma client_low_val : CLIENT_LOW = 4.
Proof. reflexivity. Qed.

(* ---------------------------------------------------------------- list projections *)
Lemma len_nil {A} : len (@nil A) = 0.
Proof. reflexivity. Qed.
Lemma len_cons {A} (x : A) l : len (x :: l) = len l + 1.
Proof. unfold len. cbn [length]. lia. Qed.
Lemma len_app {A} (l k : list A) : len (l ++ k) = len l + len k.
Proof. unfold len. rewrite app_length. lia. Qed.

Lemma sb_items_app q m : sb_items (q ++ [m]) = sb_items q ++ match m with SItem v => [v] | SClose => [] end.
Proof. induction q as [|[v|] q IH]; cbn; [destruct m; reflexivity|rewrite IH; reflexivity|exact IH]. Qed.
Lemma br_items_app q m : br_items (q ++ [m]) = br_items q ++ match m with BRItem v => [v] | _ => [] end.
Proof. induction q as [|[v| |r] q IH]; cbn; [destruct m; reflexivity|rewrite IH; reflexivity|exact IH|exact IH]. Qed.
Lemma bs_adds_app q m : bs_adds (q ++ [m]) = bs_adds q + match m with BSAdd n => n | _ => 0 end.
Proof. induction q as [|[n| |r] q IH]; cbn [bs_adds app]; [destruct m; cbn; lia|lia|exact IH|exact IH]. Qed.
Lemma rb_adds_app q m : rb_adds (q ++ [m]) = rb_adds q + match m with RAdd n => n | RClose => 0 end.
Proof. induction q as [|[n|] q IH]; cbn [rb_adds app]; [destruct m; cbn; lia|lia|exact IH]. Qed.

(* ---------------------------------------------------------------- shape of the links *)
(* upward: the close request is the last message an end ever sends *)
Fixpoint sb_wf (q : list smsg) : bool :=
  match q with [] => true | SItem _ :: q => sb_wf q | SClose :: q => match q with [] => true | _ => false end end.
Fixpoint sb_closing (q : list smsg) : bool :=
  match q with [] => false | SItem _ :: q => sb_closing q | SClose :: _ => true end.
Fixpoint rb_wf (q : list rmsg) : bool :=
  match q with [] => true | RAdd _ :: q => rb_wf q | RClose :: q => match q with [] => true | _ => false end end.
Fixpoint rb_closing (q : list rmsg) : bool :=
  match q with [] => false | RAdd _ :: q => rb_closing q | RClose :: _ => true end.

Lemma sb_wf_app q m : sb_wf q = true -> sb_closing q = false -> sb_wf (q ++ [m]) = true.
Proof. induction q as [|[v|] q IH]; cbn; intros H1 H2; [destruct m; reflexivity|auto|discriminate]. Qed.
Lemma sb_closing_app_item q v : sb_closing (q ++ [SItem v]) = sb_closing q.
Proof. induction q as [|[x|] q IH]; cbn; auto. Qed.
Lemma rb_wf_app q m : rb_wf q = true -> rb_closing q = false -> rb_wf (q ++ [m]) = true.
Proof. induction q as [|[v|] q IH]; cbn; intros H1 H2; [destruct m; reflexivity|auto|discriminate]. Qed.
Lemma rb_closing_app_add q v : rb_closing (q ++ [RAdd v]) = rb_closing q.
Proof. induction q as [|[x|] q IH]; cbn; auto. Qed.

(* downward: what the client's map entry goes through: 0 = Established, 1 = the peer's close was
   delivered, 2 = the own close was confirmed (entry removed).  [bs_final l q] = the level after
   the client has handled q starting at level l, None if some message of q would be answered with
   UnexpectedMessageReceived (or a close is refused). *)
Definition lvl (c : cend) : nat := match c with CEst => 0 | CPeer => 1 | CGone => 2 end.

Fixpoint bs_final (l : nat) (q : list bsmsg) : option nat :=
  match q with
  | [] => Some l
  | BSAdd _ :: q => match l with O => bs_final 0 q | _ => None end
  | BSPeerClosed :: q => match l with O => bs_final 1 q | _ => None end
  | BSCloseReply r :: q =>
      match l, r with
      | O, R3Ok | S O, R3Ok => bs_final 2 q
      | _, _ => None
      end
  end.
Fixpoint br_final (l : nat) (q : list brmsg) : option nat :=
  match q with
  | [] => Some l
  | BRItem _ :: q => match l with O => br_final 0 q | _ => None end
  | BRPeerClosed :: q => match l with O => br_final 1 q | _ => None end
  | BRCloseReply r :: q =>
      match l, r with
      | O, R3Ok | S O, R3Ok => br_final 2 q
      | _, _ => None
      end
  end.

Lemma bs_final_app l q m e : bs_final l q = Some e -> bs_final l (q ++ [m]) = bs_final e [m].
Proof.
  revert l. induction q as [|x q IH]; intros l H; [cbn in H; injection H as ->; reflexivity|].
  cbn [app]. destruct x as [n| |[| |]]; cbn [bs_final] in *; destruct l as [|[|l]]; try discriminate; auto.
Qed.
Lemma br_final_app l q m e : br_final l q = Some e -> br_final l (q ++ [m]) = br_final e [m].
Proof.
  revert l. induction q as [|x q IH]; intros l H; [cbn in H; injection H as ->; reflexivity|].
  cbn [app]. destruct x as [n| |[| |]]; cbn [br_final] in *; destruct l as [|[|l]]; try discriminate; auto.
Qed.
Lemma bs_final_2 q e : bs_final 2 q = Some e -> q = [] /\ e = 2%nat.
Proof. destruct q as [|[n| |[| |]] q]; cbn; intros H; try discriminate. injection H as <-. auto. Qed.
Lemma br_final_2 q e : br_final 2 q = Some e -> q = [] /\ e = 2%nat.
Proof. destruct q as [|[n| |[| |]] q]; cbn; intros H; try discriminate. injection H as <-. auto. Qed.

(* the level each client will have reached when its link is drained, read off the broker's entry *)
Definition exp_s (b : option chan) : nat :=
  match b with
  | Some {| ch_s := Claimed _ _; ch_r := Claimed _ _ |} => 0
  | Some {| ch_s := Claimed _ _; ch_r := _ |} => 1
  | _ => 2
  end.
Definition exp_r (b : option chan) : nat :=
  match b with
  | Some {| ch_s := Claimed _ _; ch_r := Claimed _ _ |} => 0
  | Some {| ch_s := _; ch_r := Claimed _ _ |} => 1
  | _ => 2
  end.

Section Owners.
Variable cS cR : conn.

(* the broker's entry: both ends claimed by their owners, or one end closed, or gone *)
Definition bshape (b : option chan) : Prop :=
  match b with
  | None => True
  | Some {| ch_s := Claimed so sc; ch_r := Claimed ro rc |} =>
      so = cS /\ ro = cR /\ sc <= rc /\ (sc <= 4 -> sc = rc) /\ rc <= u32_max
  | Some {| ch_s := Claimed so sc; ch_r := Closed |} => so = cS /\ sc <= u32_max
  | Some {| ch_s := Closed; ch_r := Claimed ro rc |} => ro = cR /\ rc <= u32_max
  | _ => False
  end.

Definition sres_ok (res : close_st) (open : bool) (cl : cend) : Prop :=
  match res with
  | KNone => open = true /\ cl <> CGone
  | KPending => open = false /\ cl <> CGone
  | KDone r => open = false /\ cl = CGone /\ r = R3Ok
  end.

Record Inv (cap : N) (w : world) : Prop := {
  i_cut : f_cut w = false;
  i_ovf : f_ovf w = false;
  i_pan : f_panic w = None;
  i_unx : f_unexp w = false;
  i_max : rv_max w = cap;
  i_cur : 1 <= rv_cur w /\ rv_cur w <= rv_max w /\ rv_max w <= u32_max /\
          (rv_cur w = rv_max w \/ 4 < rv_cur w);
  i_shape : bshape (br_ch w);
  i_sc : sd_cap w + len (sb_items (q_sb w)) + bs_adds (q_bs w) <= default u32_max (scap_of (br_ch w));
  i_sc_eq : sd_open w = true -> forall sc rc, scap_of (br_ch w) = Some sc -> rcap_of (br_ch w) = Some rc ->
            sd_cap w + len (sb_items (q_sb w)) + bs_adds (q_bs w) = sc;
  i_rc : forall rc, rcap_of (br_ch w) = Some rc ->
         rc + len (br_items (q_br w)) + len (rv_queue w) + rb_adds (q_rb w) <= rv_cur w;
  i_rc_eq : rv_open w = true -> forall rc, rcap_of (br_ch w) = Some rc ->
            rc + len (br_items (q_br w)) + len (rv_queue w) + rb_adds (q_rb w) = rv_cur w;
  i_sb : sb_wf (q_sb w) = true /\ (sd_open w = true -> sb_closing (q_sb w) = false) /\
         (scap_of (br_ch w) = None -> q_sb w = [] /\ sd_open w = false);
  i_rb : rb_wf (q_rb w) = true /\ (rv_open w = true -> rb_closing (q_rb w) = false) /\
         (rcap_of (br_ch w) = None -> q_rb w = [] /\ rv_open w = false);
  i_bs : bs_final (lvl (sd_cl w)) (q_bs w) = Some (exp_s (br_ch w));
  i_br : br_final (lvl (rv_cl w)) (q_br w) = Some (exp_r (br_ch w));
  i_sres : sres_ok (sd_res w) (sd_open w) (sd_cl w);
  i_rres : sres_ok (rv_res w) (rv_open w) (rv_cl w);
  i_ord : exists rest, sd_sent w = rv_got w ++ rv_queue w ++ rest /\
          (rv_open w = true -> rest = br_items (q_br w) ++ sb_items (q_sb w)) }.

Lemma inv_init cap : 1 <= cap -> cap <= u32_max -> Inv cap (winit cS cR cap).
Proof.
  intros H1 H2. constructor; cbn; try reflexivity; try lia.
  - intros _ sc rc [= <-] _. lia.
  - intros rc [= <-]. lia.
  - intros _ rc [= <-]. lia.
  - repeat split; discriminate.
  - repeat split; discriminate.
  - split; [reflexivity|discriminate].
  - split; [reflexivity|discriminate].
  - exists []. split; reflexivity.
Qed.

End Owners.
