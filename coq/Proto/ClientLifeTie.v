(* Proto/ClientLifeTie.v — ties the handlers of Proto/ClientLife.v to aldrin/src/client.rs.

   tools/rs2v_clientlife.py reads, for every req_* / msg_* handler of client.rs, the map fields it
   inserts into and removes from, the message structs it builds and whether it awaits an inline
   flush (gen/ClientLifeSig.v; the bodies of run, drain_transport, send!, Select::poll_select are
   compared text-for-text there).  Here the automaton's handlers are RUN on probe states (every
   map holds one entry under key 7; the cookie the entries refer to is 7 or 9; both channel ends;
   protocol 1.14 and 1.20; every result variant) and what they did — which maps grew, which
   shrank, which messages were sent, whether the phase became InlineFlush — is compared, as sets
   of names per handler, with the table read from the source.  A handler that changes in the
   source, or a model handler that touches another map, breaks [client_req_tie]/[client_msg_tie]. *)
From Coq Require Import NArith String List Bool.
From Aldrin Require Import gen.ClientLifeSig Proto.ClientLife.
Import ListNotations.
Open Scope N_scope.

Definition all_mapk : list mapk :=
  [MCreateObject; MDestroyObject; MCreateService; MDestroyService; MFunctionCalls; MServices;
   MCreateChannel; MCloseChannelEnd; MClaimChannelEnd; MSenders; MReceivers; MSync;
   MCreateBusListener; MDestroyBusListener; MStartBusListener; MStopBusListener; MBusListeners;
   MAbortCallHandles; MQueryServiceInfo; MQueryServiceVersion; MSubscribeEvent; MSubscribeService;
   MSubscribeAllEvents; MUnsubscribeAllEvents; MProxies; MQueryIntrospection].

(* the field of `struct Client` a map constructor stands for *)
Definition mapk_field (m : mapk) : string :=
  match m with
  | MCreateObject => "create_object" | MDestroyObject => "destroy_object"
  | MCreateService => "create_service" | MDestroyService => "destroy_service"
  | MFunctionCalls => "function_calls" | MServices => "services"
  | MCreateChannel => "create_channel" | MCloseChannelEnd => "close_channel_end"
  | MClaimChannelEnd => "claim_channel_end" | MSenders => "senders" | MReceivers => "receivers"
  | MSync => "sync" | MCreateBusListener => "create_bus_listener"
  | MDestroyBusListener => "destroy_bus_listener" | MStartBusListener => "start_bus_listener"
  | MStopBusListener => "stop_bus_listener" | MBusListeners => "bus_listeners"
  | MAbortCallHandles => "abort_call_handles" | MQueryServiceInfo => "query_service_info"
  | MQueryServiceVersion => "query_service_version" | MSubscribeEvent => "subscribe_event"
  | MSubscribeService => "subscribe_service" | MSubscribeAllEvents => "subscribe_all_events"
  | MUnsubscribeAllEvents => "unsubscribe_all_events" | MProxies => "proxies"
  | MQueryIntrospection => "query_introspection"
  end%string.

(* the message struct an output kind stands for *)
Definition okind_struct (k : okind) : string :=
  match k with
  | OShutdown => "Shutdown" | OCreateObject => "CreateObject" | ODestroyObject => "DestroyObject"
  | OCreateService => "CreateService" | OCreateService2 => "CreateService2"
  | ODestroyService => "DestroyService" | OCallFunction => "CallFunction"
  | OCallFunction2 => "CallFunction2" | OCallFunctionReply => "CallFunctionReply"
  | OEmitEvent => "EmitEvent" | OCreateChannel => "CreateChannel"
  | OCloseChannelEnd => "CloseChannelEnd" | OClaimChannelEnd => "ClaimChannelEnd"
  | OSendItem => "SendItem" | OAddChannelCapacity => "AddChannelCapacity" | OSync => "Sync"
  | OCreateBusListener => "CreateBusListener" | ODestroyBusListener => "DestroyBusListener"
  | OAddBusListenerFilter => "AddBusListenerFilter"
  | ORemoveBusListenerFilter => "RemoveBusListenerFilter"
  | OClearBusListenerFilters => "ClearBusListenerFilters"
  | OStartBusListener => "StartBusListener" | OStopBusListener => "StopBusListener"
  | OQueryServiceInfo => "QueryServiceInfo" | OQueryServiceVersion => "QueryServiceVersion"
  | OSubscribeEvent => "SubscribeEvent" | OUnsubscribeEvent => "UnsubscribeEvent"
  | OSubscribeAllEvents => "SubscribeAllEvents" | OUnsubscribeAllEvents => "UnsubscribeAllEvents"
  | OSubscribeService => "SubscribeService" | OUnsubscribeService => "UnsubscribeService"
  | ORegisterIntrospection => "RegisterIntrospection" | OQueryIntrospection => "QueryIntrospection"
  | OQueryIntrospectionReply => "QueryIntrospectionReply" | OAbortFunctionCall => "AbortFunctionCall"
  end%string.

(* every map holds one entry under key 7 *)
Definition probe (version aux : N) (en : bool) : cstate :=
  mkS Running false 5 version
    (map (fun m => mkE m 7 (Some (mapk_idx m)) SPending aux en true) all_mapk)
    [] 100 (fun _ => 0) [] [].
Definition probes : list cstate :=
  [probe 20 7 true; probe 20 7 false; probe 20 9 true; probe 20 9 false;
   probe 14 7 true; probe 14 7 false; probe 14 9 true; probe 14 9 false].

Definition cnt_map (m : mapk) (l : list entry) : nat :=
  List.length (filter (fun e => mapk_eqb (ek e) m) l).
Definition grew (s s' : cstate) : list string :=
  map mapk_field (filter (fun m => Nat.ltb (cnt_map m (maps s)) (cnt_map m (maps s'))) all_mapk).
Definition shrank (s s' : cstate) : list string :=
  map mapk_field (filter (fun m => Nat.ltb (cnt_map m (maps s')) (cnt_map m (maps s))) all_mapk).
Definition sent (s' : cstate) : list string := map (fun o => okind_struct (fst o)) (outlog s').
Definition inline (s' : cstate) : bool := match phase s' with InlineFlush => true | _ => false end.

Definition subset (a b : list string) : bool := forallb (fun x => existsb (String.eqb x) b) a.
Definition same_set (a b : list string) : bool := subset a b && subset b a.

(* what a family of model transitions does on all probes *)
Definition observe (fs : list (cstate -> cstate)) : list string * list string * list string * bool :=
  let runs := flat_map (fun f => map (fun p => (p, f p)) probes) fs in
  (flat_map (fun r => grew (fst r) (snd r)) runs,
   flat_map (fun r => shrank (fst r) (snd r)) runs,
   flat_map (fun r => sent (snd r)) runs,
   existsb (fun r => inline (snd r)) runs).

Definition rq (q : req) : cstate -> cstate := fun s => fst (handle_request q (Some 50) s).
Definition ms (m : msg) : cstate -> cstate := fun s => fst (handle_message m s).
Definition ent (aux : N) : entry := mkE MQueryServiceInfo 7 (Some 50) SPlain aux false false.

(* which model transitions transcribe which Rust function *)
Definition model_req : list (string * list (cstate -> cstate)) :=
  [("finish_create_proxy", [fun s => fst (finish_create_proxy (ent 8) true 9 s);
                            fun s => fst (finish_create_proxy (ent 8) false 9 s)]);
   ("req_handle_cloned", [rq QHandleCloned]);
   ("req_handle_dropped", [rq QHandleDropped]);
   ("req_create_object", [rq QCreateObject]);
   ("req_destroy_object", [rq QDestroyObject]);
   ("req_create_service", [rq (QCreateService true)]);
   ("req_destroy_service", [rq (QDestroyService 7)]);
   ("req_call_function", [rq (QCallFunction true)]);
   ("req_call_function_reply", [rq (QCallFunctionReply 7 true)]);
   ("req_emit_event", [rq (QEmitEvent true true); rq (QEmitEvent false true)]);
   ("req_create_claimed_sender", [rq QCreateClaimedSender]);
   ("req_create_claimed_receiver", [rq QCreateClaimedReceiver]);
   ("req_close_channel_end", [rq (QCloseChannelEnd 7 true true)]);
   ("req_claim_sender", [rq (QClaimSender 7)]);
   ("req_claim_receiver", [rq (QClaimReceiver 7)]);
   ("req_send_item", [rq (QSendItem true)]);
   ("req_add_channel_capacity", [rq QAddChannelCapacity]);
   ("req_sync_client", [rq QSyncClient]);
   ("req_sync_broker", [rq QSyncBroker]);
   ("req_create_bus_listener", [rq QCreateBusListener]);
   ("req_destroy_bus_listener", [rq (QDestroyBusListener 7)]);
   ("req_add_bus_listener_filter", [rq (QAddBusListenerFilter 7); rq (QAddBusListenerFilter 8)]);
   ("req_remove_bus_listener_filter", [rq (QRemoveBusListenerFilter 7)]);
   ("req_clear_bus_listener_filters", [rq (QClearBusListenerFilters 7)]);
   ("req_start_bus_listener", [rq (QStartBusListener 7)]);
   ("req_stop_bus_listener", [rq (QStopBusListener 7)]);
   ("req_create_lifetime_listener", [rq QCreateLifetimeListener]);
   ("req_create_proxy", [rq (QCreateProxy 7)]);
   ("req_destroy_proxy", [rq (QDestroyProxy 7 1 true); rq (QDestroyProxy 8 0 false)]);
   ("req_subscribe_event", [rq (QSubscribeEvent 7 true); rq (QSubscribeEvent 7 false); rq (QSubscribeEvent 8 true)]);
   ("req_unsubscribe_event", [rq (QUnsubscribeEvent 7 true); rq (QUnsubscribeEvent 7 false)]);
   ("req_subscribe_all_events", [rq (QSubscribeAllEvents 7 true); rq (QSubscribeAllEvents 7 false)]);
   ("req_unsubscribe_all_events", [rq (QUnsubscribeAllEvents 7 1 true); rq (QUnsubscribeAllEvents 7 1 false);
                                   rq (QUnsubscribeAllEvents 8 0 false)]);
   ("req_register_introspection", [rq QRegisterIntrospection]);
   ("req_submit_introspection", [rq (QSubmitIntrospection true true); rq (QSubmitIntrospection false true)]);
   ("req_query_introspection", [rq (QQueryIntrospection false); rq (QQueryIntrospection true)]);
   ("abort_function_call", [fun s => fst (abort_function_call 7 s)])]%string.

Definition model_msg : list (string * list (cstate -> cstate)) :=
  [("msg_create_object_reply", [ms (MsgCreateObjectReply 7 true); ms (MsgCreateObjectReply 7 false)]);
   ("msg_destroy_object_reply", [ms (MsgDestroyObjectReply 7)]);
   ("msg_create_service_reply", [ms (MsgCreateServiceReply 7 0 8); ms (MsgCreateServiceReply 7 1 0)]);
   ("msg_destroy_service_reply", [ms (MsgDestroyServiceReply 7 0); ms (MsgDestroyServiceReply 7 1)]);
   ("msg_call_function", []);                       (* delegates to msg_call_function2 *)
   ("msg_call_function2", [ms (MsgCallFunction 8 7 true); ms (MsgCallFunction 8 7 false)]);
   ("msg_call_function_reply", [ms (MsgCallFunctionReply 7)]);
   ("msg_subscribe_event", [ms MsgSubscribeEvent]);
   ("msg_unsubscribe_event", [ms MsgUnsubscribeEvent]);
   ("msg_create_channel_reply", [ms (MsgCreateChannelReply 7 8)]);
   ("msg_close_channel_end_reply", [ms (MsgCloseChannelEndReply 7)]);
   ("msg_channel_end_closed", [ms (MsgChannelEndClosed 7 true); ms (MsgChannelEndClosed 7 false)]);
   ("msg_claim_channel_end_reply", [ms (MsgClaimChannelEndReply 7 0); ms (MsgClaimChannelEndReply 7 1);
                                    ms (MsgClaimChannelEndReply 7 2)]);
   ("msg_channel_end_claimed", [ms (MsgChannelEndClaimed 7 true); ms (MsgChannelEndClaimed 7 false)]);
   ("msg_item_received", [ms (MsgItemReceived 7)]);
   ("msg_add_channel_capacity", [ms (MsgAddChannelCapacity 7)]);
   ("msg_sync_reply", [ms (MsgSyncReply 7)]);
   ("msg_create_bus_listener_reply", [ms (MsgCreateBusListenerReply 7 8)]);
   ("msg_destroy_bus_listener_reply", [ms (MsgDestroyBusListenerReply 7 true); ms (MsgDestroyBusListenerReply 7 false)]);
   ("msg_start_bus_listener_reply", [ms (MsgStartBusListenerReply 7 true true); ms (MsgStartBusListenerReply 7 false true)]);
   ("msg_stop_bus_listener_reply", [ms (MsgStopBusListenerReply 7 true true); ms (MsgStopBusListenerReply 7 false true)]);
   ("msg_emit_bus_event", [ms (MsgEmitBusEvent (Some 7) true); ms (MsgEmitBusEvent None true)]);
   ("msg_bus_listener_current_finished", [ms (MsgBusListenerCurrentFinished 7 true)]);
   ("msg_abort_function_call", [ms (MsgAbortFunctionCall 7)]);
   ("msg_query_introspection", [ms (MsgQueryIntrospection true)]);
   ("msg_query_introspection_reply", [ms (MsgQueryIntrospectionReply 7)]);
   ("msg_query_service_info_reply", []);            (* removes, then finish_create_proxy: see below *)
   ("msg_query_service_version_reply", []);
   ("msg_subscribe_event_reply", [ms (MsgSubscribeEventReply 7)]);
   ("msg_emit_event", [ms MsgEmitEvent]);
   ("msg_service_destroyed", [ms (MsgServiceDestroyed 7)]);
   ("msg_subscribe_service_reply", [ms (MsgSubscribeServiceReply 7 true); ms (MsgSubscribeServiceReply 7 false)]);
   ("msg_subscribe_all_events", [ms (MsgSubscribeAllEvents true)]);
   ("msg_subscribe_all_events_reply", [ms (MsgSubscribeAllEventsReply 7 0); ms (MsgSubscribeAllEventsReply 7 1)]);
   ("msg_unsubscribe_all_events", [ms (MsgUnsubscribeAllEvents true)]);
   ("msg_unsubscribe_all_events_reply", [ms (MsgUnsubscribeAllEventsReply 7 0); ms (MsgUnsubscribeAllEventsReply 7 1)])]%string.

Definition lookup_fs (name : string) (t : list (string * list (cstate -> cstate))) : option (list (cstate -> cstate)) :=
  match find (fun x => String.eqb (fst x) name) t with Some x => Some (snd x) | None => None end.

Definition check_req (g : string * list string * list string * list string * bool) : bool :=
  let '(name, ins, rem, sends, fl) := g in
  match lookup_fs name model_req with
  | None => false
  | Some fs =>
      let '(mi, mr, msd, mf) := observe fs in
      same_set ins mi && same_set rem mr && same_set sends msd && Bool.eqb fl mf
  end.

(* the two proxy replies remove their request and continue in finish_create_proxy, which has its
   own row in the request table: compare only the removal *)
Definition reply_removes (name : string) (rem : list string) : bool :=
  if String.eqb name "msg_query_service_info_reply"
  then same_set rem (snd (fst (fst (observe [ms (MsgQueryServiceInfoReply 7 false true 9)]))))
  else if String.eqb name "msg_query_service_version_reply"
  then same_set rem (snd (fst (fst (observe [ms (MsgQueryServiceVersionReply 7 false 9)]))))
  else false.

Definition check_msg (g : string * list string * list string) : bool :=
  let '(name, ins, rem) := g in
  match lookup_fs name model_msg with
  | None => false
  | Some [] => match ins, rem with
               | [], [] => true
               | _, _ => reply_removes name rem
               end
  | Some fs =>
      let '(mi, mr, _, _) := observe fs in
      same_set ins mi && same_set rem mr
  end.

Example client_run_shape_tie : CLIENT_RUN_SHAPE_OK = true.
Proof. reflexivity. Qed.

Example client_req_tie :
  forallb check_req CLIENT_REQ_SIG = true /\ List.length CLIENT_REQ_SIG = List.length model_req.
Proof. vm_compute. split; reflexivity. Qed.

Example client_msg_tie :
  forallb check_msg CLIENT_MSG_SIG = true /\ List.length CLIENT_MSG_SIG = List.length model_msg.
Proof. vm_compute. split; reflexivity. Qed.
