(* Proto/ClientLife.v — the life cycle of `aldrin::Client::run` (aldrin/src/client.rs) as an automaton.

   What is transcribed (line numbers of /repo/aldrin/src/client.rs at the pinned commit; the full
   table is design/C15.md):
     run 264-291, drain_transport 304-324, the arms of handle_message 326-409 with every msg_*
     handler 411-1173, handle_request 1175-1236 with every req_* handler 1238-1814,
     abort_function_call 1816-1825, SerialMap::insert (serial_map.rs 18-28), FunctionCallMap
     (function_call_map.rs), Proxies::{create,remove,remove_service} as far as they own event
     senders (client/proxies.rs), the handle side `unbounded_send(..).map_err(|_| Error::Shutdown)`
     (handle.rs), Select::poll_select (client/select.rs, section Select below).

   Abstraction.  Everything a handle-side future can wait on is a *waiter*: a `oneshot::Sender`
   (request replies, pending channel ends, abort handles) or an `mpsc::UnboundedSender` held by the
   client (a service's call queue, a proxy's event queue, a bus listener's event queue, an
   established channel end).  Waiters are numbered in the order in which the client side creates
   them ([nextw]).  The client's maps are one association list of [entry]s keyed by (map, key);
   [queue] is the handle-request channel `recv`; [resolved] is a ghost log: a waiter is logged
   [Sent] when the client sends a value on a oneshot, [Dropped] when the sender is dropped without
   a value (the receiver then sees `Canceled`, i.e. `Error::Shutdown`, or the end of the stream).
   Payloads, uuids, filters and event sets are not modelled; where the Rust branches on them the
   input carries the outcome of that test as a boolean (named in the constructor comments).

   The transport is `Buffered<T>`: `send!` only queues (never a transport error); all transport
   errors reach `run` through `Selected::Transport(Err)`, `Selected::TransportFlushed(Err)` or
   the two inline `self.transport.flush().await` (phase [InlineFlush]). *)
From Coq Require Import NArith List Bool.
Import ListNotations.
Open Scope N_scope.

Notation waiter := N (only parsing).

(* ------------------------------------------------------------------ the client's maps *)
Inductive mapk :=
| MCreateObject | MDestroyObject | MCreateService | MDestroyService | MFunctionCalls | MServices
| MCreateChannel | MCloseChannelEnd | MClaimChannelEnd | MSenders | MReceivers | MSync
| MCreateBusListener | MDestroyBusListener | MStartBusListener | MStopBusListener | MBusListeners
| MAbortCallHandles | MQueryServiceInfo | MQueryServiceVersion | MSubscribeEvent | MSubscribeService
| MSubscribeAllEvents | MUnsubscribeAllEvents | MProxies | MQueryIntrospection.

Definition mapk_idx (m : mapk) : N :=
  match m with
  | MCreateObject => 0 | MDestroyObject => 1 | MCreateService => 2 | MDestroyService => 3
  | MFunctionCalls => 4 | MServices => 5 | MCreateChannel => 6 | MCloseChannelEnd => 7
  | MClaimChannelEnd => 8 | MSenders => 9 | MReceivers => 10 | MSync => 11
  | MCreateBusListener => 12 | MDestroyBusListener => 13 | MStartBusListener => 14
  | MStopBusListener => 15 | MBusListeners => 16 | MAbortCallHandles => 17
  | MQueryServiceInfo => 18 | MQueryServiceVersion => 19 | MSubscribeEvent => 20
  | MSubscribeService => 21 | MSubscribeAllEvents => 22 | MUnsubscribeAllEvents => 23
  | MProxies => 24 | MQueryIntrospection => 25
  end.
Definition mapk_eqb (a b : mapk) : bool := mapk_idx a =? mapk_idx b.

(* SenderState / ReceiverState / function_call_map::State; SPlain for maps without a state *)
Inductive estate := SPlain | SPending | SEstablished | SClosed | SAborted.

Record entry := mkE {
  ek : mapk;            (* which map *)
  ekey : N;             (* serial / cookie / proxy id *)
  ew : option waiter;   (* the sender stored in the entry, if any *)
  est : estate;
  eaux : N;             (* the cookie a request refers to (service, channel, bus listener) *)
  eend : bool;          (* true = sender end / CreateChannelData::Sender / ClaimChannelEndData::Sender *)
  eclaimed : bool       (* CloseChannelEndRequest::claimed *)
}.

Definition same (m : mapk) (k : N) (e : entry) : bool := mapk_eqb (ek e) m && (ekey e =? k).

(* HashMap::remove *)
Fixpoint take (m : mapk) (k : N) (l : list entry) : option entry * list entry :=
  match l with
  | [] => (None, [])
  | e :: r => if same m k e then (Some e, r)
              else let (x, r') := take m k r in (x, e :: r')
  end.
Definition ewo (x : option entry) : option waiter := match x with Some e => ew e | None => None end.
(* HashMap::get *)
Definition lookup (m : mapk) (k : N) (l : list entry) : option entry := find (same m k) l.

(* ------------------------------------------------------------------ requests and messages *)
(* HandleRequest (aldrin/src/handle/request.rs); booleans are outcomes of tests on unmodelled data:
   conv = `convert_value`/`serialize` succeeds, sub = BrokerSubscriptions::emit, fwd = Proxies
   answers SubscribeResult::Forward (otherwise Noop; InvalidProxy is decided by the model) *)
Inductive req :=
| QHandleCloned | QHandleDropped | QShutdown
| QCreateObject | QDestroyObject
| QCreateService (conv : bool) | QDestroyService (cookie : N)
| QCallFunction (conv : bool) | QCallFunctionReply (serial : N) (conv : bool)
| QEmitEvent (sub conv : bool)
| QCreateClaimedSender | QCreateClaimedReceiver
| QCloseChannelEnd (cookie : N) (sender_end claimed : bool)
| QClaimSender (cookie : N) | QClaimReceiver (cookie : N)
| QSendItem (conv : bool) | QAddChannelCapacity
| QSyncClient | QSyncBroker
| QCreateBusListener | QDestroyBusListener (cookie : N)
| QAddBusListenerFilter (cookie : N) | QRemoveBusListenerFilter (cookie : N)
| QClearBusListenerFilters (cookie : N)
| QStartBusListener (cookie : N) | QStopBusListener (cookie : N)
| QCreateLifetimeListener | QGetProtocolVersion
| QCreateProxy (service : N)
| QDestroyProxy (proxy : N) (nevents : nat) (all_events : bool)
| QSubscribeEvent (proxy : N) (fwd : bool) | QUnsubscribeEvent (proxy : N) (fwd : bool)
| QSubscribeAllEvents (proxy : N) (fwd : bool)
| QUnsubscribeAllEvents (proxy : N) (nevents : nat) (all_events : bool)
| QRegisterIntrospection | QSubmitIntrospection (nonempty conv : bool)
| QQueryIntrospection (local : bool).

(* does the request carry a `reply` oneshot sender (or, for CallFunction, the result sender)? *)
Definition has_reply (q : req) : bool :=
  match q with
  | QHandleCloned | QHandleDropped | QShutdown | QCallFunctionReply _ _ | QEmitEvent _ _
  | QSendItem _ | QAddChannelCapacity | QAddBusListenerFilter _ | QRemoveBusListenerFilter _
  | QClearBusListenerFilters _ | QDestroyProxy _ _ _ | QRegisterIntrospection
  | QSubmitIntrospection _ _ => false
  | _ => true
  end.

(* Message as far as handle_message looks at it.  res: 0 = Ok, 1 = an error result the handler
   forwards, 2 = a result the handler rejects / `unreachable!()`.  acc = the BusListenerHandle
   accepts the transition (start/stop/current_finished/emit_current return true). *)
Inductive msg :=
| MsgShutdown
| MsgCreateObjectReply (serial : N) (okr : bool)
| MsgDestroyObjectReply (serial : N)
| MsgCreateServiceReply (serial : N) (res : N) (cookie : N)
| MsgDestroyServiceReply (serial : N) (res : N)
| MsgCallFunction (serial : N) (service : N) (alive : bool)   (* CallFunction and CallFunction2; alive = unbounded_send(req).is_ok() *)
| MsgCallFunctionReply (serial : N)
| MsgSubscribeEvent | MsgUnsubscribeEvent
| MsgCreateChannelReply (serial : N) (cookie : N)
| MsgCloseChannelEndReply (serial : N)
| MsgChannelEndClosed (cookie : N) (sender_end : bool)
| MsgClaimChannelEndReply (serial : N) (res : N)             (* 0 SenderClaimed, 1 ReceiverClaimed, 2 InvalidChannel/AlreadyClaimed *)
| MsgChannelEndClaimed (cookie : N) (sender_end : bool)
| MsgItemReceived (cookie : N) | MsgAddChannelCapacity (cookie : N)
| MsgSyncReply (serial : N)
| MsgCreateBusListenerReply (serial : N) (cookie : N)
| MsgDestroyBusListenerReply (serial : N) (okr : bool)
| MsgStartBusListenerReply (serial : N) (okr acc : bool)
| MsgStopBusListenerReply (serial : N) (okr acc : bool)
| MsgEmitBusEvent (cookie : option N) (acc : bool)
| MsgBusListenerCurrentFinished (cookie : N) (acc : bool)
| MsgAbortFunctionCall (serial : N)
| MsgQueryIntrospection (conv : bool)
| MsgQueryIntrospectionReply (serial : N)
| MsgQueryServiceInfoReply (serial : N) (okr deser : bool) (proxy : N)   (* proxy = the ProxyId::new_v4() Proxies::create draws *)
| MsgQueryServiceVersionReply (serial : N) (okr : bool) (proxy : N)
| MsgSubscribeEventReply (serial : N)
| MsgEmitEvent
| MsgServiceDestroyed (service : N)
| MsgSubscribeServiceReply (serial : N) (invalid : bool)
| MsgSubscribeAllEvents (serial_none : bool)
| MsgSubscribeAllEventsReply (serial : N) (res : N)
| MsgUnsubscribeAllEvents (serial_none : bool)
| MsgUnsubscribeAllEventsReply (serial : N) (res : N)
| MsgClientToBroker.       (* any of the 27 kinds only a client sends: Connect .. UnsubscribeService *)

(* what the client pushes into `Buffered` *)
Inductive okind :=
| OShutdown | OCreateObject | ODestroyObject | OCreateService | OCreateService2 | ODestroyService
| OCallFunction | OCallFunction2 | OCallFunctionReply | OEmitEvent | OCreateChannel
| OCloseChannelEnd | OClaimChannelEnd | OSendItem | OAddChannelCapacity | OSync
| OCreateBusListener | ODestroyBusListener | OAddBusListenerFilter | ORemoveBusListenerFilter
| OClearBusListenerFilters | OStartBusListener | OStopBusListener | OQueryServiceInfo
| OQueryServiceVersion | OSubscribeEvent | OUnsubscribeEvent | OSubscribeAllEvents
| OUnsubscribeAllEvents | OSubscribeService | OUnsubscribeService | ORegisterIntrospection
| OQueryIntrospection | OQueryIntrospectionReply | OAbortFunctionCall.
Definition omsg := (okind * option N)%type.   (* kind, serial *)

(* ------------------------------------------------------------------ state *)
Inductive rerr :=
| ETransport (e : N)    (* RunError::Transport(e) *)
| EUnexpected           (* RunError::UnexpectedMessageReceived *)
| ESerialize            (* RunError::Serialize / RunError::Deserialize *)
| EPanic.               (* unreachable!() / expect("inconsistent state") / assert! — the future unwinds, the client is dropped *)

Inductive phase_t :=
| Running                      (* the loop of run() *)
| InlineFlush                  (* inside req_destroy_proxy / req_unsubscribe_all_events: `self.transport.flush().await` *)
| Draining (wait : bool)       (* drain_transport(wait_for_shutdown) *)
| Done (r : option rerr).      (* run() returned: None = Ok(()) ; the Client has been dropped *)

Inductive outcome := Sent | Dropped.

Record cstate := mkS {
  phase : phase_t;
  flush : bool;                         (* flush_transport *)
  nh : N;                               (* num_handles *)
  ver : N;                              (* minor protocol version (major 1) *)
  maps : list entry;
  queue : list (req * option waiter);   (* `recv`: requests sent by handles, not yet selected *)
  nextw : N;                            (* next waiter id *)
  nexts : mapk -> N;                    (* SerialMap::next per map *)
  resolved : list (waiter * outcome);   (* ghost: completed waiters, newest first *)
  outlog : list omsg                    (* ghost: messages pushed into Buffered, newest first *)
}.

Definition init (version : N) : cstate :=
  mkS Running false 1 version [] [] 0 (fun _ => 0) [] [].

Definition set_phase p s := mkS p (flush s) (nh s) (ver s) (maps s) (queue s) (nextw s) (nexts s) (resolved s) (outlog s).
Definition set_flush b s := mkS (phase s) b (nh s) (ver s) (maps s) (queue s) (nextw s) (nexts s) (resolved s) (outlog s).
Definition set_nh n s := mkS (phase s) (flush s) n (ver s) (maps s) (queue s) (nextw s) (nexts s) (resolved s) (outlog s).
Definition set_maps l s := mkS (phase s) (flush s) (nh s) (ver s) l (queue s) (nextw s) (nexts s) (resolved s) (outlog s).
Definition set_queue q s := mkS (phase s) (flush s) (nh s) (ver s) (maps s) q (nextw s) (nexts s) (resolved s) (outlog s).
Definition set_nextw n s := mkS (phase s) (flush s) (nh s) (ver s) (maps s) (queue s) n (nexts s) (resolved s) (outlog s).
Definition set_nexts f s := mkS (phase s) (flush s) (nh s) (ver s) (maps s) (queue s) (nextw s) f (resolved s) (outlog s).
Definition set_resolved r s := mkS (phase s) (flush s) (nh s) (ver s) (maps s) (queue s) (nextw s) (nexts s) r (outlog s).
Definition set_outlog o s := mkS (phase s) (flush s) (nh s) (ver s) (maps s) (queue s) (nextw s) (nexts s) (resolved s) o.

(* waiters held by the maps / by queued requests *)
Definition ows (o : option waiter) : list waiter := match o with Some w => [w] | None => [] end.
Definition mws (l : list entry) : list waiter := flat_map (fun e => ows (ew e)) l.
Definition qws (q : list (req * option waiter)) : list waiter := flat_map (fun x => ows (snd x)) q.
Definition pend (s : cstate) : list waiter := qws (queue s) ++ mws (maps s).

(* ------------------------------------------------------------------ primitive operations *)
(* `send!(self, msg)`: Buffered::send only queues; flush_transport = true *)
Definition send (k : okind) (serial : option N) (s : cstate) : cstate :=
  set_flush true (set_outlog ((k, serial) :: outlog s) s).
Fixpoint send_n (n : nat) (k : okind) (s : cstate) : cstate :=
  match n with O => s | S n' => send_n n' k (send k None s) end.

(* a sender is completed: `let _ = x.send(v)` (Sent) or it goes out of scope (Dropped) *)
Definition resolve (o : option waiter) (out : outcome) (s : cstate) : cstate :=
  match o with
  | Some w => set_resolved ((w, out) :: resolved s) s
  | None => s
  end.

Definition takem (m : mapk) (k : N) (s : cstate) : option entry * cstate :=
  let (x, l) := take m k (maps s) in (x, set_maps l s).

(* HashMap::insert: an entry already stored under the key is returned and dropped *)
Definition put (e : entry) (s : cstate) : cstate :=
  let (old, l) := take (ek e) (ekey e) (maps s) in
  resolve (ewo old) Dropped (set_maps (e :: l) s).

(* a sender the client creates itself (oneshot::channel() / mpsc::unbounded()) *)
Definition alloc (s : cstate) : waiter * cstate := (nextw s, set_nextw (nextw s + 1) s).

Definition wrap32 (n : N) : N := n mod 4294967296.
Definition occupied (m : mapk) (k : N) (l : list entry) : bool := existsb (same m k) l.
(* SerialMap::insert's loop; the fuel (entries + 1) always suffices, see alloc_serial_vacant *)
Fixpoint alloc_serial (fuel : nat) (m : mapk) (l : list entry) (n : N) : N * N :=
  match fuel with
  | O => (n, wrap32 (n + 1))
  | S f => if occupied m n l then alloc_serial f m l (wrap32 (n + 1)) else (n, wrap32 (n + 1))
  end.
Definition upd_next (m : mapk) (v : N) (f : mapk -> N) : mapk -> N :=
  fun m' => if mapk_eqb m' m then v else f m'.

(* self.<map>.insert(x) on a SerialMap *)
Definition ins_serial (m : mapk) (w : option waiter) (st : estate) (aux : N) (en cl : bool)
    (s : cstate) : N * cstate :=
  let (serial, nx) := alloc_serial (S (length (maps s))) m (maps s) (nexts s m) in
  (serial, put (mkE m serial w st aux en cl) (set_nexts (upd_next m nx (nexts s)) s)).

(* `self.handle.clone()` inside the client: Handle::clone sends HandleCloned to the own queue *)
Definition clone_handle (s : cstate) : cstate := set_queue (queue s ++ [(QHandleCloned, None)]) s.

(* drop every entry satisfying p (Proxies::remove_service) *)
Definition drop_where (p : entry -> bool) (s : cstate) : cstate :=
  set_resolved (map (fun w => (w, Dropped)) (mws (filter p (maps s))) ++ resolved s)
    (set_maps (filter (fun e => negb (p e)) (maps s)) s).
Definition is_proxy_of (service : N) (e : entry) : bool := mapk_eqb (ek e) MProxies && (eaux e =? service).

(* the Client is dropped: `recv` and every map with it *)
Definition finish (r : option rerr) (s : cstate) : cstate :=
  set_phase (Done r)
    (set_resolved (map (fun w => (w, Dropped)) (pend s) ++ resolved s)
      (set_maps [] (set_queue [] s))).

Definition hres := (cstate * option rerr)%type.
Definition ok (s : cstate) : hres := (s, None).
Definition fail (e : rerr) (s : cstate) : hres := (s, Some e).
(* send! of a message that carries a value: convert_value may fail *)
Definition send_conv (conv : bool) (k : okind) (serial : option N) (s : cstate) : hres :=
  if conv then ok (send k serial s) else fail ESerialize s.

Definition ge (a b : N) : bool := b <=? a.

(* ------------------------------------------------------------------ handle_request (1175-1814) *)
Definition req_simple (m : mapk) (k : okind) (ow : option waiter) (aux : N) (en cl : bool)
    (st : estate) (s : cstate) : hres :=
  let (serial, s1) := ins_serial m ow st aux en cl s in ok (send k (Some serial) s1).

Definition handle_request_body (q : req) (ow : option waiter) (s : cstate) : hres :=
  match q with
  | QHandleCloned => ok (set_nh (nh s + 1) s)
  | QHandleDropped => ok (set_nh (nh s - 1) s)
  | QShutdown => fail EPanic s                                   (* unreachable!(): handled in run *)
  | QCreateObject => req_simple MCreateObject OCreateObject ow 0 false false SPlain s
  | QDestroyObject => req_simple MDestroyObject ODestroyObject ow 0 false false SPlain s
  | QCreateService conv =>
      let (serial, s1) := ins_serial MCreateService ow SPlain 0 false false s in
      if ge (ver s) 17
      then (if conv then ok (send OCreateService2 (Some serial) s1) else fail ESerialize s1)
      else ok (send OCreateService (Some serial) s1)
  | QDestroyService c => req_simple MDestroyService ODestroyService ow c false false SPlain s
  | QCallFunction conv =>
      let (serial, s1) := ins_serial MFunctionCalls ow SPending 0 false false s in
      send_conv conv (if ge (ver s) 19 then OCallFunction2 else OCallFunction) (Some serial) s1
  | QCallFunctionReply serial conv =>
      let (x, s1) := takem MAbortCallHandles serial s in
      let s2 := resolve (ewo x) Dropped s1 in
      send_conv conv OCallFunctionReply (Some serial) s2
  | QEmitEvent sub conv => if sub then send_conv conv OEmitEvent None s else ok s
  | QCreateClaimedSender => req_simple MCreateChannel OCreateChannel ow 0 true false SPlain s
  | QCreateClaimedReceiver => req_simple MCreateChannel OCreateChannel ow 0 false false SPlain s
  | QCloseChannelEnd c en cl => req_simple MCloseChannelEnd OCloseChannelEnd ow c en cl SPlain s
  | QClaimSender c => req_simple MClaimChannelEnd OClaimChannelEnd ow c true false SPlain s
  | QClaimReceiver c => req_simple MClaimChannelEnd OClaimChannelEnd ow c false false SPlain s
  | QSendItem conv => send_conv conv OSendItem None s
  | QAddChannelCapacity => ok (send OAddChannelCapacity None s)
  | QSyncClient => ok (resolve ow Sent s)
  | QSyncBroker => req_simple MSync OSync ow 0 false false SPlain s
  | QCreateBusListener => req_simple MCreateBusListener OCreateBusListener ow 0 true false SPlain s
  | QCreateLifetimeListener => req_simple MCreateBusListener OCreateBusListener ow 0 false false SPlain s
  | QDestroyBusListener c => req_simple MDestroyBusListener ODestroyBusListener ow c false false SPlain s
  | QAddBusListenerFilter c =>
      match lookup MBusListeners c (maps s) with Some _ => ok (send OAddBusListenerFilter None s) | None => ok s end
  | QRemoveBusListenerFilter c =>
      match lookup MBusListeners c (maps s) with Some _ => ok (send ORemoveBusListenerFilter None s) | None => ok s end
  | QClearBusListenerFilters c =>
      match lookup MBusListeners c (maps s) with Some _ => ok (send OClearBusListenerFilters None s) | None => ok s end
  | QStartBusListener c => req_simple MStartBusListener OStartBusListener ow c false false SPlain s
  | QStopBusListener c => req_simple MStopBusListener OStopBusListener ow c false false SPlain s
  | QGetProtocolVersion => ok (resolve ow Sent s)
  | QCreateProxy svc =>
      if ge (ver s) 17
      then req_simple MQueryServiceInfo OQueryServiceInfo ow svc false false SPlain s
      else req_simple MQueryServiceVersion OQueryServiceVersion ow svc false false SPlain s
  | QDestroyProxy p nev allev =>
      let (x, s1) := takem MProxies p s in
      match x with
      | None => ok s1
      | Some e =>
          let s2 := resolve (ew e) Dropped s1 in          (* ProxyEntry::remove(self): the event sender is dropped *)
          let unsubscribe := negb (existsb (is_proxy_of (eaux e)) (maps s2)) in
          let s3 := if unsubscribe && ge (ver s) 18 then send OUnsubscribeService None s2 else s2 in
          let s4 := send_n nev OUnsubscribeEvent s3 in
          let s5 := if allev then send OUnsubscribeAllEvents None s4 else s4 in
          ok (set_phase InlineFlush s5)                    (* self.transport.flush().await *)
      end
  | QSubscribeEvent p fwd =>
      match lookup MProxies p (maps s) with
      | None => ok (resolve ow Sent s)                     (* InvalidProxy: Err(InvalidService) is a value *)
      | Some _ => if fwd then req_simple MSubscribeEvent OSubscribeEvent ow 0 false false SPlain s
                  else ok (resolve ow Sent s)
      end
  | QUnsubscribeEvent p fwd =>
      match lookup MProxies p (maps s) with
      | None => ok (resolve ow Sent s)
      | Some _ => if fwd then ok (resolve ow Sent (send OUnsubscribeEvent None s)) else ok (resolve ow Sent s)
      end
  | QSubscribeAllEvents p fwd =>
      if ge (ver s) 18 then
        match lookup MProxies p (maps s) with
        | None => ok (resolve ow Sent s)
        | Some _ => if fwd then req_simple MSubscribeAllEvents OSubscribeAllEvents ow 0 false false SPlain s
                    else ok (resolve ow Sent s)
        end
      else ok (resolve ow Sent s)                          (* Err(NotSupported) *)
  | QUnsubscribeAllEvents p nev allev =>
      match lookup MProxies p (maps s) with
      | None => ok (resolve ow Sent s)
      | Some _ =>
          let s1 := send_n nev OUnsubscribeEvent s in
          let s2 := if allev
                    then (let (serial, s') := ins_serial MUnsubscribeAllEvents ow SPlain 0 false false s1 in
                          send OUnsubscribeAllEvents (Some serial) s')
                    else resolve ow Sent s1 in
          ok (set_phase InlineFlush s2)
      end
  | QRegisterIntrospection => ok s
  | QSubmitIntrospection nonempty conv =>
      if ge (ver s) 17 && nonempty then send_conv conv ORegisterIntrospection None s else ok s
  | QQueryIntrospection local =>
      if local then ok (resolve ow Sent s)
      else if ge (ver s) 17 then req_simple MQueryIntrospection OQueryIntrospection ow 0 false false SPlain s
      else ok (resolve ow Sent s)
  end.

(* a request without reply sender is simply consumed *)
Definition handle_request (q : req) (ow : option waiter) (s : cstate) : hres :=
  if has_reply q then handle_request_body q ow s
  else handle_request_body q None (resolve ow Dropped s).

(* FunctionCallMap::abort overwrites Pending(sender) with Aborted (the sender is dropped) *)
Definition mark_aborted (serial : N) (s : cstate) : cstate :=
  match lookup MFunctionCalls serial (maps s) with
  | Some _ =>
      let (x, s') := takem MFunctionCalls serial s in
      let w := ewo x in
      resolve w Dropped (set_maps (mkE MFunctionCalls serial None SAborted 0 false false :: maps s') s')
  | None => s
  end.

(* abort_function_call (1816-1825) *)
Definition abort_function_call (serial : N) (s : cstate) : hres :=
  let s1 := mark_aborted serial s in
  if ge (ver s) 16 then ok (send OAbortFunctionCall (Some serial) s1) else ok s1.

(* ------------------------------------------------------------------ handle_message (326-1173) *)
(* `let Some(req) = self.<map>.remove(serial) else { return Err(Unexpected) }; ... reply.send(..)` *)
Definition reply_or_unexpected (m : mapk) (serial : N) (s : cstate) : hres :=
  let (x, s1) := takem m serial s in
  match x with Some e => ok (resolve (ew e) Sent s1) | None => fail EUnexpected s1 end.

(* finish_create_proxy (1035-1063); e is the CreateProxyRequest taken from its map *)
Definition finish_create_proxy (e : entry) (info_ok : bool) (proxy : N) (s : cstate) : hres :=
  if negb info_ok then ok (resolve (ew e) Sent s)
  else
    let subscribe_service := negb (existsb (is_proxy_of (eaux e)) (maps s)) in
    let (w, s1) := alloc s in                                         (* mpsc::unbounded() in Proxies::create *)
    let s2 := put (mkE MProxies proxy (Some w) SPlain (eaux e) false false) s1 in
    let s3 := resolve (ew e) Sent (clone_handle s2) in
    if subscribe_service && ge (ver s) 18
    then (let (serial, s4) := ins_serial MSubscribeService None SPlain (eaux e) false false s3 in
          ok (send OSubscribeService (Some serial) s4))
    else ok s3.

(* the end of a channel held in `senders` (en = true) or `receivers` *)
Definition end_map (sender_map : bool) : mapk := if sender_map then MSenders else MReceivers.

Definition handle_message (m : msg) (s : cstate) : hres :=
  match m with
  | MsgShutdown => fail EPanic s                                   (* unreachable!(): handled in run *)
  | MsgCreateObjectReply serial okr =>
      let (x, s1) := takem MCreateObject serial s in
      match x with
      | None => fail EUnexpected s1
      | Some e => ok (resolve (ew e) Sent (if okr then clone_handle s1 else s1))
      end
  | MsgDestroyObjectReply serial =>
      let (x, s1) := takem MDestroyObject serial s in
      match x with Some e => ok (resolve (ew e) Sent s1) | None => ok s1 end
  | MsgCreateServiceReply serial res cookie =>
      let (x, s1) := takem MCreateService serial s in
      match x with
      | None => fail EUnexpected s1
      | Some e =>
          if res =? 0 then
            let (w, s2) := alloc s1 in                              (* mpsc::unbounded(): the call queue *)
            let s3 := put (mkE MServices cookie (Some w) SPlain 0 false false) s2 in
            ok (resolve (ew e) Sent (clone_handle s3))
          else if res =? 1 then ok (resolve (ew e) Sent s1)
          else fail EPanic (resolve (ew e) Dropped s1)              (* ForeignObject => unreachable!() *)
      end
  | MsgDestroyServiceReply serial res =>
      let (x, s1) := takem MDestroyService serial s in
      match x with
      | None => ok s1
      | Some e =>
          if res =? 0 then
            let (y, s2) := takem MServices (eaux e) s1 in
            let s3 := resolve (ewo y) Dropped s2 in
            ok (resolve (ew e) Sent s3)
          else if res =? 1 then ok (resolve (ew e) Sent s1)
          else fail EPanic (resolve (ew e) Dropped s1)
      end
  | MsgCallFunction serial service alive =>
      match lookup MServices service (maps s) with
      | None => fail EPanic s                                       (* expect("inconsistent state") *)
      | Some _ =>
          let (w, s1) := alloc s in                                 (* oneshot::channel(): abort_send *)
          if alive then
            match lookup MAbortCallHandles serial (maps s1) with
            | Some _ => fail EPanic (resolve (Some w) Dropped s1)   (* assert!(dup.is_none()) *)
            | None => ok (put (mkE MAbortCallHandles serial (Some w) SPlain 0 false false) s1)
            end
          else ok (send OCallFunctionReply (Some serial) (resolve (Some w) Dropped s1))
      end
  | MsgCallFunctionReply serial =>
      let (x, s1) := takem MFunctionCalls serial s in
      match x with Some e => ok (resolve (ew e) Sent s1) | None => ok s1 end
  | MsgSubscribeEvent | MsgUnsubscribeEvent => ok s
  | MsgCreateChannelReply serial cookie =>
      let (x, s1) := takem MCreateChannel serial s in
      match x with
      | None => fail EUnexpected s1
      | Some e =>
          let (w, s2) := alloc s1 in                                (* oneshot::channel() of the pending end *)
          let s3 := put (mkE (end_map (eend e)) cookie (Some w) SPending 0 false false) s2 in
          ok (resolve (ew e) Sent (clone_handle (clone_handle s3)))
      end
  | MsgCloseChannelEndReply serial =>
      let (x, s1) := takem MCloseChannelEnd serial s in
      match x with
      | None => fail EUnexpected s1
      | Some e =>
          let s2 := if eclaimed e
                    then (let (y, s') := takem (end_map (eend e)) (eaux e) s1 in
                          resolve (ewo y) Dropped s')
                    else s1 in
          ok (resolve (ew e) Sent s2)
      end
  | MsgChannelEndClosed cookie sender_end =>
      (* the other end closed: look into the opposite map, mem::replace(.., Closed) *)
      let mp := end_map (negb sender_end) in
      let (x, s1) := takem mp cookie s in
      match x with
      | None => fail EUnexpected s1
      | Some e =>
          let s2 := set_maps (mkE mp cookie None SClosed 0 false false :: maps s1) s1 in
          match est e with
          | SPending => ok (resolve (ew e) Sent s2)                 (* send(Err(InvalidChannel)) *)
          | SEstablished => ok (resolve (ew e) Dropped s2)
          | _ => fail EUnexpected (resolve (ew e) Dropped s2)
          end
      end
  | MsgClaimChannelEndReply serial res =>
      let (x, s1) := takem MClaimChannelEnd serial s in
      match x with
      | None => fail EUnexpected s1
      | Some e =>
          let mine := if eend e then 0 else 1 in
          if res =? 2 then ok (resolve (ew e) Sent s1)
          else if res =? mine then
            let (w, s2) := alloc s1 in                              (* mpsc::unbounded() *)
            let s3 := put (mkE (end_map (eend e)) (eaux e) (Some w) SEstablished 0 false false) s2 in
            ok (resolve (ew e) Sent s3)
          else fail EUnexpected (resolve (ew e) Dropped s1)
      end
  | MsgChannelEndClaimed cookie sender_end =>
      let mp := end_map (negb sender_end) in
      let (x, s1) := takem mp cookie s in
      match x with
      | None => fail EUnexpected s1
      | Some e =>
          let (w, s2) := alloc s1 in                                (* mpsc::unbounded() *)
          let s3 := set_maps (mkE mp cookie (Some w) SEstablished 0 false false :: maps s2) s2 in
          match est e with
          | SPending => ok (resolve (ew e) Sent s3)
          | _ => fail EUnexpected (resolve (ew e) Dropped s3)
          end
      end
  | MsgItemReceived cookie =>
      match lookup MReceivers cookie (maps s) with
      | Some e => match est e with SEstablished => ok s | _ => fail EUnexpected s end
      | None => fail EUnexpected s
      end
  | MsgAddChannelCapacity cookie =>
      match lookup MSenders cookie (maps s) with
      | Some e => match est e with SEstablished => ok s | _ => fail EUnexpected s end
      | None => fail EUnexpected s
      end
  | MsgSyncReply serial => reply_or_unexpected MSync serial s
  | MsgCreateBusListenerReply serial cookie =>
      let (x, s1) := takem MCreateBusListener serial s in
      match x with
      | None => fail EUnexpected s1
      | Some e =>
          let (w, s2) := alloc s1 in                                (* mpsc::unbounded(): the event queue *)
          let s3 := resolve (ew e) Sent (clone_handle s2) in
          match lookup MBusListeners cookie (maps s3) with
          | Some _ => fail EPanic (resolve (Some w) Dropped s3)     (* assert!(dup.is_none()) *)
          | None => ok (put (mkE MBusListeners cookie (Some w) SPlain 0 false false) s3)
          end
      end
  | MsgDestroyBusListenerReply serial okr =>
      let (x, s1) := takem MDestroyBusListener serial s in
      match x with
      | None => fail EUnexpected s1
      | Some e =>
          let s2 := if okr
                    then (let (y, s') := takem MBusListeners (eaux e) s1 in
                          resolve (ewo y) Dropped s')
                    else s1 in
          ok (resolve (ew e) Sent s2)
      end
  | MsgStartBusListenerReply serial okr acc =>
      let (x, s1) := takem MStartBusListener serial s in
      match x with
      | None => fail EUnexpected s1
      | Some e =>
          if okr then
            match lookup MBusListeners (eaux e) (maps s1) with
            | None => fail EUnexpected (resolve (ew e) Dropped s1)
            | Some _ => if acc then ok (resolve (ew e) Sent s1) else fail EUnexpected (resolve (ew e) Dropped s1)
            end
          else ok (resolve (ew e) Sent s1)
      end
  | MsgStopBusListenerReply serial okr acc =>
      let (x, s1) := takem MStopBusListener serial s in
      match x with
      | None => fail EUnexpected s1
      | Some e =>
          if okr then
            match lookup MBusListeners (eaux e) (maps s1) with
            | None => fail EUnexpected (resolve (ew e) Dropped s1)
            | Some _ => if acc then ok (resolve (ew e) Sent s1) else fail EUnexpected (resolve (ew e) Dropped s1)
            end
          else ok (resolve (ew e) Sent s1)
      end
  | MsgEmitBusEvent cookie acc =>
      match cookie with
      | Some c => match lookup MBusListeners c (maps s) with
                  | None => fail EUnexpected s
                  | Some _ => if acc then ok s else fail EUnexpected s
                  end
      | None => ok s
      end
  | MsgBusListenerCurrentFinished c acc =>
      match lookup MBusListeners c (maps s) with
      | None => fail EUnexpected s
      | Some _ => if acc then ok s else fail EUnexpected s
      end
  | MsgAbortFunctionCall serial =>
      if ge (ver s) 16 then
        let (x, s1) := takem MAbortCallHandles serial s in
        ok (resolve (ewo x) Dropped s1)
      else fail EUnexpected s
  | MsgQueryIntrospection conv =>
      if ge (ver s) 17 then send_conv conv OQueryIntrospectionReply None s else fail EUnexpected s
  | MsgQueryIntrospectionReply serial =>
      if ge (ver s) 17 then reply_or_unexpected MQueryIntrospection serial s else fail EUnexpected s
  | MsgQueryServiceInfoReply serial okr deser proxy =>
      let (x, s1) := takem MQueryServiceInfo serial s in
      match x with
      | None => fail EUnexpected s1
      | Some e =>
          if okr && negb deser then fail ESerialize (resolve (ew e) Dropped s1)   (* info.deserialize()? *)
          else finish_create_proxy e okr proxy s1
      end
  | MsgQueryServiceVersionReply serial okr proxy =>
      let (x, s1) := takem MQueryServiceVersion serial s in
      match x with
      | None => fail EUnexpected s1
      | Some e => finish_create_proxy e okr proxy s1
      end
  | MsgSubscribeEventReply serial => reply_or_unexpected MSubscribeEvent serial s
  | MsgEmitEvent => ok s
  | MsgServiceDestroyed service => ok (drop_where (is_proxy_of service) s)
  | MsgSubscribeServiceReply serial invalid =>
      let (x, s1) := takem MSubscribeService serial s in
      match x with
      | None => fail EUnexpected s1
      | Some e =>
          let s2 := resolve (ew e) Dropped s1 in
          ok (if invalid then drop_where (is_proxy_of (eaux e)) s2 else s2)
      end
  | MsgSubscribeAllEvents serial_none | MsgUnsubscribeAllEvents serial_none =>
      if ge (ver s) 18 && serial_none then ok s else fail EUnexpected s
  | MsgSubscribeAllEventsReply serial res =>
      let (x, s1) := takem MSubscribeAllEvents serial s in
      match x with
      | None => fail EUnexpected s1
      | Some e => if res =? 2 then fail EUnexpected (resolve (ew e) Dropped s1) else ok (resolve (ew e) Sent s1)
      end
  | MsgUnsubscribeAllEventsReply serial res =>
      let (x, s1) := takem MUnsubscribeAllEvents serial s in
      match x with
      | None => fail EUnexpected s1
      | Some e => if res =? 2 then fail EUnexpected (resolve (ew e) Dropped s1) else ok (resolve (ew e) Sent s1)
      end
  | MsgClientToBroker => fail EUnexpected s
  end.

(* ------------------------------------------------------------------ run / drain_transport *)
Inductive tres := TMsg (m : msg) | TErr (e : N).

(* what `self.select().await` returned (client/select.rs `Selected`), or a handle-side send *)
Inductive input :=
| IEnqueue (q : req)              (* some Handle method: self.send.unbounded_send(request) *)
| ISelTransport (r : tres)        (* Selected::Transport(Ok(msg)) / Selected::Transport(Err(e)) *)
| ISelHandle                      (* Selected::Handle(the head of the queue) *)
| ISelAbort (serial : N)          (* Selected::AbortFunctionCall(serial) *)
| ISelFlushed (r : option N).     (* Selected::TransportFlushed(Ok(())) = None / (Err(e)) = Some e;
                                     in phase InlineFlush: the result of self.transport.flush().await *)

(* Handle side: unbounded_send; when the receiver is gone the request (and its reply sender) is
   returned in the error and dropped, the method returns Err(Error::Shutdown) *)
Definition enqueue (q : req) (s : cstate) : cstate :=
  if has_reply q
  then set_queue (queue s ++ [(q, Some (nextw s))]) (set_nextw (nextw s + 1) s)
  else set_queue (queue s ++ [(q, None)]) s.
Definition reject (q : req) (s : cstate) : cstate :=
  if has_reply q
  then resolve (Some (nextw s)) Dropped (set_nextw (nextw s + 1) s)
  else s.

(* `while wait_for_shutdown || self.flush_transport` (308) *)
Definition drain_head (s : cstate) : cstate :=
  match phase s with
  | Draining w => if w || flush s then s else finish None s
  | _ => s
  end.

(* lines 288-290: send!(self, Shutdown)?; self.drain_transport(wait).await?; Ok(()) *)
Definition begin_shutdown (wait : bool) (s : cstate) : cstate :=
  drain_head (set_phase (Draining wait) (send OShutdown None s)).

(* the end of one iteration of the loop in run: `?`, then `if self.num_handles == 1 { break true }` *)
Definition after_iter (r : hres) : cstate :=
  match r with
  | (s, Some e) => finish (Some e) s
  | (s, None) =>
      match phase s with
      | Running => if nh s =? 1 then begin_shutdown true s else s
      | _ => s                       (* InlineFlush: still inside the request handler *)
      end
  end.

Definition step (s : cstate) (i : input) : cstate :=
  match i with
  | IEnqueue q => match phase s with Done _ => reject q s | _ => enqueue q s end
  | _ =>
    match phase s with
    | Done _ => s
    | InlineFlush =>
        match i with
        | ISelFlushed None => after_iter (ok (set_phase Running s))
        | ISelFlushed (Some e) => finish (Some (ETransport e)) s
        | _ => s                     (* only the flush is being awaited *)
        end
    | Running =>
        match i with
        | ISelTransport (TMsg MsgShutdown) => begin_shutdown false s                 (* 267 *)
        | ISelTransport (TMsg m) => after_iter (handle_message m s)                 (* 268 *)
        | ISelTransport (TErr e) => finish (Some (ETransport e)) s                  (* 278 *)
        | ISelHandle =>
            match queue s with
            | [] => s
            | (QShutdown, ow) :: r => begin_shutdown true (resolve ow Dropped (set_queue r s))   (* 269 *)
            | (q, ow) :: r => after_iter (handle_request q ow (set_queue r s))      (* 271 *)
            end
        | ISelAbort serial => after_iter (abort_function_call serial s)             (* 275 *)
        | ISelFlushed None => after_iter (ok (set_flush false s))                   (* 276 *)
        | ISelFlushed (Some e) => finish (Some (ETransport e)) s                    (* 278 *)
        | IEnqueue _ => s
        end
    | Draining w =>
        match i with
        | ISelTransport (TMsg MsgShutdown) => drain_head (set_phase (Draining false) s)   (* 310 *)
        | ISelFlushed None => drain_head (set_flush false s)                        (* 311 *)
        | ISelTransport (TErr e) | ISelFlushed (Some e) => finish (Some (ETransport e)) s   (* 313 *)
        | ISelTransport (TMsg _) => s                                               (* 317 *)
        | ISelHandle =>                                                             (* 318: the request is dropped *)
            match queue s with
            | [] => s
            | (_, ow) :: r => resolve ow Dropped (set_queue r s)
            end
        | ISelAbort serial => mark_aborted serial s                                 (* 317: marked, nothing sent *)
        | IEnqueue _ => s
        end
    end
  end.

Definition run (s : cstate) (ins : list input) : cstate := fold_left step ins s.

(* which inputs the code can produce in a state (used as hypothesis of theorems) *)
Definition enabled (s : cstate) (i : input) : bool :=
  match i, phase s with
  | IEnqueue _, _ => true
  | _, Done _ => false
  | ISelFlushed _, InlineFlush => true
  | _, InlineFlush => false
  | ISelHandle, _ => match queue s with [] => false | _ => true end
  | ISelFlushed _, _ => flush s
  | _, _ => true
  end.

(* a transport fault as the client can observe it in state s *)
Definition fault_of (i : input) : option N :=
  match i with
  | ISelTransport (TErr e) => Some e
  | ISelFlushed (Some e) => Some e
  | _ => None
  end.

(* ------------------------------------------------------------------ Select (client/select.rs) *)
Inductive src := SrcTransport | SrcHandle | SrcAbort | SrcFlushed.
Definition src_next (p : src) : src :=
  match p with SrcTransport => SrcHandle | SrcHandle => SrcAbort | SrcAbort => SrcFlushed | SrcFlushed => SrcTransport end.
(* poll_select: up to four probes starting at the stored position; `self.next()` advances the
   position at every probe.  `ready x` = polling source x returns Poll::Ready (for SrcFlushed:
   flush_transport && the flush is ready).  Result: the selected source (None = Poll::Pending) and
   the new position. *)
Fixpoint poll_select (n : nat) (p : src) (ready : src -> bool) : option src * src :=
  match n with
  | O => (None, p)
  | S n' => if ready p then (Some p, src_next p) else poll_select n' (src_next p) ready
  end.
Definition select_once (p : src) (ready : src -> bool) := poll_select 4 p ready.
