(* Extraction of the introspection model for the C20 correspondence check (ExtrOcamlBasic only;
   numbers stay Coq's positive/N/Z; no Extract Constant).  The hash H is a parameter of the
   extracted functions: the driver passes UUIDv5 (SHA-1) implemented in OCaml. *)
From Aldrin Require Import Intro.Ir Intro.Canon Intro.TypeId.
Require Extraction ExtrOcamlBasic.
Extraction Language OCaml.
Extraction "intro_model.ml" t_canon t_lexid t_lay t_compute_bytes t_type_id t_intro
  intro_value encode_intro decode_intro layout_ns layout_value canon_layout
  build_struct build_enum build_service mkNode
  N.of_nat N.to_nat Z.of_N Z.to_N lenN.
