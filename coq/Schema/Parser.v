(* Schema/Parser.v — the token-level reference parser [parse_toks], following grammar.pest rule by
   rule with PEG semantics (ordered choice, greedy repetition, an optional that has matched is
   never undone), and building the AST the way parser/src/ast/*.rs and schema.rs do.
   [n] is fuel for the repetitions and for the nesting of type names; [parse_toks] supplies the
   length of the token list, which is always enough. *)
From Coq Require Import String List Bool Arith.
From Aldrin Require Import Schema.Ast Schema.Token Schema.GrammarTie.
Import ListNotations.
Open Scope string_scope.

Definition parser (A : Type) := list token -> option (A * list token).

Definition ret {A} (x : A) : parser A := fun ts => Some (x, ts).
Definition fail {A} : parser A := fun _ => None.
Definition bind {A B} (p : parser A) (f : A -> parser B) : parser B :=
  fun ts => match p ts with Some (x, r) => f x r | None => None end.

Notation "x <- p ;; q" := (bind p (fun x => q)) (at level 61, p at next level, right associativity).
Notation "p ;;; q" := (bind p (fun _ => q)) (at level 61, right associativity).

(* PEG ordered choice *)
Definition alt {A} (p q : parser A) : parser A :=
  fun ts => match p ts with Some r => Some r | None => q ts end.

(* PEG optional: once it has matched it stays matched *)
Definition opt {A} (p : parser A) : parser (option A) :=
  fun ts => match p ts with Some (x, r) => Some (Some x, r) | None => Some (None, ts) end.

(* PEG greedy repetition *)
Fixpoint many {A} (n : nat) (p : parser A) : parser (list A) :=
  fun ts =>
    match n with
    | O => Some ([], ts)
    | S m =>
        match p ts with
        | Some (x, r) => match many m p r with Some (xs, r') => Some (x :: xs, r') | None => None end
        | None => Some ([], ts)
        end
    end.

(* ---------------------------------------------------------------- single tokens *)

Definition tokp (p : punct) : parser unit :=
  fun ts => match ts with TP q :: r => if punct_eqb p q then Some (tt, r) else None | _ => None end.

(* rule ident: any word *)
Definition ident : parser string :=
  fun ts => match ts with TWord w _ :: r => Some (w, r) | _ => None end.

(* kw_x = @{ "x" ~ &ws } *)
Definition kw_ws (k : string) : parser unit :=
  fun ts => match ts with TWord w true :: r => if String.eqb w k then Some (tt, r) else None | _ => None end.

(* kw_x = @{ "x" } in a position where a longer word cannot lead to a successful parse either
   (the next grammar element is punctuation): whole-word comparison *)
Definition kw (k : string) : parser unit :=
  fun ts => match ts with TWord w _ :: r => if String.eqb w k then Some (tt, r) else None | _ => None end.

Definition lit_int : parser string :=
  fun ts => match ts with TInt s :: r => Some (s, r) | _ => None end.
Definition lit_string : parser string :=
  fun ts => match ts with TStr s :: r => Some (s, r) | _ => None end.
Definition lit_uuid : parser string :=
  fun ts => match ts with TUuid s :: r => Some (s, r) | _ => None end.
Definition comment : parser string :=
  fun ts => match ts with TComment s :: r => Some (s, r) | _ => None end.
Definition doc_string : parser string :=
  fun ts => match ts with TDoc s :: r => Some (s, r) | _ => None end.
Definition doc_string_inline : parser string :=
  fun ts => match ts with TDocIn s :: r => Some (s, r) | _ => None end.

(* ---------------------------------------------------------------- type names *)

(* named_ref = { external_ref | ident },  external_ref = { ident ~ tok_scope ~ ident } *)
Definition named_ref : parser nref :=
  alt (s <- ident ;; tokp PScope ;;; n <- ident ;; ret (Extern s n))
      (n <- ident ;; ret (Intern n)).

(* array_len = { lit_int | named_ref } *)
Definition array_len : parser alen :=
  alt (s <- lit_int ;; ret (LLit s)) (r <- named_ref ;; ret (LRef r)).

Definition find_prim (w : string) : option prim :=
  find (fun p => String.eqb (prim_str p) w) all_prims.
Definition find_gen1 (w : string) : option gen1 :=
  find (fun g => String.eqb (gen1_str g) w) all_gen1.

(* a bare type keyword is a prefix of the word *)
Definition bare_prefixed (w : string) : bool :=
  existsb (fun k => String.prefix k w) bare_type_keywords.

(* type_name: the alternatives in grammar order.  A word that starts with a bare type keyword
   is consumed up to the end of that keyword by the keyword rule (kw_u8 = @{ "u8" } has no
   lookahead): if the word IS the keyword this is the type; otherwise the rest of the word is
   left over and nothing can follow it, so no parse through this type name succeeds. *)
Fixpoint type_name (n : nat) : parser ty :=
  fun ts =>
    match n with
    | O => None
    | S m =>
        match ts with
        | TWord w _ :: r =>
            if bare_prefixed w then
              match find_prim w with Some p => Some (TPrim p, r) | None => None end
            else
              alt
                (match find_gen1 w with
                 | Some g =>
                     (kw w ;;; tokp PAngO ;;; a <- type_name m ;; tokp PAngC ;;; ret (TGen g a))
                 | None =>
                     if String.eqb w "map" then
                       (kw w ;;; tokp PAngO ;;; k <- type_name m ;; tokp PArrow ;;;
                        v <- type_name m ;; tokp PAngC ;;; ret (TMap k v))
                     else if String.eqb w "result" then
                       (kw w ;;; tokp PAngO ;;; a <- type_name m ;; tokp PComma ;;;
                        b <- type_name m ;; tokp PAngC ;;; ret (TResult a b))
                     else fail
                 end)
                (r <- named_ref ;; ret (TRef r)) ts
        | TP PSquO :: _ =>
            (tokp PSquO ;;; a <- type_name m ;; tokp PTerm ;;; l <- array_len ;; tokp PSquC ;;;
             ret (TArray a l)) ts
        | _ => None
        end
    end.

(* ---------------------------------------------------------------- preludes *)

Inductive pitem := PiC (s : string) | PiD (s : string) | PiA (a : attr).

(* attribute / attribute_inline *)
Definition attribute (n : nat) (inline : bool) : parser attr :=
  tokp PHash ;;; (if inline then tokp PExcl else ret tt) ;;; tokp PSquO ;;; name <- ident ;;
  opts <- opt (tokp PParO ;;; o1 <- ident ;; os <- many n (tokp PComma ;;; ident) ;;
               opt (tokp PComma) ;;; tokp PParC ;;; ret (o1 :: os)) ;;
  tokp PSquC ;;;
  ret {| a_name := name; a_opts := match opts with Some l => l | None => [] end |}.

Definition pitem_p (n : nat) (c d a inline : bool) : parser pitem :=
  alt (if c then (s <- comment ;; ret (PiC s)) else fail)
  (alt (if d then (s <- (if inline then doc_string_inline else doc_string) ;; ret (PiD s)) else fail)
       (if a then (x <- attribute n inline ;; ret (PiA x)) else fail)).

Definition pi_comments (l : list pitem) : list string :=
  flat_map (fun i => match i with PiC s => [s] | _ => [] end) l.
Definition pi_docs (l : list pitem) : list string :=
  flat_map (fun i => match i with PiD s => [s] | _ => [] end) l.
Definition pi_attrs (l : list pitem) : list attr :=
  flat_map (fun i => match i with PiA s => [s] | _ => [] end) l.

(* (comment | doc_string | attribute)* etc., collected like ast/prelude.rs *)
Definition prelude (n : nat) (c d a inline : bool) : parser (list string * list string * list attr) :=
  l <- many n (pitem_p n c d a inline) ;; ret (pi_comments l, pi_docs l, pi_attrs l).

Definition comments (n : nat) : parser (list string) := many n comment.

(* ---------------------------------------------------------------- struct / enum members *)

(* struct_field *)
Definition struct_field (n : nat) : parser field :=
  p <- prelude n true true false false ;;
  req <- opt (kw_ws "required") ;;
  name <- ident ;; tokp PAt ;;; id <- lit_int ;; tokp PEq ;;; t <- type_name n ;; tokp PTerm ;;;
  ret {| f_comment := fst (fst p); f_doc := snd (fst p);
         f_req := match req with Some _ => true | None => false end;
         f_name := name; f_id := id; f_ty := t |}.

(* struct_fallback / enum_fallback *)
Definition member_fallback (n : nat) : parser fallback :=
  p <- prelude n true true false false ;;
  name <- ident ;; tokp PEq ;;; kw "fallback" ;;; tokp PTerm ;;;
  ret {| fb_comment := fst (fst p); fb_doc := snd (fst p); fb_name := name |}.

(* enum_variant *)
Definition enum_variant (n : nat) : parser variant :=
  p <- prelude n true true false false ;;
  name <- ident ;; tokp PAt ;;; id <- lit_int ;;
  t <- opt (tokp PEq ;;; type_name n) ;; tokp PTerm ;;;
  ret {| v_comment := fst (fst p); v_doc := snd (fst p); v_name := name; v_id := id; v_ty := t |}.

(* struct_inline / enum_inline *)
Definition struct_inline (n : nat) : parser tyinl :=
  kw_ws "struct" ;;; tokp PCurO ;;; p <- prelude n false true true true ;;
  fs <- many n (struct_field n) ;; fb <- opt (member_fallback n) ;; tokp PCurC ;;;
  ret (IStruct (snd (fst p)) (snd p) fs fb).

Definition enum_inline (n : nat) : parser tyinl :=
  kw_ws "enum" ;;; tokp PCurO ;;; p <- prelude n false true true true ;;
  vs <- many n (enum_variant n) ;; fb <- opt (member_fallback n) ;; tokp PCurC ;;;
  ret (IEnum (snd (fst p)) (snd p) vs fb).

(* type_name_or_inline = { (type_name ~ tok_term) | struct_inline | enum_inline } *)
Definition type_name_or_inline (n : nat) : parser tyinl :=
  alt (t <- type_name n ;; tokp PTerm ;;; ret (ITy t)) (alt (struct_inline n) (enum_inline n)).

(* ---------------------------------------------------------------- definitions *)

Definition struct_def (n : nat) : parser def :=
  p <- prelude n true true true false ;;
  kw_ws "struct" ;;; name <- ident ;; tokp PCurO ;;;
  fs <- many n (struct_field n) ;; fb <- opt (member_fallback n) ;; tokp PCurC ;;;
  ret (DStruct {| sd_comment := fst (fst p); sd_doc := snd (fst p); sd_attrs := snd p;
                  sd_name := name; sd_fields := fs; sd_fb := fb |}).

Definition enum_def (n : nat) : parser def :=
  p <- prelude n true true true false ;;
  kw_ws "enum" ;;; name <- ident ;; tokp PCurO ;;;
  vs <- many n (enum_variant n) ;; fb <- opt (member_fallback n) ;; tokp PCurC ;;;
  ret (DEnum {| ed_comment := fst (fst p); ed_doc := snd (fst p); ed_attrs := snd p;
                ed_name := name; ed_vars := vs; ed_fb := fb |}).

(* fn_args / fn_ok / fn_err *)
Definition fn_part (n : nat) (k : string) : parser part :=
  c <- comments n ;; kw k ;;; tokp PEq ;;; t <- type_name_or_inline n ;;
  ret {| p_comment := c; p_ty := t |}.

(* fn_body = _{ fn_body_full | fn_body_ok | tok_term } *)
Definition fn_body (n : nat) : parser (option part * option part * option part) :=
  alt (tokp PCurO ;;; a <- opt (fn_part n "args") ;; o <- opt (fn_part n "ok") ;;
       e <- opt (fn_part n "err") ;; tokp PCurC ;;; ret (a, o, e))
  (alt (tokp PEq ;;; t <- type_name_or_inline n ;;
        ret (None, Some {| p_comment := []; p_ty := t |}, None))
       (tokp PTerm ;;; ret (None, None, None))).

Definition fn_def (n : nat) : parser item :=
  p <- prelude n true true false false ;;
  kw_ws "fn" ;;; name <- ident ;; tokp PAt ;;; id <- lit_int ;; b <- fn_body n ;;
  ret (IFn {| fn_comment := fst (fst p); fn_doc := snd (fst p); fn_name := name; fn_id := id;
              fn_args := fst (fst b); fn_ok := snd (fst b); fn_err := snd b |}).

Definition event_def (n : nat) : parser item :=
  p <- prelude n true true false false ;;
  kw_ws "event" ;;; name <- ident ;; tokp PAt ;;; id <- lit_int ;;
  t <- alt (tokp PEq ;;; t <- type_name_or_inline n ;; ret (Some t)) (tokp PTerm ;;; ret None) ;;
  ret (IEv {| ev_comment := fst (fst p); ev_doc := snd (fst p); ev_name := name; ev_id := id;
              ev_ty := t |}).

(* fn_fallback / event_fallback *)
Definition item_fallback (n : nat) (k : string) : parser fallback :=
  p <- prelude n true true false false ;;
  kw_ws k ;;; name <- ident ;; tokp PEq ;;; kw "fallback" ;;; tokp PTerm ;;;
  ret {| fb_comment := fst (fst p); fb_doc := snd (fst p); fb_name := name |}.

(* service_fallback = { (fn_fallback ~ event_fallback?) | (event_fallback ~ fn_fallback?) } *)
Definition service_fallback (n : nat) : parser (option fallback * option fallback) :=
  alt (f <- item_fallback n "fn" ;; e <- opt (item_fallback n "event") ;; ret (Some f, e))
      (e <- item_fallback n "event" ;; f <- opt (item_fallback n "fn") ;; ret (f, Some e)).

Definition service_def (n : nat) : parser def :=
  p <- prelude n true true false false ;;
  kw_ws "service" ;;; name <- ident ;; tokp PCurO ;;;
  uc <- comments n ;; kw "uuid" ;;; tokp PEq ;;; u <- lit_uuid ;; tokp PTerm ;;;
  vc <- comments n ;; kw "version" ;;; tokp PEq ;;; v <- lit_int ;; tokp PTerm ;;;
  items <- many n (alt (fn_def n) (event_def n)) ;;
  fb <- opt (service_fallback n) ;; tokp PCurC ;;;
  ret (DService {| sv_comment := fst (fst p); sv_doc := snd (fst p); sv_name := name;
                   sv_uuid_comment := uc; sv_uuid := u; sv_ver_comment := vc; sv_ver := v;
                   sv_items := items;
                   sv_fn_fb := match fb with Some x => fst x | None => None end;
                   sv_ev_fb := match fb with Some x => snd x | None => None end |}).

Definition find_cty (w : string) : option cty :=
  find (fun c => String.eqb (cty_str c) w) all_cty.

(* const_value = { const_int | const_string | const_uuid } *)
Definition const_value : parser (cty * string) :=
  w <- ident ;;
  match find_cty w with
  | Some CString => tokp PParO ;;; s <- lit_string ;; tokp PParC ;;; ret (CString, s)
  | Some CUuid => tokp PParO ;;; s <- lit_uuid ;; tokp PParC ;;; ret (CUuid, s)
  | Some c => tokp PParO ;;; s <- lit_int ;; tokp PParC ;;; ret (c, s)
  | None => fail
  end.

Definition const_def (n : nat) : parser def :=
  p <- prelude n true true false false ;;
  kw_ws "const" ;;; name <- ident ;; tokp PEq ;;; v <- const_value ;; tokp PTerm ;;;
  ret (DConst {| cd_comment := fst (fst p); cd_doc := snd (fst p); cd_name := name;
                 cd_ty := fst v; cd_val := snd v |}).

Definition newtype_def (n : nat) : parser def :=
  p <- prelude n true true true false ;;
  kw_ws "newtype" ;;; name <- ident ;; tokp PEq ;;; t <- type_name n ;; tokp PTerm ;;;
  ret (DNewtype {| nd_comment := fst (fst p); nd_doc := snd (fst p); nd_attrs := snd p;
                   nd_name := name; nd_ty := t |}).

(* def = { struct_def | enum_def | service_def | const_def | newtype_def } *)
Definition definition (n : nat) : parser def :=
  alt (struct_def n) (alt (enum_def n) (alt (service_def n) (alt (const_def n) (newtype_def n)))).

(* import_stmt = { comment* ~ kw_import ~ ident ~ tok_term } *)
Definition import_stmt (n : nat) : parser import :=
  c <- comments n ;; kw_ws "import" ;;; name <- ident ;; tokp PTerm ;;;
  ret {| i_comment := c; i_name := name |}.

(* file = _{ SOI ~ (comment* ~ doc_string_inline)* ~ import_stmt* ~ def* ~ EOI } *)
Definition file (n : nat) : parser schema :=
  h <- many n (c <- comments n ;; d <- doc_string_inline ;; ret (c, d)) ;;
  is <- many n (import_stmt n) ;;
  ds <- many n (definition n) ;;
  fun ts => match ts with
            | [] => Some ({| s_comment := flat_map fst h; s_doc := map snd h; s_imports := is;
                             s_defs := ds |}, [])
            | _ => None
            end.

Definition parse_toks (ts : list token) : option schema :=
  match file (S (length ts)) ts with Some (a, _) => Some a | None => None end.
