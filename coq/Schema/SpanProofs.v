(* Schema/SpanProofs.v — linecol_to_index never underflows for column >= 1 and returns indices
   inside the doc string it points into, on a character boundary. *)
From Coq Require Import String Ascii List Bool NArith Lia.
From Aldrin Require Import Schema.Lexer Schema.Span.
Import ListNotations.
Open Scope N_scope.

Lemma lenN_cons : forall c r, lenN (String c r) = lenN r + 1.
Proof. intros. unfold lenN. cbn [String.length]. lia. Qed.

Lemma lenN_nil : lenN EmptyString = 0.
Proof. reflexivity. Qed.

(* total length of the parts, each with its separator *)
Fixpoint plen (parts : list string) : N :=
  match parts with [] => 0 | p :: ps => lenN p + 1 + plen ps end.

Lemma plen_split : forall s, plen (split_cr s) = lenN s + 1.
Proof.
  induction s as [|c r IH]; [reflexivity|]. cbn [split_cr].
  destruct (is 13 c).
  - cbn [plen]. rewrite IH, lenN_cons, lenN_nil. lia.
  - destruct (split_cr r) as [|p ps] eqn:E.
    + cbn [plen] in IH. rewrite lenN_cons in *. lia.
    + cbn [plen] in *. rewrite !lenN_cons. lia.
Qed.

Definition good (value : string) (start : N) (r : res) : Prop :=
  match r with
  | RPanic => False
  | RNone => True
  | RSome i => exists idx, i = start + idx /\ idx <= lenN value /\ is_char_boundary value idx = true
  end.

Lemma in_doc_good : forall parts value start line offset tl col e,
  1 <= col -> offset + plen parts = lenN value + 1 ->
  match in_doc parts value start line offset tl col e with
  | inl r => good value start r
  | inr _ => True
  end.
Proof.
  induction parts as [|p ps IH]; intros value start line offset tl col e Hcol Hinv; cbn [in_doc]; [exact I|].
  cbn [plen] in Hinv.
  destruct (line + 1 =? tl).
  - destruct (lenN p <? col) eqn:Hlt; [exact I|].
    apply N.ltb_ge in Hlt.
    destruct (offset + col =? 0) eqn:Hz; [apply N.eqb_eq in Hz; lia|].
    destruct (is_char_boundary value _) eqn:Hb; [|exact I].
    cbn [good]. eexists. split; [reflexivity|]. split; [|exact Hb].
    destruct e; lia.
  - apply IH; [assumption | lia].
Qed.

Lemma linecol_from_good : forall docs line tl col e, 1 <= col ->
  match linecol_from docs line tl col e with
  | RPanic => False
  | RNone => True
  | RSome i => exists d idx, In d docs /\ i = d_start d + idx /\ idx <= lenN (d_value d) /\
                             is_char_boundary (d_value d) idx = true
  end.
Proof.
  induction docs as [|d ds IH]; intros line tl col e Hcol; cbn [linecol_from]; [exact I|].
  pose proof (in_doc_good (split_cr (d_value d)) (d_value d) (d_start d) line 0 tl col e Hcol) as Hd.
  rewrite plen_split in Hd. specialize (Hd ltac:(lia)).
  destruct (in_doc _ _ _ _ _ _ _ _) as [r | line'].
  - destruct r as [| |i]; cbn [good] in Hd; [contradiction | exact I |].
    destruct Hd as [idx [H1 [H2 H3]]]. exists d, idx. cbn [In]. auto.
  - specialize (IH line' tl col e Hcol). destruct (linecol_from ds line' tl col e) as [| |i]; auto.
    destruct IH as [d' [idx [H0 H1]]]. exists d', idx. cbn [In]. auto.
Qed.

Theorem span_no_underflow : forall docs tl col e, 1 <= col -> linecol_to_index docs tl col e <> RPanic.
Proof.
  intros docs tl col e Hcol Hp. pose proof (linecol_from_good docs 0 tl col e Hcol) as H.
  unfold linecol_to_index in Hp. now rewrite Hp in H.
Qed.

Theorem span_in_bounds : forall docs tl col e i, 1 <= col ->
  linecol_to_index docs tl col e = RSome i ->
  exists d idx, In d docs /\ i = d_start d + idx /\ idx <= lenN (d_value d) /\
                is_char_boundary (d_value d) idx = true.
Proof.
  intros docs tl col e i Hcol Hs. pose proof (linecol_from_good docs 0 tl col e Hcol) as H.
  unfold linecol_to_index in Hs. now rewrite Hs in H.
Qed.

(* sourcepos_to_span panics only if one of the two lookups does *)
Theorem sourcepos_no_underflow : forall docs sl sc el ec, 1 <= sc -> 1 <= ec ->
  sourcepos_to_span docs sl sc el ec <> SPanic.
Proof.
  intros docs sl sc el ec H1 H2. unfold sourcepos_to_span.
  pose proof (span_no_underflow docs sl sc false H1).
  pose proof (span_no_underflow docs el ec true H2).
  destruct (linecol_to_index docs sl sc false); try contradiction;
    destruct docs; try discriminate;
    destruct (linecol_to_index _ el ec true); try contradiction; discriminate.
Qed.

(* column 0 on the first line of a doc string: [offset + column - 1] underflows *)
Definition col0_witness : list doc :=
  [{| d_start := 4; d_end := 5; d_value := String (ascii_of_nat 120) EmptyString |}].

Lemma span_column_zero_underflows : linecol_to_index col0_witness 1 0 false = RPanic.
Proof. vm_compute. reflexivity. Qed.

(* purity: the modelled functions are functions (same input, same output) — trivially, and
   stated only so that the determinism clause of C17 has a formal counterpart *)
Lemma span_deterministic : forall docs sl sc el ec r1 r2,
  sourcepos_to_span docs sl sc el ec = r1 -> sourcepos_to_span docs sl sc el ec = r2 -> r1 = r2.
Proof. intros. congruence. Qed.
