(* Schema/Span.v — BrokenDocLink::linecol_to_index and ::sourcepos_to_span
   (parser/src/warning/broken_doc_link.rs): mapping a comrak (line, column) in the joined doc text
   back to a byte index of the schema source.  usize arithmetic is modelled on N with the one
   subtraction made explicit: [RPanic] is the underflow of [offset + column - 1] (a panic with
   overflow checks, a wrapped index without). *)
From Coq Require Import String Ascii List Bool NArith.
From Aldrin Require Import Schema.Lexer.
Import ListNotations.
Open Scope N_scope.

(* a doc string: span_inner().start, span_inner().end, value_inner() *)
Record doc := { d_start : N; d_end : N; d_value : string }.

Inductive res := RPanic | RNone | RSome (i : N).

Definition lenN (s : string) : N := N.of_nat (String.length s).

(* value.split('\r') *)
Fixpoint split_cr (s : string) : list string :=
  match s with
  | EmptyString => [EmptyString]
  | String c r =>
      if is 13 c then EmptyString :: split_cr r
      else match split_cr r with
           | p :: ps => String c p :: ps
           | [] => [String c EmptyString]
           end
  end.

Fixpoint nth_byte (s : string) (i : nat) : option ascii :=
  match s, i with
  | EmptyString, _ => None
  | String c _, O => Some c
  | String _ r, S j => nth_byte r j
  end.

(* str::is_char_boundary *)
Definition is_char_boundary (s : string) (idx : N) : bool :=
  if idx =? 0 then true
  else if idx =? lenN s then true
  else if lenN s <? idx then false
  else match nth_byte s (N.to_nat idx) with
       | Some c => negb (between 128 191 c)
       | None => false
       end.

(* the inner loop over the parts of one doc string; [inr line] = not on this doc *)
Fixpoint in_doc (parts : list string) (value : string) (start line offset tl col : N) (e : bool)
  : res + N :=
  match parts with
  | [] => inr line
  | p :: ps =>
      let line := line + 1 in
      if line =? tl then
        if lenN p <? col then inl RNone
        else if offset + col =? 0 then inl RPanic
        else
          let idx := offset + col - 1 + (if e then 1 else 0) in
          if is_char_boundary value idx then inl (RSome (start + idx)) else inl RNone
      else in_doc ps value start line (offset + lenN p + 1) tl col e
  end.

(* fn linecol_to_index *)
Fixpoint linecol_from (docs : list doc) (line tl col : N) (e : bool) : res :=
  match docs with
  | [] => RNone
  | d :: ds =>
      match in_doc (split_cr (d_value d)) (d_value d) (d_start d) line 0 tl col e with
      | inl r => r
      | inr line' => linecol_from ds line' tl col e
      end
  end.

Definition linecol_to_index (docs : list doc) (tl col : N) (e : bool) : res :=
  linecol_from docs 0 tl col e.

Inductive span_res := SPanic | SSpan (s e : N).

(* fn sourcepos_to_span (docs is non-empty at the call site) *)
Definition sourcepos_to_span (docs : list doc) (sl sc el ec : N) : span_res :=
  let fallback :=
    match docs with
    | [] => SSpan 0 0
    | d :: _ => SSpan (d_start d) (d_end (last docs d))
    end in
  match linecol_to_index docs sl sc false with
  | RPanic => SPanic
  | RNone => fallback
  | RSome s =>
      match linecol_to_index docs el ec true with
      | RPanic => SPanic
      | RNone => fallback
      | RSome e => SSpan s e
      end
  end.
