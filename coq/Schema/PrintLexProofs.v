(* Schema/PrintLexProofs.v — the character level, part 2: one lemma per printer function of
   Schema/Printer.v: the text it writes, followed by anything, lexes to its token stream followed
   by the tokens of what follows.  The blank-line state machine only ever writes line feeds, so
   the formatter state is universally quantified everywhere.  [printable] is the side condition:
   every identifier is one the lexer takes as one word, every integer / string / uuid literal one
   the lexer takes as that literal, every comment / doc text one line with nothing to trim. *)
From Coq Require Import String Ascii List Bool NArith Arith Lia.
From Coq Require Import Permutation.
From Aldrin Require Import Schema.Ast Schema.Token Schema.Printer Schema.Lexer Schema.LexerProofs
  Schema.CanonProofs Schema.PrintLex.
Import ListNotations.
Open Scope string_scope.

(* ---------------------------------------------------------------- the side condition *)

Definition texts_ok (l : list string) : Prop := Forall (fun s => text_ok s = true) l.
Definition idents_ok (l : list string) : Prop := Forall (fun s => ident_ok s = true) l.

Definition pk_nref (r : nref) : Prop :=
  match r with
  | Intern n => ident_ok n = true
  | Extern s n => ident_ok s = true /\ ident_ok n = true
  end.

Definition pk_alen (l : alen) : Prop :=
  match l with LLit s => int_ok s = true | LRef r => pk_nref r end.

Fixpoint pk_ty (t : ty) : Prop :=
  match t with
  | TPrim _ => True
  | TGen _ a => pk_ty a
  | TMap k v => pk_ty k /\ pk_ty v
  | TResult a b => pk_ty a /\ pk_ty b
  | TArray a l => pk_ty a /\ pk_alen l
  | TRef r => pk_nref r
  end.

Definition pk_attr (a : attr) : Prop := ident_ok (a_name a) = true /\ idents_ok (a_opts a).

Definition pk_field (f : field) : Prop :=
  texts_ok (f_comment f) /\ texts_ok (f_doc f) /\ ident_ok (f_name f) = true /\
  int_ok (f_id f) = true /\ pk_ty (f_ty f).

Definition pk_fb (f : fallback) : Prop :=
  texts_ok (fb_comment f) /\ texts_ok (fb_doc f) /\ ident_ok (fb_name f) = true.

Definition pk_opt {A} (P : A -> Prop) (o : option A) : Prop :=
  match o with Some x => P x | None => True end.

Definition pk_variant (v : variant) : Prop :=
  texts_ok (v_comment v) /\ texts_ok (v_doc v) /\ ident_ok (v_name v) = true /\
  int_ok (v_id v) = true /\ pk_opt pk_ty (v_ty v).

Definition pk_tyinl (t : tyinl) : Prop :=
  match t with
  | ITy t => pk_ty t
  | IStruct d a fs fb => texts_ok d /\ Forall pk_attr a /\ Forall pk_field fs /\ pk_opt pk_fb fb
  | IEnum d a vs fb => texts_ok d /\ Forall pk_attr a /\ Forall pk_variant vs /\ pk_opt pk_fb fb
  end.

Definition pk_part (p : part) : Prop := texts_ok (p_comment p) /\ pk_tyinl (p_ty p).

Definition pk_fn (f : fndef) : Prop :=
  texts_ok (fn_comment f) /\ texts_ok (fn_doc f) /\ ident_ok (fn_name f) = true /\
  int_ok (fn_id f) = true /\ pk_opt pk_part (fn_args f) /\ pk_opt pk_part (fn_ok f) /\
  pk_opt pk_part (fn_err f).

Definition pk_ev (e : evdef) : Prop :=
  texts_ok (ev_comment e) /\ texts_ok (ev_doc e) /\ ident_ok (ev_name e) = true /\
  int_ok (ev_id e) = true /\ pk_opt pk_tyinl (ev_ty e).

Definition pk_item (i : item) : Prop :=
  match i with IFn f => pk_fn f | IEv e => pk_ev e end.

(* the literal of a constant is the kind its type says *)
Definition const_ok (c : cty) (v : string) : bool :=
  match c with CString => str_ok v | CUuid => uuid_ok v | _ => int_ok v end.

Definition pk_def (d : def) : Prop :=
  match d with
  | DStruct d =>
      texts_ok (sd_comment d) /\ texts_ok (sd_doc d) /\ Forall pk_attr (sd_attrs d) /\
      ident_ok (sd_name d) = true /\ Forall pk_field (sd_fields d) /\ pk_opt pk_fb (sd_fb d)
  | DEnum d =>
      texts_ok (ed_comment d) /\ texts_ok (ed_doc d) /\ Forall pk_attr (ed_attrs d) /\
      ident_ok (ed_name d) = true /\ Forall pk_variant (ed_vars d) /\ pk_opt pk_fb (ed_fb d)
  | DService d =>
      texts_ok (sv_comment d) /\ texts_ok (sv_doc d) /\ ident_ok (sv_name d) = true /\
      texts_ok (sv_uuid_comment d) /\ uuid_ok (sv_uuid d) = true /\
      texts_ok (sv_ver_comment d) /\ int_ok (sv_ver d) = true /\
      Forall pk_item (sv_items d) /\ pk_opt pk_fb (sv_fn_fb d) /\ pk_opt pk_fb (sv_ev_fb d)
  | DConst d =>
      texts_ok (cd_comment d) /\ texts_ok (cd_doc d) /\ ident_ok (cd_name d) = true /\
      const_ok (cd_ty d) (cd_val d) = true
  | DNewtype d =>
      texts_ok (nd_comment d) /\ texts_ok (nd_doc d) /\ Forall pk_attr (nd_attrs d) /\
      ident_ok (nd_name d) = true /\ pk_ty (nd_ty d)
  end.

Definition pk_import (i : import) : Prop := texts_ok (i_comment i) /\ ident_ok (i_name i) = true.

Definition printable (a : schema) : Prop :=
  texts_ok (s_comment a) /\ texts_ok (s_doc a) /\ Forall pk_import (s_imports a) /\
  Forall pk_def (s_defs a).

(* ---------------------------------------------------------------- tactics *)

(* the identifier characters at the start of a literal *)
Fixpoint kw_split (s : string) : string * string :=
  match s with
  | EmptyString => (EmptyString, EmptyString)
  | String c r => if is_cont_ascii c then let '(a, b) := kw_split r in (String c a, b)
                  else (EmptyString, s)
  end.

Lemma tk_arrow_lit : forall r, tokenize (" -> " ++ r) = TP PArrow :: tokenize r.
Proof. intros r. change (" -> " ++ r) with (" " ++ String "-" (String ">" (" " ++ r))).
  rewrite tk_blank by reflexivity. rewrite tk_arrow. now rewrite tk_blank by reflexivity. Qed.

Lemma tk_scope_lit : forall r, tokenize ("::" ++ r) = TP PScope :: tokenize r.
Proof. intros r. apply tk_scope. Qed.

Ltac side := first [assumption | reflexivity | exact I].

(* a keyword at the start of a literal *)
Ltac kw :=
  match goal with
  | |- context [tokenize (?l ++ ?R)] =>
      let p := eval vm_compute in (kw_split l) in
      match p with
      | (String ?c ?w, ?l') =>
          change (l ++ R) with (String c w ++ (l' ++ R));
          rewrite (tk_word (String c w)) by side
      end
  end.

(* a literal made of blanks and punctuation *)
Ltac lit := erewrite tk_plit by reflexivity; cbn [app].

(* the blanks and punctuation at the start of a literal that goes on with a word *)
Fixpoint pl_split (s : string) : string * string :=
  match s with
  | EmptyString => (EmptyString, EmptyString)
  | String c r =>
      if is_ascii_ws c || match punct_of c with Some _ => true | None => false end
      then let '(a, b) := pl_split r in (String c a, b)
      else (EmptyString, s)
  end.

Ltac litp :=
  match goal with
  | |- context [tokenize (?l ++ ?R)] =>
      let p := eval vm_compute in (pl_split l) in
      match p with
      | (String ?c ?w, String ?c2 ?l') =>
          change (l ++ R) with (String c w ++ (String c2 l' ++ R)); lit
      end
  end.

Ltac lx_step :=
  first [ rewrite app_assoc_s
        | lit
        | kw
        | rewrite tk_arrow_lit
        | rewrite tk_scope_lit
        | litp
        | rewrite tk_word by side
        | rewrite tk_int by side ].

Ltac lx := repeat lx_step.

Ltac fin := cbn [app]; repeat (rewrite <- app_assoc; cbn [app]); reflexivity.

(* ---------------------------------------------------------------- type names *)

Lemma ident_ok_prim : forall p, ident_ok (prim_str p) = true.
Proof. destruct p; reflexivity. Qed.
Lemma ident_ok_gen1 : forall g, ident_ok (gen1_str g) = true.
Proof. destruct g; reflexivity. Qed.
Lemma ident_ok_cty : forall c, ident_ok (cty_str c) = true.
Proof. destruct c; reflexivity. Qed.

Lemma tk_nref : forall r rest, pk_nref r -> brk_rest rest ->
  tokenize (pr_nref r ++ rest) = (toks_nref r (ws_next rest) ++ tokenize rest)%list.
Proof.
  intros [n | s n] rest H Hr; cbn [pr_nref toks_nref pk_nref] in *; unfold W.
  - now rewrite tk_word.
  - destruct H as [Hs Hn]. lx. reflexivity.
Qed.

Lemma tk_alen : forall l rest, pk_alen l ->
  tokenize (pr_alen l ++ "]" ++ rest) = (toks_alen l ++ TP PSquC :: tokenize rest)%list.
Proof.
  intros [s | r] rest H; cbn [pr_alen toks_alen pk_alen] in *.
  - lx. reflexivity.
  - rewrite tk_nref by side. lx. reflexivity.
Qed.

Lemma tk_ty : forall t rest, pk_ty t -> brk_rest rest ->
  tokenize (pr_ty t ++ rest) = (toks_ty t (ws_next rest) ++ tokenize rest)%list.
Proof.
  induction t as [p | g a IHa | k IHk v IHv | a IHa b IHb | a IHa l | r];
    intros rest H Hr; cbn [pr_ty toks_ty pk_ty] in *; unfold W.
  - rewrite tk_word by (apply ident_ok_prim || assumption). reflexivity.
  - rewrite !app_assoc_s. rewrite tk_word by (apply ident_ok_gen1 || reflexivity).
    lx. rewrite IHa by side. lx. fin.
  - destruct H as [Hk Hv]. lx. rewrite IHk by side. lx. rewrite IHv by side. lx. fin.
  - destruct H as [Ha Hb]. lx. rewrite IHa by side. lx. rewrite IHb by side. lx. fin.
  - destruct H as [Ha Hl]. lx. rewrite IHa by side. lx. rewrite tk_alen by assumption. fin.
  - now apply tk_nref.
Qed.

(* ---------------------------------------------------------------- the blank-line machine *)

Lemma newline_blank : forall s, blank (fst (newline s)) = true.
Proof. intros s. unfold newline. destruct (nl s); reflexivity. Qed.

Lemma newline_with_first_blank : forall s ml, blank (fst (newline_with_first s ml)) = true.
Proof. intros. unfold newline_with_first. apply newline_blank. Qed.

Lemma newline_def_blank : forall s k ml, blank (fst (newline_def s k ml)) = true.
Proof. intros. unfold newline_def. apply newline_with_first_blank. Qed.

Lemma newline_item_blank : forall s k ml, blank (fst (newline_item s k ml)) = true.
Proof. intros. unfold newline_item. apply newline_with_first_blank. Qed.

Lemma blank_spaces : forall n, blank (spaces n) = true.
Proof. induction n; [reflexivity | exact IHn]. Qed.

Lemma blank_substring : forall s n m, blank s = true -> blank (substring n m s) = true.
Proof.
  induction s as [|c r IH]; intros n m H; [destruct n, m; reflexivity|].
  cbn [blank] in H. apply andb_true_iff in H. destruct H as [Hc Hr].
  destruct n as [|n]; cbn [substring].
  - destruct m as [|m]; [reflexivity|]. cbn [blank]. now rewrite Hc, IH.
  - now apply IH.
Qed.

Lemma blank_indent_real : forall n, blank (indent_real n) = true.
Proof. intros n. unfold indent_real, INDENT. apply blank_substring, blank_spaces. Qed.

(* ---------------------------------------------------------------- printers *)

Lemma concat_cons : forall x l, String.concat "" (x :: l) = x ++ String.concat "" l.
Proof. intros x [|y l]; cbn [String.concat]; [now rewrite append_nil_r | reflexivity]. Qed.

Section Printers.
Variable ind : nat -> string.
Hypothesis Hind : forall n, blank (ind n) = true.

Ltac bl := rewrite tk_blank by
  first [ apply Hind | apply newline_with_first_blank | apply newline_def_blank
        | apply newline_item_blank | apply newline_blank | reflexivity | assumption ].

Lemma tk_text_lines : forall style mk,
  (forall s rest, text_ok s = true ->
     tokenize (style ++ line_body s ++ LF ++ rest) = mk s :: tokenize rest) ->
  forall i l rest, texts_ok l ->
  tokenize (text_lines ind i style l ++ rest) = (map mk l ++ tokenize rest)%list.
Proof.
  intros style mk Hst i l. induction l as [|a l IH]; intros rest H; [reflexivity|].
  inversion H as [|? ? Ha Hl]; subst. unfold text_lines in *. cbn [map]. rewrite concat_cons.
  unfold text_line at 1. rewrite !app_assoc_s. bl.
  replace ((if (a =? "")%string then style else style ++ " " ++ a) ++ LF ++
           String.concat "" (map (text_line ind i style) l) ++ rest)
    with (style ++ line_body a ++ LF ++ String.concat "" (map (text_line ind i style) l) ++ rest).
  2:{ unfold line_body. destruct (a =? "")%string; [reflexivity | now rewrite !app_assoc_s]. }
  rewrite Hst by assumption. cbn [app]. f_equal. now apply IH.
Qed.

Lemma tk_comments : forall i l rest, texts_ok l ->
  tokenize (text_lines ind i "//" l ++ rest) = (map TComment l ++ tokenize rest)%list.
Proof. apply tk_text_lines. exact tk_comment_line. Qed.

Lemma tk_docs : forall i l rest, texts_ok l ->
  tokenize (text_lines ind i "///" l ++ rest) = (map TDoc l ++ tokenize rest)%list.
Proof. apply tk_text_lines. exact tk_doc_line. Qed.

Lemma tk_docins : forall i l rest, texts_ok l ->
  tokenize (text_lines ind i "//!" l ++ rest) = (map TDocIn l ++ tokenize rest)%list.
Proof. apply tk_text_lines. exact tk_docin_line. Qed.

Lemma tk_opts : forall l rest, idents_ok l -> l <> [] ->
  tokenize (join ", " l ++ ")" ++ rest) = (toks_opts l ++ TP PParC :: tokenize rest)%list.
Proof.
  induction l as [|x l IH]; intros rest H Hne; [contradiction|].
  inversion H as [|? ? Hx Hl]; subst. destruct l as [|y l].
  - cbn [join toks_opts]. unfold W. lx. reflexivity.
  - change (join ", " (x :: y :: l)) with (x ++ ", " ++ join ", " (y :: l)).
    change (toks_opts (x :: y :: l)) with (W x false :: TP PComma :: toks_opts (y :: l)). unfold W.
    lx. rewrite IH by (assumption || discriminate). reflexivity.
Qed.

Lemma tk_attr : forall i inline a rest, pk_attr a ->
  tokenize (pr_attr ind i inline a ++ rest) = (toks_attr inline a ++ tokenize rest)%list.
Proof.
  intros i inline [name opts] rest [Hn Ho]. cbn [a_name a_opts] in *.
  unfold pr_attr, toks_attr, W. cbn [a_name a_opts]. rewrite !app_assoc_s. bl.
  destruct opts as [|o opts]; cbn [nonempty].
  - destruct inline; lx; reflexivity.
  - destruct inline; lx; rewrite tk_opts by (assumption || discriminate); lx; fin.
Qed.

Lemma tk_attrs : forall i inline l rest, Forall pk_attr l ->
  tokenize (String.concat "" (map (pr_attr ind i inline) l) ++ rest) =
  (flat_map (toks_attr inline) l ++ tokenize rest)%list.
Proof.
  induction l as [|a l IH]; intros rest H; [reflexivity|]. inversion H; subst.
  cbn [map flat_map]. rewrite concat_cons, app_assoc_s, tk_attr by assumption.
  rewrite IH by assumption. now rewrite app_assoc.
Qed.

Lemma tk_prelude : forall cs ds ats i inline rest, texts_ok cs -> texts_ok ds -> Forall pk_attr ats ->
  tokenize (pr_prelude ind cs ds ats i inline ++ rest) =
  (toks_prelude cs ds ats inline ++ tokenize rest)%list.
Proof.
  intros cs ds ats i inline rest Hc Hd Ha. unfold pr_prelude, toks_prelude.
  rewrite !app_assoc_s, tk_comments by assumption.
  destruct inline; [rewrite tk_docins by assumption | rewrite tk_docs by assumption];
    rewrite tk_attrs by assumption; now rewrite !app_assoc.
Qed.

Lemma tk_prelude0 : forall cs ds i rest, texts_ok cs -> texts_ok ds ->
  tokenize (pr_prelude ind cs ds [] i false ++ rest) =
  (toks_prelude cs ds [] false ++ tokenize rest)%list.
Proof. intros. apply tk_prelude; [assumption | assumption | constructor]. Qed.

(* ---- members ---- *)

Lemma tk_field : forall i s f rest, pk_field f ->
  tokenize (fst (pr_field ind i s f) ++ rest) = (toks_field f ++ tokenize rest)%list.
Proof.
  intros i s [c d req name id t] rest [Hc [Hd [Hn [Hi Ht]]]]. cbn [f_comment f_doc f_name f_id f_ty] in *.
  unfold pr_field, toks_field, W. cbn [f_comment f_doc f_req f_name f_id f_ty].
  pose proof (newline_with_first_blank s (field_ml {| f_comment := c; f_doc := d; f_req := req;
    f_name := name; f_id := id; f_ty := t |})) as Hb.
  destruct (newline_with_first s _) as [o s1]. cbn [fst] in *.
  rewrite !app_assoc_s. bl. rewrite tk_prelude0 by assumption. bl.
  destruct req; lx; rewrite tk_ty by side; lx; fin.
Qed.

Lemma tk_fb_member : forall i s f rest, pk_fb f ->
  tokenize (fst (pr_fb_member ind i s f) ++ rest) = (toks_fb_member f ++ tokenize rest)%list.
Proof.
  intros i s [c d name] rest [Hc [Hd Hn]]. cbn [fb_comment fb_doc fb_name] in *.
  unfold pr_fb_member, toks_fb_member, W. cbn [fb_comment fb_doc fb_name].
  pose proof (newline_with_first_blank s (fb_ml {| fb_comment := c; fb_doc := d; fb_name := name |})) as Hb.
  destruct (newline_with_first s _) as [o s1]. cbn [fst] in *.
  rewrite !app_assoc_s. bl. rewrite tk_prelude0 by assumption. bl. lx. fin.
Qed.

Lemma tk_variant : forall i s v rest, pk_variant v ->
  tokenize (fst (pr_variant ind i s v) ++ rest) = (toks_variant v ++ tokenize rest)%list.
Proof.
  intros i s [c d name id t] rest [Hc [Hd [Hn [Hi Ht]]]]. cbn [v_comment v_doc v_name v_id v_ty] in *.
  unfold pr_variant, toks_variant, W. cbn [v_comment v_doc v_name v_id v_ty].
  pose proof (newline_with_first_blank s (variant_ml {| v_comment := c; v_doc := d; v_name := name;
    v_id := id; v_ty := t |})) as Hb.
  destruct (newline_with_first s _) as [o s1]. cbn [fst] in *.
  rewrite !app_assoc_s. bl. rewrite tk_prelude0 by assumption. bl.
  destruct t as [t|]; cbn [pk_opt] in Ht.
  - lx. rewrite tk_ty by side. lx. fin.
  - lx. fin.
Qed.

(* ---- loops ---- *)

Lemma tk_pr_list : forall {A} (f : st -> A -> string * st) (g : A -> list token) (P : A -> Prop),
  (forall s x rest, P x -> tokenize (fst (f s x) ++ rest) = (g x ++ tokenize rest)%list) ->
  forall l s rest, Forall P l ->
  tokenize (fst (pr_list f s l) ++ rest) = (flat_map g l ++ tokenize rest)%list.
Proof.
  intros A f g P Hf. induction l as [|x l IH]; intros s rest H; [reflexivity|].
  inversion H; subst. cbn [pr_list flat_map].
  specialize (Hf s x). destruct (f s x) as [o1 s1]. specialize (IH s1).
  destruct (pr_list f s1 l) as [o2 s2]. cbn [fst] in *.
  rewrite app_assoc_s, Hf, IH by assumption. now rewrite app_assoc.
Qed.

Lemma tk_pr_opt : forall {A} (f : st -> A -> string * st) (g : A -> list token) (P : A -> Prop),
  (forall s x rest, P x -> tokenize (fst (f s x) ++ rest) = (g x ++ tokenize rest)%list) ->
  forall o s rest, pk_opt P o ->
  tokenize (fst (pr_opt f s o) ++ rest) = (toks_optl g o ++ tokenize rest)%list.
Proof. intros A f g P Hf [x|] s rest H; cbn [pr_opt toks_optl pk_opt] in *; [now apply Hf | reflexivity]. Qed.

Lemma tk_fields : forall i s fs fb rest, Forall pk_field fs -> pk_opt pk_fb fb ->
  tokenize (fst (pr_fields ind i s fs fb) ++ rest) =
  (flat_map toks_field fs ++ toks_optl toks_fb_member fb ++ tokenize rest)%list.
Proof.
  intros i s fs fb rest Hf Hb. unfold pr_fields.
  pose proof (tk_pr_list (pr_field ind i) toks_field pk_field (tk_field i) fs (set_first true s)) as H1.
  destruct (pr_list (pr_field ind i) (set_first true s) fs) as [o1 s1].
  pose proof (tk_pr_opt (pr_fb_member ind i) toks_fb_member pk_fb (tk_fb_member i) fb s1) as H2.
  destruct (pr_opt (pr_fb_member ind i) s1 fb) as [o2 s2]. cbn [fst] in *.
  now rewrite app_assoc_s, H1, H2.
Qed.

Lemma tk_variants : forall i s vs fb rest, Forall pk_variant vs -> pk_opt pk_fb fb ->
  tokenize (fst (pr_variants ind i s vs fb) ++ rest) =
  (flat_map toks_variant vs ++ toks_optl toks_fb_member fb ++ tokenize rest)%list.
Proof.
  intros i s vs fb rest Hf Hb. unfold pr_variants.
  pose proof (tk_pr_list (pr_variant ind i) toks_variant pk_variant (tk_variant i) vs (set_first true s)) as H1.
  destruct (pr_list (pr_variant ind i) (set_first true s) vs) as [o1 s1].
  pose proof (tk_pr_opt (pr_fb_member ind i) toks_fb_member pk_fb (tk_fb_member i) fb s1) as H2.
  destruct (pr_opt (pr_fb_member ind i) s1 fb) as [o2 s2]. cbn [fst] in *.
  now rewrite app_assoc_s, H1, H2.
Qed.

(* ---- inline types ---- *)

Lemma tk_tyinl_ml : forall i s t rest, pk_tyinl t -> is_ty t = false ->
  tokenize (fst (pr_tyinl ind i s t) ++ rest) = (toks_tyinl t ++ tokenize rest)%list.
Proof.
  intros i s [t | d a fs fb | d a vs fb] rest H Hty; [discriminate | |]; clear Hty;
    destruct H as [Hd [Ha [Hf Hb]]]; unfold pr_tyinl, toks_tyinl, W.
  - destruct (tyinl_ml (IStruct d a fs fb)) eqn:Hml.
    + pose proof (tk_fields (i + 4) (set_nl (nonempty d || nonempty a) s) fs fb) as H1.
      destruct (pr_fields ind (i + 4) (set_nl (nonempty d || nonempty a) s) fs fb) as [o2 s2].
      cbn [fst] in *. lx.
      assert (Hp : forall R, tokenize ((if nonempty d || nonempty a then pr_prelude ind [] d a (i + 4) true else "") ++ R) =
                             (toks_prelude [] d a true ++ tokenize R)%list).
      { intros R. destruct (nonempty d || nonempty a) eqn:E.
        - apply tk_prelude; [constructor | assumption | assumption].
        - apply orb_false_iff in E. destruct E as [E1 E2]. destruct d; [|discriminate]. destruct a; [|discriminate].
          reflexivity. }
      rewrite Hp, H1 by assumption. bl. lx. fin.
    + cbn [tyinl_ml] in Hml. repeat (apply orb_false_iff in Hml; destruct Hml as [Hml ?]).
      destruct d; [|discriminate]. destruct a; [|discriminate]. destruct fs; [|discriminate].
      destruct fb; [discriminate|]. cbn [fst]. lx. reflexivity.
  - destruct (tyinl_ml (IEnum d a vs fb)) eqn:Hml.
    + pose proof (tk_variants (i + 4) (set_nl (nonempty d || nonempty a) s) vs fb) as H1.
      destruct (pr_variants ind (i + 4) (set_nl (nonempty d || nonempty a) s) vs fb) as [o2 s2].
      cbn [fst] in *. lx.
      assert (Hp : forall R, tokenize ((if nonempty d || nonempty a then pr_prelude ind [] d a (i + 4) true else "") ++ R) =
                             (toks_prelude [] d a true ++ tokenize R)%list).
      { intros R. destruct (nonempty d || nonempty a) eqn:E.
        - apply tk_prelude; [constructor | assumption | assumption].
        - apply orb_false_iff in E. destruct E as [E1 E2]. destruct d; [|discriminate]. destruct a; [|discriminate].
          reflexivity. }
      rewrite Hp, H1 by assumption. bl. lx. fin.
    + cbn [tyinl_ml] in Hml. repeat (apply orb_false_iff in Hml; destruct Hml as [Hml ?]).
      destruct d; [|discriminate]. destruct a; [|discriminate]. destruct vs; [|discriminate].
      destruct fb; [discriminate|]. cbn [fst]. lx. reflexivity.
Qed.

(* a type name or inline type with the terminator the callers put after a plain type name *)
Lemma tk_tyinl : forall i s t rest, pk_tyinl t ->
  tokenize (fst (pr_tyinl ind i s t) ++ (if is_ty t then ";" ++ LF else "") ++ rest) =
  (toks_tyinl t ++ tokenize rest)%list.
Proof.
  intros i s t rest H. destruct (is_ty t) eqn:Hty.
  - destruct t as [t| |]; try discriminate. cbn [pr_tyinl fst toks_tyinl pk_tyinl] in *.
    rewrite tk_ty by side. lx. fin.
  - cbn [append]. now apply tk_tyinl_ml.
Qed.

Lemma tk_part : forall kind s p rest, ident_ok kind = true -> pk_part p ->
  tokenize (fst (pr_part ind kind s p) ++ rest) = (toks_part kind p ++ tokenize rest)%list.
Proof.
  intros kind s [c t] rest Hk [Hc Ht]. cbn [p_comment p_ty] in *.
  unfold pr_part, toks_part, W. cbn [p_comment p_ty].
  destruct (newline_with_first s (nonempty c || tyinl_ml t)) as [o1 s1] eqn:E1.
  pose proof (newline_with_first_blank s (nonempty c || tyinl_ml t)) as Hb. rewrite E1 in Hb.
  pose proof (tk_tyinl 8 s1 t rest Ht) as H3.
  destruct (pr_tyinl ind 8 s1 t) as [o3 s3]. cbn [fst] in *.
  rewrite !app_assoc_s. bl. rewrite tk_prelude0 by (assumption || constructor). lx.
  rewrite H3. fin.
Qed.

Lemma tk_opt_part : forall kind s o rest, ident_ok kind = true -> pk_opt pk_part o ->
  tokenize (fst (pr_opt (pr_part ind kind) s o) ++ rest) =
  (toks_optl (toks_part kind) o ++ tokenize rest)%list.
Proof.
  intros kind s o rest Hk H.
  apply (tk_pr_opt (pr_part ind kind) (toks_part kind) pk_part); [|assumption].
  intros. now apply tk_part.
Qed.

(* ---- service items ---- *)

Lemma tk_fn : forall s f rest, pk_fn f ->
  tokenize (fst (pr_fn ind s f) ++ rest) = (toks_fn f ++ tokenize rest)%list.
Proof.
  intros s [c d name id args ok err] rest [Hc [Hd [Hn [Hi [Ha [Ho He]]]]]].
  cbn [fn_comment fn_doc fn_name fn_id fn_args fn_ok fn_err] in *.
  unfold pr_fn, toks_fn, W. cbn [fn_comment fn_doc fn_name fn_id fn_args fn_ok fn_err].
  match goal with |- context [newline_item s KFunction ?ml] =>
    pose proof (newline_item_blank s KFunction ml) as Hb;
    destruct (newline_item s KFunction ml) as [o1 s1] end.
  cbn [fst] in Hb.
  destruct (fn_full_body _) eqn:Hfull.
  - pose proof (tk_opt_part "args" (set_first true (set_nl false s1)) args) as H3.
    destruct (pr_opt (pr_part ind "args") (set_first true (set_nl false s1)) args) as [o3 s3].
    pose proof (tk_opt_part "ok" s3 ok) as H4.
    destruct (pr_opt (pr_part ind "ok") s3 ok) as [o4 s4].
    pose proof (tk_opt_part "err" s4 err) as H5.
    destruct (pr_opt (pr_part ind "err") s4 err) as [o5 s5]. cbn [fst] in *.
    rewrite !app_assoc_s. bl. rewrite tk_prelude0 by assumption. lx.
    rewrite H3, H4, H5 by side. lx. fin.
  - destruct ok as [[oc ot]|]; cbn [pk_opt] in Ho.
    + destruct Ho as [_ Hot]. cbn [p_ty p_comment] in *.
      pose proof (tk_tyinl 4 s1 ot rest Hot) as H3.
      destruct (pr_tyinl ind 4 s1 ot) as [o3 s3]. cbn [fst] in *.
      rewrite !app_assoc_s. bl. rewrite tk_prelude0 by assumption. lx. rewrite H3. fin.
    + cbn [fst]. rewrite !app_assoc_s. bl. rewrite tk_prelude0 by assumption. lx. fin.
Qed.

Lemma tk_ev : forall s e rest, pk_ev e ->
  tokenize (fst (pr_ev ind s e) ++ rest) = (toks_ev e ++ tokenize rest)%list.
Proof.
  intros s [c d name id t] rest [Hc [Hd [Hn [Hi Ht]]]].
  cbn [ev_comment ev_doc ev_name ev_id ev_ty] in *.
  unfold pr_ev, toks_ev, W. cbn [ev_comment ev_doc ev_name ev_id ev_ty].
  match goal with |- context [newline_item s KEvent ?ml] =>
    pose proof (newline_item_blank s KEvent ml) as Hb;
    destruct (newline_item s KEvent ml) as [o1 s1] end.
  cbn [fst] in Hb.
  destruct t as [t|]; cbn [pk_opt] in Ht.
  - pose proof (tk_tyinl 4 s1 t rest Ht) as H3.
    destruct (pr_tyinl ind 4 s1 t) as [o3 s3]. cbn [fst] in *.
    rewrite !app_assoc_s. bl. rewrite tk_prelude0 by assumption. lx. rewrite H3. fin.
  - cbn [fst]. rewrite !app_assoc_s. bl. rewrite tk_prelude0 by assumption. lx. fin.
Qed.

Lemma tk_item : forall s i rest, pk_item i ->
  tokenize (fst (pr_item ind s i) ++ rest) = (toks_item i ++ tokenize rest)%list.
Proof. intros s [f|e] rest H; cbn [pr_item toks_item pk_item] in *; [now apply tk_fn | now apply tk_ev]. Qed.

Lemma tk_item_fb : forall kw s f rest, ident_ok kw = true -> pk_fb f ->
  tokenize (fst (pr_item_fb ind kw s f) ++ rest) = (toks_item_fb kw f ++ tokenize rest)%list.
Proof.
  intros kw s [c d name] rest Hk [Hc [Hd Hn]]. cbn [fb_comment fb_doc fb_name] in *.
  unfold pr_item_fb, toks_item_fb, W. cbn [fb_comment fb_doc fb_name].
  pose proof (newline_with_first_blank s (fb_ml {| fb_comment := c; fb_doc := d; fb_name := name |})) as Hb.
  destruct (newline_with_first s _) as [o s1]. cbn [fst] in *.
  rewrite !app_assoc_s. bl. rewrite tk_prelude0 by assumption. lx. fin.
Qed.

Lemma tk_items : forall s items fnfb evfb rest,
  Forall pk_item items -> pk_opt pk_fb fnfb -> pk_opt pk_fb evfb ->
  tokenize (fst (pr_items ind s items fnfb evfb) ++ rest) =
  (flat_map toks_item items ++ toks_optl (toks_item_fb "fn") fnfb ++
   toks_optl (toks_item_fb "event") evfb ++ tokenize rest)%list.
Proof.
  intros s items fnfb evfb rest Hi Hf He. unfold pr_items.
  pose proof (tk_pr_list (pr_item ind) toks_item pk_item tk_item items (set_last_item None s)) as H1.
  destruct (pr_list (pr_item ind) (set_last_item None s) items) as [o1 s1].
  set (hev := is_some evfb || existsb (fun i => negb (is_fn i)) items).
  assert (H2 : forall R, tokenize (fst (match fnfb with
                 | Some f => pr_item_fb ind "fn" (set_nl (nl s1 || hev) s1) f
                 | None => ("", s1) end) ++ R) = (toks_optl (toks_item_fb "fn") fnfb ++ tokenize R)%list).
  { intros R. destruct fnfb as [f|]; [now apply tk_item_fb | reflexivity]. }
  destruct (match fnfb with Some f => pr_item_fb ind "fn" (set_nl (nl s1 || hev) s1) f | None => ("", s1) end)
    as [o2 s2].
  assert (H3 : forall R, tokenize (fst (match evfb with
                 | Some f => pr_item_fb ind "event"
                     (set_nl (nl s2 || match fnfb with Some ff => fb_ml ff | None => existsb is_fn items end) s2) f
                 | None => ("", s2) end) ++ R) = (toks_optl (toks_item_fb "event") evfb ++ tokenize R)%list).
  { intros R. destruct evfb as [f|]; [now apply tk_item_fb | reflexivity]. }
  destruct (match evfb with Some f => pr_item_fb ind "event" _ f | None => ("", s2) end) as [o3 s3].
  cbn [fst] in *. now rewrite !app_assoc_s, H1, H2, H3.
Qed.

(* ---- definitions ---- *)

Lemma tk_struct : forall s d rest, pk_def (DStruct d) ->
  tokenize (fst (pr_struct ind s d) ++ rest) = (toks_def (DStruct d) ++ tokenize rest)%list.
Proof.
  intros s [c dc a name fs fb] rest [Hc [Hd [Ha [Hn [Hf Hb]]]]].
  cbn [sd_comment sd_doc sd_attrs sd_name sd_fields sd_fb] in *.
  unfold pr_struct, toks_def, W. cbn [sd_comment sd_doc sd_attrs sd_name sd_fields sd_fb].
  match goal with |- context [newline_def s KStruct ?ml] =>
    pose proof (newline_def_blank s KStruct ml) as Hbl;
    destruct (newline_def s KStruct ml) as [o1 s1] end.
  cbn [fst] in Hbl.
  destruct (nonempty fs || is_some fb) eqn:Hhas.
  - pose proof (tk_fields 4 s1 fs fb) as H3. destruct (pr_fields ind 4 s1 fs fb) as [o3 s3].
    cbn [fst] in *. rewrite !app_assoc_s. bl. rewrite tk_prelude by assumption. lx.
    rewrite H3 by assumption. lx. fin.
  - apply orb_false_iff in Hhas. destruct Hhas as [E1 E2]. destruct fs; [|discriminate].
    destruct fb; [discriminate|]. cbn [fst]. rewrite !app_assoc_s. bl.
    rewrite tk_prelude by assumption. lx. fin.
Qed.

Lemma tk_enum : forall s d rest, pk_def (DEnum d) ->
  tokenize (fst (pr_enum ind s d) ++ rest) = (toks_def (DEnum d) ++ tokenize rest)%list.
Proof.
  intros s [c dc a name vs fb] rest [Hc [Hd [Ha [Hn [Hf Hb]]]]].
  cbn [ed_comment ed_doc ed_attrs ed_name ed_vars ed_fb] in *.
  unfold pr_enum, toks_def, W. cbn [ed_comment ed_doc ed_attrs ed_name ed_vars ed_fb].
  match goal with |- context [newline_def s KEnum ?ml] =>
    pose proof (newline_def_blank s KEnum ml) as Hbl;
    destruct (newline_def s KEnum ml) as [o1 s1] end.
  cbn [fst] in Hbl.
  destruct (nonempty vs || is_some fb) eqn:Hhas.
  - pose proof (tk_variants 4 s1 vs fb) as H3. destruct (pr_variants ind 4 s1 vs fb) as [o3 s3].
    cbn [fst] in *. rewrite !app_assoc_s. bl. rewrite tk_prelude by assumption. lx.
    rewrite H3 by assumption. lx. fin.
  - apply orb_false_iff in Hhas. destruct Hhas as [E1 E2]. destruct vs; [|discriminate].
    destruct fb; [discriminate|]. cbn [fst]. rewrite !app_assoc_s. bl.
    rewrite tk_prelude by assumption. lx. fin.
Qed.

Lemma tk_service : forall s d rest, pk_def (DService d) ->
  tokenize (fst (pr_service ind s d) ++ rest) = (toks_def (DService d) ++ tokenize rest)%list.
Proof.
  intros s [c dc name uc u vc v items ffb efb] rest [Hc [Hd [Hn [Huc [Hu [Hvc [Hv [Hi [Hf He]]]]]]]]].
  cbn [sv_comment sv_doc sv_name sv_uuid_comment sv_uuid sv_ver_comment sv_ver sv_items sv_fn_fb sv_ev_fb] in *.
  unfold pr_service, toks_def, W.
  cbn [sv_comment sv_doc sv_name sv_uuid_comment sv_uuid sv_ver_comment sv_ver sv_items sv_fn_fb sv_ev_fb].
  pose proof (newline_def_blank s KService true) as Hbl.
  destruct (newline_def s KService true) as [o1 s1]. cbn [fst] in Hbl.
  pose proof (tk_items (set_nl true s1) items ffb efb) as H3.
  destruct (pr_items ind (set_nl true s1) items ffb efb) as [o3 s3]. cbn [fst] in *.
  rewrite !app_assoc_s. bl. rewrite tk_prelude0 by assumption. lx.
  rewrite tk_prelude0 by (assumption || constructor). lx. rewrite tk_uuid by assumption. lx.
  assert (Hbl2 : blank (if nonempty uc || nonempty vc then LF else "") = true)
    by (destruct (nonempty uc || nonempty vc); reflexivity).
  bl. rewrite tk_prelude0 by (assumption || constructor). lx.
  rewrite H3 by assumption. lx.
  unfold toks_prelude. cbn [map flat_map app]. rewrite !app_nil_r. fin.
Qed.

Lemma tk_const_val : forall c v rest, const_ok c v = true ->
  tokenize (v ++ ");" ++ LF ++ rest) = const_tok c v :: TP PParC :: TP PTerm :: tokenize rest.
Proof.
  intros c v rest H.
  destruct c; cbn [const_ok const_tok] in *;
    first [rewrite tk_int by side | rewrite tk_str by assumption | rewrite tk_uuid by assumption];
    lx; reflexivity.
Qed.

Lemma tk_const : forall s d rest, pk_def (DConst d) ->
  tokenize (fst (pr_const ind s d) ++ rest) = (toks_def (DConst d) ++ tokenize rest)%list.
Proof.
  intros s [c dc name t v] rest [Hc [Hd [Hn Hv]]].
  cbn [cd_comment cd_doc cd_name cd_ty cd_val] in *.
  unfold pr_const, toks_def, W. cbn [cd_comment cd_doc cd_name cd_ty cd_val].
  match goal with |- context [newline_def s KConst ?ml] =>
    pose proof (newline_def_blank s KConst ml) as Hbl;
    destruct (newline_def s KConst ml) as [o1 s1] end.
  cbn [fst] in *. rewrite !app_assoc_s. bl. rewrite tk_prelude0 by assumption. lx.
  rewrite tk_word by (apply ident_ok_cty || reflexivity). lx.
  rewrite (tk_const_val t) by assumption. fin.
Qed.

Lemma tk_newtype : forall s d rest, pk_def (DNewtype d) ->
  tokenize (fst (pr_newtype ind s d) ++ rest) = (toks_def (DNewtype d) ++ tokenize rest)%list.
Proof.
  intros s [c dc a name t] rest [Hc [Hd [Ha [Hn Ht]]]].
  cbn [nd_comment nd_doc nd_attrs nd_name nd_ty] in *.
  unfold pr_newtype, toks_def, W. cbn [nd_comment nd_doc nd_attrs nd_name nd_ty].
  match goal with |- context [newline_def s KNewtype ?ml] =>
    pose proof (newline_def_blank s KNewtype ml) as Hbl;
    destruct (newline_def s KNewtype ml) as [o1 s1] end.
  cbn [fst] in *. rewrite !app_assoc_s. bl. rewrite tk_prelude by assumption. lx.
  rewrite tk_ty by side. lx. fin.
Qed.

Lemma tk_def : forall s d rest, pk_def d ->
  tokenize (fst (pr_def ind s d) ++ rest) = (toks_def d ++ tokenize rest)%list.
Proof.
  intros s [d|d|d|d|d] rest H; unfold pr_def.
  - now apply tk_struct.
  - now apply tk_enum.
  - now apply tk_service.
  - now apply tk_const.
  - now apply tk_newtype.
Qed.

(* ---- imports and the schema ---- *)

Lemma tk_import : forall s i rest, pk_import i ->
  tokenize (fst (pr_import ind s i) ++ rest) = (toks_import i ++ tokenize rest)%list.
Proof.
  intros s [c name] rest [Hc Hn]. cbn [i_comment i_name] in *.
  unfold pr_import, toks_import, W. cbn [i_comment i_name].
  pose proof (newline_with_first_blank s (nonempty c)) as Hb.
  destruct (newline_with_first s (nonempty c)) as [o1 s1]. cbn [fst] in *.
  rewrite !app_assoc_s. bl. rewrite tk_prelude0 by (assumption || constructor). lx.
  unfold toks_prelude. cbn [map flat_map app]. rewrite !app_nil_r. fin.
Qed.

Lemma tk_imports : forall s l rest, Forall pk_import l ->
  tokenize (fst (pr_imports ind s l) ++ rest) =
  (flat_map toks_import (sort_imports l) ++ tokenize rest)%list.
Proof.
  intros s l rest H. unfold pr_imports.
  assert (Hs : Forall pk_import (sort_imports l)).
  { eapply Permutation_Forall; [|exact H]. apply Permutation_sym, sort_imports_perm. }
  pose proof (tk_pr_list (pr_import ind) toks_import pk_import tk_import (sort_imports l) s rest Hs) as H1.
  destruct (pr_list (pr_import ind) s (sort_imports l)) as [o s1]. exact H1.
Qed.

Theorem tk_schema : forall a, printable a -> tokenize (pr_schema ind a) = toks a.
Proof.
  intros [c d imps defs] [Hc [Hd [Hi Hdf]]]. cbn [s_comment s_doc s_imports s_defs] in *.
  unfold pr_schema, toks. cbn [s_comment s_doc s_imports s_defs].
  set (p1 := if nonempty c then (text_lines ind 0 "//" c, set_nl true st0) else ("", st0)).
  assert (H1 : forall R, tokenize (fst p1 ++ R) = (map TComment c ++ tokenize R)%list).
  { intros R. unfold p1. destruct c as [|x c]; [reflexivity|]. cbn [nonempty fst]. now apply tk_comments. }
  destruct p1 as [o1 s1].
  set (p2 := if nonempty d then let '(o, s) := newline s1 in (o ++ text_lines ind 0 "//!" d, set_nl true s)
             else ("", s1)).
  assert (H2 : forall R, tokenize (fst p2 ++ R) = (map TDocIn d ++ tokenize R)%list).
  { intros R. unfold p2. destruct d as [|x d]; [reflexivity|]. cbn [nonempty].
    pose proof (newline_blank s1) as Hb. destruct (newline s1) as [o s]. cbn [fst] in *.
    rewrite app_assoc_s. bl. now apply tk_docins. }
  destruct p2 as [o2 s2].
  pose proof (tk_imports s2 imps) as H3. destruct (pr_imports ind s2 imps) as [o3 s3].
  pose proof (tk_pr_list (pr_def ind) toks_def pk_def tk_def defs s3) as H4.
  destruct (pr_list (pr_def ind) s3 defs) as [o4 s4]. cbn [fst] in *.
  rewrite <- (append_nil_r (o1 ++ o2 ++ o3 ++ o4)). rewrite !app_assoc_s.
  rewrite H1, H2, H3, H4 by assumption. rewrite tokenize_nil, app_nil_r. reflexivity.
Qed.

End Printers.

(* what the formatter prints lexes back to exactly the token stream of the AST *)
Theorem print_tokens : forall a, printable a -> tokenize (print a) = toks a.
Proof. intros a H. unfold print. apply tk_schema; [apply blank_indent_real | assumption]. Qed.
