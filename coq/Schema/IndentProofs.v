(* Schema/IndentProofs.v — every call of Formatter::indent has len <= 12 = INDENT.len():
   the printed text does not depend on what [indent] would do for a larger argument
   ([&INDENT[..len]] cannot go out of bounds). *)
From Coq Require Import String List Bool Arith Lia.
From Aldrin Require Import gen.GrammarTokens Schema.Ast Schema.Token Schema.Printer.
Import ListNotations.
Open Scope string_scope.

Example indent_len_is_12 : fmt_indent_len = 12.
Proof. reflexivity. Qed.

Section Ext.
Variable ind : nat -> string.
Hypothesis H : forall n, n <= 12 -> ind n = indent_real n.

Lemma text_lines_ext : forall i style l, i <= 12 ->
  text_lines ind i style l = text_lines indent_real i style l.
Proof.
  intros. unfold text_lines. f_equal. apply map_ext. intros. unfold text_line. now rewrite H.
Qed.

Lemma pr_prelude_ext : forall cs ds ats i inline, i <= 12 ->
  pr_prelude ind cs ds ats i inline = pr_prelude indent_real cs ds ats i inline.
Proof.
  intros. unfold pr_prelude. rewrite !text_lines_ext by assumption. f_equal. f_equal. f_equal.
  apply map_ext. intros. unfold pr_attr. now rewrite H.
Qed.

Lemma pr_list_ext : forall A (f g : st -> A -> string * st) l s,
  (forall s x, f s x = g s x) -> pr_list f s l = pr_list g s l.
Proof.
  induction l as [|x l IH]; intros s Hfg; [reflexivity|]. cbn [pr_list]. rewrite Hfg.
  destruct (g s x) as [o1 s1]. now rewrite IH.
Qed.

Lemma pr_field_ext : forall i s f, i <= 12 -> pr_field ind i s f = pr_field indent_real i s f.
Proof. intros. unfold pr_field. now rewrite pr_prelude_ext, H. Qed.

Lemma pr_fb_member_ext : forall i s f, i <= 12 -> pr_fb_member ind i s f = pr_fb_member indent_real i s f.
Proof. intros. unfold pr_fb_member. now rewrite pr_prelude_ext, H. Qed.

Lemma pr_variant_ext : forall i s v, i <= 12 -> pr_variant ind i s v = pr_variant indent_real i s v.
Proof. intros. unfold pr_variant. now rewrite pr_prelude_ext, H. Qed.

Lemma pr_fields_ext : forall i s fs fb, i <= 12 -> pr_fields ind i s fs fb = pr_fields indent_real i s fs fb.
Proof.
  intros. unfold pr_fields.
  rewrite (pr_list_ext _ (pr_field ind i) (pr_field indent_real i)) by (intros; now apply pr_field_ext).
  destruct (pr_list _ _ _) as [o1 s1]. destruct fb; cbn [pr_opt]; [now rewrite pr_fb_member_ext | reflexivity].
Qed.

Lemma pr_variants_ext : forall i s vs fb, i <= 12 -> pr_variants ind i s vs fb = pr_variants indent_real i s vs fb.
Proof.
  intros. unfold pr_variants.
  rewrite (pr_list_ext _ (pr_variant ind i) (pr_variant indent_real i)) by (intros; now apply pr_variant_ext).
  destruct (pr_list _ _ _) as [o1 s1]. destruct fb; cbn [pr_opt]; [now rewrite pr_fb_member_ext | reflexivity].
Qed.

Lemma pr_tyinl_ext : forall i s t, i <= 8 -> pr_tyinl ind i s t = pr_tyinl indent_real i s t.
Proof.
  intros i s t Hi. unfold pr_tyinl. destruct t; [reflexivity| |].
  - rewrite pr_prelude_ext, pr_fields_ext, H by lia. reflexivity.
  - rewrite pr_prelude_ext, pr_variants_ext, H by lia. reflexivity.
Qed.

Lemma pr_struct_ext : forall s d, pr_struct ind s d = pr_struct indent_real s d.
Proof.
  intros. unfold pr_struct. destruct (newline_def _ _ _) as [o1 s1].
  rewrite pr_prelude_ext, pr_fields_ext by lia. reflexivity.
Qed.

Lemma pr_enum_ext : forall s d, pr_enum ind s d = pr_enum indent_real s d.
Proof.
  intros. unfold pr_enum. destruct (newline_def _ _ _) as [o1 s1].
  rewrite pr_prelude_ext, pr_variants_ext by lia. reflexivity.
Qed.

Lemma pr_part_ext : forall k s p, pr_part ind k s p = pr_part indent_real k s p.
Proof.
  intros. unfold pr_part. destruct (newline_with_first _ _) as [o1 s1].
  rewrite pr_prelude_ext, pr_tyinl_ext by lia. reflexivity.
Qed.

Lemma pr_opt_part_ext : forall k s o, pr_opt (pr_part ind k) s o = pr_opt (pr_part indent_real k) s o.
Proof. intros. destruct o; cbn [pr_opt]; [apply pr_part_ext | reflexivity]. Qed.

Lemma pr_fn_ext : forall s f, pr_fn ind s f = pr_fn indent_real s f.
Proof.
  intros. unfold pr_fn. rewrite pr_prelude_ext by lia.
  destruct (newline_item _ _ _) as [o1 s1].
  destruct (fn_full_body f).
  - rewrite !pr_opt_part_ext. destruct (pr_opt _ _ (fn_args f)) as [o3 s3].
    rewrite !pr_opt_part_ext. destruct (pr_opt _ _ (fn_ok f)) as [o4 s4].
    rewrite !pr_opt_part_ext. reflexivity.
  - destruct (fn_ok f); [|reflexivity]. rewrite pr_tyinl_ext by lia. reflexivity.
Qed.

Lemma pr_ev_ext : forall s e, pr_ev ind s e = pr_ev indent_real s e.
Proof.
  intros. unfold pr_ev. rewrite pr_prelude_ext by lia.
  destruct (newline_item _ _ _) as [o1 s1].
  destruct (ev_ty e); [|reflexivity]. rewrite pr_tyinl_ext by lia. reflexivity.
Qed.

Lemma pr_item_fb_ext : forall k s f, pr_item_fb ind k s f = pr_item_fb indent_real k s f.
Proof. intros. unfold pr_item_fb. rewrite pr_prelude_ext by lia. reflexivity. Qed.

Lemma pr_items_ext : forall s items f e, pr_items ind s items f e = pr_items indent_real s items f e.
Proof.
  intros. unfold pr_items.
  rewrite (pr_list_ext _ (pr_item ind) (pr_item indent_real)).
  - destruct (pr_list _ _ _) as [o1 s1]. destruct f; rewrite ?pr_item_fb_ext.
    + destruct (pr_item_fb _ _ _ _) as [o2 s2]. destruct e; rewrite ?pr_item_fb_ext; reflexivity.
    + destruct e; rewrite ?pr_item_fb_ext; reflexivity.
  - intros s0 [x|x]; cbn [pr_item]; [apply pr_fn_ext | apply pr_ev_ext].
Qed.

Lemma pr_service_ext : forall s d, pr_service ind s d = pr_service indent_real s d.
Proof.
  intros. unfold pr_service. destruct (newline_def _ _ _) as [o1 s1].
  rewrite !pr_prelude_ext by lia. rewrite pr_items_ext. reflexivity.
Qed.

Lemma pr_def_ext : forall s d, pr_def ind s d = pr_def indent_real s d.
Proof.
  intros s [d|d|d|d|d]; cbn [pr_def].
  - apply pr_struct_ext.
  - apply pr_enum_ext.
  - apply pr_service_ext.
  - unfold pr_const. rewrite pr_prelude_ext by lia. reflexivity.
  - unfold pr_newtype. rewrite pr_prelude_ext by lia. reflexivity.
Qed.

Theorem print_indent_ext : forall a, print_with ind a = print a.
Proof.
  intros a. unfold print, print_with, pr_schema.
  rewrite !text_lines_ext by lia.
  destruct (if nonempty (s_comment a) then _ else _) as [o1 s1].
  destruct (if nonempty (s_doc a) then _ else _) as [o2 s2].
  unfold pr_imports.
  rewrite (pr_list_ext _ (pr_import ind) (pr_import indent_real)).
  - destruct (pr_list _ _ _) as [o3 s3].
    rewrite (pr_list_ext _ (pr_def ind) (pr_def indent_real)) by (intros; apply pr_def_ext).
    reflexivity.
  - intros. unfold pr_import. rewrite pr_prelude_ext by lia. reflexivity.
Qed.

End Ext.
