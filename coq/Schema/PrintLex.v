(* Schema/PrintLex.v — the character level, part 1: fuel-free lexing.
   [lex] runs on fuel; every step consumes at least one byte, so any fuel above the length of
   the text gives the same token list ([tokenize_fuel]).  On top of that: one lemma per lexical
   form telling what [tokenize (piece ++ rest)] is in terms of [tokenize rest] — blanks,
   punctuation, words (ASCII and the classified non-ASCII identifiers), integers (signed),
   strings, uuids, comment / doc lines.  Pieces that end in a word or a number need the next
   character to be a break ([brk_rest]); all others compose with any continuation. *)
From Coq Require Import String Ascii List Bool NArith Arith Lia.
From Aldrin Require Import Schema.Ast Schema.Token Schema.Printer Schema.Lexer Schema.LexerProofs.
Import ListNotations.
Open Scope string_scope.

(* ---------------------------------------------------------------- lengths *)

Lemma slen_cons : forall c r, slen (String c r) = S (slen r).
Proof. reflexivity. Qed.

Lemma drop_len : forall n s, (slen (drop n s) <= slen s)%nat.
Proof.
  induction n as [|n IH]; intros s; cbn [drop]; [lia|].
  destruct s as [|c r]; [cbn; lia|]. rewrite slen_cons. specialize (IH r). lia.
Qed.

Lemma utf8_len_pos : forall c, exists k, utf8_len c = S k.
Proof.
  intros c. unfold utf8_len.
  destruct (between 192 223 c); [now exists 1%nat|].
  destruct (between 224 239 c); [now exists 2%nat|].
  destruct (between 240 247 c); [now exists 3%nat | now exists 0%nat].
Qed.

Lemma drop_utf8_len : forall c r, (slen (drop (utf8_len c) (String c r)) <= slen r)%nat.
Proof. intros c r. destruct (utf8_len_pos c) as [k ->]. cbn [drop]. apply drop_len. Qed.

Lemma take_word_len : forall f s w t, take_word f s = (w, t) -> (slen t <= slen s)%nat.
Proof.
  induction f as [|f IH]; intros s w t H; cbn [take_word] in H.
  - inversion H; subst. lia.
  - destruct s as [|c r]; [inversion H; subst; lia|].
    destruct (is_cont_ascii c).
    + destruct (take_word f r) as [w1 t1] eqn:E. inversion H; subst.
      apply IH in E. rewrite slen_cons. lia.
    + destruct (is_ascii c); [inversion H; subst; lia|].
      destruct (uni_class (String c r)); try (inversion H; subst; lia).
      * destruct (take_word f (drop (utf8_len c) (String c r))) as [w1 t1] eqn:E. inversion H; subst.
        apply IH in E. pose proof (drop_utf8_len c r). rewrite slen_cons. lia.
      * destruct (take_word f (drop (utf8_len c) (String c r))) as [w1 t1] eqn:E. inversion H; subst.
        apply IH in E. pose proof (drop_utf8_len c r). rewrite slen_cons. lia.
Qed.

Lemma take_digits_len : forall s d t, take_digits s = (d, t) -> (slen t <= slen s)%nat.
Proof.
  induction s as [|c r IH]; intros d t H; cbn [take_digits] in H.
  - inversion H; subst. lia.
  - destruct (is_digit c).
    + destruct (take_digits r) as [d1 t1] eqn:E. inversion H; subst.
      specialize (IH _ _ eq_refl). rewrite slen_cons. lia.
    + inversion H; subst. lia.
Qed.

Lemma split_line_len : forall s l t, split_line s = (l, t) -> (slen t <= slen s)%nat.
Proof.
  induction s as [|c r IH]; intros l t H; cbn [split_line] in H.
  - inversion H; subst. lia.
  - destruct (is 10 c).
    + inversion H; subst. rewrite slen_cons. lia.
    + destruct (split_line r) as [a b] eqn:E. inversion H; subst.
      specialize (IH _ _ eq_refl). rewrite slen_cons. lia.
Qed.

Lemma option_map_some : forall {A B} (g : A -> B) o y, option_map g o = Some y ->
  exists x, o = Some x /\ y = g x.
Proof. intros A B g [x|] y H; cbn in H; [inversion H; eauto | discriminate]. Qed.

Lemma lex_string_len : forall f s b t, lex_string f s = Some (b, t) -> (slen t < slen s)%nat.
Proof.
  induction f as [|f IH]; intros s b t H; cbn [lex_string] in H; [discriminate|].
  destruct s as [|c r]; [discriminate|]. rewrite slen_cons.
  destruct (is 34 c); [inversion H; subst; lia|].
  assert (Hrec : forall (g : string * string -> string * string),
             (forall p, snd (g p) = snd p) ->
             option_map g (lex_string f r) = Some (b, t) -> (slen t < S (slen r))%nat).
  { intros g Hg Hm. apply option_map_some in Hm. destruct Hm as [[b1 t1] [E Eq]].
    apply IH in E. specialize (Hg (b1, t1)). rewrite <- Eq in Hg. cbn in Hg. subst. lia. }
  destruct (is 92 c).
  - destruct r as [|c2 r2]; [discriminate|].
    destruct (is 92 c2 || is 34 c2).
    + apply option_map_some in H. destruct H as [[b1 t1] [E Eq]]. inversion Eq; subst.
      apply IH in E. rewrite slen_cons. lia.
    + eapply Hrec; [|exact H]. now intros [? ?].
  - destruct (is 10 c); [discriminate|].
    destruct (is 13 c).
    + destruct r as [|c2 r2]; [discriminate|]. destruct (is 10 c2); [discriminate|].
      eapply Hrec; [|exact H]. now intros [? ?].
    + eapply Hrec; [|exact H]. now intros [? ?].
Qed.

Lemma lex_number_len : forall neg c r tk t, is_digit c = true ->
  lex_number neg (String c r) = (tk, t) -> (slen t <= slen r)%nat.
Proof.
  intros neg c r tk t Hc H. unfold lex_number in H. cbn [take_digits] in H. rewrite Hc in H.
  destruct (take_digits r) as [d t1] eqn:E. apply take_digits_len in E.
  destruct (word_char_next t1).
  - destruct (take_word (S (slen t1)) t1) as [w t2] eqn:E2. apply take_word_len in E2.
    inversion H; subst. lia.
  - inversion H; subst. lia.
Qed.

Lemma nonascii_not_cont : forall c, is_ascii c = false -> is_cont_ascii c = false.
Proof.
  intros c H. unfold is_ascii in H. apply N.ltb_ge in H.
  unfold is_cont_ascii, is_alpha, is_digit, between, is. set (x := code c) in *. solve_cmp.
Qed.

Lemma start_word_len : forall c r w t, (is_alpha c || is 95 c) = true ->
  take_word (S (slen (String c r))) (String c r) = (w, t) -> (slen t <= slen r)%nat.
Proof.
  intros c r w t Hc H. destruct (start_tests c Hc) as [_ [_ [_ [_ [_ [_ T7]]]]]].
  cbn [take_word] in H. rewrite T7 in H.
  destruct (take_word (slen (String c r)) r) as [w1 t1] eqn:E. inversion H; subst.
  now apply take_word_len in E.
Qed.

Lemma ustart_word_len : forall c r w t, is_ascii c = false -> uni_class (String c r) = UStart ->
  take_word (S (slen (String c r))) (String c r) = (w, t) -> (slen t <= slen r)%nat.
Proof.
  intros c r w t Hc Hu H. cbn [take_word] in H.
  rewrite (nonascii_not_cont c Hc), Hc, Hu in H.
  destruct (take_word (slen (String c r)) (drop (utf8_len c) (String c r))) as [w1 t1] eqn:E.
  inversion H; subst. apply take_word_len in E. pose proof (drop_utf8_len c r). lia.
Qed.

(* ---------------------------------------------------------------- fuel irrelevance *)

Ltac len := repeat rewrite slen_cons in *; lia.

Lemma lex_fuel : forall f s g, (slen s < f)%nat -> (slen s < g)%nat -> lex f s = lex g s.
Proof.
  induction f as [|f IH]; intros s g Hf Hg; [lia|]. destruct g as [|g]; [lia|].
  destruct s as [|c r]; [reflexivity|]. rewrite slen_cons in Hf, Hg.
  assert (Hr : forall t, (slen t <= slen r)%nat -> lex f t = lex g t)
    by (intros t Ht; apply IH; lia).
  cbn [lex].
  destruct (is_ascii_ws c); [apply Hr; len|].
  destruct (is_ascii c) eqn:Hasc; cbn [negb].
  2:{ pose proof (drop_utf8_len c r) as Hd.
      destruct (uni_class (String c r)) eqn:Hu; try (f_equal; now apply Hr). now apply Hr.
      destruct (take_word (S (slen (String c r))) (String c r)) as [w t] eqn:E.
      f_equal. apply Hr. eapply ustart_word_len; eassumption. }
  destruct (is 47 c).
  { destruct r as [|c2 r2]; [reflexivity|]. rewrite slen_cons in Hr.
    destruct (is 47 c2); [|f_equal; apply Hr; len].
    destruct r2 as [|c3 r3]; [reflexivity|]. rewrite slen_cons in Hr.
    destruct (is 47 c3).
    { destruct (split_line r3) as [l t] eqn:E. apply split_line_len in E. f_equal. apply Hr. len. }
    destruct (is 33 c3).
    { destruct (split_line r3) as [l t] eqn:E. apply split_line_len in E. f_equal. apply Hr. len. }
    destruct (split_line (String c3 r3)) as [l t] eqn:E. apply split_line_len in E.
    rewrite slen_cons in E. f_equal. apply Hr. len. }
  destruct (is 34 c).
  { destruct (lex_string (S (slen r)) r) as [[b t]|] eqn:E; [|f_equal; apply Hr; len].
    apply lex_string_len in E. f_equal. apply Hr. len. }
  destruct (is_hex c && is_some_string (match_uuid (String c r))).
  { f_equal. apply Hr. change (drop 36 (String c r)) with (drop 35 r). apply drop_len. }
  destruct (is_digit c) eqn:Hdig.
  { destruct (lex_number false (String c r)) as [tk t] eqn:E.
    apply lex_number_len in E; [|assumption]. f_equal. now apply Hr. }
  destruct (is 45 c).
  { destruct r as [|c2 r2]; [reflexivity|]. rewrite slen_cons in Hr.
    destruct (is_digit c2) eqn:Hd2.
    { destruct (lex_number true (String c2 r2)) as [tk t] eqn:E.
      apply lex_number_len in E; [|assumption]. f_equal. apply Hr. len. }
    destruct (is 62 c2); f_equal; apply Hr; len. }
  destruct (is_alpha c || is 95 c) eqn:Hst.
  { destruct (take_word (S (slen (String c r))) (String c r)) as [w t] eqn:E.
    f_equal. apply Hr. eapply start_word_len; eassumption. }
  destruct (is 58 c).
  { destruct r as [|c2 r2]; [reflexivity|]. rewrite slen_cons in Hr.
    destruct (is 58 c2); f_equal; apply Hr; len. }
  destruct (punct_of c); f_equal; apply Hr; len.
Qed.

Lemma tokenize_fuel : forall f s, (slen s < f)%nat -> lex f s = tokenize s.
Proof. intros f s H. unfold tokenize. apply lex_fuel; lia. Qed.

Lemma tokenize_nil : tokenize "" = [].
Proof. reflexivity. Qed.

(* one lexer step, fuel-free *)
Lemma tokenize_step : forall c r, tokenize (String c r) = lex (S (S (slen r))) (String c r).
Proof. reflexivity. Qed.

(* ---------------------------------------------------------------- breaks and blanks *)

(* a character that ends a word or a number and starts neither a comment nor an arrow *)
Definition brk (c : ascii) : bool :=
  is_ascii c && negb (is_cont_ascii c) && negb (is 45 c) && negb (is 47 c).

Definition brk_rest (s : string) : Prop :=
  match s with EmptyString => True | String c _ => brk c = true end.

Lemma brk_facts : forall c, brk c = true ->
  is_ascii c = true /\ is_cont_ascii c = false /\ is 45 c = false /\ is 47 c = false /\
  is_hex c = false /\ is_digit c = false.
Proof.
  intros c H. unfold brk in H.
  apply andb_true_iff in H. destruct H as [H H4]. apply andb_true_iff in H. destruct H as [H H3].
  apply andb_true_iff in H. destruct H as [H1 H2].
  apply negb_true_iff in H2, H3, H4. repeat split; try assumption.
  - unfold is_cont_ascii, is_alpha in H2. unfold is_hex.
    apply orb_false_iff in H2. destruct H2 as [H2 _]. apply orb_false_iff in H2. destruct H2 as [Ha Hd].
    apply orb_false_iff in Ha. destruct Ha as [Hu Hl]. rewrite Hd. cbn [orb].
    unfold between in *. set (x := code c) in *.
    destruct (N.leb_spec 65 x), (N.leb_spec x 90), (N.leb_spec 97 x), (N.leb_spec x 122);
      cbn in Hu, Hl; try discriminate; solve_cmp.
  - unfold is_cont_ascii in H2. apply orb_false_iff in H2. destruct H2 as [H2 _].
    apply orb_false_iff in H2. now destruct H2.
Qed.

Lemma ws_next_brk : forall c r, brk c = true -> ws_next (String c r) = is_ascii_ws c.
Proof.
  intros c r H. destruct (brk_facts c H) as [H1 [_ [_ [H4 _]]]].
  cbn [ws_next]. destruct (is_ascii_ws c); [reflexivity|]. now rewrite H1, H4.
Qed.

Fixpoint blank (s : string) : bool :=
  match s with EmptyString => true | String c r => is_ascii_ws c && blank r end.

Lemma tk_blank : forall s rest, blank s = true -> tokenize (s ++ rest) = tokenize rest.
Proof.
  induction s as [|c r IH]; intros rest H; [reflexivity|].
  cbn [blank] in H. apply andb_true_iff in H. destruct H as [Hc Hr].
  cbn [append]. rewrite tokenize_step. cbn [lex]. rewrite Hc. now apply IH.
Qed.

Lemma blank_app : forall a b, blank a = true -> blank b = true -> blank (a ++ b) = true.
Proof.
  induction a as [|c r IH]; intros b Ha Hb; [assumption|]. cbn [blank append] in *.
  apply andb_true_iff in Ha. destruct Ha as [Hc Hr]. now rewrite Hc, IH.
Qed.

(* ---------------------------------------------------------------- punctuation *)

Lemma punct_codes : forall c p, punct_of c = Some p ->
  In (code c) [59; 61; 40; 41; 60; 62; 35; 91; 93; 44; 123; 125; 64; 33]%N.
Proof.
  intros c p H. unfold punct_of in H. cbn [In].
  repeat match type of H with
  | (if (?a =? ?b)%N then _ else _) = _ => destruct (N.eqb_spec a b) as [E|_]; [rewrite E; tauto|]
  end. discriminate.
Qed.

Lemma tk_punct : forall c p r, punct_of c = Some p -> tokenize (String c r) = TP p :: tokenize r.
Proof.
  intros c p r H. pose proof (punct_codes c p H) as Hc. cbn [In] in Hc.
  rewrite <- (ascii_N_embedding c) in *. unfold code in Hc. rewrite ascii_N_embedding in Hc.
  repeat (destruct Hc as [Hc | Hc];
          [rewrite <- Hc in *; cbn in H; inversion H; subst; reflexivity|]).
  contradiction.
Qed.

(* a literal made of blanks and one-character punctuation only: its tokens *)
Fixpoint plit (s : string) : option (list token) :=
  match s with
  | EmptyString => Some []
  | String c r =>
      if is_ascii_ws c then plit r
      else match punct_of c, plit r with
           | Some p, Some ts => Some (TP p :: ts)
           | _, _ => None
           end
  end.

Lemma tk_plit : forall s ts rest, plit s = Some ts -> tokenize (s ++ rest) = (ts ++ tokenize rest)%list.
Proof.
  induction s as [|c r IH]; intros ts rest H; cbn [plit] in H.
  - inversion H; subst. reflexivity.
  - cbn [append]. destruct (is_ascii_ws c) eqn:Hc.
    + rewrite tokenize_step. cbn [lex]. rewrite Hc. now apply IH.
    + destruct (punct_of c) as [p|] eqn:Hp; [|discriminate].
      destruct (plit r) as [ts1|] eqn:Hr; [|discriminate]. inversion H; subst.
      rewrite (tk_punct c p _ Hp). cbn [app]. f_equal. now apply IH.
Qed.

Lemma tk_arrow : forall r, tokenize (String "-" (String ">" r)) = TP PArrow :: tokenize r.
Proof.
  intros r. rewrite tokenize_step.
  change (lex (S (S (slen (String ">" r)))) (String "-" (String ">" r)))
    with (TP PArrow :: lex (S (slen (String ">" r))) r).
  f_equal. apply tokenize_fuel. len.
Qed.

Lemma tk_scope : forall r, tokenize (String ":" (String ":" r)) = TP PScope :: tokenize r.
Proof.
  intros r. rewrite tokenize_step.
  change (lex (S (S (slen (String ":" r)))) (String ":" (String ":" r)))
    with (TP PScope :: lex (S (slen (String ":" r))) r).
  f_equal. apply tokenize_fuel. len.
Qed.

(* ---------------------------------------------------------------- strings *)

Lemma append_nil_r : forall s : string, s ++ "" = s.
Proof. induction s; cbn; [reflexivity | now rewrite IHs]. Qed.

Lemma slen_app : forall a b, slen (a ++ b) = (slen a + slen b)%nat.
Proof. intros. unfold slen. apply length_append. Qed.

Ltac slia := repeat (rewrite slen_cons in * || rewrite slen_app in *); lia.

Lemma take_drop : forall n s, take n s ++ drop n s = s.
Proof.
  induction n as [|n IH]; intros s; [reflexivity|]. destruct s as [|c r]; [reflexivity|].
  cbn [take drop append]. now rewrite IH.
Qed.

Lemma drop_app : forall n s rest, (n <= slen s)%nat -> drop n (s ++ rest) = drop n s ++ rest.
Proof.
  induction n as [|n IH]; intros s rest H; [reflexivity|]. destruct s as [|c r]; [cbn in H; lia|].
  cbn [append drop]. apply IH. rewrite slen_cons in H. lia.
Qed.

Lemma take_app : forall n s rest, (n <= slen s)%nat -> take n (s ++ rest) = take n s.
Proof.
  induction n as [|n IH]; intros s rest H; [reflexivity|]. destruct s as [|c r]; [cbn in H; lia|].
  cbn [append take]. rewrite IH; [reflexivity|]. rewrite slen_cons in H. lia.
Qed.

(* ---------------------------------------------------------------- non-ASCII classes *)

Lemma code_eq : forall c n, code c = n -> c = ascii_of_N n.
Proof. intros c n H. unfold code in H. rewrite <- H. symmetry. apply ascii_N_embedding. Qed.

Ltac b2p :=
  repeat match goal with
  | H : _ || _ = true |- _ => apply orb_true_iff in H; destruct H as [H | H]
  | H : _ && _ = true |- _ => apply andb_true_iff in H; destruct H as [? H]
  | H : (_ =? _)%N = true |- _ => apply N.eqb_eq in H
  | H : (_ <=? _)%N = true |- _ => apply N.leb_le in H
  | H : (_ <? _)%N = true |- _ => apply N.ltb_lt in H
  end.

Lemma is_eq : forall n c, is n c = true -> c = ascii_of_N n.
Proof. intros n c H. unfold is in H. apply N.eqb_eq in H. now apply code_eq. Qed.

Ltac split_ifs :=
  repeat match goal with
  | |- context [if ?b then _ else _] => destruct b eqn:?
  end.

(* a classified identifier character is complete: its [utf8_len] bytes are there *)
Lemma uni_class_len : forall c r,
  uni_class (String c r) = UStart \/ uni_class (String c r) = UCont ->
  (utf8_len c <= slen (String c r))%nat.
Proof.
  intros a r H. destruct r as [|b r]; [cbn in H; destruct H; discriminate|].
  unfold uni_class in H. rewrite !slen_cons.
  unfold utf8_len, between. set (x := code a) in *. set (y := code b) in *.
  assert (G2 : (192 <= x <= 223)%N -> ((if (192 <=? x)%N && (x <=? 223)%N then 2 else
     if (224 <=? x)%N && (x <=? 239)%N then 3 else if (240 <=? x)%N && (x <=? 247)%N then 4 else 1)
     <= S (S (slen r)))%nat).
  { intros Hx. destruct (N.leb_spec 192 x), (N.leb_spec x 223); cbn [andb]; lia. }
  assert (G3 : (224 <= x <= 239)%N -> forall c r', r = String c r' ->
     ((if (192 <=? x)%N && (x <=? 223)%N then 2 else
     if (224 <=? x)%N && (x <=? 239)%N then 3 else if (240 <=? x)%N && (x <=? 247)%N then 4 else 1)
     <= S (S (slen r)))%nat).
  { intros Hx c r' ->. rewrite slen_cons.
    destruct (N.leb_spec 192 x), (N.leb_spec x 223), (N.leb_spec 224 x), (N.leb_spec x 239);
      cbn [andb]; lia. }
  destruct r as [|c r']; cbv beta iota in H.
  all: repeat match type of H with
  | context [if ?b then _ else _] =>
      let E := fresh "E" in destruct b eqn:E;
      [ try (destruct H; discriminate);
        try (apply G2; b2p; lia);
        try (eapply G3; [b2p; lia | reflexivity]) | ]
  end.
  all: destruct H; discriminate.
Qed.

Lemma uni_class_app : forall s rest, uni_class s <> UOther -> uni_class (s ++ rest) = uni_class s.
Proof.
  intros s rest H. destruct s as [|a [|b [|c r]]]; try (exfalso; apply H; reflexivity).
  - cbn [append]. unfold uni_class in *.
    repeat match goal with
    | |- context [if ?b then _ else _] => destruct b; [reflexivity|]
    end.
    exfalso. apply H.
    repeat match goal with
    | |- context [if ?b then _ else _] => destruct b
    end; reflexivity.
  - reflexivity.
Qed.

Lemma nonascii_tests : forall c, is_ascii c = false ->
  is_ascii_ws c = false /\ is_hex c = false /\ is 45 c = false /\ is_cont_ascii c = false.
Proof.
  intros c H. split; [|split; [|split]]; [| | |now apply nonascii_not_cont].
  all: unfold is_ascii in H; apply N.ltb_ge in H;
    unfold is_ascii_ws, is_hex, is_digit, between, is; set (x := code c) in *; solve_cmp.
Qed.

(* ---------------------------------------------------------------- words *)

(* what [take_word] takes: ASCII identifier characters and classified non-ASCII ones *)
Inductive wordp : string -> Prop :=
| wp_nil : wordp ""
| wp_ascii : forall c r, is_cont_ascii c = true -> wordp r -> wordp (String c r)
| wp_uni : forall c r, is_ascii c = false ->
    uni_class (String c r) = UStart \/ uni_class (String c r) = UCont ->
    wordp (drop (utf8_len c) (String c r)) -> wordp (String c r).

Lemma take_word_wordp : forall f s w, take_word f s = (w, "") -> wordp s.
Proof.
  induction f as [|f IH]; intros s w H; cbn [take_word] in H.
  - inversion H; subst. constructor.
  - destruct s as [|c r]; [constructor|].
    destruct (is_cont_ascii c) eqn:Hc.
    + destruct (take_word f r) as [w1 t1] eqn:E. inversion H; subst.
      apply wp_ascii; [assumption|]. eapply IH; eassumption.
    + destruct (is_ascii c) eqn:Ha; [inversion H|].
      destruct (uni_class (String c r)) eqn:Hu; try (inversion H; fail).
      * destruct (take_word f (drop (utf8_len c) (String c r))) as [w1 t1] eqn:E. inversion H; subst.
        apply wp_uni; [assumption | now left | eapply IH; eassumption].
      * destruct (take_word f (drop (utf8_len c) (String c r))) as [w1 t1] eqn:E. inversion H; subst.
        apply wp_uni; [assumption | now right | eapply IH; eassumption].
Qed.

Lemma take_word_app : forall w, wordp w -> forall rest f, brk_rest rest -> (slen w < f)%nat ->
  take_word f (w ++ rest) = (w, rest).
Proof.
  induction 1 as [| c r Hc Hw IH | c r Ha Hu Hw IH]; intros rest f Hr Hf.
  - destruct f as [|f]; [lia|]. cbn [append take_word]. destruct rest as [|c r]; [reflexivity|].
    cbn in Hr. destruct (brk_facts c Hr) as [H1 [H2 _]]. now rewrite H2, H1.
  - destruct f as [|f]; [lia|]. cbn [append take_word]. rewrite Hc, IH; [reflexivity|assumption|].
    rewrite slen_cons in Hf. lia.
  - destruct f as [|f]; [lia|].
    pose proof (uni_class_len c r Hu) as Hlen.
    assert (Hne : uni_class (String c r) <> UOther) by (destruct Hu as [E|E]; rewrite E; discriminate).
    change (String c r ++ rest) with (String c (r ++ rest)). cbn [take_word].
    rewrite (nonascii_not_cont c Ha), Ha.
    change (String c (r ++ rest)) with (String c r ++ rest).
    rewrite (uni_class_app _ rest Hne), drop_app, take_app by assumption.
    rewrite IH; [|assumption|].
    + rewrite take_drop. destruct Hu as [E|E]; rewrite E; reflexivity.
    + pose proof (drop_utf8_len c r). rewrite slen_cons in Hf. lia.
Qed.

Lemma all_hex_word : forall n w rest, wordp w -> brk_rest rest ->
  all_hex n (w ++ rest) = None \/ exists w', all_hex n (w ++ rest) = Some (w' ++ rest) /\ wordp w'.
Proof.
  induction n as [|n IH]; intros w rest Hw Hr; [right; exists w; split; [reflexivity | assumption]|].
  inversion Hw as [| c r Hc Hw' | c r Ha Hu Hw']; subst; cbn [append all_hex].
  - left. destruct rest as [|c r]; [reflexivity|]. cbn in Hr.
    destruct (brk_facts c Hr) as [_ [_ [_ [_ [H5 _]]]]]. now rewrite H5.
  - destruct (is_hex c); [now apply IH | now left].
  - left. destruct (nonascii_tests c Ha) as [_ [H2 _]]. now rewrite H2.
Qed.

Lemma dash_word : forall w rest, wordp w -> brk_rest rest -> dash (w ++ rest) = None.
Proof.
  intros w rest Hw Hr. inversion Hw as [| c r Hc Hw' | c r Ha Hu Hw']; subst; cbn [append]; unfold dash.
  - destruct rest as [|c r]; [reflexivity|]. cbn in Hr.
    destruct (brk_facts c Hr) as [_ [_ [H3 _]]]. now rewrite H3.
  - now rewrite (cont_not_dash c Hc).
  - destruct (nonascii_tests c Ha) as [_ [_ [H3 _]]]. now rewrite H3.
Qed.

(* a word followed by a break is never the beginning of a uuid *)
Lemma uuid_none_wordp : forall w rest, wordp w -> brk_rest rest -> match_uuid (w ++ rest) = None.
Proof.
  intros w rest Hw Hr. unfold match_uuid.
  destruct (all_hex_word 8 w rest Hw Hr) as [E | [w' [E Hw']]]; rewrite E; [reflexivity|].
  cbn [obind]. now rewrite dash_word.
Qed.

(* the first character of an identifier *)
Definition word_start (w : string) : bool :=
  match w with
  | EmptyString => false
  | String c _ =>
      if is_ascii c then is_alpha c || is 95 c
      else match uni_class w with UStart => true | _ => false end
  end.

(* an identifier as the lexer sees it: starts like one and is one maximal run *)
Definition ident_ok (w : string) : bool :=
  word_start w && String.eqb (snd (take_word (S (slen w)) w)) "".

Lemma ident_ok_wordp : forall w, ident_ok w = true -> wordp w.
Proof.
  intros w H. unfold ident_ok in H. apply andb_true_iff in H. destruct H as [_ H].
  destruct (take_word (S (slen w)) w) as [a b] eqn:E. cbn [snd] in H.
  apply String.eqb_eq in H. subst. eapply take_word_wordp; eassumption.
Qed.

Lemma tk_word : forall w rest, ident_ok w = true -> brk_rest rest ->
  tokenize (w ++ rest) = TWord w (ws_next rest) :: tokenize rest.
Proof.
  intros w rest H Hr. pose proof (ident_ok_wordp w H) as Hw.
  unfold ident_ok in H. apply andb_true_iff in H. destruct H as [Hs _].
  destruct w as [|c r]; [discriminate|]. cbn [word_start] in Hs.
  assert (Htw : take_word (S (slen (String c r ++ rest))) (String c r ++ rest) = (String c r, rest)).
  { apply take_word_app; [assumption | assumption |]. rewrite slen_app. lia. }
  assert (Hfuel : lex (slen (String c r ++ rest)) rest = tokenize rest).
  { apply tokenize_fuel. rewrite slen_app, slen_cons. lia. }
  unfold tokenize at 1. change (String c r ++ rest) with (String c (r ++ rest)) in *.
  destruct (is_ascii c) eqn:Ha.
  - destruct (start_tests c Hs) as [T1 [T2 [T3 [T4 [T5 [T6 T7]]]]]].
    cbn [lex]. rewrite T1, T2. cbn [negb]. rewrite T3, T4.
    change (String c (r ++ rest)) with (String c r ++ rest).
    rewrite (uuid_none_wordp _ _ Hw Hr). cbn [is_some_string]. rewrite andb_false_r, T5, T6, Hs.
    change (String c r ++ rest) with (String c (r ++ rest)). rewrite Htw. now rewrite Hfuel.
  - destruct (nonascii_tests c Ha) as [T1 _].
    destruct (uni_class (String c r)) eqn:Hu; try discriminate.
    cbn [lex]. rewrite T1, Ha. cbn [negb].
    change (String c (r ++ rest)) with (String c r ++ rest).
    rewrite uni_class_app by (rewrite Hu; discriminate). rewrite Hu.
    change (String c r ++ rest) with (String c (r ++ rest)). rewrite Htw. now rewrite Hfuel.
Qed.

Lemma lex_ident_ident_ok : forall w, lex_ident w = true -> ident_ok w = true.
Proof.
  intros [|c r] H; [discriminate|]. cbn [lex_ident] in H. apply andb_true_iff in H. destruct H as [Hc Hr].
  destruct (start_tests c Hc) as [_ [T2 [_ [_ [_ [_ T7]]]]]].
  unfold ident_ok. cbn [word_start]. rewrite T2, Hc. cbn [andb].
  assert (G : forall s f, all_cont s = true -> (slen s < f)%nat -> take_word f s = (s, "")).
  { induction s as [|a s IH]; intros f Hs Hf.
    - destruct f; [lia | reflexivity].
    - destruct f as [|f]; [lia|]. cbn [all_cont] in Hs. apply andb_true_iff in Hs. destruct Hs as [Ha Hs].
      cbn [take_word]. rewrite Ha, IH; [reflexivity | assumption | rewrite slen_cons in Hf; lia]. }
  rewrite G; [reflexivity | cbn [all_cont]; now rewrite T7, Hr | lia].
Qed.

Lemma ident_ok_spec : forall w, ident_ok w = true -> tokenize w = [TWord w true].
Proof.
  intros w H. rewrite <- (append_nil_r w) at 1. rewrite tk_word by (assumption || exact I). reflexivity.
Qed.

(* ---------------------------------------------------------------- integers *)

(* lit_int as the formatter prints it back: an optional minus sign and decimal digits *)
Definition int_ok (s : string) : bool :=
  match s with
  | EmptyString => false
  | String c r => if is 45 c then lex_uint r else lex_uint s
  end.

Lemma digits_wordp : forall d, all_digits d = true -> wordp d.
Proof.
  induction d as [|c r IH]; intros H; [constructor|]. cbn [all_digits] in H.
  apply andb_true_iff in H. destruct H as [Hc Hr]. apply wp_ascii; [now apply digit_cont | now apply IH].
Qed.

Lemma take_digits_brk : forall d rest, all_digits d = true -> brk_rest rest ->
  take_digits (d ++ rest) = (d, rest).
Proof.
  induction d as [|c d IH]; intros rest Hd Hr.
  - destruct rest as [|c r]; [reflexivity|]. cbn in Hr.
    destruct (brk_facts c Hr) as [_ [_ [_ [_ [_ H6]]]]]. cbn [append take_digits]. now rewrite H6.
  - cbn [all_digits] in Hd. apply andb_true_iff in Hd. destruct Hd as [Hc Hd].
    cbn [append take_digits]. now rewrite Hc, IH.
Qed.

Lemma word_char_next_brk : forall rest, brk_rest rest -> word_char_next rest = false.
Proof.
  intros [|c r] H; [reflexivity|]. cbn in H. destruct (brk_facts c H) as [H1 [H2 _]].
  cbn [word_char_next]. now rewrite H2, H1.
Qed.

Lemma lex_number_ok : forall neg d rest, all_digits d = true -> brk_rest rest ->
  lex_number neg (d ++ rest) = (TInt ((if neg then "-" else "") ++ d), rest).
Proof.
  intros neg d rest Hd Hr. unfold lex_number.
  now rewrite take_digits_brk, word_char_next_brk by assumption.
Qed.

Lemma tk_uint : forall d rest, lex_uint d = true -> brk_rest rest ->
  tokenize (d ++ rest) = TInt d :: tokenize rest.
Proof.
  intros [|c r] rest Hd Hr; [discriminate|]. cbn [lex_uint] in Hd.
  assert (Hc : is_digit c = true) by (cbn in Hd; now apply andb_true_iff in Hd).
  destruct (digit_tests c Hc) as [T1 [T2 [T3 T4]]].
  unfold tokenize at 1. change (String c r ++ rest) with (String c (r ++ rest)).
  cbn [lex]. rewrite T1, T2. cbn [negb]. rewrite T3, T4.
  change (String c (r ++ rest)) with (String c r ++ rest).
  rewrite (uuid_none_wordp _ _ (digits_wordp _ Hd) Hr). cbn [is_some_string]. rewrite andb_false_r, Hc.
  rewrite lex_number_ok by assumption. cbn [append]. f_equal.
  apply tokenize_fuel. slia.
Qed.

Lemma tk_int : forall d rest, int_ok d = true -> brk_rest rest ->
  tokenize (d ++ rest) = TInt d :: tokenize rest.
Proof.
  intros [|c r] rest Hd Hr; [discriminate|]. cbn [int_ok] in Hd.
  destruct (is 45 c) eqn:Hm; [|now apply tk_uint].
  apply is_eq in Hm. change (ascii_of_N 45) with "-"%char in Hm. subst c.
  destruct r as [|c2 r2]; [discriminate|].
  assert (Hc : is_digit c2 = true) by (cbn in Hd; now apply andb_true_iff in Hd).
  unfold tokenize. change (String "-" (String c2 r2) ++ rest) with (String "-" (String c2 r2 ++ rest)).
  change (lex (S (slen (String "-" (String c2 r2 ++ rest)))) (String "-" (String c2 r2 ++ rest)))
    with (match String c2 r2 ++ rest with
          | String c2' r2' =>
              if is_digit c2' then let '(tk, t) := lex_number true (String c2 r2 ++ rest) in
                                   tk :: lex (slen (String "-" (String c2 r2 ++ rest))) t
              else if is 62 c2' then TP PArrow :: lex (slen (String "-" (String c2 r2 ++ rest))) r2'
              else TBad :: lex (slen (String "-" (String c2 r2 ++ rest))) (String c2 r2 ++ rest)
          | EmptyString => [TBad]
          end).
  change (String c2 r2 ++ rest) with (String c2 (r2 ++ rest)) at 1. cbv iota. rewrite Hc.
  rewrite lex_number_ok by assumption. f_equal.
  apply tokenize_fuel. slia.
Qed.

Lemma lex_uint_int_ok : forall d, lex_uint d = true -> int_ok d = true.
Proof.
  intros [|c r] H; [discriminate|]. cbn [int_ok].
  assert (Hc : is_digit c = true) by (cbn in H; now apply andb_true_iff in H).
  replace (is 45 c) with false; [assumption|].
  symmetry. apply cont_not_dash. now apply digit_cont.
Qed.

(* ---------------------------------------------------------------- string literals *)

Lemma lex_string_app : forall f s b t rest, lex_string f s = Some (b, t) ->
  lex_string f (s ++ rest) = Some (b, t ++ rest).
Proof.
  induction f as [|f IH]; intros s b t rest H; cbn [lex_string] in H; [discriminate|].
  destruct s as [|c r]; [discriminate|]. cbn [append lex_string].
  destruct (is 34 c); [inversion H; subst; reflexivity|].
  assert (Hrec : forall (g : string * string -> string * string),
            (forall b1 t1, g (b1, t1 ++ rest) = (fst (g (b1, t1)), snd (g (b1, t1)) ++ rest)) ->
            option_map g (lex_string f r) = Some (b, t) ->
            option_map g (lex_string f (r ++ rest)) = Some (b, t ++ rest)).
  { intros g Hg Hm. apply option_map_some in Hm. destruct Hm as [[b1 t1] [E Eq]].
    rewrite (IH _ _ _ rest E). cbn [option_map]. rewrite Hg, <- Eq. reflexivity. }
  destruct (is 92 c).
  - destruct r as [|c2 r2]; [discriminate|]. cbn [append].
    destruct (is 92 c2 || is 34 c2).
    + apply option_map_some in H. destruct H as [[b1 t1] [E Eq]]. inversion Eq; subst.
      now rewrite (IH _ _ _ rest E).
    + change (String c2 (r2 ++ rest)) with (String c2 r2 ++ rest). apply Hrec; [reflexivity | assumption].
  - destruct (is 10 c); [discriminate|].
    destruct (is 13 c).
    + destruct r as [|c2 r2]; [discriminate|]. cbn [append]. destruct (is 10 c2); [discriminate|].
      change (String c2 (r2 ++ rest)) with (String c2 r2 ++ rest). apply Hrec; [reflexivity | assumption].
    + apply Hrec; [reflexivity | assumption].
Qed.

Lemma lex_string_mono : forall f s b t, lex_string f s = Some (b, t) -> lex_string (S f) s = Some (b, t).
Proof.
  induction f as [|f IH]; intros s b t H; [discriminate|].
  remember (S f) as f1. cbn [lex_string]. subst f1. cbn [lex_string] in H.
  destruct s as [|c r]; [discriminate|].
  destruct (is 34 c); [assumption|].
  assert (Hrec : forall (g : string * string -> string * string) r',
            option_map g (lex_string f r') = Some (b, t) ->
            option_map g (lex_string (S f) r') = Some (b, t)).
  { intros g r' Hm. apply option_map_some in Hm. destruct Hm as [[b1 t1] [E Eq]].
    rewrite (IH _ _ _ E). cbn [option_map]. now rewrite Eq. }
  destruct (is 92 c).
  - destruct r as [|c2 r2]; [discriminate|]. destruct (is 92 c2 || is 34 c2); now apply Hrec.
  - destruct (is 10 c); [discriminate|]. destruct (is 13 c).
    + destruct r as [|c2 r2]; [discriminate|]. destruct (is 10 c2); [discriminate|]. now apply Hrec.
    + now apply Hrec.
Qed.

Lemma lex_string_fuel : forall f g s b t, (f <= g)%nat -> lex_string f s = Some (b, t) ->
  lex_string g s = Some (b, t).
Proof. intros f g s b t Hle. induction Hle; intros E; [assumption|]. apply lex_string_mono. now apply IHHle. Qed.

(* lit_string with its quotes: a quote, then a body that [lex_string] closes at its end *)
Definition str_ok (v : string) : bool :=
  match v with
  | EmptyString => false
  | String c b =>
      is 34 c && match lex_string (S (slen b)) b with
                 | Some (b', t) => String.eqb b' b && String.eqb t ""
                 | None => false
                 end
  end.

Lemma tk_str : forall v rest, str_ok v = true -> tokenize (v ++ rest) = TStr v :: tokenize rest.
Proof.
  intros [|c b] rest H; [discriminate|]. cbn [str_ok] in H. apply andb_true_iff in H. destruct H as [Hq H].
  destruct (lex_string (S (slen b)) b) as [[b' t]|] eqn:E; [|discriminate].
  apply andb_true_iff in H. destruct H as [Hb Ht].
  apply String.eqb_eq in Hb, Ht. subst b' t.
  apply is_eq in Hq. change (ascii_of_N 34) with """"%char in Hq. subst c.
  assert (E2 : lex_string (S (slen (b ++ rest))) (b ++ rest) = Some (b, rest)).
  { apply (lex_string_app _ _ _ _ rest) in E. cbn [append] in E.
    eapply lex_string_fuel; [|exact E]. rewrite slen_app. lia. }
  unfold tokenize. change (String """" b ++ rest) with (String """" (b ++ rest)).
  change (lex (S (slen (String """" (b ++ rest)))) (String """" (b ++ rest)))
    with (match lex_string (S (slen (b ++ rest))) (b ++ rest) with
          | Some (b0, t) => TStr (String """" b0) :: lex (slen (String """" (b ++ rest))) t
          | None => TBad :: lex (slen (String """" (b ++ rest))) (b ++ rest)
          end).
  rewrite E2. f_equal. apply tokenize_fuel. slia.
Qed.

(* ---------------------------------------------------------------- uuids *)

Lemma all_hex_app : forall n s t rest, all_hex n s = Some t -> all_hex n (s ++ rest) = Some (t ++ rest).
Proof.
  induction n as [|n IH]; intros s t rest H; cbn [all_hex] in *; [inversion H; reflexivity|].
  destruct s as [|c r]; [discriminate|]. cbn [append]. destruct (is_hex c); [now apply IH | discriminate].
Qed.

Lemma all_hex_len : forall n s t, all_hex n s = Some t -> slen s = (n + slen t)%nat.
Proof.
  induction n as [|n IH]; intros s t H; cbn [all_hex] in *; [inversion H; reflexivity|].
  destruct s as [|c r]; [discriminate|]. destruct (is_hex c); [|discriminate].
  rewrite slen_cons, (IH _ _ H). lia.
Qed.

Lemma dash_app : forall s t rest, dash s = Some t -> dash (s ++ rest) = Some (t ++ rest).
Proof.
  intros [|c r] t rest H; [discriminate|]. cbn [append dash] in *. destruct (is 45 c); [|discriminate].
  inversion H; reflexivity.
Qed.

Lemma dash_len : forall s t, dash s = Some t -> slen s = S (slen t).
Proof. intros [|c r] t H; [discriminate|]. cbn [dash] in H. destruct (is 45 c); [|discriminate]. now inversion H. Qed.

Lemma obind_some : forall {A B} (o : option A) (g : A -> option B) y, obind o g = Some y ->
  exists x, o = Some x /\ g x = Some y.
Proof. intros A B [x|] g y H; [eauto | discriminate]. Qed.

Lemma match_uuid_app : forall s t rest, match_uuid s = Some t -> match_uuid (s ++ rest) = Some (t ++ rest).
Proof.
  intros s t rest H. unfold match_uuid in *.
  repeat (let E := fresh "E" in apply obind_some in H; destruct H as [? [E H]];
          first [rewrite (all_hex_app _ _ _ rest E) | rewrite (dash_app _ _ rest E)]; cbn [obind]).
  now apply all_hex_app.
Qed.

Lemma match_uuid_len : forall s t, match_uuid s = Some t -> slen s = (36 + slen t)%nat.
Proof.
  intros s t H. unfold match_uuid in H.
  repeat (let E := fresh "E" in apply obind_some in H; destruct H as [? [E H]];
          first [apply all_hex_len in E | apply dash_len in E]).
  apply all_hex_len in H. lia.
Qed.

(* lit_uuid: exactly the 8-4-4-4-12 form *)
Definition uuid_ok (v : string) : bool :=
  match match_uuid v with Some t => String.eqb t "" | None => false end.

Lemma take_all : forall s rest, take (String.length s) (s ++ rest) = s.
Proof. induction s as [|c r IH]; intros rest; cbn; [reflexivity | now rewrite IH]. Qed.

Lemma drop_all : forall s rest, drop (String.length s) (s ++ rest) = rest.
Proof. induction s as [|c r IH]; intros rest; cbn; [reflexivity | apply IH]. Qed.

Lemma hex_tests : forall c, is_hex c = true ->
  is_ascii_ws c = false /\ is_ascii c = true /\ is 47 c = false /\ is 34 c = false.
Proof.
  intros c H. unfold is_hex, is_digit in H. unfold is_ascii_ws, is_ascii, between, is in *.
  set (x := code c) in *. b2p; repeat split; solve_cmp.
Qed.

Lemma tk_uuid : forall v rest, uuid_ok v = true -> tokenize (v ++ rest) = TUuid v :: tokenize rest.
Proof.
  intros v rest H. unfold uuid_ok in H. destruct (match_uuid v) as [t|] eqn:E; [|discriminate].
  apply String.eqb_eq in H. subst t.
  pose proof (match_uuid_len _ _ E) as Hl. pose proof (match_uuid_app _ _ rest E) as Ea.
  cbn [append] in Ea. change (slen "") with 0%nat in Hl. rewrite Nat.add_0_r in Hl.
  destruct v as [|c r]; [discriminate|].
  assert (Hc : is_hex c = true).
  { unfold match_uuid in E. cbn [all_hex] in E. destruct (is_hex c); [reflexivity | discriminate]. }
  destruct (hex_tests c Hc) as [T1 [T2 [T3 T4]]].
  unfold tokenize at 1. change (String c r ++ rest) with (String c (r ++ rest)) in *.
  cbn [lex]. rewrite T1, T2. cbn [negb]. rewrite T3, T4, Hc, Ea. cbn [is_some_string andb].
  change (String c (r ++ rest)) with (String c r ++ rest).
  unfold slen in Hl. rewrite <- Hl, take_all, drop_all. f_equal.
  apply tokenize_fuel. slia.
Qed.

(* ---------------------------------------------------------------- comment and doc lines *)

Fixpoint no_lf (s : string) : bool :=
  match s with EmptyString => true | String c r => negb (is 10 c) && no_lf r end.

(* a comment / doc text as [value_inner] returns it: one line, nothing to trim at its end *)
Definition text_ok (s : string) : bool := no_lf s && String.eqb (trim_end s) s.

Lemma split_line_ok : forall s rest, no_lf s = true -> split_line (s ++ LF ++ rest) = (s, rest).
Proof.
  induction s as [|c r IH]; intros rest H; [reflexivity|].
  cbn [no_lf] in H. apply andb_true_iff in H. destruct H as [Hc Hr]. apply negb_true_iff in Hc.
  cbn [append split_line]. rewrite Hc. now rewrite IH.
Qed.

(* the text of a comment / doc line after its marker, as fn comment / fn doc_impl write it *)
Definition line_body (s : string) : string := if String.eqb s "" then "" else " " ++ s.

Lemma inner_body : forall s, text_ok s = true -> inner (line_body s) = s.
Proof.
  intros s H. unfold text_ok in H. apply andb_true_iff in H. destruct H as [_ H].
  apply String.eqb_eq in H. unfold line_body. destruct (String.eqb_spec s "") as [->|_]; [reflexivity|].
  exact H.
Qed.

Lemma no_lf_body : forall s, text_ok s = true -> no_lf (line_body s) = true.
Proof.
  intros s H. unfold text_ok in H. apply andb_true_iff in H. destruct H as [H _].
  unfold line_body. destruct (String.eqb s ""); [reflexivity | exact H].
Qed.

Lemma body_first : forall s rest, text_ok s = true ->
  exists c r, line_body s ++ LF ++ rest = String c r /\ is 47 c = false /\ is 33 c = false.
Proof.
  intros s rest _. unfold line_body. destruct (String.eqb s ""); cbn [append LF]; eauto.
Qed.

Lemma tk_comment_line : forall s rest, text_ok s = true ->
  tokenize ("//" ++ line_body s ++ LF ++ rest) = TComment s :: tokenize rest.
Proof.
  intros s rest H. destruct (body_first s rest H) as [c [r [E [H1 H2]]]].
  pose proof (split_line_ok _ rest (no_lf_body s H)) as Hs. rewrite E in Hs.
  unfold tokenize. cbn [append]. rewrite E.
  change (lex (S (slen (String "/" (String "/" (String c r))))) (String "/" (String "/" (String c r))))
    with (if is 47 c then let '(l, t) := split_line r in TDoc (inner l) :: lex (slen (String "/" (String "/" (String c r)))) t
          else if is 33 c then let '(l, t) := split_line r in TDocIn (inner l) :: lex (slen (String "/" (String "/" (String c r)))) t
          else let '(l, t) := split_line (String c r) in TComment (inner l) :: lex (slen (String "/" (String "/" (String c r)))) t).
  rewrite H1, H2, Hs, (inner_body s H). f_equal. apply tokenize_fuel.
  rewrite <- E. slia.
Qed.

Lemma tk_marker_line : forall (m : ascii) (mk : string -> token) s rest,
  (forall f r3, lex (S f) (String "/" (String "/" (String m r3))) =
                let '(l, t) := split_line r3 in mk (inner l) :: lex f t) ->
  text_ok s = true ->
  tokenize (String "/" (String "/" (String m (line_body s ++ LF ++ rest)))) = mk s :: tokenize rest.
Proof.
  intros m mk s rest Hm H. unfold tokenize. rewrite Hm.
  rewrite (split_line_ok _ rest (no_lf_body s H)), (inner_body s H). f_equal.
  apply tokenize_fuel. rewrite !slen_cons, !slen_app. lia.
Qed.

Lemma tk_doc_line : forall s rest, text_ok s = true ->
  tokenize ("///" ++ line_body s ++ LF ++ rest) = TDoc s :: tokenize rest.
Proof. intros s rest H. apply (tk_marker_line "/" TDoc); [reflexivity | assumption]. Qed.

Lemma tk_docin_line : forall s rest, text_ok s = true ->
  tokenize ("//!" ++ line_body s ++ LF ++ rest) = TDocIn s :: tokenize rest.
Proof. intros s rest H. apply (tk_marker_line "!" TDocIn); [reflexivity | assumption]. Qed.
