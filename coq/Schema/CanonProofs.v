(* Schema/CanonProofs.v — the canonical form: the import sort is idempotent, hence [canon] is,
   and the formatter (tokens and text) does not distinguish an AST from its canonical form. *)
From Coq Require Import String List Bool Arith Lia Permutation.
From Aldrin Require Import Schema.Ast Schema.Token Schema.Printer Schema.Lexer Schema.Parser
  Schema.ParserProofs.
Import ListNotations.
Open Scope string_scope.
Open Scope list_scope.

(* sorted by name: no element is strictly greater than its successor *)
Fixpoint sorted_imports (l : list import) : Prop :=
  match l with
  | [] => True
  | x :: l' => match l' with
               | [] => True
               | y :: _ => String.ltb (i_name y) (i_name x) = false
               end /\ sorted_imports l'
  end.

Lemma ltb_asym : forall a b, String.ltb a b = true -> String.ltb b a = false.
Proof.
  intros a b H. unfold String.ltb in *. rewrite String.compare_antisym.
  destruct (String.compare a b); try discriminate. reflexivity.
Qed.

Lemma insert_sorted : forall x l, sorted_imports l -> sorted_imports (insert_import x l).
Proof.
  induction l as [|y l IH]; intros Hs; cbn [insert_import].
  - cbn. auto.
  - destruct (String.ltb (i_name y) (i_name x)) eqn:Hlt.
    + cbn [sorted_imports] in Hs. destruct Hs as [Hhd Hs]. specialize (IH Hs).
      cbn [sorted_imports]. split; [|assumption].
      destruct l as [|z l]; cbn [insert_import] in *.
      * now apply ltb_asym.
      * destruct (String.ltb (i_name z) (i_name x)); [assumption | now apply ltb_asym].
    + cbn [sorted_imports]. split; [assumption | exact Hs].
Qed.

Lemma sort_sorted : forall l, sorted_imports (sort_imports l).
Proof.
  induction l as [|x l IH]; cbn; [exact I|]. now apply insert_sorted.
Qed.

Lemma sort_of_sorted : forall l, sorted_imports l -> sort_imports l = l.
Proof.
  induction l as [|x l IH]; intros Hs; [reflexivity|].
  cbn [sort_imports fold_right]. fold (sort_imports l).
  cbn [sorted_imports] in Hs. destruct Hs as [Hhd Hs]. rewrite IH by assumption.
  destruct l as [|y l]; [reflexivity|]. cbn [insert_import]. now rewrite Hhd.
Qed.

Lemma sort_imports_idem : forall l, sort_imports (sort_imports l) = sort_imports l.
Proof. intros. apply sort_of_sorted, sort_sorted. Qed.

Theorem canon_idem : forall a, canon (canon a) = canon a.
Proof. intros a. unfold canon. cbn. now rewrite sort_imports_idem. Qed.

Theorem toks_canon : forall a, toks (canon a) = toks a.
Proof. intros a. unfold toks, canon. cbn. now rewrite sort_imports_idem. Qed.

Theorem print_with_canon : forall ind a, print_with ind (canon a) = print_with ind a.
Proof.
  intros ind a. unfold print_with, pr_schema, canon. cbn [s_comment s_doc s_imports s_defs].
  unfold pr_imports. now rewrite sort_imports_idem.
Qed.

Theorem print_canon : forall a, print (canon a) = print a.
Proof. intros. apply print_with_canon. Qed.

(* the import sort only permutes *)
Lemma insert_perm : forall x l, Permutation (insert_import x l) (x :: l).
Proof.
  induction l as [|y l IH]; cbn [insert_import]; [apply Permutation_refl|].
  destruct (String.ltb (i_name y) (i_name x)).
  - eapply perm_trans; [apply perm_skip, IH | apply perm_swap].
  - apply Permutation_refl.
Qed.

Theorem sort_imports_perm : forall l, Permutation (sort_imports l) l.
Proof.
  induction l as [|x l IH]; cbn; [constructor|]. fold (sort_imports l).
  eapply perm_trans; [apply insert_perm | now apply perm_skip].
Qed.

(* canonical ASTs are well-formed when the original is, and re-parse to themselves *)
Lemma wf_canon : forall a, wf_ast a -> wf_ast (canon a).
Proof. intros a [H1 H2]. split; assumption. Qed.

Theorem parse_toks_fixpoint : forall a, wf_ast a -> parse_toks (toks (canon a)) = Some (canon a).
Proof. intros a H. rewrite toks_canon. now apply parse_toks_toks. Qed.
