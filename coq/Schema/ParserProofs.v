(* Schema/ParserProofs.v — the token-level round trip: [parse_toks (toks a) = Some (canon a)] for
   every well-formed AST, by structural induction over the AST on token lists. *)
From Coq Require Import String List Bool Arith Lia.
From Aldrin Require Import Schema.Ast Schema.Token Schema.Printer Schema.Parser.
Import ListNotations.
Open Scope string_scope.
Open Scope list_scope.

(* ---------------------------------------------------------------- well-formedness *)

(* the first identifier of a type reference must not start with a bare type keyword *)
Definition wf_nref (r : nref) : Prop :=
  match r with Intern n => bare_prefixed n = false | Extern s _ => bare_prefixed s = false end.

Fixpoint wf_ty (t : ty) : Prop :=
  match t with
  | TPrim _ => True
  | TGen _ a => wf_ty a
  | TMap k v => wf_ty k /\ wf_ty v
  | TResult a b => wf_ty a /\ wf_ty b
  | TArray a _ => wf_ty a
  | TRef r => wf_nref r
  end.

(* a field that is not [required] must not be called "required" *)
Definition wf_field (f : field) : Prop :=
  wf_ty (f_ty f) /\ (f_req f = false -> f_name f <> "required").

Definition wf_variant (v : variant) : Prop :=
  match v_ty v with Some t => wf_ty t | None => True end.

Definition wf_tyinl (t : tyinl) : Prop :=
  match t with
  | ITy t => wf_ty t
  | IStruct _ _ fs _ => Forall wf_field fs
  | IEnum _ _ vs _ => Forall wf_variant vs
  end.

Definition wf_part (o : option part) : Prop :=
  match o with Some p => wf_tyinl (p_ty p) | None => True end.

Definition wf_item (i : item) : Prop :=
  match i with
  | IFn f => wf_part (fn_args f) /\ wf_part (fn_ok f) /\ wf_part (fn_err f)
  | IEv e => match ev_ty e with Some t => wf_tyinl t | None => True end
  end.

Definition wf_def (d : def) : Prop :=
  match d with
  | DStruct d => Forall wf_field (sd_fields d)
  | DEnum d => Forall wf_variant (ed_vars d)
  | DService d => Forall wf_item (sv_items d)
  | DConst _ => True
  | DNewtype d => wf_ty (nd_ty d)
  end.

(* the grammar attaches leading comments to the schema only in front of a [//!] line *)
Definition wf_ast (a : schema) : Prop :=
  (s_doc a = [] -> s_comment a = []) /\ Forall wf_def (s_defs a).

(* ---------------------------------------------------------------- generic PEG lemmas *)

Lemma many_stop : forall A (p : parser A) n ts, p ts = None -> many n p ts = Some ([], ts).
Proof. intros A p n ts H. destruct n; cbn [many]; [reflexivity | now rewrite H]. Qed.

Lemma many_ok : forall A (p : parser A) (tk : A -> list token) xs n r,
  (forall x r', In x xs -> p (tk x ++ r') = Some (x, r')) ->
  p r = None -> length xs < n ->
  many n p (flat_map tk xs ++ r) = Some (xs, r).
Proof.
  induction xs as [|x xs IH]; intros n r Hp Hr Hn; cbn [flat_map app].
  - now apply many_stop.
  - destruct n as [|m]; [cbn in Hn; lia|]. cbn [many].
    rewrite <- app_assoc, (Hp x) by now left.
    rewrite IH; [reflexivity | | assumption | cbn in Hn; lia].
    intros y r' Hy. apply Hp. now right.
Qed.

Lemma flat_map_length_le : forall A (tk : A -> list token) xs,
  (forall x, In x xs -> 1 <= length (tk x)) -> length xs <= length (flat_map tk xs).
Proof.
  induction xs as [|x xs IH]; intros H; cbn [flat_map length]; [lia|].
  rewrite app_length. specialize (H x (or_introl eq_refl)) as H1.
  assert (length xs <= length (flat_map tk xs)) by (apply IH; intros; apply H; now right). lia.
Qed.

Definition not_comment (ts : list token) : Prop :=
  match ts with TComment _ :: _ => False | _ => True end.

Lemma comments_ok : forall cs n r, not_comment r -> length cs < n ->
  comments n (map TComment cs ++ r) = Some (cs, r).
Proof.
  unfold comments. induction cs as [|c cs IH]; intros n r Hr Hn; cbn [map app].
  - apply many_stop. destruct r as [|[] r]; cbn in *; try reflexivity. contradiction.
  - destruct n as [|m]; [cbn in Hn; lia|]. cbn [many comment].
    rewrite IH; [reflexivity | assumption | cbn in Hn; lia].
Qed.

(* ---------------------------------------------------------------- named references, types *)

Definition not_scope (ts : list token) : Prop :=
  match ts with TP PScope :: _ => False | _ => True end.

Lemma named_ref_ok : forall r sp rest, not_scope rest ->
  named_ref (toks_nref r sp ++ rest) = Some (r, rest).
Proof.
  intros [n | s n] sp rest H; cbn.
  - destruct rest as [|[] rest]; try reflexivity. destruct p; try reflexivity. contradiction.
  - reflexivity.
Qed.

Lemma array_len_ok : forall l rest, not_scope rest ->
  array_len (toks_alen l ++ rest) = Some (l, rest).
Proof.
  intros [s | r] rest H; cbn [toks_alen]; [reflexivity|].
  unfold array_len, alt, bind, lit_int.
  rewrite named_ref_ok by assumption.
  destruct r; reflexivity.
Qed.

(* what may follow a type name: neither [<] nor [::] *)
Definition ty_follow (ts : list token) : Prop :=
  match ts with TP PAngO :: _ | TP PScope :: _ => False | _ => True end.

Lemma ty_follow_scope : forall ts, ty_follow ts -> not_scope ts.
Proof. intros [|[] ts]; cbn; auto. destruct p; auto. Qed.

Lemma find_prim_str : forall p, find_prim (prim_str p) = Some p.
Proof. destruct p; reflexivity. Qed.

Lemma bare_prefixed_prim : forall p, bare_prefixed (prim_str p) = true.
Proof. destruct p; reflexivity. Qed.

Lemma find_gen1_str : forall g, find_gen1 (gen1_str g) = Some g.
Proof. destruct g; reflexivity. Qed.

Lemma bare_prefixed_gen1 : forall g, bare_prefixed (gen1_str g) = false.
Proof. destruct g; reflexivity. Qed.

(* a word that is not bare-prefixed and is followed by neither [<] nor anything the generic
   alternatives accept falls through to named_ref *)
Lemma type_name_word_ref : forall m w sp rest x rest',
  bare_prefixed w = false ->
  named_ref (TWord w sp :: rest) = Some (x, rest') ->
  (match rest with TP PAngO :: _ => False | _ => True end) ->
  type_name (S m) (TWord w sp :: rest) = Some (TRef x, rest').
Proof.
  intros m w sp rest x rest' Hb Hn Hr. cbn [type_name]. rewrite Hb.
  unfold alt.
  assert (Hgen : forall (q : parser ty), (kw w ;;; tokp PAngO ;;; q) (TWord w sp :: rest) = None).
  { intros q. unfold bind, kw. rewrite String.eqb_refl.
    destruct rest as [|[] rest]; try reflexivity. destruct p; try reflexivity. contradiction. }
  destruct (find_gen1 w).
  - rewrite Hgen. unfold bind. rewrite Hn. reflexivity.
  - destruct (w =? "map").
    + rewrite Hgen. unfold bind. rewrite Hn. reflexivity.
    + destruct (w =? "result").
      * rewrite Hgen. unfold bind. rewrite Hn. reflexivity.
      * unfold fail, bind. rewrite Hn. reflexivity.
Qed.

Lemma type_name_ok : forall t sp n rest,
  wf_ty t -> ty_follow rest -> length (toks_ty t sp) <= n ->
  type_name n (toks_ty t sp ++ rest) = Some (t, rest).
Proof.
  induction t as [p | g a IHa | k IHk v IHv | a IHa b IHb | a IHa l | r];
    intros sp n rest Hwf Hf Hn; (destruct n as [|m]; [cbn in Hn; try lia; destruct r; cbn in Hn; lia|]).
  - cbn [toks_ty app type_name]. unfold W. rewrite bare_prefixed_prim, find_prim_str. reflexivity.
  - cbn [toks_ty app type_name]. unfold W. rewrite bare_prefixed_gen1, find_gen1_str.
    unfold alt, bind, kw. rewrite String.eqb_refl. cbn [tokp punct_eqb].
    cbn [toks_ty length] in Hn. rewrite app_length in Hn. cbn [length] in Hn.
    rewrite <- app_assoc, (IHa false m) by (cbn; auto; lia). cbn. reflexivity.
  - cbn [toks_ty app type_name]. unfold W.
    change (bare_prefixed "map") with false. change (find_gen1 "map") with (@None gen1).
    change ("map" =? "map") with true. cbv iota.
    unfold alt, bind, kw. change ("map" =? "map") with true. cbn [tokp punct_eqb].
    cbn [toks_ty length wf_ty] in Hn, Hwf. rewrite !app_length in Hn. cbn [length] in Hn.
    rewrite app_length in Hn. cbn [length] in Hn.
    rewrite <- app_assoc. rewrite (IHk true m) by (cbn; intuition; lia).
    cbn [app tokp punct_eqb]. rewrite <- app_assoc, (IHv false m) by (cbn; intuition; lia).
    cbn. reflexivity.
  - cbn [toks_ty app type_name]. unfold W.
    change (bare_prefixed "result") with false. change (find_gen1 "result") with (@None gen1).
    change ("result" =? "map") with false. change ("result" =? "result") with true. cbv iota.
    unfold alt, bind, kw. change ("result" =? "result") with true. cbn [tokp punct_eqb].
    cbn [toks_ty length wf_ty] in Hn, Hwf. rewrite !app_length in Hn. cbn [length] in Hn.
    rewrite app_length in Hn. cbn [length] in Hn.
    rewrite <- app_assoc. rewrite (IHa false m) by (cbn; intuition; lia).
    cbn [app tokp punct_eqb]. rewrite <- app_assoc, (IHb false m) by (cbn; intuition; lia).
    cbn. reflexivity.
  - cbn [toks_ty app type_name]. unfold bind. cbn [tokp punct_eqb].
    cbn [toks_ty length wf_ty] in Hn, Hwf. rewrite !app_length in Hn. cbn [length] in Hn.
    rewrite <- app_assoc. rewrite (IHa false m) by (cbn; auto; lia).
    cbn [app tokp punct_eqb]. rewrite <- app_assoc, array_len_ok by (cbn; auto).
    cbn. reflexivity.
  - cbn [toks_ty]. destruct r as [w | s w]; cbn [toks_nref app]; unfold W; cbn [wf_ty wf_nref] in Hwf.
    + apply type_name_word_ref; [assumption | | ].
      * apply (named_ref_ok (Intern w) sp rest). now apply ty_follow_scope.
      * destruct rest as [|[] rest]; auto. destruct p; auto.
    + apply type_name_word_ref; [assumption | | exact I].
      apply (named_ref_ok (Extern s w) sp rest). now apply ty_follow_scope.
Qed.

(* ---------------------------------------------------------------- attributes and preludes *)

Ltac norm := repeat (progress (cbn [app]; rewrite <- ?app_assoc)).

Ltac len_tac :=
  repeat (rewrite ?app_length, ?map_length in *; cbn [length] in *); try lia.

Lemma toks_opts_cons : forall o os,
  toks_opts (o :: os) = W o false :: flat_map (fun x => [TP PComma; W x false]) os.
Proof.
  intros o os. revert o. induction os as [|o2 os IH]; intro o; [reflexivity|].
  cbn [toks_opts flat_map app]. rewrite <- IH. reflexivity.
Qed.

Lemma toks_opts_length : forall os, length os <= length (toks_opts os).
Proof.
  induction os as [|o os IH]; [cbn; lia|]. destruct os as [|o2 os]; [cbn; lia|].
  change (toks_opts (o :: o2 :: os)) with (W o false :: TP PComma :: toks_opts (o2 :: os)).
  cbn [length] in *. lia.
Qed.

Lemma attribute_ok : forall inline a n r,
  length (toks_attr inline a) < n ->
  attribute n inline (toks_attr inline a ++ r) = Some (a, r).
Proof.
  intros inline [name opts] n r Hn. unfold toks_attr, attribute in *. cbn [a_name a_opts] in *.
  assert (Hhead : forall (q : parser attr) rest,
    (tokp PHash ;;; (if inline then tokp PExcl else ret tt) ;;; tokp PSquO ;;; q)
      ((TP PHash :: (if inline then [TP PExcl] else []) ++ TP PSquO :: rest)) = q rest).
  { intros q rest. destruct inline; reflexivity. }
  norm.
  rewrite Hhead. unfold bind at 1. cbn [ident W].
  destruct opts as [|o os]; cbn [nonempty app].
  - reflexivity.
  - rewrite toks_opts_cons. cbn [app]. unfold bind at 1, opt at 1.
    unfold bind at 1. cbn [tokp punct_eqb]. unfold bind at 1. cbn [ident W].
    unfold bind at 1. rewrite <- app_assoc.
    rewrite (many_ok _ (tokp PComma ;;; ident) (fun x => [TP PComma; W x false])).
    + cbn. reflexivity.
    + intros x r' _. reflexivity.
    + reflexivity.
    + rewrite toks_opts_cons in Hn. 
      assert (length os <= length (flat_map (fun x => [TP PComma; W x false]) os)).
      { apply flat_map_length_le. intros; cbn; lia. }
      cbn [nonempty] in Hn. destruct inline; len_tac.
Qed.

Definition starts_pitem (c d a inline : bool) (ts : list token) : bool :=
  match ts with
  | TComment _ :: _ => c
  | TDoc _ :: _ => d && negb inline
  | TDocIn _ :: _ => d && inline
  | TP PHash :: _ => a
  | _ => false
  end.

Lemma pitem_none : forall n c d a inline ts,
  starts_pitem c d a inline ts = false -> pitem_p n c d a inline ts = None.
Proof.
  intros n c d a inline ts H. unfold pitem_p, alt, bind, fail, attribute, bind.
  destruct ts as [|t ts]; [destruct c, d, a, inline; reflexivity|].
  destruct t as [ | | | |p| | | | | ]; try destruct p;
    destruct c, d, a, inline; cbn in H; try discriminate H; reflexivity.
Qed.

Definition pitem_toks (inline : bool) (i : pitem) : list token :=
  match i with
  | PiC s => [TComment s]
  | PiD s => [if inline then TDocIn s else TDoc s]
  | PiA a => toks_attr inline a
  end.

Lemma flat_map_app' : forall A B (f : A -> list B) l1 l2,
  flat_map f (l1 ++ l2) = flat_map f l1 ++ flat_map f l2.
Proof. intros. apply flat_map_app. Qed.

Lemma flat_map_map : forall A B C (g : A -> B) (f : B -> list C) l,
  flat_map f (map g l) = flat_map (fun x => f (g x)) l.
Proof. induction l; cbn; [reflexivity | now rewrite IHl]. Qed.

Lemma flat_map_single : forall A B (g : A -> B) l, flat_map (fun x => [g x]) l = map g l.
Proof. induction l; cbn; [reflexivity | now rewrite IHl]. Qed.

Lemma flat_map_nil : forall A B (l : list A), flat_map (fun _ => @nil B) l = [].
Proof. induction l; cbn; auto. Qed.

Lemma toks_attr_length : forall inline a, 1 <= length (toks_attr inline a).
Proof. intros. unfold toks_attr. cbn [length]. lia. Qed.

Lemma flat_map_elem_length : forall A (tk : A -> list token) xs x,
  In x xs -> length (tk x) <= length (flat_map tk xs).
Proof.
  induction xs as [|y xs IH]; intros x H; [contradiction|]. cbn [flat_map]. rewrite app_length.
  destruct H as [-> | H]; [lia|]. specialize (IH x H). lia.
Qed.

Lemma prelude_ok : forall n c d a inline cs ds ats r,
  (cs = [] \/ c = true) -> (ds = [] \/ d = true) -> (ats = [] \/ a = true) ->
  starts_pitem c d a inline r = false ->
  length (toks_prelude cs ds ats inline) < n ->
  prelude n c d a inline (toks_prelude cs ds ats inline ++ r) = Some ((cs, ds, ats), r).
Proof.
  intros n c d a inline cs ds ats r Hc Hd Ha Hr Hn.
  set (l := map PiC cs ++ map PiD ds ++ map PiA ats).
  assert (Htoks : toks_prelude cs ds ats inline = flat_map (pitem_toks inline) l).
  { unfold l, toks_prelude. rewrite !flat_map_app', !flat_map_map. cbn [pitem_toks].
    rewrite !flat_map_single. destruct inline; reflexivity. }
  unfold prelude, bind. rewrite Htoks.
  rewrite (many_ok _ (pitem_p n c d a inline) (pitem_toks inline)).
  - unfold ret, l, pi_comments, pi_docs, pi_attrs.
    rewrite !flat_map_app', !flat_map_map, !flat_map_single, !flat_map_nil, !map_id, !app_nil_r.
    reflexivity.
  - intros x r' Hx. unfold l in Hx. apply in_app_or in Hx. destruct Hx as [Hx | Hx].
    + apply in_map_iff in Hx. destruct Hx as [s [<- Hs]].
      destruct Hc as [-> | ->]; [contradiction|]. reflexivity.
    + apply in_app_or in Hx. destruct Hx as [Hx | Hx].
      * apply in_map_iff in Hx. destruct Hx as [s [<- Hs]].
        destruct Hd as [-> | ->]; [contradiction|].
        unfold pitem_p, alt, bind, fail. cbn [pitem_toks app].
        destruct c, inline; reflexivity.
      * apply in_map_iff in Hx. destruct Hx as [s [<- Hs]].
        destruct Ha as [-> | ->]; [contradiction|].
        unfold pitem_p, alt, bind, fail. cbn [pitem_toks].
        assert (Hlen : length (toks_attr inline s) < n).
        { rewrite Htoks in Hn.
          pose proof (flat_map_elem_length _ (pitem_toks inline) l (PiA s)) as H1.
          cbn [pitem_toks] in H1. assert (In (PiA s) l).
          { unfold l. apply in_or_app. right. apply in_or_app. right. now apply in_map. }
          specialize (H1 H). lia. }
        rewrite attribute_ok by assumption.
        assert (Hhd : exists rest, toks_attr inline s ++ r' = TP PHash :: rest) by (eexists; reflexivity).
        destruct Hhd as [rest ->]. destruct c, d, inline; reflexivity.
  - now apply pitem_none.
  - rewrite Htoks in Hn.
    assert (length l <= length (flat_map (pitem_toks inline) l)).
    { apply flat_map_length_le. intros [s|s|s] _; cbn [pitem_toks length]; try lia. apply toks_attr_length. }
    lia.
Qed.

(* ---------------------------------------------------------------- struct / enum members *)

Lemma toks_prelude_nil_attrs : forall cs ds inline,
  toks_prelude cs ds [] inline = map TComment cs ++ map (if inline then TDocIn else TDoc) ds.
Proof. intros. unfold toks_prelude. cbn [flat_map]. now rewrite app_nil_r. Qed.

Lemma struct_field_ok : forall f n r, wf_field f -> length (toks_field f) < n ->
  struct_field n (toks_field f ++ r) = Some (f, r).
Proof.
  intros [c d req name id t] n r [Hty Hreq] Hn. unfold toks_field, struct_field in *.
  cbn [f_comment f_doc f_req f_name f_id f_ty] in *.
  unfold bind at 1. rewrite <- app_assoc.
  rewrite prelude_ok; [| auto | auto | auto | destruct req; reflexivity | len_tac].
  cbn [fst snd]. unfold bind at 1, opt at 1.
  assert (Hty' : forall rest, type_name n (toks_ty t false ++ TP PTerm :: rest) = Some (t, TP PTerm :: rest)).
  { intros rest. apply type_name_ok; [assumption | exact I | destruct req; len_tac]. }
  destruct req; norm; cbn [kw_ws W].
  - change ("required" =? "required") with true. cbv iota.
    unfold bind. cbn [ident tokp punct_eqb lit_int W]. rewrite Hty'. cbn. reflexivity.
  - assert (Hne : (name =? "required") = false) by (apply String.eqb_neq; auto).
    rewrite Hne. unfold bind. cbn [ident tokp punct_eqb lit_int W]. rewrite Hty'. cbn. reflexivity.
Qed.

Lemma member_fallback_ok : forall f n r, length (toks_fb_member f) < n ->
  member_fallback n (toks_fb_member f ++ r) = Some (f, r).
Proof.
  intros [c d name] n r Hn. unfold toks_fb_member, member_fallback in *.
  cbn [fb_comment fb_doc fb_name] in *.
  unfold bind at 1. rewrite <- app_assoc.
  rewrite prelude_ok; [| auto | auto | auto | reflexivity | len_tac].
  cbn. reflexivity.
Qed.

Lemma enum_variant_ok : forall v n r, wf_variant v -> length (toks_variant v) < n ->
  enum_variant n (toks_variant v ++ r) = Some (v, r).
Proof.
  intros [c d name id t] n r Hwf Hn. unfold toks_variant, enum_variant, wf_variant in *.
  cbn [v_comment v_doc v_name v_id v_ty] in *.
  unfold bind at 1. rewrite <- app_assoc.
  rewrite prelude_ok; [| auto | auto | auto | reflexivity | len_tac].
  cbn [fst snd]. norm. unfold bind at 1. cbn [ident W]. unfold bind at 1. cbn [tokp punct_eqb].
  unfold bind at 1. cbn [lit_int]. unfold bind at 1, opt at 1.
  destruct t as [t|]; norm.
  - unfold bind at 1. cbn [tokp punct_eqb].
    rewrite type_name_ok; [| assumption | exact I | len_tac].
    cbn. reflexivity.
  - cbn. reflexivity.
Qed.

(* a member (field, variant, member fallback) starts with a comment, a doc string or a word *)
Definition member_start (ts : list token) : Prop :=
  match ts with TComment _ :: _ | TDoc _ :: _ | TWord _ _ :: _ => True | _ => False end.

Lemma prelude_member_start : forall cs ds w sp rest r,
  member_start ((toks_prelude cs ds [] false ++ TWord w sp :: rest) ++ r).
Proof.
  intros. rewrite toks_prelude_nil_attrs. destruct cs; [destruct ds|]; exact I.
Qed.

Lemma field_start : forall f r, member_start (toks_field f ++ r).
Proof.
  intros f r. unfold toks_field. destruct (f_req f); cbn [app]; apply prelude_member_start.
Qed.

Lemma variant_start : forall v r, member_start (toks_variant v ++ r).
Proof. intros v r. unfold toks_variant. apply prelude_member_start. Qed.

Lemma fb_member_start : forall f r, member_start (toks_fb_member f ++ r).
Proof. intros f r. unfold toks_fb_member. apply prelude_member_start. Qed.

Lemma member_start_inline : forall ts, member_start ts -> starts_pitem false true true true ts = false.
Proof. intros [|[] ts] H; try reflexivity; contradiction. Qed.

(* the repetition of fields stops at the fallback / at [}] *)
Lemma struct_field_stops_fb : forall f n r, length (toks_fb_member f) < n ->
  struct_field n (toks_fb_member f ++ r) = None.
Proof.
  intros [c d name] n r Hn. unfold toks_fb_member, struct_field in *.
  cbn [fb_comment fb_doc fb_name] in *.
  unfold bind at 1. rewrite <- app_assoc.
  rewrite prelude_ok; [| auto | auto | auto | reflexivity | len_tac].
  cbn [fst snd app]. unfold bind at 1, opt at 1. cbn [kw_ws W].
  destruct (name =? "required"); reflexivity.
Qed.

Lemma struct_field_stops_close : forall n r, struct_field n (TP PCurC :: r) = None.
Proof.
  intros n r. unfold struct_field, bind at 1, prelude, bind at 1.
  rewrite many_stop by (apply pitem_none; reflexivity). reflexivity.
Qed.

Lemma enum_variant_stops_fb : forall f n r, length (toks_fb_member f) < n ->
  enum_variant n (toks_fb_member f ++ r) = None.
Proof.
  intros [c d name] n r Hn. unfold toks_fb_member, enum_variant in *.
  cbn [fb_comment fb_doc fb_name] in *.
  unfold bind at 1. rewrite <- app_assoc.
  rewrite prelude_ok; [| auto | auto | auto | reflexivity | len_tac].
  reflexivity.
Qed.

Lemma enum_variant_stops_close : forall n r, enum_variant n (TP PCurC :: r) = None.
Proof.
  intros n r. unfold enum_variant, bind at 1, prelude, bind at 1.
  rewrite many_stop by (apply pitem_none; reflexivity). reflexivity.
Qed.

Lemma member_fallback_stops_close : forall n r, member_fallback n (TP PCurC :: r) = None.
Proof.
  intros n r. unfold member_fallback, bind at 1, prelude, bind at 1.
  rewrite many_stop by (apply pitem_none; reflexivity). reflexivity.
Qed.

Lemma toks_field_length : forall f, 1 <= length (toks_field f).
Proof. intros f. unfold toks_field. destruct (f_req f); len_tac. Qed.
Lemma toks_variant_length : forall v, 1 <= length (toks_variant v).
Proof. intros v. unfold toks_variant. len_tac. Qed.

(* the body of a struct: fields, optional fallback, [}] *)
Lemma struct_body_ok : forall A (k : list field -> option fallback -> parser A) fs fb n r,
  Forall wf_field fs ->
  length (flat_map toks_field fs ++ toks_optl toks_fb_member fb ++ [TP PCurC]) < n ->
  (fs' <- many n (struct_field n) ;; fb' <- opt (member_fallback n) ;; tokp PCurC ;;; k fs' fb')
    (flat_map toks_field fs ++ toks_optl toks_fb_member fb ++ TP PCurC :: r) = k fs fb r.
Proof.
  intros A k fs fb n r Hwf Hn. unfold bind at 1.
  assert (Hlen : length fs <= length (flat_map toks_field fs)).
  { apply flat_map_length_le. intros; apply toks_field_length. }
  rewrite (many_ok _ (struct_field n) toks_field).
  - unfold bind at 1, opt. destruct fb as [f|]; cbn [toks_optl].
    + rewrite <- ?app_assoc. rewrite member_fallback_ok by (cbn [toks_optl] in Hn; len_tac). reflexivity.
    + cbn [app]. rewrite member_fallback_stops_close. reflexivity.
  - intros x r' Hx. apply struct_field_ok.
    + rewrite Forall_forall in Hwf. now apply Hwf.
    + pose proof (flat_map_elem_length _ toks_field fs x Hx). len_tac.
  - destruct fb as [f|]; cbn [toks_optl app].
    + rewrite <- ?app_assoc. apply struct_field_stops_fb. cbn [toks_optl] in Hn. len_tac.
    + apply struct_field_stops_close.
  - len_tac.
Qed.

Lemma enum_body_ok : forall A (k : list variant -> option fallback -> parser A) vs fb n r,
  Forall wf_variant vs ->
  length (flat_map toks_variant vs ++ toks_optl toks_fb_member fb ++ [TP PCurC]) < n ->
  (vs' <- many n (enum_variant n) ;; fb' <- opt (member_fallback n) ;; tokp PCurC ;;; k vs' fb')
    (flat_map toks_variant vs ++ toks_optl toks_fb_member fb ++ TP PCurC :: r) = k vs fb r.
Proof.
  intros A k vs fb n r Hwf Hn. unfold bind at 1.
  assert (Hlen : length vs <= length (flat_map toks_variant vs)).
  { apply flat_map_length_le. intros; apply toks_variant_length. }
  rewrite (many_ok _ (enum_variant n) toks_variant).
  - unfold bind at 1, opt. destruct fb as [f|]; cbn [toks_optl].
    + rewrite <- ?app_assoc. rewrite member_fallback_ok by (cbn [toks_optl] in Hn; len_tac). reflexivity.
    + cbn [app]. rewrite member_fallback_stops_close. reflexivity.
  - intros x r' Hx. apply enum_variant_ok.
    + rewrite Forall_forall in Hwf. now apply Hwf.
    + pose proof (flat_map_elem_length _ toks_variant vs x Hx). len_tac.
  - destruct fb as [f|]; cbn [toks_optl app].
    + rewrite <- ?app_assoc. apply enum_variant_stops_fb. cbn [toks_optl] in Hn. len_tac.
    + apply enum_variant_stops_close.
  - len_tac.
Qed.

(* ---------------------------------------------------------------- type_name_or_inline *)

Lemma struct_body_start : forall fs fb r,
  starts_pitem false true true true
    (flat_map toks_field fs ++ toks_optl toks_fb_member fb ++ TP PCurC :: r) = false.
Proof.
  intros [|f fs] fb r; cbn [flat_map app].
  - destruct fb as [f|]; cbn [toks_optl app]; [|reflexivity].
    apply member_start_inline, fb_member_start.
  - rewrite <- app_assoc. apply member_start_inline, field_start.
Qed.

Lemma enum_body_start : forall vs fb r,
  starts_pitem false true true true
    (flat_map toks_variant vs ++ toks_optl toks_fb_member fb ++ TP PCurC :: r) = false.
Proof.
  intros [|v vs] fb r; cbn [flat_map app].
  - destruct fb as [f|]; cbn [toks_optl app]; [|reflexivity].
    apply member_start_inline, fb_member_start.
  - rewrite <- app_assoc. apply member_start_inline, variant_start.
Qed.

(* [struct {] / [enum {] is not a type name followed by [;] *)
Lemma type_name_kw_curly : forall n w rest, bare_prefixed w = false ->
  (t <- type_name n ;; tokp PTerm ;;; ret (ITy t)) (TWord w true :: TP PCurO :: rest) = None.
Proof.
  intros n w rest Hb. unfold bind at 1. destruct n as [|m]; [reflexivity|].
  rewrite (type_name_word_ref m w true (TP PCurO :: rest) (Intern w) (TP PCurO :: rest));
    [reflexivity | assumption | reflexivity | exact I].
Qed.

Lemma type_name_or_inline_ok : forall t n r, wf_tyinl t -> length (toks_tyinl t) < n ->
  type_name_or_inline n (toks_tyinl t ++ r) = Some (t, r).
Proof.
  intros [t | d a fs fb | d a vs fb] n r Hwf Hn; unfold type_name_or_inline, toks_tyinl in *;
    cbn [wf_tyinl] in Hwf.
  - unfold alt, bind at 1. rewrite <- app_assoc.
    rewrite type_name_ok; [reflexivity | assumption | exact I | len_tac].
  - unfold alt at 1. unfold W. cbn [app]. rewrite type_name_kw_curly by reflexivity.
    unfold alt at 1. unfold struct_inline. unfold bind at 1. cbn [kw_ws].
    change ("struct" =? "struct") with true. cbv iota. unfold bind at 1. cbn [tokp punct_eqb].
    unfold bind at 1. norm.
    rewrite prelude_ok; [| auto | auto | auto | apply struct_body_start | len_tac].
    cbn [fst snd].
    rewrite (struct_body_ok _ (fun fs0 fb0 => ret (IStruct d a fs0 fb0))); [reflexivity | assumption | len_tac].
  - unfold alt at 1. unfold W. cbn [app]. rewrite type_name_kw_curly by reflexivity.
    unfold alt at 1. unfold struct_inline at 1. unfold bind at 1. cbn [kw_ws].
    change ("enum" =? "struct") with false. cbv iota.
    unfold enum_inline. unfold bind at 1. cbn [kw_ws].
    change ("enum" =? "enum") with true. cbv iota. unfold bind at 1. cbn [tokp punct_eqb].
    unfold bind at 1. norm.
    rewrite prelude_ok; [| auto | auto | auto | apply enum_body_start | len_tac].
    cbn [fst snd].
    rewrite (enum_body_ok _ (fun vs0 fb0 => ret (IEnum d a vs0 fb0))); [reflexivity | assumption | len_tac].
Qed.

(* ---------------------------------------------------------------- service items *)

Lemma toks_prelude_comments : forall cs inline, toks_prelude cs [] [] inline = map TComment cs.
Proof. intros. unfold toks_prelude. cbn. now rewrite app_nil_r. Qed.

Lemma fn_part_ok : forall k p n r, wf_tyinl (p_ty p) -> length (toks_part k p) < n ->
  fn_part n k (toks_part k p ++ r) = Some (p, r).
Proof.
  intros k [c t] n r Hwf Hn. unfold toks_part, fn_part in *. cbn [p_comment p_ty] in *.
  rewrite toks_prelude_comments in *. unfold bind at 1. rewrite <- app_assoc.
  rewrite comments_ok; [| exact I | len_tac].
  unfold W. cbn [app]. unfold bind at 1. cbn [kw]. rewrite String.eqb_refl.
  unfold bind at 1. cbn [tokp punct_eqb]. unfold bind at 1.
  rewrite type_name_or_inline_ok; [reflexivity | assumption | len_tac].
Qed.

Lemma fn_part_stop_part : forall k k' p n r, (k' =? k) = false -> length (toks_part k' p) < n ->
  fn_part n k (toks_part k' p ++ r) = None.
Proof.
  intros k k' [c t] n r Hk Hn. unfold toks_part, fn_part in *. cbn [p_comment p_ty] in *.
  rewrite toks_prelude_comments in *. unfold bind at 1. rewrite <- app_assoc.
  rewrite comments_ok; [| exact I | len_tac].
  unfold W. cbn [app]. unfold bind at 1. cbn [kw]. rewrite Hk. reflexivity.
Qed.

Lemma fn_part_stop_close : forall k n r, fn_part n k (TP PCurC :: r) = None.
Proof.
  intros. unfold fn_part, bind at 1, comments. rewrite many_stop by reflexivity. reflexivity.
Qed.

Lemma opt_fn_part_ok : forall k o n rest, wf_part o ->
  fn_part n k rest = None -> length (toks_optl (toks_part k) o) < n ->
  opt (fn_part n k) (toks_optl (toks_part k) o ++ rest) = Some (o, rest).
Proof.
  intros k [p|] n rest Hwf Hnone Hn; unfold opt; cbn [toks_optl app].
  - rewrite fn_part_ok; [reflexivity | exact Hwf | exact Hn].
  - now rewrite Hnone.
Qed.

Lemma fn_part_none2 : forall k k1 k2 o1 o2 n r,
  (k1 =? k) = false -> (k2 =? k) = false ->
  length (toks_optl (toks_part k1) o1 ++ toks_optl (toks_part k2) o2) < n ->
  fn_part n k (toks_optl (toks_part k1) o1 ++ toks_optl (toks_part k2) o2 ++ TP PCurC :: r) = None.
Proof.
  intros k k1 k2 [p1|] [p2|] n r H1 H2 Hn; cbn [toks_optl app] in *.
  - rewrite <- ?app_assoc. apply fn_part_stop_part; [assumption | len_tac].
  - apply fn_part_stop_part; [assumption | len_tac].
  - apply fn_part_stop_part; [assumption | len_tac].
  - apply fn_part_stop_close.
Qed.

Lemma fn_part_none1 : forall k k1 o1 n r,
  (k1 =? k) = false -> length (toks_optl (toks_part k1) o1) < n ->
  fn_part n k (toks_optl (toks_part k1) o1 ++ TP PCurC :: r) = None.
Proof.
  intros k k1 [p1|] n r H1 Hn; cbn [toks_optl app] in *.
  - apply fn_part_stop_part; [assumption | len_tac].
  - apply fn_part_stop_close.
Qed.

Lemma nonempty_false : forall A (l : list A), nonempty l = false -> l = [].
Proof. destruct l; [reflexivity | discriminate]. Qed.

Lemma fn_def_ok : forall f n r, wf_item (IFn f) -> length (toks_fn f) < n ->
  fn_def n (toks_fn f ++ r) = Some (IFn f, r).
Proof.
  intros [c d name id args ok err] n r [Ha [Ho He]] Hn. unfold toks_fn, fn_def in *.
  cbn [fn_comment fn_doc fn_name fn_id fn_args fn_ok fn_err] in *.
  unfold bind at 1. rewrite <- app_assoc.
  rewrite prelude_ok; [| auto | auto | auto | reflexivity | len_tac].
  cbn [fst snd]. unfold W. cbn [app].
  unfold bind at 1. cbn [kw_ws]. change ("fn" =? "fn") with true. cbv iota.
  unfold bind at 1. cbn [ident]. unfold bind at 1. cbn [tokp punct_eqb].
  unfold bind at 1. cbn [lit_int]. unfold bind at 1.
  unfold fn_full_body in *. cbn [fn_args fn_ok fn_err] in *.
  destruct (is_some args || part_has_comment ok || is_some err) eqn:Hfull.
  - (* { args ok err } *)
    cbn [app]. unfold fn_body, alt at 1. unfold bind at 1. cbn [tokp punct_eqb].
    unfold bind at 1. rewrite <- !app_assoc.
    rewrite opt_fn_part_ok; [| assumption | apply fn_part_none2; [reflexivity | reflexivity | len_tac] | len_tac].
    unfold bind at 1.
    rewrite opt_fn_part_ok; [| assumption | apply fn_part_none1; [reflexivity | len_tac] | len_tac].
    unfold bind at 1.
    rewrite opt_fn_part_ok; [| assumption | apply fn_part_stop_close | len_tac].
    reflexivity.
  - apply orb_false_elim in Hfull. destruct Hfull as [Hfull Herr].
    apply orb_false_elim in Hfull. destruct Hfull as [Hargs Hok].
    destruct args; [discriminate|]. destruct err; [discriminate|].
    destruct ok as [[oc ot]|].
    + cbn [part_has_comment p_comment] in Hok. apply nonempty_false in Hok. subst oc.
      cbn [p_ty app]. unfold fn_body, alt at 1. unfold bind at 1. cbn [tokp punct_eqb].
      unfold alt at 1. unfold bind at 1. cbn [tokp punct_eqb]. unfold bind at 1.
      rewrite type_name_or_inline_ok; [reflexivity | exact Ho | cbn [p_ty] in Hn; len_tac].
    + reflexivity.
Qed.

Lemma event_def_ok : forall e n r, wf_item (IEv e) -> length (toks_ev e) < n ->
  event_def n (toks_ev e ++ r) = Some (IEv e, r).
Proof.
  intros [c d name id t] n r Hwf Hn. unfold toks_ev, event_def in *. cbn [wf_item] in Hwf.
  cbn [ev_comment ev_doc ev_name ev_id ev_ty] in *.
  unfold bind at 1. rewrite <- app_assoc.
  rewrite prelude_ok; [| auto | auto | auto | reflexivity | len_tac].
  cbn [fst snd]. unfold W. cbn [app].
  unfold bind at 1. cbn [kw_ws]. change ("event" =? "event") with true. cbv iota.
  unfold bind at 1. cbn [ident]. unfold bind at 1. cbn [tokp punct_eqb].
  unfold bind at 1. cbn [lit_int]. unfold bind at 1.
  destruct t as [t|]; cbn [app].
  - unfold alt at 1. unfold bind at 1. cbn [tokp punct_eqb]. unfold bind at 1.
    rewrite type_name_or_inline_ok; [reflexivity | assumption | len_tac].
  - reflexivity.
Qed.

Lemma item_fallback_ok : forall k f n r, length (toks_item_fb k f) < n ->
  item_fallback n k (toks_item_fb k f ++ r) = Some (f, r).
Proof.
  intros k [c d name] n r Hn. unfold toks_item_fb, item_fallback in *.
  cbn [fb_comment fb_doc fb_name] in *.
  unfold bind at 1. rewrite <- app_assoc.
  rewrite prelude_ok; [| auto | auto | auto | reflexivity | len_tac].
  cbn [fst snd]. unfold W. cbn [app]. unfold bind at 1. cbn [kw_ws]. rewrite String.eqb_refl.
  reflexivity.
Qed.

(* failing alternatives: a parser that wants keyword [k] after the prelude, on tokens whose
   prelude is followed by another word *)
Lemma item_fallback_wrong_kw : forall k k' f n r, (k' =? k) = false ->
  length (toks_item_fb k' f) < n -> item_fallback n k (toks_item_fb k' f ++ r) = None.
Proof.
  intros k k' [c d name] n r Hk Hn. unfold toks_item_fb, item_fallback in *.
  cbn [fb_comment fb_doc fb_name] in *.
  unfold bind at 1. rewrite <- app_assoc.
  rewrite prelude_ok; [| auto | auto | auto | reflexivity | len_tac].
  cbn [fst snd]. unfold W. cbn [app]. unfold bind at 1. cbn [kw_ws]. rewrite Hk. reflexivity.
Qed.

Lemma item_fallback_close : forall k n r, item_fallback n k (TP PCurC :: r) = None.
Proof.
  intros. unfold item_fallback, bind at 1, prelude, bind at 1.
  rewrite many_stop by (apply pitem_none; reflexivity). reflexivity.
Qed.

Definition service_item (n : nat) : parser item := alt (fn_def n) (event_def n).

Lemma service_item_ok : forall i n r, wf_item i -> length (toks_item i) < n ->
  service_item n (toks_item i ++ r) = Some (i, r).
Proof.
  intros [f|e] n r Hwf Hn; unfold service_item, alt; cbn [toks_item] in *.
  - now rewrite fn_def_ok.
  - assert (Hfn : fn_def n (toks_ev e ++ r) = None).
    { destruct e as [c d name id t]. unfold toks_ev, fn_def in *.
      cbn [ev_comment ev_doc ev_name ev_id ev_ty] in *.
      unfold bind at 1. rewrite <- app_assoc.
      rewrite prelude_ok; [| auto | auto | auto | reflexivity | len_tac]. reflexivity. }
    rewrite Hfn. now apply event_def_ok.
Qed.

Lemma fn_def_stops_fb : forall k f n r, (k = "fn" \/ k = "event") ->
  length (toks_item_fb k f) < n -> fn_def n (toks_item_fb k f ++ r) = None.
Proof.
  intros k [c d name] n r Hk Hn. unfold toks_item_fb, fn_def in *.
  cbn [fb_comment fb_doc fb_name] in *.
  unfold bind at 1. rewrite <- app_assoc.
  rewrite prelude_ok; [| auto | auto | auto | reflexivity | len_tac].
  destruct Hk as [-> | ->]; reflexivity.
Qed.

Lemma event_def_stops_fb : forall k f n r, (k = "fn" \/ k = "event") ->
  length (toks_item_fb k f) < n -> event_def n (toks_item_fb k f ++ r) = None.
Proof.
  intros k [c d name] n r Hk Hn. unfold toks_item_fb, event_def in *.
  cbn [fb_comment fb_doc fb_name] in *.
  unfold bind at 1. rewrite <- app_assoc.
  rewrite prelude_ok; [| auto | auto | auto | reflexivity | len_tac].
  destruct Hk as [-> | ->]; reflexivity.
Qed.

Lemma service_item_stops_fb : forall k f n r, (k = "fn" \/ k = "event") ->
  length (toks_item_fb k f) < n -> service_item n (toks_item_fb k f ++ r) = None.
Proof.
  intros. unfold service_item, alt. rewrite fn_def_stops_fb by assumption.
  now apply event_def_stops_fb.
Qed.

Lemma service_item_stops_close : forall n r, service_item n (TP PCurC :: r) = None.
Proof.
  intros. unfold service_item, alt.
  assert (H1 : fn_def n (TP PCurC :: r) = None).
  { unfold fn_def, bind at 1, prelude, bind at 1.
    rewrite many_stop by (apply pitem_none; reflexivity). reflexivity. }
  rewrite H1. unfold event_def, bind at 1, prelude, bind at 1.
  rewrite many_stop by (apply pitem_none; reflexivity). reflexivity.
Qed.

Lemma toks_item_length : forall i, 1 <= length (toks_item i).
Proof. intros [f|e]; cbn [toks_item]; unfold toks_fn, toks_ev; len_tac. Qed.

(* the tail of a service body: fallbacks and [}] *)
Lemma service_tail_ok : forall A (k : option fallback -> option fallback -> parser A) ffb efb n r,
  length (toks_optl (toks_item_fb "fn") ffb ++ toks_optl (toks_item_fb "event") efb) < n ->
  (fb <- opt (service_fallback n) ;; tokp PCurC ;;;
   k (match fb with Some x => fst x | None => None end) (match fb with Some x => snd x | None => None end))
    (toks_optl (toks_item_fb "fn") ffb ++ toks_optl (toks_item_fb "event") efb ++ TP PCurC :: r)
  = k ffb efb r.
Proof.
  intros A k [f|] [e|] n r Hn; cbn [toks_optl app] in *; unfold bind at 1, opt, service_fallback, alt.
  - unfold bind at 1. rewrite <- ?app_assoc. rewrite item_fallback_ok by len_tac.
    unfold bind at 1, opt. rewrite item_fallback_ok by len_tac. reflexivity.
  - unfold bind at 1. rewrite item_fallback_ok by len_tac.
    unfold bind at 1, opt. rewrite item_fallback_close. reflexivity.
  - unfold bind at 1. rewrite item_fallback_wrong_kw by (reflexivity || len_tac).
    unfold bind at 1. rewrite item_fallback_ok by len_tac.
    unfold bind at 1, opt. rewrite item_fallback_close. reflexivity.
  - unfold bind at 1. rewrite item_fallback_close.
    unfold bind at 1. rewrite item_fallback_close. reflexivity.
Qed.

(* ---------------------------------------------------------------- definitions *)

Lemma toks_prelude_split : forall cs ds ats inline,
  toks_prelude cs ds ats inline = toks_prelude cs ds [] inline ++ flat_map (toks_attr inline) ats.
Proof. intros. unfold toks_prelude. cbn [flat_map]. now rewrite app_nil_r, <- app_assoc. Qed.

(* a definition parser that wants keyword [k] fails on a definition that starts with [k'] *)
Lemma wrong_def : forall A (q : list string * list string * list attr -> parser A) a k k' cs ds ats rest n,
  (k' =? k) = false -> length (toks_prelude cs ds ats false) < n ->
  (p <- prelude n true true a false ;; kw_ws k ;;; q p)
    (toks_prelude cs ds ats false ++ TWord k' true :: rest) = None.
Proof.
  intros A q a k k' cs ds ats rest n Hk Hn. unfold bind at 1.
  destruct a.
  - rewrite prelude_ok; [| auto | auto | auto | reflexivity | assumption].
    unfold bind. cbn [kw_ws]. now rewrite Hk.
  - destruct ats as [|x ats].
    + rewrite prelude_ok; [| auto | auto | auto | reflexivity | assumption].
      unfold bind. cbn [kw_ws]. now rewrite Hk.
    + rewrite toks_prelude_split in *. rewrite <- app_assoc.
      rewrite prelude_ok; [| auto | auto | auto | reflexivity | len_tac].
      reflexivity.
Qed.

Lemma struct_def_ok : forall d n r, wf_def (DStruct d) -> length (toks_def (DStruct d)) < n ->
  struct_def n (toks_def (DStruct d) ++ r) = Some (DStruct d, r).
Proof.
  intros [c dc a name fs fb] n r Hwf Hn. unfold struct_def. cbn [toks_def wf_def] in *.
  cbn [sd_comment sd_doc sd_attrs sd_name sd_fields sd_fb] in *.
  unfold bind at 1. rewrite <- app_assoc.
  rewrite prelude_ok; [| auto | auto | auto | reflexivity | len_tac].
  cbn [fst snd]. unfold W. norm. unfold bind at 1. cbn [kw_ws].
  change ("struct" =? "struct") with true. cbv iota.
  unfold bind at 1. cbn [ident]. unfold bind at 1. cbn [tokp punct_eqb].
  rewrite (struct_body_ok _ (fun fs0 fb0 => ret (DStruct _))); [reflexivity | assumption | len_tac].
Qed.

Lemma enum_def_ok : forall d n r, wf_def (DEnum d) -> length (toks_def (DEnum d)) < n ->
  enum_def n (toks_def (DEnum d) ++ r) = Some (DEnum d, r).
Proof.
  intros [c dc a name vs fb] n r Hwf Hn. unfold enum_def. cbn [toks_def wf_def] in *.
  cbn [ed_comment ed_doc ed_attrs ed_name ed_vars ed_fb] in *.
  unfold bind at 1. rewrite <- app_assoc.
  rewrite prelude_ok; [| auto | auto | auto | reflexivity | len_tac].
  cbn [fst snd]. unfold W. norm. unfold bind at 1. cbn [kw_ws].
  change ("enum" =? "enum") with true. cbv iota.
  unfold bind at 1. cbn [ident]. unfold bind at 1. cbn [tokp punct_eqb].
  rewrite (enum_body_ok _ (fun vs0 fb0 => ret (DEnum _))); [reflexivity | assumption | len_tac].
Qed.

Lemma service_items_stop : forall ffb efb n r,
  length (toks_optl (toks_item_fb "fn") ffb ++ toks_optl (toks_item_fb "event") efb) < n ->
  service_item n (toks_optl (toks_item_fb "fn") ffb ++ toks_optl (toks_item_fb "event") efb ++ TP PCurC :: r) = None.
Proof.
  intros [f|] [e|] n r Hn; cbn [toks_optl app] in *.
  - rewrite <- ?app_assoc. apply service_item_stops_fb; [now left | len_tac].
  - apply service_item_stops_fb; [now left | len_tac].
  - apply service_item_stops_fb; [now right | len_tac].
  - apply service_item_stops_close.
Qed.

Lemma service_def_ok : forall d n r, wf_def (DService d) -> length (toks_def (DService d)) < n ->
  service_def n (toks_def (DService d) ++ r) = Some (DService d, r).
Proof.
  intros [c dc name uc u vc v items ffb efb] n r Hwf Hn. unfold service_def. cbn [toks_def wf_def] in *.
  cbn [sv_comment sv_doc sv_name sv_uuid_comment sv_uuid sv_ver_comment sv_ver sv_items sv_fn_fb sv_ev_fb] in *.
  unfold bind at 1. rewrite <- app_assoc.
  rewrite prelude_ok; [| auto | auto | auto | reflexivity | len_tac].
  cbn [fst snd]. unfold W. norm. unfold bind at 1. cbn [kw_ws].
  change ("service" =? "service") with true. cbv iota.
  unfold bind at 1. cbn [ident]. unfold bind at 1. cbn [tokp punct_eqb].
  unfold bind at 1. rewrite comments_ok; [| exact I | len_tac].
  unfold bind at 1. cbn [kw]. change ("uuid" =? "uuid") with true. cbv iota.
  unfold bind at 1. cbn [tokp punct_eqb]. unfold bind at 1. cbn [lit_uuid].
  unfold bind at 1. cbn [tokp punct_eqb].
  unfold bind at 1. rewrite comments_ok; [| exact I | len_tac].
  unfold bind at 1. cbn [kw]. change ("version" =? "version") with true. cbv iota.
  unfold bind at 1. cbn [tokp punct_eqb]. unfold bind at 1. cbn [lit_int].
  unfold bind at 1. cbn [tokp punct_eqb].
  unfold bind at 1.
  assert (Hlen : length items <= length (flat_map toks_item items)).
  { apply flat_map_length_le. intros; apply toks_item_length. }
  change (alt (fn_def n) (event_def n)) with (service_item n).
  rewrite (many_ok _ (service_item n) toks_item).
  - rewrite (service_tail_ok _ (fun f e => ret (DService
      {| sv_comment := c; sv_doc := dc; sv_name := name; sv_uuid_comment := uc; sv_uuid := u;
         sv_ver_comment := vc; sv_ver := v; sv_items := items; sv_fn_fb := f; sv_ev_fb := e |})));
      [reflexivity | len_tac].
  - intros x r' Hx. apply service_item_ok.
    + rewrite Forall_forall in Hwf. now apply Hwf.
    + pose proof (flat_map_elem_length _ toks_item items x Hx). len_tac.
  - apply service_items_stop. len_tac.
  - len_tac.
Qed.

Lemma find_cty_str : forall c, find_cty (cty_str c) = Some c.
Proof. destruct c; reflexivity. Qed.

Lemma const_def_ok : forall d n r, length (toks_def (DConst d)) < n ->
  const_def n (toks_def (DConst d) ++ r) = Some (DConst d, r).
Proof.
  intros [c dc name ty v] n r Hn. unfold const_def. cbn [toks_def] in *.
  cbn [cd_comment cd_doc cd_name cd_ty cd_val] in *.
  unfold bind at 1. rewrite <- app_assoc.
  rewrite prelude_ok; [| auto | auto | auto | reflexivity | len_tac].
  cbn [fst snd]. unfold W. norm. unfold bind at 1. cbn [kw_ws].
  change ("const" =? "const") with true. cbv iota.
  unfold bind at 1. cbn [ident]. unfold bind at 1. cbn [tokp punct_eqb].
  unfold bind at 1. unfold const_value, bind at 1. cbn [ident]. rewrite find_cty_str.
  destruct ty; reflexivity.
Qed.

Lemma newtype_def_ok : forall d n r, wf_def (DNewtype d) -> length (toks_def (DNewtype d)) < n ->
  newtype_def n (toks_def (DNewtype d) ++ r) = Some (DNewtype d, r).
Proof.
  intros [c dc a name t] n r Hwf Hn. unfold newtype_def. cbn [toks_def wf_def] in *.
  cbn [nd_comment nd_doc nd_attrs nd_name nd_ty] in *.
  unfold bind at 1. rewrite <- app_assoc.
  rewrite prelude_ok; [| auto | auto | auto | reflexivity | len_tac].
  cbn [fst snd]. unfold W. norm. unfold bind at 1. cbn [kw_ws].
  change ("newtype" =? "newtype") with true. cbv iota.
  unfold bind at 1. cbn [ident]. unfold bind at 1. cbn [tokp punct_eqb].
  unfold bind at 1. rewrite type_name_ok; [reflexivity | assumption | exact I | len_tac].
Qed.

(* the shape every definition's tokens have: prelude, then the keyword *)
Definition def_kw (d : def) : string :=
  match d with
  | DStruct _ => "struct" | DEnum _ => "enum" | DService _ => "service" | DConst _ => "const"
  | DNewtype _ => "newtype"
  end.

Lemma toks_def_shape : forall d, exists cs ds ats rest,
  toks_def d = toks_prelude cs ds ats false ++ TWord (def_kw d) true :: rest.
Proof.
  intros [d|d|d|d|d]; cbn [toks_def def_kw]; unfold W; do 4 eexists; reflexivity.
Qed.

Lemma definition_ok : forall d n r, wf_def d -> length (toks_def d) < n ->
  definition n (toks_def d ++ r) = Some (d, r).
Proof.
  intros d n r Hwf Hn. unfold definition.
  destruct (toks_def_shape d) as [cs [ds [ats [rest Hshape]]]].
  assert (Hp : length (toks_prelude cs ds ats false) < n) by (rewrite Hshape in Hn; len_tac).
  assert (Hwrong : forall A (q : _ -> parser A) a k, (def_kw d =? k) = false ->
            (p <- prelude n true true a false ;; kw_ws k ;;; q p) (toks_def d ++ r) = None).
  { intros A q a k Hk. rewrite Hshape, <- app_assoc. cbn [app]. now apply wrong_def. }
  destruct d as [d|d|d|d|d]; cbn [def_kw] in Hwrong.
  - unfold alt at 1. now rewrite struct_def_ok.
  - unfold alt at 1. unfold struct_def at 1. rewrite Hwrong by reflexivity.
    unfold alt at 1. now rewrite enum_def_ok.
  - unfold alt at 1. unfold struct_def at 1. rewrite Hwrong by reflexivity.
    unfold alt at 1. unfold enum_def at 1. rewrite Hwrong by reflexivity.
    unfold alt at 1. now rewrite service_def_ok.
  - unfold alt at 1. unfold struct_def at 1. rewrite Hwrong by reflexivity.
    unfold alt at 1. unfold enum_def at 1. rewrite Hwrong by reflexivity.
    unfold alt at 1. unfold service_def at 1. rewrite Hwrong by reflexivity.
    unfold alt at 1. now rewrite const_def_ok.
  - unfold alt at 1. unfold struct_def at 1. rewrite Hwrong by reflexivity.
    unfold alt at 1. unfold enum_def at 1. rewrite Hwrong by reflexivity.
    unfold alt at 1. unfold service_def at 1. rewrite Hwrong by reflexivity.
    unfold alt at 1. unfold const_def at 1. rewrite Hwrong by reflexivity.
    now apply newtype_def_ok.
Qed.

Lemma definition_nil : forall n, definition n [] = None.
Proof.
  intros n.
  assert (H : forall A (q : _ -> parser A) a k, (p <- prelude n true true a false ;; kw_ws k ;;; q p) [] = None).
  { intros. unfold bind at 1, prelude, bind at 1. rewrite many_stop by (apply pitem_none; reflexivity). reflexivity. }
  unfold definition, alt, struct_def, enum_def, service_def, const_def, newtype_def.
  now rewrite !H.
Qed.

(* ---------------------------------------------------------------- imports, header, file *)

Lemma import_stmt_ok : forall i n r, length (toks_import i) < n ->
  import_stmt n (toks_import i ++ r) = Some (i, r).
Proof.
  intros [c name] n r Hn. unfold toks_import, import_stmt in *. cbn [i_comment i_name] in *.
  unfold bind at 1. rewrite <- app_assoc. rewrite comments_ok; [| exact I | len_tac].
  reflexivity.
Qed.

Definition good_head (ts : list token) : Prop :=
  match ts with
  | TComment _ :: _ | TDocIn _ :: _ => False
  | TWord w true :: _ => w <> "import"
  | _ => True
  end.

Lemma import_stmt_stop : forall cs rest n, length cs < n -> good_head rest ->
  import_stmt n (map TComment cs ++ rest) = None.
Proof.
  intros cs rest n Hn Hg. unfold import_stmt, bind at 1.
  rewrite comments_ok; [| destruct rest as [|[] ?]; cbn in *; auto | assumption].
  unfold bind at 1. destruct rest as [|[w [|]| | | | | | | | |] rest]; try reflexivity.
  cbn [kw_ws]. cbn [good_head] in Hg. apply String.eqb_neq in Hg. now rewrite Hg.
Qed.

Definition hdr_item (n : nat) : parser (list string * string) :=
  c <- comments n ;; d <- doc_string_inline ;; ret (c, d).

Definition hdr_head (ts : list token) : Prop :=
  match ts with TComment _ :: _ | TDocIn _ :: _ => False | _ => True end.

Lemma good_hdr_head : forall ts, good_head ts -> hdr_head ts.
Proof. intros [|[] ts]; cbn; auto. Qed.

Lemma hdr_item_stop : forall cs rest n, length cs < n -> hdr_head rest ->
  hdr_item n (map TComment cs ++ rest) = None.
Proof.
  intros cs rest n Hn Hg. unfold hdr_item, bind at 1.
  rewrite comments_ok; [| destruct rest as [|[] ?]; cbn in *; auto | assumption].
  unfold bind at 1. destruct rest as [|[] rest]; try reflexivity. contradiction.
Qed.

Lemma hdr_ok : forall cs ds n rest,
  (ds = [] -> cs = []) -> hdr_item n rest = None -> length cs + length ds < n ->
  exists h, many n (hdr_item n) (map TComment cs ++ map TDocIn ds ++ rest) = Some (h, rest) /\
            flat_map fst h = cs /\ map snd h = ds.
Proof.
  intros cs ds n rest Hcd Hstop Hn. destruct ds as [|d ds].
  - rewrite Hcd by reflexivity. exists []. cbn [map app]. rewrite many_stop by assumption. auto.
  - exists ((cs, d) :: map (fun x => ([], x)) ds).
    set (tk := fun (x : list string * string) => map TComment (fst x) ++ [TDocIn (snd x)]).
    assert (Htoks : map TComment cs ++ map TDocIn (d :: ds) ++ rest =
                    flat_map tk ((cs, d) :: map (fun x => ([], x)) ds) ++ rest).
    { cbn [flat_map map]. unfold tk at 1. cbn [fst snd]. rewrite <- !app_assoc. cbn [app].
      f_equal. f_equal. f_equal. rewrite flat_map_map. unfold tk. cbn [fst snd map app].
      now rewrite flat_map_single. }
    rewrite Htoks. split; [|split].
    + apply many_ok.
      * intros [c x] r' Hin. unfold tk, hdr_item. cbn [fst snd]. unfold bind at 1.
        rewrite <- app_assoc. rewrite comments_ok; [reflexivity | exact I | ].
        destruct Hin as [Hin | Hin].
        -- injection Hin as <- _. lia.
        -- apply in_map_iff in Hin. destruct Hin as [y [Hy _]]. injection Hy as <- _. cbn. lia.
      * assumption.
      * cbn [length]. rewrite map_length. cbn [length] in Hn. lia.
    + cbn [flat_map fst]. rewrite flat_map_map. cbn [fst]. now rewrite flat_map_nil, app_nil_r.
    + cbn [map snd]. rewrite map_map. cbn [snd]. now rewrite map_id.
Qed.

Lemma def_comment_shape : forall d r, exists cs rest,
  toks_def d ++ r = map TComment cs ++ rest /\ length cs < length (toks_def d) /\ good_head rest.
Proof.
  intros d r. destruct (toks_def_shape d) as [cs [ds [ats [rest0 Hshape]]]].
  exists cs, (map TDoc ds ++ flat_map (toks_attr false) ats ++ TWord (def_kw d) true :: rest0 ++ r).
  rewrite Hshape. unfold toks_prelude. split; [|split].
  - now rewrite <- !app_assoc.
  - len_tac.
  - destruct ds; [|exact I]. destruct ats; [|exact I]. cbn. destruct d; cbn; discriminate.
Qed.

Lemma defs_good : forall defs,
  exists cs rest, flat_map toks_def defs = map TComment cs ++ rest /\
                  length cs < S (length (flat_map toks_def defs)) /\ good_head rest.
Proof.
  intros [|d defs]; cbn [flat_map].
  - exists [], []. cbn. auto.
  - destruct (def_comment_shape d (flat_map toks_def defs)) as [cs [rest [H1 [H2 H3]]]].
    exists cs, rest. rewrite H1. split; [reflexivity|]. split; [|assumption].
    rewrite <- H1. len_tac.
Qed.

Lemma body_good : forall imps defs,
  exists cs rest, flat_map toks_import imps ++ flat_map toks_def defs = map TComment cs ++ rest /\
                  length cs < S (length (flat_map toks_import imps ++ flat_map toks_def defs)) /\
                  hdr_head rest.
Proof.
  intros [|i imps] defs; cbn [flat_map app].
  - destruct (defs_good defs) as [cs [rest [H1 [H2 H3]]]]. exists cs, rest.
    split; [assumption|]. split; [assumption|]. now apply good_hdr_head.
  - exists (i_comment i), ([W "import" true; W (i_name i) false; TP PTerm] ++ flat_map toks_import imps ++ flat_map toks_def defs).
    unfold toks_import. split; [now rewrite <- !app_assoc|]. split; [len_tac|].
    exact I.
Qed.

Lemma toks_import_length : forall i, 1 <= length (toks_import i).
Proof. intros. unfold toks_import. len_tac. Qed.

Lemma toks_def_length : forall d, 1 <= length (toks_def d).
Proof. intros d. destruct (toks_def_shape d) as [cs [ds [ats [rest H]]]]. rewrite H. len_tac. Qed.

Theorem parse_toks_toks : forall a, wf_ast a -> parse_toks (toks a) = Some (canon a).
Proof.
  intros a [Hhdr Hdefs]. unfold parse_toks.
  set (n := S (length (toks a))).
  set (imps := sort_imports (s_imports a)).
  assert (Hn : length (toks a) < n) by (unfold n; lia).
  unfold toks in *. fold imps in Hn |- *.
  unfold file. fold (hdr_item n). unfold bind at 1.
  destruct (body_good imps (s_defs a)) as [bc [brest [Hb1 [Hb2 Hb3]]]].
  destruct (hdr_ok (s_comment a) (s_doc a) n (flat_map toks_import imps ++ flat_map toks_def (s_defs a)))
    as [h [Hh [Hh1 Hh2]]].
  - assumption.
  - rewrite Hb1. apply hdr_item_stop; [|assumption]. len_tac.
  - len_tac.
  - rewrite Hh. unfold bind at 1.
    destruct (defs_good (s_defs a)) as [dc [drest [Hd1 [Hd2 Hd3]]]].
    rewrite (many_ok _ (import_stmt n) toks_import).
    + unfold bind at 1.
      rewrite <- (app_nil_r (flat_map toks_def (s_defs a))).
      rewrite (many_ok _ (definition n) toks_def).
      * unfold canon. rewrite Hh1, Hh2. reflexivity.
      * intros d r' Hd. apply definition_ok.
        -- rewrite Forall_forall in Hdefs. now apply Hdefs.
        -- pose proof (flat_map_elem_length _ toks_def (s_defs a) d Hd). len_tac.
      * apply definition_nil.
      * pose proof (flat_map_length_le _ toks_def (s_defs a) (fun x _ => toks_def_length x)). len_tac.
    + intros i r' Hi. apply import_stmt_ok.
      pose proof (flat_map_elem_length _ toks_import imps i Hi). len_tac.
    + rewrite Hd1. apply import_stmt_stop; [|assumption]. len_tac.
    + pose proof (flat_map_length_le _ toks_import imps (fun x _ => toks_import_length x)). len_tac.
Qed.
