(* Schema/Printer.v — [print]: a transcription of every write!/writeln! of parser/src/fmt.rs
   (Formatter), including the blank-line state machine (newline / first / last_def / last_item)
   and [indent]; and [toks]: the token stream of that output (comments and doc strings are
   tokens).  [print_with ind] is the printer over an arbitrary indent function, [print] uses
   the real one ([&INDENT[..len]]). *)
From Coq Require Import String List Bool Arith.
From Aldrin Require Import gen.GrammarTokens Schema.Ast Schema.Token.
Import ListNotations.
Open Scope string_scope.

Definition nonempty {A} (l : list A) : bool := match l with [] => false | _ => true end.
Definition is_some {A} (o : option A) : bool := match o with Some _ => true | None => false end.

(* ---------------------------------------------------------------- the formatter state *)

Inductive defkind := KStruct | KEnum | KService | KConst | KNewtype.
Inductive itemkind := KFunction | KEvent.

Definition defkind_eqb (a b : defkind) : bool :=
  match a, b with
  | KStruct, KStruct | KEnum, KEnum | KService, KService | KConst, KConst | KNewtype, KNewtype => true
  | _, _ => false
  end.
Definition itemkind_eqb (a b : itemkind) : bool :=
  match a, b with KFunction, KFunction | KEvent, KEvent => true | _, _ => false end.

Record st := { nl : bool; first : bool; last_def : option defkind; last_item : option itemkind }.

Definition set_nl (b : bool) (s : st) : st :=
  {| nl := b; first := first s; last_def := last_def s; last_item := last_item s |}.
Definition set_first (b : bool) (s : st) : st :=
  {| nl := nl s; first := b; last_def := last_def s; last_item := last_item s |}.
Definition set_last_def (k : option defkind) (s : st) : st :=
  {| nl := nl s; first := first s; last_def := k; last_item := last_item s |}.
Definition set_last_item (k : option itemkind) (s : st) : st :=
  {| nl := nl s; first := first s; last_def := last_def s; last_item := k |}.

(* Formatter::new *)
Definition st0 : st := {| nl := false; first := true; last_def := None; last_item := None |}.

Definition LF : string := String (Ascii.ascii_of_nat 10) "".

(* fn newline *)
Definition newline (s : st) : string * st :=
  if nl s then (LF, set_nl false s) else ("", s).

(* fn newline_with_first *)
Definition newline_with_first (s : st) (ml : bool) : string * st :=
  newline (set_first false (set_nl (nl s || (negb (first s) && ml)) s)).

(* fn newline_def *)
Definition newline_def (s : st) (k : defkind) (ml : bool) : string * st :=
  let s1 :=
    match last_def s with
    | Some l =>
        set_first false (if defkind_eqb l k then s else set_last_def (Some k) (set_nl true s))
    | None => set_first true (set_last_def (Some k) s)
    end in
  newline_with_first s1 ml.

(* fn newline_item *)
Definition newline_item (s : st) (k : itemkind) (ml : bool) : string * st :=
  let s1 :=
    match last_item s with
    | Some l => if itemkind_eqb l k then s else set_last_item (Some k) (set_nl true s)
    | None => set_last_item (Some k) s
    end in
  newline_with_first s1 ml.

(* ---------------------------------------------------------------- stateless pieces *)

Fixpoint spaces (n : nat) : string :=
  match n with O => "" | S m => " " ++ spaces m end.

(* const INDENT: &str = "            ";  write!(writer, "{}", &INDENT[..len]) *)
Definition INDENT : string := spaces fmt_indent_len.
Definition indent_real (len : nat) : string := substring 0 len INDENT.

Section WithIndent.
Variable ind : nat -> string.

(* fn comment / fn doc_impl: one line per entry *)
Definition text_line (indent : nat) (style s : string) : string :=
  ind indent ++ (if String.eqb s "" then style else style ++ " " ++ s) ++ LF.

Definition text_lines (indent : nat) (style : string) (l : list string) : string :=
  String.concat "" (map (text_line indent style) l).

Fixpoint join (sep : string) (l : list string) : string :=
  match l with
  | [] => ""
  | [x] => x
  | x :: l' => x ++ sep ++ join sep l'
  end.

(* fn attribute *)
Definition pr_attr (indent : nat) (inline : bool) (a : attr) : string :=
  ind indent ++ (if inline then "#![" else "#[") ++ a_name a ++
  (if nonempty (a_opts a) then "(" ++ join ", " (a_opts a) ++ ")" else "") ++ "]" ++ LF.

(* fn prelude *)
Definition pr_prelude (cs ds : list string) (ats : list attr) (indent : nat) (inline : bool) : string :=
  text_lines indent "//" cs ++
  text_lines indent (if inline then "//!" else "///") ds ++
  String.concat "" (map (pr_attr indent inline) ats).

(* fn named_ref *)
Definition pr_nref (r : nref) : string :=
  match r with Intern n => n | Extern s n => s ++ "::" ++ n end.

(* fn array_len *)
Definition pr_alen (l : alen) : string :=
  match l with LLit s => s | LRef r => pr_nref r end.

(* fn type_name *)
Fixpoint pr_ty (t : ty) : string :=
  match t with
  | TPrim p => prim_str p
  | TGen g a => gen1_str g ++ "<" ++ pr_ty a ++ ">"
  | TMap k v => "map<" ++ pr_ty k ++ " -> " ++ pr_ty v ++ ">"
  | TResult a b => "result<" ++ pr_ty a ++ ", " ++ pr_ty b ++ ">"
  | TArray a l => "[" ++ pr_ty a ++ "; " ++ pr_alen l ++ "]"
  | TRef r => pr_nref r
  end.

(* ---------------------------------------------------------------- fields and variants *)

Definition field_ml (f : field) : bool := nonempty (f_comment f) || nonempty (f_doc f).
Definition fb_ml (f : fallback) : bool := nonempty (fb_comment f) || nonempty (fb_doc f).
Definition variant_ml (v : variant) : bool := nonempty (v_comment v) || nonempty (v_doc v).

(* fn field *)
Definition pr_field (indent : nat) (s : st) (f : field) : string * st :=
  let ml := field_ml f in
  let '(o, s) := newline_with_first s ml in
  (o ++ pr_prelude (f_comment f) (f_doc f) [] indent false ++ ind indent ++
   (if f_req f then "required " else "") ++ f_name f ++ " @ " ++ f_id f ++ " = " ++
   pr_ty (f_ty f) ++ ";" ++ LF,
   set_nl ml s).

(* fn fallback_field / fn fallback_variant (they do not touch self.newline afterwards) *)
Definition pr_fb_member (indent : nat) (s : st) (f : fallback) : string * st :=
  let '(o, s) := newline_with_first s (fb_ml f) in
  (o ++ pr_prelude (fb_comment f) (fb_doc f) [] indent false ++ ind indent ++
   fb_name f ++ " = fallback;" ++ LF, s).

(* fn variant *)
Definition pr_variant (indent : nat) (s : st) (v : variant) : string * st :=
  let ml := variant_ml v in
  let '(o, s) := newline_with_first s ml in
  (o ++ pr_prelude (v_comment v) (v_doc v) [] indent false ++ ind indent ++
   v_name v ++ " @ " ++ v_id v ++
   (match v_ty v with Some t => " = " ++ pr_ty t | None => "" end) ++ ";" ++ LF,
   set_nl ml s).

(* a loop [for x in xs { self.f(x)? }] over the state *)
Fixpoint pr_list {A} (f : st -> A -> string * st) (s : st) (l : list A) : string * st :=
  match l with
  | [] => ("", s)
  | x :: l' => let '(o1, s1) := f s x in let '(o2, s2) := pr_list f s1 l' in (o1 ++ o2, s2)
  end.

Definition pr_opt {A} (f : st -> A -> string * st) (s : st) (o : option A) : string * st :=
  match o with Some x => f s x | None => ("", s) end.

(* fn fields *)
Definition pr_fields (indent : nat) (s : st) (fs : list field) (fb : option fallback) : string * st :=
  let '(o1, s1) := pr_list (pr_field indent) (set_first true s) fs in
  let '(o2, s2) := pr_opt (pr_fb_member indent) s1 fb in
  (o1 ++ o2, s2).

(* fn variants *)
Definition pr_variants (indent : nat) (s : st) (vs : list variant) (fb : option fallback) : string * st :=
  let '(o1, s1) := pr_list (pr_variant indent) (set_first true s) vs in
  let '(o2, s2) := pr_opt (pr_fb_member indent) s1 fb in
  (o1 ++ o2, s2).

(* fn is_multi_line_type_name_or_inline *)
Definition tyinl_ml (t : tyinl) : bool :=
  match t with
  | ITy _ => false
  | IStruct d a f fb => nonempty d || nonempty a || nonempty f || is_some fb
  | IEnum d a v fb => nonempty d || nonempty a || nonempty v || is_some fb
  end.

(* fn type_name_or_inline with fn inline_struct / fn inline_enum *)
Definition pr_tyinl (indent : nat) (s : st) (t : tyinl) : string * st :=
  match t with
  | ITy t => (pr_ty t, s)
  | IStruct d a fs fb =>
      if tyinl_ml t then
        let has_prelude := nonempty d || nonempty a in
        let o1 := "struct {" ++ LF ++
                  (if has_prelude then pr_prelude [] d a (indent + 4) true else "") in
        let '(o2, s2) := pr_fields (indent + 4) (set_nl has_prelude s) fs fb in
        (o1 ++ o2 ++ ind indent ++ "}" ++ LF, s2)
      else ("struct {}" ++ LF, s)
  | IEnum d a vs fb =>
      if tyinl_ml t then
        let has_prelude := nonempty d || nonempty a in
        let o1 := "enum {" ++ LF ++
                  (if has_prelude then pr_prelude [] d a (indent + 4) true else "") in
        let '(o2, s2) := pr_variants (indent + 4) (set_nl has_prelude s) vs fb in
        (o1 ++ o2 ++ ind indent ++ "}" ++ LF, s2)
      else ("enum {}" ++ LF, s)
  end.

Definition is_ty (t : tyinl) : bool := match t with ITy _ => true | _ => false end.

(* ---------------------------------------------------------------- definitions *)

(* fn struct_def *)
Definition pr_struct (s : st) (d : structdef) : string * st :=
  let has_fields := nonempty (sd_fields d) || is_some (sd_fb d) in
  let ml := nonempty (sd_comment d) || nonempty (sd_doc d) || nonempty (sd_attrs d) ||
            nonempty (sd_fields d) || is_some (sd_fb d) in
  let '(o1, s1) := newline_def s KStruct ml in
  let o2 := pr_prelude (sd_comment d) (sd_doc d) (sd_attrs d) 0 false in
  if has_fields then
    let '(o3, s3) := pr_fields 4 s1 (sd_fields d) (sd_fb d) in
    (o1 ++ o2 ++ "struct " ++ sd_name d ++ " {" ++ LF ++ o3 ++ "}" ++ LF, set_nl ml s3)
  else (o1 ++ o2 ++ "struct " ++ sd_name d ++ " {}" ++ LF, set_nl ml s1).

(* fn enum_def *)
Definition pr_enum (s : st) (d : enumdef) : string * st :=
  let has_vars := nonempty (ed_vars d) || is_some (ed_fb d) in
  let ml := nonempty (ed_comment d) || nonempty (ed_doc d) || nonempty (ed_attrs d) ||
            nonempty (ed_vars d) || is_some (ed_fb d) in
  let '(o1, s1) := newline_def s KEnum ml in
  let o2 := pr_prelude (ed_comment d) (ed_doc d) (ed_attrs d) 0 false in
  if has_vars then
    let '(o3, s3) := pr_variants 4 s1 (ed_vars d) (ed_fb d) in
    (o1 ++ o2 ++ "enum " ++ ed_name d ++ " {" ++ LF ++ o3 ++ "}" ++ LF, set_nl ml s3)
  else (o1 ++ o2 ++ "enum " ++ ed_name d ++ " {}" ++ LF, set_nl ml s1).

(* fn fn_part *)
Definition pr_part (kind : string) (s : st) (p : part) : string * st :=
  let ml := nonempty (p_comment p) || tyinl_ml (p_ty p) in
  let '(o1, s1) := newline_with_first s ml in
  let o2 := pr_prelude (p_comment p) [] [] 8 false ++ "        " ++ kind ++ " = " in
  let '(o3, s3) := pr_tyinl 8 s1 (p_ty p) in
  (o1 ++ o2 ++ o3 ++ (if is_ty (p_ty p) then ";" ++ LF else ""), set_nl ml s3).

Definition part_has_comment (o : option part) : bool :=
  match o with Some p => nonempty (p_comment p) | None => false end.

Definition fn_full_body (f : fndef) : bool :=
  is_some (fn_args f) || part_has_comment (fn_ok f) || is_some (fn_err f).

(* fn fn_def *)
Definition pr_fn (s : st) (f : fndef) : string * st :=
  let ml := nonempty (fn_comment f) || nonempty (fn_doc f) || is_some (fn_args f) ||
            is_some (fn_err f) ||
            match fn_ok f with
            | Some ok => nonempty (p_comment ok) || tyinl_ml (p_ty ok)
            | None => false
            end in
  let '(o1, s1) := newline_item s KFunction ml in
  let o2 := pr_prelude (fn_comment f) (fn_doc f) [] 4 false ++
            "    fn " ++ fn_name f ++ " @ " ++ fn_id f in
  if fn_full_body f then
    let s2 := set_first true (set_nl false s1) in
    let '(o3, s3) := pr_opt (pr_part "args") s2 (fn_args f) in
    let '(o4, s4) := pr_opt (pr_part "ok") s3 (fn_ok f) in
    let '(o5, s5) := pr_opt (pr_part "err") s4 (fn_err f) in
    (o1 ++ o2 ++ " {" ++ LF ++ o3 ++ o4 ++ o5 ++ "    }" ++ LF, set_nl ml s5)
  else
    match fn_ok f with
    | Some ok =>
        let '(o3, s3) := pr_tyinl 4 s1 (p_ty ok) in
        (o1 ++ o2 ++ " = " ++ o3 ++ (if is_ty (p_ty ok) then ";" ++ LF else ""), set_nl ml s3)
    | None => (o1 ++ o2 ++ ";" ++ LF, set_nl ml s1)
    end.

(* fn ev *)
Definition pr_ev (s : st) (e : evdef) : string * st :=
  let ml := nonempty (ev_comment e) || nonempty (ev_doc e) ||
            match ev_ty e with Some t => tyinl_ml t | None => false end in
  let '(o1, s1) := newline_item s KEvent ml in
  let o2 := pr_prelude (ev_comment e) (ev_doc e) [] 4 false ++
            "    event " ++ ev_name e ++ " @ " ++ ev_id e in
  match ev_ty e with
  | Some t =>
      let '(o3, s3) := pr_tyinl 4 s1 t in
      (o1 ++ o2 ++ " = " ++ o3 ++ (if is_ty t then ";" ++ LF else ""), set_nl ml s3)
  | None => (o1 ++ o2 ++ ";" ++ LF, set_nl ml s1)
  end.

(* fn fn_fallback / fn ev_fallback *)
Definition pr_item_fb (kw : string) (s : st) (f : fallback) : string * st :=
  let ml := fb_ml f in
  let '(o1, s1) := newline_with_first s ml in
  (o1 ++ pr_prelude (fb_comment f) (fb_doc f) [] 4 false ++ "    " ++ kw ++ " " ++ fb_name f ++
   " = fallback;" ++ LF, set_nl ml s1).

Definition pr_item (s : st) (i : item) : string * st :=
  match i with IFn f => pr_fn s f | IEv e => pr_ev s e end.

Definition is_fn (i : item) : bool := match i with IFn _ => true | IEv _ => false end.

(* fn items *)
Definition pr_items (s : st) (items : list item) (fnfb evfb : option fallback) : string * st :=
  let has_fns := existsb is_fn items in
  let has_evs := is_some evfb || existsb (fun i => negb (is_fn i)) items in
  let '(o1, s1) := pr_list pr_item (set_last_item None s) items in
  let '(o2, s2) :=
    match fnfb with
    | Some f => pr_item_fb "fn" (set_nl (nl s1 || has_evs) s1) f
    | None => ("", s1)
    end in
  let '(o3, s3) :=
    match evfb with
    | Some f =>
        let extra := match fnfb with Some ff => fb_ml ff | None => has_fns end in
        pr_item_fb "event" (set_nl (nl s2 || extra) s2) f
    | None => ("", s2)
    end in
  (o1 ++ o2 ++ o3, s3).

(* fn service *)
Definition pr_service (s : st) (d : servicedef) : string * st :=
  let '(o1, s1) := newline_def s KService true in
  let o2 := pr_prelude (sv_comment d) (sv_doc d) [] 0 false ++
            "service " ++ sv_name d ++ " {" ++ LF ++
            pr_prelude (sv_uuid_comment d) [] [] 4 false ++
            "    uuid = " ++ sv_uuid d ++ ";" ++ LF ++
            (if nonempty (sv_uuid_comment d) || nonempty (sv_ver_comment d) then LF else "") ++
            pr_prelude (sv_ver_comment d) [] [] 4 false ++
            "    version = " ++ sv_ver d ++ ";" ++ LF in
  let '(o3, s3) := pr_items (set_nl true s1) (sv_items d) (sv_fn_fb d) (sv_ev_fb d) in
  (o1 ++ o2 ++ o3 ++ "}" ++ LF, set_nl true s3).

(* fn const_def *)
Definition pr_const (s : st) (d : constdef) : string * st :=
  let ml := nonempty (cd_comment d) || nonempty (cd_doc d) in
  let '(o1, s1) := newline_def s KConst ml in
  (o1 ++ pr_prelude (cd_comment d) (cd_doc d) [] 0 false ++
   "const " ++ cd_name d ++ " = " ++ cty_str (cd_ty d) ++ "(" ++ cd_val d ++ ");" ++ LF,
   set_nl ml s1).

(* fn newtype *)
Definition pr_newtype (s : st) (d : newtypedef) : string * st :=
  let ml := nonempty (nd_comment d) || nonempty (nd_doc d) || nonempty (nd_attrs d) in
  let '(o1, s1) := newline_def s KNewtype ml in
  (o1 ++ pr_prelude (nd_comment d) (nd_doc d) (nd_attrs d) 0 false ++
   "newtype " ++ nd_name d ++ " = " ++ pr_ty (nd_ty d) ++ ";" ++ LF,
   set_nl ml s1).

Definition pr_def (s : st) (d : def) : string * st :=
  match d with
  | DStruct d => pr_struct s d
  | DEnum d => pr_enum s d
  | DService d => pr_service s d
  | DConst d => pr_const s d
  | DNewtype d => pr_newtype s d
  end.

(* fn import *)
Definition pr_import (s : st) (i : import) : string * st :=
  let ml := nonempty (i_comment i) in
  let '(o1, s1) := newline_with_first s ml in
  (o1 ++ pr_prelude (i_comment i) [] [] 0 false ++ "import " ++ i_name i ++ ";" ++ LF,
   set_nl ml s1).

(* fn imports *)
Definition pr_imports (s : st) (l : list import) : string * st :=
  let sorted := sort_imports l in
  let '(o, s1) := pr_list pr_import s sorted in
  (o, set_nl (nl s1 || nonempty sorted) s1).

(* fn schema *)
Definition pr_schema (a : schema) : string :=
  let '(o1, s1) :=
    if nonempty (s_comment a) then (text_lines 0 "//" (s_comment a), set_nl true st0)
    else ("", st0) in
  let '(o2, s2) :=
    if nonempty (s_doc a) then
      let '(o, s) := newline s1 in
      (o ++ text_lines 0 "//!" (s_doc a), set_nl true s)
    else ("", s1) in
  let '(o3, s3) := pr_imports s2 (s_imports a) in
  let '(o4, s4) := pr_list pr_def s3 (s_defs a) in
  o1 ++ o2 ++ o3 ++ o4.

End WithIndent.

Definition print_with := pr_schema.
Definition print (a : schema) : string := pr_schema indent_real a.

(* ---------------------------------------------------------------- the token stream *)

Definition W (s : string) (sp : bool) : token := TWord s sp.

Definition toks_nref (r : nref) (sp : bool) : list token :=
  match r with
  | Intern n => [W n sp]
  | Extern s n => [W s false; TP PScope; W n sp]
  end.

Definition toks_alen (l : alen) : list token :=
  match l with LLit s => [TInt s] | LRef r => toks_nref r false end.

(* [sp]: is the type followed by a blank (only the key of a map is) *)
Fixpoint toks_ty (t : ty) (sp : bool) : list token :=
  match t with
  | TPrim p => [W (prim_str p) sp]
  | TGen g a => W (gen1_str g) false :: TP PAngO :: toks_ty a false ++ [TP PAngC]
  | TMap k v => W "map" false :: TP PAngO :: toks_ty k true ++ TP PArrow :: toks_ty v false ++ [TP PAngC]
  | TResult a b =>
      W "result" false :: TP PAngO :: toks_ty a false ++ TP PComma :: toks_ty b false ++ [TP PAngC]
  | TArray a l => TP PSquO :: toks_ty a false ++ TP PTerm :: toks_alen l ++ [TP PSquC]
  | TRef r => toks_nref r sp
  end.

Fixpoint toks_opts (l : list string) : list token :=
  match l with
  | [] => []
  | [x] => [W x false]
  | x :: l' => W x false :: TP PComma :: toks_opts l'
  end.

Definition toks_attr (inline : bool) (a : attr) : list token :=
  TP PHash :: (if inline then [TP PExcl] else []) ++ TP PSquO :: W (a_name a) false ::
  (if nonempty (a_opts a) then TP PParO :: toks_opts (a_opts a) ++ [TP PParC] else []) ++
  [TP PSquC].

Definition toks_prelude (cs ds : list string) (ats : list attr) (inline : bool) : list token :=
  map TComment cs ++ map (if inline then TDocIn else TDoc) ds ++ flat_map (toks_attr inline) ats.

Definition toks_field (f : field) : list token :=
  toks_prelude (f_comment f) (f_doc f) [] false ++
  (if f_req f then [W "required" true] else []) ++
  W (f_name f) true :: TP PAt :: TInt (f_id f) :: TP PEq :: toks_ty (f_ty f) false ++ [TP PTerm].

Definition toks_fb_member (f : fallback) : list token :=
  toks_prelude (fb_comment f) (fb_doc f) [] false ++
  [W (fb_name f) true; TP PEq; W "fallback" false; TP PTerm].

Definition toks_variant (v : variant) : list token :=
  toks_prelude (v_comment v) (v_doc v) [] false ++
  W (v_name v) true :: TP PAt :: TInt (v_id v) ::
  (match v_ty v with Some t => TP PEq :: toks_ty t false | None => [] end) ++ [TP PTerm].

Definition toks_optl {A} (f : A -> list token) (o : option A) : list token :=
  match o with Some x => f x | None => [] end.

Definition toks_tyinl (t : tyinl) : list token :=
  match t with
  | ITy t => toks_ty t false ++ [TP PTerm]
  | IStruct d a fs fb =>
      W "struct" true :: TP PCurO :: toks_prelude [] d a true ++ flat_map toks_field fs ++
      toks_optl toks_fb_member fb ++ [TP PCurC]
  | IEnum d a vs fb =>
      W "enum" true :: TP PCurO :: toks_prelude [] d a true ++ flat_map toks_variant vs ++
      toks_optl toks_fb_member fb ++ [TP PCurC]
  end.

Definition toks_part (kw : string) (p : part) : list token :=
  toks_prelude (p_comment p) [] [] false ++ W kw true :: TP PEq :: toks_tyinl (p_ty p).

Definition toks_fn (f : fndef) : list token :=
  toks_prelude (fn_comment f) (fn_doc f) [] false ++
  W "fn" true :: W (fn_name f) true :: TP PAt :: TInt (fn_id f) ::
  (if fn_full_body f then
     TP PCurO :: toks_optl (toks_part "args") (fn_args f) ++ toks_optl (toks_part "ok") (fn_ok f) ++
     toks_optl (toks_part "err") (fn_err f) ++ [TP PCurC]
   else
     match fn_ok f with
     | Some ok => TP PEq :: toks_tyinl (p_ty ok)
     | None => [TP PTerm]
     end).

Definition toks_ev (e : evdef) : list token :=
  toks_prelude (ev_comment e) (ev_doc e) [] false ++
  W "event" true :: W (ev_name e) true :: TP PAt :: TInt (ev_id e) ::
  (match ev_ty e with Some t => TP PEq :: toks_tyinl t | None => [TP PTerm] end).

Definition toks_item (i : item) : list token :=
  match i with IFn f => toks_fn f | IEv e => toks_ev e end.

Definition toks_item_fb (kw : string) (f : fallback) : list token :=
  toks_prelude (fb_comment f) (fb_doc f) [] false ++
  [W kw true; W (fb_name f) true; TP PEq; W "fallback" false; TP PTerm].

Definition const_tok (c : cty) (v : string) : token :=
  match c with CString => TStr v | CUuid => TUuid v | _ => TInt v end.

Definition toks_def (d : def) : list token :=
  match d with
  | DStruct d =>
      toks_prelude (sd_comment d) (sd_doc d) (sd_attrs d) false ++
      W "struct" true :: W (sd_name d) true :: TP PCurO :: flat_map toks_field (sd_fields d) ++
      toks_optl toks_fb_member (sd_fb d) ++ [TP PCurC]
  | DEnum d =>
      toks_prelude (ed_comment d) (ed_doc d) (ed_attrs d) false ++
      W "enum" true :: W (ed_name d) true :: TP PCurO :: flat_map toks_variant (ed_vars d) ++
      toks_optl toks_fb_member (ed_fb d) ++ [TP PCurC]
  | DService d =>
      toks_prelude (sv_comment d) (sv_doc d) [] false ++
      W "service" true :: W (sv_name d) true :: TP PCurO ::
      map TComment (sv_uuid_comment d) ++
      W "uuid" true :: TP PEq :: TUuid (sv_uuid d) :: TP PTerm ::
      map TComment (sv_ver_comment d) ++
      W "version" true :: TP PEq :: TInt (sv_ver d) :: TP PTerm ::
      flat_map toks_item (sv_items d) ++
      toks_optl (toks_item_fb "fn") (sv_fn_fb d) ++ toks_optl (toks_item_fb "event") (sv_ev_fb d) ++
      [TP PCurC]
  | DConst d =>
      toks_prelude (cd_comment d) (cd_doc d) [] false ++
      [W "const" true; W (cd_name d) true; TP PEq; W (cty_str (cd_ty d)) false; TP PParO;
       const_tok (cd_ty d) (cd_val d); TP PParC; TP PTerm]
  | DNewtype d =>
      toks_prelude (nd_comment d) (nd_doc d) (nd_attrs d) false ++
      W "newtype" true :: W (nd_name d) true :: TP PEq :: toks_ty (nd_ty d) false ++ [TP PTerm]
  end.

Definition toks_import (i : import) : list token :=
  map TComment (i_comment i) ++ [W "import" true; W (i_name i) false; TP PTerm].

Definition toks (a : schema) : list token :=
  map TComment (s_comment a) ++ map TDocIn (s_doc a) ++
  flat_map toks_import (sort_imports (s_imports a)) ++ flat_map toks_def (s_defs a).
