(* Schema/PrintLexReach.v — the character level, part 3: everything the parser produces is
   [printable].  (a) the lexer is sound for the leaf conditions: every word token it emits is
   [ident_ok], every integer [int_ok], every string [str_ok], every uuid [uuid_ok], every comment
   / doc text [text_ok] ([lex_ok]); (b) the token-level parser only moves token payloads into
   the AST ([psound], one lemma per grammar rule).  Hence for every source text that parses the
   formatter's output lexes back to the AST's token stream, with no side condition. *)
From Coq Require Import String Ascii List Bool NArith Arith Lia.
From Aldrin Require Import Schema.Ast Schema.Token Schema.Printer Schema.Lexer Schema.Parser
  Schema.LexerProofs Schema.PrintLex Schema.PrintLexProofs.
Import ListNotations.
Open Scope string_scope.

(* ================================================================ (a) the lexer *)

Definition tok_ok (t : token) : Prop :=
  match t with
  | TWord w _ => ident_ok w = true
  | TInt s => int_ok s = true
  | TStr s => str_ok s = true
  | TUuid s => uuid_ok s = true
  | TComment s | TDoc s | TDocIn s => text_ok s = true
  | TP _ | TBad | TUnk => True
  end.

(* ---------------------------------------------------------------- words *)

(* a classified identifier character: two bytes decided on the first two, or three bytes *)
Lemma uni_class_shape : forall a b r,
  uni_class (String a (String b r)) = UStart \/ uni_class (String a (String b r)) = UCont ->
  (utf8_len a = 2%nat /\ forall r', uni_class (String a (String b r')) = uni_class (String a (String b r))) \/
  (utf8_len a = 3%nat /\ exists c r0, r = String c r0).
Proof.
  intros a b r H.
  assert (L2 : (192 <= code a <= 223)%N -> utf8_len a = 2%nat).
  { intros Hx. unfold utf8_len, between. destruct (N.leb_spec 192 (code a)), (N.leb_spec (code a) 223);
      cbn [andb]; try lia; reflexivity. }
  assert (L3 : (224 <= code a <= 239)%N -> utf8_len a = 3%nat).
  { intros Hx. unfold utf8_len, between.
    destruct (N.leb_spec 192 (code a)), (N.leb_spec (code a) 223), (N.leb_spec 224 (code a)),
      (N.leb_spec (code a) 239); cbn [andb]; try lia; reflexivity. }
  unfold uni_class in *. set (x := code a) in *. set (y := code b) in *.
  destruct r as [|c r0]; cbv beta iota in H.
  all: repeat match type of H with
  | context [if ?c then _ else _] =>
      let E := fresh "E" in destruct c eqn:E;
      [ try (destruct H; discriminate);
        first [ left; split; [apply L2; b2p; lia | intros; reflexivity]
              | right; split; [apply L3; b2p; lia | eauto] ] | ]
  end.
  all: destruct H; discriminate.
Qed.

Lemma slen_take : forall n s, (n <= slen s)%nat -> slen (take n s) = n.
Proof.
  induction n as [|n IH]; intros s H; [reflexivity|]. destruct s as [|c r]; [cbn in H; lia|].
  cbn [take]. rewrite !slen_cons in *. rewrite IH; lia.
Qed.

Lemma drop_exact : forall p X, drop (slen p) (p ++ X) = X.
Proof. intros. apply drop_all. Qed.

(* the bytes of one classified character, followed by anything, are classified the same *)
Lemma uni_class_take : forall c r X,
  uni_class (String c r) = UStart \/ uni_class (String c r) = UCont ->
  uni_class (take (utf8_len c) (String c r) ++ X) = uni_class (String c r) /\
  drop (utf8_len c) (take (utf8_len c) (String c r) ++ X) = X.
Proof.
  intros c r X H. pose proof (uni_class_len c r H) as Hl. split.
  - destruct r as [|b r]; [cbn in H; destruct H; discriminate|].
    destruct (uni_class_shape c b r H) as [[E Hr] | [E [c3 [r0 ->]]]]; rewrite E.
    + cbn [take append]. apply Hr.
    + reflexivity.
  - rewrite <- (slen_take (utf8_len c) (String c r) Hl) at 1. apply drop_exact.
Qed.

Lemma take_word_sound : forall f s w t, take_word f s = (w, t) -> wordp w /\ s = w ++ t.
Proof.
  induction f as [|f IH]; intros s w t H; cbn [take_word] in H.
  - inversion H; subst. split; [constructor | reflexivity].
  - destruct s as [|c r]; [inversion H; subst; split; [constructor | reflexivity]|].
    destruct (is_cont_ascii c) eqn:Hc.
    + destruct (take_word f r) as [w1 t1] eqn:E. inversion H; subst.
      destruct (IH _ _ _ E) as [Hw ->]. split; [now apply wp_ascii | reflexivity].
    + destruct (is_ascii c) eqn:Ha; [inversion H; subst; split; [constructor | reflexivity]|].
      assert (G : uni_class (String c r) = UStart \/ uni_class (String c r) = UCont ->
                  forall w1 t1, take_word f (drop (utf8_len c) (String c r)) = (w1, t1) ->
                  wordp (take (utf8_len c) (String c r) ++ w1) /\
                  String c r = (take (utf8_len c) (String c r) ++ w1) ++ t1).
      { intros Hu w1 t1 E. destruct (IH _ _ _ E) as [Hw Hs]. split.
        - destruct (uni_class_take c r w1 Hu) as [U1 U2].
          destruct (utf8_len_pos c) as [k Hk]. rewrite Hk in *. cbn [take append] in *.
          apply wp_uni; [assumption | now rewrite U1 | now rewrite Hk, U2].
        - rewrite app_assoc_s, <- Hs. now rewrite take_drop. }
      destruct (uni_class (String c r)) eqn:Hu;
        try (inversion H; subst; split; [constructor | reflexivity]).
      * destruct (take_word f (drop (utf8_len c) (String c r))) as [w1 t1] eqn:E. inversion H; subst.
        apply G; auto.
      * destruct (take_word f (drop (utf8_len c) (String c r))) as [w1 t1] eqn:E. inversion H; subst.
        apply G; auto.
Qed.

Lemma wordp_ident_ok : forall w, wordp w -> word_start w = true -> ident_ok w = true.
Proof.
  intros w Hw Hs. unfold ident_ok. rewrite Hs. cbn [andb].
  pose proof (take_word_app w Hw "" (S (slen w)) I (Nat.lt_succ_diag_r _)) as E.
  rewrite append_nil_r in E. now rewrite E.
Qed.

Lemma word_tok_ascii : forall c r w t, (is_alpha c || is 95 c) = true ->
  take_word (S (slen (String c r))) (String c r) = (w, t) -> ident_ok w = true.
Proof.
  intros c r w t Hc H. destruct (take_word_sound _ _ _ _ H) as [Hw Hs].
  apply wordp_ident_ok; [assumption|].
  destruct (start_tests c Hc) as [_ [T2 [_ [_ [_ [_ T7]]]]]].
  cbn [take_word] in H. rewrite T7 in H. destruct (take_word _ r) as [w1 t1]. inversion H; subst.
  cbn [word_start]. now rewrite T2.
Qed.

Lemma word_tok_uni : forall c r w t, is_ascii c = false -> uni_class (String c r) = UStart ->
  take_word (S (slen (String c r))) (String c r) = (w, t) -> ident_ok w = true.
Proof.
  intros c r w t Ha Hu H. destruct (take_word_sound _ _ _ _ H) as [Hw Hs].
  apply wordp_ident_ok; [assumption|].
  cbn [take_word] in H. rewrite (nonascii_not_cont c Ha), Ha, Hu in H.
  destruct (take_word _ (drop _ _)) as [w1 t1]. inversion H; subst.
  destruct (uni_class_take c r w1 (or_introl Hu)) as [U1 _].
  destruct (utf8_len_pos c) as [k Hk]. rewrite Hk in *. cbn [take append] in *.
  cbn [word_start]. now rewrite Ha, U1, Hu.
Qed.

(* ---------------------------------------------------------------- integers *)

Lemma take_digits_sound : forall s d t, take_digits s = (d, t) -> all_digits d = true.
Proof.
  induction s as [|c r IH]; intros d t H; cbn [take_digits] in H; [inversion H; reflexivity|].
  destruct (is_digit c) eqn:Hc; [|inversion H; reflexivity].
  destruct (take_digits r) as [d1 t1] eqn:E. inversion H; subst. cbn [all_digits].
  now rewrite Hc, (IH _ _ eq_refl).
Qed.

Lemma lex_number_sound : forall neg c r tk t, is_digit c = true ->
  lex_number neg (String c r) = (tk, t) -> tok_ok tk.
Proof.
  intros neg c r tk t Hc H. unfold lex_number in H.
  destruct (take_digits (String c r)) as [d t1] eqn:E.
  pose proof (take_digits_sound _ _ _ E) as Hd.
  cbn [take_digits] in E. rewrite Hc in E. destruct (take_digits r) as [d1 t2]. inversion E; subst.
  destruct (word_char_next t1).
  - destruct (take_word _ t1). inversion H; subst. exact I.
  - inversion H; subst. cbn [tok_ok]. destruct neg; cbn [append int_ok].
    + exact Hd.
    + replace (is 45 c) with false by (symmetry; apply cont_not_dash; now apply digit_cont). exact Hd.
Qed.

(* ---------------------------------------------------------------- strings *)

Lemma lex_string_first : forall f c r b t, lex_string f (String c r) = Some (b, t) ->
  exists b', b = String c b'.
Proof.
  intros [|f] c r b t H; [discriminate|]. cbn [lex_string] in H.
  destruct (is 34 c); [inversion H; eauto|].
  assert (G : forall (x : option (string * string)),
            option_map (fun '(b0, t0) => (String c b0, t0)) x = Some (b, t) -> exists b', b = String c b').
  { intros [[b0 t0]|] Hx; cbn in Hx; [inversion Hx; eauto | discriminate]. }
  destruct (is 92 c).
  - destruct r as [|c2 r2]; [discriminate|]. destruct (is 92 c2 || is 34 c2); [|eauto].
    destruct (lex_string f r2) as [[b0 t0]|]; cbn in H; [inversion H; eauto | discriminate].
  - destruct (is 10 c); [discriminate|]. destruct (is 13 c); [|eauto].
    destruct r as [|c2 r2]; [discriminate|]. destruct (is 10 c2); [discriminate | eauto].
Qed.

Lemma lex_string_prefix : forall f s b t, lex_string f s = Some (b, t) ->
  forall g, (slen b <= g)%nat -> lex_string g b = Some (b, "").
Proof.
  induction f as [|f IH]; intros s b t H g Hg; cbn [lex_string] in H; [discriminate|].
  destruct s as [|c r]; [discriminate|].
  destruct (is 34 c) eqn:H34.
  { inversion H; subst. destruct g as [|g]; [cbn in Hg; lia|]. cbn [lex_string]. now rewrite H34. }
  assert (Hrec : forall r' b1 t1, lex_string f r' = Some (b1, t1) -> forall g', (slen b1 <= g')%nat ->
                   option_map (fun '(b0, t0) => (String c b0, t0)) (lex_string g' b1) = Some (String c b1, "")).
  { intros r' b1 t1 E g' Hg'. now rewrite (IH _ _ _ E g' Hg'). }
  destruct (is 92 c) eqn:H92.
  - destruct r as [|c2 r2]; [discriminate|].
    destruct (is 92 c2 || is 34 c2) eqn:Hesc.
    + apply option_map_some in H. destruct H as [[b1 t1] [E Eq]]. inversion Eq; subst.
      destruct g as [|g]; [cbn in Hg; lia|]. cbn [lex_string]. rewrite H34, H92, Hesc.
      rewrite (IH _ _ _ E g); [reflexivity|]. rewrite !slen_cons in Hg. lia.
    + apply option_map_some in H. destruct H as [[b1 t1] [E Eq]]. inversion Eq; subst.
      destruct (lex_string_first _ _ _ _ _ E) as [b' ->].
      destruct g as [|g]; [cbn in Hg; lia|]. cbn [lex_string]. rewrite H34, H92, Hesc.
      eapply Hrec; [exact E|]. rewrite slen_cons in Hg. lia.
  - destruct (is 10 c) eqn:H10; [discriminate|].
    destruct (is 13 c) eqn:H13.
    + destruct r as [|c2 r2]; [discriminate|]. destruct (is 10 c2) eqn:H102; [discriminate|].
      apply option_map_some in H. destruct H as [[b1 t1] [E Eq]]. inversion Eq; subst.
      destruct (lex_string_first _ _ _ _ _ E) as [b' ->].
      destruct g as [|g]; [cbn in Hg; lia|]. cbn [lex_string]. rewrite H34, H92, H10, H13, H102.
      eapply Hrec; [exact E|]. rewrite slen_cons in Hg. lia.
    + apply option_map_some in H. destruct H as [[b1 t1] [E Eq]]. inversion Eq; subst.
      destruct g as [|g]; [cbn in Hg; lia|]. cbn [lex_string]. rewrite H34, H92, H10, H13.
      eapply Hrec; [exact E|]. rewrite slen_cons in Hg. lia.
Qed.

Lemma str_tok_ok : forall c r b t, is 34 c = true -> lex_string (S (slen r)) r = Some (b, t) ->
  str_ok (String c b) = true.
Proof.
  intros c r b t Hc H. cbn [str_ok]. rewrite Hc. cbn [andb].
  rewrite (lex_string_prefix _ _ _ _ H (S (slen b))) by lia. now rewrite !String.eqb_refl.
Qed.

(* ---------------------------------------------------------------- uuids *)

Lemma all_hex_split : forall n s t, all_hex n s = Some t ->
  exists h, s = h ++ t /\ slen h = n /\ forall X, all_hex n (h ++ X) = Some X.
Proof.
  induction n as [|n IH]; intros s t H; cbn [all_hex] in H.
  - inversion H; subst. exists "". repeat split.
  - destruct s as [|c r]; [discriminate|]. destruct (is_hex c) eqn:Hc; [|discriminate].
    destruct (IH _ _ H) as [h [-> [Hl HX]]]. exists (String c h). repeat split.
    + rewrite slen_cons. now rewrite Hl.
    + intros X. cbn [append all_hex]. now rewrite Hc.
Qed.

Lemma dash_split : forall s t, dash s = Some t ->
  exists h, s = h ++ t /\ slen h = 1%nat /\ forall X, dash (h ++ X) = Some X.
Proof.
  intros [|c r] t H; [discriminate|]. cbn [dash] in H. destruct (is 45 c) eqn:Hc; [|discriminate].
  inversion H; subst. exists (String c ""). repeat split. intros X. cbn [append dash]. now rewrite Hc.
Qed.

Lemma uuid_tok_ok : forall s t, match_uuid s = Some t -> uuid_ok (take 36 s) = true.
Proof.
  intros s t H. unfold match_uuid in H.
  apply obind_some in H. destruct H as [s1 [E1 H]]. apply all_hex_split in E1. destruct E1 as [h1 [-> [L1 X1]]].
  apply obind_some in H. destruct H as [s2 [E2 H]]. apply dash_split in E2. destruct E2 as [h2 [-> [L2 X2]]].
  apply obind_some in H. destruct H as [s3 [E3 H]]. apply all_hex_split in E3. destruct E3 as [h3 [-> [L3 X3]]].
  apply obind_some in H. destruct H as [s4 [E4 H]]. apply dash_split in E4. destruct E4 as [h4 [-> [L4 X4]]].
  apply obind_some in H. destruct H as [s5 [E5 H]]. apply all_hex_split in E5. destruct E5 as [h5 [-> [L5 X5]]].
  apply obind_some in H. destruct H as [s6 [E6 H]]. apply dash_split in E6. destruct E6 as [h6 [-> [L6 X6]]].
  apply obind_some in H. destruct H as [s7 [E7 H]]. apply all_hex_split in E7. destruct E7 as [h7 [-> [L7 X7]]].
  apply obind_some in H. destruct H as [s8 [E8 H]]. apply dash_split in E8. destruct E8 as [h8 [-> [L8 X8]]].
  apply all_hex_split in H. destruct H as [h9 [-> [L9 X9]]].
  set (u := h1 ++ h2 ++ h3 ++ h4 ++ h5 ++ h6 ++ h7 ++ h8 ++ h9).
  assert (Hu : slen u = 36%nat) by (unfold u; rewrite !slen_app; lia).
  assert (Hs : h1 ++ h2 ++ h3 ++ h4 ++ h5 ++ h6 ++ h7 ++ h8 ++ h9 ++ t = u ++ t)
    by (unfold u; now rewrite !app_assoc_s).
  rewrite Hs. rewrite <- Hu. unfold slen. rewrite take_all.
  unfold uuid_ok, match_uuid. rewrite <- (append_nil_r u). unfold u. rewrite !app_assoc_s.
  rewrite X1. cbn [obind]. rewrite X2. cbn [obind]. rewrite X3. cbn [obind]. rewrite X4. cbn [obind].
  rewrite X5. cbn [obind]. rewrite X6. cbn [obind]. rewrite X7. cbn [obind]. rewrite X8. cbn [obind].
  rewrite X9. reflexivity.
Qed.

(* ---------------------------------------------------------------- comment and doc texts *)

Lemma trim_rev_nil : forall f, trim_rev f [] = [].
Proof. destruct f; reflexivity. Qed.

(* [trim_rev] drops a prefix (of the reversed text) *)
Lemma trim_rev_suffix : forall f l, exists p, l = (p ++ trim_rev f l)%list.
Proof.
  induction f as [|f IH]; intros l; [exists []; reflexivity|]. cbn [trim_rev].
  destruct l as [|c r]; [exists []; reflexivity|].
  destruct (is_ascii_ws c).
  { destruct (IH r) as [p Hp]. exists (c :: p). cbn [app]. now rewrite <- Hp. }
  destruct r as [|a r2]; [exists []; reflexivity|].
  destruct (is 194 a && (is 133 c || is 160 c)).
  { destruct (IH r2) as [p Hp]. exists (c :: a :: p). cbn [app]. now rewrite <- Hp. }
  destruct r2 as [|a3 r3]; [exists []; reflexivity|].
  destruct (uni_class (String a3 (String a (String c "")))); try (exists []; reflexivity).
  destruct (between 224 239 a3); [|exists []; reflexivity].
  destruct (IH r3) as [p Hp]. exists (c :: a :: a3 :: p). cbn [app]. now rewrite <- Hp.
Qed.

(* with enough fuel the result has nothing more to trim *)
Lemma trim_rev_stop : forall f l, (length l < f)%nat -> forall g, trim_rev g (trim_rev f l) = trim_rev f l.
Proof.
  induction f as [|f IH]; intros l Hf g; [lia|]. cbn [trim_rev].
  destruct l as [|c r]; [apply trim_rev_nil|]. cbn [length] in Hf.
  destruct (is_ascii_ws c) eqn:H1; [apply IH; lia|].
  destruct r as [|a r2].
  { destruct g; [reflexivity|]. cbn [trim_rev]. now rewrite H1. }
  cbn [length] in Hf.
  destruct (is 194 a && (is 133 c || is 160 c)) eqn:H2; [apply IH; lia|].
  destruct r2 as [|a3 r3].
  { destruct g; [reflexivity|]. cbn [trim_rev]. now rewrite H1, H2. }
  cbn [length] in Hf.
  destruct (uni_class (String a3 (String a (String c "")))) eqn:H3;
    try (destruct g; [reflexivity|]; cbn [trim_rev]; now rewrite H1, H2, H3).
  destruct (between 224 239 a3) eqn:H4; [apply IH; lia|].
  destruct g; [reflexivity|]. cbn [trim_rev]. now rewrite H1, H2, H3, H4.
Qed.

Lemma sol_app : forall a b, string_of_list_ascii (a ++ b) = string_of_list_ascii a ++ string_of_list_ascii b.
Proof. induction a as [|c a IH]; intros b; cbn; [reflexivity | now rewrite IH]. Qed.

Lemma trim_end_prefix : forall s, exists q, s = trim_end s ++ q.
Proof.
  intros s. unfold trim_end. set (l := list_ascii_of_string s).
  destruct (trim_rev_suffix (S (length l)) (rev l)) as [p Hp].
  exists (string_of_list_ascii (rev p)). rewrite <- sol_app, <- rev_app_distr, <- Hp, rev_involutive.
  unfold l. now rewrite string_of_list_ascii_of_string.
Qed.

Lemma trim_end_idem : forall s, trim_end (trim_end s) = trim_end s.
Proof.
  intros s. unfold trim_end at 1 3. set (l := list_ascii_of_string s).
  set (r1 := trim_rev (S (length l)) (rev l)).
  unfold trim_end. fold l. fold r1. rewrite list_ascii_of_string_of_list_ascii, rev_involutive.
  unfold r1. rewrite trim_rev_stop; [reflexivity|]. rewrite rev_length. lia.
Qed.

Lemma no_lf_app : forall a b, no_lf (a ++ b) = true -> no_lf a = true.
Proof.
  induction a as [|c a IH]; intros b H; [reflexivity|]. cbn [append no_lf] in *.
  apply andb_true_iff in H. destruct H as [Hc H]. now rewrite Hc, (IH b).
Qed.

Lemma split_line_no_lf : forall s l t, split_line s = (l, t) -> no_lf l = true.
Proof.
  induction s as [|c r IH]; intros l t H; cbn [split_line] in H; [inversion H; reflexivity|].
  destruct (is 10 c) eqn:Hc; [inversion H; reflexivity|].
  destruct (split_line r) as [a b] eqn:E. inversion H; subst. cbn [no_lf].
  now rewrite Hc, (IH _ _ eq_refl).
Qed.

Lemma inner_text_ok : forall l, no_lf l = true -> text_ok (inner l) = true.
Proof.
  intros l H. unfold inner.
  set (x := match l with String c r => if is 32 c then r else l | EmptyString => l end).
  assert (Hx : no_lf x = true).
  { unfold x. destruct l as [|c r]; [reflexivity|]. destruct (is 32 c); [|assumption].
    cbn [no_lf] in H. now apply andb_true_iff in H. }
  unfold text_ok. rewrite trim_end_idem, String.eqb_refl, andb_true_r.
  destruct (trim_end_prefix x) as [q Hq]. rewrite Hq in Hx. now apply no_lf_app in Hx.
Qed.

Lemma line_tok_ok : forall s l t, split_line s = (l, t) -> text_ok (inner l) = true.
Proof. intros s l t H. apply inner_text_ok. eapply split_line_no_lf; eassumption. Qed.

(* ---------------------------------------------------------------- the lexer is sound *)

Theorem lex_ok : forall f s, Forall tok_ok (lex f s).
Proof.
  induction f as [|f IH]; intros s; [constructor|]. cbn [lex].
  destruct s as [|c r]; [constructor|].
  destruct (is_ascii_ws c); [apply IH|].
  destruct (is_ascii c) eqn:Hasc; cbn [negb].
  2:{ destruct (uni_class (String c r)) eqn:Hu; try (constructor; [exact I | apply IH]); [apply IH|].
      destruct (take_word (S (slen (String c r))) (String c r)) as [w t] eqn:E.
      constructor; [|apply IH]. cbn [tok_ok]. eapply word_tok_uni; eassumption. }
  destruct (is 47 c).
  { destruct r as [|c2 r2]; [repeat constructor|].
    destruct (is 47 c2); [|constructor; [exact I | apply IH]].
    destruct r2 as [|c3 r3]; [repeat constructor|].
    destruct (is 47 c3).
    { destruct (split_line r3) as [l t] eqn:E. constructor; [|apply IH]. cbn [tok_ok]. eapply line_tok_ok; eassumption. }
    destruct (is 33 c3).
    { destruct (split_line r3) as [l t] eqn:E. constructor; [|apply IH]. cbn [tok_ok]. eapply line_tok_ok; eassumption. }
    destruct (split_line (String c3 r3)) as [l t] eqn:E. constructor; [|apply IH]. cbn [tok_ok].
    eapply line_tok_ok; eassumption. }
  destruct (is 34 c) eqn:Hq.
  { destruct (lex_string (S (slen r)) r) as [[b t]|] eqn:E; (constructor; [|apply IH]); [|exact I].
    cbn [tok_ok]. eapply str_tok_ok; eassumption. }
  destruct (is_hex c && is_some_string (match_uuid (String c r))) eqn:Hu.
  { constructor; [|apply IH]. cbn [tok_ok]. apply andb_true_iff in Hu. destruct Hu as [_ Hu].
    destruct (match_uuid (String c r)) as [t|] eqn:E; [|discriminate]. eapply uuid_tok_ok; eassumption. }
  destruct (is_digit c) eqn:Hdig.
  { destruct (lex_number false (String c r)) as [tk t] eqn:E. constructor; [|apply IH].
    eapply lex_number_sound; eassumption. }
  destruct (is 45 c).
  { destruct r as [|c2 r2]; [repeat constructor|].
    destruct (is_digit c2) eqn:Hd2.
    { destruct (lex_number true (String c2 r2)) as [tk t] eqn:E. constructor; [|apply IH].
      eapply lex_number_sound; eassumption. }
    destruct (is 62 c2); (constructor; [exact I | apply IH]). }
  destruct (is_alpha c || is 95 c) eqn:Hst.
  { destruct (take_word (S (slen (String c r))) (String c r)) as [w t] eqn:E.
    constructor; [|apply IH]. cbn [tok_ok]. eapply word_tok_ascii; eassumption. }
  destruct (is 58 c).
  { destruct r as [|c2 r2]; [repeat constructor|].
    destruct (is 58 c2); (constructor; [exact I | apply IH]). }
  destruct (punct_of c); (constructor; [exact I | apply IH]).
Qed.

Corollary tokenize_ok : forall s, Forall tok_ok (tokenize s).
Proof. intros s. apply lex_ok. Qed.

(* ================================================================ (b) the parser *)

Open Scope list_scope.

(* on ok tokens the parser yields a value satisfying [P] and leaves ok tokens *)
Definition psound {A} (p : parser A) (P : A -> Prop) : Prop :=
  forall ts x r, Forall tok_ok ts -> p ts = Some (x, r) -> P x /\ Forall tok_ok r.

Lemma ps_ret : forall {A} (x : A) (P : A -> Prop), P x -> psound (ret x) P.
Proof. intros A x P H ts y r Hts E. unfold ret in E. inversion E; subst. auto. Qed.

Lemma ps_fail : forall {A} (P : A -> Prop), psound fail P.
Proof. intros A P ts x r _ E. discriminate. Qed.

Lemma ps_bind : forall {A B} (p : parser A) (f : A -> parser B) P Q,
  psound p P -> (forall x, P x -> psound (f x) Q) -> psound (bind p f) Q.
Proof.
  intros A B p f P Q Hp Hf ts y r Hts E. unfold bind in E.
  destruct (p ts) as [[x r0]|] eqn:E0; [|discriminate].
  destruct (Hp _ _ _ Hts E0) as [Hx Hr0]. exact (Hf x Hx _ _ _ Hr0 E).
Qed.

Lemma ps_alt : forall {A} (p q : parser A) P, psound p P -> psound q P -> psound (alt p q) P.
Proof.
  intros A p q P Hp Hq ts x r Hts E. unfold alt in E.
  destruct (p ts) as [[y r0]|] eqn:E0.
  - inversion E; subst. eapply Hp; eassumption.
  - eapply Hq; eassumption.
Qed.

Lemma ps_opt : forall {A} (p : parser A) P, psound p P -> psound (opt p) (pk_opt P).
Proof.
  intros A p P Hp ts x r Hts E. unfold opt in E.
  destruct (p ts) as [[y r0]|] eqn:E0; inversion E; subst.
  - destruct (Hp _ _ _ Hts E0). auto.
  - split; [exact I | assumption].
Qed.

Lemma ps_many : forall {A} (p : parser A) P n, psound p P -> psound (many n p) (Forall P).
Proof.
  intros A p P n Hp. induction n as [|n IH]; intros ts xs r Hts E; cbn [many] in E.
  - inversion E; subst. auto.
  - destruct (p ts) as [[x r0]|] eqn:E0.
    + destruct (Hp _ _ _ Hts E0) as [Hx Hr0].
      destruct (many n p r0) as [[xs' r1]|] eqn:E1; [|discriminate]. inversion E; subst.
      destruct (IH _ _ _ Hr0 E1). auto.
    + inversion E; subst. auto.
Qed.

Lemma ps_weaken : forall {A} (p : parser A) (P Q : A -> Prop),
  (forall x, P x -> Q x) -> psound p P -> psound p Q.
Proof. intros A p P Q H Hp ts x r Hts E. destruct (Hp _ _ _ Hts E). auto. Qed.

Definition anyP {A} : A -> Prop := fun _ => True.
Definition idP (w : string) : Prop := ident_ok w = true.
Definition intP (w : string) : Prop := int_ok w = true.
Definition strP (w : string) : Prop := str_ok w = true.
Definition uuidP (w : string) : Prop := uuid_ok w = true.
Definition textP (w : string) : Prop := text_ok w = true.

Ltac tok_inv :=
  intros ts x r Hts E;
  destruct ts as [|tk ts']; [discriminate|]; destruct tk; try discriminate;
  inversion Hts as [|? ? Hk Hts']; subst.

Lemma ps_tokp : forall p, psound (tokp p) anyP.
Proof.
  intros p. tok_inv. cbn [tokp] in E. destruct (punct_eqb p p0); [|discriminate].
  inversion E; subst. split; [exact I | assumption].
Qed.

Lemma ps_ident : psound ident idP.
Proof. tok_inv. inversion E; subst. split; assumption. Qed.

Lemma ps_kw_ws : forall k, psound (kw_ws k) anyP.
Proof.
  intros k. tok_inv. cbn [kw_ws] in E. destruct sp; [|discriminate].
  destruct (s =? k)%string; [|discriminate]. inversion E; subst. split; [exact I | assumption].
Qed.

Lemma ps_kw : forall k, psound (kw k) anyP.
Proof.
  intros k. tok_inv. cbn [kw] in E.
  destruct (s =? k)%string; [|discriminate]. inversion E; subst. split; [exact I | assumption].
Qed.

Lemma ps_lit_int : psound lit_int intP.
Proof. tok_inv. inversion E; subst. split; assumption. Qed.
Lemma ps_lit_string : psound lit_string strP.
Proof. tok_inv. inversion E; subst. split; assumption. Qed.
Lemma ps_lit_uuid : psound lit_uuid uuidP.
Proof. tok_inv. inversion E; subst. split; assumption. Qed.
Lemma ps_comment : psound comment textP.
Proof. tok_inv. inversion E; subst. split; assumption. Qed.
Lemma ps_doc_string : psound doc_string textP.
Proof. tok_inv. inversion E; subst. split; assumption. Qed.
Lemma ps_doc_string_inline : psound doc_string_inline textP.
Proof. tok_inv. inversion E; subst. split; assumption. Qed.

(* decompose a rule written with the combinators; leaves are closed with the lemmas in [psdb] *)
Create HintDb psdb.
#[export] Hint Resolve ps_tokp ps_ident ps_kw_ws ps_kw ps_lit_int ps_lit_string ps_lit_uuid ps_comment
  ps_doc_string ps_doc_string_inline : psdb.

Ltac ps :=
  first [ solve [eauto with psdb] | ps_dec ]
with ps_dec :=
  lazymatch goal with
  | |- psound (bind _ _) _ => eapply ps_bind; [ps | intros ? ?; ps]
  | |- psound (alt _ _) _ => apply ps_alt; ps
  | |- psound (opt _) _ => first [apply ps_opt | eapply ps_weaken; [|apply ps_opt]]; ps
  | |- psound (many _ _) _ => first [apply ps_many | eapply ps_weaken; [|apply ps_many]]; ps
  | |- psound fail _ => apply ps_fail
  | |- psound (ret _) _ => apply ps_ret; try exact I
  | |- psound (if ?b then _ else _) _ => destruct b; ps
  | |- _ => idtac
  end.

Lemma ps_named_ref : psound named_ref pk_nref.
Proof. unfold named_ref. ps; cbn [pk_nref]; auto. Qed.
#[export] Hint Resolve ps_named_ref : psdb.

Lemma ps_array_len : psound array_len pk_alen.
Proof. unfold array_len. ps; cbn [pk_alen]; auto. Qed.
#[export] Hint Resolve ps_array_len : psdb.

Lemma ps_type_name : forall n, psound (type_name n) pk_ty.
Proof.
  induction n as [|m IH]; intros ts t r Hts E; [discriminate|]. cbn [type_name] in E.
  destruct ts as [|tk ts']; [discriminate|].
  destruct tk as [w sp| | | |p| | | | | ]; try discriminate.
  - destruct (bare_prefixed w).
    + destruct (find_prim w); [|discriminate]. inversion E; subst.
      inversion Hts; subst. split; [exact I | assumption].
    + revert E. revert Hts. generalize (TWord w sp :: ts'). intros ts Hts E. revert ts t r Hts E.
      change (psound (alt (match find_gen1 w with
                 | Some g => (kw w ;;; tokp PAngO ;;; a <- type_name m ;; tokp PAngC ;;; ret (TGen g a))
                 | None => if (w =? "map")%string then
                       (kw w ;;; tokp PAngO ;;; k <- type_name m ;; tokp PArrow ;;;
                        v <- type_name m ;; tokp PAngC ;;; ret (TMap k v))
                     else if (w =? "result")%string then
                       (kw w ;;; tokp PAngO ;;; a <- type_name m ;; tokp PComma ;;;
                        b <- type_name m ;; tokp PAngC ;;; ret (TResult a b))
                     else fail end) (r <- named_ref ;; ret (TRef r))) pk_ty).
      apply ps_alt.
      * destruct (find_gen1 w); [ps; try apply IH; cbn [pk_ty]; auto|].
        destruct (w =? "map")%string; [ps; try apply IH; cbn [pk_ty]; auto|].
        destruct (w =? "result")%string; [ps; try apply IH; cbn [pk_ty]; auto | apply ps_fail].
      * ps. cbn [pk_ty]. auto.
  - destruct p; try discriminate.
    revert E. revert Hts. generalize (TP PSquO :: ts'). intros ts Hts E. revert ts t r Hts E.
    change (psound (tokp PSquO ;;; a <- type_name m ;; tokp PTerm ;;; l <- array_len ;; tokp PSquC ;;;
             ret (TArray a l)) pk_ty).
    ps; try apply IH. cbn [pk_ty]. auto.
Qed.
#[export] Hint Resolve ps_type_name : psdb.

(* ---------------------------------------------------------------- preludes *)

Lemma ps_attr_opts : forall n,
  psound (tokp PParO ;;; o1 <- ident ;; os <- many n (tokp PComma ;;; ident) ;;
          opt (tokp PComma) ;;; tokp PParC ;;; ret (o1 :: os)) idents_ok.
Proof. intros n. ps. constructor; assumption. Qed.
#[export] Hint Resolve ps_attr_opts : psdb.

Lemma ps_attribute : forall n inline, psound (attribute n inline) pk_attr.
Proof.
  intros n inline. unfold attribute. ps.
  match goal with H : pk_opt _ ?o |- _ => destruct o; cbn [pk_opt] in H end;
    split; cbn [a_name a_opts]; auto; constructor.
Qed.
#[export] Hint Resolve ps_attribute : psdb.

Definition pitemP (i : pitem) : Prop :=
  match i with PiC s | PiD s => textP s | PiA a => pk_attr a end.

Lemma ps_pitem : forall n c d a inline, psound (pitem_p n c d a inline) pitemP.
Proof. intros n c d a inline. unfold pitem_p. ps; cbn [pitemP]; auto. Qed.
#[export] Hint Resolve ps_pitem : psdb.

Definition preP (p : list string * list string * list attr) : Prop :=
  texts_ok (fst (fst p)) /\ texts_ok (snd (fst p)) /\ Forall pk_attr (snd p).

Lemma pitems_pre : forall l, Forall pitemP l -> preP (pi_comments l, pi_docs l, pi_attrs l).
Proof.
  induction l as [|i l IH]; intros H; [repeat split; constructor|]. inversion H as [|? ? Hi Hl]; subst.
  destruct (IH Hl) as [A [B C]]. cbn [fst snd] in *.
  destruct i; cbn [pitemP] in Hi; repeat split; cbn [fst snd pi_comments pi_docs pi_attrs flat_map app];
    try assumption; constructor; assumption.
Qed.

Lemma ps_prelude : forall n c d a inline, psound (prelude n c d a inline) preP.
Proof. intros. unfold prelude. ps. now apply pitems_pre. Qed.
#[export] Hint Resolve ps_prelude : psdb.

Lemma ps_comments : forall n, psound (comments n) texts_ok.
Proof. intros n. unfold comments. ps. Qed.
#[export] Hint Resolve ps_comments : psdb.

(* ---------------------------------------------------------------- members *)

Ltac pre_split :=
  repeat match goal with
  | H : preP _ |- _ => destruct H as [? [? ?]]
  | H : idP _ |- _ => unfold idP in H
  | H : intP _ |- _ => unfold intP in H
  | H : uuidP _ |- _ => unfold uuidP in H
  end.

Lemma ps_struct_field : forall n, psound (struct_field n) pk_field.
Proof.
  intros n. unfold struct_field. ps. pre_split.
  repeat split; cbn [f_comment f_doc f_name f_id f_ty]; assumption.
Qed.
#[export] Hint Resolve ps_struct_field : psdb.

Lemma ps_member_fallback : forall n, psound (member_fallback n) pk_fb.
Proof.
  intros n. unfold member_fallback. ps. pre_split.
  repeat split; cbn [fb_comment fb_doc fb_name]; assumption.
Qed.
#[export] Hint Resolve ps_member_fallback : psdb.

Lemma ps_enum_variant : forall n, psound (enum_variant n) pk_variant.
Proof.
  intros n. unfold enum_variant. ps. pre_split.
  repeat split; cbn [v_comment v_doc v_name v_id v_ty]; assumption.
Qed.
#[export] Hint Resolve ps_enum_variant : psdb.

Lemma ps_struct_inline : forall n, psound (struct_inline n) pk_tyinl.
Proof. intros n. unfold struct_inline. ps. pre_split. cbn [pk_tyinl]. auto. Qed.

Lemma ps_enum_inline : forall n, psound (enum_inline n) pk_tyinl.
Proof. intros n. unfold enum_inline. ps. pre_split. cbn [pk_tyinl]. auto. Qed.
#[export] Hint Resolve ps_struct_inline ps_enum_inline : psdb.

Lemma ps_tyinl : forall n, psound (type_name_or_inline n) pk_tyinl.
Proof. intros n. unfold type_name_or_inline. ps. cbn [pk_tyinl]. assumption. Qed.
#[export] Hint Resolve ps_tyinl : psdb.

(* ---------------------------------------------------------------- definitions *)

Lemma ps_struct_def : forall n, psound (struct_def n) pk_def.
Proof.
  intros n. unfold struct_def. ps. pre_split.
  cbn [pk_def sd_comment sd_doc sd_attrs sd_name sd_fields sd_fb]. auto 10.
Qed.

Lemma ps_enum_def : forall n, psound (enum_def n) pk_def.
Proof.
  intros n. unfold enum_def. ps. pre_split.
  cbn [pk_def ed_comment ed_doc ed_attrs ed_name ed_vars ed_fb]. auto 10.
Qed.

Lemma ps_fn_part : forall n k, psound (fn_part n k) pk_part.
Proof. intros n k. unfold fn_part. ps. split; cbn [p_comment p_ty]; assumption. Qed.
#[export] Hint Resolve ps_fn_part : psdb.

Definition bodyP (b : option part * option part * option part) : Prop :=
  pk_opt pk_part (fst (fst b)) /\ pk_opt pk_part (snd (fst b)) /\ pk_opt pk_part (snd b).

Lemma ps_fn_body : forall n, psound (fn_body n) bodyP.
Proof.
  intros n. unfold fn_body. ps; unfold bodyP; cbn [fst snd pk_opt]; auto.
  repeat split; auto. cbn [p_comment p_ty]. constructor.
Qed.
#[export] Hint Resolve ps_fn_body : psdb.

Lemma ps_fn_def : forall n, psound (fn_def n) pk_item.
Proof.
  intros n. unfold fn_def. ps. pre_split.
  match goal with H : bodyP _ |- _ => destruct H as [? [? ?]] end.
  cbn [pk_item]. unfold pk_fn. cbn [fn_comment fn_doc fn_name fn_id fn_args fn_ok fn_err]. auto 10.
Qed.

Lemma ps_ev_type : forall n,
  psound (alt (tokp PEq ;;; t <- type_name_or_inline n ;; ret (Some t)) (tokp PTerm ;;; ret None))
         (pk_opt pk_tyinl).
Proof. intros n. ps; cbn [pk_opt]; auto. Qed.
#[export] Hint Resolve ps_ev_type : psdb.

Lemma ps_event_def : forall n, psound (event_def n) pk_item.
Proof.
  intros n. unfold event_def. ps. pre_split.
  cbn [pk_item]. unfold pk_ev. cbn [ev_comment ev_doc ev_name ev_id ev_ty]. auto 10.
Qed.
#[export] Hint Resolve ps_fn_def ps_event_def : psdb.

Lemma ps_item_fallback : forall n k, psound (item_fallback n k) pk_fb.
Proof.
  intros n k. unfold item_fallback. ps. pre_split.
  repeat split; cbn [fb_comment fb_doc fb_name]; assumption.
Qed.
#[export] Hint Resolve ps_item_fallback : psdb.

Definition fbsP (x : option fallback * option fallback) : Prop :=
  pk_opt pk_fb (fst x) /\ pk_opt pk_fb (snd x).

Lemma ps_service_fallback : forall n, psound (service_fallback n) fbsP.
Proof. intros n. unfold service_fallback. ps; split; cbn [fst snd pk_opt]; assumption. Qed.
#[export] Hint Resolve ps_service_fallback : psdb.

Lemma ps_service_def : forall n, psound (service_def n) pk_def.
Proof.
  intros n. unfold service_def. ps. pre_split.
  cbn [pk_def sv_comment sv_doc sv_name sv_uuid_comment sv_uuid sv_ver_comment sv_ver sv_items
       sv_fn_fb sv_ev_fb].
  match goal with H : pk_opt fbsP ?o |- _ => destruct o as [[? ?]|]; cbn [pk_opt fst snd] in *;
    [destruct H as [? ?]; cbn [fst snd] in *|] end; auto 15.
Qed.

Definition cvalP (v : cty * string) : Prop := const_ok (fst v) (snd v) = true.

Lemma ps_const_value : psound const_value cvalP.
Proof.
  unfold const_value. eapply ps_bind; [apply ps_ident|]. intros w _.
  destruct (find_cty w) as [[]|]; ps; unfold cvalP; cbn [fst snd const_ok]; assumption.
Qed.
#[export] Hint Resolve ps_const_value : psdb.

Lemma ps_const_def : forall n, psound (const_def n) pk_def.
Proof.
  intros n. unfold const_def. ps. pre_split.
  cbn [pk_def cd_comment cd_doc cd_name cd_ty cd_val]. auto 10.
Qed.

Lemma ps_newtype_def : forall n, psound (newtype_def n) pk_def.
Proof.
  intros n. unfold newtype_def. ps. pre_split.
  cbn [pk_def nd_comment nd_doc nd_attrs nd_name nd_ty]. auto 10.
Qed.
#[export] Hint Resolve ps_struct_def ps_enum_def ps_service_def ps_const_def ps_newtype_def : psdb.

Lemma ps_definition : forall n, psound (definition n) pk_def.
Proof. intros n. unfold definition. ps. Qed.
#[export] Hint Resolve ps_definition : psdb.

Lemma ps_import_stmt : forall n, psound (import_stmt n) pk_import.
Proof. intros n. unfold import_stmt. ps. split; cbn [i_comment i_name]; assumption. Qed.
#[export] Hint Resolve ps_import_stmt : psdb.

(* ---------------------------------------------------------------- the file *)

Definition hdrP (h : list string * string) : Prop := texts_ok (fst h) /\ textP (snd h).

Lemma ps_header : forall n, psound (c <- comments n ;; d <- doc_string_inline ;; ret (c, d)) hdrP.
Proof. intros n. ps. split; assumption. Qed.
#[export] Hint Resolve ps_header : psdb.

Lemma hdr_comments : forall h, Forall hdrP h -> texts_ok (flat_map fst h) /\ texts_ok (map snd h).
Proof.
  induction h as [|[c d] h IH]; intros H; [split; constructor|]. inversion H as [|? ? [Hc Hd] Hh]; subst.
  destruct (IH Hh) as [A B]. cbn [flat_map map fst snd] in *. split.
  - apply Forall_app. split; assumption.
  - constructor; assumption.
Qed.

Theorem parse_toks_printable : forall ts a, Forall tok_ok ts -> parse_toks ts = Some a -> printable a.
Proof.
  intros ts a Hts H. unfold parse_toks in H.
  destruct (file (S (length ts)) ts) as [[a0 r]|] eqn:E; [|discriminate]. inversion H; subst a0. clear H.
  revert E. generalize (S (length ts)). intros n E.
  assert (Hf : psound (file n) printable).
  { unfold file. ps. intros ts0 y r0 Hts0 E0. destruct ts0; [|discriminate]. inversion E0; subst.
    split; [|constructor].
    match goal with Hh : Forall hdrP _ |- _ => destruct (hdr_comments _ Hh) as [A B] end.
    unfold printable. cbn [s_comment s_doc s_imports s_defs]. auto. }
  exact (proj1 (Hf _ _ _ Hts E)).
Qed.

(* every source text that parses yields a printable schema *)
Theorem parse_printable : forall src a, parse_toks (tokenize src) = Some a -> printable a.
Proof. intros src a H. eapply parse_toks_printable; [apply tokenize_ok | exact H]. Qed.
