(* Schema/ReachProofs.v — every AST the parser produces satisfies the well-formedness conditions
   of the round-trip theorem except possibly "no non-required field is called required": the
   round trip holds for every token stream that parses, under that one condition. *)
From Coq Require Import String List Bool Arith Lia.
From Aldrin Require Import Schema.Ast Schema.Token Schema.Printer Schema.Parser Schema.ParserProofs.
Import ListNotations.
Open Scope string_scope.
Open Scope list_scope.

(* ---------------------------------------------------------------- a generic "for all types /
   for all fields of the AST" predicate, of which wf_def is an instance *)
Section G.
Variable Pt : ty -> Prop.
Variable Pf : field -> Prop.

Definition g_variant (v : variant) : Prop :=
  match v_ty v with Some t => Pt t | None => True end.

Definition g_tyinl (t : tyinl) : Prop :=
  match t with
  | ITy t => Pt t
  | IStruct _ _ fs _ => Forall Pf fs
  | IEnum _ _ vs _ => Forall g_variant vs
  end.

Definition g_part (o : option part) : Prop :=
  match o with Some p => g_tyinl (p_ty p) | None => True end.

Definition g_item (i : item) : Prop :=
  match i with
  | IFn f => g_part (fn_args f) /\ g_part (fn_ok f) /\ g_part (fn_err f)
  | IEv e => match ev_ty e with Some t => g_tyinl t | None => True end
  end.

Definition g_def (d : def) : Prop :=
  match d with
  | DStruct d => Forall Pf (sd_fields d)
  | DEnum d => Forall g_variant (ed_vars d)
  | DService d => Forall g_item (sv_items d)
  | DConst _ => True
  | DNewtype d => Pt (nd_ty d)
  end.
End G.

Definition nbr_field (f : field) : Prop := f_req f = false -> f_name f <> "required".
Definition ty_field (f : field) : Prop := wf_ty (f_ty f).

(* no field that is not required is called "required" *)
Definition no_bare_required (a : schema) : Prop :=
  Forall (g_def (fun _ => True) nbr_field) (s_defs a).

Lemma wf_def_is_g : forall d, g_def wf_ty wf_field d -> wf_def d.
Proof. intros d H. exact H. Qed.

Lemma Forall_and' : forall A (P Q : A -> Prop) l, Forall P l -> Forall Q l -> Forall (fun x => P x /\ Q x) l.
Proof. induction l; intros HP HQ; constructor; inversion HP; inversion HQ; subst; auto. Qed.

Lemma Forall_impl2 : forall A (P Q R : A -> Prop) l,
  (forall x, P x -> Q x -> R x) -> Forall P l -> Forall Q l -> Forall R l.
Proof. induction l; intros H HP HQ; constructor; inversion HP; inversion HQ; subst; auto. Qed.

Section Combine.
Variables (Pt : ty -> Prop) (Pf Qf : field -> Prop).
Let R := fun f => Pf f /\ Qf f.

Lemma g_variant_c : forall v, g_variant Pt v -> g_variant (fun _ => True) v -> g_variant Pt v.
Proof. auto. Qed.

Lemma g_tyinl_and : forall t, g_tyinl Pt Pf t -> g_tyinl (fun _ => True) Qf t -> g_tyinl Pt R t.
Proof.
  intros [t|d a fs fb|d a vs fb] H1 H2; cbn in *; auto. now apply Forall_and'.
Qed.

Lemma g_part_and : forall o, g_part Pt Pf o -> g_part (fun _ => True) Qf o -> g_part Pt R o.
Proof. intros [p|] H1 H2; cbn in *; auto. now apply g_tyinl_and. Qed.

Lemma g_item_and : forall i, g_item Pt Pf i -> g_item (fun _ => True) Qf i -> g_item Pt R i.
Proof.
  intros [f|e] H1 H2; cbn in *.
  - destruct H1 as [A1 [B1 C1]], H2 as [A2 [B2 C2]]. repeat split; now apply g_part_and.
  - destruct (ev_ty e); auto. now apply g_tyinl_and.
Qed.

Lemma g_def_and : forall d, g_def Pt Pf d -> g_def (fun _ => True) Qf d -> g_def Pt R d.
Proof.
  intros [d|d|d|d|d] H1 H2; cbn in *; auto.
  - now apply Forall_and'.
  - eapply Forall_impl2; [|exact H1|exact H2]. intros x. apply g_item_and.
Qed.
End Combine.

(* ---------------------------------------------------------------- soundness of the parser *)

Ltac binv H :=
  repeat (unfold bind at 1 in H;
          match type of H with
          | match ?e with Some _ => _ | None => None end = Some _ =>
              let E := fresh "E" in destruct e as [[? ?]|] eqn:E; [|discriminate H]
          end).

Lemma named_ref_first : forall w sp rest x r,
  named_ref (TWord w sp :: rest) = Some (x, r) -> (exists n, x = Extern w n) \/ x = Intern w.
Proof.
  intros w sp rest x r H. unfold named_ref, alt in H.
  destruct ((s <- ident;; tokp PScope;;; n <- ident;; ret (Extern s n)) (TWord w sp :: rest)) as [[y r0]|] eqn:E.
  - injection H as <- <-. unfold bind at 1 in E. cbn [ident] in E. binv E.
    unfold ret in E. injection E as <- _. left. eauto.
  - unfold bind in H. cbn [ident] in H. unfold ret in H. injection H as <- _. now right.
Qed.

Lemma type_name_sound : forall n ts t r, type_name n ts = Some (t, r) -> wf_ty t.
Proof.
  induction n as [|m IH]; intros ts t r H; [discriminate|]. cbn [type_name] in H.
  destruct ts as [|tk ts]; [discriminate|].
  destruct tk as [w sp| | | |p| | | | | ]; try discriminate.
  - destruct (bare_prefixed w) eqn:Hb.
    + destruct (find_prim w); [|discriminate]. injection H as <- _. exact I.
    + unfold alt in H.
      match type of H with match ?e with _ => _ end = _ => destruct e as [[y r0]|] eqn:E end.
      * injection H as <- <-.
        destruct (find_gen1 w).
        -- binv E. unfold ret in E. injection E as <- _. cbn. eauto.
        -- destruct (w =? "map").
           ++ binv E. unfold ret in E. injection E as <- _. cbn. split; eauto.
           ++ destruct (w =? "result"); [|discriminate].
              binv E. unfold ret in E. injection E as <- _. cbn. split; eauto.
      * binv H. unfold ret in H. injection H as <- _.
        apply named_ref_first in E0. cbn. destruct E0 as [[n0 ->] | ->]; exact Hb.
  - destruct p; try discriminate. binv H. unfold ret in H. injection H as <- _. cbn. eauto.
Qed.

Lemma many_sound : forall A (P : A -> Prop) (p : parser A),
  (forall ts x r, p ts = Some (x, r) -> P x) ->
  forall n ts xs r, many n p ts = Some (xs, r) -> Forall P xs.
Proof.
  intros A P p Hp. induction n as [|m IH]; intros ts xs r H; cbn [many] in H.
  - injection H as <- _. constructor.
  - destruct (p ts) as [[x r0]|] eqn:E.
    + destruct (many m p r0) as [[xs' r1]|] eqn:E2; [|discriminate].
      injection H as <- _. constructor; eauto.
    + injection H as <- _. constructor.
Qed.

Lemma struct_field_sound : forall n ts f r, struct_field n ts = Some (f, r) -> ty_field f.
Proof.
  intros n ts f r H. unfold struct_field in H. binv H. unfold ret in H. injection H as <- _.
  unfold ty_field. cbn. eapply type_name_sound; eauto.
Qed.

Lemma opt_type_sound : forall n ts o r, opt (tokp PEq;;; type_name n) ts = Some (o, r) ->
  match o with Some t => wf_ty t | None => True end.
Proof.
  intros n ts o r H. unfold opt in H.
  destruct ((tokp PEq;;; type_name n) ts) as [[t0 r0]|] eqn:E5.
  - injection H as <- _. binv E5. eapply type_name_sound; eauto.
  - injection H as <- _. exact I.
Qed.

Lemma enum_variant_sound : forall n ts v r, enum_variant n ts = Some (v, r) -> g_variant wf_ty v.
Proof.
  intros n ts v r H. unfold enum_variant in H. binv H. unfold ret in H. injection H as <- _.
  unfold g_variant. cbn.
  match goal with Ho : opt _ _ = Some _ |- _ => apply opt_type_sound in Ho; exact Ho end.
Qed.

Lemma tyinl_sound : forall n ts t r, type_name_or_inline n ts = Some (t, r) -> g_tyinl wf_ty ty_field t.
Proof.
  intros n ts t r H. unfold type_name_or_inline, alt in H.
  destruct ((t0 <- type_name n;; tokp PTerm;;; ret (ITy t0)) ts) as [[y r0]|] eqn:E.
  - injection H as <- _. binv E. unfold ret in E. injection E as <- _. cbn.
    eapply type_name_sound; eauto.
  - destruct (struct_inline n ts) as [[y r0]|] eqn:E2.
    + injection H as <- _. unfold struct_inline in E2. binv E2. unfold ret in E2. injection E2 as <- _.
      cbn. eapply many_sound; [|eauto]. intros. eapply struct_field_sound; eauto.
    + unfold enum_inline in H. binv H. unfold ret in H. injection H as <- _.
      cbn. eapply many_sound; [|eauto]. intros. eapply enum_variant_sound; eauto.
Qed.

Lemma opt_part_sound : forall n k ts o r, opt (fn_part n k) ts = Some (o, r) -> g_part wf_ty ty_field o.
Proof.
  intros n k ts o r H. unfold opt in H. destruct (fn_part n k ts) as [[p r0]|] eqn:E.
  - injection H as <- _. unfold fn_part in E. binv E. unfold ret in E. injection E as <- _.
    cbn. eapply tyinl_sound; eauto.
  - injection H as <- _. exact I.
Qed.

Lemma fn_body_sound : forall n ts a o e r, fn_body n ts = Some ((a, o, e), r) ->
  g_part wf_ty ty_field a /\ g_part wf_ty ty_field o /\ g_part wf_ty ty_field e.
Proof.
  intros n ts a o e r H. unfold fn_body, alt in H.
  match type of H with match ?x with _ => _ end = _ => destruct x as [[y r0]|] eqn:E end.
  - injection H as -> _. binv E. unfold ret in E. injection E as <- <- <- _.
    repeat split; eapply opt_part_sound; eauto.
  - match type of H with match ?x with _ => _ end = _ => destruct x as [[y r0]|] eqn:E2 end.
    + injection H as -> _. binv E2. unfold ret in E2. injection E2 as <- <- <- _.
      repeat split; try exact I. cbn. eapply tyinl_sound; eauto.
    + binv H. unfold ret in H. injection H as <- <- <- _. repeat split; exact I.
Qed.

Lemma ev_alt_sound : forall n ts o r,
  alt (tokp PEq;;; t <- type_name_or_inline n;; ret (Some t)) (tokp PTerm;;; ret None) ts = Some (o, r) ->
  match o with Some t => g_tyinl wf_ty ty_field t | None => True end.
Proof.
  intros n ts o r H. unfold alt in H.
  match type of H with match ?x with _ => _ end = _ => destruct x as [[y r0]|] eqn:E5 end.
  - injection H as <- _. binv E5. unfold ret in E5. injection E5 as <- _. eapply tyinl_sound; eauto.
  - binv H. unfold ret in H. injection H as <- _. exact I.
Qed.

Lemma service_item_sound : forall n ts i r, alt (fn_def n) (event_def n) ts = Some (i, r) ->
  g_item wf_ty ty_field i.
Proof.
  intros n ts i r H. unfold alt in H. destruct (fn_def n ts) as [[y r0]|] eqn:E.
  - injection H as <- _. unfold fn_def in E. binv E. unfold ret in E. injection E as <- _.
    match goal with Hb : fn_body _ _ = Some (?q, _) |- _ =>
      destruct q as [[a o] e]; cbn; eapply fn_body_sound; exact Hb end.
  - unfold event_def in H. binv H. unfold ret in H. injection H as <- _. cbn.
    match goal with Ho : alt _ _ _ = Some _ |- _ => apply ev_alt_sound in Ho; exact Ho end.
Qed.

Lemma definition_sound : forall n ts d r, definition n ts = Some (d, r) -> g_def wf_ty ty_field d.
Proof.
  intros n ts d r H. unfold definition, alt in H.
  destruct (struct_def n ts) as [[y r0]|] eqn:E1.
  { injection H as <- _. unfold struct_def in E1. binv E1. unfold ret in E1. injection E1 as <- _.
    cbn. eapply many_sound; [|eauto]. intros. eapply struct_field_sound; eauto. }
  destruct (enum_def n ts) as [[y r0]|] eqn:E2.
  { injection H as <- _. unfold enum_def in E2. binv E2. unfold ret in E2. injection E2 as <- _.
    cbn. eapply many_sound; [|eauto]. intros. eapply enum_variant_sound; eauto. }
  destruct (service_def n ts) as [[y r0]|] eqn:E3.
  { injection H as <- _. unfold service_def in E3. binv E3. unfold ret in E3. injection E3 as <- _.
    cbn. eapply many_sound; [|eauto]. intros. eapply service_item_sound; eauto. }
  destruct (const_def n ts) as [[y r0]|] eqn:E4.
  { injection H as <- _. unfold const_def in E4. binv E4. unfold ret in E4. injection E4 as <- _. exact I. }
  unfold newtype_def in H. binv H. unfold ret in H. injection H as <- _. cbn.
  eapply type_name_sound; eauto.
Qed.

Lemma map_snd_nil : forall A B (h : list (A * B)), map snd h = [] -> h = [].
Proof. destruct h; [reflexivity | discriminate]. Qed.

Theorem parse_toks_sound : forall ts a, parse_toks ts = Some a ->
  (s_doc a = [] -> s_comment a = []) /\ Forall (g_def wf_ty ty_field) (s_defs a).
Proof.
  intros ts a H. unfold parse_toks in H.
  destruct (file (S (length ts)) ts) as [[a0 r]|] eqn:E; [|discriminate]. injection H as ->.
  unfold file in E. binv E.
  match type of E with match ?l with _ => _ end = _ => destruct l; [|discriminate] end.
  injection E as <- _. cbn. split.
  - intros Hd. apply map_snd_nil in Hd. now subst.
  - eapply many_sound; [|eauto]. intros. eapply definition_sound; eauto.
Qed.

(* the round trip for everything that parses *)
Theorem parse_toks_reachable : forall ts a,
  parse_toks ts = Some a -> no_bare_required a -> parse_toks (toks a) = Some (canon a).
Proof.
  intros ts a H Hn. apply parse_toks_toks. apply parse_toks_sound in H. destruct H as [H1 H2].
  split; [assumption|].
  eapply Forall_impl2; [|exact H2|exact Hn].
  intros d Hd Hq. apply wf_def_is_g. exact (g_def_and wf_ty ty_field nbr_field d Hd Hq).
Qed.
