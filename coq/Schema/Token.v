(* Schema/Token.v — the token model.  pest is scannerless; the model splits parsing into a lexer
   (Schema/Lexer.v) and a token-level PEG parser (Schema/Parser.v).  Tokens:
   - [TWord s sp]: a maximal run of identifier characters that starts like an identifier
     (grammar rule [ident]; keywords are words too, since [ident] accepts them).  [sp] records
     whether the word is followed by what the grammar calls [ws] (WHITE_SPACE, a comment or EOI):
     the nine keywords written [kw ~ &ws] are keywords only when [sp] holds.
   - [TInt] = lit_int, [TStr] = lit_string (with its quotes), [TUuid] = lit_uuid,
   - [TP] punctuation, [TComment]/[TDoc]/[TDocIn] a comment / [///] / [//!] line carrying its
     [value_inner()],
   - [TBad]: characters no grammar rule can start with; [TUnk]: a non-ASCII code point the model
     lexer does not classify (the model answers "unknown" instead of guessing). *)
From Coq Require Import String List Bool.
From Aldrin Require Import gen.GrammarTokens Schema.Ast.
Import ListNotations.
Open Scope string_scope.

Inductive punct :=
| PTerm | PEq | PParO | PParC | PAngO | PAngC | PArrow | PScope | PHash | PSquO | PSquC | PComma
| PCurO | PCurC | PAt | PExcl.

Inductive token :=
| TWord (s : string) (sp : bool)
| TInt (s : string)
| TStr (s : string)
| TUuid (s : string)
| TP (p : punct)
| TComment (s : string)
| TDoc (s : string)
| TDocIn (s : string)
| TBad
| TUnk.

Definition all_punct : list punct :=
  [PTerm; PEq; PParO; PParC; PAngO; PAngC; PArrow; PScope; PHash; PSquO; PSquC; PComma; PCurO;
   PCurC; PAt; PExcl].

Definition punct_rule (p : punct) : string :=
  match p with
  | PTerm => "tok_term" | PEq => "tok_eq" | PParO => "tok_par_open" | PParC => "tok_par_close"
  | PAngO => "tok_ang_open" | PAngC => "tok_ang_close" | PArrow => "tok_arrow"
  | PScope => "tok_scope" | PHash => "tok_hash" | PSquO => "tok_squ_open"
  | PSquC => "tok_squ_close" | PComma => "tok_comma" | PCurO => "tok_cur_open"
  | PCurC => "tok_cur_close" | PAt => "tok_at" | PExcl => "tok_excl"
  end.

Definition punct_str (p : punct) : string :=
  match p with
  | PTerm => ";" | PEq => "=" | PParO => "(" | PParC => ")" | PAngO => "<" | PAngC => ">"
  | PArrow => "->" | PScope => "::" | PHash => "#" | PSquO => "[" | PSquC => "]" | PComma => ","
  | PCurO => "{" | PCurC => "}" | PAt => "@" | PExcl => "!"
  end.

Definition punct_eqb (a b : punct) : bool :=
  match a, b with
  | PTerm, PTerm | PEq, PEq | PParO, PParO | PParC, PParC | PAngO, PAngO | PAngC, PAngC
  | PArrow, PArrow | PScope, PScope | PHash, PHash | PSquO, PSquO | PSquC, PSquC
  | PComma, PComma | PCurO, PCurO | PCurC, PCurC | PAt, PAt | PExcl, PExcl => true
  | _, _ => false
  end.

Lemma punct_eqb_eq : forall a b, punct_eqb a b = true <-> a = b.
Proof. destruct a, b; cbn; split; intro H; try reflexivity; discriminate. Qed.

Lemma punct_eqb_refl : forall a, punct_eqb a a = true.
Proof. destruct a; reflexivity. Qed.

(* the nine keywords the grammar writes [kw ~ &ws] *)
Definition ws_keywords : list string :=
  ["import"; "struct"; "enum"; "service"; "fn"; "event"; "const"; "newtype"; "required"].

(* keywords of [type_name] that are complete types on their own (no [<]): an identifier that
   starts with one of them cannot be a type reference (the keyword rule matches the prefix) *)
Definition bare_type_keywords : list string := map prim_str all_prims.

(* the order of the alternatives of [type_name] *)
Definition type_name_alts : list string :=
  ["kw_bool"; "kw_u8"; "kw_i8"; "kw_u16"; "kw_i16"; "kw_u32"; "kw_i32"; "kw_u64"; "kw_i64";
   "kw_f32"; "kw_f64"; "kw_string"; "kw_uuid"; "kw_object_id"; "kw_service_id"; "kw_value";
   "option_type"; "box_type"; "vec_type"; "kw_bytes"; "map_type"; "set_type"; "sender_type";
   "receiver_type"; "kw_lifetime"; "kw_unit"; "result_type"; "array_type"; "named_ref"].

(* ---------------------------------------------------------------- ties to grammar.pest *)

Example tie_ws_keywords : grammar_ws_keywords = ws_keywords.
Proof. reflexivity. Qed.

Example tie_puncts : grammar_puncts = map (fun p => (punct_rule p, punct_str p)) all_punct.
Proof. reflexivity. Qed.

Example tie_type_name_alts : grammar_type_name_alts = type_name_alts.
Proof. reflexivity. Qed.

(* every keyword the model parser uses that is not a [&ws] keyword is a plain keyword of the
   grammar, and the other way round *)
Definition model_plain_keywords : list string :=
  ["u8"; "i8"; "u16"; "i16"; "u32"; "i32"; "u64"; "i64"; "string"; "uuid"; "object_id";
   "service_id"; "bool"; "f32"; "f64"; "value"; "box"; "vec"; "bytes"; "map"; "set"; "option";
   "version"; "args"; "ok"; "err"; "sender"; "receiver"; "lifetime"; "unit"; "result"; "fallback"].

Example tie_plain_keywords : grammar_plain_keywords = model_plain_keywords.
Proof. reflexivity. Qed.

(* the bare type keywords are exactly the [kw_] alternatives of [type_name] *)
Example tie_bare_type_keywords :
  map (fun k => "kw_" ++ k) bare_type_keywords =
  filter (fun a => String.prefix "kw_" a) type_name_alts.
Proof. reflexivity. Qed.
