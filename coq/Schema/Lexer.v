(* Schema/Lexer.v — the model's character lexer [tokenize : string -> list token] (strings are
   UTF-8 byte strings).  It reproduces, for the token-level parser of Schema/Parser.v, what the
   atomic rules of grammar.pest do: WHITESPACE (= Unicode White_Space, all 25 code points),
   comment / doc_string / doc_string_inline (to the end of the line, carrying value_inner() =
   strip one leading blank, trim_end), lit_int, lit_string, lit_uuid, the punctuation rules and
   maximal identifier runs.  Non-ASCII code points outside comments and strings are classified
   by a small explicit table (Latin-1 letters, Greek lower case, CJK U+4E00..U+9FA5 as
   XID_START; U+0300..U+036F as XID_CONTINUE only); any other one yields [TUnk]. *)
From Coq Require Import String Ascii List Bool NArith.
From Aldrin Require Import Schema.Ast Schema.Token.
Import ListNotations.
Open Scope string_scope.
Open Scope N_scope.

Definition code (c : ascii) : N := N_of_ascii c.
Definition between (lo hi : N) (c : ascii) : bool := (lo <=? code c) && (code c <=? hi).
Definition is (n : N) (c : ascii) : bool := code c =? n.

Definition is_digit (c : ascii) : bool := between 48 57 c.
Definition is_alpha (c : ascii) : bool := between 65 90 c || between 97 122 c.
Definition is_hex (c : ascii) : bool := is_digit c || between 65 70 c || between 97 102 c.
Definition is_ascii_ws (c : ascii) : bool := between 9 13 c || is 32 c.
Definition is_ascii (c : ascii) : bool := code c <? 128.

(* ---------------------------------------------------------------- non-ASCII classification *)

Inductive uclass := UWs | UStart | UCont | UOther.

Definition utf8_len (c : ascii) : nat :=
  if between 192 223 c then 2%nat else if between 224 239 c then 3%nat
  else if between 240 247 c then 4%nat else 1%nat.

(* class of the code point whose encoding starts [s] ([s] starts with a byte >= 128) *)
Definition uni_class (s : string) : uclass :=
  match s with
  | String a (String b r) =>
      let a := code a in let b' := code b in
      if (a =? 194) && ((b' =? 133) || (b' =? 160)) then UWs                      (* U+0085 U+00A0 *)
      else if (a =? 195) && (((128 <=? b') && (b' <=? 150)) || ((152 <=? b') && (b' <=? 182))
                             || ((184 <=? b') && (b' <=? 191))) then UStart       (* U+00C0..FF \ D7 F7 *)
      else if (a =? 206) && (177 <=? b') && (b' <=? 191) then UStart              (* U+03B1..03BF *)
      else if (a =? 207) && (128 <=? b') && (b' <=? 137) then UStart              (* U+03C0..03C9 *)
      else if (a =? 204) && (128 <=? b') && (b' <=? 191) then UCont               (* U+0300..033F *)
      else if (a =? 205) && (128 <=? b') && (b' <=? 175) then UCont               (* U+0340..036F *)
      else
        match r with
        | String c _ =>
            let c' := code c in
            if (a =? 225) && (b' =? 154) && (c' =? 128) then UWs                  (* U+1680 *)
            else if (a =? 226) && (b' =? 128) &&
                    (((128 <=? c') && (c' <=? 138)) || (c' =? 168) || (c' =? 169) || (c' =? 175))
                 then UWs                                                         (* U+2000..200A 2028 2029 202F *)
            else if (a =? 226) && (b' =? 129) && (c' =? 159) then UWs             (* U+205F *)
            else if (a =? 227) && (b' =? 128) && (c' =? 128) then UWs             (* U+3000 *)
            else if (a =? 228) && (184 <=? b') then UStart                        (* U+4E00..4FFF *)
            else if (229 <=? a) && (a <=? 232) then UStart                        (* U+5000..8FFF *)
            else if (a =? 233) && ((b' <? 190) || ((b' =? 190) && (c' <=? 165))) then UStart (* U+9000..9FA5 *)
            else UOther
        | _ => UOther
        end
  | _ => UOther
  end.

Fixpoint drop (n : nat) (s : string) : string :=
  match n, s with
  | O, _ => s
  | S m, String _ r => drop m r
  | S _, EmptyString => EmptyString
  end.

Fixpoint take (n : nat) (s : string) : string :=
  match n, s with
  | O, _ => EmptyString
  | S m, String c r => String c (take m r)
  | S _, EmptyString => EmptyString
  end.

(* ---------------------------------------------------------------- trim_end / value_inner *)

(* on the reversed byte list: drop leading (= trailing) White_Space code points *)
Fixpoint trim_rev (fuel : nat) (l : list ascii) : list ascii :=
  match fuel with
  | O => l
  | S f =>
      match l with
      | c :: r =>
          if is_ascii_ws c then trim_rev f r
          else
            match l with
            | b :: a :: r2 =>
                if (is 194 a) && ((is 133 b) || (is 160 b)) then trim_rev f r2
                else
                  match r2 with
                  | a3 :: r3 =>
                      (* bytes in source order: a3 a b *)
                      match uni_class (String a3 (String a (String b EmptyString))) with
                      | UWs => if between 224 239 a3 then trim_rev f r3 else l
                      | _ => l
                      end
                  | [] => l
                  end
            | _ => l
            end
      | [] => l
      end
  end.

Definition trim_end (s : string) : string :=
  let l := list_ascii_of_string s in
  string_of_list_ascii (rev (trim_rev (S (length l)) (rev l))).

(* Comment::value_inner / DocString::value_inner on the text after the [//] / [///] / [//!] *)
Definition inner (content : string) : string :=
  trim_end (match content with String c r => if is 32 c then r else content | _ => content end).

(* content of a line: up to the first LF (exclusive); rest starts after the LF *)
Fixpoint split_line (s : string) : string * string :=
  match s with
  | EmptyString => (EmptyString, EmptyString)
  | String c r => if is 10 c then (EmptyString, r)
                  else let '(a, b) := split_line r in (String c a, b)
  end.

(* ---------------------------------------------------------------- words, numbers, literals *)

Definition is_cont_ascii (c : ascii) : bool := is_alpha c || is_digit c || is 95 c.

(* the maximal run of identifier characters at the start of [s] *)
Fixpoint take_word (fuel : nat) (s : string) : string * string :=
  match fuel with
  | O => (EmptyString, s)
  | S f =>
      match s with
      | EmptyString => (EmptyString, s)
      | String c r =>
          if is_cont_ascii c then let '(w, t) := take_word f r in (String c w, t)
          else if is_ascii c then (EmptyString, s)
          else
            match uni_class s with
            | UStart | UCont =>
                let n := utf8_len c in
                let '(w, t) := take_word f (drop n s) in (take n s ++ w, t)%string
            | _ => (EmptyString, s)
            end
      end
  end.

Fixpoint take_digits (s : string) : string * string :=
  match s with
  | String c r => if is_digit c then let '(d, t) := take_digits r in (String c d, t)
                  else (EmptyString, s)
  | EmptyString => (EmptyString, s)
  end.

(* does an identifier character follow? *)
Definition word_char_next (s : string) : bool :=
  match s with
  | EmptyString => false
  | String c _ =>
      if is_cont_ascii c then true else if is_ascii c then false
      else match uni_class s with UStart | UCont => true | _ => false end
  end.

(* does [ws] (WHITESPACE | comment | EOI) match at [s]? *)
Definition ws_next (s : string) : bool :=
  match s with
  | EmptyString => true
  | String c r =>
      if is_ascii_ws c then true
      else if is_ascii c then
        if is 47 c then
          match r with
          | String c2 r2 =>
              is 47 c2 && match r2 with String c3 _ => negb (is 47 c3 || is 33 c3) | _ => true end
          | _ => false
          end
        else false
      else match uni_class s with UWs => true | _ => false end
  end.

Fixpoint all_hex (n : nat) (s : string) : option string :=
  match n with
  | O => Some s
  | S m => match s with String c r => if is_hex c then all_hex m r else None | _ => None end
  end.

Definition dash (s : string) : option string :=
  match s with String c r => if is 45 c then Some r else None | _ => None end.

Definition obind {A B} (o : option A) (f : A -> option B) : option B :=
  match o with Some x => f x | None => None end.

(* lit_uuid: 8-4-4-4-12 hex digits *)
Definition match_uuid (s : string) : option string :=
  obind (all_hex 8 s) (fun s => obind (dash s) (fun s =>
  obind (all_hex 4 s) (fun s => obind (dash s) (fun s =>
  obind (all_hex 4 s) (fun s => obind (dash s) (fun s =>
  obind (all_hex 4 s) (fun s => obind (dash s) (fun s => all_hex 12 s)))))))).

(* lit_string after the opening quote: Some (body-with-closing-quote, rest) *)
Fixpoint lex_string (fuel : nat) (s : string) : option (string * string) :=
  match fuel with
  | O => None
  | S f =>
      match s with
      | EmptyString => None
      | String c r =>
          if is 34 c then Some (String c EmptyString, r)
          else if is 92 c then
            match r with
            | String c2 r2 =>
                if is 92 c2 || is 34 c2 then
                  option_map (fun '(b, t) => (String c (String c2 b), t)) (lex_string f r2)
                else option_map (fun '(b, t) => (String c b, t)) (lex_string f r)
            | EmptyString => None
            end
          else if is 10 c then None
          else if is 13 c then
            match r with
            | String c2 _ => if is 10 c2 then None
                             else option_map (fun '(b, t) => (String c b, t)) (lex_string f r)
            | EmptyString => None
            end
          else option_map (fun '(b, t) => (String c b, t)) (lex_string f r)
      end
  end.

Definition punct_of (c : ascii) : option punct :=
  let n := code c in
  if n =? 59 then Some PTerm else if n =? 61 then Some PEq else if n =? 40 then Some PParO
  else if n =? 41 then Some PParC else if n =? 60 then Some PAngO else if n =? 62 then Some PAngC
  else if n =? 35 then Some PHash else if n =? 91 then Some PSquO else if n =? 93 then Some PSquC
  else if n =? 44 then Some PComma else if n =? 123 then Some PCurO else if n =? 125 then Some PCurC
  else if n =? 64 then Some PAt else if n =? 33 then Some PExcl else None.

Definition slen (s : string) : nat := String.length s.

(* a number at [s] (which starts with a digit), [neg] = a minus sign was consumed *)
Definition lex_number (neg : bool) (s : string) : token * string :=
  let '(d, t) := take_digits s in
  if word_char_next t then
    let '(_, t2) := take_word (S (slen t)) t in (TBad, t2)
  else (TInt ((if neg then "-" else "") ++ d)%string, t).

Definition is_some_string (o : option string) : bool :=
  match o with Some _ => true | None => false end.

Fixpoint lex (fuel : nat) (s : string) : list token :=
  match fuel with
  | O => []
  | S f =>
      match s with
      | EmptyString => []
      | String c r =>
          if is_ascii_ws c then lex f r
          else if negb (is_ascii c) then
            match uni_class s with
            | UWs => lex f (drop (utf8_len c) s)
            | UStart =>
                let '(w, t) := take_word (S (slen s)) s in TWord w (ws_next t) :: lex f t
            | UCont => TBad :: lex f (drop (utf8_len c) s)
            | UOther => TUnk :: lex f (drop (utf8_len c) s)
            end
          else if is 47 c then
            match r with
            | String c2 r2 =>
                if is 47 c2 then
                  match r2 with
                  | String c3 r3 =>
                      if is 47 c3 then let '(l, t) := split_line r3 in TDoc (inner l) :: lex f t
                      else if is 33 c3 then let '(l, t) := split_line r3 in TDocIn (inner l) :: lex f t
                      else let '(l, t) := split_line r2 in TComment (inner l) :: lex f t
                  | EmptyString => [TComment EmptyString]
                  end
                else TBad :: lex f r
            | EmptyString => [TBad]
            end
          else if is 34 c then
            match lex_string (S (slen r)) r with
            | Some (b, t) => TStr (String c b) :: lex f t
            | None => TBad :: lex f r
            end
          else if is_hex c && is_some_string (match_uuid s) then
            TUuid (take 36 s) :: lex f (drop 36 s)
          else if is_digit c then
            let '(tk, t) := lex_number false s in tk :: lex f t
          else if is 45 c then
            match r with
            | String c2 r2 =>
                if is_digit c2 then let '(tk, t) := lex_number true r in tk :: lex f t
                else if is 62 c2 then TP PArrow :: lex f r2
                else TBad :: lex f r
            | EmptyString => [TBad]
            end
          else if is_alpha c || is 95 c then
            let '(w, t) := take_word (S (slen s)) s in TWord w (ws_next t) :: lex f t
          else if is 58 c then
            match r with
            | String c2 r2 => if is 58 c2 then TP PScope :: lex f r2 else TBad :: lex f r
            | EmptyString => [TBad]
            end
          else
            match punct_of c with
            | Some p => TP p :: lex f r
            | None => TBad :: lex f r
            end
      end
  end.

Definition tokenize (s : string) : list token := lex (S (slen s)) s.
