(* Schema/LexerProofs.v — the character level for type names: lexing the text the formatter
   prints for a type name yields exactly its token stream ([C18_print_tokens_partial]).
   Identifiers are restricted to ASCII identifiers, array lengths to references or unsigned
   decimal literals. *)
From Coq Require Import String Ascii List Bool NArith Arith Lia.
From Aldrin Require Import Schema.Ast Schema.Token Schema.Printer Schema.Lexer.
Import ListNotations.
Open Scope string_scope.

(* ---------------------------------------------------------------- character facts *)

Lemma code_bound : forall c, (code c < 256)%N.
Proof. intros c. unfold code. apply N_ascii_bounded. Qed.

(* the separators that follow a word or a number inside / after a type name *)
Definition ty_sep (c : ascii) : bool := is 59 c || is 62 c || is 44 c || is 93 c || is 32 c || is 60 c || is 58 c.

Definition sep_rest (s : string) : Prop :=
  match s with String c _ => ty_sep c = true | EmptyString => False end.

Ltac bool_to_prop :=
  repeat match goal with
  | H : _ || _ = true |- _ => apply orb_true_iff in H; destruct H as [H | H]
  | H : _ && _ = true |- _ => apply andb_true_iff in H; destruct H as [? H]
  | H : is _ _ = true |- _ => unfold is in H; apply N.eqb_eq in H
  | H : between _ _ _ = true |- _ => unfold between in H
  | H : (_ <=? _)%N = true |- _ => apply N.leb_le in H
  | H : (_ <? _)%N = true |- _ => apply N.ltb_lt in H
  end.

Lemma sep_code : forall c, ty_sep c = true ->
  (code c = 59 \/ code c = 62 \/ code c = 44 \/ code c = 93 \/ code c = 32 \/ code c = 60 \/ code c = 58)%N.
Proof. intros c H. unfold ty_sep in H. bool_to_prop; lia. Qed.

Ltac sep_cases c H :=
  let Hc := fresh "Hc" in
  pose proof (sep_code c H) as Hc;
  repeat (destruct Hc as [Hc | Hc]).

Ltac by_code :=
  unfold is_hex, is_cont_ascii, is_alpha, is_digit, is_ascii_ws, is_ascii, between, is in *;
  match goal with Hc : code _ = _ |- _ => rewrite !Hc end; reflexivity.

Lemma sep_not_cont : forall c, ty_sep c = true -> is_cont_ascii c = false.
Proof. intros c H. sep_cases c H; by_code. Qed.
Lemma sep_ascii : forall c, ty_sep c = true -> is_ascii c = true.
Proof. intros c H. sep_cases c H; by_code. Qed.
Lemma sep_not_hex : forall c, ty_sep c = true -> is_hex c = false.
Proof. intros c H. sep_cases c H; by_code. Qed.
Lemma sep_not_dash : forall c, ty_sep c = true -> is 45 c = false.
Proof. intros c H. sep_cases c H; by_code. Qed.

Lemma cont_not_dash : forall c, is_cont_ascii c = true -> is 45 c = false.
Proof.
  intros c H. unfold is_cont_ascii, is_alpha, is_digit in H. unfold is.
  apply N.eqb_neq. bool_to_prop; lia.
Qed.

Lemma length_append : forall a b, String.length (a ++ b) = (String.length a + String.length b)%nat.
Proof. induction a; intros; cbn; [reflexivity | now rewrite IHa]. Qed.

(* ---------------------------------------------------------------- words *)

Fixpoint all_cont (s : string) : bool :=
  match s with EmptyString => true | String c r => is_cont_ascii c && all_cont r end.

(* an ASCII identifier *)
Definition lex_ident (w : string) : bool :=
  match w with String c r => (is_alpha c || is 95 c) && all_cont r | EmptyString => false end.

Lemma take_word_ok : forall w rest fuel, all_cont w = true -> sep_rest rest ->
  (String.length w < fuel)%nat -> take_word fuel (w ++ rest) = (w, rest).
Proof.
  induction w as [|c w IH]; intros rest fuel Hw Hr Hf.
  - destruct fuel as [|f]; [lia|]. cbn [append take_word]. destruct rest as [|c r]; [contradiction|].
    cbn in Hr. now rewrite (sep_not_cont c Hr), (sep_ascii c Hr).
  - destruct fuel as [|f]; [cbn in Hf; lia|]. cbn [append take_word].
    cbn [all_cont] in Hw. apply andb_true_iff in Hw. destruct Hw as [Hc Hw].
    rewrite Hc, IH; [reflexivity | assumption | assumption | cbn in Hf; lia].
Qed.

Lemma all_hex_cont_none : forall n w rest, all_cont w = true -> sep_rest rest ->
  (String.length w < n)%nat -> all_hex n (w ++ rest) = None.
Proof.
  induction n as [|m IH]; intros w rest Hw Hr Hl; [lia|].
  destruct w as [|c w]; cbn [append all_hex].
  - destruct rest as [|c r]; [contradiction|]. cbn in Hr. now rewrite (sep_not_hex c Hr).
  - cbn [all_cont] in Hw. apply andb_true_iff in Hw. destruct Hw as [Hc Hw].
    destruct (is_hex c); [|reflexivity]. apply IH; [assumption | assumption | cbn in Hl; lia].
Qed.

(* a run of identifier characters followed by a separator is never a uuid *)
Lemma uuid_none_word : forall w rest, all_cont w = true -> sep_rest rest ->
  match_uuid (w ++ rest) = None.
Proof.
  intros w rest Hw Hr. unfold match_uuid.
  destruct (Nat.lt_ge_cases (String.length w) 8) as [Hlt | Hge].
  - now rewrite all_hex_cont_none.
  - (* at least 8 characters: the ninth position is not a dash *)
    do 8 (destruct w as [|? w]; [cbn in Hge; lia|]).
    cbn [all_cont] in Hw. repeat (apply andb_true_iff in Hw; destruct Hw as [? Hw]).
    cbn [append all_hex]. repeat (match goal with |- context [is_hex ?c] => destruct (is_hex c) end; cbn [obind]; try reflexivity).
    unfold dash. destruct w as [|c9 w]; cbn [append].
    + destruct rest as [|c r]; [contradiction|]. cbn in Hr. now rewrite (sep_not_dash c Hr).
    + cbn [all_cont] in Hw. apply andb_true_iff in Hw. destruct Hw as [Hc9 _].
      now rewrite (cont_not_dash c9 Hc9).
Qed.

Ltac solve_cmp :=
  repeat match goal with
  | |- context [(?a <=? ?b)%N] => destruct (N.leb_spec a b)
  | |- context [(?a <? ?b)%N] => destruct (N.ltb_spec a b)
  | |- context [(?a =? ?b)%N] => destruct (N.eqb_spec a b)
  end; cbn; first [reflexivity | exfalso; lia].

Lemma start_range : forall c, (is_alpha c || is 95 c) = true ->
  (65 <= code c <= 90 \/ 97 <= code c <= 122 \/ code c = 95)%N.
Proof. intros c H. unfold is_alpha in H. bool_to_prop; lia. Qed.

Lemma start_tests : forall c, (is_alpha c || is 95 c) = true ->
  is_ascii_ws c = false /\ is_ascii c = true /\ is 47 c = false /\ is 34 c = false /\
  is_digit c = false /\ is 45 c = false /\ is_cont_ascii c = true.
Proof.
  intros c H. apply start_range in H.
  unfold is_ascii_ws, is_ascii, is_digit, is_cont_ascii, is_alpha, is_digit, between, is.
  set (x := code c) in *.
  repeat split; solve_cmp.
Qed.

Lemma lex_word : forall w rest f, lex_ident w = true -> sep_rest rest ->
  lex (S f) (w ++ rest) = TWord w (ws_next rest) :: lex f rest.
Proof.
  intros [|c r] rest f Hw Hr; [discriminate|]. cbn [lex_ident] in Hw.
  apply andb_true_iff in Hw. destruct Hw as [Hc Hrr].
  destruct (start_tests c Hc) as [T1 [T2 [T3 [T4 [T5 [T6 T7]]]]]].
  assert (Hall : all_cont (String c r) = true) by (cbn [all_cont]; now rewrite T7, Hrr).
  cbn [append lex]. rewrite T1, T2. cbn [negb]. rewrite T3, T4.
  change (String c (r ++ rest)) with (String c r ++ rest).
  rewrite (uuid_none_word _ _ Hall Hr). cbn [is_some_string]. rewrite andb_false_r, T5, T6, Hc.
  rewrite take_word_ok; [reflexivity | assumption | assumption | ].
  unfold slen. rewrite length_append. destruct rest; [contradiction|]. cbn [String.length]. lia.
Qed.

(* ---------------------------------------------------------------- numbers *)

Fixpoint all_digits (s : string) : bool :=
  match s with EmptyString => true | String c r => is_digit c && all_digits r end.

Definition lex_uint (s : string) : bool :=
  match s with String _ _ => all_digits s | EmptyString => false end.

Lemma digit_cont : forall c, is_digit c = true -> is_cont_ascii c = true.
Proof. intros c H. unfold is_cont_ascii. now rewrite H, orb_true_r. Qed.

Lemma digits_cont : forall s, all_digits s = true -> all_cont s = true.
Proof.
  induction s as [|c r IH]; intros H; [reflexivity|]. cbn in *.
  apply andb_true_iff in H. destruct H as [Hc Hr]. now rewrite (digit_cont c Hc), IH.
Qed.

Lemma sep_not_digit : forall c, ty_sep c = true -> is_digit c = false.
Proof. intros c H. sep_cases c H; by_code. Qed.

Lemma take_digits_ok : forall d rest, all_digits d = true -> sep_rest rest ->
  take_digits (d ++ rest) = (d, rest).
Proof.
  induction d as [|c d IH]; intros rest Hd Hr.
  - destruct rest as [|c r]; [contradiction|]. cbn in *. now rewrite (sep_not_digit c Hr).
  - cbn in *. apply andb_true_iff in Hd. destruct Hd as [Hc Hd]. now rewrite Hc, IH.
Qed.

Lemma digit_tests : forall c, is_digit c = true ->
  is_ascii_ws c = false /\ is_ascii c = true /\ is 47 c = false /\ is 34 c = false.
Proof.
  intros c H. unfold is_digit in H. bool_to_prop.
  unfold is_ascii_ws, is_ascii, between, is. set (x := code c) in *.
  repeat split; solve_cmp.
Qed.

Lemma lex_uint_ok : forall d rest f, lex_uint d = true -> sep_rest rest ->
  lex (S f) (d ++ rest) = TInt d :: lex f rest.
Proof.
  intros [|c r] rest f Hd Hr; [discriminate|]. cbn [lex_uint] in Hd.
  assert (Hc : is_digit c = true) by (cbn in Hd; now apply andb_true_iff in Hd).
  destruct (digit_tests c Hc) as [T1 [T2 [T3 T4]]].
  cbn [append lex]. rewrite T1, T2. cbn [negb]. rewrite T3, T4.
  change (String c (r ++ rest)) with (String c r ++ rest).
  rewrite (uuid_none_word _ _ (digits_cont _ Hd) Hr). cbn [is_some_string]. rewrite andb_false_r, Hc.
  unfold lex_number. rewrite take_digits_ok by assumption.
  destruct rest as [|c0 r0]; [contradiction|]. cbn in Hr.
  cbn [word_char_next]. rewrite (sep_not_cont c0 Hr), (sep_ascii c0 Hr). reflexivity.
Qed.

(* ---------------------------------------------------------------- type names *)

Definition lex_nref (r : nref) : bool :=
  match r with Intern n => lex_ident n | Extern s n => lex_ident s && lex_ident n end.

Definition lex_alen (l : alen) : bool :=
  match l with LLit s => lex_uint s | LRef r => lex_nref r end.

Fixpoint lex_ty (t : ty) : bool :=
  match t with
  | TPrim _ => true
  | TGen _ a => lex_ty a
  | TMap k v => lex_ty k && lex_ty v
  | TResult a b => lex_ty a && lex_ty b
  | TArray a l => lex_ty a && lex_alen l
  | TRef r => lex_nref r
  end.

(* number of lexer steps (tokens and skipped blanks) *)
Definition cost_nref (r : nref) : nat := match r with Intern _ => 1 | Extern _ _ => 3 end.
Definition cost_alen (l : alen) : nat := match l with LLit _ => 1 | LRef r => cost_nref r end.
Fixpoint cost (t : ty) : nat :=
  match t with
  | TPrim _ => 1
  | TGen _ a => 3 + cost a
  | TMap k v => 6 + cost k + cost v
  | TResult a b => 5 + cost a + cost b
  | TArray a l => 4 + cost a + cost_alen l
  | TRef r => cost_nref r
  end.

Lemma lex_ident_prim : forall p, lex_ident (prim_str p) = true.
Proof. destruct p; reflexivity. Qed.
Lemma lex_ident_gen1 : forall g, lex_ident (gen1_str g) = true.
Proof. destruct g; reflexivity. Qed.

Lemma app_assoc_s : forall a b c : string, (a ++ b) ++ c = a ++ (b ++ c).
Proof. induction a; intros; cbn; [reflexivity | now rewrite IHa]. Qed.

Lemma lex_nref_ok : forall r rest f, lex_nref r = true -> sep_rest rest ->
  lex (cost_nref r + f) (pr_nref r ++ rest) = (toks_nref r (ws_next rest) ++ lex f rest)%list.
Proof.
  intros [n | s n] rest f H Hr; cbn [pr_nref cost_nref toks_nref lex_nref] in *.
  - cbn [Nat.add]. now rewrite lex_word.
  - apply andb_true_iff in H. destruct H as [Hs Hn].
    rewrite !app_assoc_s. cbn [Nat.add]. rewrite lex_word by (assumption || reflexivity).
    change ("::" ++ n ++ rest) with (String ":" (String ":" (n ++ rest))).
    change (ws_next (String ":" (String ":" (n ++ rest)))) with false.
    change (lex (S (S f)) (String ":" (String ":" (n ++ rest)))) with (TP PScope :: lex (S f) (n ++ rest)).
    now rewrite lex_word.
Qed.

Lemma sep_close : forall rest, sep_rest (">" ++ rest). Proof. reflexivity. Qed.
Lemma sep_open : forall rest, sep_rest ("<" ++ rest). Proof. reflexivity. Qed.
Lemma sep_comma : forall rest, sep_rest (", " ++ rest). Proof. reflexivity. Qed.
Lemma sep_space : forall rest, sep_rest (" " ++ rest). Proof. reflexivity. Qed.
Lemma sep_semi : forall rest, sep_rest (";" ++ rest). Proof. reflexivity. Qed.
Lemma sep_squ : forall rest, sep_rest ("]" ++ rest). Proof. reflexivity. Qed.

Ltac fin := cbn [app]; repeat (rewrite <- app_assoc; cbn [app]); reflexivity.

Lemma lex_ty_ok : forall t rest f, lex_ty t = true -> sep_rest rest ->
  lex (cost t + f) (pr_ty t ++ rest) = (toks_ty t (ws_next rest) ++ lex f rest)%list.
Proof.
  induction t as [p | g a IHa | k IHk v IHv | a IHa b IHb | a IHa l | r];
    intros rest f H Hr; cbn [pr_ty cost toks_ty lex_ty] in *.
  - cbn [Nat.add]. unfold W. now rewrite lex_word by (apply lex_ident_prim || assumption).
  - rewrite !app_assoc_s. cbn [Nat.add]. unfold W.
    rewrite lex_word by (apply lex_ident_gen1 || apply sep_open).
    change (ws_next ("<" ++ pr_ty a ++ ">" ++ rest)) with false.
    change (lex (S (S (cost a + f))) ("<" ++ pr_ty a ++ ">" ++ rest))
      with (TP PAngO :: lex (S (cost a + f)) (pr_ty a ++ ">" ++ rest)).
    replace (S (cost a + f)) with (cost a + S f)%nat by lia.
    rewrite IHa by (assumption || apply sep_close).
    change (ws_next (">" ++ rest)) with false.
    change (lex (S f) (">" ++ rest)) with (TP PAngC :: lex f rest).
    fin.
  - apply andb_true_iff in H. destruct H as [Hk Hv].
    rewrite !app_assoc_s. unfold W.
    change ("map<" ++ pr_ty k ++ " -> " ++ pr_ty v ++ ">" ++ rest)
      with ("map" ++ "<" ++ pr_ty k ++ " -> " ++ pr_ty v ++ ">" ++ rest).
    replace (6 + cost k + cost v + f)%nat with (S (S (cost k + (3 + (cost v + S f)))))%nat by lia.
    rewrite lex_word by (reflexivity || apply sep_open).
    change (ws_next ("<" ++ pr_ty k ++ " -> " ++ pr_ty v ++ ">" ++ rest)) with false.
    change (lex (S (cost k + (3 + (cost v + S f)))) ("<" ++ pr_ty k ++ " -> " ++ pr_ty v ++ ">" ++ rest))
      with (TP PAngO :: lex (cost k + (3 + (cost v + S f))) (pr_ty k ++ " -> " ++ pr_ty v ++ ">" ++ rest)).
    rewrite IHk by (assumption || apply sep_space).
    change (ws_next (" -> " ++ pr_ty v ++ ">" ++ rest)) with true.
    change (lex (3 + (cost v + S f)) (" -> " ++ pr_ty v ++ ">" ++ rest))
      with (TP PArrow :: lex (cost v + S f) (pr_ty v ++ ">" ++ rest)).
    rewrite IHv by (assumption || apply sep_close).
    change (ws_next (">" ++ rest)) with false.
    change (lex (S f) (">" ++ rest)) with (TP PAngC :: lex f rest).
    fin.
  - apply andb_true_iff in H. destruct H as [Ha Hb].
    rewrite !app_assoc_s. unfold W.
    change ("result<" ++ pr_ty a ++ ", " ++ pr_ty b ++ ">" ++ rest)
      with ("result" ++ "<" ++ pr_ty a ++ ", " ++ pr_ty b ++ ">" ++ rest).
    replace (5 + cost a + cost b + f)%nat with (S (S (cost a + (2 + (cost b + S f)))))%nat by lia.
    rewrite lex_word by (reflexivity || apply sep_open).
    change (ws_next ("<" ++ pr_ty a ++ ", " ++ pr_ty b ++ ">" ++ rest)) with false.
    change (lex (S (cost a + (2 + (cost b + S f)))) ("<" ++ pr_ty a ++ ", " ++ pr_ty b ++ ">" ++ rest))
      with (TP PAngO :: lex (cost a + (2 + (cost b + S f))) (pr_ty a ++ ", " ++ pr_ty b ++ ">" ++ rest)).
    rewrite IHa by (assumption || apply sep_comma).
    change (ws_next (", " ++ pr_ty b ++ ">" ++ rest)) with false.
    change (lex (2 + (cost b + S f)) (", " ++ pr_ty b ++ ">" ++ rest))
      with (TP PComma :: lex (cost b + S f) (pr_ty b ++ ">" ++ rest)).
    rewrite IHb by (assumption || apply sep_close).
    change (ws_next (">" ++ rest)) with false.
    change (lex (S f) (">" ++ rest)) with (TP PAngC :: lex f rest).
    fin.
  - apply andb_true_iff in H. destruct H as [Ha Hl].
    rewrite !app_assoc_s.
    replace (4 + cost a + cost_alen l + f)%nat with (S (cost a + (2 + (cost_alen l + S f))))%nat by lia.
    change (lex (S (cost a + (2 + (cost_alen l + S f)))) ("[" ++ pr_ty a ++ "; " ++ pr_alen l ++ "]" ++ rest))
      with (TP PSquO :: lex (cost a + (2 + (cost_alen l + S f))) (pr_ty a ++ "; " ++ pr_alen l ++ "]" ++ rest)).
    rewrite IHa by (assumption || reflexivity).
    change (ws_next ("; " ++ pr_alen l ++ "]" ++ rest)) with false.
    change (lex (2 + (cost_alen l + S f)) ("; " ++ pr_alen l ++ "]" ++ rest))
      with (TP PTerm :: lex (cost_alen l + S f) (pr_alen l ++ "]" ++ rest)).
    assert (Hlen : lex (cost_alen l + S f) (pr_alen l ++ "]" ++ rest) = (toks_alen l ++ TP PSquC :: lex f rest)%list).
    { destruct l as [s | r]; cbn [pr_alen cost_alen toks_alen lex_alen] in *.
      - cbn [Nat.add]. rewrite lex_uint_ok by (assumption || apply sep_squ). reflexivity.
      - rewrite lex_nref_ok by (assumption || apply sep_squ). reflexivity. }
    rewrite Hlen. fin.
  - now apply lex_nref_ok.
Qed.

(* ---------------------------------------------------------------- closing the fuel *)

Lemma lex_nil : forall f, lex f EmptyString = [].
Proof. destruct f; reflexivity. Qed.

Lemma lex_ident_nonempty : forall w, lex_ident w = true -> (1 <= String.length w)%nat.
Proof. intros [|c r] H; [discriminate | cbn; lia]. Qed.

Lemma cost_nref_le : forall r, lex_nref r = true -> (cost_nref r <= String.length (pr_nref r))%nat.
Proof.
  intros [n | s n] H; cbn [cost_nref pr_nref lex_nref] in *.
  - now apply lex_ident_nonempty.
  - apply andb_true_iff in H. destruct H as [Hs Hn].
    apply lex_ident_nonempty in Hs. apply lex_ident_nonempty in Hn.
    rewrite !length_append. cbn [String.length]. lia.
Qed.

Lemma cost_le : forall t, lex_ty t = true -> (cost t <= String.length (pr_ty t))%nat.
Proof.
  induction t as [p | g a IHa | k IHk v IHv | a IHa b IHb | a IHa l | r]; intros H;
    cbn [cost pr_ty lex_ty] in *.
  - destruct p; cbn; lia.
  - specialize (IHa H). rewrite !length_append. cbn [String.length].
    assert (1 <= String.length (gen1_str g))%nat by (destruct g; cbn; lia). lia.
  - apply andb_true_iff in H. destruct H as [Hk Hv]. specialize (IHk Hk). specialize (IHv Hv).
    rewrite !length_append. cbn [String.length]. lia.
  - apply andb_true_iff in H. destruct H as [Ha Hb]. specialize (IHa Ha). specialize (IHb Hb).
    rewrite !length_append. cbn [String.length]. lia.
  - apply andb_true_iff in H. destruct H as [Ha Hl]. specialize (IHa Ha).
    rewrite !length_append. cbn [String.length].
    assert (cost_alen l <= String.length (pr_alen l))%nat.
    { destruct l as [s | r]; cbn [cost_alen pr_alen lex_alen] in *.
      - destruct s; [discriminate | cbn; lia].
      - now apply cost_nref_le. }
    lia.
  - now apply cost_nref_le.
Qed.

(* the character level for type names: what the formatter prints for a type name, followed by
   the terminator it always puts after one, lexes to exactly the type's token stream *)
Theorem print_tokens_ty : forall t, lex_ty t = true ->
  tokenize (pr_ty t ++ ";") = (toks_ty t false ++ [TP PTerm])%list.
Proof.
  intros t H. unfold tokenize, slen. rewrite length_append. cbn [String.length].
  pose proof (cost_le t H) as Hc.
  replace (S (String.length (pr_ty t) + 1)) with (cost t + S (S (String.length (pr_ty t)) - cost t))%nat by lia.
  rewrite lex_ty_ok by (assumption || reflexivity).
  change (ws_next ";") with false.
  set (x := (S (String.length (pr_ty t)) - cost t)%nat).
  change (lex (S x) ";") with (TP PTerm :: lex x EmptyString).
  now rewrite lex_nil.
Qed.

(* one field line without its prelude: [name @ id = type;] and the line feed *)
Theorem print_tokens_field : forall name id t,
  lex_ident name = true -> lex_uint id = true -> lex_ty t = true ->
  tokenize (name ++ " @ " ++ id ++ " = " ++ pr_ty t ++ ";" ++ LF) =
  (TWord name true :: TP PAt :: TInt id :: TP PEq :: toks_ty t false ++ [TP PTerm])%list.
Proof.
  intros name id t Hn Hi Ht. unfold tokenize, slen.
  pose proof (cost_le t Ht) as Hc. pose proof (lex_ident_nonempty name Hn) as Hl.
  assert (Hid : (1 <= String.length id)%nat) by (destruct id; [discriminate | cbn; lia]).
  set (s := name ++ " @ " ++ id ++ " = " ++ pr_ty t ++ ";" ++ LF).
  assert (Hlen : (cost t + 10 <= String.length s)%nat).
  { unfold s, LF. rewrite !length_append. cbn [String.length]. lia. }
  assert (Hf : exists f0, S (String.length s) = S (3 + S (3 + (cost t + S (S f0))))).
  { exists (S (String.length s) - cost t - 10)%nat. lia. }
  destruct Hf as [f0 ->]. unfold s. clear s Hlen.
  rewrite lex_word by (assumption || reflexivity).
  change (ws_next (" @ " ++ id ++ " = " ++ pr_ty t ++ ";" ++ LF)) with true.
  change (lex (3 + S (3 + (cost t + S (S f0)))) (" @ " ++ id ++ " = " ++ pr_ty t ++ ";" ++ LF))
    with (TP PAt :: lex (S (3 + (cost t + S (S f0)))) (id ++ " = " ++ pr_ty t ++ ";" ++ LF)).
  rewrite lex_uint_ok by (assumption || reflexivity).
  change (lex (3 + (cost t + S (S f0))) (" = " ++ pr_ty t ++ ";" ++ LF))
    with (TP PEq :: lex (cost t + S (S f0)) (pr_ty t ++ ";" ++ LF)).
  rewrite lex_ty_ok by (assumption || reflexivity).
  change (ws_next (";" ++ LF)) with false.
  change (lex (S (S f0)) (";" ++ LF)) with (TP PTerm :: lex f0 EmptyString).
  now rewrite lex_nil.
Qed.

Example lex_ty_example :
  lex_ty (TMap (TPrim PF32) (TArray (TGen GVec (TRef (Extern "dep" "Abcdef01"))) (LLit "123456789"))) = true.
Proof. reflexivity. Qed.
