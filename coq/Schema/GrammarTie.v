(* Schema/GrammarTie.v — the text of every non-token rule of parser/grammar.pest that
   Schema/Lexer.v and Schema/Parser.v were transcribed from.  A change of the grammar makes this
   Example fail: the transcription has to be reviewed against the new rule, then this copy is
   refreshed. *)
From Coq Require Import String List.
From Aldrin Require Import gen.GrammarTokens.
Import ListNotations.
Open Scope string_scope.

Definition pinned_rules : list (string * (string * string)) := [
  ("WHITESPACE", ("_", "WHITE_SPACE"));
  ("comment", ("@", "!""///"" ~ !""//!"" ~ ""//"" ~ (!newline ~ ANY)* ~ (newline | EOI)"));
  ("newline", ("_", """\r\n"" | ""\n"""));
  ("ws", ("_", "WHITESPACE | comment | EOI"));
  ("lit_int", ("@", """-""? ~ ASCII_DIGIT+"));
  ("lit_string_char", ("@", """\\\\"" | ""\\\"""" | (!(""\"""" | newline) ~ ANY)"));
  ("lit_string", ("@", """\"""" ~ lit_string_char* ~ ""\"""""));
  ("lit_uuid", ("@", "ASCII_HEX_DIGIT{8} ~ ""-"" ~ ASCII_HEX_DIGIT{4} ~ ""-"" ~ ASCII_HEX_DIGIT{4} ~ ""-"" ~ ASCII_HEX_DIGIT{4} ~ ""-"" ~ ASCII_HEX_DIGIT{12}"));
  ("ident", ("@", "(XID_START | ""_"") ~ XID_CONTINUE*"));
  ("external_ref", ("", "ident ~ tok_scope ~ ident"));
  ("named_ref", ("", "external_ref | ident"));
  ("option_type", ("", "kw_option ~ tok_ang_open ~ type_name ~ tok_ang_close"));
  ("box_type", ("", "kw_box ~ tok_ang_open ~ type_name ~ tok_ang_close"));
  ("vec_type", ("", "kw_vec ~ tok_ang_open ~ type_name ~ tok_ang_close"));
  ("map_type", ("", "kw_map ~ tok_ang_open ~ type_name ~ tok_arrow ~ type_name ~ tok_ang_close"));
  ("set_type", ("", "kw_set ~ tok_ang_open ~ type_name ~ tok_ang_close"));
  ("sender_type", ("", "kw_sender ~ tok_ang_open ~ type_name ~ tok_ang_close"));
  ("receiver_type", ("", "kw_receiver ~ tok_ang_open ~ type_name ~ tok_ang_close"));
  ("result_type", ("", "kw_result ~ tok_ang_open ~ type_name ~ tok_comma ~ type_name ~ tok_ang_close"));
  ("array_len", ("", "lit_int | named_ref"));
  ("array_type", ("", "tok_squ_open ~ type_name ~ tok_term ~ array_len ~ tok_squ_close"));
  ("type_name", ("", "kw_bool | kw_u8 | kw_i8 | kw_u16 | kw_i16 | kw_u32 | kw_i32 | kw_u64 | kw_i64 | kw_f32 | kw_f64 | kw_string | kw_uuid | kw_object_id | kw_service_id | kw_value | option_type | box_type | vec_type | kw_bytes | map_type | set_type | sender_type | receiver_type | kw_lifetime | kw_unit | result_type | array_type | named_ref"));
  ("type_name_or_inline", ("", "(type_name ~ tok_term) | struct_inline | enum_inline"));
  ("file", ("_", "SOI ~ (comment* ~ doc_string_inline)* ~ import_stmt* ~ def* ~ EOI"));
  ("attribute", ("", "tok_hash ~ tok_squ_open ~ ident ~ (tok_par_open ~ ident ~ (tok_comma ~ ident)* ~ tok_comma? ~ tok_par_close)? ~ tok_squ_close"));
  ("attribute_inline", ("", "tok_hash ~ tok_excl ~ tok_squ_open ~ ident ~ (tok_par_open ~ ident ~ (tok_comma ~ ident)* ~ tok_comma? ~ tok_par_close)? ~ tok_squ_close"));
  ("doc_string", ("@", """///"" ~ (!newline ~ ANY)* ~ (newline | EOI)"));
  ("doc_string_inline", ("@", """//!"" ~ (!newline ~ ANY)* ~ (newline | EOI)"));
  ("import_stmt", ("", "comment* ~ kw_import ~ ident ~ tok_term"));
  ("def", ("", "struct_def | enum_def | service_def | const_def | newtype_def"));
  ("struct_def", ("", "(comment | doc_string | attribute)* ~ kw_struct ~ ident ~ tok_cur_open ~ struct_field* ~ struct_fallback? ~ tok_cur_close"));
  ("struct_inline", ("", "kw_struct ~ tok_cur_open ~ (doc_string_inline | attribute_inline)* ~ struct_field* ~ struct_fallback? ~ tok_cur_close"));
  ("struct_field", ("", "(comment | doc_string)* ~ kw_required? ~ ident ~ tok_at ~ lit_int ~ tok_eq ~ type_name ~ tok_term"));
  ("struct_fallback", ("", "(comment | doc_string)* ~ ident ~ tok_eq ~ kw_fallback ~ tok_term"));
  ("enum_def", ("", "(comment | doc_string | attribute)* ~ kw_enum ~ ident ~ tok_cur_open ~ enum_variant* ~ enum_fallback? ~ tok_cur_close"));
  ("enum_inline", ("", "kw_enum ~ tok_cur_open ~ (doc_string_inline | attribute_inline)* ~ enum_variant* ~ enum_fallback? ~ tok_cur_close"));
  ("enum_variant", ("", "(comment | doc_string)* ~ident ~ tok_at ~ lit_int ~ (tok_eq ~ type_name)? ~ tok_term"));
  ("enum_fallback", ("", "(comment | doc_string)* ~ident ~ tok_eq ~ kw_fallback ~ tok_term"));
  ("service_def", ("", "(comment | doc_string)* ~ kw_service ~ ident ~ tok_cur_open ~ service_uuid ~ service_version ~ service_item* ~ service_fallback? ~ tok_cur_close"));
  ("service_uuid", ("", "comment* ~ kw_uuid ~ tok_eq ~ lit_uuid ~ tok_term"));
  ("service_version", ("", "comment* ~ kw_version ~ tok_eq ~ lit_int ~ tok_term"));
  ("service_item", ("", "fn_def | event_def"));
  ("service_fallback", ("", "(fn_fallback ~ event_fallback?) | (event_fallback ~ fn_fallback?)"));
  ("fn_def", ("", "(comment | doc_string)* ~ kw_fn ~ ident ~ tok_at ~ lit_int ~ fn_body"));
  ("fn_body", ("_", "fn_body_full | fn_body_ok | tok_term"));
  ("fn_body_full", ("_", "tok_cur_open ~ fn_args? ~ fn_ok? ~ fn_err? ~ tok_cur_close"));
  ("fn_body_ok", ("_", "tok_eq ~ type_name_or_inline"));
  ("fn_args", ("", "comment* ~ kw_args ~ tok_eq ~ type_name_or_inline"));
  ("fn_ok", ("", "comment* ~ kw_ok ~ tok_eq ~ type_name_or_inline"));
  ("fn_err", ("", "comment* ~ kw_err ~ tok_eq ~ type_name_or_inline"));
  ("fn_fallback", ("", "(comment | doc_string)* ~ kw_fn ~ ident ~ tok_eq ~ kw_fallback ~ tok_term"));
  ("event_def", ("", "(comment | doc_string)* ~ kw_event ~ ident ~ tok_at ~ lit_int ~ ((tok_eq ~ type_name_or_inline) | tok_term)"));
  ("event_fallback", ("", "(comment | doc_string)* ~ kw_event ~ ident ~ tok_eq ~ kw_fallback ~ tok_term"));
  ("const_def", ("", "(comment | doc_string)* ~ kw_const ~ ident ~ tok_eq ~ const_value ~ tok_term"));
  ("const_value", ("", "const_int | const_string | const_uuid"));
  ("const_int", ("_", "const_int_kw ~ tok_par_open ~ lit_int ~ tok_par_close"));
  ("const_int_kw", ("_", "kw_u8 | kw_i8 | kw_u16 | kw_i16 | kw_u32 | kw_i32 | kw_u64 | kw_i64"));
  ("const_string", ("_", "kw_string ~ tok_par_open ~ lit_string ~ tok_par_close"));
  ("const_uuid", ("_", "kw_uuid ~ tok_par_open ~ lit_uuid ~ tok_par_close"));
  ("newtype_def", ("", "(comment | doc_string | attribute)* ~ kw_newtype ~ ident ~ tok_eq ~ type_name ~ tok_term"))
].

Example grammar_rules_pinned : grammar_rules = pinned_rules.
Proof. reflexivity. Qed.
