(* Schema/Ast.v — the schema AST as seen through the public accessors of aldrin_parser::ast
   (parser/src/ast/*.rs): spans dropped; comments and doc strings are their [value_inner()];
   identifiers, integer / string / uuid literals are their source text [value()].
   Preludes are three lists exactly as ast/prelude.rs collects them. *)
From Coq Require Import String List Bool.
Import ListNotations.
Open Scope string_scope.

(* TypeNameKind variants without arguments, in the order of the alternatives of [type_name] *)
Inductive prim :=
| PBool | PU8 | PI8 | PU16 | PI16 | PU32 | PI32 | PU64 | PI64 | PF32 | PF64 | PString | PUuid
| PObjectId | PServiceId | PValue | PBytes | PLifetime | PUnit.

(* one-argument generic types *)
Inductive gen1 := GOption | GBox | GVec | GSet | GSender | GReceiver.

Inductive nref := Intern (n : string) | Extern (s n : string).
Inductive alen := LLit (s : string) | LRef (r : nref).

Inductive ty :=
| TPrim (p : prim)
| TGen (g : gen1) (a : ty)
| TMap (k v : ty)
| TResult (a b : ty)
| TArray (a : ty) (l : alen)
| TRef (r : nref).

Record attr := { a_name : string; a_opts : list string }.

Record field := {
  f_comment : list string; f_doc : list string; f_req : bool; f_name : string; f_id : string;
  f_ty : ty }.

(* StructFallback, EnumFallback, FunctionFallback, EventFallback have the same shape *)
Record fallback := { fb_comment : list string; fb_doc : list string; fb_name : string }.

Record variant := {
  v_comment : list string; v_doc : list string; v_name : string; v_id : string;
  v_ty : option ty }.

(* TypeNameOrInline: InlineStruct / InlineEnum have doc + attributes but no comments, no name *)
Inductive tyinl :=
| ITy (t : ty)
| IStruct (doc : list string) (attrs : list attr) (fields : list field) (fb : option fallback)
| IEnum (doc : list string) (attrs : list attr) (vars : list variant) (fb : option fallback).

Record part := { p_comment : list string; p_ty : tyinl }.

Record fndef := {
  fn_comment : list string; fn_doc : list string; fn_name : string; fn_id : string;
  fn_args : option part; fn_ok : option part; fn_err : option part }.

Record evdef := {
  ev_comment : list string; ev_doc : list string; ev_name : string; ev_id : string;
  ev_ty : option tyinl }.

Inductive item := IFn (f : fndef) | IEv (e : evdef).

Record structdef := {
  sd_comment : list string; sd_doc : list string; sd_attrs : list attr; sd_name : string;
  sd_fields : list field; sd_fb : option fallback }.

Record enumdef := {
  ed_comment : list string; ed_doc : list string; ed_attrs : list attr; ed_name : string;
  ed_vars : list variant; ed_fb : option fallback }.

Record servicedef := {
  sv_comment : list string; sv_doc : list string; sv_name : string;
  sv_uuid_comment : list string; sv_uuid : string;
  sv_ver_comment : list string; sv_ver : string;
  sv_items : list item; sv_fn_fb : option fallback; sv_ev_fb : option fallback }.

Inductive cty := CU8 | CI8 | CU16 | CI16 | CU32 | CI32 | CU64 | CI64 | CString | CUuid.

Record constdef := {
  cd_comment : list string; cd_doc : list string; cd_name : string; cd_ty : cty; cd_val : string }.

Record newtypedef := {
  nd_comment : list string; nd_doc : list string; nd_attrs : list attr; nd_name : string;
  nd_ty : ty }.

Inductive def :=
| DStruct (d : structdef) | DEnum (d : enumdef) | DService (d : servicedef)
| DConst (d : constdef) | DNewtype (d : newtypedef).

Record import := { i_comment : list string; i_name : string }.

Record schema := {
  s_comment : list string; s_doc : list string; s_imports : list import; s_defs : list def }.

(* ---------------------------------------------------------------- keyword text *)

Definition prim_str (p : prim) : string :=
  match p with
  | PBool => "bool" | PU8 => "u8" | PI8 => "i8" | PU16 => "u16" | PI16 => "i16" | PU32 => "u32"
  | PI32 => "i32" | PU64 => "u64" | PI64 => "i64" | PF32 => "f32" | PF64 => "f64"
  | PString => "string" | PUuid => "uuid" | PObjectId => "object_id" | PServiceId => "service_id"
  | PValue => "value" | PBytes => "bytes" | PLifetime => "lifetime" | PUnit => "unit"
  end.

Definition all_prims : list prim :=
  [PBool; PU8; PI8; PU16; PI16; PU32; PI32; PU64; PI64; PF32; PF64; PString; PUuid; PObjectId;
   PServiceId; PValue; PBytes; PLifetime; PUnit].

Definition gen1_str (g : gen1) : string :=
  match g with
  | GOption => "option" | GBox => "box" | GVec => "vec" | GSet => "set" | GSender => "sender"
  | GReceiver => "receiver"
  end.

Definition all_gen1 : list gen1 := [GOption; GBox; GVec; GSet; GSender; GReceiver].

Definition cty_str (c : cty) : string :=
  match c with
  | CU8 => "u8" | CI8 => "i8" | CU16 => "u16" | CI16 => "i16" | CU32 => "u32" | CI32 => "i32"
  | CU64 => "u64" | CI64 => "i64" | CString => "string" | CUuid => "uuid"
  end.

Definition all_cty : list cty := [CU8; CI8; CU16; CI16; CU32; CI32; CU64; CI64; CString; CUuid].

(* ---------------------------------------------------------------- canonical form *)

(* Formatter::imports: [imports.sort_by_key(|i| i.schema_name().value())] — a stable sort on the
   byte order of the names.  Stable insertion sort: x goes before the first y with key x <= key y. *)
Fixpoint insert_import (x : import) (l : list import) : list import :=
  match l with
  | [] => [x]
  | y :: l' => if String.ltb (i_name y) (i_name x) then y :: insert_import x l' else x :: y :: l'
  end.

Definition sort_imports (l : list import) : list import := fold_right insert_import [] l.

(* what re-parsing the formatter's output yields: everything as is, imports sorted *)
Definition canon (a : schema) : schema :=
  {| s_comment := s_comment a; s_doc := s_doc a; s_imports := sort_imports (s_imports a);
     s_defs := s_defs a |}.
