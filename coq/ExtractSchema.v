(* Extraction of the schema model for the C18/C17 correspondence (ExtrOcamlBasic only). *)
From Coq Require Import NArith.
From Aldrin Require Import Schema.Ast Schema.Token Schema.Printer Schema.Lexer Schema.Parser Schema.Span.
Require Extraction ExtrOcamlBasic.
Extraction Language OCaml.
Extraction "schema_model.ml" print toks tokenize parse_toks canon sourcepos_to_span
  N.of_nat N.to_nat N.add N.mul.
