(* Extraction of the message-codec model for the C08 correspondence check (ExtrOcamlBasic only:
   bool/option/list/prod/unit/sumbool mapped to OCaml's; numbers stay Coq's inductive
   positive/N/Z; no Extract Constant). *)
From Aldrin Require Import Msg.Table.
Require Extraction ExtrOcamlBasic.
Extraction Language OCaml.
Extraction "msg_model.ml" ser_msg parse_msg parse_as wf_msg known_kind
  N.of_nat N.to_nat N.add N.mul lenN.
