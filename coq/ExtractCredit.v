(* Extraction of the end-to-end credit model (Proto/Credit.v) for the C05 client-side
   correspondence check (ExtrOcamlBasic only): harness `chanflow` schedules are replayed through
   [wstep]; [send_ready], [receiver_closed] and [recv_result] are the observations. *)
From Coq Require Import NArith.
From Aldrin Require Import Broker.Model Proto.Credit.
Require Extraction ExtrOcamlBasic.
Extraction Language OCaml.
Extraction "credit_model.ml" winit wstep send_ready receiver_closed recv_result N.of_nat N.to_nat.
