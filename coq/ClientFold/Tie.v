(* ClientFold/Tie.v — the translator's view of the transcribed Rust agrees with the model.

   tools/rs2v_clientfold.py refuses to regenerate gen/ClientFoldTie.v (a broken tie, reported by
   the check) unless the 63 transcribed function bodies are the ones the model was written from;
   here the number of assertion sites per file is compared with the model's Panic sites. *)
From Coq Require Import List NArith.
Import ListNotations.
From Aldrin Require Import gen.ClientFoldTie ClientFold.Discoverer ClientFold.Lifetime.
Local Open Scope N_scope.

Definition any_sites : list site :=
  [AnyObjectCreatedDup; AnyObjectDestroyedCookie; AnyServiceCreatedDup; AnyServiceCreatedObjDup;
   AnyServiceDestroyedCookie; AnyServiceDestroyedObjCookie].
(* + debug_assert!(!services.is_empty()) in SpecificObjectWithServices::new, which
   SpecificObject::new (entry_new) guarantees by dispatching on the empty service list *)
Definition with_sites : list site := [WithServiceCreatedDup; WithServiceDestroyedCookie].
Definition without_sites : list site := [WithoutObjectCreatedDup; WithoutObjectDestroyedCookie].
Definition lifetime_sites : list lsite := [LtCreatedUuid; LtDestroyedUuid].

Example tie_any_asserts : N.of_nat (length any_sites) = ANY_DEBUG_ASSERTS.
Proof. reflexivity. Qed.
Example tie_with_asserts : N.of_nat (length with_sites) + 1 = WITH_DEBUG_ASSERTS.
Proof. reflexivity. Qed.
Example tie_without_asserts : N.of_nat (length without_sites) = WITHOUT_DEBUG_ASSERTS.
Proof. reflexivity. Qed.
Example tie_lifetime_asserts : N.of_nat (length lifetime_sites) = LIFETIME_DEBUG_ASSERTS.
Proof. reflexivity. Qed.
Example tie_lifetime_unreachable : LIFETIME_UNREACHABLE = 1.   (* LtUnreachable *)
Proof. reflexivity. Qed.
Example tie_functions : CLIENTFOLD_TIED_FUNCTIONS = 63.
Proof. reflexivity. Qed.
