(* ClientFold/Lifetime.v — `Lifetime::poll_ended` of /repo/aldrin/src/lifetime.rs as a fold over
   what its `LifetimeListener` receives (model only; proofs are in LifetimeProofs.v).

   `Lifetime::new(client, id)` creates a listener with the single filter
   `BusListenerFilter::object(id.uuid)` and starts it with scope `All`; the client then queues
   `Started`, one `Event(ObjectCreated)` per current object of that UUID, `CurrentFinished`, and
   afterwards an `Event` per creation/destruction of an object of that UUID.  `poll_ended` consumes
   that queue until it decides; after that `self.listener` is `None` and nothing more is read. *)
From Coq Require Import List NArith Bool.
Import ListNotations.
From Aldrin Require Import ClientFold.Discoverer.
Local Open Scope N_scope.

(* crate::bus_listener::BusListenerEvent, plus the end of the queue (the client went away) *)
Inductive lev :=
| LStarted
| LStopped
| LEvent (ev : bus_event)
| LCurrentFinished
| LClosed.

Inductive lsite :=
| LtCreatedUuid      (* debug_assert_eq!(id.uuid, self.id.0.uuid) in the ObjectCreated arm *)
| LtDestroyedUuid    (* debug_assert_eq!(id.uuid, self.id.0.uuid) in the ObjectDestroyed arm *)
| LtUnreachable.     (* unreachable!(): Stopped, ServiceCreated, ServiceDestroyed *)

Inductive lres (A : Type) := LOk (a : A) | LPanic (s : lsite).
Arguments LOk {A} a.
Arguments LPanic {A} s.

(* Lifetime { listener: Option<..>, id, found }: [lt_ended] is `listener.is_none()` = has_ended() *)
Record lifetime := mkLt { lt_u : uuid; lt_c : uuid; lt_found : bool; lt_ended : bool }.

Definition lt_new (u c : uuid) : lifetime := mkLt u c false false.

Definition lt_end (l : lifetime) : lifetime := mkLt (lt_u l) (lt_c l) (lt_found l) true.

(* one iteration of the loop in poll_ended *)
Definition lt_step (l : lifetime) (e : lev) : lres lifetime :=
  if lt_ended l then LOk l
  else match e with
       | LStarted => LOk l
       | LEvent (EvObjectCreated u c) =>
           if negb (N.eqb u (lt_u l)) then LPanic LtCreatedUuid
           else if N.eqb c (lt_c l) then LOk (mkLt (lt_u l) (lt_c l) true false)
                else LOk (lt_end l)
       | LEvent (EvObjectDestroyed u c) =>
           if negb (N.eqb u (lt_u l)) then LPanic LtDestroyedUuid else LOk (lt_end l)
       | LCurrentFinished => if lt_found l then LOk l else LOk (lt_end l)
       | LClosed => LOk (lt_end l)
       | LStopped | LEvent (EvServiceCreated _ _ _ _) | LEvent (EvServiceDestroyed _ _ _ _) =>
           LPanic LtUnreachable
       end.

Fixpoint lt_run (l : lifetime) (es : list lev) : lres lifetime :=
  match es with
  | [] => LOk l
  | e :: es' => match lt_step l e with LOk l' => lt_run l' es' | LPanic s => LPanic s end
  end.

(* what the listener of a lifetime bound to object UUID [u] is handed: the snapshot [cur]
   (creations only), then the new events [news]; all of them about objects of UUID [u] *)
Definition about (u : uuid) (ev : bus_event) : bool :=
  match ev with
  | EvObjectCreated u' _ | EvObjectDestroyed u' _ => N.eqb u' u
  | _ => false
  end.

Definition lt_stream (cur news : list bus_event) : list lev :=
  LStarted :: map LEvent cur ++ LCurrentFinished :: map LEvent news.

Definition lt_deliverable (u : uuid) (cur news : list bus_event) : Prop :=
  deliverable (cur ++ news) /\ forallb is_creation cur = true /\
  forallb (about u) (cur ++ news) = true.
