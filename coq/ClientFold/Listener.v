(* ClientFold/Listener.v — the client-side `BusListener` of /repo/aldrin/src/bus_listener.rs: the
   `pending_*` bookkeeping of start/stop and `poll_next_event` / `is_finished` as a fold over the
   queue the client fills (model only; proofs in ListenerProofs.v).

   The client task pushes `BusListenerEvent`s into an unbounded channel (BusListenerHandle::
   {start, stop, current_finished, emit_current, emit_new_if_matches}); `poll_next_event` pops
   them.  The `usize` counters are decremented with `-=`, which panics on underflow in a debug
   build: an explicit PPanic here. *)
From Coq Require Import List NArith Bool.
Import ListNotations.
From Aldrin Require Import ClientFold.Discoverer.
Local Open Scope N_scope.

Inductive scope := SCurrent | SNew | SAll.
Definition includes_new (s : scope) : bool := match s with SNew | SAll => true | SCurrent => false end.
Definition includes_current (s : scope) : bool := match s with SCurrent | SAll => true | SNew => false end.

(* crate::bus_listener::BusListenerEvent *)
Inductive blev :=
| BStarted (s : scope)
| BStopped
| BEvent (ev : bus_event)
| BCurrentFinished.

Record listener := mkL {
  l_scope : option scope;
  l_pstarted : N;       (* pending_started *)
  l_pstopped : N;       (* pending_stopped *)
  l_pcf : N;            (* pending_current_finished *)
  l_term : bool }.      (* events.is_terminated(): the channel ended and was seen to end *)

Definition l_new : listener := mkL None 0 0 0 false.

(* BusListener::start / stop, after the broker's Ok reply *)
Definition l_start (l : listener) (s : scope) : listener :=
  mkL (l_scope l) (l_pstarted l + 1) (l_pstopped l)
      (if includes_current s then l_pcf l + 1 else l_pcf l) (l_term l).
Definition l_stop (l : listener) : listener :=
  mkL (l_scope l) (l_pstarted l) (l_pstopped l + 1) (l_pcf l) (l_term l).

Definition l_includes_new (l : listener) : bool :=
  match l_scope l with Some s => includes_new s | None => false end.

(* BusListener::is_finished *)
Definition l_finished (l : listener) : bool :=
  l_term l || (negb (l_includes_new l) && N.eqb (l_pstarted l) 0 && N.eqb (l_pstopped l) 0 && N.eqb (l_pcf l) 0).

Inductive pres :=
| PEvent (ev : bus_event)   (* Poll::Ready(Some(ev)) *)
| PNone                     (* Poll::Ready(None) *)
| PPending
| PUnderflow.               (* `pending_x -= 1` at 0 *)

(* BusListener::poll_next_event; [alive]: the client still holds the sending half *)
Fixpoint l_poll (alive : bool) (l : listener) (q : list blev) : listener * list blev * pres :=
  if l_finished l then (l, q, PNone)
  else match q with
       | [] => if alive then (l, [], PPending)
               else (mkL (l_scope l) (l_pstarted l) (l_pstopped l) (l_pcf l) true, [], PNone)
       | BStarted s :: q' =>
           if N.eqb (l_pstarted l) 0 then (l, q', PUnderflow)
           else l_poll alive (mkL (Some s) (l_pstarted l - 1) (l_pstopped l) (l_pcf l) (l_term l)) q'
       | BStopped :: q' =>
           if N.eqb (l_pstopped l) 0 then (l, q', PUnderflow)
           else l_poll alive (mkL None (l_pstarted l) (l_pstopped l - 1) (l_pcf l) (l_term l)) q'
       | BEvent ev :: q' => (l, q', PEvent ev)
       | BCurrentFinished :: q' =>
           if N.eqb (l_pcf l) 0 then (l, q', PUnderflow)
           else l_poll alive (mkL (l_scope l) (l_pstarted l) (l_pstopped l) (l_pcf l - 1) (l_term l)) q'
       end.

(* `while let Some(ev) = listener.next_event().await`, as far as the queue goes: the events
   returned, then the first answer that is not an event *)
Fixpoint l_drain (fuel : nat) (alive : bool) (l : listener) (q : list blev)
    : list bus_event * listener * list blev * pres :=
  match fuel with
  | O => ([], l, q, PPending)
  | S f =>
      match l_poll alive l q with
      | (l', q', PEvent ev) =>
          match l_drain f alive l' q' with (evs, l'', q'', r) => (ev :: evs, l'', q'', r) end
      | (l', q', r) => ([], l', q', r)
      end
  end.
