(* ClientFold/BusProofs.v — from a well-formed bus history and a filter set to the listener's
   deliverable sequence.

   [gwf]        consistency of the truth of a well-formed history
   [R fs TG Tl] the truth [Tl] of what the listener has been handed is the part of the bus truth
                [TG] its filters let through
   [sync_step]  one bus event keeps R (and is locally legal if it is visible)
   [snapshot_ok] the current-entities phase establishes R
   [delivered_ok] the delivered sequence is deliverable and ends in R
   [matching_agree] under R and [covers], the entry's matching on Tl = the property's words on TG
   [transitions_agree] the entry's transitions after the snapshot = the transitions on the bus *)
From Coq Require Import List NArith Bool Lia.
Import ListNotations.
From Aldrin Require Import ClientFold.Discoverer ClientFold.DiscovererProofs ClientFold.Bus.
Local Open Scope N_scope.
Arguments N.eqb : simpl never.

(* ------------------------------------------------------------------ small tools *)
Lemma memb_cons : forall c x l, memb c (x :: l) = N.eqb c x || memb c l.
Proof. reflexivity. Qed.

Lemma memb_in : forall c l, memb c l = true <-> In c l.
Proof. intros. unfold memb. apply existsb_eqb_in. Qed.

Lemma is_some_false : forall {A} (o : option A), is_some o = false -> o = None.
Proof. intros A [a|] H; [discriminate|auto]. Qed.

Lemma pair_eqb_true : forall a oc sc, pair_eqb a oc sc = true -> a = Some (oc, sc).
Proof.
  intros [[x y]|] oc sc H; cbn in H; [|discriminate].
  apply andb_true_iff in H as [H1 H2]. apply N.eqb_eq in H1, H2. now subst.
Qed.

Lemma forallb_no_ou : forall l u,
  forallb (fun x => negb (N.eqb (svc_ou x) u)) l = true -> forall su, sget l u su = None.
Proof.
  intros l u H su. destruct (sget l u su) as [[oc sc]|] eqn:E; auto.
  apply sget_in in E. rewrite forallb_forall in H. specialize (H _ E). cbn in H.
  rewrite N.eqb_refl in H. discriminate.
Qed.

(* ------------------------------------------------------------------ the truth of a well-formed history *)
Record gwf (T : truth) : Prop := {
  g_obj : forall ou su oc sc, sget (t_svcs T) ou su = Some (oc, sc) -> aget (t_objs T) ou = Some oc;
  g_used_o : forall u c, aget (t_objs T) u = Some c -> memb c (t_used_o T) = true;
  g_used_s : forall ou su oc sc, sget (t_svcs T) ou su = Some (oc, sc) -> memb sc (t_used_s T) = true;
  g_inj_o : forall u u' c, aget (t_objs T) u = Some c -> aget (t_objs T) u' = Some c -> u = u';
  g_inj_s : forall ou su oc sc ou' su' oc', sget (t_svcs T) ou su = Some (oc, sc) ->
              sget (t_svcs T) ou' su' = Some (oc', sc) -> ou = ou' /\ su = su' }.

Lemma gwf_empty : gwf t_empty.
Proof. constructor; cbn; intros; discriminate. Qed.

Lemma bus_oc_inv : forall T u c, bus_legalb T (EvObjectCreated u c) = true ->
  aget (t_objs T) u = None /\ memb c (t_used_o T) = false.
Proof.
  intros T u c H. cbn in H. apply andb_true_iff in H as [H1 H2]. split.
  - apply is_some_false. now apply negb_true_iff in H1.
  - now apply negb_true_iff in H2.
Qed.

Lemma bus_od_inv : forall T u c, bus_legalb T (EvObjectDestroyed u c) = true ->
  aget (t_objs T) u = Some c /\ forall su, sget (t_svcs T) u su = None.
Proof.
  intros T u c H. cbn in H. apply andb_true_iff in H as [H1 H2]. split.
  - now apply opt_eqb_true in H1.
  - now apply forallb_no_ou.
Qed.

Lemma bus_sc_inv : forall T ou oc su sc, bus_legalb T (EvServiceCreated ou oc su sc) = true ->
  aget (t_objs T) ou = Some oc /\ sget (t_svcs T) ou su = None /\ memb sc (t_used_s T) = false.
Proof.
  intros T ou oc su sc H. cbn in H.
  apply andb_true_iff in H as [H H3]. apply andb_true_iff in H as [H1 H2]. split; [|split].
  - now apply opt_eqb_true in H1.
  - apply is_some_false. now apply negb_true_iff in H2.
  - now apply negb_true_iff in H3.
Qed.

Lemma bus_sd_inv : forall T ou oc su sc, bus_legalb T (EvServiceDestroyed ou oc su sc) = true ->
  sget (t_svcs T) ou su = Some (oc, sc).
Proof. intros T ou oc su sc H. cbn in H. now apply pair_eqb_true. Qed.

Lemma gwf_step : forall T ev, gwf T -> bus_legalb T ev = true -> gwf (tstep T ev).
Proof.
  intros T ev G L. destruct G as [G1 G2 G3 G4 G5].
  destruct ev as [u c|u c|ou oc su sc|ou oc su sc].
  - apply bus_oc_inv in L as [L1 L2]. constructor; cbn [tstep t_objs t_svcs t_used_o t_used_s].
    + intros ou su oc sc H. rewrite aget_cons. eqb_case u ou; [|eauto].
      subst. rewrite (G1 _ _ _ _ H) in L1. discriminate.
    + intros u' c' H. rewrite aget_cons in H. rewrite memb_cons. eqb_case u u'.
      * injection H as <-. now rewrite N.eqb_refl.
      * rewrite (G2 _ _ H). apply orb_true_r.
    + exact G3.
    + intros a b k H1 H2. rewrite aget_cons in H1, H2.
      eqb_case u a; eqb_case u b; try congruence.
      * injection H1 as <-. apply G2 in H2. congruence.
      * injection H2 as <-. apply G2 in H1. congruence.
      * eauto.
    + exact G5.
  - apply bus_od_inv in L as [L1 L2]. constructor; cbn [tstep t_objs t_svcs t_used_o t_used_s].
    + intros ou su oc sc H. rewrite aget_adel. eqb_case u ou; [|eauto].
      subst. rewrite L2 in H. discriminate.
    + intros u' c' H. rewrite aget_adel in H. eqb_case u u'; [discriminate|eauto].
    + exact G3.
    + intros a b k H1 H2. rewrite aget_adel in H1, H2.
      eqb_case u a; [discriminate|]. eqb_case u b; [discriminate|]. eauto.
    + exact G5.
  - apply bus_sc_inv in L as (L1 & L2 & L3). constructor; cbn [tstep t_objs t_svcs t_used_o t_used_s].
    + intros a b k1 k2 H. rewrite sget_cons in H.
      destruct (N.eqb ou a && N.eqb su b) eqn:E; [|eauto].
      injection H as <- <-. apply andb_true_iff in E as [E _]. apply N.eqb_eq in E. now subst.
    + exact G2.
    + intros a b k1 k2 H. rewrite sget_cons in H. rewrite memb_cons.
      destruct (N.eqb ou a && N.eqb su b) eqn:E.
      * injection H as <- <-. now rewrite N.eqb_refl.
      * rewrite (G3 _ _ _ _ H). apply orb_true_r.
    + exact G4.
    + intros a b k1 k2 a' b' k1' H1 H2. rewrite sget_cons in H1, H2.
      destruct (N.eqb ou a && N.eqb su b) eqn:E1; destruct (N.eqb ou a' && N.eqb su b') eqn:E2.
      * apply andb_true_iff in E1 as [X1 X2]. apply andb_true_iff in E2 as [Y1 Y2].
        apply N.eqb_eq in X1, X2, Y1, Y2. subst. auto.
      * injection H1 as <- <-. apply G3 in H2. congruence.
      * injection H2 as <- <-. apply G3 in H1. congruence.
      * eauto.
  - apply bus_sd_inv in L. constructor; cbn [tstep t_objs t_svcs t_used_o t_used_s].
    + intros a b k1 k2 H. rewrite sget_sdel in H. destruct (N.eqb ou a && N.eqb su b); [discriminate|eauto].
    + exact G2.
    + intros a b k1 k2 H. rewrite sget_sdel in H. destruct (N.eqb ou a && N.eqb su b); [discriminate|eauto].
    + exact G4.
    + intros a b k1 k2 a' b' k1' H1 H2. rewrite sget_sdel in H1, H2.
      destruct (N.eqb ou a && N.eqb su b); [discriminate|].
      destruct (N.eqb ou a' && N.eqb su b'); [discriminate|]. eauto.
Qed.

Lemma gwf_run : forall l T, gwf T -> bus_wf_from T l = true -> gwf (trun T l).
Proof.
  induction l as [|ev l IH]; intros T G W; auto.
  cbn [bus_wf_from] in W. apply andb_true_iff in W as [W1 W2].
  cbn [trun fold_left]. apply IH; auto. now apply gwf_step.
Qed.

Lemma bus_wf_app : forall l1 l2 T,
  bus_wf_from T (l1 ++ l2) = bus_wf_from T l1 && bus_wf_from (trun T l1) l2.
Proof.
  induction l1 as [|ev l1 IH]; intros; cbn [bus_wf_from app]; auto.
  rewrite IH. cbn [trun fold_left]. now rewrite andb_assoc.
Qed.

(* ------------------------------------------------------------------ the listener's part of the truth *)
Definition sfun (l : list (uuid * uuid * uuid * uuid)) : Prop :=
  forall ou oc su sc, In (ou, oc, su, sc) l -> sget l ou su = Some (oc, sc).

Record R (fs : list bfilter) (TG Tl : truth) : Prop := {
  r_obj : forall u, aget (t_objs Tl) u = if vis_o fs u then aget (t_objs TG) u else None;
  r_svc : forall ou su, sget (t_svcs Tl) ou su = if vis_s fs ou su then sget (t_svcs TG) ou su else None;
  r_uo : forall c, memb c (t_used_o Tl) = true -> memb c (t_used_o TG) = true;
  r_us : forall c, memb c (t_used_s Tl) = true -> memb c (t_used_s TG) = true }.

Lemma vis_oc : forall fs u c, matches_filters fs (EvObjectCreated u c) = vis_o fs u.
Proof. reflexivity. Qed.
Lemma vis_od : forall fs u c, matches_filters fs (EvObjectDestroyed u c) = vis_o fs u.
Proof. reflexivity. Qed.
Lemma vis_sc : forall fs ou oc su sc, matches_filters fs (EvServiceCreated ou oc su sc) = vis_s fs ou su.
Proof. reflexivity. Qed.
Lemma vis_sd : forall fs ou oc su sc, matches_filters fs (EvServiceDestroyed ou oc su sc) = vis_s fs ou su.
Proof. reflexivity. Qed.

Lemma sfun_nil : sfun [].
Proof. intros ? ? ? ? []. Qed.

Lemma sfun_cons : forall l ou oc su sc, sfun l -> sget l ou su = None -> sfun ((ou, oc, su, sc) :: l).
Proof.
  intros l ou oc su sc F N a b c d [H|H]; rewrite sget_cons.
  - injection H as <- <- <- <-. now rewrite !N.eqb_refl.
  - destruct (N.eqb ou a && N.eqb su c) eqn:E; [|now apply F].
    apply andb_true_iff in E as [E1 E2]. apply N.eqb_eq in E1, E2. subst.
    rewrite (F _ _ _ _ H) in N. discriminate.
Qed.

Lemma sfun_sdel : forall l ou su, sfun l -> sfun (sdel l ou su).
Proof.
  intros l ou su F a b c d H. unfold sdel in H. apply filter_In in H as [H1 H2].
  rewrite sget_sdel. cbn in H2. rewrite (eqb_sym' a), (eqb_sym' c) in H2.
  apply negb_true_iff in H2. rewrite H2. now apply F.
Qed.

Lemma memb_false_sub : forall c l l', (memb c l = true -> memb c l' = true) -> memb c l' = false -> memb c l = false.
Proof. intros c l l' H H'. destruct (memb c l); auto. rewrite H in H'; auto. Qed.

Lemma sync_step : forall fs TG Tl ev,
  gwf TG -> R fs TG Tl -> sfun (t_svcs Tl) -> bus_legalb TG ev = true ->
  if matches_filters fs ev
  then legalb Tl ev = true /\ R fs (tstep TG ev) (tstep Tl ev) /\ sfun (t_svcs (tstep Tl ev))
  else R fs (tstep TG ev) Tl.
Proof.
  intros fs TG Tl ev G [RO RS RUO RUS] F L.
  destruct ev as [u c|u c|ou oc su sc|ou oc su sc].
  - apply bus_oc_inv in L as [L1 L2]. rewrite vis_oc. destruct (vis_o fs u) eqn:V.
    + split; [|split].
      * cbn [legalb]. rewrite RO, V, L1. cbn. apply negb_true_iff.
        eapply memb_false_sub; [apply RUO|exact L2].
      * constructor; cbn [tstep t_objs t_svcs t_used_o t_used_s]; auto.
        -- intro u'. rewrite !aget_cons. eqb_case u u'; [subst; now rewrite V|apply RO].
        -- intros k. rewrite !memb_cons. destruct (N.eqb k c); cbn; auto.
      * exact F.
    + constructor; cbn [tstep t_objs t_svcs t_used_o t_used_s]; auto.
      * intro u'. rewrite aget_cons, RO. eqb_case u u'; [subst; now rewrite V|reflexivity].
      * intros k H. rewrite memb_cons. rewrite (RUO _ H). apply orb_true_r.
  - apply bus_od_inv in L as [L1 L2]. rewrite vis_od. destruct (vis_o fs u) eqn:V.
    + split; [|split].
      * cbn [legalb]. rewrite RO, V, L1. cbn [opt_eqb]. rewrite N.eqb_refl. cbn [andb].
        apply forallb_forall. intros [[[a b] k] d] HI. cbn [svc_ou]. apply negb_true_iff.
        eqb_case a u; auto. subst a. exfalso.
        pose proof (F _ _ _ _ HI) as HS. rewrite RS in HS. destruct (vis_s fs u k); [|discriminate].
        rewrite L2 in HS. discriminate.
      * constructor; cbn [tstep t_objs t_svcs t_used_o t_used_s]; auto.
        intro u'. rewrite !aget_adel. eqb_case u u'; [now destruct (vis_o fs u')|apply RO].
      * exact F.
    + constructor; cbn [tstep t_objs t_svcs t_used_o t_used_s]; auto.
      intro u'. rewrite aget_adel, RO. eqb_case u u'; [subst; now rewrite V|reflexivity].
  - apply bus_sc_inv in L as (L1 & L2 & L3). rewrite vis_sc. destruct (vis_s fs ou su) eqn:V.
    + assert (LN : sget (t_svcs Tl) ou su = None) by (now rewrite RS, V).
      split; [|split].
      * cbn [legalb]. rewrite LN. cbn [is_some negb andb]. apply andb_true_iff. split.
        -- apply forallb_forall. intros [[[a b] k] d] HI. cbn [svc_ou svc_oc].
           eqb_case a ou; auto. subst a. apply N.eqb_eq.
           pose proof (F _ _ _ _ HI) as HS. rewrite RS in HS. destruct (vis_s fs ou k); [|discriminate].
           apply (g_obj _ G) in HS. congruence.
        -- apply negb_true_iff. eapply memb_false_sub; [apply RUS|exact L3].
      * constructor; cbn [tstep t_objs t_svcs t_used_o t_used_s]; auto.
        -- intros a k. rewrite !sget_cons. destruct (N.eqb ou a && N.eqb su k) eqn:E; [|apply RS].
           apply andb_true_iff in E as [E1 E2]. apply N.eqb_eq in E1, E2. subst. now rewrite V.
        -- intros k. rewrite !memb_cons. destruct (N.eqb k sc); cbn; auto.
      * cbn [tstep t_svcs]. now apply sfun_cons.
    + constructor; cbn [tstep t_objs t_svcs t_used_o t_used_s]; auto.
      * intros a k. rewrite sget_cons, RS. destruct (N.eqb ou a && N.eqb su k) eqn:E; [|reflexivity].
        apply andb_true_iff in E as [E1 E2]. apply N.eqb_eq in E1, E2. subst. now rewrite V.
      * intros k H. rewrite memb_cons. rewrite (RUS _ H). apply orb_true_r.
  - apply bus_sd_inv in L. rewrite vis_sd. destruct (vis_s fs ou su) eqn:V.
    + split; [|split].
      * cbn [legalb]. rewrite RS, V, L. cbn. now rewrite !N.eqb_refl.
      * constructor; cbn [tstep t_objs t_svcs t_used_o t_used_s]; auto.
        intros a k. rewrite !sget_sdel. destruct (N.eqb ou a && N.eqb su k) eqn:E; [|apply RS].
        now destruct (vis_s fs a k).
      * cbn [tstep t_svcs]. now apply sfun_sdel.
    + constructor; cbn [tstep t_objs t_svcs t_used_o t_used_s]; auto.
      intros a k. rewrite sget_sdel, RS. destruct (N.eqb ou a && N.eqb su k) eqn:E; [|reflexivity].
      apply andb_true_iff in E as [E1 E2]. apply N.eqb_eq in E1, E2. subst. now rewrite V.
Qed.

(* the stream phase: everything of [hist] the filters let through *)
Lemma sync_run : forall fs hist TG Tl,
  gwf TG -> R fs TG Tl -> sfun (t_svcs Tl) -> bus_wf_from TG hist = true ->
  deliverable_from Tl (filter (matches_filters fs) hist) = true /\
  R fs (trun TG hist) (trun Tl (filter (matches_filters fs) hist)) /\
  sfun (t_svcs (trun Tl (filter (matches_filters fs) hist))).
Proof.
  intros fs hist. induction hist as [|ev hist IH]; intros TG Tl G HR F W.
  - cbn. auto.
  - cbn [bus_wf_from] in W. apply andb_true_iff in W as [W1 W2].
    pose proof (sync_step fs TG Tl ev G HR F W1) as S.
    pose proof (gwf_step _ _ G W1) as G'.
    cbn [filter]. destruct (matches_filters fs ev).
    + destruct S as (S1 & S2 & S3). destruct (IH _ _ G' S2 S3 W2) as (I1 & I2 & I3).
      cbn [deliverable_from trun fold_left]. rewrite S1. auto.
    + destruct (IH _ _ G' S F W2) as (I1 & I2 & I3). cbn [trun fold_left]. auto.
Qed.

(* ------------------------------------------------------------------ the snapshot phase *)
Lemma nodup_map_inj : forall {A B} (f : A -> B) l,
  NoDup l -> (forall x y, In x l -> In y l -> f x = f y -> x = y) -> NoDup (map f l).
Proof.
  intros A B f l ND. induction ND as [|a l NI ND IH]; intros H; cbn; constructor.
  - intro HI. apply in_map_iff in HI as (y & Ey & Hy).
    assert (y = a) by (apply H; [now right|now left|auto]). subst. contradiction.
  - apply IH. intros x y Hx Hy. apply H; now right.
Qed.

Definition skey (x : uuid * uuid * uuid * uuid) : uuid * uuid := match x with (ou, _, su, _) => (ou, su) end.
Definition ssc (x : uuid * uuid * uuid * uuid) : uuid := match x with (_, _, _, sc) => sc end.

Lemma sget_none_key : forall l ou su, ~ In (ou, su) (map skey l) -> sget l ou su = None.
Proof.
  intros l ou su H. destruct (sget l ou su) as [[oc sc]|] eqn:E; auto.
  exfalso. apply H. apply sget_in in E. change (ou, su) with (skey (ou, oc, su, sc)). now apply in_map.
Qed.

Lemma in_sget : forall l ou oc su sc,
  NoDup (map skey l) -> In (ou, oc, su, sc) l -> sget l ou su = Some (oc, sc).
Proof.
  induction l as [|[[[a b] k] d] l IH]; intros ou oc su sc ND HI; [destruct HI|].
  cbn [map skey] in ND. inversion ND as [|? ? NI ND']; subst. rewrite sget_cons.
  destruct HI as [HI|HI].
  - injection HI as -> -> -> ->. now rewrite !N.eqb_refl.
  - destruct (N.eqb a ou && N.eqb k su) eqn:E; [|auto].
    apply andb_true_iff in E as [E1 E2]. apply N.eqb_eq in E1, E2. subst. exfalso. apply NI.
    change (ou, su) with (skey (ou, oc, su, sc)). now apply in_map.
Qed.

Lemma aget_iff : forall {V} (m : list (uuid * V)) k v, NoDup (map fst m) -> (aget m k = Some v <-> In (k, v) m).
Proof. intros. split; [apply aget_in|now apply in_aget]. Qed.

Lemma run_ocs : forall lo T,
  (forall u c, In (u, c) lo -> aget (t_objs T) u = None /\ memb c (t_used_o T) = false) ->
  NoDup (map fst lo) -> NoDup (map snd lo) ->
  deliverable_from T (map ev_oc lo) = true /\
  trun T (map ev_oc lo) =
    mkTruth (rev lo ++ t_objs T) (t_svcs T) (rev (map snd lo) ++ t_used_o T) (t_used_s T).
Proof.
  induction lo as [|[u c] lo IH]; intros T H N1 N2.
  - cbn. destruct T; auto.
  - cbn [map fst snd] in N1, N2. inversion N1 as [|? ? NI1 N1']; inversion N2 as [|? ? NI2 N2']; subst.
    destruct (H u c (or_introl eq_refl)) as [H1 H2].
    destruct (IH (tstep T (EvObjectCreated u c))) as [D E]; auto.
    { intros u' c' HI. destruct (H u' c' (or_intror HI)) as [A B].
      cbn [tstep t_objs t_used_o]. rewrite aget_cons, memb_cons. split.
      - eqb_case u u'; auto. subst. exfalso. apply NI1. change u' with (fst (u', c')). now apply in_map.
      - eqb_case c' c; cbn; auto. subst. exfalso. apply NI2. change c with (snd (u', c)). now apply in_map. }
    split.
    + cbn [map deliverable_from ev_oc fst snd legalb]. rewrite H1, H2. cbn. exact D.
    + change (trun T (map ev_oc ((u, c) :: lo))) with (trun (tstep T (EvObjectCreated u c)) (map ev_oc lo)).
      rewrite E. cbn [tstep t_objs t_svcs t_used_o t_used_s rev map snd]. now rewrite <- !app_assoc.
Qed.

Lemma run_scs : forall ls T,
  sfun (t_svcs T) ->
  (forall ou oc su sc, In (ou, oc, su, sc) ls ->
     sget (t_svcs T) ou su = None /\ memb sc (t_used_s T) = false /\
     forall su' oc' sc', sget (t_svcs T) ou su' = Some (oc', sc') -> oc' = oc) ->
  (forall ou oc su sc oc' su' sc', In (ou, oc, su, sc) ls -> In (ou, oc', su', sc') ls -> oc = oc') ->
  NoDup (map skey ls) -> NoDup (map ssc ls) ->
  deliverable_from T (map ev_sc ls) = true /\
  trun T (map ev_sc ls) =
    mkTruth (t_objs T) (rev ls ++ t_svcs T) (t_used_o T) (rev (map ssc ls) ++ t_used_s T).
Proof.
  induction ls as [|[[[ou oc] su] sc] ls IH]; intros T F H HP N1 N2.
  - cbn. destruct T; auto.
  - cbn [map skey ssc] in N1, N2. inversion N1 as [|? ? NI1 N1']; inversion N2 as [|? ? NI2 N2']; subst.
    destruct (H ou oc su sc (or_introl eq_refl)) as (H1 & H2 & H3).
    destruct (IH (tstep T (EvServiceCreated ou oc su sc))) as [D E]; auto.
    { cbn [tstep t_svcs]. now apply sfun_cons. }
    { intros a b k d HI. destruct (H a b k d (or_intror HI)) as (A & B & C).
      cbn [tstep t_svcs t_used_s]. rewrite sget_cons, memb_cons. split; [|split].
      - destruct (N.eqb ou a && N.eqb su k) eqn:X; auto.
        apply andb_true_iff in X as [X1 X2]. apply N.eqb_eq in X1, X2. subst. exfalso. apply NI1.
        change (a, k) with (skey (a, b, k, d)). now apply in_map.
      - eqb_case d sc; cbn; auto. subst. exfalso. apply NI2. change sc with (ssc (a, b, k, sc)). now apply in_map.
      - intros k' b' d'. rewrite sget_cons. destruct (N.eqb ou a && N.eqb su k') eqn:X; [|apply C].
        intros [= <- <-]. apply andb_true_iff in X as [X1 _]. apply N.eqb_eq in X1. subst.
        eapply HP; [now left|right; exact HI]. }
    { intros a b k d b' k' d' X Y. eapply HP; right; eauto. }
    split.
    + cbn [map deliverable_from ev_sc legalb]. rewrite H1, H2. cbn [is_some negb andb].
      rewrite andb_true_r. apply andb_true_iff. split; [|exact D].
      apply forallb_forall. intros [[[a b] k] d] HI. cbn [svc_ou svc_oc].
      eqb_case a ou; auto. subst. apply N.eqb_eq. eapply H3. apply (F _ _ _ _ HI).
    + change (trun T (map ev_sc ((ou, oc, su, sc) :: ls)))
        with (trun (tstep T (EvServiceCreated ou oc su sc)) (map ev_sc ls)).
      rewrite E. cbn [tstep t_objs t_svcs t_used_o t_used_s rev map ssc]. now rewrite <- !app_assoc.
Qed.

Lemma snapshot_ok : forall fs TG cur,
  gwf TG -> snapshot_of fs TG cur ->
  deliverable cur /\ R fs TG (trun t_empty cur) /\ sfun (t_svcs (trun t_empty cur)) /\
  forallb is_creation cur = true /\ forallb (matches_filters fs) cur = true.
Proof.
  intros fs TG cur G (lo & ls & -> & NDo & NDs & Ho & Hs).
  assert (N1 : NoDup (map fst lo)).
  { apply nodup_map_inj; auto. intros [u c] [u' c'] X Y E. cbn in E. subst u'.
    apply Ho in X as [X _]. apply Ho in Y as [Y _]. congruence. }
  assert (N2 : NoDup (map snd lo)).
  { apply nodup_map_inj; auto. intros [u c] [u' c'] X Y E. cbn in E. subst c'.
    apply Ho in X as [X _]. apply Ho in Y as [Y _]. f_equal. eapply (g_inj_o _ G); eauto. }
  assert (N3 : NoDup (map skey ls)).
  { apply nodup_map_inj; auto. intros [[[a b] k] d] [[[a' b'] k'] d'] X Y E. cbn in E.
    injection E as <- <-. apply Hs in X as [X _]. apply Hs in Y as [Y _]. congruence. }
  assert (N4 : NoDup (map ssc ls)).
  { apply nodup_map_inj; auto. intros [[[a b] k] d] [[[a' b'] k'] d'] X Y E. cbn in E. subst d'.
    apply Hs in X as [X _]. apply Hs in Y as [Y _].
    destruct (g_inj_s _ G _ _ _ _ _ _ _ X Y) as [-> ->]. congruence. }
  destruct (run_ocs lo t_empty) as [D1 E1]; auto.
  set (T1 := trun t_empty (map ev_oc lo)) in *.
  destruct (run_scs ls T1) as [D2 E2]; auto.
  { rewrite E1. cbn. apply sfun_nil. }
  { intros a b k d HI. rewrite E1. cbn. repeat split; auto. discriminate. }
  { intros a b k d b' k' d' X Y. apply Hs in X as [X _]. apply Hs in Y as [Y _].
    apply (g_obj _ G) in X. apply (g_obj _ G) in Y. congruence. }
  assert (ET : trun t_empty (map ev_oc lo ++ map ev_sc ls)
               = mkTruth (rev lo) (rev ls) (rev (map snd lo)) (rev (map ssc ls))).
  { rewrite trun_app. fold T1. rewrite E2, E1. cbn. now rewrite !app_nil_r. }
  assert (NR1 : NoDup (map fst (rev lo))) by (rewrite map_rev; now apply NoDup_rev).
  assert (NR3 : NoDup (map skey (rev ls))) by (rewrite map_rev; now apply NoDup_rev).
  split; [|split; [|split; [|split]]].
  - unfold deliverable, deliverableb. rewrite deliverable_app. fold T1. now rewrite D1, D2.
  - rewrite ET. constructor; cbn [t_objs t_svcs t_used_o t_used_s].
    + intro u. destruct (aget (rev lo) u) as [c|] eqn:E.
      * apply aget_iff in E; auto. apply in_rev in E. apply Ho in E as [E V]. now rewrite V.
      * destruct (vis_o fs u) eqn:V; auto. destruct (aget (t_objs TG) u) as [c|] eqn:EG; auto.
        assert (HI : In (u, c) (rev lo)) by (apply in_rev; rewrite rev_involutive; apply Ho; auto).
        apply aget_iff in HI; auto. congruence.
    + intros ou su. destruct (sget (rev ls) ou su) as [[oc sc]|] eqn:E.
      * apply sget_in in E. apply in_rev in E. apply Hs in E as [E V]. now rewrite V.
      * destruct (vis_s fs ou su) eqn:V; auto. destruct (sget (t_svcs TG) ou su) as [[oc sc]|] eqn:EG; auto.
        assert (HI : In (ou, oc, su, sc) (rev ls)) by (apply in_rev; rewrite rev_involutive; apply Hs; auto).
        apply in_sget in HI; auto. congruence.
    + intros c H. apply memb_in in H. apply in_rev in H. apply in_map_iff in H as ([u c'] & <- & HI).
      apply Ho in HI as [HI _]. cbn. eapply (g_used_o _ G); eauto.
    + intros c H. apply memb_in in H. apply in_rev in H. apply in_map_iff in H as ([[[a b] k] d] & <- & HI).
      apply Hs in HI as [HI _]. cbn. eapply (g_used_s _ G); eauto.
  - rewrite ET. cbn [t_svcs]. intros a b k d HI. now apply in_sget.
  - rewrite forallb_app. apply andb_true_iff. split; apply forallb_forall; intros ev HI;
      apply in_map_iff in HI as (x & <- & _); [reflexivity|now destruct x as [[[? ?] ?] ?]].
  - rewrite forallb_app. apply andb_true_iff. split; apply forallb_forall; intros ev HI;
      apply in_map_iff in HI as (x & <- & HI).
    + destruct x as [u c]. apply Ho in HI as [_ V]. exact V.
    + destruct x as [[[a b] k] d]. apply Hs in HI as [_ V]. exact V.
Qed.

(* ------------------------------------------------------------------ snapshot, then stream *)
Lemma delivered_ok : forall fs pre hist cur,
  bus_wf (pre ++ hist) -> snapshot_of fs (trun t_empty pre) cur ->
  deliverable (delivered fs cur hist) /\
  gwf (trun t_empty (pre ++ hist)) /\
  R fs (trun t_empty (pre ++ hist)) (trun t_empty (delivered fs cur hist)) /\
  forallb is_creation cur = true /\ deliverable cur /\ R fs (trun t_empty pre) (trun t_empty cur).
Proof.
  intros fs pre hist cur W S. unfold bus_wf in W. rewrite bus_wf_app in W.
  apply andb_true_iff in W as [W1 W2].
  pose proof (gwf_run pre t_empty gwf_empty W1) as G1.
  destruct (snapshot_ok fs _ cur G1 S) as (D1 & R1 & F1 & C1 & _).
  destruct (sync_run fs hist _ _ G1 R1 F1 W2) as (D2 & R2 & F2).
  split; [|split; [|split; [|split; [|split]]]]; auto.
  - unfold deliverable, deliverableb, delivered in *. rewrite deliverable_app. now rewrite D1, D2.
  - rewrite trun_app. now apply gwf_run.
  - unfold delivered. now rewrite !trun_app.
Qed.

(* ------------------------------------------------------------------ covers *)
Lemma existsb_in : forall {A} (P : A -> bool) l a, In a l -> P a = true -> existsb P l = true.
Proof. intros. apply existsb_exists. eauto. Qed.

Lemma covers_obj : forall fs sp u, covers fs sp -> sp_req sp = [] ->
  opt_matches (sp_obj sp) u = true -> vis_o fs u = true.
Proof.
  intros fs sp u C E M. unfold covers, entry_new in C. rewrite E in C. unfold vis_o.
  destruct (sp_obj sp) as [o|]; cbn in C.
  - apply existsb_in with (a := FObject (Some o)); [apply C; now left|exact M].
  - apply existsb_in with (a := FObject None); [apply C; now left|reflexivity].
Qed.

Lemma covers_svc : forall fs sp u s, covers fs sp -> In s (sp_req sp) ->
  opt_matches (sp_obj sp) u = true -> vis_s fs u s = true.
Proof.
  intros fs sp u s C HI M. unfold covers, entry_new in C. unfold vis_s.
  destruct (sp_req sp) as [|r req] eqn:E; [destruct HI|]. rewrite <- E in HI.
  destruct (sp_obj sp) as [o|]; cbn [entry_filters] in C.
  - apply existsb_in with (a := FService (Some o) (Some s)).
    + apply C. rewrite map_map. cbn [fst]. rewrite E in HI.
      change (FService (Some o) (Some s)) with ((fun x => FService (Some o) (Some x)) s). now apply in_map.
    + cbn. cbn in M. now rewrite M, N.eqb_refl.
  - apply existsb_in with (a := FService None (Some s)).
    + apply C. rewrite E in HI. cbn [map]. rewrite map_map. cbn [fst].
      change (FService None (Some s)) with ((fun x => FService None (Some x)) s).
      change (FService None (Some r) :: map (fun x => FService None (Some x)) req)
        with (map (fun x => FService None (Some x)) (r :: req)). now apply in_map.
    + cbn. now rewrite N.eqb_refl.
Qed.

(* a Discoverer's listener carries the filters of every entry *)
Lemma covers_discoverer : forall sps sp, In sp sps -> covers (disc_filters (disc_new sps)) sp.
Proof.
  intros sps sp HI f Hf. unfold disc_filters, disc_new. apply in_flat_map.
  exists (entry_new sp). split; auto. now apply in_map.
Qed.

(* ------------------------------------------------------------------ the entry's matching = the property's words *)
Lemma matching_agree : forall fs TG Tl sp u c,
  gwf TG -> R fs TG Tl -> covers fs sp -> matchingb Tl sp u c = bus_matchingb TG sp u c.
Proof.
  intros fs TG Tl sp u c G HR C. unfold matchingb, bus_matchingb.
  destruct (opt_matches (sp_obj sp) u) eqn:M; [|now rewrite andb_false_r].
  rewrite andb_true_r. cbn [andb].
  destruct (sp_req sp) as [|r req] eqn:E.
  - cbn [req_ok forallb]. rewrite andb_true_r. rewrite (r_obj _ _ _ HR), (covers_obj fs sp u C E M). reflexivity.
  - rewrite <- E.
    assert (EQ : req_ok Tl u c (sp_req sp) = req_ok TG u c (sp_req sp)).
    { unfold req_ok. apply forallb_ext_in'. intros s HI.
      now rewrite (r_svc _ _ _ HR), (covers_svc fs sp u s C HI M). }
    rewrite EQ. destruct (req_ok TG u c (sp_req sp)) eqn:RO; [|now rewrite andb_false_r].
    rewrite andb_true_r. symmetry. apply opt_eqb_true.
    rewrite req_ok_true in RO. destruct (RO r) as [sc Hs]. { rewrite E. now left. }
    eapply (g_obj _ G); eauto.
Qed.

Lemma sget_agree : forall fs TG Tl sp u s,
  R fs TG Tl -> covers fs sp -> opt_matches (sp_obj sp) u = true -> In s (sp_svcs sp) ->
  sget (t_svcs Tl) u s = sget (t_svcs TG) u s.
Proof.
  intros fs TG Tl sp u s HR C M HI. rewrite (r_svc _ _ _ HR), (covers_svc fs sp u s C); auto.
  now apply dedup_in.
Qed.

Lemma transitions_agree : forall fs sp hist TG Tl,
  gwf TG -> R fs TG Tl -> sfun (t_svcs Tl) -> covers fs sp -> bus_wf_from TG hist = true ->
  transitions Tl (filter (matches_filters fs) hist) sp = bus_transitions TG hist sp.
Proof.
  intros fs sp hist. induction hist as [|ev hist IH]; intros TG Tl G HR F C W; auto.
  cbn [bus_wf_from] in W. apply andb_true_iff in W as [W1 W2].
  pose proof (sync_step fs TG Tl ev G HR F W1) as S.
  pose proof (gwf_step _ _ G W1) as G'.
  cbn [filter bus_transitions]. destruct (matches_filters fs ev).
  - destruct S as (S1 & S2 & S3). cbn [transitions]. rewrite (IH _ _ G' S2 S3 C W2). f_equal. f_equal.
    unfold delta, bus_delta. destruct (ev_obj ev) as [u c].
    now rewrite (matching_agree fs TG Tl sp u c G HR C), (matching_agree fs _ _ sp u c G' S2 C).
  - rewrite (IH _ _ G' S F C W2).
    assert (bus_delta TG ev sp = None) as ->; auto.
    unfold bus_delta. destruct (ev_obj ev) as [u c].
    rewrite <- (matching_agree fs TG Tl sp u c G HR C), <- (matching_agree fs _ Tl sp u c G' S C).
    now destruct (matchingb Tl sp u c).
Qed.

(* bus_delta is the only change of the matching set at a bus step *)
Lemma bus_delta_frame : forall TG ev sp u c,
  gwf TG -> bus_legalb TG ev = true -> (u, c) <> ev_obj ev ->
  bus_matchingb (tstep TG ev) sp u c = bus_matchingb TG sp u c.
Proof.
  intros TG ev sp u c G L NE. unfold bus_matchingb.
  destruct ev as [u0 c0|u0 c0|ou oc su sc|ou oc su sc]; cbn [ev_obj] in NE.
  - apply bus_oc_inv in L as [L _]. rewrite (req_ok_svcs TG) by reflexivity.
    cbn [tstep t_objs]. rewrite aget_cons. eqb_case u0 u; auto. subst u0. rewrite L.
    assert (c0 <> c) by congruence. cbn [opt_eqb]. apply N.eqb_neq in H. now rewrite H.
  - apply bus_od_inv in L as [L _]. rewrite (req_ok_svcs TG) by reflexivity.
    cbn [tstep t_objs]. rewrite aget_adel. eqb_case u0 u; auto. subst u0. rewrite L.
    assert (c0 <> c) by congruence. cbn [opt_eqb]. apply N.eqb_neq in H. now rewrite H.
  - apply bus_sc_inv in L as (L & _ & _). cbn [tstep t_objs]. eqb_case ou u.
    + subst ou. rewrite L. assert (oc <> c) by congruence. cbn [opt_eqb].
      apply N.eqb_neq in H. now rewrite H.
    + f_equal. apply req_ok_frame. intros s _. cbn [t_svcs]. rewrite sget_cons. apply N.eqb_neq in E. now rewrite E.
  - apply bus_sd_inv in L. cbn [tstep t_objs]. eqb_case ou u.
    + subst ou. rewrite (g_obj _ G _ _ _ _ L). assert (oc <> c) by congruence. cbn [opt_eqb].
      apply N.eqb_neq in H. now rewrite H.
    + f_equal. apply req_ok_frame. intros s _. cbn [t_svcs]. rewrite sget_sdel. apply N.eqb_neq in E. now rewrite E.
Qed.

Lemma nodup_app : forall {A} (a b : list A),
  NoDup a -> NoDup b -> (forall x, In x a -> In x b -> False) -> NoDup (a ++ b).
Proof.
  intros A a b Na Nb H. induction Na as [|x a NI Na IH]; cbn; auto.
  constructor.
  - intro HI. apply in_app_or in HI as [HI|HI]; [contradiction|]. eapply H; [now left|eauto].
  - apply IH. intros y Hy. apply H. now right.
Qed.

(* ------------------------------------------------------------------ what the snapshot phase emits *)
Lemma snap_events : forall sp cur T,
  forallb is_creation cur = true -> deliverable_from T cur = true ->
  (forall d, In d (transitions T cur sp) ->
     de_kind d = Created /\ de_key d = sp_key sp /\
     matchingb T sp (de_u d) (de_c d) = false /\ matchingb (trun T cur) sp (de_u d) (de_c d) = true) /\
  (forall u c, matchingb (trun T cur) sp u c = true ->
     matchingb T sp u c = true \/ In (mkDev (sp_key sp) Created u c) (transitions T cur sp)) /\
  NoDup (transitions T cur sp).
Proof.
  intros sp cur. induction cur as [|ev cur IH]; intros T C D.
  - cbn. split; [|split]; [tauto|auto|constructor].
  - cbn [forallb] in C. apply andb_true_iff in C as [C1 C2].
    cbn [deliverable_from] in D. apply andb_true_iff in D as [L D].
    destruct (IH (tstep T ev) C2 D) as (I1 & I2 & I3).
    assert (MONO : forall u c, matchingb T sp u c = true -> matchingb (tstep T ev) sp u c = true)
      by (intros; now apply creation_mono_step).
    destruct (ev_obj ev) as [u0 c0] eqn:EO.
    pose proof (delta_spec T ev sp u0 c0 EO) as DS.
    cbn [transitions trun fold_left]. fold (trun (tstep T ev) cur).
    split; [|split].
    + intros d HI. apply in_app_or in HI as [HI|HI].
      * destruct (matchingb T sp u0 c0) eqn:B; destruct (matchingb (tstep T ev) sp u0 c0) eqn:A;
          rewrite DS in HI; cbn in HI; try tauto.
        -- rewrite (MONO _ _ B) in A. discriminate.
        -- destruct HI as [<-|[]]. cbn. repeat split; auto. now apply creation_mono.
      * destruct (I1 d HI) as (K1 & K2 & K3 & K4). repeat split; auto.
        destruct (matchingb T sp (de_u d) (de_c d)) eqn:B; auto. rewrite (MONO _ _ B) in K3. discriminate.
    + intros u c M. destruct (I2 u c M) as [M'|HI]; [|right; apply in_or_app; now right].
      destruct (matchingb T sp u c) eqn:B; auto. right. apply in_or_app. left.
      destruct (N.eq_dec u u0) as [->|NE]; [destruct (N.eq_dec c c0) as [->|NE]|].
      * rewrite DS, B, M'. now left.
      * rewrite delta_frame in M'; [congruence|auto|rewrite EO; congruence].
      * rewrite delta_frame in M'; [congruence|auto|rewrite EO; congruence].
    + apply nodup_app; auto.
      * destruct (delta T ev sp); cbn; repeat constructor; auto.
      * intros d H1 H2. destruct (I1 d H2) as (_ & _ & K3 & _).
        destruct (matchingb T sp u0 c0) eqn:B; destruct (matchingb (tstep T ev) sp u0 c0) eqn:A;
          rewrite DS in H1; cbn in H1; try tauto.
        -- rewrite (MONO _ _ B) in A. discriminate.
        -- destruct H1 as [<-|[]]. cbn in K3. congruence.
Qed.

Lemma Forall2_transfer : forall (ss : list uuid) (ids : list (uuid * uuid))
    (f g : uuid -> option (uuid * uuid)) (c : uuid),
  (forall s, In s ss -> f s = g s) ->
  Forall2 (fun s p => fst p = c /\ f s = Some p) ss ids ->
  Forall2 (fun s p => fst p = c /\ g s = Some p) ss ids.
Proof.
  intros ss ids f g c H F. induction F as [|s p ss ids [P1 P2] F IH]; constructor.
  - split; auto. rewrite <- H; [auto|now left].
  - apply IH. intros. apply H. now right.
Qed.

(* ------------------------------------------------------------------ the discoverer against the bus *)
Lemma view_bus : forall fs pre hist cur sp,
  bus_wf (pre ++ hist) -> snapshot_of fs (trun t_empty pre) cur -> covers fs sp ->
  exists e snap,
    entry_run (entry_new sp) (delivered fs cur hist)
      = Ok (e, snap ++ bus_transitions (trun t_empty pre) hist sp) /\
    NoDup snap /\
    (forall d, In d snap <->
       exists u c, d = mkDev (sp_key sp) Created u c /\ bus_matchingb (trun t_empty pre) sp u c = true) /\
    (forall u c, In (u, c) (entry_iter e) <-> bus_matchingb (trun t_empty (pre ++ hist)) sp u c = true) /\
    NoDup (map fst (entry_iter e)) /\
    (forall u c, bus_matchingb (trun t_empty (pre ++ hist)) sp u c = true ->
       entry_object_id e u = Ok (Some c) /\
       exists ids, entry_service_ids e u (sp_svcs sp) = Ok (Some ids) /\
         Forall2 (fun s p => fst p = c /\ sget (t_svcs (trun t_empty (pre ++ hist))) u s = Some p)
                 (sp_svcs sp) ids).
Proof.
  intros fs pre hist cur sp W S C.
  destruct (delivered_ok fs pre hist cur W S) as (D & G & HR & CR & Dc & Rc).
  assert (W' := W). unfold bus_wf in W'. rewrite bus_wf_app in W'. apply andb_true_iff in W' as [W1 W2].
  pose proof (gwf_run pre t_empty gwf_empty W1) as G1.
  destruct (snapshot_ok fs _ cur G1 S) as (_ & _ & F1 & _ & _).
  destruct (entry_run_ok sp _ D) as (e & ER & I).
  destruct (inv_view _ _ _ I) as [V1 V2].
  destruct (snap_events sp cur t_empty CR Dc) as (S1 & S2 & S3).
  exists e, (transitions t_empty cur sp). split; [|split; [|split; [|split; [|split]]]]; auto.
  - rewrite ER. f_equal. f_equal. unfold delivered. rewrite transitions_app. f_equal.
    now apply transitions_agree.
  - intro d. split.
    + intro HI. destruct (S1 d HI) as (K1 & K2 & _ & K4). exists (de_u d), (de_c d). split.
      * destruct d as [k kd du dc]. cbn in *. now subst.
      * now rewrite <- (matching_agree fs _ _ sp _ _ G1 Rc C).
    + intros (u & c & -> & M). rewrite <- (matching_agree fs _ _ sp _ _ G1 Rc C) in M.
      destruct (S2 u c M) as [M0|HI]; auto. rewrite matching_empty in M0. discriminate.
  - intros u c. rewrite V1. now rewrite (matching_agree fs _ _ sp u c G HR C).
  - intros u c M. rewrite <- (matching_agree fs _ _ sp u c G HR C) in M. split.
    + destruct (inv_object_id sp _ e u I (matching_opt _ _ _ _ M)) as (r & Er & Hr).
      rewrite Er. f_equal. now apply Hr.
    + destruct (inv_service_ids sp _ e u c I M) as (ids & E1 & E2). exists ids. split; auto.
      pose proof (matching_opt _ _ _ _ M) as OM.
      eapply Forall2_transfer; [|exact E2]. intros s HI. cbn beta. eapply sget_agree; eauto.
Qed.

(* ------------------------------------------------------------------ find / wait against the bus *)
Lemma filter_split : forall {A} (f : A -> bool) l a b,
  filter f l = a ++ b -> exists l1 l2, l = l1 ++ l2 /\ filter f l1 = a /\ filter f l2 = b.
Proof.
  intros A f l. induction l as [|x l IH]; intros a b H.
  - cbn in H. symmetry in H. apply app_eq_nil in H as [-> ->]. exists [], []. auto.
  - cbn [filter] in H. destruct (f x) eqn:E.
    + destruct a as [|y a].
      * exists [], (x :: l). cbn [filter app]. rewrite E. auto.
      * cbn [app] in H. injection H as <- H. destruct (IH _ _ H) as (l1 & l2 & -> & H1 & H2).
        exists (x :: l1), l2. cbn [filter app]. rewrite E, H1. auto.
    + destruct (IH _ _ H) as (l1 & l2 & -> & H1 & H2).
      exists (x :: l1), l2. cbn [filter app]. rewrite E. auto.
Qed.

Lemma bus_wf_prefix : forall pre h1 h2, bus_wf (pre ++ h1 ++ h2) -> bus_wf (pre ++ h1).
Proof.
  intros pre h1 h2 W. unfold bus_wf in *. rewrite app_assoc, bus_wf_app in W.
  now apply andb_true_iff in W as [W _].
Qed.

Lemma wait_bus : forall fs pre hist cur sp,
  bus_wf (pre ++ hist) -> snapshot_of fs (trun t_empty pre) cur -> covers fs sp ->
  (find_object sp (delivered fs cur hist) = Ok None /\
   forall h1 h2, hist = h1 ++ h2 ->
     forall u c, bus_matchingb (trun t_empty (pre ++ h1)) sp u c = false) \/
  (exists u c ids h1 h2,
     find_object sp (delivered fs cur hist) = Ok (Some (u, c, ids)) /\ hist = h1 ++ h2 /\
     bus_matchingb (trun t_empty (pre ++ h1)) sp u c = true /\
     Forall2 (fun s p => fst p = c /\ sget (t_svcs (trun t_empty (pre ++ h1))) u s = Some p)
             (sp_svcs sp) ids).
Proof.
  intros fs pre hist cur sp W S C.
  destruct (delivered_ok fs pre hist cur W S) as (D & G & HR & CR & Dc & Rc).
  assert (W' := W). unfold bus_wf in W'. rewrite bus_wf_app in W'. apply andb_true_iff in W' as [W1 W2].
  pose proof (gwf_run pre t_empty gwf_empty W1) as G1.
  destruct (find_object_ok sp _ D) as [[FN HE]|(l1 & ev & rest & u & c & ids & EL & FS & _ & HM & HI)].
  - left. split; auto. intros h1 h2 -> u c.
    destruct (delivered_ok fs pre h1 cur (bus_wf_prefix _ _ _ W) S) as (_ & G' & HR' & _).
    rewrite <- (matching_agree fs _ _ sp u c G' HR' C).
    apply (HE (delivered fs cur h1) (filter (matches_filters fs) h2)).
    unfold delivered. now rewrite filter_app, app_assoc.
  - right. exists u, c, ids.
    assert (EL' : (l1 ++ [ev]) ++ rest = cur ++ filter (matches_filters fs) hist)
      by (rewrite <- app_assoc; exact (eq_sym EL)).
    set (p := l1 ++ [ev]) in *.
    apply app_eq_app in EL' as [k [[E1 E2]|[E1 E2]]].
    + (* the match was found beyond the snapshot (or right at its end) *)
      apply filter_split in E2 as (h1 & h2 & -> & F1 & F2).
      exists h1, h2. split; auto. split; auto.
      destruct (delivered_ok fs pre h1 cur (bus_wf_prefix _ _ _ W) S) as (_ & G' & HR' & _).
      assert (EP : p = delivered fs cur h1) by (unfold delivered; now rewrite F1).
      rewrite EP in HM, HI. split.
      * now rewrite <- (matching_agree fs _ _ sp u c G' HR' C).
      * pose proof (matching_opt _ _ _ _ HM) as OM.
        eapply Forall2_transfer; [|exact HI]. intros s Hs. cbn beta. eapply sget_agree; eauto.
    + (* the match was found inside the snapshot: it exists when the listener starts *)
      exists [], hist. split; auto. split; auto. rewrite app_nil_r.
      unfold deliverable, deliverableb in Dc. rewrite E1 in Dc, CR.
      rewrite deliverable_app in Dc. apply andb_true_iff in Dc as [_ Dk].
      rewrite forallb_app in CR. apply andb_true_iff in CR as [_ Ck].
      assert (HM' : matchingb (trun t_empty cur) sp u c = true)
        by (rewrite E1, trun_app; now apply creation_mono).
      split.
      * now rewrite <- (matching_agree fs _ _ sp u c G1 Rc C).
      * pose proof (matching_opt _ _ _ _ HM') as OM.
        eapply Forall2_transfer with (f := fun s => sget (t_svcs (trun t_empty cur)) u s).
        -- intros s Hs. cbn beta. eapply sget_agree; eauto.
        -- eapply Forall2_imp; [|exact HI]. intros s q [Q1 Q2]. split; auto.
           rewrite E1, trun_app. now apply creation_sget_mono.
Qed.
