(* ClientFold/BusProofs.v — from a well-formed bus history and a filter set to the listener's
   deliverable sequence.

   [gwf]        consistency of the truth of a well-formed history
   [R fs TG Tl] the truth [Tl] of what the listener has been handed is the part of the bus truth
                [TG] its filters let through
   [sync_step]  one bus event keeps R (and is locally legal if it is visible)
   [snapshot_ok] the current-entities phase establishes R
   [delivered_ok] the delivered sequence is deliverable and ends in R
   [matching_agree] under R and [covers], the entry's matching on Tl = the property's words on TG
   [transitions_agree] the entry's transitions after the snapshot = the transitions on the bus *)
From Coq Require Import List NArith Bool Lia.
Import ListNotations.
From Aldrin Require Import ClientFold.Discoverer ClientFold.DiscovererProofs ClientFold.Bus.
Local Open Scope N_scope.
Arguments N.eqb : simpl never.

(* ------------------------------------------------------------------ small tools *)
Lemma memb_cons : forall c x l, memb c (x :: l) = N.eqb c x || memb c l.
Proof. reflexivity. Qed.

Lemma memb_in : forall c l, memb c l = true <-> In c l.
Proof. intros. unfold memb. apply existsb_eqb_in. Qed.

Lemma is_some_false : forall {A} (o : option A), is_some o = false -> o = None.
Proof. intros A [a|] H; [discriminate|auto]. Qed.

Lemma pair_eqb_true : forall a oc sc, pair_eqb a oc sc = true -> a = Some (oc, sc).
Proof.
  intros [[x y]|] oc sc H; cbn in H; [|discriminate].
  apply andb_true_iff in H as [H1 H2]. apply N.eqb_eq in H1, H2. now subst.
Qed.

Lemma forallb_no_ou : forall l u,
  forallb (fun x => negb (N.eqb (svc_ou x) u)) l = true -> forall su, sget l u su = None.
Proof.
  intros l u H su. destruct (sget l u su) as [[oc sc]|] eqn:E; auto.
  apply sget_in in E. rewrite forallb_forall in H. specialize (H _ E). cbn in H.
  rewrite N.eqb_refl in H. discriminate.
Qed.

(* ------------------------------------------------------------------ the truth of a well-formed history *)
Record gwf (T : truth) : Prop := {
  g_obj : forall ou su oc sc, sget (t_svcs T) ou su = Some (oc, sc) -> aget (t_objs T) ou = Some oc;
  g_used_o : forall u c, aget (t_objs T) u = Some c -> memb c (t_used_o T) = true;
  g_used_s : forall ou su oc sc, sget (t_svcs T) ou su = Some (oc, sc) -> memb sc (t_used_s T) = true;
  g_inj_o : forall u u' c, aget (t_objs T) u = Some c -> aget (t_objs T) u' = Some c -> u = u';
  g_inj_s : forall ou su oc sc ou' su' oc', sget (t_svcs T) ou su = Some (oc, sc) ->
              sget (t_svcs T) ou' su' = Some (oc', sc) -> ou = ou' /\ su = su' }.

Lemma gwf_empty : gwf t_empty.
Proof. constructor; cbn; intros; discriminate. Qed.

Lemma bus_oc_inv : forall T u c, bus_legalb T (EvObjectCreated u c) = true ->
  aget (t_objs T) u = None /\ memb c (t_used_o T) = false.
Proof.
  intros T u c H. cbn in H. apply andb_true_iff in H as [H1 H2]. split.
  - apply is_some_false. now apply negb_true_iff in H1.
  - now apply negb_true_iff in H2.
Qed.

Lemma bus_od_inv : forall T u c, bus_legalb T (EvObjectDestroyed u c) = true ->
  aget (t_objs T) u = Some c /\ forall su, sget (t_svcs T) u su = None.
Proof.
  intros T u c H. cbn in H. apply andb_true_iff in H as [H1 H2]. split.
  - now apply opt_eqb_true in H1.
  - now apply forallb_no_ou.
Qed.

Lemma bus_sc_inv : forall T ou oc su sc, bus_legalb T (EvServiceCreated ou oc su sc) = true ->
  aget (t_objs T) ou = Some oc /\ sget (t_svcs T) ou su = None /\ memb sc (t_used_s T) = false.
Proof.
  intros T ou oc su sc H. cbn in H.
  apply andb_true_iff in H as [H H3]. apply andb_true_iff in H as [H1 H2]. split; [|split].
  - now apply opt_eqb_true in H1.
  - apply is_some_false. now apply negb_true_iff in H2.
  - now apply negb_true_iff in H3.
Qed.

Lemma bus_sd_inv : forall T ou oc su sc, bus_legalb T (EvServiceDestroyed ou oc su sc) = true ->
  sget (t_svcs T) ou su = Some (oc, sc).
Proof. intros T ou oc su sc H. cbn in H. now apply pair_eqb_true. Qed.

Lemma gwf_step : forall T ev, gwf T -> bus_legalb T ev = true -> gwf (tstep T ev).
Proof.
  intros T ev G L. destruct G as [G1 G2 G3 G4 G5].
  destruct ev as [u c|u c|ou oc su sc|ou oc su sc].
  - apply bus_oc_inv in L as [L1 L2]. constructor; cbn [tstep t_objs t_svcs t_used_o t_used_s].
    + intros ou su oc sc H. rewrite aget_cons. eqb_case u ou; [|eauto].
      subst. rewrite (G1 _ _ _ _ H) in L1. discriminate.
    + intros u' c' H. rewrite aget_cons in H. rewrite memb_cons. eqb_case u u'.
      * injection H as <-. now rewrite N.eqb_refl.
      * rewrite (G2 _ _ H). apply orb_true_r.
    + exact G3.
    + intros a b k H1 H2. rewrite aget_cons in H1, H2.
      eqb_case u a; eqb_case u b; try congruence.
      * injection H1 as <-. apply G2 in H2. congruence.
      * injection H2 as <-. apply G2 in H1. congruence.
      * eauto.
    + exact G5.
  - apply bus_od_inv in L as [L1 L2]. constructor; cbn [tstep t_objs t_svcs t_used_o t_used_s].
    + intros ou su oc sc H. rewrite aget_adel. eqb_case u ou; [|eauto].
      subst. rewrite L2 in H. discriminate.
    + intros u' c' H. rewrite aget_adel in H. eqb_case u u'; [discriminate|eauto].
    + exact G3.
    + intros a b k H1 H2. rewrite aget_adel in H1, H2.
      eqb_case u a; [discriminate|]. eqb_case u b; [discriminate|]. eauto.
    + exact G5.
  - apply bus_sc_inv in L as (L1 & L2 & L3). constructor; cbn [tstep t_objs t_svcs t_used_o t_used_s].
    + intros a b k1 k2 H. rewrite sget_cons in H.
      destruct (N.eqb ou a && N.eqb su b) eqn:E; [|eauto].
      injection H as <- <-. apply andb_true_iff in E as [E _]. apply N.eqb_eq in E. now subst.
    + exact G2.
    + intros a b k1 k2 H. rewrite sget_cons in H. rewrite memb_cons.
      destruct (N.eqb ou a && N.eqb su b) eqn:E.
      * injection H as <- <-. now rewrite N.eqb_refl.
      * rewrite (G3 _ _ _ _ H). apply orb_true_r.
    + exact G4.
    + intros a b k1 k2 a' b' k1' H1 H2. rewrite sget_cons in H1, H2.
      destruct (N.eqb ou a && N.eqb su b) eqn:E1; destruct (N.eqb ou a' && N.eqb su b') eqn:E2.
      * apply andb_true_iff in E1 as [X1 X2]. apply andb_true_iff in E2 as [Y1 Y2].
        apply N.eqb_eq in X1, X2, Y1, Y2. subst. auto.
      * injection H1 as <- <-. apply G3 in H2. congruence.
      * injection H2 as <- <-. apply G3 in H1. congruence.
      * eauto.
  - apply bus_sd_inv in L. constructor; cbn [tstep t_objs t_svcs t_used_o t_used_s].
    + intros a b k1 k2 H. rewrite sget_sdel in H. destruct (N.eqb ou a && N.eqb su b); [discriminate|eauto].
    + exact G2.
    + intros a b k1 k2 H. rewrite sget_sdel in H. destruct (N.eqb ou a && N.eqb su b); [discriminate|eauto].
    + exact G4.
    + intros a b k1 k2 a' b' k1' H1 H2. rewrite sget_sdel in H1, H2.
      destruct (N.eqb ou a && N.eqb su b); [discriminate|].
      destruct (N.eqb ou a' && N.eqb su b'); [discriminate|]. eauto.
Qed.

Lemma gwf_run : forall l T, gwf T -> bus_wf_from T l = true -> gwf (trun T l).
Proof.
  induction l as [|ev l IH]; intros T G W; auto.
  cbn [bus_wf_from] in W. apply andb_true_iff in W as [W1 W2].
  cbn [trun fold_left]. apply IH; auto. now apply gwf_step.
Qed.

Lemma bus_wf_app : forall l1 l2 T,
  bus_wf_from T (l1 ++ l2) = bus_wf_from T l1 && bus_wf_from (trun T l1) l2.
Proof.
  induction l1 as [|ev l1 IH]; intros; cbn [bus_wf_from app]; auto.
  rewrite IH. cbn [trun fold_left]. now rewrite andb_assoc.
Qed.

(* ------------------------------------------------------------------ the listener's part of the truth *)
Definition sfun (l : list (uuid * uuid * uuid * uuid)) : Prop :=
  forall ou oc su sc, In (ou, oc, su, sc) l -> sget l ou su = Some (oc, sc).

Record R (fs : list bfilter) (TG Tl : truth) : Prop := {
  r_obj : forall u, aget (t_objs Tl) u = if vis_o fs u then aget (t_objs TG) u else None;
  r_svc : forall ou su, sget (t_svcs Tl) ou su = if vis_s fs ou su then sget (t_svcs TG) ou su else None;
  r_uo : forall c, memb c (t_used_o Tl) = true -> memb c (t_used_o TG) = true;
  r_us : forall c, memb c (t_used_s Tl) = true -> memb c (t_used_s TG) = true }.

Lemma vis_oc : forall fs u c, matches_filters fs (EvObjectCreated u c) = vis_o fs u.
Proof. reflexivity. Qed.
Lemma vis_od : forall fs u c, matches_filters fs (EvObjectDestroyed u c) = vis_o fs u.
Proof. reflexivity. Qed.
Lemma vis_sc : forall fs ou oc su sc, matches_filters fs (EvServiceCreated ou oc su sc) = vis_s fs ou su.
Proof. reflexivity. Qed.
Lemma vis_sd : forall fs ou oc su sc, matches_filters fs (EvServiceDestroyed ou oc su sc) = vis_s fs ou su.
Proof. reflexivity. Qed.

Lemma sfun_nil : sfun [].
Proof. intros ? ? ? ? []. Qed.

Lemma sfun_cons : forall l ou oc su sc, sfun l -> sget l ou su = None -> sfun ((ou, oc, su, sc) :: l).
Proof.
  intros l ou oc su sc F N a b c d [H|H]; rewrite sget_cons.
  - injection H as <- <- <- <-. now rewrite !N.eqb_refl.
  - destruct (N.eqb ou a && N.eqb su c) eqn:E; [|now apply F].
    apply andb_true_iff in E as [E1 E2]. apply N.eqb_eq in E1, E2. subst.
    rewrite (F _ _ _ _ H) in N. discriminate.
Qed.

Lemma sfun_sdel : forall l ou su, sfun l -> sfun (sdel l ou su).
Proof.
  intros l ou su F a b c d H. unfold sdel in H. apply filter_In in H as [H1 H2].
  rewrite sget_sdel. cbn in H2. rewrite (eqb_sym' a), (eqb_sym' c) in H2.
  apply negb_true_iff in H2. rewrite H2. now apply F.
Qed.

Lemma memb_false_sub : forall c l l', (memb c l = true -> memb c l' = true) -> memb c l' = false -> memb c l = false.
Proof. intros c l l' H H'. destruct (memb c l); auto. rewrite H in H'; auto. Qed.

Lemma sync_step : forall fs TG Tl ev,
  gwf TG -> R fs TG Tl -> sfun (t_svcs Tl) -> bus_legalb TG ev = true ->
  if matches_filters fs ev
  then legalb Tl ev = true /\ R fs (tstep TG ev) (tstep Tl ev) /\ sfun (t_svcs (tstep Tl ev))
  else R fs (tstep TG ev) Tl.
Proof.
  intros fs TG Tl ev G [RO RS RUO RUS] F L.
  destruct ev as [u c|u c|ou oc su sc|ou oc su sc].
  - apply bus_oc_inv in L as [L1 L2]. rewrite vis_oc. destruct (vis_o fs u) eqn:V.
    + split; [|split].
      * cbn [legalb]. rewrite RO, V, L1. cbn. apply negb_true_iff.
        eapply memb_false_sub; [apply RUO|exact L2].
      * constructor; cbn [tstep t_objs t_svcs t_used_o t_used_s]; auto.
        -- intro u'. rewrite !aget_cons. eqb_case u u'; [subst; now rewrite V|apply RO].
        -- intros k. rewrite !memb_cons. destruct (N.eqb k c); cbn; auto.
      * exact F.
    + constructor; cbn [tstep t_objs t_svcs t_used_o t_used_s]; auto.
      * intro u'. rewrite aget_cons, RO. eqb_case u u'; [subst; now rewrite V|reflexivity].
      * intros k H. rewrite memb_cons. rewrite (RUO _ H). apply orb_true_r.
  - apply bus_od_inv in L as [L1 L2]. rewrite vis_od. destruct (vis_o fs u) eqn:V.
    + split; [|split].
      * cbn [legalb]. rewrite RO, V, L1. cbn [opt_eqb]. rewrite N.eqb_refl. cbn [andb].
        apply forallb_forall. intros [[[a b] k] d] HI. cbn [svc_ou]. apply negb_true_iff.
        eqb_case a u; auto. subst a. exfalso.
        pose proof (F _ _ _ _ HI) as HS. rewrite RS in HS. destruct (vis_s fs u k); [|discriminate].
        rewrite L2 in HS. discriminate.
      * constructor; cbn [tstep t_objs t_svcs t_used_o t_used_s]; auto.
        intro u'. rewrite !aget_adel. eqb_case u u'; [now destruct (vis_o fs u')|apply RO].
      * exact F.
    + constructor; cbn [tstep t_objs t_svcs t_used_o t_used_s]; auto.
      intro u'. rewrite aget_adel, RO. eqb_case u u'; [subst; now rewrite V|reflexivity].
  - apply bus_sc_inv in L as (L1 & L2 & L3). rewrite vis_sc. destruct (vis_s fs ou su) eqn:V.
    + assert (LN : sget (t_svcs Tl) ou su = None) by (now rewrite RS, V).
      split; [|split].
      * cbn [legalb]. rewrite LN. cbn [is_some negb andb]. apply andb_true_iff. split.
        -- apply forallb_forall. intros [[[a b] k] d] HI. cbn [svc_ou svc_oc].
           eqb_case a ou; auto. subst a. apply N.eqb_eq.
           pose proof (F _ _ _ _ HI) as HS. rewrite RS in HS. destruct (vis_s fs ou k); [|discriminate].
           apply (g_obj _ G) in HS. congruence.
        -- apply negb_true_iff. eapply memb_false_sub; [apply RUS|exact L3].
      * constructor; cbn [tstep t_objs t_svcs t_used_o t_used_s]; auto.
        -- intros a k. rewrite !sget_cons. destruct (N.eqb ou a && N.eqb su k) eqn:E; [|apply RS].
           apply andb_true_iff in E as [E1 E2]. apply N.eqb_eq in E1, E2. subst. now rewrite V.
        -- intros k. rewrite !memb_cons. destruct (N.eqb k sc); cbn; auto.
      * cbn [tstep t_svcs]. now apply sfun_cons.
    + constructor; cbn [tstep t_objs t_svcs t_used_o t_used_s]; auto.
      * intros a k. rewrite sget_cons, RS. destruct (N.eqb ou a && N.eqb su k) eqn:E; [|reflexivity].
        apply andb_true_iff in E as [E1 E2]. apply N.eqb_eq in E1, E2. subst. now rewrite V.
      * intros k H. rewrite memb_cons. rewrite (RUS _ H). apply orb_true_r.
  - apply bus_sd_inv in L. rewrite vis_sd. destruct (vis_s fs ou su) eqn:V.
    + split; [|split].
      * cbn [legalb]. rewrite RS, V, L. cbn. now rewrite !N.eqb_refl.
      * constructor; cbn [tstep t_objs t_svcs t_used_o t_used_s]; auto.
        intros a k. rewrite !sget_sdel. destruct (N.eqb ou a && N.eqb su k) eqn:E; [|apply RS].
        now destruct (vis_s fs a k).
      * cbn [tstep t_svcs]. now apply sfun_sdel.
    + constructor; cbn [tstep t_objs t_svcs t_used_o t_used_s]; auto.
      intros a k. rewrite sget_sdel, RS. destruct (N.eqb ou a && N.eqb su k) eqn:E; [|reflexivity].
      apply andb_true_iff in E as [E1 E2]. apply N.eqb_eq in E1, E2. subst. now rewrite V.
Qed.

(* the stream phase: everything of [hist] the filters let through *)
Lemma sync_run : forall fs hist TG Tl,
  gwf TG -> R fs TG Tl -> sfun (t_svcs Tl) -> bus_wf_from TG hist = true ->
  deliverable_from Tl (filter (matches_filters fs) hist) = true /\
  R fs (trun TG hist) (trun Tl (filter (matches_filters fs) hist)) /\
  sfun (t_svcs (trun Tl (filter (matches_filters fs) hist))).
Proof.
  intros fs hist. induction hist as [|ev hist IH]; intros TG Tl G HR F W.
  - cbn. auto.
  - cbn [bus_wf_from] in W. apply andb_true_iff in W as [W1 W2].
    pose proof (sync_step fs TG Tl ev G HR F W1) as S.
    pose proof (gwf_step _ _ G W1) as G'.
    cbn [filter]. destruct (matches_filters fs ev).
    + destruct S as (S1 & S2 & S3). destruct (IH _ _ G' S2 S3 W2) as (I1 & I2 & I3).
      cbn [deliverable_from trun fold_left]. rewrite S1. auto.
    + destruct (IH _ _ G' S F W2) as (I1 & I2 & I3). cbn [trun fold_left]. auto.
Qed.

(* ------------------------------------------------------------------ the snapshot phase *)
Lemma nodup_map_inj : forall {A B} (f : A -> B) l,
  NoDup l -> (forall x y, In x l -> In y l -> f x = f y -> x = y) -> NoDup (map f l).
Proof.
  intros A B f l ND. induction ND as [|a l NI ND IH]; intros H; cbn; constructor.
  - intro HI. apply in_map_iff in HI as (y & Ey & Hy).
    assert (y = a) by (apply H; [now right|now left|auto]). subst. contradiction.
  - apply IH. intros x y Hx Hy. apply H; now right.
Qed.

Definition skey (x : uuid * uuid * uuid * uuid) : uuid * uuid := match x with (ou, _, su, _) => (ou, su) end.
Definition ssc (x : uuid * uuid * uuid * uuid) : uuid := match x with (_, _, _, sc) => sc end.

Lemma sget_none_key : forall l ou su, ~ In (ou, su) (map skey l) -> sget l ou su = None.
Proof.
  intros l ou su H. destruct (sget l ou su) as [[oc sc]|] eqn:E; auto.
  exfalso. apply H. apply sget_in in E. change (ou, su) with (skey (ou, oc, su, sc)). now apply in_map.
Qed.

Lemma in_sget : forall l ou oc su sc,
  NoDup (map skey l) -> In (ou, oc, su, sc) l -> sget l ou su = Some (oc, sc).
Proof.
  induction l as [|[[[a b] k] d] l IH]; intros ou oc su sc ND HI; [destruct HI|].
  cbn [map skey] in ND. inversion ND as [|? ? NI ND']; subst. rewrite sget_cons.
  destruct HI as [HI|HI].
  - injection HI as -> -> -> ->. now rewrite !N.eqb_refl.
  - destruct (N.eqb a ou && N.eqb k su) eqn:E; [|auto].
    apply andb_true_iff in E as [E1 E2]. apply N.eqb_eq in E1, E2. subst. exfalso. apply NI.
    change (ou, su) with (skey (ou, oc, su, sc)). now apply in_map.
Qed.

Lemma aget_iff : forall {V} (m : list (uuid * V)) k v, NoDup (map fst m) -> (aget m k = Some v <-> In (k, v) m).
Proof. intros. split; [apply aget_in|now apply in_aget]. Qed.

Lemma run_ocs : forall lo T,
  (forall u c, In (u, c) lo -> aget (t_objs T) u = None /\ memb c (t_used_o T) = false) ->
  NoDup (map fst lo) -> NoDup (map snd lo) ->
  deliverable_from T (map ev_oc lo) = true /\
  trun T (map ev_oc lo) =
    mkTruth (rev lo ++ t_objs T) (t_svcs T) (rev (map snd lo) ++ t_used_o T) (t_used_s T).
Proof.
  induction lo as [|[u c] lo IH]; intros T H N1 N2.
  - cbn. destruct T; auto.
  - cbn [map fst snd] in N1, N2. inversion N1 as [|? ? NI1 N1']; inversion N2 as [|? ? NI2 N2']; subst.
    destruct (H u c (or_introl eq_refl)) as [H1 H2].
    destruct (IH (tstep T (EvObjectCreated u c))) as [D E]; auto.
    { intros u' c' HI. destruct (H u' c' (or_intror HI)) as [A B].
      cbn [tstep t_objs t_used_o]. rewrite aget_cons, memb_cons. split.
      - eqb_case u u'; auto. subst. exfalso. apply NI1. change u' with (fst (u', c')). now apply in_map.
      - eqb_case c' c; cbn; auto. subst. exfalso. apply NI2. change c with (snd (u', c)). now apply in_map. }
    split.
    + cbn [map deliverable_from ev_oc fst snd legalb]. rewrite H1, H2. cbn. exact D.
    + change (trun T (map ev_oc ((u, c) :: lo))) with (trun (tstep T (EvObjectCreated u c)) (map ev_oc lo)).
      rewrite E. cbn [tstep t_objs t_svcs t_used_o t_used_s rev map snd]. now rewrite <- !app_assoc.
Qed.

Lemma run_scs : forall ls T,
  sfun (t_svcs T) ->
  (forall ou oc su sc, In (ou, oc, su, sc) ls ->
     sget (t_svcs T) ou su = None /\ memb sc (t_used_s T) = false /\
     forall su' oc' sc', sget (t_svcs T) ou su' = Some (oc', sc') -> oc' = oc) ->
  (forall ou oc su sc oc' su' sc', In (ou, oc, su, sc) ls -> In (ou, oc', su', sc') ls -> oc = oc') ->
  NoDup (map skey ls) -> NoDup (map ssc ls) ->
  deliverable_from T (map ev_sc ls) = true /\
  trun T (map ev_sc ls) =
    mkTruth (t_objs T) (rev ls ++ t_svcs T) (t_used_o T) (rev (map ssc ls) ++ t_used_s T).
Proof.
  induction ls as [|[[[ou oc] su] sc] ls IH]; intros T F H HP N1 N2.
  - cbn. destruct T; auto.
  - cbn [map skey ssc] in N1, N2. inversion N1 as [|? ? NI1 N1']; inversion N2 as [|? ? NI2 N2']; subst.
    destruct (H ou oc su sc (or_introl eq_refl)) as (H1 & H2 & H3).
    destruct (IH (tstep T (EvServiceCreated ou oc su sc))) as [D E]; auto.
    { cbn [tstep t_svcs]. now apply sfun_cons. }
    { intros a b k d HI. destruct (H a b k d (or_intror HI)) as (A & B & C).
      cbn [tstep t_svcs t_used_s]. rewrite sget_cons, memb_cons. split; [|split].
      - destruct (N.eqb ou a && N.eqb su k) eqn:X; auto.
        apply andb_true_iff in X as [X1 X2]. apply N.eqb_eq in X1, X2. subst. exfalso. apply NI1.
        change (a, k) with (skey (a, b, k, d)). now apply in_map.
      - eqb_case d sc; cbn; auto. subst. exfalso. apply NI2. change sc with (ssc (a, b, k, sc)). now apply in_map.
      - intros k' b' d'. rewrite sget_cons. destruct (N.eqb ou a && N.eqb su k') eqn:X; [|apply C].
        intros [= <- <-]. apply andb_true_iff in X as [X1 _]. apply N.eqb_eq in X1. subst.
        eapply HP; [now left|right; exact HI]. }
    { intros a b k d b' k' d' X Y. eapply HP; right; eauto. }
    split.
    + cbn [map deliverable_from ev_sc legalb]. rewrite H1, H2. cbn [is_some negb andb].
      rewrite andb_true_r. apply andb_true_iff. split; [|exact D].
      apply forallb_forall. intros [[[a b] k] d] HI. cbn [svc_ou svc_oc].
      eqb_case a ou; auto. subst. apply N.eqb_eq. eapply H3. apply (F _ _ _ _ HI).
    + change (trun T (map ev_sc ((ou, oc, su, sc) :: ls)))
        with (trun (tstep T (EvServiceCreated ou oc su sc)) (map ev_sc ls)).
      rewrite E. cbn [tstep t_objs t_svcs t_used_o t_used_s rev map ssc]. now rewrite <- !app_assoc.
Qed.

Lemma snapshot_ok : forall fs TG cur,
  gwf TG -> snapshot_of fs TG cur ->
  deliverable cur /\ R fs TG (trun t_empty cur) /\ sfun (t_svcs (trun t_empty cur)) /\
  forallb is_creation cur = true /\ forallb (matches_filters fs) cur = true.
Proof.
  intros fs TG cur G (lo & ls & -> & NDo & NDs & Ho & Hs).
  assert (N1 : NoDup (map fst lo)).
  { apply nodup_map_inj; auto. intros [u c] [u' c'] X Y E. cbn in E. subst u'.
    apply Ho in X as [X _]. apply Ho in Y as [Y _]. congruence. }
  assert (N2 : NoDup (map snd lo)).
  { apply nodup_map_inj; auto. intros [u c] [u' c'] X Y E. cbn in E. subst c'.
    apply Ho in X as [X _]. apply Ho in Y as [Y _]. f_equal. eapply (g_inj_o _ G); eauto. }
  assert (N3 : NoDup (map skey ls)).
  { apply nodup_map_inj; auto. intros [[[a b] k] d] [[[a' b'] k'] d'] X Y E. cbn in E.
    injection E as <- <-. apply Hs in X as [X _]. apply Hs in Y as [Y _]. congruence. }
  assert (N4 : NoDup (map ssc ls)).
  { apply nodup_map_inj; auto. intros [[[a b] k] d] [[[a' b'] k'] d'] X Y E. cbn in E. subst d'.
    apply Hs in X as [X _]. apply Hs in Y as [Y _].
    destruct (g_inj_s _ G _ _ _ _ _ _ _ X Y) as [-> ->]. congruence. }
  destruct (run_ocs lo t_empty) as [D1 E1]; auto.
  set (T1 := trun t_empty (map ev_oc lo)) in *.
  destruct (run_scs ls T1) as [D2 E2]; auto.
  { rewrite E1. cbn. apply sfun_nil. }
  { intros a b k d HI. rewrite E1. cbn. repeat split; auto. discriminate. }
  { intros a b k d b' k' d' X Y. apply Hs in X as [X _]. apply Hs in Y as [Y _].
    apply (g_obj _ G) in X. apply (g_obj _ G) in Y. congruence. }
  assert (ET : trun t_empty (map ev_oc lo ++ map ev_sc ls)
               = mkTruth (rev lo) (rev ls) (rev (map snd lo)) (rev (map ssc ls))).
  { rewrite trun_app. fold T1. rewrite E2, E1. cbn. now rewrite !app_nil_r. }
  assert (NR1 : NoDup (map fst (rev lo))) by (rewrite map_rev; now apply NoDup_rev).
  assert (NR3 : NoDup (map skey (rev ls))) by (rewrite map_rev; now apply NoDup_rev).
  split; [|split; [|split; [|split]]].
  - unfold deliverable, deliverableb. rewrite deliverable_app. fold T1. now rewrite D1, D2.
  - rewrite ET. constructor; cbn [t_objs t_svcs t_used_o t_used_s].
    + intro u. destruct (aget (rev lo) u) as [c|] eqn:E.
      * apply aget_iff in E; auto. apply in_rev in E. apply Ho in E as [E V]. now rewrite V.
      * destruct (vis_o fs u) eqn:V; auto. destruct (aget (t_objs TG) u) as [c|] eqn:EG; auto.
        assert (HI : In (u, c) (rev lo)) by (apply in_rev; rewrite rev_involutive; apply Ho; auto).
        apply aget_iff in HI; auto. congruence.
    + intros ou su. destruct (sget (rev ls) ou su) as [[oc sc]|] eqn:E.
      * apply sget_in in E. apply in_rev in E. apply Hs in E as [E V]. now rewrite V.
      * destruct (vis_s fs ou su) eqn:V; auto. destruct (sget (t_svcs TG) ou su) as [[oc sc]|] eqn:EG; auto.
        assert (HI : In (ou, oc, su, sc) (rev ls)) by (apply in_rev; rewrite rev_involutive; apply Hs; auto).
        apply in_sget in HI; auto. congruence.
    + intros c H. apply memb_in in H. apply in_rev in H. apply in_map_iff in H as ([u c'] & <- & HI).
      apply Ho in HI as [HI _]. cbn. eapply (g_used_o _ G); eauto.
    + intros c H. apply memb_in in H. apply in_rev in H. apply in_map_iff in H as ([[[a b] k] d] & <- & HI).
      apply Hs in HI as [HI _]. cbn. eapply (g_used_s _ G); eauto.
  - rewrite ET. cbn [t_svcs]. intros a b k d HI. now apply in_sget.
  - rewrite forallb_app. apply andb_true_iff. split; apply forallb_forall; intros ev HI;
      apply in_map_iff in HI as (x & <- & _); [reflexivity|now destruct x as [[[? ?] ?] ?]].
  - rewrite forallb_app. apply andb_true_iff. split; apply forallb_forall; intros ev HI;
      apply in_map_iff in HI as (x & <- & HI).
    + destruct x as [u c]. apply Ho in HI as [_ V]. exact V.
    + destruct x as [[[a b] k] d]. apply Hs in HI as [_ V]. exact V.
Qed.

(* ------------------------------------------------------------------ snapshot, then stream *)
Lemma delivered_ok : forall fs pre hist cur,
  bus_wf (pre ++ hist) -> snapshot_of fs (trun t_empty pre) cur ->
  deliverable (delivered fs cur hist) /\
  gwf (trun t_empty (pre ++ hist)) /\
  R fs (trun t_empty (pre ++ hist)) (trun t_empty (delivered fs cur hist)) /\
  forallb is_creation cur = true /\ deliverable cur /\ R fs (trun t_empty pre) (trun t_empty cur).
Proof.
  intros fs pre hist cur W S. unfold bus_wf in W. rewrite bus_wf_app in W.
  apply andb_true_iff in W as [W1 W2].
  pose proof (gwf_run pre t_empty gwf_empty W1) as G1.
  destruct (snapshot_ok fs _ cur G1 S) as (D1 & R1 & F1 & C1 & _).
  destruct (sync_run fs hist _ _ G1 R1 F1 W2) as (D2 & R2 & F2).
  split; [|split; [|split; [|split; [|split]]]]; auto.
  - unfold deliverable, deliverableb, delivered. rewrite deliverable_app. now rewrite D1, D2.
  - rewrite trun_app. now apply gwf_run.
  - unfold delivered. now rewrite !trun_app.
Qed.
