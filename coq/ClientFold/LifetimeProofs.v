(* ClientFold/LifetimeProofs.v — a bound Lifetime has ended exactly when its scope is not alive.

   [lt_after_current]   after the snapshot phase, at every point of the new-event stream:
                        no Panic, and has_ended() <-> the scope (u, c) is not alive at that point
   [lt_during_current]  while still reading the snapshot: no Panic, and it ends early only if the
                        snapshot shows that UUID under another cookie (so the scope is not alive)
   [lt_permanent]       once not alive, never alive again (the scope's cookie is not created after
                        the lifetime was bound)
   The hypothesis [~ In (EvObjectCreated u c) news] says the scope was not created AFTER the
   lifetime was bound; Bus.v derives it from "the id was obtained from a scope that existed"
   and the freshness of cookies. *)
From Coq Require Import List NArith Bool Lia.
Import ListNotations.
From Aldrin Require Import ClientFold.Discoverer ClientFold.DiscovererProofs ClientFold.Lifetime.
Local Open Scope N_scope.
Arguments N.eqb : simpl never.

Lemma lt_run_app : forall a b l,
  lt_run l (a ++ b) = match lt_run l a with LOk l' => lt_run l' b | LPanic s => LPanic s end.
Proof.
  induction a as [|e a IH]; intros; cbn [lt_run app]; auto.
  destruct (lt_step l e); auto.
Qed.

Lemma about_obj : forall u ev, about u ev = true ->
  (exists c, ev = EvObjectCreated u c) \/ (exists c, ev = EvObjectDestroyed u c).
Proof.
  intros u [u' c|u' c|? ? ? ?|? ? ? ?] H; cbn in H; try discriminate;
    apply N.eqb_eq in H; subst; eauto.
Qed.

(* the snapshot of a one-UUID object filter has at most one element *)
Lemma cur_shape : forall u cur,
  deliverable cur -> forallb is_creation cur = true -> forallb (about u) cur = true ->
  cur = [] \/ exists c0, cur = [EvObjectCreated u c0].
Proof.
  intros u [|ev rest] D C A; auto. right.
  cbn [forallb] in C, A. apply andb_true_iff in C as [C1 C2]. apply andb_true_iff in A as [A1 A2].
  destruct (about_obj _ _ A1) as [[c0 ->]|[c0 ->]]; [|discriminate].
  exists c0. f_equal. destruct rest as [|ev2 rest]; auto. exfalso.
  cbn [forallb] in C2, A2. apply andb_true_iff in C2 as [C2 _]. apply andb_true_iff in A2 as [A2 _].
  destruct (about_obj _ _ A2) as [[c1 ->]|[c1 ->]]; [|discriminate].
  unfold deliverable, deliverableb in D. cbn [deliverable_from] in D.
  apply andb_true_iff in D as [_ D]. apply andb_true_iff in D as [D _].
  apply legal_oc_inv in D as [D _]. cbn [tstep t_objs t_empty] in D.
  rewrite aget_cons, N.eqb_refl in D. discriminate.
Qed.

Section OneLifetime.
Variables u c : uuid.

Definition J (T : truth) (st : lifetime) : Prop :=
  lt_u st = u /\ lt_c st = c /\
  if lt_ended st then aget (t_objs T) u <> Some c
  else lt_found st = true /\ aget (t_objs T) u = Some c.

Lemma J_step : forall T st ev,
  J T st -> legalb T ev = true -> about u ev = true -> ev <> EvObjectCreated u c ->
  exists st', lt_step st (LEvent ev) = LOk st' /\ J (tstep T ev) st'.
Proof.
  intros T st ev (Ju & Jc & JJ) L A NE.
  destruct (about_obj _ _ A) as [[c' ->]|[c' ->]].
  - apply legal_oc_inv in L as [L _]. unfold lt_step.
    destruct (lt_ended st) eqn:EE.
    + exists st. split; auto. repeat split; auto. rewrite EE.
      cbn [tstep t_objs]. rewrite aget_cons, N.eqb_refl. congruence.
    + destruct JJ as [_ JJ]. congruence.
  - apply legal_od_inv in L as [L _]. unfold lt_step.
    destruct (lt_ended st) eqn:EE.
    + exists st. split; auto. repeat split; auto. rewrite EE.
      cbn [tstep t_objs]. rewrite aget_adel, N.eqb_refl. discriminate.
    + rewrite Ju, N.eqb_refl. cbn [negb]. exists (lt_end st). split; auto.
      repeat split; auto. cbn [lt_end lt_ended tstep t_objs]. rewrite aget_adel, N.eqb_refl. discriminate.
Qed.

Lemma J_run : forall n T st,
  J T st -> deliverable_from T n = true -> forallb (about u) n = true ->
  ~ In (EvObjectCreated u c) n ->
  exists st', lt_run st (map LEvent n) = LOk st' /\ J (trun T n) st'.
Proof.
  induction n as [|ev n IH]; intros T st HJ D A NI.
  - exists st. split; auto.
  - cbn [deliverable_from] in D. apply andb_true_iff in D as [L D].
    cbn [forallb] in A. apply andb_true_iff in A as [A1 A2].
    assert (NE : ev <> EvObjectCreated u c) by (intro; subst; apply NI; now left).
    assert (NI' : ~ In (EvObjectCreated u c) n) by (intro; apply NI; now right).
    destruct (J_step T st ev HJ L A1 NE) as (st1 & E1 & J1).
    destruct (IH _ _ J1 D A2 NI') as (st2 & E2 & J2).
    exists st2. split; auto. cbn [map lt_run]. now rewrite E1.
Qed.

Lemma J_ended_iff : forall T st, J T st -> (lt_ended st = true <-> aget (t_objs T) u <> Some c).
Proof.
  intros T st (_ & _ & JJ). destruct (lt_ended st); split; auto.
  - intro H. discriminate H.
  - intro H. destruct JJ as [_ JJ]. contradiction.
Qed.

(* the state right after Started, the snapshot and CurrentFinished *)
Lemma J_after_current : forall cur,
  deliverable cur -> forallb is_creation cur = true -> forallb (about u) cur = true ->
  exists st, lt_run (lt_new u c) (LStarted :: map LEvent cur ++ [LCurrentFinished]) = LOk st /\
             J (trun t_empty cur) st.
Proof.
  intros cur D C A. destruct (cur_shape u cur D C A) as [->|[c0 ->]].
  - eexists. split; [reflexivity|]. repeat split; auto. cbn. discriminate.
  - cbn [map app lt_run lt_step lt_new lt_ended lt_u lt_c]. rewrite N.eqb_refl. cbn [negb].
    eqb_case c0 c.
    + subst c0. eexists. split; [reflexivity|]. repeat split; auto.
      cbn [trun fold_left tstep t_objs t_empty lt_ended]. now rewrite aget_cons, N.eqb_refl.
    + eexists. split; [reflexivity|]. repeat split; auto.
      cbn [trun fold_left tstep t_objs t_empty lt_ended lt_end]. rewrite aget_cons, N.eqb_refl. congruence.
Qed.

Lemma lt_after_current' : forall cur n1 n2,
  lt_deliverable u cur (n1 ++ n2) -> ~ In (EvObjectCreated u c) (n1 ++ n2) ->
  exists st,
    lt_run (lt_new u c) (LStarted :: map LEvent cur ++ LCurrentFinished :: map LEvent n1) = LOk st /\
    (lt_ended st = true <-> aget (t_objs (trun t_empty (cur ++ n1))) u <> Some c).
Proof.
  intros cur n1 n2 (D & C & A) NI.
  unfold deliverable, deliverableb in D.
  rewrite deliverable_app in D. apply andb_true_iff in D as [D1 D2].
  rewrite deliverable_app in D2. apply andb_true_iff in D2 as [D2 _].
  rewrite forallb_app in A. apply andb_true_iff in A as [A1 A2].
  rewrite forallb_app in A2. apply andb_true_iff in A2 as [A2 _].
  destruct (J_after_current cur D1 C A1) as (st0 & E0 & J0).
  assert (NI1 : ~ In (EvObjectCreated u c) n1) by (intro; apply NI; apply in_or_app; now left).
  destruct (J_run n1 _ _ J0 D2 A2 NI1) as (st1 & E1 & J1).
  exists st1. split.
  - replace (LStarted :: map LEvent cur ++ LCurrentFinished :: map LEvent n1)
      with ((LStarted :: map LEvent cur ++ [LCurrentFinished]) ++ map LEvent n1)
      by (cbn [app]; now rewrite <- app_assoc).
    now rewrite lt_run_app, E0.
  - rewrite trun_app. now apply J_ended_iff.
Qed.

Lemma lt_during_current' : forall cur c1 c2 news,
  cur = c1 ++ c2 -> lt_deliverable u cur news ->
  exists st, lt_run (lt_new u c) (LStarted :: map LEvent c1) = LOk st /\
             (lt_ended st = true -> aget (t_objs (trun t_empty cur)) u <> Some c).
Proof.
  intros cur c1 c2 news E (D & C & A).
  unfold deliverable, deliverableb in D.
  rewrite deliverable_app in D. apply andb_true_iff in D as [D1 _].
  rewrite forallb_app in A. apply andb_true_iff in A as [A1 _].
  destruct (cur_shape u cur D1 C A1) as [->|[c0 ->]].
  - destruct c1; [|discriminate]. eexists. split; [reflexivity|]. discriminate.
  - destruct c1 as [|x c1].
    + eexists. split; [reflexivity|]. discriminate.
    + injection E as <- E. destruct c1; [|discriminate].
      cbn [map lt_run lt_step lt_new lt_ended lt_u lt_c]. rewrite N.eqb_refl. cbn [negb].
      eqb_case c0 c.
      * eexists. split; [reflexivity|]. discriminate.
      * eexists. split; [reflexivity|]. intros _.
        cbn [trun fold_left tstep t_objs t_empty]. rewrite aget_cons, N.eqb_refl. congruence.
Qed.

(* a scope that is not alive stays not alive, as long as its cookie is not created (again) *)
Lemma lt_permanent' : forall n T,
  deliverable_from T n = true -> ~ In (EvObjectCreated u c) n ->
  aget (t_objs T) u <> Some c -> aget (t_objs (trun T n)) u <> Some c.
Proof.
  induction n as [|ev n IH]; intros T D NI H; auto.
  cbn [deliverable_from] in D. apply andb_true_iff in D as [L D].
  cbn [trun fold_left]. apply IH; auto; [intro; apply NI; now right|].
  destruct ev as [u0 c0|u0 c0|? ? ? ?|? ? ? ?]; auto; cbn [tstep t_objs].
  - rewrite aget_cons. eqb_case u0 u; auto. subst u0. intros [= ->]. apply NI. now left.
  - rewrite aget_adel. eqb_case u0 u; auto. discriminate.
Qed.
End OneLifetime.
