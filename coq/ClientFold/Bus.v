(* ClientFold/Bus.v — the bus as a whole, and what one listener gets of it (model only; proofs in
   BusProofs.v).

   [bus_wf h]: a history of ALL creations/destructions on the bus, as the broker's registry allows
   them (DESIGN C03/C10): an object UUID exists at most once at a time and every cookie is fresh;
   a service is created only on an existing object (so an object is created before its services)
   in a free (object, service-UUID) slot with a fresh cookie; a service is destroyed only if
   alive; an object is destroyed only if alive and after all of its services.

   A listener with filter set [fs] that is started after the history [pre] and stays started
   during [hist] is handed [delivered fs cur hist]: a snapshot [cur] of the matching objects and
   then the matching services that exist after [pre] (each once, in any order:
   Broker::start_bus_listener), followed by the matching events of [hist] in order. *)
From Coq Require Import List NArith Bool.
Import ListNotations.
From Aldrin Require Import ClientFold.Discoverer.
Local Open Scope N_scope.

Definition bus_legalb (T : truth) (ev : bus_event) : bool :=
  match ev with
  | EvObjectCreated u c => negb (is_some (aget (t_objs T) u)) && negb (memb c (t_used_o T))
  | EvObjectDestroyed u c =>
      opt_eqb (aget (t_objs T) u) (Some c) && forallb (fun x => negb (N.eqb (svc_ou x) u)) (t_svcs T)
  | EvServiceCreated ou oc su sc =>
      opt_eqb (aget (t_objs T) ou) (Some oc)
      && negb (is_some (sget (t_svcs T) ou su))
      && negb (memb sc (t_used_s T))
  | EvServiceDestroyed ou oc su sc => pair_eqb (sget (t_svcs T) ou su) oc sc
  end.

Fixpoint bus_wf_from (T : truth) (l : list bus_event) : bool :=
  match l with
  | [] => true
  | ev :: l' => bus_legalb T ev && bus_wf_from (tstep T ev) l'
  end.
Definition bus_wf (l : list bus_event) : Prop := bus_wf_from t_empty l = true.

(* does the filter set let events of this object / this service through?
   (BusListenerFilter::matches_event depends on the UUIDs only) *)
Definition vis_o (fs : list bfilter) (u : uuid) : bool := existsb (fun f => matches_object f u) fs.
Definition vis_s (fs : list bfilter) (ou su : uuid) : bool := existsb (fun f => matches_service f ou su) fs.

Definition ev_oc (p : uuid * uuid) : bus_event := EvObjectCreated (fst p) (snd p).
Definition ev_sc (x : uuid * uuid * uuid * uuid) : bus_event :=
  match x with (ou, oc, su, sc) => EvServiceCreated ou oc su sc end.

(* the current-entities phase of a start: every matching object that exists, then every matching
   service that exists, each exactly once, in any order *)
Definition snapshot_of (fs : list bfilter) (T : truth) (cur : list bus_event) : Prop :=
  exists lo ls,
    cur = map ev_oc lo ++ map ev_sc ls /\ NoDup lo /\ NoDup ls /\
    (forall u c, In (u, c) lo <-> aget (t_objs T) u = Some c /\ vis_o fs u = true) /\
    (forall ou oc su sc, In (ou, oc, su, sc) ls <->
       sget (t_svcs T) ou su = Some (oc, sc) /\ vis_s fs ou su = true).

Definition delivered (fs : list bfilter) (cur hist : list bus_event) : list bus_event :=
  cur ++ filter (matches_filters fs) hist.

(* the listener's filters include the entry's own (Discoverer::new adds them all) *)
Definition covers (fs : list bfilter) (sp : espec) : Prop :=
  incl (entry_filters (entry_new sp)) fs.

(* the property's words on the whole bus: the object exists, matches the entry and carries every
   required service (under its own, current, cookie) *)
Definition bus_matchingb (T : truth) (sp : espec) (u c : uuid) : bool :=
  opt_eqb (aget (t_objs T) u) (Some c) && opt_matches (sp_obj sp) u && req_ok T u c (sp_req sp).

Definition bus_delta (T : truth) (ev : bus_event) (sp : espec) : option devent :=
  let (u, c) := ev_obj ev in
  match bus_matchingb T sp u c, bus_matchingb (tstep T ev) sp u c with
  | false, true => Some (mkDev (sp_key sp) Created u c)
  | true, false => Some (mkDev (sp_key sp) Destroyed u c)
  | _, _ => None
  end.

Fixpoint bus_transitions (T : truth) (l : list bus_event) (sp : espec) : list devent :=
  match l with
  | [] => []
  | ev :: l' => olist (bus_delta T ev sp) ++ bus_transitions (tstep T ev) l' sp
  end.
