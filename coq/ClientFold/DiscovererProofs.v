(* ClientFold/DiscovererProofs.v — the discovery folds agree with what exists on the bus.

   Structural induction over the event list with the invariant [Inv sp T e]: the entry state [e]
   is the image of the truth [T] (= [trun t_empty] of the events folded so far).  Main results:
     entry_run_ok      no Panic, emitted events = [transitions], invariant at the end
     inv_view / inv_object_id / inv_service_id   the entry's answers are the truth's
     delta_frame       [delta] is the only change of the entry's set at a step
     reset_new         restart = fresh start
     find_*            find_object / wait_for_object *)
From Coq Require Import List NArith Bool Lia.
Import ListNotations.
From Aldrin Require Import ClientFold.Discoverer.
Local Open Scope N_scope.
Arguments N.eqb : simpl never.

(* ------------------------------------------------------------------ small tools *)
Lemma eqb_refl' : forall x, N.eqb x x = true.
Proof. intro; apply N.eqb_refl. Qed.

Ltac eqb_case a b :=
  let H := fresh "E" in
  destruct (N.eqb a b) eqn:H; [apply N.eqb_eq in H | apply N.eqb_neq in H].

Lemma eqb_sym' : forall a b, N.eqb a b = N.eqb b a.
Proof. intros; apply N.eqb_sym. Qed.

Lemma opt_eqb_true : forall a b, opt_eqb a b = true <-> a = b.
Proof.
  intros [x|] [y|]; cbn; split; intro H; try discriminate; try reflexivity.
  - apply N.eqb_eq in H; now subst.
  - injection H as ->; apply N.eqb_refl.
Qed.

(* ------------------------------------------------------------------ association lists *)
Section AList.
Context {V : Type}.
Implicit Types m : list (uuid * V).

Lemma adel_cons : forall m a (v : V) k,
  adel ((a, v) :: m) k = if N.eqb a k then adel m k else (a, v) :: adel m k.
Proof. intros. unfold adel. cbn. now destruct (N.eqb a k). Qed.

Lemma aupd_cons : forall m a (w v : V) k,
  aupd ((a, w) :: m) k v = (if N.eqb a k then (a, v) else (a, w)) :: aupd m k v.
Proof. reflexivity. Qed.

Lemma aget_cons : forall m a (v : V) k, aget ((a, v) :: m) k = if N.eqb a k then Some v else aget m k.
Proof. reflexivity. Qed.

Lemma aget_adel : forall m k k', aget (adel m k) k' = if N.eqb k k' then None else aget m k'.
Proof.
  induction m as [|[a v] m IH]; intros k k'.
  - cbn. now destruct (N.eqb k k').
  - rewrite adel_cons, aget_cons. eqb_case a k.
    + subst. rewrite IH. eqb_case k k'; auto.
    + rewrite aget_cons, IH. eqb_case a k'; auto. subst.
      eqb_case k k'; auto. congruence.
Qed.

Lemma aget_aset : forall m k v k', aget (aset m k v) k' = if N.eqb k k' then Some v else aget m k'.
Proof.
  intros. unfold aset. rewrite aget_cons, aget_adel. now destruct (N.eqb k k').
Qed.

Lemma aget_aupd : forall m k v k',
  aget (aupd m k v) k' = if N.eqb k k' then (if is_some (aget m k) then Some v else None) else aget m k'.
Proof.
  induction m as [|[a w] m IH]; intros k v k'.
  - cbn. now destruct (N.eqb k k').
  - rewrite aupd_cons, !aget_cons. eqb_case a k.
    + subst. rewrite aget_cons, IH. cbn [is_some]. eqb_case k k'; auto.
    + rewrite aget_cons, IH. eqb_case a k'; auto. subst. eqb_case k k'; congruence.
Qed.

Lemma keys_aupd : forall m k v, map fst (aupd m k v) = map fst m.
Proof.
  induction m as [|[a w] m IH]; intros; auto.
  rewrite aupd_cons. cbn [map]. rewrite IH. now destruct (N.eqb a k).
Qed.

Lemma aget_in : forall m k v, aget m k = Some v -> In (k, v) m.
Proof.
  induction m as [|[a w] m IH]; intros k v; cbn; try discriminate.
  eqb_case a k.
  - intros [= ->]. subst. now left.
  - intro H; right; auto.
Qed.

Lemma in_aget : forall m k v, NoDup (map fst m) -> In (k, v) m -> aget m k = Some v.
Proof.
  induction m as [|[a w] m IH]; intros k v ND; cbn; [tauto|].
  inversion ND as [|? ? NI ND']; subst.
  intros [[= -> ->]|HI].
  - now rewrite N.eqb_refl.
  - eqb_case a k; [|auto]. subst. exfalso. apply NI.
    change k with (fst (k, v)). now apply in_map.
Qed.

Lemma aget_none_notin : forall m k, aget m k = None -> ~ In k (map fst m).
Proof.
  induction m as [|[a w] m IH]; intros k; cbn; [tauto|].
  eqb_case a k; [discriminate|]. intros H [?|?]; [congruence|]. eapply IH; eauto.
Qed.

Lemma notin_aget_none : forall m k, ~ In k (map fst m) -> aget m k = None.
Proof.
  intros m k H. destruct (aget m k) eqn:E; auto.
  exfalso. apply H. apply aget_in in E. change k with (fst (k, v)). now apply in_map.
Qed.

Lemma keys_adel_sub : forall m k x, In x (map fst (adel m k)) -> In x (map fst m) /\ x <> k.
Proof.
  intros m k x H. apply in_map_iff in H as [[a v] [<- H]]. unfold adel in H.
  apply filter_In in H as [H1 H2]. cbn in *. split.
  - change a with (fst (a, v)). now apply in_map.
  - apply negb_true_iff in H2. now apply N.eqb_neq in H2.
Qed.

Lemma nodup_adel : forall m k, NoDup (map fst m) -> NoDup (map fst (adel m k)).
Proof.
  induction m as [|[a w] m IH]; intros k ND; [constructor|].
  rewrite adel_cons. cbn [map fst] in ND. inversion ND; subst. eqb_case a k; auto.
  cbn [map fst]. constructor; auto. intro HI. apply keys_adel_sub in HI as [HI _]. auto.
Qed.

Lemma nodup_aset : forall m k v, NoDup (map fst m) -> NoDup (map fst (aset m k v)).
Proof.
  intros. unfold aset. cbn. constructor.
  - intro HI. apply keys_adel_sub in HI as [_ HI]. congruence.
  - now apply nodup_adel.
Qed.

Lemma forallb_amap : forall (P : uuid * V -> bool) m, NoDup (map fst m) ->
  (forallb P m = true <-> forall k v, aget m k = Some v -> P (k, v) = true).
Proof.
  intros P m ND. rewrite forallb_forall. split.
  - intros H k v E. apply H. now apply aget_in.
  - intros H [k v] HI. apply H. now apply in_aget.
Qed.

Lemma aget_map_const : forall (l : list uuid) (v : V) k,
  aget (map (fun s => (s, v)) l) k = if existsb (N.eqb k) l then Some v else None.
Proof.
  induction l as [|a l IH]; intros; cbn; auto.
  rewrite (eqb_sym' k a). eqb_case a k; cbn; auto.
Qed.
End AList.

Lemma aget_some_key : forall {V} (m : list (uuid * V)) k v, aget m k = Some v -> In k (map fst m).
Proof.
  intros V m k v H. apply aget_in in H. change k with (fst (k, v)). now apply in_map.
Qed.

Lemma key_aget_some : forall {V} (m : list (uuid * V)) k, In k (map fst m) -> exists v, aget m k = Some v.
Proof.
  intros V m k H. destruct (aget m k) eqn:E; eauto.
  exfalso. eapply aget_none_notin; eauto.
Qed.

(* ------------------------------------------------------------------ dedup *)
Lemma existsb_eqb_in : forall x l, existsb (N.eqb x) l = true <-> In x l.
Proof.
  intros. rewrite existsb_exists. split.
  - intros [y [H1 H2]]. apply N.eqb_eq in H2. now subst.
  - intro H. exists x. split; auto. apply N.eqb_refl.
Qed.

Lemma dedup_in : forall l x, In x (dedup l) <-> In x l.
Proof.
  induction l as [|a l IH]; intros x; cbn; [tauto|].
  destruct (existsb (N.eqb a) l) eqn:E.
  - rewrite IH. apply existsb_eqb_in in E. split; [tauto|]. intros [<-|?]; auto.
  - cbn. rewrite IH. tauto.
Qed.

Lemma dedup_nodup : forall l, NoDup (dedup l).
Proof.
  induction l as [|a l IH]; cbn; [constructor|].
  destruct (existsb (N.eqb a) l) eqn:E; auto.
  constructor; auto. rewrite dedup_in. intro H. apply existsb_eqb_in in H. congruence.
Qed.

(* ------------------------------------------------------------------ the service list of the truth *)
Lemma sget_cons : forall l ou oc su sc ou' su',
  sget ((ou, oc, su, sc) :: l) ou' su' =
  if N.eqb ou ou' && N.eqb su su' then Some (oc, sc) else sget l ou' su'.
Proof. reflexivity. Qed.

Lemma sget_sdel : forall l ou su ou' su',
  sget (sdel l ou su) ou' su' = if N.eqb ou ou' && N.eqb su su' then None else sget l ou' su'.
Proof.
  induction l as [|[[[a b] c] d] l IH]; intros; cbn.
  - now destruct (N.eqb ou ou' && N.eqb su su').
  - destruct (N.eqb a ou && N.eqb c su) eqn:E1; cbn.
    + rewrite IH. apply andb_true_iff in E1 as [E1 E2]. apply N.eqb_eq in E1, E2. subst.
      now destruct (N.eqb ou ou' && N.eqb su su').
    + rewrite IH. destruct (N.eqb a ou' && N.eqb c su') eqn:E2; auto.
      apply andb_true_iff in E2 as [E2 E3]. apply N.eqb_eq in E2, E3. subst.
      destruct (N.eqb ou ou' && N.eqb su su') eqn:E4; auto.
      apply andb_true_iff in E4 as [E4 E5]. apply N.eqb_eq in E4, E5. subst.
      rewrite !N.eqb_refl in E1. discriminate.
Qed.

Lemma sget_in : forall l ou su oc sc, sget l ou su = Some (oc, sc) -> In (ou, oc, su, sc) l.
Proof.
  induction l as [|[[[a b] c] d] l IH]; intros ou su oc sc; cbn; try discriminate.
  destruct (N.eqb a ou && N.eqb c su) eqn:E.
  - intros [= -> ->]. apply andb_true_iff in E as [E1 E2]. apply N.eqb_eq in E1, E2. subst. now left.
  - intro H. right. auto.
Qed.

(* ------------------------------------------------------------------ well-formed truth *)
(* all alive services of one object UUID carry the same object cookie *)
Definition twf (T : truth) : Prop :=
  forall ou su su' oc sc oc' sc',
    sget (t_svcs T) ou su = Some (oc, sc) -> sget (t_svcs T) ou su' = Some (oc', sc') -> oc = oc'.

Lemma twf_empty : twf t_empty.
Proof. intros ? ? ? ? ? ? ? H. discriminate. Qed.

Lemma legal_sc_inv : forall T ou oc su sc,
  legalb T (EvServiceCreated ou oc su sc) = true ->
  sget (t_svcs T) ou su = None /\
  (forall su' oc' sc', sget (t_svcs T) ou su' = Some (oc', sc') -> oc' = oc) /\
  memb sc (t_used_s T) = false.
Proof.
  intros T ou oc su sc H. cbn in H.
  apply andb_true_iff in H as [H H3]. apply andb_true_iff in H as [H1 H2].
  split; [|split].
  - destruct (sget (t_svcs T) ou su); auto. discriminate.
  - intros su' oc' sc' E. apply sget_in in E. rewrite forallb_forall in H2.
    specialize (H2 _ E). cbn in H2. rewrite N.eqb_refl in H2. now apply N.eqb_eq in H2.
  - now apply negb_true_iff in H3.
Qed.

Lemma legal_sd_inv : forall T ou oc su sc,
  legalb T (EvServiceDestroyed ou oc su sc) = true -> sget (t_svcs T) ou su = Some (oc, sc).
Proof.
  intros T ou oc su sc H. cbn in H. destruct (sget (t_svcs T) ou su) as [[x y]|]; [|discriminate].
  cbn in H. apply andb_true_iff in H as [H1 H2]. apply N.eqb_eq in H1, H2. now subst.
Qed.

Lemma legal_oc_inv : forall T u c,
  legalb T (EvObjectCreated u c) = true -> aget (t_objs T) u = None /\ memb c (t_used_o T) = false.
Proof.
  intros T u c H. cbn in H. apply andb_true_iff in H as [H1 H2]. split.
  - destruct (aget (t_objs T) u); auto. discriminate.
  - now apply negb_true_iff in H2.
Qed.

Lemma legal_od_inv : forall T u c,
  legalb T (EvObjectDestroyed u c) = true ->
  aget (t_objs T) u = Some c /\ forall s, sget (t_svcs T) u s = None.
Proof.
  intros T u c H. cbn in H. apply andb_true_iff in H as [H1 H2]. split.
  - now apply opt_eqb_true in H1.
  - intro s. destruct (sget (t_svcs T) u s) as [[oc sc]|] eqn:E; auto.
    apply sget_in in E. rewrite forallb_forall in H2. specialize (H2 _ E). cbn in H2.
    rewrite N.eqb_refl in H2. discriminate.
Qed.

Lemma twf_step : forall T ev, twf T -> legalb T ev = true -> twf (tstep T ev).
Proof.
  intros T ev W L. destruct ev as [u c|u c|ou oc su sc|ou oc su sc]; try exact W.
  - apply legal_sc_inv in L as [L1 [L2 _]].
    intros ou' s1 s2 c1 k1 c2 k2. cbn [tstep t_svcs]. rewrite !sget_cons.
    destruct (N.eqb ou ou' && N.eqb su s1) eqn:E1; destruct (N.eqb ou ou' && N.eqb su s2) eqn:E2.
    + intros [= <- <-] [= <- <-]. reflexivity.
    + intros [= <- <-] H. apply andb_true_iff in E1 as [E1 _]. apply N.eqb_eq in E1. subst.
      symmetry. eapply L2; eauto.
    + intros H [= <- <-]. apply andb_true_iff in E2 as [E2 _]. apply N.eqb_eq in E2. subst.
      eapply L2; eauto.
    + apply W.
  - intros ou' s1 s2 c1 k1 c2 k2. cbn [tstep t_svcs]. rewrite !sget_sdel.
    destruct (N.eqb ou ou' && N.eqb su s1); [discriminate|].
    destruct (N.eqb ou ou' && N.eqb su s2); [discriminate|]. apply W.
Qed.

Lemma twf_run : forall l T, twf T -> deliverable_from T l = true -> twf (trun T l).
Proof.
  induction l as [|ev l IH]; intros T W D; cbn in *; auto.
  apply andb_true_iff in D as [D1 D2]. apply IH; auto. now apply twf_step.
Qed.

Lemma trun_app : forall l1 l2 T, trun T (l1 ++ l2) = trun (trun T l1) l2.
Proof. intros. unfold trun. apply fold_left_app. Qed.

Lemma deliverable_app : forall l1 l2 T,
  deliverable_from T (l1 ++ l2) = deliverable_from T l1 && deliverable_from (trun T l1) l2.
Proof.
  induction l1 as [|ev l1 IH]; intros; cbn; auto.
  rewrite IH. now rewrite andb_assoc.
Qed.
