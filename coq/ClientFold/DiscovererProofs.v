(* ClientFold/DiscovererProofs.v — the discovery folds agree with what exists on the bus.

   Structural induction over the event list with the invariant [Inv sp T e]: the entry state [e]
   is the image of the truth [T] (= [trun t_empty] of the events folded so far).  Main results:
     entry_run_ok      no Panic, emitted events = [transitions], invariant at the end
     inv_view / inv_object_id / inv_service_id   the entry's answers are the truth's
     delta_frame       [delta] is the only change of the entry's set at a step
     reset_new         restart = fresh start
     find_*            find_object / wait_for_object *)
From Coq Require Import List NArith Bool Lia.
Import ListNotations.
From Aldrin Require Import ClientFold.Discoverer.
Local Open Scope N_scope.
Arguments N.eqb : simpl never.

(* ------------------------------------------------------------------ small tools *)
Lemma eqb_refl' : forall x, N.eqb x x = true.
Proof. intro; apply N.eqb_refl. Qed.

Ltac eqb_case a b :=
  let H := fresh "E" in
  destruct (N.eqb a b) eqn:H; [apply N.eqb_eq in H | apply N.eqb_neq in H].

Lemma eqb_sym' : forall a b, N.eqb a b = N.eqb b a.
Proof. intros; apply N.eqb_sym. Qed.

Lemma opt_eqb_true : forall a b, opt_eqb a b = true <-> a = b.
Proof.
  intros [x|] [y|]; cbn; split; intro H; try discriminate; try reflexivity.
  - apply N.eqb_eq in H; now subst.
  - injection H as ->; apply N.eqb_refl.
Qed.

(* ------------------------------------------------------------------ association lists *)
Section AList.
Context {V : Type}.
Implicit Types m : list (uuid * V).

Lemma adel_cons : forall m a (v : V) k,
  adel ((a, v) :: m) k = if N.eqb a k then adel m k else (a, v) :: adel m k.
Proof. intros. unfold adel. cbn. now destruct (N.eqb a k). Qed.

Lemma aupd_cons : forall m a (w v : V) k,
  aupd ((a, w) :: m) k v = (if N.eqb a k then (a, v) else (a, w)) :: aupd m k v.
Proof. reflexivity. Qed.

Lemma aget_cons : forall m a (v : V) k, aget ((a, v) :: m) k = if N.eqb a k then Some v else aget m k.
Proof. reflexivity. Qed.

Lemma aget_adel : forall m k k', aget (adel m k) k' = if N.eqb k k' then None else aget m k'.
Proof.
  induction m as [|[a v] m IH]; intros k k'.
  - cbn. now destruct (N.eqb k k').
  - rewrite adel_cons, aget_cons. eqb_case a k.
    + subst. rewrite IH. eqb_case k k'; auto.
    + rewrite aget_cons, IH. eqb_case a k'; auto. subst.
      eqb_case k k'; auto. congruence.
Qed.

Lemma aget_aset : forall m k v k', aget (aset m k v) k' = if N.eqb k k' then Some v else aget m k'.
Proof.
  intros. unfold aset. rewrite aget_cons, aget_adel. now destruct (N.eqb k k').
Qed.

Lemma aget_aupd : forall m k v k',
  aget (aupd m k v) k' = if N.eqb k k' then (if is_some (aget m k) then Some v else None) else aget m k'.
Proof.
  induction m as [|[a w] m IH]; intros k v k'.
  - cbn. now destruct (N.eqb k k').
  - rewrite aupd_cons, !aget_cons. eqb_case a k.
    + subst. rewrite aget_cons, IH. cbn [is_some]. eqb_case k k'; auto.
    + rewrite aget_cons, IH. eqb_case a k'; auto. subst. eqb_case k k'; congruence.
Qed.

Lemma keys_aupd : forall m k v, map fst (aupd m k v) = map fst m.
Proof.
  induction m as [|[a w] m IH]; intros; auto.
  rewrite aupd_cons. cbn [map]. rewrite IH. now destruct (N.eqb a k).
Qed.

Lemma aget_in : forall m k v, aget m k = Some v -> In (k, v) m.
Proof.
  induction m as [|[a w] m IH]; intros k v; cbn; try discriminate.
  eqb_case a k.
  - intros [= ->]. subst. now left.
  - intro H; right; auto.
Qed.

Lemma in_aget : forall m k v, NoDup (map fst m) -> In (k, v) m -> aget m k = Some v.
Proof.
  induction m as [|[a w] m IH]; intros k v ND; cbn; [tauto|].
  inversion ND as [|? ? NI ND']; subst.
  intros [[= -> ->]|HI].
  - now rewrite N.eqb_refl.
  - eqb_case a k; [|auto]. subst. exfalso. apply NI.
    change k with (fst (k, v)). now apply in_map.
Qed.

Lemma aget_none_notin : forall m k, aget m k = None -> ~ In k (map fst m).
Proof.
  induction m as [|[a w] m IH]; intros k; cbn; [tauto|].
  eqb_case a k; [discriminate|]. intros H [?|?]; [congruence|]. eapply IH; eauto.
Qed.

Lemma notin_aget_none : forall m k, ~ In k (map fst m) -> aget m k = None.
Proof.
  intros m k H. destruct (aget m k) eqn:E; auto.
  exfalso. apply H. apply aget_in in E. change k with (fst (k, v)). now apply in_map.
Qed.

Lemma keys_adel_sub : forall m k x, In x (map fst (adel m k)) -> In x (map fst m) /\ x <> k.
Proof.
  intros m k x H. apply in_map_iff in H as [[a v] [<- H]]. unfold adel in H.
  apply filter_In in H as [H1 H2]. cbn in *. split.
  - change a with (fst (a, v)). now apply in_map.
  - apply negb_true_iff in H2. now apply N.eqb_neq in H2.
Qed.

Lemma nodup_adel : forall m k, NoDup (map fst m) -> NoDup (map fst (adel m k)).
Proof.
  induction m as [|[a w] m IH]; intros k ND; [constructor|].
  rewrite adel_cons. cbn [map fst] in ND. inversion ND; subst. eqb_case a k; auto.
  cbn [map fst]. constructor; auto. intro HI. apply keys_adel_sub in HI as [HI _]. auto.
Qed.

Lemma nodup_aset : forall m k v, NoDup (map fst m) -> NoDup (map fst (aset m k v)).
Proof.
  intros. unfold aset. cbn. constructor.
  - intro HI. apply keys_adel_sub in HI as [_ HI]. congruence.
  - now apply nodup_adel.
Qed.

Lemma forallb_amap : forall (P : uuid * V -> bool) m, NoDup (map fst m) ->
  (forallb P m = true <-> forall k v, aget m k = Some v -> P (k, v) = true).
Proof.
  intros P m ND. rewrite forallb_forall. split.
  - intros H k v E. apply H. now apply aget_in.
  - intros H [k v] HI. apply H. now apply in_aget.
Qed.

Lemma aget_map_const : forall (l : list uuid) (v : V) k,
  aget (map (fun s => (s, v)) l) k = if existsb (N.eqb k) l then Some v else None.
Proof.
  induction l as [|a l IH]; intros; cbn; auto.
  rewrite (eqb_sym' k a). eqb_case a k; cbn; auto.
Qed.
End AList.

Lemma aget_some_key : forall {V} (m : list (uuid * V)) k v, aget m k = Some v -> In k (map fst m).
Proof.
  intros V m k v H. apply aget_in in H. change k with (fst (k, v)). now apply in_map.
Qed.

Lemma key_aget_some : forall {V} (m : list (uuid * V)) k, In k (map fst m) -> exists v, aget m k = Some v.
Proof.
  intros V m k H. destruct (aget m k) eqn:E; eauto.
  exfalso. eapply aget_none_notin; eauto.
Qed.

(* ------------------------------------------------------------------ dedup *)
Lemma existsb_eqb_in : forall x l, existsb (N.eqb x) l = true <-> In x l.
Proof.
  intros. rewrite existsb_exists. split.
  - intros [y [H1 H2]]. apply N.eqb_eq in H2. now subst.
  - intro H. exists x. split; auto. apply N.eqb_refl.
Qed.

Lemma dedup_in : forall l x, In x (dedup l) <-> In x l.
Proof.
  induction l as [|a l IH]; intros x; cbn; [tauto|].
  destruct (existsb (N.eqb a) l) eqn:E.
  - rewrite IH. apply existsb_eqb_in in E. split; [tauto|]. intros [<-|?]; auto.
  - cbn. rewrite IH. tauto.
Qed.

Lemma dedup_nodup : forall l, NoDup (dedup l).
Proof.
  induction l as [|a l IH]; cbn; [constructor|].
  destruct (existsb (N.eqb a) l) eqn:E; auto.
  constructor; auto. rewrite dedup_in. intro H. apply existsb_eqb_in in H. congruence.
Qed.

(* ------------------------------------------------------------------ the service list of the truth *)
Lemma sget_cons : forall l ou oc su sc ou' su',
  sget ((ou, oc, su, sc) :: l) ou' su' =
  if N.eqb ou ou' && N.eqb su su' then Some (oc, sc) else sget l ou' su'.
Proof. reflexivity. Qed.

Lemma sdel_cons : forall l x ou su,
  sdel (x :: l) ou su = if svc_key_eqb x ou su then sdel l ou su else x :: sdel l ou su.
Proof. intros. unfold sdel. cbn. now destruct (svc_key_eqb x ou su). Qed.

Lemma sget_cons' : forall l x ou su,
  sget (x :: l) ou su = if svc_key_eqb x ou su
                        then match x with (_, oc, _, sc) => Some (oc, sc) end else sget l ou su.
Proof. reflexivity. Qed.

Lemma sget_sdel : forall l ou su ou' su',
  sget (sdel l ou su) ou' su' = if N.eqb ou ou' && N.eqb su su' then None else sget l ou' su'.
Proof.
  induction l as [|[[[a b] c] d] l IH]; intros.
  - cbn. now destruct (N.eqb ou ou' && N.eqb su su').
  - rewrite sdel_cons, sget_cons'. unfold svc_key_eqb.
    destruct (N.eqb a ou && N.eqb c su) eqn:E1.
    + rewrite IH. apply andb_true_iff in E1 as [E1 E2]. apply N.eqb_eq in E1, E2. subst.
      now destruct (N.eqb ou ou' && N.eqb su su').
    + rewrite sget_cons'. unfold svc_key_eqb. rewrite IH.
      destruct (N.eqb a ou' && N.eqb c su') eqn:E2; auto.
      apply andb_true_iff in E2 as [E2 E3]. apply N.eqb_eq in E2, E3. subst.
      destruct (N.eqb ou ou' && N.eqb su su') eqn:E4; auto.
      apply andb_true_iff in E4 as [E4 E5]. apply N.eqb_eq in E4, E5. subst.
      rewrite !N.eqb_refl in E1. discriminate.
Qed.

Lemma sget_in : forall l ou su oc sc, sget l ou su = Some (oc, sc) -> In (ou, oc, su, sc) l.
Proof.
  induction l as [|[[[a b] c] d] l IH]; intros ou su oc sc; cbn; try discriminate.
  destruct (N.eqb a ou && N.eqb c su) eqn:E.
  - intros [= -> ->]. apply andb_true_iff in E as [E1 E2]. apply N.eqb_eq in E1, E2. subst. now left.
  - intro H. right. auto.
Qed.

(* ------------------------------------------------------------------ well-formed truth *)
(* all alive services of one object UUID carry the same object cookie *)
Definition twf (T : truth) : Prop :=
  forall ou su su' oc sc oc' sc',
    sget (t_svcs T) ou su = Some (oc, sc) -> sget (t_svcs T) ou su' = Some (oc', sc') -> oc = oc'.

Lemma twf_empty : twf t_empty.
Proof. intros ? ? ? ? ? ? ? H. discriminate. Qed.

Lemma legal_sc_inv : forall T ou oc su sc,
  legalb T (EvServiceCreated ou oc su sc) = true ->
  sget (t_svcs T) ou su = None /\
  (forall su' oc' sc', sget (t_svcs T) ou su' = Some (oc', sc') -> oc' = oc) /\
  memb sc (t_used_s T) = false.
Proof.
  intros T ou oc su sc H. cbn in H.
  apply andb_true_iff in H as [H H3]. apply andb_true_iff in H as [H1 H2].
  split; [|split].
  - destruct (sget (t_svcs T) ou su); auto. discriminate.
  - intros su' oc' sc' E. apply sget_in in E. rewrite forallb_forall in H2.
    specialize (H2 _ E). cbn in H2. rewrite N.eqb_refl in H2. now apply N.eqb_eq in H2.
  - now apply negb_true_iff in H3.
Qed.

Lemma legal_sd_inv : forall T ou oc su sc,
  legalb T (EvServiceDestroyed ou oc su sc) = true -> sget (t_svcs T) ou su = Some (oc, sc).
Proof.
  intros T ou oc su sc H. cbn in H. destruct (sget (t_svcs T) ou su) as [[x y]|]; [|discriminate].
  cbn in H. apply andb_true_iff in H as [H1 H2]. apply N.eqb_eq in H1, H2. now subst.
Qed.

Lemma legal_oc_inv : forall T u c,
  legalb T (EvObjectCreated u c) = true -> aget (t_objs T) u = None /\ memb c (t_used_o T) = false.
Proof.
  intros T u c H. cbn in H. apply andb_true_iff in H as [H1 H2]. split.
  - destruct (aget (t_objs T) u); auto. discriminate.
  - now apply negb_true_iff in H2.
Qed.

Lemma legal_od_inv : forall T u c,
  legalb T (EvObjectDestroyed u c) = true ->
  aget (t_objs T) u = Some c /\ forall s, sget (t_svcs T) u s = None.
Proof.
  intros T u c H. cbn in H. apply andb_true_iff in H as [H1 H2]. split.
  - now apply opt_eqb_true in H1.
  - intro s. destruct (sget (t_svcs T) u s) as [[oc sc]|] eqn:E; auto.
    apply sget_in in E. rewrite forallb_forall in H2. specialize (H2 _ E). cbn in H2.
    rewrite N.eqb_refl in H2. discriminate.
Qed.

Lemma twf_step : forall T ev, twf T -> legalb T ev = true -> twf (tstep T ev).
Proof.
  intros T ev W L. destruct ev as [u c|u c|ou oc su sc|ou oc su sc]; try exact W.
  - apply legal_sc_inv in L as [L1 [L2 _]].
    intros ou' s1 s2 c1 k1 c2 k2. cbn [tstep t_svcs]. rewrite !sget_cons.
    destruct (N.eqb ou ou' && N.eqb su s1) eqn:E1; destruct (N.eqb ou ou' && N.eqb su s2) eqn:E2.
    + intros [= <- <-] [= <- <-]. reflexivity.
    + intros [= <- <-] H. apply andb_true_iff in E1 as [E1 _]. apply N.eqb_eq in E1. subst.
      symmetry. eapply L2; eauto.
    + intros H [= <- <-]. apply andb_true_iff in E2 as [E2 _]. apply N.eqb_eq in E2. subst.
      eapply L2; eauto.
    + apply W.
  - intros ou' s1 s2 c1 k1 c2 k2. cbn [tstep t_svcs]. rewrite !sget_sdel.
    destruct (N.eqb ou ou' && N.eqb su s1); [discriminate|].
    destruct (N.eqb ou ou' && N.eqb su s2); [discriminate|]. apply W.
Qed.

Lemma twf_run : forall l T, twf T -> deliverable_from T l = true -> twf (trun T l).
Proof.
  induction l as [|ev l IH]; intros T W D; cbn in *; auto.
  apply andb_true_iff in D as [D1 D2]. apply IH; auto. now apply twf_step.
Qed.

Lemma trun_app : forall l1 l2 T, trun T (l1 ++ l2) = trun (trun T l1) l2.
Proof. intros. unfold trun. apply fold_left_app. Qed.

Lemma deliverable_app : forall l1 l2 T,
  deliverable_from T (l1 ++ l2) = deliverable_from T l1 && deliverable_from (trun T l1) l2.
Proof.
  induction l1 as [|ev l1 IH]; intros; cbn; auto.
  rewrite IH. now rewrite andb_assoc.
Qed.

(* ------------------------------------------------------------------ specification side, unfolded *)
Definition mcore (T : truth) (obj : option uuid) (req : list uuid) (u c : uuid) : bool :=
  opt_matches obj u
  && match req with
     | [] => opt_eqb (aget (t_objs T) u) (Some c)
     | _ => req_ok T u c req
     end.

Definition dcore (T : truth) (ev : bus_event) (k : N) (obj : option uuid) (req : list uuid) : option devent :=
  let (u, c) := ev_obj ev in
  match mcore T obj req u c, mcore (tstep T ev) obj req u c with
  | false, true => Some (mkDev k Created u c)
  | true, false => Some (mkDev k Destroyed u c)
  | _, _ => None
  end.

Lemma matchingb_mcore : forall T sp u c, matchingb T sp u c = mcore T (sp_obj sp) (sp_req sp) u c.
Proof. intros. unfold matchingb, mcore. now destruct (sp_req sp). Qed.
Lemma delta_dcore : forall T ev sp, delta T ev sp = dcore T ev (sp_key sp) (sp_obj sp) (sp_req sp).
Proof. intros. unfold delta, dcore. destruct (ev_obj ev). now rewrite !matchingb_mcore. Qed.

Lemma req_ok_true : forall T u c req,
  req_ok T u c req = true <-> forall s, In s req -> exists sc, sget (t_svcs T) u s = Some (c, sc).
Proof.
  intros. unfold req_ok. rewrite forallb_forall. split; intros H s HI; specialize (H s HI).
  - destruct (sget (t_svcs T) u s) as [[oc sc]|]; [|discriminate].
    apply N.eqb_eq in H. subst. eauto.
  - destruct H as [sc ->]. apply N.eqb_refl.
Qed.

Lemma forallb_ext_in' : forall A (f g : A -> bool) l, (forall a, In a l -> f a = g a) -> forallb f l = forallb g l.
Proof. intros. induction l; cbn; auto. rewrite H, IHl; auto; [intros; apply H; now right | now left]. Qed.

Lemma req_ok_frame : forall T T' u c req,
  (forall s, In s req -> sget (t_svcs T') u s = sget (t_svcs T) u s) ->
  req_ok T' u c req = req_ok T u c req.
Proof.
  intros. unfold req_ok. apply forallb_ext_in'. intros s HI. now rewrite H.
Qed.

Lemma dcore_same : forall T ev k obj req,
  (let (u, c) := ev_obj ev in mcore (tstep T ev) obj req u c = mcore T obj req u c) ->
  dcore T ev k obj req = None.
Proof.
  intros T ev k obj req H. unfold dcore. destruct (ev_obj ev) as [u c]. rewrite H.
  now destruct (mcore T obj req u c).
Qed.

Lemma dcore_created : forall T ev k obj req u c,
  ev_obj ev = (u, c) -> mcore T obj req u c = false -> mcore (tstep T ev) obj req u c = true ->
  dcore T ev k obj req = Some (mkDev k Created u c).
Proof. intros T ev k obj req u c E H1 H2. unfold dcore. now rewrite E, H1, H2. Qed.

Lemma dcore_destroyed : forall T ev k obj req u c,
  ev_obj ev = (u, c) -> mcore T obj req u c = true -> mcore (tstep T ev) obj req u c = false ->
  dcore T ev k obj req = Some (mkDev k Destroyed u c).
Proof. intros T ev k obj req u c E H1 H2. unfold dcore. now rewrite E, H1, H2. Qed.

(* ------------------------------------------------------------------ the invariant *)
Definition Inv (k : N) (obj : option uuid) (req : list uuid) (T : truth) (e : entry) : Prop :=
  match obj, req with
  | None, [] =>
      exists created, e = EAny k [] created /\ NoDup (map fst created) /\
        forall u, aget created u = aget (t_objs T) u
  | None, _ :: _ =>
      exists services created, e = EAny k services created /\ map fst services = req /\
        NoDup (map fst created) /\
        (forall s m, aget services s = Some m ->
           forall ou, aget m ou = option_map snd (sget (t_svcs T) ou s)) /\
        (forall u c, aget created u = Some c <-> req_ok T u c req = true)
  | Some o, [] => e = ESpecWithout k o (aget (t_objs T) o)
  | Some o, _ :: _ =>
      exists cookie services, e = ESpecWith k o cookie services /\ map fst services = req /\
        (forall s v, aget services s = Some v -> v = option_map snd (sget (t_svcs T) o s)) /\
        (forall c, cookie = Some c <-> req_ok T o c req = true)
  end.

(* ---- kind 1: any object, no services *)
Lemma step_any0 : forall k T ev e,
  legalb T ev = true -> Inv k None [] T e ->
  exists e', entry_step e ev = Ok (e', dcore T ev k None []) /\ Inv k None [] (tstep T ev) e'.
Proof.
  intros k T ev e L (created & -> & ND & HC).
  destruct ev as [u c|u c|ou oc su sc|ou oc su sc]; cbn [entry_step].
  - apply legal_oc_inv in L as [L _].
    unfold any_object_created. rewrite HC, L. eexists; split.
    + f_equal. f_equal. symmetry. apply dcore_created with (u := u) (c := c); auto.
      * unfold mcore. cbn [opt_matches]. rewrite L. reflexivity.
      * unfold mcore. cbn [opt_matches tstep t_objs]. rewrite aget_cons, N.eqb_refl. cbn. apply N.eqb_refl.
    + exists (aset created u c). split; auto. split; [now apply nodup_aset|].
      intro u'. cbn [tstep t_objs]. rewrite aget_aset, aget_cons, HC. reflexivity.
  - apply legal_od_inv in L as [L _].
    unfold any_object_destroyed. rewrite HC, L, N.eqb_refl. eexists; split.
    + f_equal. f_equal. symmetry. apply dcore_destroyed with (u := u) (c := c); auto.
      * unfold mcore. cbn [opt_matches]. rewrite L. cbn. apply N.eqb_refl.
      * unfold mcore. cbn [opt_matches tstep t_objs]. rewrite aget_adel, N.eqb_refl. reflexivity.
    + exists (adel created u). split; auto. split; [now apply nodup_adel|].
      intro u'. cbn [tstep t_objs]. rewrite !aget_adel, HC. reflexivity.
  - unfold any_service_created. cbn [aget]. eexists; split.
    + f_equal. f_equal. symmetry. apply dcore_same. reflexivity.
    + exists created. auto.
  - unfold any_service_destroyed. cbn [aget]. eexists; split.
    + f_equal. f_equal. symmetry. apply dcore_same. reflexivity.
    + exists created. auto.
Qed.

(* ---- kind 2: specific object, no services *)
Lemma step_without : forall k o T ev e,
  legalb T ev = true -> Inv k (Some o) [] T e ->
  exists e', entry_step e ev = Ok (e', dcore T ev k (Some o) []) /\ Inv k (Some o) [] (tstep T ev) e'.
Proof.
  intros k o T ev e L ->.
  destruct ev as [u c|u c|ou oc su sc|ou oc su sc]; cbn [entry_step].
  - apply legal_oc_inv in L as [L _]. unfold without_object_created.
    eqb_case u o; cbn [negb].
    + subst u. rewrite L. eexists; split.
      * f_equal. f_equal. symmetry. apply dcore_created with (u := o) (c := c); auto.
        -- unfold mcore. rewrite L. cbn. now rewrite andb_false_r.
        -- unfold mcore. cbn [opt_matches tstep t_objs]. rewrite aget_cons, !N.eqb_refl. cbn. apply N.eqb_refl.
      * cbn [Inv tstep t_objs]. rewrite aget_cons, N.eqb_refl. reflexivity.
    + eexists; split.
      * f_equal. f_equal. symmetry. apply dcore_same. cbn [ev_obj]. unfold mcore. cbn [opt_matches].
        rewrite (eqb_sym' o u). apply N.eqb_neq in E. now rewrite E.
      * cbn [Inv tstep t_objs]. rewrite aget_cons. apply N.eqb_neq in E. now rewrite E.
  - apply legal_od_inv in L as [L _]. unfold without_object_destroyed.
    eqb_case u o; cbn [negb].
    + subst u. rewrite L. cbn [opt_eqb]. rewrite N.eqb_refl. eexists; split.
      * f_equal. f_equal. symmetry. apply dcore_destroyed with (u := o) (c := c); auto.
        -- unfold mcore. rewrite L. cbn. now rewrite !N.eqb_refl.
        -- unfold mcore. cbn [opt_matches tstep t_objs]. rewrite aget_adel, !N.eqb_refl. reflexivity.
      * cbn [Inv tstep t_objs]. rewrite aget_adel, N.eqb_refl. reflexivity.
    + eexists; split.
      * f_equal. f_equal. symmetry. apply dcore_same. cbn [ev_obj]. unfold mcore. cbn [opt_matches].
        rewrite (eqb_sym' o u). apply N.eqb_neq in E. now rewrite E.
      * cbn [Inv tstep t_objs]. rewrite aget_adel. apply N.eqb_neq in E. now rewrite E.
  - eexists; split.
    + f_equal. f_equal. symmetry. apply dcore_same. reflexivity.
    + reflexivity.
  - eexists; split.
    + f_equal. f_equal. symmetry. apply dcore_same. reflexivity.
    + reflexivity.
Qed.

(* ---- how a step changes the service lookup *)
Lemma sget_step_sc : forall T ou oc su sc ou' su',
  sget (t_svcs (tstep T (EvServiceCreated ou oc su sc))) ou' su' =
  if N.eqb ou ou' && N.eqb su su' then Some (oc, sc) else sget (t_svcs T) ou' su'.
Proof. reflexivity. Qed.

Lemma sget_step_sd : forall T ou oc su sc ou' su',
  sget (t_svcs (tstep T (EvServiceDestroyed ou oc su sc))) ou' su' =
  if N.eqb ou ou' && N.eqb su su' then None else sget (t_svcs T) ou' su'.
Proof. intros. cbn [tstep t_svcs]. apply sget_sdel. Qed.

Lemma req_ok_svcs : forall T T' u c req, t_svcs T' = t_svcs T -> req_ok T' u c req = req_ok T u c req.
Proof. intros. unfold req_ok. now rewrite H. Qed.

Lemma req_ok_missing : forall T u c req s, In s req -> sget (t_svcs T) u s = None -> req_ok T u c req = false.
Proof.
  intros T u c req s HI HN. destruct (req_ok T u c req) eqn:E; auto.
  rewrite req_ok_true in E. destruct (E s HI) as [sc E']. congruence.
Qed.

Lemma req_ok_cookie : forall T u c req s oc sc,
  In s req -> sget (t_svcs T) u s = Some (oc, sc) -> req_ok T u c req = true -> c = oc.
Proof.
  intros T u c req s oc sc HI HS E. rewrite req_ok_true in E. destruct (E s HI) as [sc' E']. congruence.
Qed.

Lemma bool_iff_eq : forall a b : bool, (a = true <-> b = true) -> a = b.
Proof. intros [|] [|] [H1 H2]; auto; try (symmetry; auto); auto. Qed.

Lemma mcore_with : forall T o r req u c,
  mcore T (Some o) (r :: req) u c = N.eqb o u && req_ok T u c (r :: req).
Proof. reflexivity. Qed.
Lemma mcore_any : forall T r req u c, mcore T None (r :: req) u c = req_ok T u c (r :: req).
Proof. reflexivity. Qed.

(* ---- kind 3: specific object with services *)
Lemma step_with : forall k o r req T ev e,
  NoDup (r :: req) -> legalb T ev = true -> Inv k (Some o) (r :: req) T e ->
  exists e', entry_step e ev = Ok (e', dcore T ev k (Some o) (r :: req)) /\
             Inv k (Some o) (r :: req) (tstep T ev) e'.
Proof.
  intros k o r req T ev e ND L (cookie & services & -> & HK & HS & HC).
  remember (r :: req) as R eqn:ER.
  assert (Hkeys : forall s, In s R <-> exists v, aget services s = Some v).
  { intro s. rewrite <- HK. split; [apply key_aget_some|intros [v H]; eapply aget_some_key; eauto]. }
  assert (INV0 : forall T', t_svcs T' = t_svcs T ->
            Inv k (Some o) R T' (ESpecWith k o cookie services)).
  { intros T' ET. subst R. cbn [Inv]. exists cookie, services. repeat split; auto.
    - intros s v H. rewrite ET. auto.
    - intro H. rewrite (req_ok_svcs T T'); auto. now apply HC.
    - intro H. rewrite (req_ok_svcs T T') in H; auto. now apply HC. }
  destruct ev as [u c|u c|ou oc su sc|ou oc su sc]; cbn [entry_step].
  - eexists; split; [|apply INV0; reflexivity].
    f_equal. f_equal. symmetry. apply dcore_same. subst R. reflexivity.
  - eexists; split; [|apply INV0; reflexivity].
    f_equal. f_equal. symmetry. apply dcore_same. subst R. reflexivity.
  - (* ServiceCreated *)
    set (T' := tstep T (EvServiceCreated ou oc su sc)).
    apply legal_sc_inv in L as (L1 & L2 & _).
    unfold with_service_created. eqb_case ou o; cbn [negb].
    + subst ou. destruct (aget services su) as [v|] eqn:EV.
      * (* a required service *)
        assert (HIsu : In su R) by (apply Hkeys; eauto).
        pose proof (HS _ _ EV) as Hv. rewrite L1 in Hv. cbn in Hv. subst v.
        set (services' := aupd services su (Some sc)).
        assert (HK' : map fst services' = R) by (unfold services'; now rewrite keys_aupd).
        assert (HS' : forall s v, aget services' s = Some v ->
                        v = option_map snd (sget (t_svcs T') o s)).
        { intros s v. unfold services', T'. rewrite aget_aupd, sget_step_sc, EV. cbn [is_some].
          rewrite N.eqb_refl. cbn [andb]. eqb_case su s.
          - intros [= <-]. reflexivity.
          - apply HS. }
        assert (HB : forallb (fun p : uuid * option uuid => is_some (snd p)) services'
                     = req_ok T' o oc R).
        { apply bool_iff_eq. rewrite forallb_amap by (rewrite HK'; subst R; auto).
          rewrite req_ok_true. split.
          - intros H s HI. assert (HI' := HI). rewrite <- HK' in HI'.
            apply key_aget_some in HI' as [v Hv]. pose proof (H _ _ Hv) as Hs. cbn in Hs.
            pose proof (HS' _ _ Hv) as Hv'. subst v.
            destruct (sget (t_svcs T') o s) as [[oc' sc']|] eqn:E'; [|discriminate].
            exists sc'. f_equal. f_equal.
            unfold T' in E'. rewrite sget_step_sc, N.eqb_refl in E'. cbn [andb] in E'.
            eqb_case su s; [congruence|]. eapply L2; eauto.
          - intros H s v Hv. cbn [snd]. pose proof (HS' _ _ Hv) as ->.
            assert (HI : In s R) by (rewrite <- HK'; eapply aget_some_key; eauto).
            destruct (H s HI) as [sc' ->]. reflexivity. }
        assert (Hbefore : forall c, req_ok T o c R = false) by (intro; eapply req_ok_missing; eauto).
        assert (Hcookie : cookie = None).
        { destruct cookie as [c|]; auto. assert (req_ok T o c R = true) by now apply HC.
          rewrite Hbefore in H. discriminate. }
        assert (Hafter : forall c, req_ok T' o c R = true -> c = oc).
        { intros c H. eapply req_ok_cookie with (s := su); eauto.
          unfold T'. rewrite sget_step_sc, !N.eqb_refl. reflexivity. }
        fold services'. rewrite HB. destruct (req_ok T' o oc R) eqn:EB.
        -- eexists; split.
           ++ f_equal. f_equal. symmetry. apply dcore_created with (u := o) (c := oc); auto; subst R.
              ** rewrite mcore_with, Hbefore. apply andb_false_r.
              ** rewrite mcore_with, N.eqb_refl. exact EB.
           ++ subst R. cbn [Inv]. exists (Some oc), services'. repeat split; auto.
              ** intros [= <-]. exact EB.
              ** intro H. f_equal. symmetry. now apply Hafter.
        -- eexists; split.
           ++ f_equal. f_equal. symmetry. apply dcore_same. cbn [ev_obj]. subst R.
              rewrite !mcore_with, Hbefore. fold T'. now rewrite EB.
           ++ subst R cookie. cbn [Inv]. exists None, services'. repeat split; auto.
              ** discriminate.
              ** intro H. pose proof (Hafter _ H). subst c. congruence.
      * (* not a required service *)
        assert (HN : ~ In su R) by (intro HI; apply Hkeys in HI as [v Hv]; congruence).
        assert (Hfr : forall s, In s R -> sget (t_svcs T') o s = sget (t_svcs T) o s).
        { intros s HI. unfold T'. rewrite sget_step_sc. eqb_case su s; [congruence|].
          now rewrite andb_false_r. }
        eexists; split.
        -- f_equal. f_equal. symmetry. apply dcore_same. cbn [ev_obj]. subst R. rewrite !mcore_with.
           f_equal. now apply req_ok_frame.
        -- subst R. cbn [Inv]. exists cookie, services. repeat split; auto.
           ++ intros s v Hv. fold T'. rewrite Hfr; [auto|]. apply Hkeys; eauto.
           ++ intro H. fold T'. rewrite (req_ok_frame T T'); auto. now apply HC.
           ++ intro H. fold T' in H. rewrite (req_ok_frame T T') in H; auto. now apply HC.
    + (* another object *)
      assert (Hfr : forall s, sget (t_svcs T') o s = sget (t_svcs T) o s).
      { intros s. unfold T'. rewrite sget_step_sc. apply N.eqb_neq in E. now rewrite E. }
      eexists; split.
      * f_equal. f_equal. symmetry. apply dcore_same. cbn [ev_obj]. subst R. rewrite !mcore_with.
        rewrite (eqb_sym' o ou). apply N.eqb_neq in E. now rewrite E.
      * subst R. cbn [Inv]. exists cookie, services. repeat split; auto.
        -- intros s v Hv. fold T'. rewrite Hfr; auto.
        -- intro H. fold T'. rewrite (req_ok_frame T T'); auto. now apply HC.
        -- intro H. fold T' in H. rewrite (req_ok_frame T T') in H; auto. now apply HC.
  - (* ServiceDestroyed *)
    set (T' := tstep T (EvServiceDestroyed ou oc su sc)).
    apply legal_sd_inv in L.
    unfold with_service_destroyed. eqb_case ou o; cbn [negb].
    + subst ou. destruct (aget services su) as [v|] eqn:EV.
      * assert (HIsu : In su R) by (apply Hkeys; eauto).
        pose proof (HS _ _ EV) as Hv. rewrite L in Hv. cbn in Hv. subst v.
        cbn [opt_eqb]. rewrite N.eqb_refl.
        set (services' := aupd services su None).
        assert (HK' : map fst services' = R) by (unfold services'; now rewrite keys_aupd).
        assert (HS' : forall s v, aget services' s = Some v ->
                        v = option_map snd (sget (t_svcs T') o s)).
        { intros s v. unfold services', T'. rewrite aget_aupd, sget_step_sd, EV. cbn [is_some].
          rewrite N.eqb_refl. cbn [andb]. eqb_case su s.
          - intros [= <-]. reflexivity.
          - apply HS. }
        assert (Hafter : forall c, req_ok T' o c R = false).
        { intro c. eapply req_ok_missing; eauto. unfold T'. rewrite sget_step_sd, !N.eqb_refl. reflexivity. }
        destruct cookie as [c'|].
        -- assert (Hc : req_ok T o c' R = true) by now apply HC.
           assert (c' = oc) by (eapply req_ok_cookie; eauto). subst c'.
           eexists; split.
           ++ f_equal. f_equal. symmetry. apply dcore_destroyed with (u := o) (c := oc); auto; subst R.
              ** rewrite mcore_with, N.eqb_refl. exact Hc.
              ** rewrite mcore_with. fold T'. rewrite Hafter. apply andb_false_r.
           ++ subst R. cbn [Inv]. exists None, services'. repeat split; auto.
              ** discriminate.
              ** intro H. fold T' in H. rewrite Hafter in H. discriminate.
        -- assert (Hb : req_ok T o oc R = false).
           { destruct (req_ok T o oc R) eqn:EB; auto. apply HC in EB. discriminate. }
           eexists; split.
           ++ f_equal. f_equal. symmetry. apply dcore_same. cbn [ev_obj]. subst R.
              rewrite !mcore_with. fold T'. now rewrite Hafter, Hb.
           ++ subst R. cbn [Inv]. exists None, services'. repeat split; auto.
              ** discriminate.
              ** intro H. fold T' in H. rewrite Hafter in H. discriminate.
      * assert (HN : ~ In su R) by (intro HI; apply Hkeys in HI as [v Hv]; congruence).
        assert (Hfr : forall s, In s R -> sget (t_svcs T') o s = sget (t_svcs T) o s).
        { intros s HI. unfold T'. rewrite sget_step_sd. eqb_case su s; [congruence|].
          now rewrite andb_false_r. }
        eexists; split.
        -- f_equal. f_equal. symmetry. apply dcore_same. cbn [ev_obj]. subst R. rewrite !mcore_with.
           f_equal. now apply req_ok_frame.
        -- subst R. cbn [Inv]. exists cookie, services. repeat split; auto.
           ++ intros s v Hv. fold T'. rewrite Hfr; [auto|]. apply Hkeys; eauto.
           ++ intro H. fold T'. rewrite (req_ok_frame T T'); auto. now apply HC.
           ++ intro H. fold T' in H. rewrite (req_ok_frame T T') in H; auto. now apply HC.
    + assert (Hfr : forall s, sget (t_svcs T') o s = sget (t_svcs T) o s).
      { intros s. unfold T'. rewrite sget_step_sd. apply N.eqb_neq in E. now rewrite E. }
      eexists; split.
      * f_equal. f_equal. symmetry. apply dcore_same. cbn [ev_obj]. subst R. rewrite !mcore_with.
        rewrite (eqb_sym' o ou). apply N.eqb_neq in E. now rewrite E.
      * subst R. cbn [Inv]. exists cookie, services. repeat split; auto.
        -- intros s v Hv. fold T'. rewrite Hfr; auto.
        -- intro H. fold T'. rewrite (req_ok_frame T T'); auto. now apply HC.
        -- intro H. fold T' in H. rewrite (req_ok_frame T T') in H; auto. now apply HC.
Qed.

(* ---- kind 4: any object with services *)
Lemma step_anyw : forall k r req T ev e,
  NoDup (r :: req) -> legalb T ev = true -> Inv k None (r :: req) T e ->
  exists e', entry_step e ev = Ok (e', dcore T ev k None (r :: req)) /\
             Inv k None (r :: req) (tstep T ev) e'.
Proof.
  intros k r req T ev e ND L (services & created & -> & HK & NDC & HM & HC).
  remember (r :: req) as R eqn:ER.
  assert (Hkeys : forall s, In s R <-> exists v, aget services s = Some v).
  { intro s. rewrite <- HK. split; [apply key_aget_some|intros [v H]; eapply aget_some_key; eauto]. }
  assert (HrR : In r R) by (subst R; now left).
  assert (INV0 : forall T', t_svcs T' = t_svcs T -> Inv k None R T' (EAny k services created)).
  { intros T' ET. subst R. cbn [Inv]. exists services, created. repeat split; auto.
    - intros s m H ou. rewrite ET. auto.
    - intro H. rewrite (req_ok_svcs T T'); auto. now apply HC.
    - intro H. rewrite (req_ok_svcs T T') in H; auto. now apply HC. }
  assert (Hne : services <> []) by (intro; subst services R; discriminate).
  (* stepping an entry of another object leaves [created] right *)
  assert (FRAME : forall T' services' created' ou,
            (forall u s, u <> ou -> sget (t_svcs T') u s = sget (t_svcs T) u s) ->
            map fst services' = R -> NoDup (map fst created') ->
            (forall s m, aget services' s = Some m ->
               forall u, aget m u = option_map snd (sget (t_svcs T') u s)) ->
            (forall u, u <> ou -> aget created' u = aget created u) ->
            (forall c, aget created' ou = Some c <-> req_ok T' ou c R = true) ->
            Inv k None R T' (EAny k services' created')).
  { intros T' services' created' ou Hfr HK' NDC' HM' Hcr Hou. subst R. cbn [Inv].
    exists services', created'. repeat split; auto.
    - intro H. destruct (N.eq_dec u ou) as [->|Hne']; [now apply Hou|].
      rewrite (req_ok_frame T T') by (intros; now apply Hfr). apply HC. now rewrite <- Hcr.
    - intro H. destruct (N.eq_dec u ou) as [->|Hne']; [now apply Hou|].
      rewrite (req_ok_frame T T') in H by (intros; now apply Hfr). rewrite Hcr; auto. now apply HC. }
  destruct ev as [u c|u c|ou oc su sc|ou oc su sc]; cbn [entry_step].
  - unfold any_object_created. destruct services as [|p services0]; [congruence|].
    eexists; split; [|apply INV0; reflexivity].
    f_equal. f_equal. symmetry. apply dcore_same. subst R. reflexivity.
  - apply legal_od_inv in L as [_ L]. unfold any_object_destroyed.
    destruct (aget created u) as [c'|] eqn:EC.
    + exfalso. apply HC in EC. rewrite req_ok_true in EC. destruct (EC r HrR) as [sc E']. rewrite L in E'. discriminate.
    + eexists; split; [|apply INV0; reflexivity].
      f_equal. f_equal. symmetry. apply dcore_same. subst R. reflexivity.
  - (* ServiceCreated *)
    set (T' := tstep T (EvServiceCreated ou oc su sc)).
    apply legal_sc_inv in L as (L1 & L2 & _).
    assert (Hfr : forall u s, u <> ou -> sget (t_svcs T') u s = sget (t_svcs T) u s).
    { intros u s Hu. unfold T'. rewrite sget_step_sc. eqb_case ou u; [congruence|reflexivity]. }
    unfold any_service_created. destruct (aget services su) as [m|] eqn:EV.
    + assert (HIsu : In su R) by (apply Hkeys; eauto).
      pose proof (HM _ _ EV ou) as Hm. rewrite L1 in Hm. cbn in Hm. rewrite Hm.
      set (services' := aupd services su (aset m ou sc)).
      assert (HK' : map fst services' = R) by (unfold services'; now rewrite keys_aupd).
      assert (HM' : forall s m', aget services' s = Some m' ->
                      forall u, aget m' u = option_map snd (sget (t_svcs T') u s)).
      { intros s m' Hs u. unfold services' in Hs. rewrite aget_aupd, EV in Hs. cbn [is_some] in Hs.
        unfold T'. rewrite sget_step_sc. eqb_case su s.
        - injection Hs as <-. rewrite aget_aset. rewrite andb_true_r.
          eqb_case ou u; [reflexivity|]. apply HM. congruence.
        - rewrite andb_false_r. now apply HM. }
      assert (HB : forallb (fun p : uuid * list (uuid * uuid) => is_some (aget (snd p) ou)) services'
                   = req_ok T' ou oc R).
      { apply bool_iff_eq. rewrite forallb_amap by (rewrite HK'; subst R; auto).
        rewrite req_ok_true. split.
        - intros H s HI. assert (HI' := HI). rewrite <- HK' in HI'.
          apply key_aget_some in HI' as [m' Hm']. pose proof (H _ _ Hm') as Hs. cbn [snd] in Hs.
          rewrite (HM' _ _ Hm') in Hs.
          destruct (sget (t_svcs T') ou s) as [[oc' sc']|] eqn:E'; [|discriminate].
          exists sc'. f_equal. f_equal.
          unfold T' in E'. rewrite sget_step_sc, N.eqb_refl in E'. cbn [andb] in E'.
          eqb_case su s; [congruence|]. eapply L2; eauto.
        - intros H s m' Hm'. cbn [snd]. rewrite (HM' _ _ Hm').
          assert (HI : In s R) by (rewrite <- HK'; eapply aget_some_key; eauto).
          destruct (H s HI) as [sc' ->]. reflexivity. }
      assert (Hbefore : forall c, req_ok T ou c R = false) by (intro; eapply req_ok_missing; eauto).
      assert (Hcr : aget created ou = None).
      { destruct (aget created ou) as [c|] eqn:EC; auto. apply HC in EC. rewrite Hbefore in EC. discriminate. }
      assert (Hafter : forall c, req_ok T' ou c R = true -> c = oc).
      { intros c H. eapply req_ok_cookie with (s := su); eauto.
        unfold T'. rewrite sget_step_sc, !N.eqb_refl. reflexivity. }
      fold services'. rewrite HB. destruct (req_ok T' ou oc R) eqn:EB.
      * rewrite Hcr. eexists; split.
        -- f_equal. f_equal. symmetry. apply dcore_created with (u := ou) (c := oc); auto; subst R.
           ++ rewrite mcore_any. apply Hbefore.
           ++ rewrite mcore_any. exact EB.
        -- apply FRAME with (ou := ou); auto.
           ++ now apply nodup_aset.
           ++ intros u Hu. rewrite aget_aset. eqb_case ou u; [congruence|reflexivity].
           ++ intro c. rewrite aget_aset, N.eqb_refl. split.
              ** intros [= <-]. exact EB.
              ** intro H. f_equal. symmetry. now apply Hafter.
      * eexists; split.
        -- f_equal. f_equal. symmetry. apply dcore_same. cbn [ev_obj]. subst R.
           rewrite !mcore_any, Hbefore. fold T'. now rewrite EB.
        -- apply FRAME with (ou := ou); auto.
           intro c. rewrite Hcr. split; [discriminate|].
           intro H. pose proof (Hafter _ H). subst c. congruence.
    + assert (HN : ~ In su R) by (intro HI; apply Hkeys in HI as [v Hv]; congruence).
      assert (Hfr2 : forall u s, In s R -> sget (t_svcs T') u s = sget (t_svcs T) u s).
      { intros u s HI. unfold T'. rewrite sget_step_sc. eqb_case su s; [congruence|].
        now rewrite andb_false_r. }
      eexists; split.
      * f_equal. f_equal. symmetry. apply dcore_same. cbn [ev_obj]. subst R. rewrite !mcore_any.
        apply req_ok_frame. intros; now apply Hfr2.
      * apply FRAME with (ou := ou); auto.
        -- intros s m Hs u. rewrite Hfr2; [now apply HM|]. apply Hkeys; eauto.
        -- intro c. rewrite (req_ok_frame T T') by (intros; now apply Hfr2). apply HC.
  - (* ServiceDestroyed *)
    set (T' := tstep T (EvServiceDestroyed ou oc su sc)).
    apply legal_sd_inv in L.
    assert (Hfr : forall u s, u <> ou -> sget (t_svcs T') u s = sget (t_svcs T) u s).
    { intros u s Hu. unfold T'. rewrite sget_step_sd. eqb_case ou u; [congruence|reflexivity]. }
    unfold any_service_destroyed. destruct (aget services su) as [m|] eqn:EV.
    + assert (HIsu : In su R) by (apply Hkeys; eauto).
      pose proof (HM _ _ EV ou) as Hm. rewrite L in Hm. cbn in Hm. rewrite Hm.
      cbn [opt_eqb]. rewrite N.eqb_refl.
      set (services' := aupd services su (adel m ou)).
      assert (HK' : map fst services' = R) by (unfold services'; now rewrite keys_aupd).
      assert (HM' : forall s m', aget services' s = Some m' ->
                      forall u, aget m' u = option_map snd (sget (t_svcs T') u s)).
      { intros s m' Hs u. unfold services' in Hs. rewrite aget_aupd, EV in Hs. cbn [is_some] in Hs.
        unfold T'. rewrite sget_step_sd. eqb_case su s.
        - injection Hs as <-. rewrite aget_adel. rewrite andb_true_r.
          eqb_case ou u; [reflexivity|]. apply HM. congruence.
        - rewrite andb_false_r. now apply HM. }
      assert (Hafter : forall c, req_ok T' ou c R = false).
      { intro c. eapply req_ok_missing; eauto. unfold T'. rewrite sget_step_sd, !N.eqb_refl. reflexivity. }
      destruct (aget created ou) as [c'|] eqn:EC.
      * assert (Hc : req_ok T ou c' R = true) by now apply HC.
        assert (c' = oc) by (eapply req_ok_cookie; eauto). subst c'.
        rewrite N.eqb_refl. eexists; split.
        -- f_equal. f_equal. symmetry. apply dcore_destroyed with (u := ou) (c := oc); auto; subst R.
           ++ rewrite mcore_any. exact Hc.
           ++ rewrite mcore_any. apply Hafter.
        -- apply FRAME with (ou := ou); auto.
           ++ now apply nodup_adel.
           ++ intros u Hu. rewrite aget_adel. eqb_case ou u; [congruence|reflexivity].
           ++ intro c. rewrite aget_adel, N.eqb_refl, Hafter. split; discriminate.
      * assert (Hb : req_ok T ou oc R = false).
        { destruct (req_ok T ou oc R) eqn:EB; auto. apply HC in EB. congruence. }
        eexists; split.
        -- f_equal. f_equal. symmetry. apply dcore_same. cbn [ev_obj]. subst R.
           rewrite !mcore_any. fold T'. now rewrite Hafter, Hb.
        -- apply FRAME with (ou := ou); auto.
           intro c. rewrite EC, Hafter. split; discriminate.
    + assert (HN : ~ In su R) by (intro HI; apply Hkeys in HI as [v Hv]; congruence).
      assert (Hfr2 : forall u s, In s R -> sget (t_svcs T') u s = sget (t_svcs T) u s).
      { intros u s HI. unfold T'. rewrite sget_step_sd. eqb_case su s; [congruence|].
        now rewrite andb_false_r. }
      eexists; split.
      * f_equal. f_equal. symmetry. apply dcore_same. cbn [ev_obj]. subst R. rewrite !mcore_any.
        apply req_ok_frame. intros; now apply Hfr2.
      * apply FRAME with (ou := ou); auto.
        -- intros s m Hs u. rewrite Hfr2; [now apply HM|]. apply Hkeys; eauto.
        -- intro c. rewrite (req_ok_frame T T') by (intros; now apply Hfr2). apply HC.
Qed.

(* ------------------------------------------------------------------ all four kinds together *)
Definition InvS (sp : espec) (T : truth) (e : entry) : Prop :=
  Inv (sp_key sp) (sp_obj sp) (sp_req sp) T e.

Lemma step_ok : forall sp T ev e,
  legalb T ev = true -> InvS sp T e ->
  exists e', entry_step e ev = Ok (e', delta T ev sp) /\ InvS sp (tstep T ev) e'.
Proof.
  intros sp T ev e L I. unfold InvS in *. rewrite delta_dcore.
  pose proof (dedup_nodup (sp_svcs sp)) as ND. fold (sp_req sp) in ND.
  destruct (sp_obj sp) as [o|]; destruct (sp_req sp) as [|r req].
  - now apply step_without.
  - now apply step_with.
  - now apply step_any0.
  - now apply step_anyw.
Qed.

Lemma entry_run_ok_from : forall sp l T e,
  deliverable_from T l = true -> InvS sp T e ->
  exists e', entry_run e l = Ok (e', transitions T l sp) /\ InvS sp (trun T l) e'.
Proof.
  intros sp l. induction l as [|ev l IH]; intros T e D I.
  - exists e. split; auto.
  - cbn [deliverable_from] in D. apply andb_true_iff in D as [L D].
    destruct (step_ok sp T ev e L I) as (e1 & E1 & I1).
    destruct (IH _ _ D I1) as (e2 & E2 & I2).
    exists e2. split; auto.
    cbn [entry_run transitions]. rewrite E1. cbn [bind fst snd]. rewrite E2. reflexivity.
Qed.

Lemma aget_map_const' : forall {V} (l : list uuid) (v : V) k w,
  aget (map (fun s => (s, v)) l) k = Some w -> w = v.
Proof.
  intros V l v k w. rewrite aget_map_const. destruct (existsb (N.eqb k) l); congruence.
Qed.

Lemma inv_new : forall sp, InvS sp t_empty (entry_new sp).
Proof.
  intros sp. unfold InvS, entry_new.
  destruct (sp_obj sp) as [o|]; destruct (sp_req sp) as [|r req] eqn:ER; cbn [Inv].
  - reflexivity.
  - exists None, (map (fun s => (s, None)) (r :: req)). repeat split; auto.
    + rewrite map_map. cbn [fst]. apply map_id.
    + intros s v H. apply aget_map_const' in H. subst v. reflexivity.
    + discriminate.
    + intro H. rewrite (req_ok_missing t_empty o c (r :: req) r) in H; [discriminate|now left|reflexivity].
  - exists []. repeat split; auto. constructor.
  - exists (map (fun s => (s, [])) (r :: req)), []. repeat split; auto.
    + rewrite map_map. cbn [fst]. apply map_id.
    + constructor.
    + intros s m H ou. apply aget_map_const' in H. subst m. reflexivity.
    + discriminate.
    + intro H. rewrite (req_ok_missing t_empty u c (r :: req) r) in H; [discriminate|now left|reflexivity].
Qed.

(* the fold of a deliverable sequence from a fresh entry *)
Lemma entry_run_ok : forall sp l,
  deliverable l ->
  exists e, entry_run (entry_new sp) l = Ok (e, transitions t_empty l sp) /\
            InvS sp (trun t_empty l) e.
Proof. intros sp l D. apply entry_run_ok_from; auto. apply inv_new. Qed.

(* ------------------------------------------------------------------ the view *)
Lemma inv_view : forall sp T e, InvS sp T e ->
  (forall u c, In (u, c) (entry_iter e) <-> matchingb T sp u c = true) /\
  NoDup (map fst (entry_iter e)).
Proof.
  intros sp T e I. unfold InvS in I.
  assert (HM : forall u c, matchingb T sp u c = mcore T (sp_obj sp) (sp_req sp) u c)
    by (intros; apply matchingb_mcore).
  destruct (sp_obj sp) as [o|]; destruct (sp_req sp) as [|r req]; cbn [Inv] in I.
  - subst e. cbn [entry_iter]. split.
    + intros u c. rewrite HM. unfold mcore. cbn [opt_matches].
      destruct (aget (t_objs T) o) as [c'|] eqn:EO.
      * cbn [In]. split.
        -- intros [[= <- <-]|[]]. rewrite N.eqb_refl, EO. cbn. apply N.eqb_refl.
        -- intro H. apply andb_true_iff in H as [H1 H2]. apply N.eqb_eq in H1. subst u.
           rewrite EO in H2. apply opt_eqb_true in H2. injection H2 as <-. now left.
      * cbn [In]. split; [tauto|]. intro H. apply andb_true_iff in H as [H1 H2].
        apply N.eqb_eq in H1. subst u. rewrite EO in H2. discriminate.
    + destruct (aget (t_objs T) o); cbn; repeat constructor; auto.
  - destruct I as (cookie & services & -> & HK & HS & HC). cbn [entry_iter]. split.
    + intros u c. rewrite HM, mcore_with. destruct cookie as [c'|].
      * cbn [In]. split.
        -- intros [[= <- <-]|[]]. rewrite N.eqb_refl. now apply HC.
        -- intro H. apply andb_true_iff in H as [H1 H2]. apply N.eqb_eq in H1. subst u.
           apply HC in H2. injection H2 as <-. now left.
      * cbn [In]. split; [tauto|]. intro H. apply andb_true_iff in H as [H1 H2].
        apply N.eqb_eq in H1. subst u. apply HC in H2. discriminate.
    + destruct cookie; cbn; repeat constructor; auto.
  - destruct I as (created & -> & ND & HC). cbn [entry_iter]. split; auto.
    intros u c. rewrite HM. unfold mcore. cbn [opt_matches andb]. rewrite <- HC, opt_eqb_true. split.
    + now apply in_aget.
    + apply aget_in.
  - destruct I as (services & created & -> & HK & ND & HMM & HC). cbn [entry_iter]. split; auto.
    intros u c. rewrite HM, mcore_any, <- HC. split.
    + now apply in_aget.
    + apply aget_in.
Qed.

(* object_id(u) answers the current cookie of the matching object, if any; it panics only when a
   specific-object entry is asked about another UUID (the documented assert_eq!) *)
Lemma inv_object_id : forall sp T e u, InvS sp T e -> opt_matches (sp_obj sp) u = true ->
  exists r, entry_object_id e u = Ok r /\ forall c, r = Some c <-> matchingb T sp u c = true.
Proof.
  intros sp T e u I OM. unfold InvS in I.
  assert (HM : forall c, matchingb T sp u c = mcore T (sp_obj sp) (sp_req sp) u c)
    by (intros; apply matchingb_mcore).
  destruct (sp_obj sp) as [o|]; destruct (sp_req sp) as [|r req]; cbn [Inv] in I; cbn [opt_matches] in OM.
  - apply N.eqb_eq in OM. subst e u. cbn [entry_object_id]. rewrite N.eqb_refl.
    eexists; split; eauto. intro c. rewrite HM. unfold mcore. cbn [opt_matches]. rewrite N.eqb_refl.
    cbn [andb]. now rewrite opt_eqb_true.
  - apply N.eqb_eq in OM. subst u. destruct I as (cookie & services & -> & HK & HS & HC).
    cbn [entry_object_id]. rewrite N.eqb_refl. eexists; split; eauto.
    intro c. rewrite HM, mcore_with, N.eqb_refl. apply HC.
  - destruct I as (created & -> & ND & HC). cbn [entry_object_id]. eexists; split; eauto.
    intro c. rewrite HM. unfold mcore. cbn [opt_matches andb]. now rewrite opt_eqb_true, HC.
  - destruct I as (services & created & -> & HK & ND & HMM & HC). cbn [entry_object_id].
    eexists; split; eauto. intro c. rewrite HM, mcore_any. apply HC.
Qed.

(* service_id(u, s) of a found object and a required service: the ids currently on the bus *)
Lemma inv_service_id : forall sp T e u c s, InvS sp T e ->
  matchingb T sp u c = true -> In s (sp_req sp) ->
  exists sc, entry_service_id e u s = Ok (Some (c, sc)) /\ sget (t_svcs T) u s = Some (c, sc).
Proof.
  intros sp T e u c s I M HI. unfold InvS in I. rewrite matchingb_mcore in M.
  destruct (sp_obj sp) as [o|]; destruct (sp_req sp) as [|r req]; cbn [Inv] in I; try (now destruct HI).
  - destruct I as (cookie & services & -> & HK & HS & HC).
    rewrite mcore_with in M. apply andb_true_iff in M as [M1 M2]. apply N.eqb_eq in M1. subst u.
    pose proof M2 as M2'. apply HC in M2'. subst cookie.
    rewrite req_ok_true in M2. destruct (M2 s HI) as [sc Esc].
    exists sc. split; auto. cbn [entry_service_id]. rewrite N.eqb_refl.
    assert (HIk : In s (map fst services)) by now rewrite HK.
    apply key_aget_some in HIk as [v Hv]. rewrite Hv. rewrite (HS _ _ Hv), Esc. reflexivity.
  - destruct I as (services & created & -> & HK & ND & HMM & HC).
    rewrite mcore_any in M. pose proof M as M'. apply HC in M'.
    rewrite req_ok_true in M. destruct (M s HI) as [sc Esc].
    exists sc. split; auto. cbn [entry_service_id]. rewrite M'.
    assert (HIk : In s (map fst services)) by now rewrite HK.
    apply key_aget_some in HIk as [m Hm]. rewrite Hm. rewrite (HMM _ _ Hm), Esc. reflexivity.
Qed.

(* ------------------------------------------------------------------ delta is the only change *)
Lemma mcore_frame : forall T ev obj req u c,
  NoDup req -> legalb T ev = true -> (u, c) <> ev_obj ev ->
  mcore (tstep T ev) obj req u c = mcore T obj req u c.
Proof.
  intros T ev obj req u c ND L NE. unfold mcore. f_equal.
  destruct ev as [u0 c0|u0 c0|ou oc su sc|ou oc su sc]; cbn [ev_obj] in NE.
  - destruct req; [|reflexivity]. apply legal_oc_inv in L as [L _].
    cbn [tstep t_objs]. rewrite aget_cons. eqb_case u0 u; auto. subst u0. rewrite L.
    cbn. apply N.eqb_neq. congruence.
  - destruct req; [|reflexivity]. apply legal_od_inv in L as [L _].
    cbn [tstep t_objs]. rewrite aget_adel. eqb_case u0 u; auto. subst u0. rewrite L.
    cbn. symmetry. apply N.eqb_neq. congruence.
  - destruct req as [|r req]; [reflexivity|]. remember (r :: req) as R.
    apply legal_sc_inv in L as (L1 & L2 & _).
    set (T' := tstep T (EvServiceCreated ou oc su sc)).
    destruct (in_dec N.eq_dec su R) as [HI|HN].
    + eqb_case ou u.
      * subst ou. assert (c <> oc) by congruence.
        rewrite (req_ok_missing T u c R su); auto.
        destruct (req_ok T' u c R) eqn:EB; auto. exfalso. apply H.
        eapply req_ok_cookie with (s := su); eauto. unfold T'. rewrite sget_step_sc, !N.eqb_refl. reflexivity.
      * apply req_ok_frame. intros s _. unfold T'. rewrite sget_step_sc.
        apply N.eqb_neq in E. now rewrite E.
    + apply req_ok_frame. intros s HI. unfold T'. rewrite sget_step_sc.
      eqb_case su s; [subst; tauto|]. now rewrite andb_false_r.
  - destruct req as [|r req]; [reflexivity|]. remember (r :: req) as R.
    apply legal_sd_inv in L.
    set (T' := tstep T (EvServiceDestroyed ou oc su sc)).
    destruct (in_dec N.eq_dec su R) as [HI|HN].
    + eqb_case ou u.
      * subst ou. assert (c <> oc) by congruence.
        rewrite (req_ok_missing T' u c R su); auto.
        -- destruct (req_ok T u c R) eqn:EB; auto. exfalso. apply H. eapply req_ok_cookie; eauto.
        -- unfold T'. rewrite sget_step_sd, !N.eqb_refl. reflexivity.
      * apply req_ok_frame. intros s _. unfold T'. rewrite sget_step_sd.
        apply N.eqb_neq in E. now rewrite E.
    + apply req_ok_frame. intros s HI. unfold T'. rewrite sget_step_sd.
      eqb_case su s; [subst; tauto|]. now rewrite andb_false_r.
Qed.

Lemma delta_frame : forall T ev sp u c,
  legalb T ev = true -> (u, c) <> ev_obj ev ->
  matchingb (tstep T ev) sp u c = matchingb T sp u c.
Proof.
  intros. rewrite !matchingb_mcore. apply mcore_frame; auto. apply dedup_nodup.
Qed.

(* what delta says about the event's own object *)
Lemma delta_spec : forall T ev sp u c, ev_obj ev = (u, c) ->
  delta T ev sp =
    match matchingb T sp u c, matchingb (tstep T ev) sp u c with
    | false, true => Some (mkDev (sp_key sp) Created u c)
    | true, false => Some (mkDev (sp_key sp) Destroyed u c)
    | _, _ => None
    end.
Proof. intros T ev sp u c E. unfold delta. now rewrite E. Qed.

(* ------------------------------------------------------------------ restart *)
Lemma map_const_aupd : forall {V W} (m : list (uuid * V)) k v (d : W),
  map (fun p => (fst p, d)) (aupd m k v) = map (fun p => (fst p, d)) m.
Proof.
  induction m as [|[a w] m IH]; intros; auto.
  rewrite aupd_cons. cbn [map]. rewrite IH. now destruct (N.eqb a k).
Qed.

Lemma step_reset : forall e ev e' d, entry_step e ev = Ok (e', d) -> entry_reset e' = entry_reset e.
Proof.
  intros e ev e' d H.
  destruct e as [k services created|k o cookie services|k o cookie];
    destruct ev as [u c|u c|ou oc su sc|ou oc su sc]; cbn [entry_step] in H.
  - unfold any_object_created in H. destruct services.
    + destruct (aget created u); [discriminate|]. now injection H as <- _.
    + now injection H as <- _.
  - unfold any_object_destroyed in H. destruct (aget created u).
    + destruct (N.eqb u0 c); [|discriminate]. now injection H as <- _.
    + now injection H as <- _.
  - unfold any_service_created in H. destruct (aget services su) as [m|]; [|now injection H as <- _].
    destruct (aget m ou); [discriminate|].
    destruct (forallb _ _).
    + destruct (aget created ou); [discriminate|]. injection H as <- _. cbn [entry_reset].
      now rewrite map_const_aupd.
    + injection H as <- _. cbn [entry_reset]. now rewrite map_const_aupd.
  - unfold any_service_destroyed in H. destruct (aget services su) as [m|]; [|now injection H as <- _].
    destruct (opt_eqb _ _); [|discriminate].
    destruct (aget created ou).
    + destruct (N.eqb u oc); [|discriminate]. injection H as <- _. cbn [entry_reset].
      now rewrite map_const_aupd.
    + injection H as <- _. cbn [entry_reset]. now rewrite map_const_aupd.
  - now injection H as <- _.
  - now injection H as <- _.
  - unfold with_service_created in H. destruct (negb _); [now injection H as <- _|].
    destruct (aget services su) as [[x|]|]; [discriminate| |now injection H as <- _].
    destruct (forallb _ _); injection H as <- _; cbn [entry_reset]; now rewrite map_const_aupd.
  - unfold with_service_destroyed in H. destruct (negb _); [now injection H as <- _|].
    destruct (aget services su) as [x|]; [|now injection H as <- _].
    destruct (opt_eqb _ _); [|discriminate].
    destruct cookie; injection H as <- _; cbn [entry_reset]; now rewrite map_const_aupd.
  - unfold without_object_created in H. destruct (negb _); [now injection H as <- _|].
    destruct cookie; [discriminate|]. now injection H as <- _.
  - unfold without_object_destroyed in H. destruct (negb _); [now injection H as <- _|].
    destruct (opt_eqb _ _); [|discriminate]. now injection H as <- _.
  - now injection H as <- _.
  - now injection H as <- _.
Qed.

Lemma run_reset : forall l e e' evs, entry_run e l = Ok (e', evs) -> entry_reset e' = entry_reset e.
Proof.
  induction l as [|ev l IH]; intros e e' evs H; cbn [entry_run] in H.
  - now injection H as <- _.
  - destruct (entry_step e ev) as [[e1 d]|] eqn:E1; cbn [bind] in H; [|discriminate].
    cbn [fst snd] in H. destruct (entry_run e1 l) as [[e2 evs2]|] eqn:E2; cbn [bind] in H; [|discriminate].
    injection H as <- _. cbn [fst]. rewrite (IH _ _ _ E2). eapply step_reset; eauto.
Qed.

Lemma reset_new_id : forall sp, entry_reset (entry_new sp) = entry_new sp.
Proof.
  intros sp. unfold entry_new. destruct (sp_obj sp); destruct (sp_req sp); cbn [entry_reset]; auto;
    now rewrite map_map.
Qed.

(* whatever the entry went through (and whatever it still had queued), reset gives back the
   entry DiscovererBuilder::add made *)
Lemma reset_new : forall sp l e evs,
  entry_run (entry_new sp) l = Ok (e, evs) -> entry_reset e = entry_new sp.
Proof. intros sp l e evs H. rewrite (run_reset _ _ _ _ H). apply reset_new_id. Qed.

(* ------------------------------------------------------------------ service_ids *)
Lemma dedup_nil : forall l, dedup l = [] -> l = [].
Proof.
  intros [|a l] H; auto. exfalso.
  assert (HI : In a (dedup (a :: l))) by (apply dedup_in; now left). rewrite H in HI. destruct HI.
Qed.

Lemma mapM_ok : forall {A B} (f : A -> res B) (P : A -> B -> Prop) ss,
  (forall s, In s ss -> exists p, f s = Ok p /\ P s p) ->
  exists l, mapM f ss = Ok l /\ Forall2 P ss l.
Proof.
  intros A B f P. induction ss as [|s ss IH]; intros H.
  - exists []. split; auto.
  - destruct (H s (or_introl eq_refl)) as (p & Ep & Pp).
    destruct IH as (l & El & Fl). { intros s' HI. apply H. now right. }
    exists (p :: l). split; [|now constructor].
    cbn [mapM]. rewrite Ep. cbn [bind]. rewrite El. reflexivity.
Qed.

Lemma matching_opt : forall T sp u c, matchingb T sp u c = true -> opt_matches (sp_obj sp) u = true.
Proof. intros T sp u c H. unfold matchingb in H. now apply andb_true_iff in H as [H _]. Qed.

(* service_ids(u, services as given to add): the current ids, in the order asked *)
Lemma inv_service_ids : forall sp T e u c, InvS sp T e -> matchingb T sp u c = true ->
  exists ids, entry_service_ids e u (sp_svcs sp) = Ok (Some ids) /\
    Forall2 (fun s p => fst p = c /\ sget (t_svcs T) u s = Some p) (sp_svcs sp) ids.
Proof.
  intros sp T e u c I M.
  assert (HIN : forall s, In s (sp_svcs sp) -> In s (sp_req sp)) by (intros; now apply dedup_in).
  destruct (inv_object_id sp T e u I (matching_opt _ _ _ _ M)) as (r & Er & Hr).
  assert (r = Some c) by now apply Hr. subst r.
  destruct (mapM_ok
    (fun s => bind (entry_service_id e u s)
       (fun r => match r with Some p => Ok p | None => Panic QueryUnwrapNone end))
    (fun s p => fst p = c /\ sget (t_svcs T) u s = Some p) (sp_svcs sp)) as (ids & Eids & Fids).
  { intros s HI. destruct (inv_service_id sp T e u c s I M (HIN s HI)) as (sc & E1 & E2).
    exists (c, sc). rewrite E1. cbn. auto. }
  exists ids. split; auto.
  destruct e as [k services created|k o cookie services|k o cookie].
  - unfold entry_service_ids. rewrite Er. cbn [bind]. rewrite Eids. reflexivity.
  - unfold entry_service_ids. rewrite Er. cbn [bind]. rewrite Eids. reflexivity.
  - (* a bare object: the service list is empty *)
    unfold InvS in I. destruct (sp_obj sp) as [o'|] eqn:EO; destruct (sp_req sp) as [|r req] eqn:ER;
      cbn [Inv] in I.
    + injection I as -> -> ->. apply dedup_nil in ER. rewrite ER in *. inversion Fids; subst.
      cbn [entry_service_ids]. apply matching_opt in M. rewrite EO in M. cbn in M.
      rewrite (eqb_sym' u o'), M. reflexivity.
    + destruct I as (? & ? & [=] & _).
    + destruct I as (? & [=] & _).
    + destruct I as (? & ? & [=] & _).
Qed.

(* ------------------------------------------------------------------ first event: find / wait *)
Lemma transitions_app : forall l1 l2 T sp,
  transitions T (l1 ++ l2) sp = transitions T l1 sp ++ transitions (trun T l1) l2 sp.
Proof.
  induction l1 as [|ev l1 IH]; intros; cbn [transitions app]; auto.
  rewrite IH, app_assoc. reflexivity.
Qed.

Lemma olist_nil : forall {A} (o : option A) l, olist o ++ l = [] -> o = None /\ l = [].
Proof. intros A [a|] l H; cbn in H; [discriminate|auto]. Qed.

Lemma empty_step : forall T ev sp,
  (forall u c, matchingb T sp u c = false) -> legalb T ev = true -> delta T ev sp = None ->
  forall u c, matchingb (tstep T ev) sp u c = false.
Proof.
  intros T ev sp HE L D u c.
  destruct (ev_obj ev) as [u0 c0] eqn:EO.
  destruct (N.eq_dec u u0) as [->|Hu]; [destruct (N.eq_dec c c0) as [->|Hc]|].
  - rewrite (delta_spec _ _ _ _ _ EO), HE in D. destruct (matchingb (tstep T ev) sp u0 c0); [discriminate|auto].
  - rewrite delta_frame; auto. rewrite EO. congruence.
  - rewrite delta_frame; auto. rewrite EO. congruence.
Qed.

Lemma empty_stays : forall l T sp,
  (forall u c, matchingb T sp u c = false) -> deliverable_from T l = true ->
  transitions T l sp = [] -> forall u c, matchingb (trun T l) sp u c = false.
Proof.
  induction l as [|ev l IH]; intros T sp HE D HT; auto.
  cbn [deliverable_from] in D. apply andb_true_iff in D as [L D].
  cbn [transitions] in HT. apply olist_nil in HT as [HD HT].
  cbn [trun fold_left]. apply IH; auto. now apply empty_step.
Qed.

Lemma matching_empty : forall sp u c, matchingb t_empty sp u c = false.
Proof.
  intros. rewrite matchingb_mcore. unfold mcore. destruct (sp_req sp) as [|r req].
  - cbn. apply andb_false_r.
  - rewrite (req_ok_missing t_empty u c (r :: req) r); [apply andb_false_r|now left|reflexivity].
Qed.

Lemma no_match_no_trans : forall l T sp,
  (forall l1 l2, l = l1 ++ l2 -> forall u c, matchingb (trun T l1) sp u c = false) ->
  transitions T l sp = [].
Proof.
  induction l as [|ev l IH]; intros T sp H; auto.
  cbn [transitions].
  assert (delta T ev sp = None) as ->.
  { unfold delta. destruct (ev_obj ev) as [u c].
    pose proof (H [] (ev :: l) eq_refl u c) as H0. pose proof (H [ev] l eq_refl u c) as H1.
    cbn [trun fold_left] in H0, H1. now rewrite H0, H1. }
  cbn [olist app]. apply IH. intros l1 l2 E u c. subst l.
  apply (H (ev :: l1) l2 eq_refl).
Qed.

Lemma entry_next_ok : forall sp l T e,
  deliverable_from T l = true -> InvS sp T e ->
  (transitions T l sp = [] /\ entry_next e l = Ok None) \/
  (exists l1 ev rest d e',
     l = l1 ++ ev :: rest /\ transitions T l1 sp = [] /\ delta (trun T l1) ev sp = Some d /\
     entry_next e l = Ok (Some (d, e', rest)) /\ InvS sp (trun T (l1 ++ [ev])) e').
Proof.
  intros sp l. induction l as [|ev l IH]; intros T e D I.
  - left. split; reflexivity.
  - cbn [deliverable_from] in D. apply andb_true_iff in D as [L D].
    destruct (step_ok sp T ev e L I) as (e1 & E1 & I1).
    cbn [entry_next transitions]. rewrite E1. cbn [bind fst snd].
    destruct (delta T ev sp) as [d|] eqn:ED.
    + right. exists [], ev, l, d, e1. repeat split; auto.
    + destruct (IH _ _ D I1) as [[HT HN]|(l1 & ev' & rest & d & e' & -> & HT & HD & HN & I')].
      * left. split; auto.
      * right. exists (ev :: l1), ev', rest, d, e'. repeat split; auto.
        cbn [transitions]. now rewrite ED, HT.
Qed.

(* Handle::find_object / wait_for_object on any deliverable sequence: never a panic; either no
   matching object existed at any point, or the answer is the first object that matched, with
   the service ids it carried at that moment *)
Lemma find_object_ok : forall sp l, deliverable l ->
  (find_object sp l = Ok None /\
   forall l1 l2, l = l1 ++ l2 -> forall u c, matchingb (trun t_empty l1) sp u c = false) \/
  (exists l1 ev rest u c ids,
     l = l1 ++ ev :: rest /\ find_object sp l = Ok (Some (u, c, ids)) /\
     (forall l0 l0', l1 = l0 ++ l0' -> forall u' c', matchingb (trun t_empty l0) sp u' c' = false) /\
     matchingb (trun t_empty (l1 ++ [ev])) sp u c = true /\
     Forall2 (fun s p => fst p = c /\ sget (t_svcs (trun t_empty (l1 ++ [ev]))) u s = Some p)
             (sp_svcs sp) ids).
Proof.
  intros sp l D. unfold deliverable, deliverableb in D.
  destruct (entry_next_ok sp l t_empty (entry_new sp) D (inv_new sp))
    as [[HT HN]|(l1 & ev & rest & d & e' & -> & HT & HD & HN & I')].
  - left. split; [unfold find_object; now rewrite HN|].
    intros l1 l2 -> u c. rewrite deliverable_app in D. apply andb_true_iff in D as [D1 _].
    rewrite transitions_app in HT. apply app_eq_nil in HT as [HT _].
    apply empty_stays; auto. apply matching_empty.
  - right.
    rewrite deliverable_app in D. apply andb_true_iff in D as [D1 D2].
    cbn [deliverable_from] in D2. apply andb_true_iff in D2 as [L _].
    assert (HE : forall l0 l0', l1 = l0 ++ l0' ->
               forall u' c', matchingb (trun t_empty l0) sp u' c' = false).
    { intros l0 l0' -> u' c'. rewrite deliverable_app in D1. apply andb_true_iff in D1 as [D0 _].
      rewrite transitions_app in HT. apply app_eq_nil in HT as [HT _].
      apply empty_stays; auto. apply matching_empty. }
    destruct (ev_obj ev) as [u c] eqn:EO.
    rewrite (delta_spec _ _ _ _ _ EO) in HD.
    rewrite (HE l1 [] (eq_sym (app_nil_r l1))) in HD.
    destruct (matchingb (tstep (trun t_empty l1) ev) sp u c) eqn:EM; [|discriminate].
    injection HD as <-.
    assert (EM' : matchingb (trun t_empty (l1 ++ [ev])) sp u c = true) by (now rewrite trun_app).
    destruct (inv_service_ids sp _ e' u c I' EM') as (ids & Eids & Fids).
    exists l1, ev, rest, u, c, ids. repeat split; auto.
    unfold find_object. rewrite HN. cbn [bind de_kind de_u de_c]. rewrite Eids. reflexivity.
Qed.

(* creations only (the current-entities phase): what matched keeps matching *)
Lemma creation_mono_step : forall T ev sp u c,
  is_creation ev = true -> legalb T ev = true ->
  matchingb T sp u c = true -> matchingb (tstep T ev) sp u c = true.
Proof.
  intros T ev sp u c C L M. rewrite matchingb_mcore in *. unfold mcore in *.
  apply andb_true_iff in M as [M1 M2]. rewrite M1. cbn [andb].
  destruct ev as [u0 c0|u0 c0|ou oc su sc|ou oc su sc]; try discriminate.
  - destruct (sp_req sp); [|exact M2]. apply legal_oc_inv in L as [L _].
    cbn [tstep t_objs]. rewrite aget_cons. eqb_case u0 u; auto. subst. rewrite L in M2. discriminate.
  - destruct (sp_req sp) as [|r req]; [exact M2|]. apply legal_sc_inv in L as (L1 & _).
    rewrite req_ok_true in *. intros s HI. destruct (M2 s HI) as [sc' E']. exists sc'.
    rewrite sget_step_sc. destruct (N.eqb ou u && N.eqb su s) eqn:EK; auto.
    apply andb_true_iff in EK as [K1 K2]. apply N.eqb_eq in K1, K2. subst. congruence.
Qed.

Lemma creation_mono : forall l T sp u c,
  forallb is_creation l = true -> deliverable_from T l = true ->
  matchingb T sp u c = true -> matchingb (trun T l) sp u c = true.
Proof.
  induction l as [|ev l IH]; intros T sp u c C D M; auto.
  cbn [forallb] in C. apply andb_true_iff in C as [C1 C2].
  cbn [deliverable_from] in D. apply andb_true_iff in D as [L D].
  cbn [trun fold_left]. apply IH; auto. now apply creation_mono_step.
Qed.

Lemma creation_sget_mono : forall l T u s p,
  forallb is_creation l = true -> deliverable_from T l = true ->
  sget (t_svcs T) u s = Some p -> sget (t_svcs (trun T l)) u s = Some p.
Proof.
  induction l as [|ev l IH]; intros T u s p C D M; auto.
  cbn [forallb] in C. apply andb_true_iff in C as [C1 C2].
  cbn [deliverable_from] in D. apply andb_true_iff in D as [L D].
  cbn [trun fold_left]. apply IH; auto.
  destruct ev as [u0 c0|u0 c0|ou oc su sc|ou oc su sc]; try discriminate; auto.
  apply legal_sc_inv in L as (L1 & _). rewrite sget_step_sc.
  destruct (N.eqb ou u && N.eqb su s) eqn:EK; auto.
  apply andb_true_iff in EK as [K1 K2]. apply N.eqb_eq in K1, K2. subst. congruence.
Qed.

Lemma Forall2_imp : forall {A B} (P Q : A -> B -> Prop) l l',
  (forall a b, P a b -> Q a b) -> Forall2 P l l' -> Forall2 Q l l'.
Proof. intros A B P Q l l' H F. induction F; constructor; auto. Qed.

(* find_object over the snapshot the broker sends for a `Current` listener *)
Lemma find_current_ok : forall sp cur, deliverable cur -> forallb is_creation cur = true ->
  (find_object sp cur = Ok None /\ forall u c, matchingb (trun t_empty cur) sp u c = false) \/
  (exists u c ids, find_object sp cur = Ok (Some (u, c, ids)) /\
     matchingb (trun t_empty cur) sp u c = true /\
     Forall2 (fun s p => fst p = c /\ sget (t_svcs (trun t_empty cur)) u s = Some p) (sp_svcs sp) ids).
Proof.
  intros sp cur D C.
  destruct (find_object_ok sp cur D) as [[HN HE]|(l1 & ev & rest & u & c & ids & -> & HF & HE & HM & HI)].
  - left. split; auto. apply (HE cur [] (eq_sym (app_nil_r cur))).
  - right. exists u, c, ids. split; auto.
    unfold deliverable, deliverableb in D.
    replace (l1 ++ ev :: rest) with ((l1 ++ [ev]) ++ rest) in * by (now rewrite <- app_assoc).
    rewrite deliverable_app in D. apply andb_true_iff in D as [D1 D2].
    rewrite forallb_app in C. apply andb_true_iff in C as [C1 C2].
    rewrite trun_app. split.
    + now apply creation_mono.
    + eapply Forall2_imp; [|exact HI]. intros s p [P1 P2]. split; auto.
      now apply creation_sget_mono.
Qed.

(* ------------------------------------------------------------------ several entries (Discoverer) *)
Fixpoint dtransitions (T : truth) (l : list bus_event) (sps : list espec) : list devent :=
  match l with
  | [] => []
  | ev :: l' => flat_map (fun sp => olist (delta T ev sp)) sps ++ dtransitions (tstep T ev) l' sps
  end.

Lemma disc_step_ok : forall T ev sps es,
  legalb T ev = true -> Forall2 (fun sp e => InvS sp T e) sps es ->
  exists es', disc_step es ev = Ok (es', flat_map (fun sp => olist (delta T ev sp)) sps) /\
              Forall2 (fun sp e => InvS sp (tstep T ev) e) sps es'.
Proof.
  intros T ev sps es L F. induction F as [|sp e sps es I F IH].
  - exists []. split; auto.
  - destruct (step_ok sp T ev e L I) as (e1 & E1 & I1). destruct IH as (es' & E' & F').
    exists (e1 :: es'). split; [|now constructor].
    cbn [disc_step flat_map]. rewrite E1. cbn [bind fst snd]. rewrite E'. reflexivity.
Qed.

Lemma disc_run_ok_from : forall sps l T es,
  deliverable_from T l = true -> Forall2 (fun sp e => InvS sp T e) sps es ->
  exists es', disc_run es l = Ok (es', dtransitions T l sps) /\
              Forall2 (fun sp e => InvS sp (trun T l) e) sps es'.
Proof.
  intros sps l. induction l as [|ev l IH]; intros T es D F.
  - exists es. split; auto.
  - cbn [deliverable_from] in D. apply andb_true_iff in D as [L D].
    destruct (disc_step_ok T ev sps es L F) as (e1 & E1 & F1).
    destruct (IH _ _ D F1) as (e2 & E2 & F2).
    exists e2. split; auto. cbn [disc_run dtransitions]. rewrite E1. cbn [bind fst snd]. rewrite E2. reflexivity.
Qed.

Lemma disc_new_inv : forall sps, Forall2 (fun sp e => InvS sp t_empty e) sps (disc_new sps).
Proof. induction sps; cbn; constructor; auto. apply inv_new. Qed.

Lemma delta_key : forall T ev sp d, delta T ev sp = Some d -> de_key d = sp_key sp.
Proof.
  intros T ev sp d H. unfold delta in H. destruct (ev_obj ev) as [u c].
  destruct (matchingb T sp u c); destruct (matchingb (tstep T ev) sp u c); try discriminate;
    injection H as <-; reflexivity.
Qed.

Lemma filter_key_none : forall T ev sps k,
  (forall sp', In sp' sps -> sp_key sp' <> k) ->
  filter (fun d => N.eqb (de_key d) k) (flat_map (fun sp' => olist (delta T ev sp')) sps) = [].
Proof.
  intros T ev sps k. induction sps as [|b sps IH]; intros H; auto.
  cbn [flat_map]. rewrite filter_app, IH by (intros; apply H; now right).
  rewrite app_nil_r. destruct (delta T ev b) as [d|] eqn:ED; auto. cbn.
  rewrite (delta_key _ _ _ _ ED). assert (sp_key b <> k) by (apply H; now left).
  apply N.eqb_neq in H0. now rewrite H0.
Qed.

Lemma filter_key_step : forall T ev sps sp,
  NoDup (map sp_key sps) -> In sp sps ->
  filter (fun d => N.eqb (de_key d) (sp_key sp)) (flat_map (fun sp' => olist (delta T ev sp')) sps)
  = olist (delta T ev sp).
Proof.
  intros T ev sps sp. induction sps as [|a sps IH]; intros ND HI; [destruct HI|].
  cbn [map] in ND. inversion ND as [|? ? NI ND']; subst.
  cbn [flat_map]. rewrite filter_app.
  assert (Hother : forall sp', In sp' sps -> sp_key sp' <> sp_key a).
  { intros sp' HI' E. apply NI. rewrite <- E. now apply in_map. }
  destruct HI as [->|HI].
  - rewrite filter_key_none by auto.
    rewrite app_nil_r. destruct (delta T ev sp) as [d|] eqn:ED; auto. cbn.
    now rewrite (delta_key _ _ _ _ ED), N.eqb_refl.
  - rewrite IH; auto. destruct (delta T ev a) as [d|] eqn:ED; auto. cbn.
    rewrite (delta_key _ _ _ _ ED). assert (sp_key sp <> sp_key a) by now apply Hother.
    rewrite (eqb_sym' (sp_key a)). apply N.eqb_neq in H. now rewrite H.
Qed.

(* with distinct keys, the Discoverer's event queue restricted to one key is that entry's
   sequence of transitions, in order *)
Lemma dtransitions_key : forall l T sps sp,
  NoDup (map sp_key sps) -> In sp sps ->
  filter (fun d => N.eqb (de_key d) (sp_key sp)) (dtransitions T l sps) = transitions T l sp.
Proof.
  induction l as [|ev l IH]; intros T sps sp ND HI; auto.
  cbn [dtransitions transitions]. rewrite filter_app, filter_key_step, IH; auto.
Qed.

Lemma disc_step_reset : forall es ev es' evs,
  disc_step es ev = Ok (es', evs) -> disc_reset es' = disc_reset es.
Proof.
  induction es as [|e es IH]; intros ev es' evs H; cbn [disc_step] in H.
  - now injection H as <- _.
  - destruct (entry_step e ev) as [[e1 d]|] eqn:E1; cbn [bind] in H; [|discriminate].
    destruct (disc_step es ev) as [[es1 evs1]|] eqn:E2; cbn [bind] in H; [|discriminate].
    injection H as <- _. cbn [fst disc_reset map]. f_equal.
    + eapply step_reset; eauto.
    + eapply IH; eauto.
Qed.

Lemma disc_run_reset : forall l es es' evs,
  disc_run es l = Ok (es', evs) -> disc_reset es' = disc_reset es.
Proof.
  induction l as [|ev l IH]; intros es es' evs H; cbn [disc_run] in H.
  - now injection H as <- _.
  - destruct (disc_step es ev) as [[es1 evs1]|] eqn:E1; cbn [bind] in H; [|discriminate].
    cbn [fst snd] in H. destruct (disc_run es1 l) as [[es2 evs2]|] eqn:E2; cbn [bind] in H; [|discriminate].
    injection H as <- _. cbn [fst]. rewrite (IH _ _ _ E2). eapply disc_step_reset; eauto.
Qed.

Lemma disc_reset_new : forall sps l es evs,
  disc_run (disc_new sps) l = Ok (es, evs) -> disc_reset es = disc_new sps.
Proof.
  intros sps l es evs H. rewrite (disc_run_reset _ _ _ _ H). unfold disc_reset, disc_new.
  rewrite map_map. apply map_ext. intro. apply reset_new_id.
Qed.
