(* ClientFold/LifetimeBusProofs.v — a bound Lifetime against the whole bus.

   The lifetime's listener has the single filter object(u) and scope All; it is started after the
   history [pre]; [h1] is the part of the later history whose events it has consumed, [h2] what
   happens afterwards.  The id was obtained from a scope that had been created
   ([memb c (t_used_o (trun t_empty pre))]): cookies are never reused, so the scope cannot come
   into existence later. *)
From Coq Require Import List NArith Bool Lia.
Import ListNotations.
From Aldrin Require Import ClientFold.Discoverer ClientFold.DiscovererProofs ClientFold.Bus
  ClientFold.BusProofs ClientFold.Lifetime ClientFold.LifetimeProofs.
Local Open Scope N_scope.
Arguments N.eqb : simpl never.

Definition lt_filters (u : uuid) : list bfilter := [FObject (Some u)].

Lemma lt_filter_about : forall u ev, matches_filters (lt_filters u) ev = true -> about u ev = true.
Proof.
  intros u [u' c|u' c|? ? ? ?|? ? ? ?] H; cbn in H; try discriminate;
    rewrite orb_false_r in H; cbn; now rewrite eqb_sym'.
Qed.

Lemma used_o_mono : forall l T c, memb c (t_used_o T) = true -> memb c (t_used_o (trun T l)) = true.
Proof.
  induction l as [|ev l IH]; intros T c H; auto.
  cbn [trun fold_left]. apply IH. destruct ev; cbn [tstep t_used_o]; auto.
  rewrite memb_cons, H. apply orb_true_r.
Qed.

Lemma no_recreation : forall hist T u c,
  bus_wf_from T hist = true -> memb c (t_used_o T) = true -> ~ In (EvObjectCreated u c) hist.
Proof.
  induction hist as [|ev hist IH]; intros T u c W M HI; [destruct HI|].
  cbn [bus_wf_from] in W. apply andb_true_iff in W as [W1 W2]. destruct HI as [->|HI].
  - apply bus_oc_inv in W1 as [_ W1]. congruence.
  - eapply IH; eauto. now apply (used_o_mono [ev]).
Qed.

Lemma dead_stays_dead : forall hist T u c,
  bus_wf_from T hist = true -> memb c (t_used_o T) = true ->
  aget (t_objs T) u <> Some c -> aget (t_objs (trun T hist)) u <> Some c.
Proof.
  induction hist as [|ev hist IH]; intros T u c W M H; auto.
  cbn [bus_wf_from] in W. apply andb_true_iff in W as [W1 W2].
  cbn [trun fold_left]. apply IH; auto; [now apply (used_o_mono [ev])|].
  destruct ev as [u0 c0|u0 c0|? ? ? ?|? ? ? ?]; auto; cbn [tstep t_objs].
  - apply bus_oc_inv in W1 as [_ W1]. rewrite aget_cons. eqb_case u0 u; auto. intros [= ->]. congruence.
  - rewrite aget_adel. eqb_case u0 u; auto. discriminate.
Qed.

Lemma lifetime_bus : forall u c pre h1 h2 cur,
  bus_wf (pre ++ h1 ++ h2) -> snapshot_of (lt_filters u) (trun t_empty pre) cur ->
  memb c (t_used_o (trun t_empty pre)) = true ->
  exists st,
    lt_run (lt_new u c) (lt_stream cur (filter (matches_filters (lt_filters u)) h1)) = LOk st /\
    (lt_ended st = true <-> aget (t_objs (trun t_empty (pre ++ h1))) u <> Some c) /\
    (lt_ended st = true -> aget (t_objs (trun t_empty (pre ++ h1 ++ h2))) u <> Some c).
Proof.
  intros u c pre h1 h2 cur W S M.
  set (fs := lt_filters u).
  destruct (delivered_ok fs pre (h1 ++ h2) cur W S) as (D & _ & _ & CR & Dc & _).
  assert (W' := W). unfold bus_wf in W'. rewrite bus_wf_app in W'. apply andb_true_iff in W' as [W1 W2].
  pose proof (gwf_run pre t_empty gwf_empty W1) as G1.
  destruct (snapshot_ok fs _ cur G1 S) as (_ & _ & _ & _ & VC).
  assert (LD : lt_deliverable u cur (filter (matches_filters fs) h1 ++ filter (matches_filters fs) h2)).
  { rewrite <- filter_app. split; [exact D|split; [exact CR|]].
    rewrite forallb_app. apply andb_true_iff. split; apply forallb_forall; intros ev HI.
    - apply lt_filter_about. rewrite forallb_forall in VC. now apply VC.
    - apply filter_In in HI as [_ HI]. now apply lt_filter_about. }
  assert (NI : ~ In (EvObjectCreated u c) (filter (matches_filters fs) h1 ++ filter (matches_filters fs) h2)).
  { rewrite <- filter_app. intro HI. apply filter_In in HI as [HI _].
    eapply no_recreation; eauto. }
  destruct (lt_after_current' u c cur _ _ LD NI) as (st & ER & EI).
  destruct (delivered_ok fs pre h1 cur (bus_wf_prefix _ _ _ W) S) as (_ & _ & HR & _).
  assert (EA : aget (t_objs (trun t_empty (cur ++ filter (matches_filters fs) h1))) u
               = aget (t_objs (trun t_empty (pre ++ h1))) u).
  { fold (delivered fs cur h1). rewrite (r_obj _ _ _ HR). unfold fs, lt_filters, vis_o. cbn.
    now rewrite N.eqb_refl. }
  exists st. split; [exact ER|]. rewrite EA in EI. split; [exact EI|].
  intro E. apply EI in E. rewrite app_assoc, trun_app.
  unfold bus_wf in W. rewrite app_assoc, bus_wf_app in W. apply andb_true_iff in W as [Wa Wb].
  apply dead_stays_dead; auto. rewrite trun_app. now apply used_o_mono.
Qed.
