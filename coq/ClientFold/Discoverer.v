(* ClientFold/Discoverer.v — the client-side discovery folds of /repo/aldrin/src/discoverer/*.rs
   as total executable functions (model only; proofs are in DiscovererProofs.v).

   Transcribed Rust:
     discoverer/any.rs                        AnyObject::{new,reset,handle_event,object_created,
                                              object_destroyed,service_created,service_destroyed,
                                              object_id,service_id,contains,contains_any,iter,add_filter}
     discoverer/specific.rs                   SpecificObject::new (dispatch on services.is_empty())
     discoverer/specific_with_services.rs     the same functions of SpecificObjectWithServices
     discoverer/specific_without_services.rs  the same functions of SpecificObjectWithoutServices
     discoverer/builder.rs                    DiscovererBuilder::add
     discoverer.rs                            Discoverer::{poll_next_event (the fold over the
                                              listener's events), stop/restart (reset), next_event}
     handle.rs                                Handle::{find_object, wait_for_object}
   Every `debug_assert!`, `expect`, `unwrap` and `assert_eq!` on these paths is an explicit
   [Panic site] outcome.  `HashMap`s are association lists whose iteration order is irrelevant
   to everything stated about them (views are compared as sets / by lookup).

   UUIDs and cookies are numbers (the harness numbers the 128-bit values it sees). *)
From Coq Require Import List NArith Bool.
Import ListNotations.
Local Open Scope N_scope.

Definition uuid := N.

(* aldrin_core::BusEvent (same constructor names as Broker/Model.v; an independent copy) *)
Inductive bus_event :=
| EvObjectCreated (u c : uuid)
| EvObjectDestroyed (u c : uuid)
| EvServiceCreated (ou oc su sc : uuid)
| EvServiceDestroyed (ou oc su sc : uuid).

(* aldrin_core::BusListenerFilter *)
Inductive bfilter :=
| FObject (o : option uuid)
| FService (o : option uuid) (s : option uuid).

Definition opt_matches (f : option uuid) (u : uuid) : bool :=
  match f with None => true | Some x => N.eqb x u end.
Definition matches_object (f : bfilter) (u : uuid) : bool :=
  match f with FObject o => opt_matches o u | FService _ _ => false end.
Definition matches_service (f : bfilter) (ou su : uuid) : bool :=
  match f with FObject _ => false | FService o s => opt_matches o ou && opt_matches s su end.
Definition matches_event (f : bfilter) (ev : bus_event) : bool :=
  match ev with
  | EvObjectCreated u _ | EvObjectDestroyed u _ => matches_object f u
  | EvServiceCreated ou _ su _ | EvServiceDestroyed ou _ su _ => matches_service f ou su
  end.
(* BusListenerHandle::matches_filters *)
Definition matches_filters (fs : list bfilter) (ev : bus_event) : bool :=
  existsb (fun f => matches_event f ev) fs.

(* DiscovererEvent { key, kind, object } *)
Inductive dkind := Created | Destroyed.
Record devent := mkDev { de_key : N; de_kind : dkind; de_u : uuid; de_c : uuid }.

(* ------------------------------------------------------------------ outcomes *)
Inductive site :=
| AnyObjectCreatedDup          (* any.rs object_created: debug_assert_eq!(dup, None) *)
| AnyObjectDestroyedCookie     (* any.rs object_destroyed: debug_assert_eq!(cookie, id.cookie) *)
| AnyServiceCreatedDup         (* any.rs service_created: debug_assert_eq!(dup, None) (service map) *)
| AnyServiceCreatedObjDup      (* any.rs service_created: debug_assert_eq!(dup, None) (created map) *)
| AnyServiceDestroyedCookie    (* any.rs service_destroyed: debug_assert_eq!(cookie, Some(id.cookie)) *)
| AnyServiceDestroyedObjCookie (* any.rs service_destroyed: debug_assert_eq!(cookie, id.object_id.cookie) *)
| WithServiceCreatedDup        (* specific_with_services.rs: debug_assert!(service.is_none()) *)
| WithServiceDestroyedCookie   (* specific_with_services.rs: debug_assert_eq!( *service, Some(id.cookie)) *)
| WithoutObjectCreatedDup      (* specific_without_services.rs: debug_assert!(self.cookie.is_none()) *)
| WithoutObjectDestroyedCookie (* specific_without_services.rs: debug_assert_eq!(self.cookie, Some(id.cookie)) *)
| QueryWrongObject             (* assert_eq!(object, self.object) in object_id of the specific kinds *)
| QueryInvalidService          (* expect("valid service UUID") / panic!("invalid service UUID") *)
| QueryUnwrapNone              (* unwrap() of a missing service cookie / of service_ids' None *)
| EventNotCreated.             (* event.rs service_ids: assert_eq!(self.kind, Created) *)

Inductive res (A : Type) := Ok (a : A) | Panic (s : site).
Arguments Ok {A} a.
Arguments Panic {A} s.

Definition bind {A B} (r : res A) (f : A -> res B) : res B :=
  match r with Ok a => f a | Panic s => Panic s end.

(* ------------------------------------------------------------------ association lists *)
Fixpoint aget {V} (m : list (uuid * V)) (k : uuid) : option V :=
  match m with
  | [] => None
  | (k', v) :: m' => if N.eqb k' k then Some v else aget m' k
  end.
(* HashMap::remove *)
Definition adel {V} (m : list (uuid * V)) (k : uuid) : list (uuid * V) :=
  filter (fun p => negb (N.eqb (fst p) k)) m.
(* HashMap::insert (the old value is [aget m k]) *)
Definition aset {V} (m : list (uuid * V)) (k : uuid) (v : V) : list (uuid * V) :=
  (k, v) :: adel m k.
(* assignment through get_mut: the key stays where it is *)
Definition aupd {V} (m : list (uuid * V)) (k : uuid) (v : V) : list (uuid * V) :=
  map (fun p => if N.eqb (fst p) k then (fst p, v) else p) m.

Definition is_some {A} (o : option A) : bool := match o with Some _ => true | None => false end.
Definition opt_eqb (a b : option uuid) : bool :=
  match a, b with
  | Some x, Some y => N.eqb x y
  | None, None => true
  | _, _ => false
  end.

(* collecting an iterator of service UUIDs into a HashMap keeps each key once *)
Fixpoint dedup (l : list uuid) : list uuid :=
  match l with
  | [] => []
  | x :: l' => if existsb (N.eqb x) l' then dedup l' else x :: dedup l'
  end.

(* ------------------------------------------------------------------ entries *)
(* what DiscovererBuilder::add is given *)
Record espec := mkSpec { sp_key : N; sp_obj : option uuid; sp_svcs : list uuid }.
Definition sp_req (sp : espec) : list uuid := dedup (sp_svcs sp).

Inductive entry :=
(* AnyObject { key, services: HashMap<ServiceUuid, HashMap<ObjectUuid, ServiceCookie>>,
               created: HashMap<ObjectUuid, ObjectCookie> } *)
| EAny (key : N) (services : list (uuid * list (uuid * uuid))) (created : list (uuid * uuid))
(* SpecificObjectWithServices { key, object, cookie, services: HashMap<ServiceUuid, Option<ServiceCookie>> } *)
| ESpecWith (key : N) (object : uuid) (cookie : option uuid) (services : list (uuid * option uuid))
(* SpecificObjectWithoutServices { key, object, cookie } *)
| ESpecWithout (key : N) (object : uuid) (cookie : option uuid).

(* DiscovererBuilder::add -> SpecificObject::new / AnyObject::new *)
Definition entry_new (sp : espec) : entry :=
  match sp_obj sp with
  | Some o =>
      match sp_req sp with
      | [] => ESpecWithout (sp_key sp) o None
      | req => ESpecWith (sp_key sp) o None (map (fun s => (s, None)) req)
      end
  | None => EAny (sp_key sp) (map (fun s => (s, [])) (sp_req sp)) []
  end.

(* reset() of the three structs *)
Definition entry_reset (e : entry) : entry :=
  match e with
  | EAny k services _ => EAny k (map (fun p => (fst p, [])) services) []
  | ESpecWith k o _ services => ESpecWith k o None (map (fun p => (fst p, None)) services)
  | ESpecWithout k o _ => ESpecWithout k o None
  end.

(* add_filter() of the three structs *)
Definition entry_filters (e : entry) : list bfilter :=
  match e with
  | EAny _ [] _ => [FObject None]
  | EAny _ services _ => map (fun p => FService None (Some (fst p))) services
  | ESpecWith _ o _ services => map (fun p => FService (Some o) (Some (fst p))) services
  | ESpecWithout _ o _ => [FObject (Some o)]
  end.

Definition entry_key (e : entry) : N :=
  match e with EAny k _ _ | ESpecWith k _ _ _ | ESpecWithout k _ _ => k end.

(* ---- AnyObject ---- *)
Definition any_object_created (k : N) (services : list (uuid * list (uuid * uuid)))
    (created : list (uuid * uuid)) (u c : uuid) : res (entry * option devent) :=
  match services with
  | [] =>
      match aget created u with
      | Some _ => Panic AnyObjectCreatedDup
      | None => Ok (EAny k services (aset created u c), Some (mkDev k Created u c))
      end
  | _ => Ok (EAny k services created, None)
  end.

Definition any_object_destroyed (k : N) (services : list (uuid * list (uuid * uuid)))
    (created : list (uuid * uuid)) (u c : uuid) : res (entry * option devent) :=
  match aget created u with
  | Some cookie =>
      if N.eqb cookie c
      then Ok (EAny k services (adel created u), Some (mkDev k Destroyed u c))
      else Panic AnyObjectDestroyedCookie
  | None => Ok (EAny k services created, None)
  end.

Definition any_service_created (k : N) (services : list (uuid * list (uuid * uuid)))
    (created : list (uuid * uuid))
    (ou oc su sc : uuid) : res (entry * option devent) :=
  match aget services su with
  | None => Ok (EAny k services created, None)
  | Some m =>
      match aget m ou with
      | Some _ => Panic AnyServiceCreatedDup
      | None =>
          let services' := aupd services su (aset m ou sc) in
          if forallb (fun p => is_some (aget (snd p) ou)) services'
          then match aget created ou with
               | Some _ => Panic AnyServiceCreatedObjDup
               | None => Ok (EAny k services' (aset created ou oc), Some (mkDev k Created ou oc))
               end
          else Ok (EAny k services' created, None)
      end
  end.

Definition any_service_destroyed (k : N) (services : list (uuid * list (uuid * uuid)))
    (created : list (uuid * uuid))
    (ou oc su sc : uuid) : res (entry * option devent) :=
  match aget services su with
  | None => Ok (EAny k services created, None)
  | Some m =>
      if opt_eqb (aget m ou) (Some sc)
      then
        let services' := aupd services su (adel m ou) in
        match aget created ou with
        | Some cookie =>
            if N.eqb cookie oc
            then Ok (EAny k services' (adel created ou), Some (mkDev k Destroyed ou oc))
            else Panic AnyServiceDestroyedObjCookie
        | None => Ok (EAny k services' created, None)
        end
      else Panic AnyServiceDestroyedCookie
  end.

(* ---- SpecificObjectWithServices ---- *)
Definition with_service_created (k : N) (o : uuid) (cookie : option uuid)
    (services : list (uuid * option uuid))
    (ou oc su sc : uuid) : res (entry * option devent) :=
  if negb (N.eqb ou o) then Ok (ESpecWith k o cookie services, None)
  else match aget services su with
       | None => Ok (ESpecWith k o cookie services, None)
       | Some (Some _) => Panic WithServiceCreatedDup
       | Some None =>
           let services' := aupd services su (Some sc) in
           if forallb (fun p => is_some (snd p)) services'
           then Ok (ESpecWith k o (Some oc) services', Some (mkDev k Created ou oc))
           else Ok (ESpecWith k o cookie services', None)
       end.

Definition with_service_destroyed (k : N) (o : uuid) (cookie : option uuid)
    (services : list (uuid * option uuid))
    (ou oc su sc : uuid) : res (entry * option devent) :=
  if negb (N.eqb ou o) then Ok (ESpecWith k o cookie services, None)
  else match aget services su with
       | None => Ok (ESpecWith k o cookie services, None)
       | Some cur =>
           if opt_eqb cur (Some sc)
           then
             let services' := aupd services su None in
             match cookie with
             | Some _ => Ok (ESpecWith k o None services', Some (mkDev k Destroyed ou oc))
             | None => Ok (ESpecWith k o None services', None)
             end
           else Panic WithServiceDestroyedCookie
       end.

(* ---- SpecificObjectWithoutServices ---- *)
Definition without_object_created (k : N) (o : uuid) (cookie : option uuid) (u c : uuid)
    : res (entry * option devent) :=
  if negb (N.eqb u o) then Ok (ESpecWithout k o cookie, None)
  else match cookie with
       | Some _ => Panic WithoutObjectCreatedDup
       | None => Ok (ESpecWithout k o (Some c), Some (mkDev k Created u c))
       end.

Definition without_object_destroyed (k : N) (o : uuid) (cookie : option uuid) (u c : uuid)
    : res (entry * option devent) :=
  if negb (N.eqb u o) then Ok (ESpecWithout k o cookie, None)
  else if opt_eqb cookie (Some c)
       then Ok (ESpecWithout k o None, Some (mkDev k Destroyed u c))
       else Panic WithoutObjectDestroyedCookie.

(* DiscovererEntry::handle_event: one bus event, at most one discoverer event *)
Definition entry_step (e : entry) (ev : bus_event) : res (entry * option devent) :=
  match e with
  | EAny k services created =>
      match ev with
      | EvObjectCreated u c => any_object_created k services created u c
      | EvObjectDestroyed u c => any_object_destroyed k services created u c
      | EvServiceCreated ou oc su sc => any_service_created k services created ou oc su sc
      | EvServiceDestroyed ou oc su sc => any_service_destroyed k services created ou oc su sc
      end
  | ESpecWith k o cookie services =>
      match ev with
      | EvServiceCreated ou oc su sc => with_service_created k o cookie services ou oc su sc
      | EvServiceDestroyed ou oc su sc => with_service_destroyed k o cookie services ou oc su sc
      | EvObjectCreated _ _ | EvObjectDestroyed _ _ => Ok (e, None)
      end
  | ESpecWithout k o cookie =>
      match ev with
      | EvObjectCreated u c => without_object_created k o cookie u c
      | EvObjectDestroyed u c => without_object_destroyed k o cookie u c
      | EvServiceCreated _ _ _ _ | EvServiceDestroyed _ _ _ _ => Ok (e, None)
      end
  end.

Definition olist {A} (o : option A) : list A := match o with Some a => [a] | None => [] end.

(* the fold of one entry over the listener's events, collecting what it emits *)
Fixpoint entry_run (e : entry) (l : list bus_event) : res (entry * list devent) :=
  match l with
  | [] => Ok (e, [])
  | ev :: l' =>
      bind (entry_step e ev) (fun r =>
      bind (entry_run (fst r) l') (fun r' =>
      Ok (fst r', olist (snd r) ++ snd r')))
  end.

(* ------------------------------------------------------------------ the entry's view *)
(* iter(): the found objects as ObjectIds *)
Definition entry_iter (e : entry) : list (uuid * uuid) :=
  match e with
  | EAny _ _ created => created
  | ESpecWith _ o cookie _ | ESpecWithout _ o cookie =>
      match cookie with Some c => [(o, c)] | None => [] end
  end.

(* object_id(object): the cookie *)
Definition entry_object_id (e : entry) (u : uuid) : res (option uuid) :=
  match e with
  | EAny _ _ created => Ok (aget created u)
  | ESpecWith _ o cookie _ | ESpecWithout _ o cookie =>
      if N.eqb u o then Ok cookie else Panic QueryWrongObject
  end.

(* service_id(object, service): (object cookie, service cookie) *)
Definition entry_service_id (e : entry) (u s : uuid) : res (option (uuid * uuid)) :=
  match e with
  | EAny _ services created =>
      match aget created u with
      | None => Ok None
      | Some c =>
          match aget services s with
          | None => Panic QueryInvalidService
          | Some m => match aget m u with
                      | None => Panic QueryUnwrapNone
                      | Some sc => Ok (Some (c, sc))
                      end
          end
      end
  | ESpecWith _ o cookie services =>
      if N.eqb u o then
        match cookie with
        | None => Ok None
        | Some c =>
            match aget services s with
            | None => Panic QueryInvalidService
            | Some None => Panic QueryUnwrapNone
            | Some (Some sc) => Ok (Some (c, sc))
            end
        end
      else Panic QueryWrongObject
  | ESpecWithout _ _ _ => Ok None          (* SpecificObject::service_id: WithoutServices(_) => None *)
  end.

(* service_ids(object, services) as used by DiscovererEvent::service_ids *)
Fixpoint mapM {A B} (f : A -> res B) (l : list A) : res (list B) :=
  match l with
  | [] => Ok []
  | a :: l' => bind (f a) (fun b => bind (mapM f l') (fun bs => Ok (b :: bs)))
  end.

Definition entry_service_ids (e : entry) (u : uuid) (ss : list uuid) : res (option (list (uuid * uuid))) :=
  match e with
  | ESpecWithout _ o _ =>
      if N.eqb u o then
        match ss with [] => Ok (Some []) | _ => Panic QueryInvalidService end
      else Panic QueryWrongObject
  | _ =>
      bind (entry_object_id e u) (fun oc =>
      match oc with
      | None => Ok None
      | Some _ =>
          bind (mapM (fun s => bind (entry_service_id e u s) (fun r =>
                                match r with Some p => Ok p | None => Panic QueryUnwrapNone end)) ss)
               (fun l => Ok (Some l))
      end)
  end.

Definition entry_contains (e : entry) (u : uuid) : bool :=
  match e with
  | EAny _ _ created => is_some (aget created u)
  | ESpecWith _ o cookie _ | ESpecWithout _ o cookie => is_some cookie && N.eqb u o
  end.
Definition entry_contains_any (e : entry) : bool :=
  match entry_iter e with [] => false | _ => true end.

(* ------------------------------------------------------------------ Discoverer *)
(* Discoverer::poll_next_event, the part that feeds one listener event to every entry
   (`for entry in self.entries.values_mut()`; the order among entries is HashMap order) *)
Fixpoint disc_step (es : list entry) (ev : bus_event) : res (list entry * list devent) :=
  match es with
  | [] => Ok ([], [])
  | e :: es' =>
      bind (entry_step e ev) (fun r =>
      bind (disc_step es' ev) (fun r' =>
      Ok (fst r :: fst r', olist (snd r) ++ snd r')))
  end.

Fixpoint disc_run (es : list entry) (l : list bus_event) : res (list entry * list devent) :=
  match l with
  | [] => Ok (es, [])
  | ev :: l' =>
      bind (disc_step es ev) (fun r =>
      bind (disc_run (fst r) l') (fun r' =>
      Ok (fst r', snd r ++ snd r')))
  end.

Definition disc_new (sps : list espec) : list entry := map entry_new sps.
(* Discoverer::stop, after the listener is drained: every entry reset, the event queue cleared *)
Definition disc_reset (es : list entry) : list entry := map entry_reset es.
Definition disc_filters (es : list entry) : list bfilter := flat_map entry_filters es.

(* Discoverer::next_event for a single entry: feed listener events one at a time until the
   entry emits; the answer is the event, the entry state at that moment (what
   `ev.service_ids(&discoverer, ..)` then reads) and the listener events not yet consumed *)
Fixpoint entry_next (e : entry) (l : list bus_event)
    : res (option (devent * entry * list bus_event)) :=
  match l with
  | [] => Ok None
  | ev :: l' =>
      bind (entry_step e ev) (fun r =>
      match snd r with
      | Some d => Ok (Some (d, fst r, l'))
      | None => entry_next (fst r) l'
      end)
  end.

(* Handle::find_object (l = the current entities the listener delivers before it finishes) and
   Handle::wait_for_object (l = current entities followed by the new events), up to the
   listener ending ([None]: find_object answers Ok(None), wait_for_object Err(Shutdown)):
   (ObjectId, the ServiceIds in the order of [sp_svcs]) *)
Definition find_object (sp : espec) (l : list bus_event)
    : res (option (uuid * uuid * list (uuid * uuid))) :=
  bind (entry_next (entry_new sp) l) (fun r =>
  match r with
  | None => Ok None
  | Some (d, e, _) =>
      match de_kind d with Destroyed => Panic EventNotCreated | Created =>
      bind (entry_service_ids e (de_u d) (sp_svcs sp)) (fun ids =>
      match ids with
      | Some ids => Ok (Some (de_u d, de_c d, ids))
      | None => Panic QueryUnwrapNone
      end)
      end
  end).

(* ------------------------------------------------------------------ what exists on the bus *)
(* the objects and services a sequence of bus events leaves alive, and the cookies it has used *)
Record truth := mkTruth {
  t_objs : list (uuid * uuid);                    (* object uuid -> cookie *)
  t_svcs : list (uuid * uuid * uuid * uuid);      (* (object uuid, object cookie, service uuid, service cookie) *)
  t_used_o : list uuid;
  t_used_s : list uuid }.

Definition t_empty : truth := mkTruth [] [] [] [].

Definition svc_key_eqb (x : uuid * uuid * uuid * uuid) (ou su : uuid) : bool :=
  match x with (ou', _, su', _) => N.eqb ou' ou && N.eqb su' su end.
Definition svc_ou (x : uuid * uuid * uuid * uuid) : uuid := match x with (ou, _, _, _) => ou end.
Definition svc_oc (x : uuid * uuid * uuid * uuid) : uuid := match x with (_, oc, _, _) => oc end.

Fixpoint sget (l : list (uuid * uuid * uuid * uuid)) (ou su : uuid) : option (uuid * uuid) :=
  match l with
  | [] => None
  | x :: l' => if svc_key_eqb x ou su
               then match x with (_, oc, _, sc) => Some (oc, sc) end
               else sget l' ou su
  end.
Definition sdel (l : list (uuid * uuid * uuid * uuid)) (ou su : uuid) :=
  filter (fun x => negb (svc_key_eqb x ou su)) l.

Definition memb (x : uuid) (l : list uuid) : bool := existsb (N.eqb x) l.

Definition tstep (T : truth) (ev : bus_event) : truth :=
  match ev with
  | EvObjectCreated u c => mkTruth ((u, c) :: t_objs T) (t_svcs T) (c :: t_used_o T) (t_used_s T)
  | EvObjectDestroyed u c => mkTruth (adel (t_objs T) u) (t_svcs T) (t_used_o T) (t_used_s T)
  | EvServiceCreated ou oc su sc =>
      mkTruth (t_objs T) ((ou, oc, su, sc) :: t_svcs T) (t_used_o T) (sc :: t_used_s T)
  | EvServiceDestroyed ou oc su sc => mkTruth (t_objs T) (sdel (t_svcs T) ou su) (t_used_o T) (t_used_s T)
  end.

Definition trun (T : truth) (l : list bus_event) : truth := fold_left tstep l T.

Definition pair_eqb (a : option (uuid * uuid)) (oc sc : uuid) : bool :=
  match a with Some (x, y) => N.eqb x oc && N.eqb y sc | None => false end.

(* What one listener can be handed next, given what it has been handed so far (DESIGN C10, as
   seen through ANY set of filters: object events of an object need not be visible, so "the
   object is created before its services" is not demanded here; Bus.v derives this notion from
   a well-formed bus history and a filter set):
   - an object UUID is created only while no object of that UUID is alive, with a cookie that
     was not used before;
   - an object is destroyed only if alive with that very cookie, and after all its (visible)
     services;
   - a service is created only while its (object UUID, service UUID) slot is free, with a fresh
     cookie, and all alive services of one object UUID carry the same object cookie;
   - a service is destroyed only if alive with those very cookies. *)
Definition legalb (T : truth) (ev : bus_event) : bool :=
  match ev with
  | EvObjectCreated u c => negb (is_some (aget (t_objs T) u)) && negb (memb c (t_used_o T))
  | EvObjectDestroyed u c =>
      opt_eqb (aget (t_objs T) u) (Some c) && forallb (fun x => negb (N.eqb (svc_ou x) u)) (t_svcs T)
  | EvServiceCreated ou oc su sc =>
      negb (is_some (sget (t_svcs T) ou su))
      && forallb (fun x => if N.eqb (svc_ou x) ou then N.eqb (svc_oc x) oc else true) (t_svcs T)
      && negb (memb sc (t_used_s T))
  | EvServiceDestroyed ou oc su sc => pair_eqb (sget (t_svcs T) ou su) oc sc
  end.

Fixpoint deliverable_from (T : truth) (l : list bus_event) : bool :=
  match l with
  | [] => true
  | ev :: l' => legalb T ev && deliverable_from (tstep T ev) l'
  end.
Definition deliverableb (l : list bus_event) : bool := deliverable_from t_empty l.
Definition deliverable (l : list bus_event) : Prop := deliverableb l = true.

(* index of the first illegal event (for the driver's diagnostics) *)
Fixpoint first_illegal (T : truth) (l : list bus_event) (i : N) : option N :=
  match l with
  | [] => None
  | ev :: l' => if legalb T ev then first_illegal (tstep T ev) l' (i + 1) else Some i
  end.

(* ------------------------------------------------------------------ the specification side *)
(* does object (u, c) exist, match the entry and carry every required service? *)
Definition req_ok (T : truth) (u c : uuid) (req : list uuid) : bool :=
  forallb (fun s => match sget (t_svcs T) u s with Some (oc, _) => N.eqb oc c | None => false end) req.
Definition matchingb (T : truth) (sp : espec) (u c : uuid) : bool :=
  opt_matches (sp_obj sp) u
  && match sp_req sp with
     | [] => opt_eqb (aget (t_objs T) u) (Some c)
     | req => req_ok T u c req
     end.

(* the object a bus event is about *)
Definition ev_obj (ev : bus_event) : uuid * uuid :=
  match ev with
  | EvObjectCreated u c | EvObjectDestroyed u c => (u, c)
  | EvServiceCreated ou oc _ _ | EvServiceDestroyed ou oc _ _ => (ou, oc)
  end.

(* the transition of the entry's set caused by one bus event *)
Definition delta (T : truth) (ev : bus_event) (sp : espec) : option devent :=
  let (u, c) := ev_obj ev in
  match matchingb T sp u c, matchingb (tstep T ev) sp u c with
  | false, true => Some (mkDev (sp_key sp) Created u c)
  | true, false => Some (mkDev (sp_key sp) Destroyed u c)
  | _, _ => None
  end.

(* all transitions along a sequence, in order *)
Fixpoint transitions (T : truth) (l : list bus_event) (sp : espec) : list devent :=
  match l with
  | [] => []
  | ev :: l' => olist (delta T ev sp) ++ transitions (tstep T ev) l' sp
  end.

(* the events of the current-entities phase of a listener start are creations only *)
Definition is_creation (ev : bus_event) : bool :=
  match ev with EvObjectCreated _ _ | EvServiceCreated _ _ _ _ => true | _ => false end.
