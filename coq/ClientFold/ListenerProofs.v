(* ClientFold/ListenerProofs.v — what `BusListener::poll_next_event` hands over, given what the
   client queued.

   [drain_current]  a listener started with scope Current (Handle::find_object): exactly the
                    snapshot, in order, then None (finished) — without touching what follows
   [drain_all]      started with scope All (Discoverer, wait_for_object): the snapshot, then the
                    new events, in order; then Pending; never None, never an underflow
   [drain_stop]     Discoverer::stop: after stop(), everything queued before `Stopped` is handed
                    over, then None, and the listener is back in its initial state (so that the
                    following start(All) is [drain_all] again) *)
From Coq Require Import List NArith Bool Lia.
Import ListNotations.
From Aldrin Require Import ClientFold.Discoverer ClientFold.Listener.
Local Open Scope N_scope.

Lemma poll_event : forall alive l ev q,
  l_finished l = false -> l_poll alive l (BEvent ev :: q) = (l, q, PEvent ev).
Proof. intros alive l ev q H. cbn [l_poll]. now rewrite H. Qed.

Lemma poll_finished : forall alive l q, l_finished l = true -> l_poll alive l q = (l, q, PNone).
Proof. intros alive l q H. destruct q as [|x q]; cbn [l_poll]; now rewrite H. Qed.

Lemma drain_events : forall evs fuel alive l q,
  l_finished l = false ->
  l_drain (length evs + fuel) alive l (map BEvent evs ++ q) =
  match l_drain fuel alive l q with (evs', l', q', r) => (evs ++ evs', l', q', r) end.
Proof.
  induction evs as [|ev evs IH]; intros fuel alive l q H.
  - cbn [length map app Nat.add]. now destruct (l_drain fuel alive l q) as [[[a b] c] d].
  - cbn [length map app Nat.add]. cbn [l_drain]. rewrite poll_event by auto.
    rewrite IH by auto. now destruct (l_drain fuel alive l q) as [[[a b] c] d].
Qed.

Lemma drain_skip : forall f alive l l' x q,
  (forall q', l_poll alive l (x :: q') = l_poll alive l' q') ->
  l_drain (S f) alive l (x :: q) = l_drain (S f) alive l' q.
Proof. intros f alive l l' x q H. cbn [l_drain]. now rewrite H. Qed.

Definition l_steady (s : scope) : listener := mkL (Some s) 0 0 0 false.

(* find_object's listener: the snapshot, then None; [rest] is not touched *)
Lemma drain_current : forall alive cur rest,
  l_drain (S (length cur)) alive (l_start l_new SCurrent)
          (BStarted SCurrent :: map BEvent cur ++ BCurrentFinished :: rest)
  = (cur, l_steady SCurrent, rest, PNone).
Proof.
  intros alive cur rest.
  set (l1 := mkL (Some SCurrent) 0 0 1 false).
  rewrite (drain_skip _ _ _ l1) by reflexivity.
  replace (S (length cur)) with (length cur + 1)%nat by lia.
  rewrite drain_events by reflexivity.
  rewrite (drain_skip _ _ _ (l_steady SCurrent)) by reflexivity.
  cbn [l_drain]. rewrite poll_finished by reflexivity. now rewrite app_nil_r.
Qed.

(* the Discoverer's listener: snapshot, then stream, then Pending *)
Lemma drain_all : forall cur news,
  l_drain (S (length cur + length news)) true (l_start l_new SAll)
          (BStarted SAll :: map BEvent cur ++ BCurrentFinished :: map BEvent news)
  = (cur ++ news, l_steady SAll, [], PPending).
Proof.
  intros cur news.
  set (l1 := mkL (Some SAll) 0 0 1 false).
  rewrite (drain_skip _ _ _ l1) by reflexivity.
  replace (S (length cur + length news)) with (length cur + S (length news))%nat by lia.
  rewrite drain_events by reflexivity.
  rewrite (drain_skip _ _ _ (l_steady SAll)) by reflexivity.
  replace (S (length news)) with (length news + 1)%nat by lia.
  rewrite <- (app_nil_r (map BEvent news)). rewrite drain_events by reflexivity.
  cbn. rewrite ?app_nil_r. reflexivity.
Qed.

(* at every point in between it is Pending, not None: the stream never ends while started *)
Lemma never_finished_all : forall l, l_scope l = Some SAll -> l_term l = false -> l_finished l = false.
Proof. intros l H T. unfold l_finished, l_includes_new. now rewrite H, T. Qed.

(* Discoverer::stop: `listener.stop().await; while self.next_event().await.is_some() {}` *)
Lemma drain_stop : forall alive evs rest,
  l_drain (S (length evs)) alive (l_stop (l_steady SAll)) (map BEvent evs ++ BStopped :: rest)
  = (evs, l_new, rest, PNone).
Proof.
  intros alive evs rest.
  replace (S (length evs)) with (length evs + 1)%nat by lia.
  rewrite drain_events by reflexivity.
  rewrite (drain_skip _ _ _ l_new) by reflexivity.
  cbn [l_drain]. rewrite poll_finished by reflexivity. now rewrite app_nil_r.
Qed.
