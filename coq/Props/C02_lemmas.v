(* Props/C02_lemmas.v — concrete small histories on which the hypotheses of the C02 theorems are
   checked to be satisfiable (by computation); the proofs themselves are in Broker/CallProofs.v *)
From stdpp Require Import gmap list.
From RecordUpdate Require Import RecordSet.
Import RecordSetNotations.
From Aldrin Require Import gen.BrokerConsts Broker.Model Broker.Run Broker.OutKinds Broker.EventProofs
  Broker.CallProofs.
Local Open Scope N_scope.

Definition inp (e : event) (f : uuid) (b : option N) : input := {| i_ev := e; i_fresh := f; i_bserial := b |}.

Definition state_after (h : list input) : state :=
  match run init h with Done (s, _) | Fail (s, _) => s | Panic _ => init end.
Definition outs_after (h : list input) : list (list out) :=
  match run init h with Done (_, o) | Fail (_, o) => o | Panic _ => [] end.
Definition get_conn (s : state) (c : conn) : cstate :=
  default {| cs_ver := 0; cs_alive := false; cs_calls := ∅ |} (conns s !! c).
Definition get_call (s : state) (b : N) : call :=
  default {| c_caller := 0; c_serial := 0; c_svc := (0, 0); c_aborted := false |} (calls s !! b).
Definition get_svc (s : state) (k : uuid * uuid) : svc :=
  default {| s_cookie := 0; s_obj_cookie := 0; s_info := {| i_version := 0; i_type_id := None; i_sub_all := None |};
             s_events := ∅; s_all := ∅; s_subs := ∅; s_calls := ∅ |} (svcs s !! k).

(* connection 1 (version 20) owns object 100 (cookie 1000) with service 200 (cookie 1001);
   connections 2 (version 20) and 3 (version 14) are clients *)
Definition h_base : list input := [
  inp (NewConnection 1 20) 0 None; inp (NewConnection 2 20) 0 None; inp (NewConnection 3 14) 0 None;
  inp (Message 1 (CreateObject 0 100)) 1000 None;
  inp (Message 1 (CreateService2 1 1000 200 (Some {| i_version := 1; i_type_id := None; i_sub_all := Some true |}))) 1001 None ].

(* connection 2 has called function 3 of the service with its serial 9; broker serial 0 *)
Definition h_called : list input := h_base ++ [ inp (Message 2 (CallFunction 9 1001 3 77)) 0 (Some 0) ].

(* ... and connection 3 too, with the same caller serial 9; broker serial 1 *)
Definition h_called2 : list input := h_called ++ [ inp (Message 3 (CallFunction 9 1001 3 78)) 0 (Some 1) ].

Example run_ok : match run init h_called2 with Done _ => True | _ => False end.
Proof. vm_compute. exact I. Qed.

Example invalid_service_sat :
  let s := state_after h_base in
  conns s !! 2 = Some (get_conn s 2) /\ cs_alive (get_conn s 2) = true /\
  is_call (get_conn s 2) (CallFunction 9 5555 3 77) 9 5555 3 None 77 /\ svc_by_cookie s 5555 = None.
Proof. cbv zeta. split; [vm_compute; reflexivity|]. split; [vm_compute; reflexivity|]. split; [left; split; reflexivity|vm_compute; reflexivity]. Qed.

Example call_forwarded_sat :
  let s := state_after h_base in
  conns s !! 2 = Some (get_conn s 2) /\ is_call (get_conn s 2) (CallFunction 9 1001 3 77) 9 1001 3 None 77 /\
  svc_by_cookie s 1001 = Some ((100, 200), get_svc s (100, 200)) /\ owner_of_svc s (100, 200) = Some 1 /\
  conns s !! 1 = Some (get_conn s 1) /\ cs_alive (get_conn s 1) = true /\
  pick_serial s (Some 0) = Some (0, 1) /\ cs_calls (get_conn s 2) !! 9 = None.
Proof. cbv zeta. repeat split; try (vm_compute; reflexivity); left; split; reflexivity. Qed.

Example reply_routed_sat :
  let s := state_after h_called in
  let cl := get_call s 0 in
  conns s !! 1 = Some (get_conn s 1) /\ calls s !! 0 = Some cl /\
  owner_of_svc s (c_svc cl) = Some 1 /\ svcs s !! c_svc cl = Some (get_svc s (c_svc cl)) /\
  0 ∈ s_calls (get_svc s (c_svc cl)) /\ c_aborted cl = false /\
  conns s !! c_caller cl = Some (get_conn s 2) /\ cs_alive (get_conn s 2) = true /\
  cs_calls (get_conn s 2) !! c_serial cl = Some (0, 1).
Proof. cbv zeta. repeat split; vm_compute; reflexivity. Qed.

Example reply_dropped_sat :
  let s := state_after h_called in
  conns s !! 3 = Some (get_conn s 3) /\
  exists cl owner sv, calls s !! 0 = Some cl /\ owner_of_svc s (c_svc cl) = Some owner /\
                      svcs s !! c_svc cl = Some sv /\ owner <> 3.
Proof.
  cbv zeta. split; [vm_compute; reflexivity|].
  exists (get_call (state_after h_called) 0), 1, (get_svc (state_after h_called) (100, 200)).
  repeat split; try (vm_compute; reflexivity). discriminate.
Qed.

Example abort_sat :
  let s := state_after h_called in
  let cl := get_call s 0 in
  conns s !! 2 = Some (get_conn s 2) /\ cs_alive (get_conn s 2) = true /\ 16 <= cs_ver (get_conn s 2) /\
  cs_calls (get_conn s 2) !! 9 = Some (0, 1) /\ calls s !! 0 = Some cl /\ c_caller cl = 2 /\ c_serial cl = 9 /\
  c_aborted cl = false /\
  (forall ccs, conns s !! 1 = Some ccs -> 16 <= cs_ver ccs -> cs_alive ccs = true).
Proof.
  cbv zeta. repeat split; try (vm_compute; reflexivity).
  - vm_compute. discriminate.
  - intros ccs H _. assert (E : conns (state_after h_called) !! 1 = Some (get_conn (state_after h_called) 1)) by (vm_compute; reflexivity).
    rewrite E in H. injection H as <-. vm_compute. reflexivity.
Qed.

(* destroying the service with two pending calls: both callers are answered InvalidService *)
Example destroyed_run :
  outs_after (h_called2 ++ [inp (Message 1 (DestroyService 5 1001)) 0 None]) !! 7%nat =
  Some [(1, DestroyServiceReply 5 R3Ok, None);
        (3, CallFunctionReply 9 CRInvalidService, None); (2, CallFunctionReply 9 CRInvalidService, None)].
Proof. vm_compute. reflexivity. Qed.

(* the owner disconnects: the same *)
Example owner_disconnect_run :
  outs_after (h_called2 ++ [inp (ConnectionShutdown 1) 0 None]) !! 7%nat =
  Some [(3, CallFunctionReply 9 CRInvalidService, None); (2, CallFunctionReply 9 CRInvalidService, None)].
Proof. vm_compute. reflexivity. Qed.

(* reply, then a duplicate of it, then an abort for the other call and the late reply to it *)
Example reply_abort_run :
  drop 7 (outs_after (h_called2 ++ [
    inp (Message 1 (CallFunctionReply 0 (CROk 5))) 0 None;
    inp (Message 1 (CallFunctionReply 0 (CROk 6))) 0 None;
    inp (Message 3 (CallFunctionReply 1 (CROk 7))) 0 None;
    inp (Message 2 (CallFunction 9 1001 3 79)) 0 (Some 2);
    inp (Message 2 (AbortFunctionCall 9)) 0 None;
    inp (Message 1 (CallFunctionReply 2 (CROk 8))) 0 None ])) =
  [ [(2, CallFunctionReply 9 (CROk 5), Some 20)]; []; [];
    [(1, CallFunction2 2 1001 3 None 79, Some 20)];
    [(1, AbortFunctionCall 2, None); (2, CallFunctionReply 9 CRAborted, None)]; [] ].
Proof. vm_compute. reflexivity. Qed.

(* ---- steps with a callee whose receiver is gone (DropTask 1: the owner's connection task was
   dropped, the broker has not noticed yet) *)
(* a call: nothing can be forwarded; the owner is removed, its service destroyed, and the caller is
   answered InvalidService within the same step; nothing of the call is left *)
Example dead_callee_call_run :
  let h := h_base ++ [inp (DropTask 1) 0 None; inp (Message 2 (CallFunction 9 1001 3 77)) 0 (Some 0)] in
  drop 6 (outs_after h) = [[(2, CallFunctionReply 9 CRInvalidService, None)]] /\
  conns (state_after h) !! 1 = None /\ svcs (state_after h) !! (100, 200) = None /\ calls (state_after h) !! 0 = None.
Proof. cbv zeta. repeat split; vm_compute; reflexivity. Qed.

(* an abort while the service is about to be destroyed (the callee's removal is triggered by the
   failed AbortFunctionCall notice): the caller gets exactly Aborted; the destruction of the
   service later in the same step finds the call marked aborted and makes no second reply *)
Example dead_callee_abort_run :
  let h := h_called ++ [inp (DropTask 1) 0 None; inp (Message 2 (AbortFunctionCall 9)) 0 None] in
  drop 7 (outs_after h) = [[(2, CallFunctionReply 9 CRAborted, None)]] /\
  conns (state_after h) !! 1 = None /\ svcs (state_after h) !! (100, 200) = None /\ calls (state_after h) !! 0 = None.
Proof. cbv zeta. repeat split; vm_compute; reflexivity. Qed.

(* abort, then destruction in a later step: the aborted call (of connection 2) gets nothing more,
   the other pending call (of connection 3) gets InvalidService *)
Example abort_then_destroy_run :
  drop 7 (outs_after (h_called2 ++ [inp (Message 2 (AbortFunctionCall 9)) 0 None;
                                    inp (Message 1 (DestroyService 5 1001)) 0 None])) =
  [ [(1, AbortFunctionCall 0, None); (2, CallFunctionReply 9 CRAborted, None)];
    [(1, DestroyServiceReply 5 R3Ok, None); (3, CallFunctionReply 9 CRInvalidService, None)] ].
Proof. vm_compute. reflexivity. Qed.

(* the caller disconnects (its calls are aborted through the work queue: the callee is told, nobody
   is answered), then the service is destroyed *)
Example caller_gone_then_destroy_run :
  drop 7 (outs_after (h_called2 ++ [inp (ConnectionShutdown 2) 0 None;
                                    inp (Message 1 (DestroyService 5 1001)) 0 None])) =
  [ [(1, AbortFunctionCall 0, None)];
    [(1, DestroyServiceReply 5 R3Ok, None); (3, CallFunctionReply 9 CRInvalidService, None)] ].
Proof. vm_compute. reflexivity. Qed.

(* the hypotheses of C02_call_dead_callee / C02_call_dead_callee_answered are satisfiable *)
Example call_dead_callee_sat :
  let s := state_after (h_base ++ [inp (DropTask 1) 0 None]) in
  conns s !! 2 = Some (get_conn s 2) /\ is_call (get_conn s 2) (CallFunction 9 1001 3 77) 9 1001 3 None 77 /\
  svc_by_cookie s 1001 = Some ((100, 200), get_svc s (100, 200)) /\ owner_of_svc s (100, 200) = Some 1 /\
  conns s !! 1 = Some (get_conn s 1) /\ cs_alive (get_conn s 1) = false /\
  pick_serial s (Some 0) = Some (0, 1) /\ cs_calls (get_conn s 2) !! 9 = None.
Proof. cbv zeta. repeat split; try (vm_compute; reflexivity); left; split; reflexivity. Qed.

(* ================================================================ serial freshness (Broker/SerialProofs.v) *)
From Aldrin Require Import Broker.SerialAlloc Broker.SerialProofs Props.C11_lemmas.

(* a decision procedure for [legal_run] on concrete histories *)
Definition legal_b (s : state) (i : input) : bool :=
  bool_decide (i_fresh i ∉ cookies_in_use s) &&
  (match i_ev i with NewConnection c _ => negb (bool_decide (is_Some (conns s !! c))) | _ => true end) &&
  (N.of_nat (size (calls s)) <? 4294967296) &&
  (match i_bserial i with
   | Some b => match sm_choice s with Some (b', _) => bool_decide (b' = b) | None => false end
   | None => true
   end) &&
  (match i_ev i with
   | Message _ (CreateChannel _ (CReceiver cap)) | Message _ (ClaimChannelEnd _ _ (CReceiver cap))
   | Message _ (AddChannelCapacity _ cap) => cap <=? u32_max
   | _ => true
   end).
Fixpoint legal_run_b (s : state) (h : list input) : bool :=
  match h with
  | [] => true
  | i :: rest => legal_b s i &&
      match step s (i_ev i) (i_fresh i) (i_bserial i) with Done (s', _) => legal_run_b s' rest | _ => false end
  end.

Lemma legal_b_ok s i : legal_b s i = true -> legal s i.
Proof.
  unfold legal_b, legal. rewrite !andb_true_iff. intros ((((H1 & H2) & H3) & H4) & H5).
  apply bool_decide_eq_true in H1. apply N.ltb_lt in H3. split; [exact H1|]. split; [|split; [split; [exact H3|]|]].
  - destruct (i_ev i); try exact I. apply negb_true_iff, bool_decide_eq_false in H2.
    destruct (conns s !! c) eqn:E; [exfalso; eauto|reflexivity].
  - destruct (i_bserial i) as [b|]; [|exact I]. destruct (sm_choice s) as [[b' nxt]|]; [|discriminate].
    apply bool_decide_eq_true in H4 as ->. eauto.
  - destruct (i_ev i) as [| |c x| | | |]; try exact I. destruct x; try exact I.
    + destruct e; [exact I|]. by apply N.leb_le.
    + destruct e; [exact I|]. by apply N.leb_le.
    + by apply N.leb_le.
Qed.

Lemma legal_run_b_ok h : forall s, legal_run_b s h = true -> legal_run s h.
Proof.
  induction h as [|i rest IH]; intros s; cbn [legal_run_b legal_run]; [done|].
  rewrite andb_true_iff. intros [H1 H2]. split; [by apply legal_b_ok|]. intros s' o Hst. rewrite Hst in H2. by apply IH.
Qed.

(* connection 2 calls (broker serial 0), the owner answers (the table of pending calls is empty
   again), connection 3 calls (broker serial 1, NOT 0 again), the owner repeats its answer to
   the first call *)
Definition h_answered : list input := h_base ++
  [ inp (Message 2 (CallFunction 9 1001 3 77)) 0 (Some 0);
    inp (Message 1 (CallFunctionReply 0 (CROk 5))) 0 None ].
Definition h_next_call : list input := [ inp (Message 3 (CallFunction 9 1001 3 78)) 0 (Some 1) ].
Definition h_reuse : list input := h_answered ++ h_next_call ++ [ inp (Message 1 (CallFunctionReply 0 (CROk 5))) 0 None ].

Example serial_fresh_sat :
  legal_run init (h_answered ++ h_next_call) /\
  (exists s' os, run init (h_answered ++ h_next_call) = Done (s', os)) /\
  advanced init (h_answered ++ h_next_call) = 2 /\ serials init (h_answered ++ h_next_call) = [0; 1].
Proof.
  split; [apply legal_run_b_ok; vm_compute; reflexivity|]. split; [|split; vm_compute; reflexivity].
  vm_compute. eauto.
Qed.

Example duplicate_never_delivered_sat :
  legal_run init (h_answered ++ h_next_call) /\
  run init h_answered = Done (state_after h_answered, outs_after h_answered) /\
  run (state_after h_answered) h_next_call =
    Done (state_after (h_answered ++ h_next_call), drop 7 (outs_after (h_answered ++ h_next_call))) /\
  advanced init (h_answered ++ h_next_call) <= 4294967296 /\
  0 ∈ serials init h_answered /\ calls (state_after h_answered) !! 0 = None /\
  calls (state_after (h_answered ++ h_next_call)) !! 1 = Some (get_call (state_after (h_answered ++ h_next_call)) 1).
Proof.
  split; [apply legal_run_b_ok; vm_compute; reflexivity|].
  split; [vm_compute; reflexivity|]. split; [vm_compute; reflexivity|].
  split; [vm_compute; discriminate|]. split; [vm_compute; apply elem_of_list_here|]. split; vm_compute; reflexivity.
Qed.

Example duplicate_dropped_run :
  drop 5 (outs_after h_reuse) =
  [ [(1, CallFunction2 0 1001 3 None 77, Some 20)];
    [(2, CallFunctionReply 9 (CROk 5), Some 20)];
    [(1, CallFunction2 1 1001 3 None 78, Some 14)];
    [] ].
Proof. vm_compute. reflexivity. Qed.

(* ---- what the freshness theorem excludes: seeded defect C02-b.  SerialMap::insert with
   "if self.elems.is_empty() { self.next = 0; }" in front of the loop = the allocator started from
   0 whenever no call is pending.  [next] is read by the allocator only, so the broker machine
   with that allocator is [step] run from the state with [next] reset. *)
Definition reset_next (s : state) : state :=
  match map_to_list (calls s) with [] => s <| next := 0 |> | _ => s end.
Definition sm_choice_resetting (s : state) : option (N * N) := sm_choice (reset_next s).
Definition step_resetting (s : state) (e : event) (f : uuid) (bs : option N) : outcome (state * list out) :=
  step (reset_next s) e f bs.
Fixpoint run_resetting (s : state) (h : list input) : list (option (N * N) * list out) :=
  match h with
  | [] => []
  | i :: rest =>
      match step_resetting s (i_ev i) (i_fresh i) (i_bserial i) with
      | Done (s', o) | Fail (s', o) =>
          (if allocates (reset_next s) (i_ev i) then sm_choice_resetting s else None, o) :: run_resetting s' rest
      | Panic _ => []
      end
  end.
Definition h_reuse_unobserved : list input := h_base ++
  [ inp (Message 2 (CallFunction 9 1001 3 77)) 0 None;
    inp (Message 1 (CallFunctionReply 0 (CROk 5))) 0 None;
    inp (Message 3 (CallFunction 9 1001 3 78)) 0 None;
    inp (Message 1 (CallFunctionReply 0 (CROk 5))) 0 None ].

(* two successive calls get broker serial 0, and the owner's repeated answer to the first call
   is delivered to the second caller *)
Example resetting_allocator_reuses :
  drop 5 (run_resetting init h_reuse_unobserved) =
  [ (Some (0, 1), [(1, CallFunction2 0 1001 3 None 77, Some 20)]);
    (None,        [(2, CallFunctionReply 9 (CROk 5), Some 20)]);
    (Some (0, 1), [(1, CallFunction2 0 1001 3 None 78, Some 14)]);
    (None,        [(3, CallFunctionReply 9 (CROk 5), Some 20)]) ].
Proof. vm_compute. reflexivity. Qed.
