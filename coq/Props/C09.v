(* Props/C09.v — Disconnect and shutdown cleanup: no residual state, exact counters.
   Only statements, [exact] proofs and Print Assumptions.  The machine is Broker/Model.v ([step]:
   one dequeued broker event handled atomically together with the work loop it triggers),
   histories and [legal]/[reachable] are Broker/Run.v.
   [stats_ok s]: each of the five published gauges equals the size of its map.
   [no_ref c s]: no object or bus listener is owned by c, no channel end is claimed by c, and c is
   in no service's all-events, service-subscription or per-event subscriber set. *)
From stdpp Require Import gmap list.
From Aldrin Require Import gen.BrokerConsts Broker.Model Broker.Run Broker.StatsProofs
  Broker.CleanupProofs Props.C09_lemmas.
Local Open Scope N_scope.

(* ---- 1. the statistics counters are exact: preserved by every legal step, hence in every
        reachable state *)
Theorem C09_stats_step : forall s i s' o,
  stats_ok s -> legal s i -> step s (i_ev i) (i_fresh i) (i_bserial i) = Done (s', o) -> stats_ok s'.
Proof. exact stats_step_legal. Qed.
Print Assumptions C09_stats_step.

Theorem C09_stats : forall s, reachable s -> stats_ok s.
Proof. exact stats_reachable. Qed.
Print Assumptions C09_stats.

(* ---- 5. the run loop's exit test, and an idle-shutdown request is recorded *)
Theorem C09_idle : forall s,
  exits s = true <-> shutdown_now s = true \/ (shutdown_idle s = true /\ conns s = ∅).
Proof. exact exits_iff. Qed.
Print Assumptions C09_idle.

Theorem C09_idle_set : forall s f b s' o,
  step s ShutdownIdleBroker f b = Done (s', o) -> shutdown_idle s' = true.
Proof. exact idle_set. Qed.
Print Assumptions C09_idle_set.

(* ---- 2. a connection that ends (transport side or forced by the handle) is gone after the
        step, and no step makes a connection appear except NewConnection for that very id *)
Theorem C09_conn_gone : forall s c e f b s' o,
  e = ConnectionShutdown c \/ e = ShutdownConnection c ->
  step s e f b = Done (s', o) -> conns s' !! c = None.
Proof. exact conn_gone_ev. Qed.
Print Assumptions C09_conn_gone.

Theorem C09_conns_shrink : forall s e f b s' o,
  step s e f b = Done (s', o) ->
  forall c', conns s' !! c' <> None -> conns s !! c' <> None \/ exists ver, e = NewConnection c' ver.
Proof. exact conns_shrink. Qed.
Print Assumptions C09_conns_shrink.

(* ---- 3. everything the connection owned or subscribed to is released.  The state must be
        reachable: the removal looks objects up by cookie, which needs cookies to be distinct
        (second theorem: that is the only fact about reachable states used); on an unreachable
        state with a duplicated cookie the statement is false (third theorem) *)
Theorem C09_release : forall s c cs e f b s' o,
  reachable s -> conns s !! c = Some cs ->
  e = ConnectionShutdown c \/ e = ShutdownConnection c ->
  step s e f b = Done (s', o) -> no_ref c s'.
Proof. exact release_ev. Qed.
Print Assumptions C09_release.

Theorem C09_release_unique_cookies : forall s c cs e f b s' o,
  obj_unique s -> conns s !! c = Some cs ->
  e = ConnectionShutdown c \/ e = ShutdownConnection c ->
  step s e f b = Done (s', o) -> no_ref c s'.
Proof. exact release_unique_ev. Qed.
Print Assumptions C09_release_unique_cookies.

Theorem C09_obj_cookies_unique : forall s, reachable s -> obj_unique s.
Proof. exact obj_unique_reachable. Qed.
Print Assumptions C09_obj_cookies_unique.

Theorem C09_release_any_state_refuted :
  exists s c cs s' o, conns s !! c = Some cs /\
    step s (ConnectionShutdown c) 0 None = Done (s', o) /\ ~ no_ref c s'.
Proof. exact release_without_unique_cookies_fails. Qed.
Print Assumptions C09_release_any_state_refuted.

(* ---- 4. a broker shutdown terminates with no connection left, and every connection whose
        receiver was alive got exactly one Shutdown message *)
Theorem C09_shutdown_broker : forall s f b s' o,
  step s ShutdownBroker f b = Done (s', o) ->
  shutdown_now s' = true /\ exits s' = true /\ conns s' = ∅.
Proof. exact shutdown_broker. Qed.
Print Assumptions C09_shutdown_broker.

Theorem C09_shutdown_broker_once : forall s f b s' o c cs,
  step s ShutdownBroker f b = Done (s', o) -> conns s !! c = Some cs -> cs_alive cs = true ->
  length (List.filter (fun x : out => bool_decide (x = (c, Shutdown, None))) o) = 1%nat.
Proof. exact shutdown_broker_once. Qed.
Print Assumptions C09_shutdown_broker_once.

(* ---- the hypotheses are satisfiable: a reachable state with two connections, an object, a bus
        listener and a channel; the events above complete on it (no panic site, no fuel
        exhaustion), so the theorems are not vacuous there *)
Example ex_reachable : reachable ex_state /\ conns ex_state !! 1 = Some cs_live /\ cs_alive cs_live = true.
Proof. split; [exact ex_state_reachable|]. split; [exact ex_state_conn1|reflexivity]. Qed.

Example ex_stats : stats_ok ex_state /\
  (size (conns ex_state), size (objs ex_state), size (chans ex_state), size (listeners ex_state)) = (2, 1, 1, 1)%nat.
Proof. split; [exact (stats_reachable _ ex_state_reachable)|exact ex_state_sizes]. Qed.

Example ex_conn_shutdown_completes :
  exists s' o, step ex_state (ConnectionShutdown 1) 0 None = Done (s', o).
Proof. vm_compute. eauto. Qed.

Example ex_shutdown_broker_completes :
  exists s' o, step ex_state ShutdownBroker 0 None = Done (s', o).
Proof. vm_compute. eauto. Qed.

Example ex_idle_completes :
  exists s' o, step ex_state ShutdownIdleBroker 0 None = Done (s', o).
Proof. vm_compute. eauto. Qed.

Example ex_legal : legal ex_state (mk (Message 1 (CreateChannel 3 (CReceiver 16))) 2000).
Proof. apply legal_dec_ok; [vm_compute; reflexivity|exact I|vm_compute; reflexivity|]. cbn. unfold u32_max. lia. Qed.
