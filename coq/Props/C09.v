(* Props/C09.v — Disconnect and shutdown cleanup: no residual state, exact counters.
   Only statements, [exact] proofs and Print Assumptions.  The machine is Broker/Model.v ([step]:
   one dequeued broker event handled atomically together with the work loop it triggers),
   histories and [legal]/[reachable] are Broker/Run.v.
   [stats_ok s]: each of the five published gauges equals the size of its map.
   [no_ref c s]: no object or bus listener is owned by c, no channel end is claimed by c, and c is
   in no service's all-events, service-subscription or per-event subscriber set. *)
From stdpp Require Import gmap list.
From Aldrin Require Import gen.BrokerConsts Broker.Model Broker.Run Broker.StatsProofs
  Broker.CleanupProofs Props.C09_lemmas.
Local Open Scope N_scope.

(* ---- 1. the statistics counters are exact: preserved by every legal step, hence in every
        reachable state *)
Theorem C09_stats_step : forall s i s' o,
  stats_ok s -> legal s i -> step s (i_ev i) (i_fresh i) (i_bserial i) = Done (s', o) -> stats_ok s'.
Proof. exact stats_step_legal. Qed.
Print Assumptions C09_stats_step.

Theorem C09_stats : forall s, reachable s -> stats_ok s.
Proof. exact stats_reachable. Qed.
Print Assumptions C09_stats.

(* ---- 5. the run loop's exit test, and an idle-shutdown request is recorded *)
Theorem C09_idle : forall s,
  exits s = true <-> shutdown_now s = true \/ (shutdown_idle s = true /\ conns s = ∅).
Proof. exact exits_iff. Qed.
Print Assumptions C09_idle.

Theorem C09_idle_set : forall s f b s' o,
  step s ShutdownIdleBroker f b = Done (s', o) -> shutdown_idle s' = true.
Proof. exact idle_set. Qed.
Print Assumptions C09_idle_set.

(* ---- 2. a connection that ends (transport side or forced by the handle) is gone after the
        step, and no step makes a connection appear except NewConnection for that very id *)
Theorem C09_conn_gone : forall s c e f b s' o,
  e = ConnectionShutdown c \/ e = ShutdownConnection c ->
  step s e f b = Done (s', o) -> conns s' !! c = None.
Proof. exact conn_gone_ev. Qed.
Print Assumptions C09_conn_gone.

Theorem C09_conns_shrink : forall s e f b s' o,
  step s e f b = Done (s', o) ->
  forall c', conns s' !! c' <> None -> conns s !! c' <> None \/ exists ver, e = NewConnection c' ver.
Proof. exact conns_shrink. Qed.
Print Assumptions C09_conns_shrink.

(* ---- 3. everything the connection owned or subscribed to is released.  The state must be
        reachable: the removal looks objects up by cookie, which needs cookies to be distinct
        (second theorem: that is the only fact about reachable states used); on an unreachable
        state with a duplicated cookie the statement is false (third theorem) *)
Theorem C09_release : forall s c cs e f b s' o,
  reachable s -> conns s !! c = Some cs ->
  e = ConnectionShutdown c \/ e = ShutdownConnection c ->
  step s e f b = Done (s', o) -> no_ref c s'.
Proof. exact release_ev. Qed.
Print Assumptions C09_release.

Theorem C09_release_unique_cookies : forall s c cs e f b s' o,
  obj_unique s -> conns s !! c = Some cs ->
  e = ConnectionShutdown c \/ e = ShutdownConnection c ->
  step s e f b = Done (s', o) -> no_ref c s'.
Proof. exact release_unique_ev. Qed.
Print Assumptions C09_release_unique_cookies.

Theorem C09_obj_cookies_unique : forall s, reachable s -> obj_unique s.
Proof. exact obj_unique_reachable. Qed.
Print Assumptions C09_obj_cookies_unique.

Theorem C09_release_any_state_refuted :
  exists s c cs s' o, conns s !! c = Some cs /\
    step s (ConnectionShutdown c) 0 None = Done (s', o) /\ ~ no_ref c s'.
Proof. exact release_without_unique_cookies_fails. Qed.
Print Assumptions C09_release_any_state_refuted.

(* ---- 4. a broker shutdown terminates with no connection left, and every connection whose
        receiver was alive got exactly one Shutdown message *)
Theorem C09_shutdown_broker : forall s f b s' o,
  step s ShutdownBroker f b = Done (s', o) ->
  shutdown_now s' = true /\ exits s' = true /\ conns s' = ∅.
Proof. exact shutdown_broker. Qed.
Print Assumptions C09_shutdown_broker.

Theorem C09_shutdown_broker_once : forall s f b s' o c cs,
  step s ShutdownBroker f b = Done (s', o) -> conns s !! c = Some cs -> cs_alive cs = true ->
  length (List.filter (fun x : out => bool_decide (x = (c, Shutdown, None))) o) = 1%nat.
Proof. exact shutdown_broker_once. Qed.
Print Assumptions C09_shutdown_broker_once.

(* ---- the hypotheses are satisfiable: a reachable state with two connections, an object, a bus
        listener and a channel; the events above complete on it (no panic site, no fuel
        exhaustion), so the theorems are not vacuous there *)
Example ex_reachable : reachable ex_state /\ conns ex_state !! 1 = Some cs_live /\ cs_alive cs_live = true.
Proof. split; [exact ex_state_reachable|]. split; [exact ex_state_conn1|reflexivity]. Qed.

Example ex_stats : stats_ok ex_state /\
  (size (conns ex_state), size (objs ex_state), size (chans ex_state), size (listeners ex_state)) = (2, 1, 1, 1)%nat.
Proof. split; [exact (stats_reachable _ ex_state_reachable)|exact ex_state_sizes]. Qed.

Example ex_conn_shutdown_completes :
  exists s' o, step ex_state (ConnectionShutdown 1) 0 None = Done (s', o).
Proof. vm_compute. eauto. Qed.

Example ex_shutdown_broker_completes :
  exists s' o, step ex_state ShutdownBroker 0 None = Done (s', o).
Proof. vm_compute. eauto. Qed.

Example ex_idle_completes :
  exists s' o, step ex_state ShutdownIdleBroker 0 None = Done (s', o).
Proof. vm_compute. eauto. Qed.

Example ex_legal : legal ex_state (mk (Message 1 (CreateChannel 3 (CReceiver 16))) 2000).
Proof. apply legal_dec_ok; [vm_compute; reflexivity|exact I|vm_compute; reflexivity|]. cbn. unfold u32_max. lia. Qed.

(* ---- 6. the introspection database (broker built WITH the `introspection` feature):
        broker/src/introspection_database.rs and the cfg(feature = "introspection") handlers of
        broker.rs as the separate machine Broker/IntroDb.v (names prefixed i/I).  One step =
        one dequeued event + the remove_conns work loop; [ch] is the list of provider indices
        `rand` draws during the step (any list); [ilegal] only says that a new connection id is
        not connected already. *)
From Aldrin Require Import Broker.IntroDb Broker.IntroDbProofs.

(* the invariant: per type the index map is exactly the positions of the provider vector, the
   vector is duplicate-free and non-empty, providers / pending requesters / the queried provider
   are connected, a pending requester implies an outstanding provider query, and the SerialMap of
   provider queries and the entries' `queried` fields describe each other *)
Theorem C09_introdb_invariant : forall s, ireachable s -> idb_inv s.
Proof. exact idb_inv_reachable. Qed.
Print Assumptions C09_introdb_invariant.

(* no expect / index / swap_remove / debug_assert! of these paths fires, whatever `rand` draws *)
Theorem C09_introdb_no_panic : forall s e ch site,
  ireachable s -> ilegal s e -> istep s e ch <> IPanic site.
Proof. exact introdb_no_panic. Qed.
Print Assumptions C09_introdb_no_panic.

(* after a connection ended (by itself or forced) nothing refers to it: not the connection table,
   no provider vector, no index map, no outstanding provider query, no pending requester *)
Theorem C09_introdb_release : forall s c e ch s' o,
  ireachable s -> e = IConnShutdown c \/ e = IShutdownConn c ->
  istep s e ch = IDone (s', o) -> idb_no_ref c s'.
Proof. exact introdb_release. Qed.
Print Assumptions C09_introdb_release.

(* no connection left: no introspection entry and no outstanding provider query left *)
Theorem C09_introdb_empty : forall s,
  ireachable s -> i_conns s = ∅ -> i_entries s = ∅ /\ i_qmap s = ∅.
Proof. exact introdb_empty. Qed.
Print Assumptions C09_introdb_empty.

(* the work loop's fuel (the Rust loop has none) is never exhausted, and a step of a reachable state
   completes unless the driver supplied fewer drawn indices than the step needs or all 2^32 provider
   query serials are occupied (where SerialMap::insert would not terminate) *)
Theorem C09_introdb_fuel : forall s e ch,
  ireachable s -> ilegal s e -> istep s e ch <> IHalt NoFuel.
Proof. exact introdb_fuel. Qed.
Print Assumptions C09_introdb_fuel.

Theorem C09_introdb_completes : forall s e ch,
  ireachable s -> ilegal s e ->
  (exists s' o, istep s e ch = IDone (s', o)) \/ (exists n, istep s e ch = IHalt (NeedChoice n)) \/
  istep s e ch = IHalt NoSerial.
Proof. exact introdb_completes. Qed.
Print Assumptions C09_introdb_completes.

(* idle shutdown completes: the run loop exits exactly when idle shutdown was requested and the
   connection table is empty (and then, by C09_introdb_empty, the database is empty); the request
   sets the flag and no later step clears it *)
Theorem C09_introdb_idle : forall s, iexits s = true <-> i_idle s = true /\ i_conns s = ∅.
Proof. exact introdb_idle. Qed.
Print Assumptions C09_introdb_idle.

Theorem C09_introdb_idle_set : forall s ch s' o,
  istep s IShutdownIdle ch = IDone (s', o) -> i_idle s' = true /\ i_conns s' = i_conns s /\ o = [].
Proof. exact introdb_idle_set. Qed.
Print Assumptions C09_introdb_idle_set.

Theorem C09_introdb_idle_kept : forall s e ch s' o,
  ireachable s -> ilegal s e -> istep s e ch = IDone (s', o) -> i_idle s = true -> i_idle s' = true.
Proof. exact introdb_idle_kept. Qed.
Print Assumptions C09_introdb_idle_kept.

(* every message of a step goes to a connection that is connected, with a live receiver, when the
   step begins: a connection that has been removed (C09_introdb_release) is never sent anything *)
Theorem C09_introdb_outputs_connected : forall s e ch s' o,
  istep s e ch = IDone (s', o) ->
  forall c x, (c, x) ∈ o -> exists ci, i_conns s !! c = Some ci /\ ci_alive ci = true.
Proof. exact introdb_outputs_connected. Qed.
Print Assumptions C09_introdb_outputs_connected.

(* every query is accounted for, exactly: for a connection r that is still connected with a live
   receiver after the step, the multiset of serials of its pending queries plus the serials of the
   QueryIntrospectionReply messages it gets in this step is what was pending before plus the
   serial of the query it sent in this step.  So a query is pending (and then, by the invariant,
   a connected provider has been asked and has not answered) until it is answered, and it is
   answered once.  The hypothesis excludes the one step where the Rust drops queries: r itself is
   the asked provider and answers Unavailable (see C09_introdb_self_unavailable_drops_query) *)
Theorem C09_introdb_query_answered : forall s e ch s' o r ci,
  ireachable s -> ilegal s e -> istep s e ch = IDone (s', o) ->
  i_conns s' !! r = Some ci -> ci_alive ci = true ->
  (forall sr, e <> IReplyMsg r sr None) ->
  pend_of s' r ⊎ replies_to r o = pend_of s r ⊎ asked e r.
Proof. exact introdb_query_answered. Qed.
Print Assumptions C09_introdb_query_answered.

(* the excluded case happens: connection 1 registers type 5, asks for type 5 with serial 0, is
   itself the provider the broker asks, answers Unavailable: the entry is dropped and connection 1,
   still connected, never gets a reply to its query *)
Theorem C09_introdb_self_unavailable_drops_query :
  exists s os, irun self_unavail_history = Some (s, os) /\
    os = [[]; []; [(1%N, IQuery 0 5)]; []] /\ size (i_entries s) = 0%nat /\ is_Some (i_conns s !! 1%N).
Proof. exact self_unavail_drops_query. Qed.
Print Assumptions C09_introdb_self_unavailable_drops_query.

(* what C09_introdb_no_panic excludes: with the fix-up guard `idx < self.conn_ids.len() - 1`
   (seeded defect C09-c) instead of `idx != self.conn_ids.len()`, three providers A, B, C of one
   type, B leaves, C leaves: the index map still holds C's old index 2 and swap_remove panics
   (site 101); the guard of the Rust source completes on the same history *)
Definition guard_seeded (idx n : nat) : bool := (idx <? n - 1)%nat.
Definition entry_abc : ientry := entry_register (entry_register (entry_register ientry0 1%N) 2%N) 3%N.
Definition entry_after (r : ioutcome (ientry * bool)) : ientry :=
  match r with IDone (e, _) => e | _ => ientry0 end.
Definition seeded_e1 : ientry := entry_after (entry_remove_conn_g guard_seeded entry_abc 2%N).
Definition rust_e1 : ientry := entry_after (entry_remove_conn entry_abc 2%N).
Definition rust_e2 : ientry := entry_after (entry_remove_conn rust_e1 3%N).
Example C09_introdb_seeded_guard_panics :
  (entry_remove_conn_g guard_seeded entry_abc 2%N = IDone (seeded_e1, true) /\
   entry_remove_conn_g guard_seeded seeded_e1 3%N = IPanic 101%N) /\
  (entry_remove_conn entry_abc 2%N = IDone (rust_e1, true) /\
   entry_remove_conn rust_e1 3%N = IDone (rust_e2, true) /\ e_ids rust_e2 = [1%N]).
Proof. repeat split; vm_compute; reflexivity. Qed.
