(* Props/C16.v — generated types are wire-compatible: the part of C16 that is a theorem.
   [ty]            wire shape of a schema type (Derive/Ty.v); [wf_ty]: ids unique and u32
   [tde_top t]     = SerializedValueSlice::deserialize::<T>() for the generated type T of t
                     (Derive/TDe.v: what derive(Deserialize) expands to + the library impls)
   [tser_top t]    = SerializedValue::serialize(&x) (Derive/TSer.v)
   [serialize e v] = the bytes of the dynamic value v in container encoding e (E1 counted /
                     E2 terminated, Codec/Ser.v); [wf true v]: v is the image of a Rust Value
   [conforms t v]  : v conforms to t — unknown struct field ids tolerated, unknown enum variants
                     only with a fallback (Derive/Conforms.v)
   [typed e t 0 v] : the value of the generated type (captured SerializedValues are the bytes of
                     encoding e)
   [norm t v]      : the equivalent value a decode/encode cycle yields (unknown fields dropped
                     unless the struct has a fallback, an optional field holding None = absent)
   [evolves t_old t_new]  : t_new is t_old with fields / variants added at any nesting level
                     (Derive/Evolve.v; = the inductive [Evolves], C16_evolves_iff)
   [all_fallback t_old]   : every struct and enum of t_old has a fallback (the harness' KEEPS)
   [evolves_keeping t_old t_new] : [evolves] + a fallback in t_old wherever t_new added
                     something or has a fallback itself (follows from evolves + all_fallback)
   NOT a theorem here: "the generated Rust code compiles" (decided by rustc on a corpus, see
   checks/c16.py). *)
From Aldrin Require Import Codec.Base Codec.Value Codec.Ser Codec.De.
From Aldrin Require Import Derive.Ty Derive.TDe Derive.TSer Derive.Conforms Derive.TDeTotal Derive.DocAttr
  Derive.DocAttrProofs Derive.Evolve Derive.EvolveRel Props.C16_lemmas.
Open Scope N_scope.

(* the generated decoder DECIDES conformance on serialized values: at any depth, before any
   rest, in either container encoding *)
Theorem C16_decides : forall e t v d bs, wf true v = true -> ser e d v = Ok bs ->
  forall f r, (S (length bs) <= f)%nat ->
  match typed e t d v with
  | Some x => tde f t d (bs ++ r) = Ok (x, r)
  | None => exists err, tde f t d (bs ++ r) = Err err
  end.
Proof. exact decides. Qed.
Print Assumptions C16_decides.

(* a conforming value, in either container encoding, unknown field ids included, is decoded, and
   what the generated type serializes decodes (generic decoder) to the equivalent value *)
Theorem C16_accepts : forall e t v bs, wf_ty t = true -> wf true v = true ->
  conforms t v = true -> serialize e v = Ok bs ->
  exists x bs', tde_top t bs = Ok x /\ tser_top t x = Ok bs' /\ de_as_value true bs' = Ok (norm t v).
Proof. exact accepts_full. Qed.
Print Assumptions C16_accepts.

(* a decode/encode cycle returns bytes from which the generated type reads the IDENTICAL value —
   including every captured SerializedValue (unknown fields of a struct with fallback, the
   payload of an unknown variant, `value` fields), which [typed] defines as the bytes of the
   input's encoding of that part: they survive byte for byte *)
Theorem C16_fallback_preserves : forall e t v bs, wf_ty t = true -> wf true v = true ->
  conforms t v = true -> serialize e v = Ok bs ->
  exists x bs', tde_top t bs = Ok x /\ typed e t 0 v = Some x /\ tser_top t x = Ok bs' /\ tde_top t bs' = Ok x.
Proof. exact fallback_preserves. Qed.
Print Assumptions C16_fallback_preserves.

Theorem C16_rejects : forall e t v bs, wf_ty t = true -> wf true v = true ->
  conforms t v = false -> serialize e v = Ok bs ->
  exists err, tde_top t bs = Err err.
Proof. exact rejects. Qed.
Print Assumptions C16_rejects.

(* the ways of not conforming that the property names, and what is tolerated *)
Theorem C16_missing_required : forall fs fb l id ft,
  In (id, (true, ft)) fs -> has_id id l = false -> conforms (TStruct fs fb) (VStruct l) = false.
Proof. exact missing_required. Qed.
Print Assumptions C16_missing_required.

Theorem C16_wrongly_typed_field : forall fs fb l id ft x,
  find_field fs id = Some (true, ft) -> In (id, x) l -> conforms ft x = false ->
  conforms (TStruct fs fb) (VStruct l) = false.
Proof. exact wrong_required_field. Qed.
Print Assumptions C16_wrongly_typed_field.

Theorem C16_unknown_variant : forall vs id x,
  find_variant vs id = None -> conforms (TEnum vs false) (VEnum id x) = false.
Proof. exact unknown_variant. Qed.
Print Assumptions C16_unknown_variant.

Theorem C16_unknown_ids_tolerated : forall fs fb l id x,
  conforms (TStruct fs fb) (VStruct l) = true -> find_field fs id = None ->
  conforms (TStruct fs fb) (VStruct (l ++ [(id, x)])) = true.
Proof. exact unknown_field_tolerated. Qed.
Print Assumptions C16_unknown_ids_tolerated.

(* ---------- data of a newer schema version survives code generated from an older one ---------- *)
(* v is a value of the NEWER type t_new, sent (either encoding) to code generated from the OLDER type
   t_old: that code accepts it, and what it re-encodes is read by the newer type as EXACTLY the
   typed value x_new the newer type reads from the original bytes — captured SerializedValues
   byte for byte — so re-encoding x_new yields the direct normalisation [norm t_new v] *)
Theorem C16_old_new : forall e t_old t_new v bs, wf_ty t_old = true -> wf_ty t_new = true ->
  evolves_keeping t_old t_new = true -> wf true v = true -> conforms t_new v = true -> serialize e v = Ok bs ->
  exists x_old bs' x_new bs'',
    tde_top t_old bs = Ok x_old /\ tser_top t_old x_old = Ok bs' /\
    tde_top t_new bs' = Ok x_new /\ tde_top t_new bs = Ok x_new /\
    tser_top t_new x_new = Ok bs'' /\ de_as_value true bs'' = Ok (norm t_new v).
Proof. exact old_new. Qed.
Print Assumptions C16_old_new.

(* the same under the condition the harness labels a pair case KEEPS with *)
Theorem C16_old_new_all_fallback : forall e t_old t_new v bs, wf_ty t_old = true -> wf_ty t_new = true ->
  evolves t_old t_new = true -> all_fallback t_old = true ->
  wf true v = true -> conforms t_new v = true -> serialize e v = Ok bs ->
  exists x_old bs' x_new bs'',
    tde_top t_old bs = Ok x_old /\ tser_top t_old x_old = Ok bs' /\
    tde_top t_new bs' = Ok x_new /\ tde_top t_new bs = Ok x_new /\
    tser_top t_new x_new = Ok bs'' /\ de_as_value true bs'' = Ok (norm t_new v).
Proof. exact old_new_all_fallback. Qed.
Print Assumptions C16_old_new_all_fallback.

(* the evolution relation: boolean = inductive; reflexive; the older type accepts what the newer accepts *)
Theorem C16_evolves_iff : forall t_old t_new, evolves t_old t_new = true <-> Evolves t_old t_new.
Proof. exact evolves_iff. Qed.
Print Assumptions C16_evolves_iff.

Theorem C16_evolves_keeping_refl : forall t, wf_ty t = true -> evolves_keeping t t = true.
Proof. exact evolves_keeping_refl. Qed.
Print Assumptions C16_evolves_keeping_refl.

Theorem C16_old_accepts_what_new_accepts : forall v t_old t_new,
  evolves_keeping t_old t_new = true -> conforms t_new v = true -> conforms t_old v = true.
Proof. exact evolves_conforms. Qed.
Print Assumptions C16_old_accepts_what_new_accepts.

(* the negative side, without a fallback in the older type: a variant it does not know is
   rejected, and a struct comes back with only the fields it knows (every other field is lost) *)
Theorem C16_old_rejects_new_variant : forall e vs_old id x bs,
  wf_ty (TEnum vs_old false) = true -> wf true (VEnum id x) = true ->
  find_variant vs_old id = None -> serialize e (VEnum id x) = Ok bs ->
  exists err, tde_top (TEnum vs_old false) bs = Err err.
Proof. exact old_rejects_new_variant. Qed.
Print Assumptions C16_old_rejects_new_variant.

Theorem C16_old_drops_without_fallback : forall e fs_old l bs,
  wf_ty (TStruct fs_old false) = true -> wf true (VStruct l) = true ->
  conforms (TStruct fs_old false) (VStruct l) = true -> serialize e (VStruct l) = Ok bs ->
  exists x bs' l', tde_top (TStruct fs_old false) bs = Ok x /\ tser_top (TStruct fs_old false) x = Ok bs' /\
    de_as_value true bs' = Ok (VStruct l') /\ forall id y, In (id, y) l' -> known_field fs_old id = true.
Proof. exact old_drops_without_fallback. Qed.
Print Assumptions C16_old_drops_without_fallback.

(* the model decoder is total: fuel = length + 1 never runs out, on ANY byte string *)
Theorem C16_total : forall t b, tde_top t b <> Err Fuel.
Proof. exact tde_total. Qed.
Print Assumptions C16_total.

(* the doc attribute: as the code emits it now (every site escapes, tie doc_attr_tie through the translator)
   every doc line is read back by the Rust lexer unchanged *)
Theorem C16_doc_attr_current : forall d, rust_string_literal (emit_doc_attr_current d) = Some d.
Proof. exact doc_attr_current. Qed.
Print Assumptions C16_doc_attr_current.

(* history: refuted as emitted before the repair 4f543b4 (text pasted between two quotes), true there only
   for lines without quote/backslash/CR, true for every line once the text is escaped *)
Theorem C16_doc_attr_refuted : exists d, rust_string_literal (emit_doc_attr d) <> Some d.
Proof. exact doc_attr_refuted. Qed.
Print Assumptions C16_doc_attr_refuted.

Theorem C16_doc_attr_plain : forall d, forallb plain_char d = true -> rust_string_literal (emit_doc_attr d) = Some d.
Proof. exact doc_attr_plain. Qed.
Print Assumptions C16_doc_attr_plain.

Theorem C16_doc_attr_fixed : forall d, rust_string_literal (emit_doc_attr_fixed d) = Some d.
Proof. exact doc_attr_fixed. Qed.
Print Assumptions C16_doc_attr_fixed.

(* hypotheses are satisfiable; a concrete instance of the cycle *)
Definition ex_plain := TStruct [(1, (true, TLeaf (LInt U8))); (2, (false, TLeaf LString));
                                (5, (true, TVec (TLeaf (LInt U16))))] false.
Definition ex_fb := TStruct [(1, (true, TLeaf (LInt U8))); (2, (false, TLeaf LString))] true.
Definition ex_v := VStruct [(5, VVec [VInt U16 300; VInt U16 1]); (9, VSet (KInt U16) [KeyZ 300]);
                            (2, VSome (VString [120])); (1, VInt U8 7)].

Example C16_nonvacuous :
  wf_ty ex_plain = true /\ wf_ty ex_fb = true /\ wf true ex_v = true /\
  conforms ex_plain ex_v = true /\ conforms ex_fb ex_v = true /\
  conforms ex_plain (VStruct [(5, VVec [])]) = false.
Proof. vm_compute. repeat split; reflexivity. Qed.

(* one decode/encode cycle through the older type ex_fb in the legacy encoding: the unknown
   fields 5 and 9 come out byte for byte (encoding 1 kind bytes 17 and 31 inside a Struct2) *)
Example C16_fallback_instance :
  (bs <- serialize E1 ex_v ;; x <- tde_top ex_fb bs ;; tser_top ex_fb x) =
  Ok [65; 1; 5; 17; 2; 5; 255; 44; 1; 5; 1; 1; 9; 31; 1; 255; 44; 1; 1; 1; 3; 7; 1; 2; 1; 13; 1; 120; 0] /\
  (bs <- serialize E1 ex_v ;; x <- tde_top ex_fb bs ;; bs' <- tser_top ex_fb x ;; de_as_value true bs') =
  Ok (norm ex_fb ex_v).
Proof. vm_compute. split; reflexivity. Qed.

(* ---------- old/new instances ---------- *)
Definition via (t_old t_new : ty) (e : epoch) (v : Value) : result tval :=
  bs <- serialize e v ;; x1 <- tde_top t_old bs ;; bs' <- tser_top t_old x1 ;; tde_top t_new bs'.
Definition direct (t_new : ty) (e : epoch) (v : Value) : result tval := bs <- serialize e v ;; tde_top t_new bs.
Definition back (t_old t_new : ty) (e : epoch) (v : Value) : result Value :=
  x2 <- via t_old t_new e v ;; bs'' <- tser_top t_new x2 ;; de_as_value true bs''.

(* a struct with added fields (required 5, optional 6), nested: an enum inside option<vec<..>> with
   added variants 7 (payload) and 8 (unit); ids 9 / 99 are unknown to both versions *)
Definition en_old := TEnum [(0, None); (1, Some (TLeaf (LInt U8)))] true.
Definition en_new := TEnum [(7, Some (TVec (TLeaf LString))); (0, None); (1, Some (TLeaf (LInt U8))); (8, None)] true.
Definition st_old := TStruct [(1, (true, TLeaf (LInt U8))); (2, (false, TLeaf LString)); (3, (false, TVec en_old));
                              (4, (true, TValue))] true.
Definition st_new := TStruct [(5, (true, TVec (TLeaf (LInt U16)))); (2, (false, TLeaf LString)); (3, (false, TVec en_new));
                              (1, (true, TLeaf (LInt U8))); (6, (false, TMap (KInt U8) TValue)); (4, (true, TValue))] true.
Definition st_v := VStruct [(5, VVec [VInt U16 300; VInt U16 1]); (9, VSet (KInt U16) [KeyZ 300]); (2, VNone);
                            (6, VSome (VMap (KInt U8) [(KeyZ 3, VVec [VNone])]));
                            (3, VSome (VVec [VEnum 7 (VVec [VString [65]]); VEnum 0 VNone; VEnum 8 VNone;
                                             VEnum 99 (VVec [VBool true])]));
                            (4, VStruct [(1, VVec [])]); (1, VInt U8 7)].

Example C16_old_new_nonvacuous :
  wf_ty st_old = true /\ wf_ty st_new = true /\ evolves st_old st_new = true /\ all_fallback st_old = true /\
  evolves_keeping st_old st_new = true /\ evolves st_new st_old = false /\
  wf true st_v = true /\ conforms st_new st_v = true.
Proof. vm_compute. repeat split; reflexivity. Qed.

(* both encodings: the newer type reads the same through the older code as directly, and the value
   comes back as the direct normalisation *)
Example C16_old_new_instance :
  via st_old st_new E1 st_v = direct st_new E1 st_v /\ back st_old st_new E1 st_v = Ok (norm st_new st_v) /\
  via st_old st_new E2 st_v = direct st_new E2 st_v /\ back st_old st_new E2 st_v = Ok (norm st_new st_v) /\
  exists x, direct st_new E1 st_v = Ok x.
Proof. vm_compute. repeat split; try reflexivity. eexists; reflexivity. Qed.

(* an enum at the root: the added variant 7 passes through the older enum's fallback *)
Example C16_old_new_variant_instance :
  evolves_keeping en_old en_new = true /\
  via en_old en_new E1 (VEnum 7 (VVec [VString [65; 66]])) = Ok (XEnum 7 (XVec [XLeaf (VString [65; 66])])) /\
  (bs <- serialize E1 (VEnum 7 (VVec [VString [65; 66]])) ;; tde_top en_old bs) = Ok (XUnknown 7 [17; 1; 13; 2; 65; 66]).
Proof. vm_compute. repeat split; reflexivity. Qed.

(* the same older struct WITHOUT fallback: not keeping; the added required field 5 is dropped and
   the newer type rejects the result; with only the optional field 6 added the value comes back
   without it — different from the direct normalisation *)
Definition st_old_nofb := TStruct [(1, (true, TLeaf (LInt U8))); (2, (false, TLeaf LString)); (3, (false, TVec en_old));
                                   (4, (true, TValue))] false.
Definition st_new6 := TStruct [(2, (false, TLeaf LString)); (3, (false, TVec en_new)); (1, (true, TLeaf (LInt U8)));
                               (6, (false, TMap (KInt U8) TValue)); (4, (true, TValue))] false.
Definition st_v6 := VStruct [(6, VSome (VMap (KInt U8) [(KeyZ 3, VNone)])); (4, VNone); (1, VInt U8 7)].
Example C16_old_new_drop_instance :
  evolves st_old_nofb st_new = true /\ evolves_keeping st_old_nofb st_new = false /\
  via st_old_nofb st_new E2 st_v = Err Invalid /\
  evolves st_old_nofb st_new6 = true /\ evolves_keeping st_old_nofb st_new6 = false /\ conforms st_new6 st_v6 = true /\
  back st_old_nofb st_new6 E2 st_v6 = Ok (VStruct [(1, VInt U8 7); (4, VNone)]) /\
  norm st_new6 st_v6 = VStruct [(1, VInt U8 7); (6, VSome (VMap (KInt U8) [(KeyZ 3, VNone)])); (4, VNone)].
Proof. vm_compute. repeat split; reflexivity. Qed.
