(* Props/C16.v — generated types are wire-compatible: the part of C16 that is a theorem.
   [ty]            wire shape of a schema type (Derive/Ty.v); [wf_ty]: ids unique and u32
   [tde_top t]     = SerializedValueSlice::deserialize::<T>() for the generated type T of t
                     (Derive/TDe.v: what derive(Deserialize) expands to + the library impls)
   [tser_top t]    = SerializedValue::serialize(&x) (Derive/TSer.v)
   [serialize e v] = the bytes of the dynamic value v in container encoding e (E1 counted /
                     E2 terminated, Codec/Ser.v); [wf true v]: v is the image of a Rust Value
   [conforms t v]  : v conforms to t — unknown struct field ids tolerated, unknown enum variants
                     only with a fallback (Derive/Conforms.v)
   [typed e t 0 v] : the value of the generated type (captured SerializedValues are the bytes of
                     encoding e)
   [norm t v]      : the equivalent value a decode/encode cycle yields (unknown fields dropped
                     unless the struct has a fallback, an optional field holding None = absent)
   NOT theorems here: "the generated Rust code compiles" (decided by rustc on a corpus, see
   checks/c16.py) and the old/new clause across two different types (see design/C16.md: monitored
   on the real generated types and compared with the model on every pair case). *)
From Aldrin Require Import Codec.Base Codec.Value Codec.Ser Codec.De.
From Aldrin Require Import Derive.Ty Derive.TDe Derive.TSer Derive.Conforms Derive.TDeTotal Derive.DocAttr
  Derive.DocAttrProofs Props.C16_lemmas.
Open Scope N_scope.

(* the generated decoder DECIDES conformance on serialized values: at any depth, before any
   rest, in either container encoding *)
Theorem C16_decides : forall e t v d bs, wf true v = true -> ser e d v = Ok bs ->
  forall f r, (S (length bs) <= f)%nat ->
  match typed e t d v with
  | Some x => tde f t d (bs ++ r) = Ok (x, r)
  | None => exists err, tde f t d (bs ++ r) = Err err
  end.
Proof. exact decides. Qed.
Print Assumptions C16_decides.

(* a conforming value, in either container encoding, unknown field ids included, is decoded, and
   what the generated type serializes decodes (generic decoder) to the equivalent value *)
Theorem C16_accepts : forall e t v bs, wf_ty t = true -> wf true v = true ->
  conforms t v = true -> serialize e v = Ok bs ->
  exists x bs', tde_top t bs = Ok x /\ tser_top t x = Ok bs' /\ de_as_value true bs' = Ok (norm t v).
Proof. exact accepts_full. Qed.
Print Assumptions C16_accepts.

(* a decode/encode cycle returns bytes from which the generated type reads the IDENTICAL value —
   including every captured SerializedValue (unknown fields of a struct with fallback, the
   payload of an unknown variant, `value` fields), which [typed] defines as the bytes of the
   input's encoding of that part: they survive byte for byte *)
Theorem C16_fallback_preserves : forall e t v bs, wf_ty t = true -> wf true v = true ->
  conforms t v = true -> serialize e v = Ok bs ->
  exists x bs', tde_top t bs = Ok x /\ typed e t 0 v = Some x /\ tser_top t x = Ok bs' /\ tde_top t bs' = Ok x.
Proof. exact fallback_preserves. Qed.
Print Assumptions C16_fallback_preserves.

Theorem C16_rejects : forall e t v bs, wf_ty t = true -> wf true v = true ->
  conforms t v = false -> serialize e v = Ok bs ->
  exists err, tde_top t bs = Err err.
Proof. exact rejects. Qed.
Print Assumptions C16_rejects.

(* the ways of not conforming that the property names, and what is tolerated *)
Theorem C16_missing_required : forall fs fb l id ft,
  In (id, (true, ft)) fs -> has_id id l = false -> conforms (TStruct fs fb) (VStruct l) = false.
Proof. exact missing_required. Qed.
Print Assumptions C16_missing_required.

Theorem C16_wrongly_typed_field : forall fs fb l id ft x,
  find_field fs id = Some (true, ft) -> In (id, x) l -> conforms ft x = false ->
  conforms (TStruct fs fb) (VStruct l) = false.
Proof. exact wrong_required_field. Qed.
Print Assumptions C16_wrongly_typed_field.

Theorem C16_unknown_variant : forall vs id x,
  find_variant vs id = None -> conforms (TEnum vs false) (VEnum id x) = false.
Proof. exact unknown_variant. Qed.
Print Assumptions C16_unknown_variant.

Theorem C16_unknown_ids_tolerated : forall fs fb l id x,
  conforms (TStruct fs fb) (VStruct l) = true -> find_field fs id = None ->
  conforms (TStruct fs fb) (VStruct (l ++ [(id, x)])) = true.
Proof. exact unknown_field_tolerated. Qed.
Print Assumptions C16_unknown_ids_tolerated.

(* the model decoder is total: fuel = length + 1 never runs out, on ANY byte string *)
Theorem C16_total : forall t b, tde_top t b <> Err Fuel.
Proof. exact tde_total. Qed.
Print Assumptions C16_total.

(* the doc attribute: as the code emits it now (every site escapes, tie doc_attr_tie through the translator)
   every doc line is read back by the Rust lexer unchanged *)
Theorem C16_doc_attr_current : forall d, rust_string_literal (emit_doc_attr_current d) = Some d.
Proof. exact doc_attr_current. Qed.
Print Assumptions C16_doc_attr_current.

(* history: refuted as emitted before the repair 4f543b4 (text pasted between two quotes), true there only
   for lines without quote/backslash/CR, true for every line once the text is escaped *)
Theorem C16_doc_attr_refuted : exists d, rust_string_literal (emit_doc_attr d) <> Some d.
Proof. exact doc_attr_refuted. Qed.
Print Assumptions C16_doc_attr_refuted.

Theorem C16_doc_attr_plain : forall d, forallb plain_char d = true -> rust_string_literal (emit_doc_attr d) = Some d.
Proof. exact doc_attr_plain. Qed.
Print Assumptions C16_doc_attr_plain.

Theorem C16_doc_attr_fixed : forall d, rust_string_literal (emit_doc_attr_fixed d) = Some d.
Proof. exact doc_attr_fixed. Qed.
Print Assumptions C16_doc_attr_fixed.

(* hypotheses are satisfiable; a concrete instance of the cycle *)
Definition ex_plain := TStruct [(1, (true, TLeaf (LInt U8))); (2, (false, TLeaf LString));
                                (5, (true, TVec (TLeaf (LInt U16))))] false.
Definition ex_fb := TStruct [(1, (true, TLeaf (LInt U8))); (2, (false, TLeaf LString))] true.
Definition ex_v := VStruct [(5, VVec [VInt U16 300; VInt U16 1]); (9, VSet (KInt U16) [KeyZ 300]);
                            (2, VSome (VString [120])); (1, VInt U8 7)].

Example C16_nonvacuous :
  wf_ty ex_plain = true /\ wf_ty ex_fb = true /\ wf true ex_v = true /\
  conforms ex_plain ex_v = true /\ conforms ex_fb ex_v = true /\
  conforms ex_plain (VStruct [(5, VVec [])]) = false.
Proof. vm_compute. repeat split; reflexivity. Qed.

(* one decode/encode cycle through the older type ex_fb in the legacy encoding: the unknown
   fields 5 and 9 come out byte for byte (encoding 1 kind bytes 17 and 31 inside a Struct2) *)
Example C16_fallback_instance :
  (bs <- serialize E1 ex_v ;; x <- tde_top ex_fb bs ;; tser_top ex_fb x) =
  Ok [65; 1; 5; 17; 2; 5; 255; 44; 1; 5; 1; 1; 9; 31; 1; 255; 44; 1; 1; 1; 3; 7; 1; 2; 1; 13; 1; 120; 0] /\
  (bs <- serialize E1 ex_v ;; x <- tde_top ex_fb bs ;; bs' <- tser_top ex_fb x ;; de_as_value true bs') =
  Ok (norm ex_fb ex_v).
Proof. vm_compute. split; reflexivity. Qed.
