(* Props/C04.v — event delivery matches subscriptions; the owner sees the 0<->1 transitions.
   Only statements, [exact] proofs and Print Assumptions.  The machine is Broker/Model.v:
   [step s e fresh bserial] = one dequeued broker event handled to quiescence, returning the new
   state and the outputs (destination, message, version tag of the producer).  A service [sv] has
   [s_events sv : event id -> set of subscribed connections] (an id without subscribers has no
   entry), [s_all sv]: the connections subscribed to all events, [s_subs sv]: the connections
   subscribed to the service itself.  [event_targets sv ev = s_all sv ∪ (s_events sv !! ev)];
   [alive s x]: x is connected and its receiver has not been dropped; [is_emit o]: the output is
   an EmitEvent.  [remove_service], [shutdown_conn], [settle_one] are the broker's functions of
   the same names (settle_one = one iteration of the work loop). *)
From stdpp Require Import gmap list.
From RecordUpdate Require Import RecordSet.
Import RecordSetNotations.
From Aldrin Require Import gen.BrokerConsts Broker.Model Broker.Run Broker.OutKinds Broker.EventProofs
  Props.C04_lemmas.
Local Open Scope N_scope.

(* ---- fan-out *)
(* an event emitted by the owner: the EmitEvent outputs of the step are exactly one copy — ids
   and payload unchanged, tagged with the owner's version — per alive connection subscribed to
   that event id or to all events; the list of targets has no duplicates *)
Theorem C04_fanout : forall s c cs sc ev v f b s' o k sv,
  conns s !! c = Some cs -> svc_by_cookie s sc = Some (k, sv) -> owner_of_svc s k = Some c ->
  step s (Message c (EmitEvent sc ev v)) f b = Done (s', o) ->
  List.filter is_emit o =
    (fun x => (x, EmitEvent sc ev v, Some (cs_ver cs))) <$> List.filter (alive s) (elements (event_targets sv ev)) /\
  NoDup (elements (event_targets sv ev)) /\
  Forall (fun x => is_Some (conns s !! x)) (elements (event_targets sv ev)).
Proof. exact fanout_owner. Qed.
Print Assumptions C04_fanout.

(* per connection: exactly one copy iff subscribed (and alive), none otherwise *)
Theorem C04_fanout_exactly_once : forall s c cs sc ev v f b s' o k sv x,
  conns s !! c = Some cs -> svc_by_cookie s sc = Some (k, sv) -> owner_of_svc s k = Some c ->
  step s (Message c (EmitEvent sc ev v)) f b = Done (s', o) ->
  List.filter (fun p : out => bool_decide (p.1.1 = x)) (List.filter is_emit o) =
    if bool_decide (x ∈ event_targets sv ev) && alive s x
    then [(x, EmitEvent sc ev v, Some (cs_ver cs))] else [].
Proof. exact fanout_exactly_once. Qed.
Print Assumptions C04_fanout_exactly_once.

Theorem C04_event_targets : forall sv ev x,
  x ∈ event_targets sv ev <-> x ∈ s_all sv \/ exists set, s_events sv !! ev = Some set /\ x ∈ set.
Proof. exact event_targets_spec. Qed.
Print Assumptions C04_event_targets.

(* with all subscribers alive the step does nothing else *)
Theorem C04_fanout_alive : forall s c cs sc ev v f b s' o k sv,
  conns s !! c = Some cs -> svc_by_cookie s sc = Some (k, sv) -> owner_of_svc s k = Some c ->
  (forall x, x ∈ event_targets sv ev -> alive s x = true) ->
  step s (Message c (EmitEvent sc ev v)) f b = Done (s', o) ->
  s' = s /\ o = (fun x => (x, EmitEvent sc ev v, Some (cs_ver cs))) <$> elements (event_targets sv ev).
Proof. exact fanout_owner_alive. Qed.
Print Assumptions C04_fanout_alive.

(* a subscriber whose receiver is gone gets nothing and is removed *)
Theorem C04_fanout_dead_removed : forall s c cs sc ev v f b s' o k sv x,
  conns s !! c = Some cs -> svc_by_cookie s sc = Some (k, sv) -> owner_of_svc s k = Some c ->
  step s (Message c (EmitEvent sc ev v)) f b = Done (s', o) ->
  x ∈ event_targets sv ev -> alive s x = false -> conns s' !! x = None.
Proof. exact fanout_dead_removed. Qed.
Print Assumptions C04_fanout_dead_removed.

(* events emitted by a non-owner, or for an unknown cookie, are dropped *)
Theorem C04_fanout_dropped : forall s c cs sc ev v f b s' o,
  conns s !! c = Some cs ->
  (svc_by_cookie s sc = None \/
   exists k sv owner, svc_by_cookie s sc = Some (k, sv) /\ owner_of_svc s k = Some owner /\ owner <> c) ->
  step s (Message c (EmitEvent sc ev v)) f b = Done (s', o) ->
  s' = s /\ o = [].
Proof. exact fanout_dropped. Qed.
Print Assumptions C04_fanout_dropped.

(* and no step that handles anything else outputs an EmitEvent *)
Theorem C04_no_spurious_emit : forall s e f b s' o,
  step s e f b = Done (s', o) ->
  (match e with Message _ (EmitEvent _ _ _) => False | _ => True end) ->
  List.filter is_emit o = [].
Proof. exact no_spurious_emit. Qed.
Print Assumptions C04_no_spurious_emit.

(* ---- 0<->1 transitions, requests *)
Theorem C04_subscribe_event : forall s c cs serial sc ev f b k sv owner,
  conns s !! c = Some cs -> cs_alive cs = true ->
  svc_by_cookie s sc = Some (k, sv) -> owner_of_svc s k = Some owner ->
  step s (Message c (SubscribeEvent (Some serial) sc ev)) f b =
    Done (s <| svcs ::= <[k := sv <| s_events ::= <[ev := default ∅ (s_events sv !! ev) ∪ {[c]}]> |>]> |>,
          (c, SubscribeEventReply serial true, None) ::
          (if bool_decide (s_events sv !! ev = None) && alive s owner
           then [(owner, SubscribeEvent None sc ev, None)] else [])).
Proof. exact subscribe_event_step. Qed.
Print Assumptions C04_subscribe_event.

Theorem C04_subscribe_event_invalid : forall s c cs serial sc ev f b,
  conns s !! c = Some cs -> cs_alive cs = true -> svc_by_cookie s sc = None ->
  step s (Message c (SubscribeEvent (Some serial) sc ev)) f b =
    Done (s, [(c, SubscribeEventReply serial false, None)]).
Proof. exact subscribe_event_invalid. Qed.
Print Assumptions C04_subscribe_event_invalid.

Theorem C04_unsubscribe_event : forall s c cs sc ev f b k sv owner ocs set0,
  conns s !! c = Some cs ->
  svc_by_cookie s sc = Some (k, sv) -> owner_of_svc s k = Some owner ->
  s_events sv !! ev = Some set0 ->
  conns s !! owner = Some ocs -> cs_alive ocs = true ->
  step s (Message c (UnsubscribeEvent sc ev)) f b =
    if bool_decide (set0 ∖ {[c]} = ∅)
    then Done (s <| svcs ::= <[k := sv <| s_events ::= delete ev |>]> |>, [(owner, UnsubscribeEvent sc ev, None)])
    else Done (s <| svcs ::= <[k := sv <| s_events ::= <[ev := set0 ∖ {[c]}]> |>]> |>, []).
Proof. exact unsubscribe_event_step. Qed.
Print Assumptions C04_unsubscribe_event.

Theorem C04_unsubscribe_event_noop : forall s c cs sc ev f b,
  conns s !! c = Some cs ->
  (svc_by_cookie s sc = None \/
   exists k sv owner, svc_by_cookie s sc = Some (k, sv) /\ owner_of_svc s k = Some owner /\ s_events sv !! ev = None) ->
  step s (Message c (UnsubscribeEvent sc ev)) f b = Done (s, []).
Proof. exact unsubscribe_event_noop. Qed.
Print Assumptions C04_unsubscribe_event_noop.

Theorem C04_subscribe_all : forall s c cs serial sc f b k sv owner ocs,
  conns s !! c = Some cs -> cs_alive cs = true -> 18 <= cs_ver cs ->
  svc_by_cookie s sc = Some (k, sv) -> owner_of_svc s k = Some owner -> conns s !! owner = Some ocs ->
  i_sub_all (s_info sv) = Some true -> 18 <= cs_ver ocs ->
  step s (Message c (SubscribeAllEvents (Some serial) sc)) f b =
    Done (s <| svcs ::= <[k := sv <| s_all ::= fun x => {[c]} ∪ x |>]> |>,
          (c, SubscribeAllEventsReply serial SAOk, None) ::
          (if bool_decide (s_all sv = ∅) && cs_alive ocs then [(owner, SubscribeAllEvents None sc, None)] else [])).
Proof. exact subscribe_all_step. Qed.
Print Assumptions C04_subscribe_all.

Theorem C04_subscribe_all_rejected : forall s c cs serial sc f b,
  conns s !! c = Some cs -> cs_alive cs = true -> 18 <= cs_ver cs ->
  (svc_by_cookie s sc = None \/
   exists k sv owner ocs, svc_by_cookie s sc = Some (k, sv) /\ owner_of_svc s k = Some owner /\
     conns s !! owner = Some ocs /\ (i_sub_all (s_info sv) <> Some true \/ cs_ver ocs < 18)) ->
  exists r, r <> SAOk /\
    step s (Message c (SubscribeAllEvents (Some serial) sc)) f b =
      Done (s, [(c, SubscribeAllEventsReply serial r, None)]).
Proof. exact subscribe_all_rejected. Qed.
Print Assumptions C04_subscribe_all_rejected.

Theorem C04_unsubscribe_all : forall s c cs serial sc f b k sv owner ocs,
  conns s !! c = Some cs -> (serial <> None -> cs_alive cs = true) -> 18 <= cs_ver cs ->
  svc_by_cookie s sc = Some (k, sv) -> owner_of_svc s k = Some owner -> conns s !! owner = Some ocs ->
  18 <= cs_ver ocs ->
  step s (Message c (UnsubscribeAllEvents serial sc)) f b =
    Done (s <| svcs ::= <[k := sv <| s_all := s_all sv ∖ {[c]} |>]> |>,
          (match serial with Some n => [(c, UnsubscribeAllEventsReply n SAOk, None)] | None => [] end) ++
          (if negb (bool_decide (s_all sv = ∅)) && bool_decide (s_all sv ∖ {[c]} = ∅) && cs_alive ocs
           then [(owner, UnsubscribeAllEvents None sc, None)] else [])).
Proof. exact unsubscribe_all_step. Qed.
Print Assumptions C04_unsubscribe_all.

(* ---- 0<->1 transitions, disconnect of a subscriber *)
(* removing connection c: in the state m3 in which c's own listeners, objects and services are
   gone, c leaves every subscriber set (an event's entry disappears when it becomes empty), and
   the owners' notices queued are exactly one per (service, event) / per service whose set
   becomes empty by that *)
Theorem C04_disconnect : forall m c sd cs m',
  conns (ms m) !! c = Some cs -> shutdown_conn m c sd = Done m' ->
  exists m3 m4 m5,
    conns (ms m3) = delete c (conns (ms m)) /\
    unsub_events_pass c m3 = Done m4 /\ unsub_all_pass c m4 = Done m5 /\
    w_unsub_ev (mw m') = rev (flat_map (unsub_ev_entries c (ms m3)) (svc_keys m3)) ++ w_unsub_ev (mw m) /\
    w_unsub_all (mw m') = rev (flat_map (unsub_all_entries c (ms m4)) (svc_keys m4)) ++ w_unsub_all (mw m) /\
    svcs (ms m4) = svc_drop_events c <$> svcs (ms m3) /\
    svcs (ms m5) = svc_drop_all c <$> svcs (ms m4).
Proof. exact shutdown_conn_subscriptions. Qed.
Print Assumptions C04_disconnect.

Theorem C04_disconnect_event_notices : forall c s l o sc e,
  (o, sc, e) ∈ flat_map (unsub_ev_entries c s) l <->
  exists k sv set, k ∈ l /\ svcs s !! k = Some sv /\ owner_of_svc s k = Some o /\ s_cookie sv = sc /\
                   s_events sv !! e = Some set /\ c ∈ set /\ set ∖ {[c]} = ∅.
Proof. exact unsub_ev_entries_spec. Qed.
Print Assumptions C04_disconnect_event_notices.

Theorem C04_disconnect_all_notices : forall c s l o sc,
  (o, sc) ∈ flat_map (unsub_all_entries c s) l <->
  exists k sv, k ∈ l /\ svcs s !! k = Some sv /\ owner_of_svc s k = Some o /\ s_cookie sv = sc /\
               c ∈ s_all sv /\ s_all sv ∖ {[c]} = ∅.
Proof. exact unsub_all_entries_spec. Qed.
Print Assumptions C04_disconnect_all_notices.

Theorem C04_disconnect_no_longer_subscribed : forall c sv,
  (forall e set, s_events (svc_drop_events c sv) !! e = Some set -> c ∉ set) /\ c ∉ s_all (svc_drop_all c sv).
Proof. exact no_longer_subscribed. Qed.
Print Assumptions C04_disconnect_no_longer_subscribed.

(* the work loop sends each queued notice once *)
Theorem C04_notice_sent_event : forall m o sc e r os,
  w_remove_conns (mw m) = [] -> w_unsub_ev (mw m) = (o, sc, e) :: r ->
  conns (ms m) !! o = Some os -> cs_alive os = true ->
  settle_one m = Some (Done (m <| mw; w_unsub_ev := r |> <| mo := mo m ++ [(o, UnsubscribeEvent sc e, None)] |>)).
Proof. exact settle_one_unsub_ev_alive. Qed.
Print Assumptions C04_notice_sent_event.

Theorem C04_notice_sent_all : forall m o sc r os,
  w_remove_conns (mw m) = [] -> w_unsub_ev (mw m) = [] -> w_unsub_all (mw m) = (o, sc) :: r ->
  conns (ms m) !! o = Some os -> cs_alive os = true ->
  settle_one m = Some (Done (m <| mw; w_unsub_all := r |> <| mo := mo m ++ [(o, UnsubscribeAllEvents None sc, None)] |>)).
Proof. exact settle_one_unsub_all_alive. Qed.
Print Assumptions C04_notice_sent_all.

(* ---- service destroyed *)
(* destroying a service deletes it — so every subscription to it ends — and queues exactly one
   ServiceDestroyed for each connected connection subscribed to the service or to one of its
   events (NOT for one subscribed to all events only: this is what the code does) *)
Theorem C04_service_destroyed : forall m cookie k sv m',
  svc_by_cookie (ms m) cookie = Some (k, sv) -> remove_service m cookie = Done m' ->
  svcs (ms m') = delete k (svcs (ms m)) /\
  w_svc_destroyed (mw m') =
    ((fun x => (x, cookie)) <$> List.filter (connected (ms m)) (elements (destroyed_targets sv))) ++ w_svc_destroyed (mw m).
Proof. exact service_destroyed_queue. Qed.
Print Assumptions C04_service_destroyed.

Theorem C04_destroyed_targets : forall sv x,
  x ∈ destroyed_targets sv <-> x ∈ s_subs sv \/ exists e set, s_events sv !! e = Some set /\ x ∈ set.
Proof. exact destroyed_targets_spec. Qed.
Print Assumptions C04_destroyed_targets.

Theorem C04_destroyed_sent : forall m x sc r xs,
  w_remove_conns (mw m) = [] -> w_unsub_ev (mw m) = [] -> w_unsub_all (mw m) = [] ->
  w_svc_destroyed (mw m) = (x, sc) :: r -> conns (ms m) !! x = Some xs -> cs_alive xs = true ->
  settle_one m = Some (Done (m <| mw; w_svc_destroyed := r |> <| mo := mo m ++ [(x, ServiceDestroyed sc, None)] |>)).
Proof. exact settle_one_svc_destroyed_alive. Qed.
Print Assumptions C04_destroyed_sent.

(* ---- the hypotheses are satisfiable; concrete runs *)
Example C04_fanout_sat :
  let s := state_after h_subs in
  let sv := get_svc s (100, 200) in
  conns s !! 1 = Some (get_conn s 1) /\ svc_by_cookie s 1001 = Some ((100, 200), sv) /\
  owner_of_svc s (100, 200) = Some 1 /\
  elements (event_targets sv 7) = [3; 2; 4] /\ elements (event_targets sv 8) = [3] /\
  (forall x, x ∈ event_targets sv 7 -> alive s x = true).
Proof. exact fanout_sat. Qed.

Example C04_subscribe_run :
  drop 6 (outs_after h_subs) =
  [ [(2, SubscribeEventReply 5 true, None); (1, SubscribeEvent None 1001 7, None)];
    [(4, SubscribeEventReply 5 true, None)];
    [(3, SubscribeAllEventsReply 6 SAOk, None); (1, SubscribeAllEvents None 1001, None)];
    [(3, SubscribeServiceReply 8 true, None)] ].
Proof. exact subscribe_run. Qed.

Example C04_unsubscribe_run :
  drop 10 (outs_after (h_subs ++ [
    inp (Message 2 (UnsubscribeEvent 1001 7)) 0 None;
    inp (Message 4 (UnsubscribeEvent 1001 7)) 0 None;
    inp (ConnectionShutdown 3) 0 None ])) =
  [ []; [(1, UnsubscribeEvent 1001 7, None)]; [(1, UnsubscribeAllEvents None 1001, None)] ].
Proof. exact unsubscribe_run. Qed.

Example C04_disconnect_run :
  drop 10 (outs_after (h_subs ++ [
    inp (Message 2 (UnsubscribeEvent 1001 7)) 0 None;
    inp (ConnectionShutdown 4) 0 None ])) =
  [ []; [(1, UnsubscribeEvent 1001 7, None)] ].
Proof. exact disconnect_run. Qed.

Example C04_destroy_run :
  drop 10 (outs_after (h_subs ++ [ inp (Message 1 (DestroyService 9 1001)) 0 None ])) =
  [ [(1, DestroyServiceReply 9 R3Ok, None); (3, ServiceDestroyed 1001, None);
     (2, ServiceDestroyed 1001, None); (4, ServiceDestroyed 1001, None)] ].
Proof. exact destroy_run. Qed.
