(* Props/C17.v — the front end is total: the part of it that is arithmetic.
   [linecol_to_index] / [sourcepos_to_span] = BrokenDocLink::{linecol_to_index,sourcepos_to_span}
   (usize arithmetic on N, the one subtraction explicit: RPanic/SPanic = underflow);
   [print_with]/[indent_real] = Formatter with its [&INDENT[..len]].
   "Never panics" for pest, comrak, annotate-snippets and the validation passes is observed by
   the check (catch_unwind), not proved. *)
From Coq Require Import String List NArith.
From Aldrin Require Import Schema.Ast Schema.Printer Schema.Lexer Schema.Span Schema.SpanProofs
  Props.C18_lemmas.
Open Scope N_scope.

Theorem C17_span : forall docs tl col e, 1 <= col -> linecol_to_index docs tl col e <> RPanic.
Proof. exact span_no_underflow. Qed.
Print Assumptions C17_span.

Theorem C17_span_in_bounds : forall docs tl col e i, 1 <= col ->
  linecol_to_index docs tl col e = RSome i ->
  exists d idx, In d docs /\ i = d_start d + idx /\ idx <= lenN (d_value d) /\
                is_char_boundary (d_value d) idx = true.
Proof. exact span_in_bounds. Qed.
Print Assumptions C17_span_in_bounds.

Theorem C17_sourcepos : forall docs sl sc el ec, 1 <= sc -> 1 <= ec ->
  sourcepos_to_span docs sl sc el ec <> SPanic.
Proof. exact sourcepos_no_underflow. Qed.
Print Assumptions C17_sourcepos.

(* column 0 (DESIGN §5 item 4): the subtraction underflows; comrak never reported column 0 in
   the check's runs, so this stays a statement about the arithmetic only *)
Theorem C17_span_column_zero_refuted : linecol_to_index col0_witness 1 0 false = RPanic.
Proof. exact span_column_zero_underflows. Qed.
Print Assumptions C17_span_column_zero_refuted.

Theorem C17_indent : forall ind a,
  (forall n, (n <= 12)%nat -> ind n = indent_real n) -> print_with ind a = print a.
Proof. exact indent_bound. Qed.
Print Assumptions C17_indent.
