(* Props/C08.v — Message codec.  Only statements, [exact] proofs and Print Assumptions.
   [ser_msg]   = Message::serialize_message     (MessageSerializer + the per-kind writer),
   [parse_msg] = Message::deserialize_message   (dispatch on byte 4 + Message{With,Without}Value
                 Deserializer + the per-kind reader), both instances of the generic codec of
   Msg/Grammar.v at the 63 descriptors of Msg/Table.v (tied to the sources in Msg/Tie.v).
   [msg] = kind byte, field values in wire order, payload bytes; [wf_msg m]: m fits the descriptor
   of its kind (u32 ranges, 16-byte ids, known discriminants), has a payload of at least one byte
   exactly where its kind/alternative carries one, and its frame length fits u32.
   [f] ranges over ALL lists of numbers in strictness, over ALL byte strings in re-serialization. *)
From Aldrin Require Import Codec.Base Msg.Grammar Msg.Table Msg.MsgProofs Msg.Tie Props.C08_lemmas.
Open Scope N_scope.

(* every well-formed message of every kind serializes to a frame whose 4-byte little-endian
   prefix is the frame length, and that frame parses to the same message: same kind, same
   fields, identical payload *)
Theorem C08_roundtrip : forall m, wf_msg m = true ->
  exists f, ser_msg m = Ok f /\ from_le (firstn 4 f) = lenN f /\ parse_msg f = Ok m.
Proof. exact roundtrip63. Qed.
Print Assumptions C08_roundtrip.

Theorem C08_payload_identical : forall m f m', wf_msg m = true -> ser_msg m = Ok f ->
  parse_msg f = Ok m' -> mvalue m' = mvalue m /\ mfields m' = mfields m /\ mkind m' = mkind m.
Proof. exact payload63. Qed.
Print Assumptions C08_payload_identical.

(* the frame is a byte string (every element below 256) *)
Theorem C08_frame_is_bytes : forall m f, wf_msg m = true -> ser_msg m = Ok f -> bytes_ok f = true.
Proof. exact frame_is_bytes63. Qed.
Print Assumptions C08_frame_is_bytes.

(* a frame is accepted only if the length prefix matches, the kind is known, and the frame is
   exactly prefix ++ kind ++ value part ++ field bytes, the field bytes parsing as the kind's
   fields with NOTHING left over; the value part is empty for kinds without value and otherwise
   a 4-byte length (>= 1) followed by exactly that many payload bytes *)
Theorem C08_strict : forall f m, parse_msg f = Ok m ->
  from_le (firstn 4 f) = lenN f /\
  known_kind (nth 4 f 0) = true /\ mkind m = nth 4 f 0 /\
  exists d vpart fbytes,
    desc_of table (nth 4 f 0) = Some d /\
    f = firstn 4 f ++ [nth 4 f 0] ++ vpart ++ fbytes /\
    parse_fields (dfields d) fbytes = Ok (mfields m, []) /\
    value_part_ok d vpart m.
Proof. exact strict63. Qed.
Print Assumptions C08_strict.

(* whatever is accepted from a byte string is a well-formed message ... *)
Theorem C08_accepts_wf : forall f m, bytes_ok f = true -> parse_msg f = Ok m -> wf_msg m = true.
Proof. exact accepts_wf63. Qed.
Print Assumptions C08_accepts_wf.

(* ... hence re-serializes to a frame that parses to the same message (the frame itself may
   differ: non-canonical varints are normalised, a discarded payload becomes the None value) *)
Theorem C08_reser : forall f m, bytes_ok f = true -> parse_msg f = Ok m ->
  exists f', ser_msg m = Ok f' /\ parse_msg f' = Ok m.
Proof. exact reser63. Qed.
Print Assumptions C08_reser.

Theorem C08_reser_not_longer : forall f m f', bytes_ok f = true -> parse_msg f = Ok m ->
  ser_msg m = Ok f' -> lenN f' <= lenN f.
Proof. exact reser_shorter63. Qed.
Print Assumptions C08_reser_not_longer.

(* <Kind as MessageOps>::deserialize_message accepts nothing that Message::deserialize_message
   does not, and the latter is the former at the kind named by byte 4 *)
Theorem C08_per_type_agrees : forall k f m, parse_as k f = Ok m -> parse_msg f = Ok m.
Proof. exact per_type_agrees63. Qed.
Print Assumptions C08_per_type_agrees.

Theorem C08_dispatch_agrees : forall f m, parse_msg f = Ok m -> parse_as (nth 4 f 0) f = Ok m.
Proof. exact dispatch_agrees63. Qed.
Print Assumptions C08_dispatch_agrees.

(* the kinds: exactly the 63 discriminants 0..62 are known, and each of them has well-formed
   messages, so the theorems above are not vacuous for any kind *)
Theorem C08_known_kinds : forall k, known_kind k = true <-> k < 63.
Proof. exact known_kind_range. Qed.
Print Assumptions C08_known_kinds.

Theorem C08_every_kind_inhabited : forall k, k < 63 -> exists m, mkind m = k /\ wf_msg m = true.
Proof. exact every_kind_inhabited. Qed.
Print Assumptions C08_every_kind_inhabited.

(* the descriptor table is the one read from the 63 source files (writer and reader paths) *)
Theorem C08_table_tie : map sig_of_desc table = gen.MsgSig.msg_sigs.
Proof. exact msg_sig_tie. Qed.
Print Assumptions C08_table_tie.

Example C08_vectors :
  wf_msg cfr_ok = true /\
  ser_msg cfr_ok = Ok [13; 0; 0; 0; 12; 2; 0; 0; 0; 3; 4; 1; 0] /\
  parse_msg [13; 0; 0; 0; 12; 2; 0; 0; 0; 3; 4; 1; 0] = Ok cfr_ok /\
  wf_msg cfr_aborted = true /\
  ser_msg cfr_aborted = Ok [12; 0; 0; 0; 12; 1; 0; 0; 0; 0; 1; 2] /\
  parse_msg [14; 0; 0; 0; 12; 2; 0; 0; 0; 9; 9; 252; 1; 2] = Ok cfr_aborted /\
  parse_msg [14; 0; 0; 0; 12; 2; 0; 0; 0; 3; 4; 1; 0] = Err Invalid /\
  parse_msg [5; 0; 0; 0; 63] = Err Invalid /\
  parse_msg [13; 0; 0; 0; 12; 2; 0; 0; 0; 3; 4; 1; 6] = Err Invalid /\
  parse_msg [14; 0; 0; 0; 12; 2; 0; 0; 0; 3; 4; 1; 0; 0] = Err TrailingData /\
  parse_msg [11; 0; 0; 0; 12; 0; 0; 0; 0; 1; 0] = Err Invalid.
Proof. exact vectors_ok. Qed.
