(* Props/C10_lemmas.v — assembling the C10 statements from Proto/BusListenerProofs.v (the real
   struct with its cached flags), Broker/ListenerProofs.v (emit_bus_event / start_bus_listener on
   the abstract machine) and Broker/OutProofs.v (order and tags within a step). *)
From stdpp Require Import gmap list.
From RecordUpdate Require Import RecordSet.
Import RecordSetNotations.
From Aldrin Require Import gen.BrokerConsts Broker.Model Broker.Run Proto.BusListener
  Proto.BusListenerProofs Broker.ListenerProofs Broker.GateProofs Broker.OutProofs.
Local Open Scope N_scope.

(* after ANY add/remove/clear history from BusListener::new *)
Theorem flags_history ops :
  let b := fold_left blis_apply ops blis_new in
  b_all_obj b = existsb is_all_objects (b_filters b) /\
  b_spec_svc b = forallb is_specific (b_filters b) /\
  NoDup (b_filters b) /\
  b_filters b = fold_left abs_apply ops [] /\
  (forall u, blis_matches_object b u = existsb (fun f => matches_object f u) (b_filters b)) /\
  (forall ou su, blis_matches_service b ou su = existsb (fun f => matches_service f ou su) (b_filters b)) /\
  (forall os, exists l, current_objects b os = Some l /\
      l ≡ₚ List.filter (fun p : uuid * obj => existsb (fun f => matches_object f p.1) (b_filters b)) (map_to_list os)) /\
  (forall ss, exists l, current_services b ss = Some l /\
      l ≡ₚ List.filter (fun p : (uuid * uuid) * svc => existsb (fun f => matches_service f p.1.1 p.1.2) (b_filters b)) (map_to_list ss)).
Proof.
  intros b. destruct (flags_after_history ops blis_new blis_new_ok) as (Hok & Hf & _). fold b in Hok, Hf.
  pose proof Hok as [H1 H2 H3].
  split; [exact H1|]. split; [exact H2|]. split; [exact H3|]. split; [exact Hf|].
  split; [intros u; apply matches_object_plain, Hok|]. split; [reflexivity|].
  split; [intros os; apply current_objects_scan, Hok|intros ss; apply current_services_scan, Hok].
Qed.

(* the abstract machine applies the same list operations to l_filters *)
Lemma model_filter_ops m c cs cookie l o fresh b :
  conns (ms m) !! c = Some cs -> listeners (ms m) !! cookie = Some l -> l_owner l = c ->
  handle m c (match o with
              | OpAdd f => AddBusListenerFilter cookie f
              | OpRemove f => RemoveBusListenerFilter cookie f
              | OpClear => ClearBusListenerFilters cookie
              end) fresh b =
  Done (m <| ms; listeners ::= <[cookie := l <| l_filters := abs_apply (l_filters l) o |>]> |>).
Proof.
  intros Hc Hl Ho. unfold handle. rewrite Hc.
  destruct o; rewrite Hl, bool_decide_eq_true_2 by exact Ho; reflexivity.
Qed.

(* the struct's new-event test is the abstract machine's [reports_new] *)
Lemma reports_new_blis b l ev :
  b_filters b = l_filters l -> b_scope b = l_scope l -> blis_matches_new_event b ev = reports_new l ev.
Proof. intros Hf Hs. rewrite matches_new_event_plain. unfold reports_new. rewrite Hf, Hs. reflexivity. Qed.
