(* Props/C20.v — type ids are structural.  Only statements, [exact] proofs and Print Assumptions.

   Vocabulary (Intro/*.v): a universe [U : univ] is a set of introspectable types with, per type,
   its layout (lexical ids as 16-byte strings), the types its `add_references` pushes, and a
   root.  [well_formed U]: every layout involved is the image of Rust data.  [coherent U]: two
   reachable types with the same layout up to documentation reference the same set of layouts up
   to documentation (types are identified by schema and name).  [wire_equal A B]: the roots'
   layouts agree up to documentation and so do the SETS of layouts reachable from the roots'
   references — i.e. schema and type names, ids and names of fields/variants/functions/events,
   required flags, referenced types, fallbacks, service uuid and version, transitively.
   [compute_bytes]/[type_id] transcribe TypeId::compute_from_dyn with the pop order [pi] and the
   UUIDv5 hash [H] as parameters: every theorem holds for every permuting [pi] and every [H]. *)
From Aldrin Require Import Codec.BaseProofs Codec.RoundTrip
  Intro.Ir Intro.IrProofs Intro.Canon Intro.CanonProofs Intro.CanonWf Intro.CanonInj Intro.TypeId
  Intro.ClosureProofs Intro.TypeIdProofs Intro.ClosureFuel Intro.LexProofs Intro.RecordProofs Intro.ConstsTie
  Props.C20_lemmas.
From Coq Require Import Permutation.
Open Scope N_scope.

(* documentation does not enter the canonical bytes of a layout *)
Theorem C20_docs_insensitive : forall l, canon_layout (erase_doc l) = canon_layout l.
Proof. exact canon_layout_erase. Qed.
Print Assumptions C20_docs_insensitive.

(* the order of the builder calls does not matter (distinct ids) *)
Theorem C20_builder_order_struct : forall (R : Type) schema name d (fs fs' : list (field R)) fb,
  Permutation fs fs' -> NoDup (map f_id fs) ->
  build_struct schema name d fs fb = build_struct schema name d fs' fb.
Proof. exact (@build_struct_perm). Qed.
Print Assumptions C20_builder_order_struct.

Theorem C20_builder_order_enum : forall (R : Type) schema name d (vs vs' : list (variant R)) fb,
  Permutation vs vs' -> NoDup (map v_id vs) ->
  build_enum schema name d vs fb = build_enum schema name d vs' fb.
Proof. exact (@build_enum_perm). Qed.
Print Assumptions C20_builder_order_enum.

Theorem C20_builder_order_service : forall (R : Type) schema name d u ver (fs fs' : list (func R))
  (es es' : list (event R)) ffb efb,
  Permutation fs fs' -> NoDup (map fn_id fs) -> Permutation es es' -> NoDup (map ev_id es) ->
  build_service schema name d u ver fs es ffb efb = build_service schema name d u ver fs' es' ffb efb.
Proof. exact (@build_service_perm). Qed.
Print Assumptions C20_builder_order_service.

(* the canonical bytes of two well-formed layouts agree iff the layouts agree up to documentation *)
Theorem C20_layout_canon_iff : forall a b, layout_ok a = true -> layout_ok b = true ->
  (canon_layout a = canon_layout b <-> erase_doc a = erase_doc b).
Proof. exact canon_layout_iff. Qed.
Print Assumptions C20_layout_canon_iff.

(* the worklist loop returns, for every pop order, the strictly sorted list of the canonical
   layouts of exactly the reachable types *)
Theorem C20_closure_every_order : forall (U : univ) pi, (forall l, Permutation (pi l) l) ->
  well_formed U -> coherent U -> forall fuel x,
  compute_bytes (U_T U) (U_lay U) (U_refs U) pi fuel (U_root U) = Ok x ->
  exists lb s, canon_layout (U_lay U (U_root U)) = Ok lb /\ bsorted s /\
               (forall b, In b s <-> KsetU U b) /\ x = canon_compute lb s.
Proof. exact compute_bytes_spec. Qed.
Print Assumptions C20_closure_every_order.

(* documentation, declaration order, the order and multiplicity of pushed references and the
   order in which they are visited do not change the id *)
Theorem C20_insensitive : forall (H : uuid -> list N -> uuid) (A B : univ) piA piB fa fb ia ib,
  (forall l, Permutation (piA l) l) -> (forall l, Permutation (piB l) l) ->
  well_formed A -> coherent A -> well_formed B -> coherent B -> wire_equal A B ->
  type_id H (U_T A) (U_lay A) (U_refs A) piA fa (U_root A) = Ok ia ->
  type_id H (U_T B) (U_lay B) (U_refs B) piB fb (U_root B) = Ok ib -> ia = ib.
Proof. exact type_id_insensitive. Qed.
Print Assumptions C20_insensitive.

(* the hashed bytes determine the wire description (from the codec round trip) *)
Theorem C20_canon_injective : forall (A B : univ) piA piB fa fb x,
  (forall l, Permutation (piA l) l) -> (forall l, Permutation (piB l) l) ->
  well_formed A -> coherent A -> well_formed B -> coherent B ->
  compute_bytes (U_T A) (U_lay A) (U_refs A) piA fa (U_root A) = Ok x ->
  compute_bytes (U_T B) (U_lay B) (U_refs B) piB fb (U_root B) = Ok x -> wire_equal A B.
Proof. exact compute_bytes_injective. Qed.
Print Assumptions C20_canon_injective.

(* with a hash that separates the two inputs at hand: equal ids iff equal wire descriptions *)
Theorem C20_iff : forall (H : uuid -> list N -> uuid) (A B : univ) piA piB fa fb ia ib,
  (forall l, Permutation (piA l) l) -> (forall l, Permutation (piB l) l) ->
  well_formed A -> coherent A -> well_formed B -> coherent B ->
  hash_separates H A B piA piB fa fb ->
  type_id H (U_T A) (U_lay A) (U_refs A) piA fa (U_root A) = Ok ia ->
  type_id H (U_T B) (U_lay B) (U_refs B) piB fb (U_root B) = Ok ib ->
  (ia = ib <-> wire_equal A B).
Proof. exact type_id_iff. Qed.
Print Assumptions C20_iff.

(* the runs the theorems above speak about do return: with finitely many reachable types the loop
   terminates within |refs root| + (1 + max |refs t|) * |all| iterations, for every pop order *)
Theorem C20_terminates : forall (U : univ) pi (all : list (U_T U)) fuel,
  (forall l, Permutation (pi l) l) -> well_formed U -> coherent U ->
  (forall t, u_reach U t -> In t all) ->
  (length (U_refs U (U_root U)) + S (mref (U_T U) (U_refs U) all) * length all < fuel)%nat ->
  exists x, compute_bytes (U_T U) (U_lay U) (U_refs U) pi fuel (U_root U) = Ok x.
Proof. exact compute_bytes_terminates. Qed.
Print Assumptions C20_terminates.

(* lexical ids read as terms: when lex_uuid (a UUIDv5 hash of the referenced type's description) is
   injective on the terms that occur, wire descriptions over uuids agree iff they agree over terms *)
Theorem C20_terms : forall (H : uuid -> list N -> uuid) (A B : univL),
  (forall x y, occurs H A x \/ occurs H B x -> occurs H A y \/ occurs H B y ->
               lex_uuid H x = lex_uuid H y -> x = y) ->
  (wire_equal (to_univ H A) (to_univ H B) <-> wire_equal_terms H A B).
Proof. exact wire_equal_terms_iff. Qed.
Print Assumptions C20_terms.

(* partial: for an idealised hash (injective, 16-byte outputs, never a built-in constant) lex_uuid is
   injective on terms without type arguments whose schema/type names contain no ':'.  Not covered:
   custom_generic, raw ids; for arbitrary strings it is false (custom("a::b","c") = custom("a","b::c")) *)
Theorem C20_lex_injective_partial : forall (H : uuid -> list N -> uuid),
  (forall ns x ns' x', H ns x = H ns' x' -> ns = ns' /\ x = x') ->
  (forall ns x, length (H ns x) = 16%nat) -> (forall ns x p, H ns x <> prim_lex p) ->
  forall t t', lex_simple t -> lex_simple t' -> lex_uuid H t = lex_uuid H t' -> t = t'.
Proof. exact lex_uuid_inj_partial. Qed.
Print Assumptions C20_lex_injective_partial.

(* an Introspection record serializes and deserializes to an equal record *)
Theorem C20_roundtrip : forall r, intro_ok r = true ->
  exists bs, encode_intro r = Ok bs /\ decode_intro bs = Ok r.
Proof. exact intro_roundtrip. Qed.
Print Assumptions C20_roundtrip.

(* the record Introspection::from_ir builds has every type id of its layout among its references *)
Theorem C20_references_resolve : forall ir r, from_ir ir = Some r -> resolved r.
Proof. exact from_ir_resolved. Qed.
Print Assumptions C20_references_resolve.

(* ---------- the hypotheses are satisfiable, and [coherent] cannot be dropped ---------- *)
Example C20_witness : (well_formed ex_univ /\ well_formed ex_univ') /\ coherent ex_univ /\ coherent ex_univ' /\
  wire_equal ex_univ ex_univ'.
Proof. exact (conj ex_wf (conj (ex_coherent _ _ _ _) (conj (ex_coherent _ _ _ _) ex_wire_equal))). Qed.

Example C20_witness_runs :
  exists x, compute_bytes T3 (U_lay ex_univ) (U_refs ex_univ) (fun s => s) 10 TNode = Ok x /\
            compute_bytes T3 (U_lay ex_univ') (U_refs ex_univ') (fun s => s) 10 TNode = Ok x /\
            compute_bytes T3 (U_lay ex_univ') (U_refs ex_univ') (@rev T3) 10 TNode = Ok x.
Proof. exact ex_bytes_equal. Qed.

Example C20_incoherent_order_matters :
  ~ coherent (mkUniv T5 lay5 refs5 QRoot) /\
  exists x y, compute_bytes T5 lay5 refs5 (fun s => s) 10 QRoot = Ok x /\
              compute_bytes T5 lay5 refs5 (@rev T5) 10 QRoot = Ok y /\ x <> y.
Proof. exact (conj incoherent_not_coherent incoherent_order_matters). Qed.

Example C20_witness_finite : forall t, u_reach ex_univ t -> In t [TNode; TOpt; TU8].
Proof. intros [| |] _; cbn; auto. Qed.

Example C20_witness_record : intro_ok ex_intro = true.
Proof. exact ex_intro_ok. Qed.
