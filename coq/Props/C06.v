(* Props/C06.v — Clients and broker agree under every schedule (statements only; proofs in
   Proto/ListenerProofs.v, Proto/Flow.v, Props/C06_lemmas.v).  Proof for the protocol logic;
   wake-up delivery and fairness of the select loops are explored by harness `sched`, not proved. *)
From stdpp Require Import gmap list.
From Aldrin Require Import gen.ClientConsts Broker.Model Proto.ClientView Proto.ClientViewProofs Proto.ReplyProofs
  Proto.ReplyBroker Proto.CallProofs Proto.ListenerProofs Proto.ChanEndsProofs Proto.Flow Props.C06_lemmas.
Local Open Scope N_scope.

(* ---- channel ends: the handle-side typestate + the client's maps + the broker's channel entry.
   On the tree at the pinned commit a refused claim drops its end claimed and Open; the drop-driven
   CloseChannelEnd{claimed = true} is answered and msg_close_channel_end_reply removes an entry
   that was never inserted: debug_assert!(contained.is_some()) fires inside Client::run. *)
Theorem C06_channel_ends_refuted :
  exists sched, run {| fl_refused_closed := false; fl_close_asserts := true; fl_cancel := false |} (created 7 1 CSender []) sched
                = CPanic 1 S_CLOSE_ABSENT.
Proof. exact (ex_intro _ w_refused_claim refused_claim_awaited_panics). Qed.
Print Assumptions C06_channel_ends_refuted.

(* with the repaired error path of claim() (the Err path marks the raw channel closed) and every
   claim awaited to completion: for every creator, either claimed end, any other connections and
   EVERY schedule of application operations (bind, claim, finish, drop/close, unbind, establish,
   send, add capacity), handle-queue steps, broker steps, receive steps and disconnects, no client
   rejects a message or trips an assertion (create/claim/close/closed/claimed/item/capacity, a
   close racing a claim included); whether or not msg_close_channel_end_reply keeps its assertion *)
Theorem C06_channel_ends :
  forall fl, fl_refused_closed fl = true -> fl_cancel fl = false ->
  forall k c0 ec others sched,
    (forall c, run fl (created k c0 ec others) sched <> CReject c) /\
    (forall c site, run fl (created k c0 ec others) sched <> CPanic c site).
Proof. exact channel_ends_positive. Qed.
Print Assumptions C06_channel_ends.

(* what holds for the shape tools/rs2v.py reads from unclaimed.rs / client.rs of the working tree:
   the refutation above for the pinned commit, the positive theorem once the repair is in *)
Theorem C06_channel_ends_this_tree : this_tree_statement CLAIM_REFUSED_MARKS_CLOSED CLOSE_REPLY_ASSERTS.
Proof. exact (this_tree_by_shape CLAIM_REFUSED_MARKS_CLOSED CLOSE_REPLY_ASSERTS). Qed.
Print Assumptions C06_channel_ends_this_tree.

(* the witness of the refutation itself, for either shape *)
Theorem C06_refused_claim_witness : f1_statement CLAIM_REFUSED_MARKS_CLOSED CLOSE_REPLY_ASSERTS.
Proof. exact (f1_by_shape CLAIM_REFUSED_MARKS_CLOSED CLOSE_REPLY_ASSERTS). Qed.
Print Assumptions C06_refused_claim_witness.

(* known findings that the repaired error path does not cure: a claim future dropped while its
   request is in flight, and a second bind of an end the client already holds *)
Theorem C06_cancelled_claim_refuted :
  exists sched, run {| fl_refused_closed := true; fl_close_asserts := true; fl_cancel := true |} (created 7 1 CSender []) sched
                = CPanic 1 S_CLOSE_ABSENT.
Proof. exact (ex_intro _ w_cancelled_claim (cancelled_claim_panics {| fl_refused_closed := true; fl_close_asserts := true; fl_cancel := true |} eq_refl eq_refl)). Qed.
Print Assumptions C06_cancelled_claim_refuted.

Theorem C06_double_bind_refuted :
  forall fl, fl_cancel fl = true -> exists sched, run fl (created 7 1 CSender []) sched = CPanic 1 S_SEND_ITEM_ABSENT.
Proof. exact (fun fl H => ex_intro _ w_double_bind (double_bind_panics fl H)). Qed.
Print Assumptions C06_double_bind_refuted.

(* ---- reply matching, for the 17 request kinds the broker answers in the step in which it handles
   the request: in the composed system FULL view + FIFOs + any broker that keeps the reply contract
   (exactly one reply of the same kind and serial per such request, no such reply otherwise), for
   every schedule of sends (serials allocated like SerialMap::insert), broker steps, notifications
   and receive steps, a reply never arrives with its serial not pending *)
Theorem C06_reply_matching :
  forall asserts ver ops K s, rrun asserts {| r_v := view0 ver; r_up := []; r_down := [] |} ops <> RUnmatched K s.
Proof. exact reply_matching. Qed.
Print Assumptions C06_reply_matching.

(* the broker machine Broker/Model.v keeps that contract: a step that handles message x of a live
   connection c without removing c emits, among ALL its outputs (handler and work loop, to any
   connection), exactly the reply keys [(c, key)] if x is such a request and none otherwise; every
   other kind of step emits none *)
Theorem C06_reply_contract_model :
  forall s c cs x fresh b s' o,
    Model.conns s !! c = Some cs -> cs_alive cs = true ->
    Model.step s (Message c x) fresh b = Done (s', o) ->
    (exists m1, Model.handle {| ms := s; mw := work0; mo := [] |} c x fresh b = Done m1) ->
    rkeys o = match rq x with Some key => [(c, key)] | None => [] end.
Proof. exact step_reply_keys. Qed.
Print Assumptions C06_reply_contract_model.

Theorem C06_reply_contract_other_events :
  forall s e fresh b s' o, (forall c x, e <> Message c x) -> Model.step s e fresh b = Done (s', o) -> rkeys o = [].
Proof. exact step_other_no_reply. Qed.
Print Assumptions C06_reply_contract_other_events.

(* ---- calls: one service of a client; whatever the application does with the Service (destroy any
   number of times, never awaited), while calls arrive as long as the broker knows the service,
   abort notices arrive, the object is destroyed under it and calls are answered: CallFunction only
   ever arrives for a cookie in `services`, DestroyServiceReply(Ok) finds the entry, a new call's
   abort handle is new (the broker's call serials being distinct) *)
Theorem C06_calls : forall sc ops, exists z, wrun sc wcreated ops = WOk z.
Proof.
  exact (fun sc ops => match wrun sc wcreated ops as r
                             return (match r with WOk _ => True | _ => False end -> exists z, r = WOk z) with
                       | WOk z => fun _ => ex_intro _ z eq_refl
                       | _ => fun H => match H with end
                       end (calls_never_rejected sc ops)).
Qed.
Print Assumptions C06_calls.

(* ---- the slices of the three composed systems ARE the acceptance automaton restricted to one
   cookie: same verdict, related results, on every message about that cookie *)
Theorem C06_channel_slice_is_recv :
  forall fl k v x m, crel k v x -> about k v m ->
    match crecv fl x m, recv_with (fl_close_asserts fl) true v m with
    | ROk x', Acc v' [] => crel k v' x' | RRej, Rej => True | RPan s, Pan s' => s = s' | _, _ => False end.
Proof. exact crecv_is_recv. Qed.
Print Assumptions C06_channel_slice_is_recv.

Theorem C06_listener_slice_is_recv :
  forall asserts alive k v z m, lrel k v z -> labout k v m ->
    match lrecv z m, recv_with asserts alive v m with
    | LcOk z', Acc v' [] => lrel k v' z' | LcRej, Rej => True | LcPan s, Pan s' => s = s' | _, _ => False end.
Proof. exact lrecv_is_recv. Qed.
Print Assumptions C06_listener_slice_is_recv.

Theorem C06_service_slice_is_recv :
  forall asserts alive sc v z m, wrel sc v z -> wabout sc v m ->
    match wrecv alive z m, recv_with asserts alive v m with
    | WcOk z', Acc v' _ => wrel sc v' z' | WcRej, Rej => True | WcPan s, Pan s' => s = s' | _, _ => False end.
Proof. exact wrecv_is_recv. Qed.
Print Assumptions C06_service_slice_is_recv.

(* ---- bus listeners: whatever the application does with a listener (start, stop, destroy, any
   number of times, without awaiting), in every interleaving with the broker and with untagged
   events, the client accepts every message: in particular tagged events only arrive between
   StartBusListenerReply(Ok) with a scope that includes Current and BusListenerCurrentFinished *)
Theorem C06_listeners : forall k ops, exists z, lrun k lcreated ops = LOk z.
Proof. exact listeners_ok. Qed.
Print Assumptions C06_listeners.

(* ---- no deadlock in the queueing network, for every transport FIFO size >= 1 (or unbounded),
   every broker queue size >= 1 and any number of connections *)
Theorem C06_no_deadlock :
  forall n : net,
    (1 <= bcap n)%nat -> match cap n with Some c => (1 <= c)%nat | None => True end ->
    busy n = true -> exists s, enabled n s = true.
Proof. exact (fun n H1 H2 => no_deadlock n (conj H1 H2)). Qed.
Print Assumptions C06_no_deadlock.

(* hypotheses are satisfiable and not vacuous: a 1-slot FIFO with a blocked flush still moves *)
Example C06_no_deadlock_example :
  let c := {| k_req := 3%nat; k_flushing := true; k_cbuf := 2%nat; k_up := 1%nat; n_hold := true; n_pq := 0%nat; n_buf := 5%nat; k_down := 1%nat |} in
  let n := {| cap := Some 1%nat; bcap := 1%nat; bq := 1%nat; conns := [c] |} in
  busy n = true /\ enabled n (Broker []) = true /\ enabled n (ClientFlush 0%nat) = false /\ enabled n (ConnForward 0%nat) = false.
Proof. repeat split. Qed.
