(* Props/C06.v — Clients and broker agree under every schedule (statements only; proofs in
   Proto/ListenerProofs.v, Proto/Flow.v, Props/C06_lemmas.v).  Proof for the protocol logic;
   wake-up delivery and fairness of the select loops are explored by harness `sched`, not proved. *)
From stdpp Require Import gmap list.
From Aldrin Require Import gen.ClientConsts Broker.Model Proto.ClientView Proto.ListenerProofs Proto.Flow
  Props.C06_lemmas.
Local Open Scope N_scope.

(* ---- channel ends: the handle-side typestate + the client's maps + the broker's channel entry.
   On the tree at the pinned commit a refused claim drops its end claimed and Open; the drop-driven
   CloseChannelEnd{claimed = true} is answered and msg_close_channel_end_reply removes an entry
   that was never inserted: debug_assert!(contained.is_some()) fires inside Client::run. *)
Theorem C06_channel_ends_refuted :
  exists sched, run {| fl_refused_closed := false; fl_close_asserts := true; fl_cancel := false |} (created 7 1 CSender []) sched
                = CPanic 1 S_CLOSE_ABSENT.
Proof. exact (ex_intro _ w_refused_claim refused_claim_awaited_panics). Qed.
Print Assumptions C06_channel_ends_refuted.

(* the same statement for whichever shape tools/rs2v.py reads from unclaimed.rs / client.rs *)
Theorem C06_channel_ends_this_tree : f1_statement CLAIM_REFUSED_MARKS_CLOSED CLOSE_REPLY_ASSERTS.
Proof. exact (f1_by_shape CLAIM_REFUSED_MARKS_CLOSED CLOSE_REPLY_ASSERTS). Qed.
Print Assumptions C06_channel_ends_this_tree.

(* known findings that the repaired error path does not cure: a claim future dropped while its
   request is in flight, and a second bind of an end the client already holds *)
Theorem C06_cancelled_claim_refuted :
  exists sched, run {| fl_refused_closed := true; fl_close_asserts := true; fl_cancel := true |} (created 7 1 CSender []) sched
                = CPanic 1 S_CLOSE_ABSENT.
Proof. exact (ex_intro _ w_cancelled_claim (cancelled_claim_panics {| fl_refused_closed := true; fl_close_asserts := true; fl_cancel := true |} eq_refl eq_refl)). Qed.
Print Assumptions C06_cancelled_claim_refuted.

Theorem C06_double_bind_refuted :
  forall fl, fl_cancel fl = true -> exists sched, run fl (created 7 1 CSender []) sched = CPanic 1 S_SEND_ITEM_ABSENT.
Proof. exact (fun fl H => ex_intro _ w_double_bind (double_bind_panics fl H)). Qed.
Print Assumptions C06_double_bind_refuted.

(* ---- bus listeners: whatever the application does with a listener (start, stop, destroy, any
   number of times, without awaiting), in every interleaving with the broker and with untagged
   events, the client accepts every message: in particular tagged events only arrive between
   StartBusListenerReply(Ok) with a scope that includes Current and BusListenerCurrentFinished *)
Theorem C06_listeners : forall k ops, exists z, lrun k lcreated ops = LOk z.
Proof. exact listeners_ok. Qed.
Print Assumptions C06_listeners.

(* ---- no deadlock in the queueing network, for every transport FIFO size >= 1 (or unbounded),
   every broker queue size >= 1 and any number of connections *)
Theorem C06_no_deadlock :
  forall n : net,
    (1 <= bcap n)%nat -> match cap n with Some c => (1 <= c)%nat | None => True end ->
    busy n = true -> exists s, enabled n s = true.
Proof. exact (fun n H1 H2 => no_deadlock n (conj H1 H2)). Qed.
Print Assumptions C06_no_deadlock.

(* hypotheses are satisfiable and not vacuous: a 1-slot FIFO with a blocked flush still moves *)
Example C06_no_deadlock_example :
  let c := {| k_req := 3%nat; k_flushing := true; k_cbuf := 2%nat; k_up := 1%nat; n_hold := true; n_pq := 0%nat; n_buf := 5%nat; k_down := 1%nat |} in
  let n := {| cap := Some 1%nat; bcap := 1%nat; bq := 1%nat; conns := [c] |} in
  busy n = true /\ enabled n (Broker []) = true /\ enabled n (ClientFlush 0%nat) = false /\ enabled n (ConnForward 0%nat) = false.
Proof. repeat split. Qed.
