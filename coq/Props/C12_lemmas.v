(* Props/C12_lemmas.v — composition of the C12 pieces: the gate-out theorem of
   Broker/GateProofs.v (which assumes the ownership invariants along the history) with the
   broker invariant of Broker/Inv*.v (which proves them for every reachable state). *)
From stdpp Require Import gmap list.
From Aldrin Require Import gen.BrokerConsts Broker.Model Broker.Run Broker.Inv Broker.InvProofsStep
  Broker.GateProofs Broker.OutProofs Proto.Accept Proto.AcceptProofs.
Local Open Scope N_scope.

Lemma inv_own_reg s : Inv s -> own_ok s /\ reg_ok s.
Proof.
  intros H. split.
  - intros u o Ho. apply elem_of_dom. exact (iv_oo _ _ _ _ _ H u o Ho).
  - intros k sv Hk. destruct (iv_reg _ _ _ _ _ H k sv Hk) as (o & Ho & _). eauto.
Qed.

Lemma reachable_own s : reachable s -> reach_own s.
Proof. apply reachable_reach_own. intros s' H. apply inv_own_reg, reachable_inv, H. Qed.

(* gate-out for every reachable state, every event, every output *)
Theorem gate_out s e fresh b s' o c x from :
  reachable s -> step s e fresh b = Done (s', o) -> (c, x, from) ∈ o ->
  exists cs, conns s !! c = Some cs /\ (msg_min_version x = 14 \/ msg_min_version x <= cs_ver cs).
Proof.
  intros Hr. destruct (inv_own_reg s (reachable_inv s Hr)) as [Ho Hg].
  apply gate_out_own; [apply reachable_own, Hr|exact Ho|exact Hg].
Qed.

(* histories whose connections all come out of the handshake: NewConnection carries a version
   that select_protocol_version produced *)
Definition from_handshake (i : input) : Prop :=
  match i_ev i with
  | NewConnection _ v => exists major minor c2, select major minor c2 = Some (1, v)
  | _ => True
  end.

Inductive reachable_hs : state -> Prop :=
| rh_init : reachable_hs init
| rh_step s i s' o : reachable_hs s -> legal s i -> from_handshake i ->
    step s (i_ev i) (i_fresh i) (i_bserial i) = Done (s', o) -> reachable_hs s'.

Lemma reachable_hs_reachable s : reachable_hs s -> reachable s.
Proof. induction 1; [constructor|econstructor; eassumption]. Qed.

Lemma reachable_hs_versions s : reachable_hs s ->
  forall c cs, conns s !! c = Some cs -> 14 <= cs_ver cs <= 20.
Proof.
  induction 1 as [|s i s' o H IH Hl Hh Hs]; intros c cs Hc.
  - cbn in Hc. rewrite lookup_empty in Hc. discriminate.
  - destruct (versions_stable _ _ _ _ _ _ _ _ Hs Hc) as [(cs0 & Hc0 & ->)|(ver & He & ->)]; [eapply IH; eauto|].
    unfold from_handshake in Hh. rewrite He in Hh. destruct Hh as (ma & mi & c2 & Hsel).
    apply select_spec in Hsel as [_ [(_ & Hle & [= ->])|(_ & _ & [= ->])]]; lia.
Qed.

Theorem gate_out_hs s e fresh b s' o c x from :
  reachable_hs s -> step s e fresh b = Done (s', o) -> (c, x, from) ∈ o ->
  exists cs, conns s !! c = Some cs /\ msg_min_version x <= cs_ver cs.
Proof.
  intros Hr Hs Hin. destruct (gate_out _ _ _ _ _ _ _ _ _ (reachable_hs_reachable _ Hr) Hs Hin) as (cs & Hc & Hv).
  exists cs. split; [exact Hc|]. destruct Hv as [->|Hv]; [|exact Hv].
  apply (reachable_hs_versions s Hr c cs Hc).
Qed.
