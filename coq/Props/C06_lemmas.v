(* Props/C06_lemmas.v — witnesses and glue for Props/C06.v *)
From stdpp Require Import gmap list.
From Aldrin Require Import gen.ClientConsts Broker.Model Proto.ClientView Proto.ListenerProofs Proto.ChanEndsProofs Proto.Flow.
Local Open Scope N_scope.

Definition unchanged_flags : flags := {| fl_refused_closed := false; fl_close_asserts := true; fl_cancel := true |}.
Definition fixA_flags : flags := {| fl_refused_closed := true; fl_close_asserts := true; fl_cancel := true |}.

(* F1: create a channel claiming the sender, drop the pending sender, claim the receiver and await
   the (refused) claim; the end dropped by the error path closes itself with claimed = true *)
Definition w_refused_claim : list cstep :=
  [SApp 1 (ADrop 0); SProc 1; SBroker 1; SRecv 1;
   SApp 1 (AClaim 1 16); SProc 1; SBroker 1; SRecv 1; SApp 1 (AFinish 1);
   SProc 1; SBroker 1; SRecv 1].

Lemma refused_claim_panics :
  run unchanged_flags (created 7 1 CSender []) w_refused_claim = CPanic 1 S_CLOSE_ABSENT.
Proof. vm_compute. reflexivity. Qed.

Definition cres_ok (r : cres) : bool := match r with COk _ => true | _ => false end.

(* the refused claim is awaited: no claim future is dropped in this schedule *)
Lemma refused_claim_awaited_panics :
  run {| fl_refused_closed := false; fl_close_asserts := true; fl_cancel := false |} (created 7 1 CSender []) w_refused_claim
  = CPanic 1 S_CLOSE_ABSENT.
Proof. vm_compute. reflexivity. Qed.

Lemma refused_claim_fixed :
  cres_ok (run fixA_flags (created 7 1 CSender []) w_refused_claim) = true.
Proof. vm_compute. reflexivity. Qed.

(* F2: the same, but the claim future is dropped while the request is in flight: also with the
   repaired error path the dropped future's end closes itself with claimed = true *)
Definition w_cancelled_claim : list cstep :=
  [SApp 1 (ADrop 0); SProc 1; SBroker 1; SRecv 1;
   SApp 1 (AClaim 1 16); SApp 1 (ADrop 1); SProc 1; SProc 1; SBroker 1; SBroker 1; SRecv 1; SRecv 1].

Lemma cancelled_claim_panics fl :
  fl_close_asserts fl = true -> fl_cancel fl = true ->
  run fl (created 7 1 CSender []) w_cancelled_claim = CPanic 1 S_CLOSE_ABSENT.
Proof. destruct fl as [[] [] []]; intros H H'; try discriminate H; try discriminate H'; vm_compute; reflexivity. Qed.

(* F2b: a client that holds the established sender binds the sender end again, starts a claim and
   drops it; the broker answers AlreadyClaimed and then closes the end the client legitimately
   holds; the next item trips req_send_item's assertion — whatever the two flags say *)
Definition w_double_bind : list cstep :=
  [SApp 1 (AClaim 1 4); SProc 1; SBroker 1; SRecv 1; SRecv 1; SApp 1 (AFinish 1); SApp 1 (AEstablish 0);
   SApp 1 (ABind ESender); SApp 1 (AClaim 2 0); SApp 1 (ADrop 2); SProc 1; SProc 1; SBroker 1; SBroker 1;
   SApp 1 (ASend 0 5); SRecv 1; SRecv 1; SProc 1].

Lemma double_bind_panics fl :
  fl_cancel fl = true -> run fl (created 7 1 CSender []) w_double_bind = CPanic 1 S_SEND_ITEM_ABSENT.
Proof. destruct fl as [[] [] []]; intros H; try discriminate H; vm_compute; reflexivity. Qed.

(* the listener theorem in the form Props/C06.v states *)
Lemma listeners_ok k ops : exists z, lrun k lcreated ops = LOk z.
Proof.
  pose proof (listeners_never_rejected k ops) as H.
  destruct (lrun k lcreated ops); try contradiction. eexists. reflexivity.
Qed.

(* the positive theorem in terms of outcomes only *)
Definition never_bad (r : cres) : Prop := (forall c, r <> CReject c) /\ (forall c site, r <> CPanic c site).

Lemma channel_ends_positive fl :
  fl_refused_closed fl = true -> fl_cancel fl = false ->
  forall k c0 ec others sched, never_bad (run fl (created k c0 ec others) sched).
Proof.
  intros H1 H2 k c0 ec others sched. pose proof (channel_ends_safe k fl H1 H2 c0 ec others sched) as H.
  split; intros; intros E; rewrite E in H; exact H.
Qed.

(* whichever shape the translator reads from unclaimed.rs / client.rs: with the repaired error path
   the positive theorem (every claim awaited); with the shape of the pinned commit the witness *)
Definition this_tree_statement (refused_closed asserts : bool) : Prop :=
  if refused_closed
  then forall k c0 ec others sched,
         never_bad (run {| fl_refused_closed := true; fl_close_asserts := asserts; fl_cancel := false |} (created k c0 ec others) sched)
  else if asserts
       then exists sched, run {| fl_refused_closed := false; fl_close_asserts := true; fl_cancel := false |}
                              (created 7 1 CSender []) sched = CPanic 1 S_CLOSE_ABSENT
       else cres_ok (run {| fl_refused_closed := false; fl_close_asserts := false; fl_cancel := false |}
                         (created 7 1 CSender []) w_refused_claim) = true.

Lemma this_tree_by_shape a b : this_tree_statement a b.
Proof.
  destruct a.
  - intros k c0 ec others sched. apply channel_ends_positive; reflexivity.
  - destruct b; [exists w_refused_claim; vm_compute; reflexivity|vm_compute; reflexivity].
Qed.

(* whichever shape the translator reads: the F1 witness panics exactly on (refused end dropped
   claimed and Open) + (close reply asserts) *)
Definition f1_statement (refused_closed asserts : bool) : Prop :=
  let fl := {| fl_refused_closed := refused_closed; fl_close_asserts := asserts; fl_cancel := true |} in
  if refused_closed then cres_ok (run fl (created 7 1 CSender []) w_refused_claim) = true
  else if asserts then run fl (created 7 1 CSender []) w_refused_claim = CPanic 1 S_CLOSE_ABSENT
       else cres_ok (run fl (created 7 1 CSender []) w_refused_claim) = true.

Lemma f1_by_shape a b : f1_statement a b.
Proof. destruct a, b; vm_compute; reflexivity. Qed.
