(* Props/C08_lemmas.v — the generic theorems of Msg/MsgProofs.v instantiated at the 63-kind table
   of Msg/Table.v, the kind range, and witnesses showing that every kind has well-formed
   messages (the hypotheses of the C08 theorems are satisfiable for every kind). *)
From Aldrin Require Import Codec.Base Codec.BaseProofs Msg.Grammar Msg.Table Msg.GrammarProofs
  Msg.MsgProofs.
Open Scope N_scope.

Lemma roundtrip63 m : wf_msg m = true ->
  exists f, ser_msg m = Ok f /\ from_le (firstn 4 f) = lenN f /\ parse_msg f = Ok m.
Proof. exact (roundtrip_in table m). Qed.

Lemma strict63 f m : parse_msg f = Ok m ->
  from_le (firstn 4 f) = lenN f /\
  known_kind (nth 4 f 0) = true /\ mkind m = nth 4 f 0 /\
  exists d vpart fbytes,
    desc_of table (nth 4 f 0) = Some d /\
    f = firstn 4 f ++ [nth 4 f 0] ++ vpart ++ fbytes /\
    parse_fields (dfields d) fbytes = Ok (mfields m, []) /\
    value_part_ok d vpart m.
Proof. exact (strict_in table f m). Qed.

Lemma accepts_wf63 f m : bytes_ok f = true -> parse_msg f = Ok m -> wf_msg m = true.
Proof. exact (parse_msg_wf table f m). Qed.

Lemma reser63 f m : bytes_ok f = true -> parse_msg f = Ok m ->
  exists f', ser_msg m = Ok f' /\ parse_msg f' = Ok m.
Proof. exact (reser_in table f m). Qed.

Lemma reser_shorter63 f m f' :
  bytes_ok f = true -> parse_msg f = Ok m -> ser_msg m = Ok f' -> lenN f' <= lenN f.
Proof. exact (reser_shorter table f m f'). Qed.

Lemma table_bytes : forallb desc_bytes table = true.
Proof. vm_compute. reflexivity. Qed.

Lemma frame_is_bytes63 m f : wf_msg m = true -> ser_msg m = Ok f -> bytes_ok f = true.
Proof. exact (ser_bytes_in table m f table_bytes). Qed.

Lemma per_type_agrees63 k f m : parse_as k f = Ok m -> parse_msg f = Ok m.
Proof. exact (parse_as_msg table k f m). Qed.

Lemma dispatch_agrees63 f m : parse_msg f = Ok m -> parse_as (nth 4 f 0) f = Ok m.
Proof. exact (parse_msg_as table f m). Qed.

(* payload identity, spelled out: the payload of the parsed message is the payload sent *)
Lemma payload63 m f m' : wf_msg m = true -> ser_msg m = Ok f -> parse_msg f = Ok m' ->
  mvalue m' = mvalue m /\ mfields m' = mfields m /\ mkind m' = mkind m.
Proof.
  intros Hwf Hs Hp. destruct (roundtrip63 m Hwf) as (f0 & Hs0 & _ & Hp0).
  rewrite Hs in Hs0. apply Ok_inj in Hs0. subst f0. rewrite Hp in Hp0. apply Ok_inj in Hp0. subst m'.
  auto.
Qed.

(* ---------- the known kinds are exactly 0..62 ---------- *)
Lemma desc_of_in : forall t k d, desc_of t k = Some d -> In d t.
Proof.
  induction t as [|d0 t IH]; intros k d H; cbn [desc_of] in H; [discriminate|].
  destruct (dkind d0 =? k); [injection H as <-; left; reflexivity|right; eapply IH; exact H].
Qed.

Lemma kinds_below_63 : forallb (fun d => dkind d <? 63) table = true.
Proof. vm_compute. reflexivity. Qed.

Lemma kinds_all_63 : forallb (fun i => known_kind (N.of_nat i)) (seq 0 63) = true.
Proof. vm_compute. reflexivity. Qed.

Lemma known_kind_range k : known_kind k = true <-> k < 63.
Proof.
  split.
  - unfold known_kind, known_in. destruct (desc_of table k) as [d|] eqn:E; [|discriminate]. intros _.
    pose proof (proj1 (forallb_forall _ _) kinds_below_63 d (desc_of_in _ _ _ E)) as H.
    cbn beta in H. rewrite (desc_of_kind _ _ _ E) in H. apply N.ltb_lt. exact H.
  - intros H. pose proof (proj1 (forallb_forall _ _) kinds_all_63 (N.to_nat k)) as Hk.
    cbn beta in Hk. rewrite N2Nat.id in Hk. apply Hk. apply in_seq. lia.
Qed.

(* ---------- every kind has a well-formed message ---------- *)
Fixpoint wit_field (f : field) : fval :=
  match f with
  | FU32 => VU32 300
  | FId => VId (repeat 171 16)
  | FTag a => wit_alts a
  end
with wit_fields (fs : fields) : list fval :=
  match fs with FNil => [] | FCons f fs' => wit_field f :: wit_fields fs' end
with wit_alts (a : alts) : fval :=
  match a with ANil => VTag 0 [] | ACons d fs _ => VTag d (wit_fields fs) end.

Definition witness (d : desc) : msg :=
  {| mkind := dkind d; mfields := wit_fields (dfields d);
     mvalue := if has_value (dvmode d) (wit_fields (dfields d)) then Some [3; 4] else None |}.

Lemma witnesses_wf : forallb (fun d => wf_msg (witness d)) table = true.
Proof. vm_compute. reflexivity. Qed.

Lemma every_kind_inhabited k : k < 63 -> exists m, mkind m = k /\ wf_msg m = true.
Proof.
  intros H. apply known_kind_range in H. unfold known_kind, known_in in H.
  destruct (desc_of table k) as [d|] eqn:E; [|discriminate]. exists (witness d).
  split; [exact (desc_of_kind _ _ _ E)|].
  exact (proj1 (forallb_forall _ _) witnesses_wf d (desc_of_in _ _ _ E)).
Qed.

(* ---------- concrete frames (the first two are test vectors of core/src/message/*.rs) ---------- *)
Definition cfr_ok : msg := {| mkind := 12; mfields := [VU32 1; VTag 0 []]; mvalue := Some [3; 4] |}.
Definition cfr_aborted : msg := {| mkind := 12; mfields := [VU32 1; VTag 2 []]; mvalue := None |}.

Lemma vectors_ok :
  wf_msg cfr_ok = true /\
  ser_msg cfr_ok = Ok [13; 0; 0; 0; 12; 2; 0; 0; 0; 3; 4; 1; 0] /\
  parse_msg [13; 0; 0; 0; 12; 2; 0; 0; 0; 3; 4; 1; 0] = Ok cfr_ok /\
  wf_msg cfr_aborted = true /\
  ser_msg cfr_aborted = Ok [12; 0; 0; 0; 12; 1; 0; 0; 0; 0; 1; 2] /\
  (* a discarded payload and a non-canonical varint are accepted and normalised *)
  parse_msg [14; 0; 0; 0; 12; 2; 0; 0; 0; 9; 9; 252; 1; 2] = Ok cfr_aborted /\
  (* rejections: wrong length prefix, unknown kind, unknown discriminant, trailing byte, empty value *)
  parse_msg [14; 0; 0; 0; 12; 2; 0; 0; 0; 3; 4; 1; 0] = Err Invalid /\
  parse_msg [5; 0; 0; 0; 63] = Err Invalid /\
  parse_msg [13; 0; 0; 0; 12; 2; 0; 0; 0; 3; 4; 1; 6] = Err Invalid /\
  parse_msg [14; 0; 0; 0; 12; 2; 0; 0; 0; 3; 4; 1; 0; 0] = Err TrailingData /\
  parse_msg [11; 0; 0; 0; 12; 0; 0; 0; 0; 1; 0] = Err Invalid.
Proof. vm_compute. repeat split. Qed.
