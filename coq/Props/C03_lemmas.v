(* Props/C03_lemmas.v — the object/service registry (C03): consequences of the broker invariant
   and exact step results for the registry requests. *)
From stdpp Require Import gmap list.
From RecordUpdate Require Import RecordSet.
Import RecordSetNotations.
From Aldrin Require Import gen.BrokerConsts Broker.Model Broker.Run Broker.ChannelProofs Broker.Inv
  Broker.InvProofsBase Broker.InvProofsSettle Broker.InvProofsHandle1 Broker.InvProofsHandle2
  Broker.InvProofsHandle3 Broker.InvProofsStep Props.C11_lemmas.
From Coq Require Import Lia.
Local Open Scope N_scope.

(* ---------------------------------------------------------------- cookies identify entries *)
Lemma reach_unique_cookies s :
  reachable s →
  (∀ u1 u2 o1 o2, objs s !! u1 = Some o1 → objs s !! u2 = Some o2 → o_cookie o1 = o_cookie o2 → u1 = u2) ∧
  (∀ k1 k2 s1 s2, svcs s !! k1 = Some s1 → svcs s !! k2 = Some s2 → s_cookie s1 = s_cookie s2 → k1 = k2) ∧
  (∀ c u o, obj_by_cookie s c = Some (u, o) ↔ objs s !! u = Some o ∧ o_cookie o = c) ∧
  (∀ c k sv, svc_by_cookie s c = Some (k, sv) ↔ svcs s !! k = Some sv ∧ s_cookie sv = c).
Proof.
  intros Hr. pose proof (reachable_inv s Hr) as H.
  split; [exact (iv_uo _ _ _ _ _ H)|]. split; [exact (iv_us _ _ _ _ _ H)|]. split.
  - intros c u o. split; [apply obj_by_cookie_Some|]. intros [Hu <-].
    apply obj_by_cookie_uniq; [exact (iv_uo _ _ _ _ _ H)|done].
  - intros c k sv. split; [apply svc_by_cookie_Some|]. intros [Hk <-].
    apply svc_by_cookie_uniq; [exact (iv_us _ _ _ _ _ H)|done].
Qed.

(* every service belongs to a live object and records its cookie; owners are connected *)
Lemma reach_registry s :
  reachable s →
  (∀ ou su sv, svcs s !! (ou, su) = Some sv → ∃ o, objs s !! ou = Some o ∧ s_obj_cookie sv = o_cookie o) ∧
  (∀ u o, objs s !! u = Some o → is_Some (conns s !! o_owner o)).
Proof.
  intros Hr. pose proof (reachable_inv s Hr) as H. split.
  - intros ou su sv Hk. exact (iv_reg _ _ _ _ _ H _ _ Hk).
  - intros u o Hu. apply elem_of_dom. exact (iv_oo _ _ _ _ _ H _ _ Hu).
Qed.

(* a disconnected connection owns nothing *)
Lemma reach_disconnected_owns_nothing s c :
  reachable s → conns s !! c = None →
  (∀ u o, objs s !! u = Some o → o_owner o ≠ c) ∧
  (∀ ou su sv o, svcs s !! (ou, su) = Some sv → objs s !! ou = Some o → o_owner o ≠ c).
Proof.
  intros Hr Hc. pose proof (reachable_inv s Hr) as H.
  assert (∀ u o, objs s !! u = Some o → o_owner o ≠ c) as Ho.
  { intros u o Hu Heq. pose proof (iv_oo _ _ _ _ _ H _ _ Hu) as Hin. rewrite Heq in Hin.
    apply elem_of_dom in Hin as [cs Hin]. congruence. }
  split; [done|]. intros ou su sv o _ Hu. eauto.
Qed.

(* ---------------------------------------------------------------- steps that only answer *)
Lemma settle_idle fuel m : mw m = work0 → settle fuel m = Done m.
Proof.
  intros H.
  assert (settle fuel m = match settle_one m with
                          | None => Done m
                          | Some (Done m') | Some (Fail m') => match fuel with O => Panic 0 | S f => settle f m' end
                          | Some (Panic s) => Panic s end) as -> by (destruct fuel; reflexivity).
  unfold settle_one. rewrite H. reflexivity.
Qed.

Definition m_of (s : state) : M := {| ms := s; mw := work0; mo := [] |}.

Lemma step_reply_only s c cs x f b reply :
  conns s !! c = Some cs → cs_alive cs = true →
  handle (m_of s) c x f b = send (m_of s) c reply None →
  step s (Message c x) f b = Done (s, [(c, reply, None)]).
Proof.
  intros Hc Ha Hh. unfold step. fold (m_of s). rewrite Hh. unfold send. cbn [ms m_of]. rewrite Hc, Ha.
  rewrite settle_idle by done. done.
Qed.

(* requests by a connection that does not own the object / service: answered Foreign, nothing changes *)
Lemma destroy_object_foreign s c cs serial ck u o f b :
  conns s !! c = Some cs → cs_alive cs = true →
  obj_by_cookie s ck = Some (u, o) → o_owner o ≠ c →
  step s (Message c (DestroyObject serial ck)) f b = Done (s, [(c, DestroyObjectReply serial R3Foreign, None)]).
Proof.
  intros Hc Ha Ho Hne. eapply step_reply_only; eauto. unfold handle. cbn [ms m_of]. rewrite Hc, Ho.
  by rewrite bool_decide_eq_false_2.
Qed.

Lemma destroy_object_invalid s c cs serial ck f b :
  conns s !! c = Some cs → cs_alive cs = true → obj_by_cookie s ck = None →
  step s (Message c (DestroyObject serial ck)) f b = Done (s, [(c, DestroyObjectReply serial R3Invalid, None)]).
Proof.
  intros Hc Ha Ho. eapply step_reply_only; eauto. unfold handle. cbn [ms m_of]. by rewrite Hc, Ho.
Qed.

Lemma destroy_service_foreign s c cs serial ck k sv o f b :
  conns s !! c = Some cs → cs_alive cs = true →
  svc_by_cookie s ck = Some (k, sv) → objs s !! k.1 = Some o → o_owner o ≠ c →
  step s (Message c (DestroyService serial ck)) f b = Done (s, [(c, DestroyServiceReply serial R3Foreign, None)]).
Proof.
  intros Hc Ha Hs Ho Hne. eapply step_reply_only; eauto. unfold handle. cbn [ms m_of]. rewrite Hc, Hs.
  unfold owner_of_svc. rewrite Ho. cbn. by rewrite bool_decide_eq_false_2.
Qed.

Lemma destroy_service_invalid s c cs serial ck f b :
  conns s !! c = Some cs → cs_alive cs = true → svc_by_cookie s ck = None →
  step s (Message c (DestroyService serial ck)) f b = Done (s, [(c, DestroyServiceReply serial R3Invalid, None)]).
Proof.
  intros Hc Ha Hs. eapply step_reply_only; eauto. unfold handle. cbn [ms m_of]. by rewrite Hc, Hs.
Qed.

(* the result of a create-service request as a function of the bus state *)
Definition create_service_result (s : state) (c : conn) (oc u : uuid) (f : uuid) : res_create_service :=
  match obj_by_cookie s oc with
  | None => CSInvalidObject
  | Some (ou, o) =>
      if bool_decide (is_Some (svcs s !! (ou, u))) then CSDuplicate
      else if bool_decide (o_owner o = c) then CSOk f else CSForeign
  end.

Lemma create_service_refused s c cs serial oc u ver f b r :
  conns s !! c = Some cs → cs_alive cs = true →
  create_service_result s c oc u f = r → (∀ x, r ≠ CSOk x) →
  step s (Message c (CreateService serial oc u ver)) f b = Done (s, [(c, CreateServiceReply serial r, None)]).
Proof.
  intros Hc Ha Hr Hno. eapply step_reply_only; eauto. unfold handle. cbn [ms m_of]. rewrite Hc.
  unfold create_service_impl, create_service_result in *. cbn [ms m_of].
  destruct (obj_by_cookie s oc) as [[ou o]|]; [|by subst].
  destruct (bool_decide (is_Some (svcs s !! (ou, u)))); [by subst|].
  destruct (bool_decide (o_owner o = c)); cbn; [|by subst]. subst. by destruct (Hno f).
Qed.

Lemma create_object_duplicate s c cs serial u f b :
  conns s !! c = Some cs → cs_alive cs = true → is_Some (objs s !! u) →
  step s (Message c (CreateObject serial u)) f b = Done (s, [(c, CreateObjectReply serial CODuplicate, None)]).
Proof.
  intros Hc Ha Ho. eapply step_reply_only; eauto. unfold handle. cbn [ms m_of]. rewrite Hc.
  by rewrite bool_decide_eq_true_2.
Qed.

(* queries succeed exactly while the service is live *)
Lemma query_service_version s c cs serial ck f b :
  conns s !! c = Some cs → cs_alive cs = true →
  step s (Message c (QueryServiceVersion serial ck)) f b =
  Done (s, [(c, QueryServiceVersionReply serial ((fun p => i_version (s_info p.2)) <$> svc_by_cookie s ck), None)]).
Proof.
  intros Hc Ha. eapply step_reply_only; eauto. unfold handle. cbn [ms m_of]. by rewrite Hc.
Qed.

Lemma query_service_info s c cs serial ck f b :
  conns s !! c = Some cs → cs_alive cs = true → MIN_QUERY_SERVICE_INFO <= cs_ver cs →
  step s (Message c (QueryServiceInfo serial ck)) f b =
  Done (s, [(c, QueryServiceInfoReply serial
                  (match svc_by_cookie s ck with Some (_, sv) => QIOk (s_info sv) | None => QIInvalid end), None)]).
Proof.
  intros Hc Ha Hv. eapply step_reply_only; eauto. unfold handle. cbn [ms m_of]. rewrite Hc.
  unfold gate, ver_of. cbn [ms m_of]. rewrite Hc. cbn.
  destruct (N.ltb_spec (cs_ver cs) MIN_QUERY_SERVICE_INFO); [lia|done].
Qed.

Lemma subscribe_invalid_service s c cs serial ck ev f b :
  conns s !! c = Some cs → cs_alive cs = true → svc_by_cookie s ck = None →
  step s (Message c (SubscribeEvent (Some serial) ck ev)) f b =
  Done (s, [(c, SubscribeEventReply serial false, None)]).
Proof.
  intros Hc Ha Hs. eapply step_reply_only; eauto. unfold handle. cbn [ms m_of]. by rewrite Hc, Hs.
Qed.

Lemma call_invalid_service s c cs serial ck fn v f b :
  conns s !! c = Some cs → cs_alive cs = true → svc_by_cookie s ck = None →
  step s (Message c (CallFunction serial ck fn v)) f b =
  Done (s, [(c, CallFunctionReply serial CRInvalidService, None)]).
Proof.
  intros Hc Ha Hs. eapply step_reply_only; eauto. unfold handle. cbn [ms m_of]. rewrite Hc.
  unfold call_impl. cbn [ms m_of]. by rewrite Hs.
Qed.

(* ---------------------------------------------------------------- steps that change the registry *)
From Aldrin Require Import Broker.InvProofsOut.

(* a message step whose handler returned Ok: the work loop then only shrinks the registry and
   only appends outputs *)
Lemma step_message_done s i c x m s' out :
  reachable s → legal s i → i_ev i = Message c x →
  handle (m_of s) c x (i_fresh i) (i_bserial i) = Done m →
  step s (Message c x) (i_fresh i) (i_bserial i) = Done (s', out) →
  ∃ m', s' = ms m' ∧ out = mo m' ∧ MI m ∧ shrinks m m' ∧ grows m m' ∧ Inv s'.
Proof.
  intros Hr Hl He Hh Hs. pose proof (reachable_inv s Hr) as H.
  assert (Inv s') as H'. { eapply inv_step; eauto. by rewrite He. }
  destruct (legal_split _ _ Hl) as (L1 & L2 & L3). rewrite He in L3.
  pose proof (handle_good (m_of s) c x (i_fresh i) (i_bserial i) H eq_refl L1 L2 L3) as Hg.
  rewrite Hh in Hg. cbn in Hg.
  unfold step in Hs. fold (m_of s) in Hs. rewrite Hh in Hs.
  pose proof (settle_spec (fuel_for m) m Hg) as Hst.
  pose proof (settle_ogrows (fuel_for m) m) as Hgr.
  destruct (settle (fuel_for m) m) as [m'|m'|site]; [|done..].
  inversion Hs; subst. destruct Hst as (_ & Hsh & _). exists m'. done.
Qed.

Lemma grows_head m m' o : mo m = [o] → grows m m' → head (mo m') = Some o.
Proof. unfold grows. intros -> [l ->]. done. Qed.

(* CreateObject for a fresh uuid: answered Ok with the new cookie; the object exists afterwards
   with that cookie and owner (unless its owner was disconnected in the same step) *)
Lemma create_object_ok s i c cs serial u s' out :
  reachable s → legal s i → i_ev i = Message c (CreateObject serial u) →
  conns s !! c = Some cs → cs_alive cs = true → objs s !! u = None →
  step s (Message c (CreateObject serial u)) (i_fresh i) (i_bserial i) = Done (s', out) →
  head out = Some (c, CreateObjectReply serial (COOk (i_fresh i)), None) ∧
  (objs s' !! u = Some {| o_cookie := i_fresh i; o_owner := c |} ∨ conns s' !! c = None).
Proof.
  intros Hr Hl He Hc Ha Hu Hs.
  edestruct (step_message_done s i c) as (m' & -> & -> & HI & Hsh & Hg & _); [exact Hr|exact Hl|exact He| |exact Hs|].
  { unfold handle. cbn [ms m_of]. rewrite Hc. rewrite bool_decide_eq_false_2 by (rewrite Hu; by intros [? ?]).
    unfold send. cbn [ms m_of]. rewrite Hc, Ha. cbn [andThen]. reflexivity. }
  split; [eapply grows_head; [|exact Hg]; done|].
  destruct Hsh as (_ & _ & _ & Hk). apply (Hk u). cbn. by rewrite lookup_insert.
Qed.

(* ... and since the sender's handler returned Ok and its receiver is alive, it is still connected,
   so the object is there *)
Lemma create_object_ok_strong s i c cs serial u s' out :
  reachable s → legal s i → i_ev i = Message c (CreateObject serial u) →
  conns s !! c = Some cs → cs_alive cs = true → objs s !! u = None →
  step s (Message c (CreateObject serial u)) (i_fresh i) (i_bserial i) = Done (s', out) →
  head out = Some (c, CreateObjectReply serial (COOk (i_fresh i)), None) ∧
  objs s' !! u = Some {| o_cookie := i_fresh i; o_owner := c |} ∧
  ∃ cs', conns s' !! c = Some cs' ∧ cs_alive cs' = true.
Proof.
  intros Hr Hl He Hc Ha Hu Hs.
  destruct (create_object_ok s i c cs serial u s' out Hr Hl He Hc Ha Hu Hs) as [H1 H2].
  split; [done|].
  assert (∃ cs', conns s' !! c = Some cs' ∧ cs_alive cs' = true) as (cs' & Hc' & Ha').
  { eapply (step_sender_stays s c _ _ _ cs); [done|done| |exact Hs].
    unfold handle. cbn [ms]. rewrite Hc. rewrite bool_decide_eq_false_2 by (rewrite Hu; by intros [? ?]).
    unfold send. cbn [ms]. rewrite Hc, Ha. cbn [andThen]. reflexivity. }
  split; [|eauto]. destruct H2 as [H2|H2]; [done|congruence].
Qed.

(* DestroyObject by the owner: answered Ok; the object and all its services are gone *)
Lemma destroy_object_ok s i c cs serial ck u o s' out :
  reachable s → legal s i → i_ev i = Message c (DestroyObject serial ck) →
  conns s !! c = Some cs → cs_alive cs = true →
  obj_by_cookie s ck = Some (u, o) → o_owner o = c →
  step s (Message c (DestroyObject serial ck)) (i_fresh i) (i_bserial i) = Done (s', out) →
  head out = Some (c, DestroyObjectReply serial R3Ok, None) ∧
  objs s' !! u = None ∧ (∀ su, svcs s' !! (u, su) = None).
Proof.
  intros Hr Hl He Hc Ha Ho Hoc Hs. pose proof (reachable_inv s Hr) as H.
  set (m1 := m_of s <| mo := [(c, DestroyObjectReply serial R3Ok, None)] |>).
  assert (MI m1) as H1 by exact H.
  destruct (good_remove_object m1 ck H1) as (m2 & Hrm & H2 & _ & _ & Hobjs).
  edestruct (step_message_done s i c) as (m' & -> & -> & HI & Hsh & Hg & H'); [exact Hr|exact Hl|exact He| |exact Hs|].
  { unfold handle. cbn [ms m_of]. rewrite Hc, Ho. rewrite bool_decide_eq_true_2 by done. cbn [negb].
    unfold send. cbn [ms m_of]. rewrite Hc, Ha. cbn [andThen]. exact Hrm. }
  assert (grows m1 m2) as Hg12.
  { pose proof (remove_object_ogrows m1 ck) as Hx. rewrite Hrm in Hx. exact Hx. }
  split; [eapply (grows_head m1); [done|eapply grows_trans; eauto]|].
  assert (objs (ms m') !! u = None) as Hnone.
  { destruct Hsh as (Hsub & _). cbn in Hobjs. rewrite Ho in Hobjs.
    destruct (objs (ms m') !! u) as [o'|] eqn:E; [|done].
    apply (lookup_weaken _ _ _ _ E) in Hsub. rewrite Hobjs, lookup_delete in Hsub. done. }
  split; [done|]. intros su. destruct (svcs (ms m') !! (u, su)) as [sv|] eqn:E; [|done].
  destruct (iv_reg _ _ _ _ _ H' _ _ E) as (o' & Hu' & _). cbn in Hu'. congruence.
Qed.

(* DestroyService by the owner of its object: answered Ok; the service is gone *)
Lemma destroy_service_ok s i c cs serial ck k sv o s' out :
  reachable s → legal s i → i_ev i = Message c (DestroyService serial ck) →
  conns s !! c = Some cs → cs_alive cs = true →
  svc_by_cookie s ck = Some (k, sv) → objs s !! k.1 = Some o → o_owner o = c →
  step s (Message c (DestroyService serial ck)) (i_fresh i) (i_bserial i) = Done (s', out) →
  head out = Some (c, DestroyServiceReply serial R3Ok, None) ∧ svcs s' !! k = None.
Proof.
  intros Hr Hl He Hc Ha Hsv Ho Hoc Hs. pose proof (reachable_inv s Hr) as H.
  set (m1 := m_of s <| mo := [(c, DestroyServiceReply serial R3Ok, None)] |>).
  assert (MI m1) as H1 by exact H.
  destruct (good_remove_service m1 ck H1) as (m2 & Hrm & H2 & _ & _ & Hsvcs).
  edestruct (step_message_done s i c) as (m' & -> & -> & HI & Hsh & Hg & H'); [exact Hr|exact Hl|exact He| |exact Hs|].
  { unfold handle. cbn [ms m_of]. rewrite Hc, Hsv. unfold owner_of_svc. rewrite Ho. cbn [fmap option_fmap option_map].
    rewrite bool_decide_eq_true_2 by done. cbn [negb].
    unfold send. cbn [ms m_of]. rewrite Hc, Ha. cbn [andThen]. exact Hrm. }
  assert (grows m1 m2) as Hg12.
  { pose proof (remove_service_ogrows m1 ck) as Hx. rewrite Hrm in Hx. exact Hx. }
  split; [eapply (grows_head m1); [done|eapply grows_trans; eauto]|].
  destruct Hsh as (_ & Hdom & _). cbn in Hsvcs. rewrite Hsv in Hsvcs.
  destruct (svcs (ms m') !! k) as [sv'|] eqn:E; [|done].
  destruct (Hdom k ltac:(eauto)) as [sv2 E2]. rewrite Hsvcs, lookup_delete in E2. done.
Qed.

(* CreateService accepted: answered Ok with the new cookie *)
Lemma create_service_ok s i c cs serial oc u ver s' out :
  reachable s → legal s i → i_ev i = Message c (CreateService serial oc u ver) →
  conns s !! c = Some cs → cs_alive cs = true →
  create_service_result s c oc u (i_fresh i) = CSOk (i_fresh i) →
  step s (Message c (CreateService serial oc u ver)) (i_fresh i) (i_bserial i) = Done (s', out) →
  head out = Some (c, CreateServiceReply serial (CSOk (i_fresh i)), None).
Proof.
  intros Hr Hl He Hc Ha Hres Hs.
  unfold create_service_result in Hres.
  destruct (obj_by_cookie s oc) as [[ou o]|] eqn:Eo; [|done].
  destruct (bool_decide (is_Some (svcs s !! (ou, u)))) eqn:Ed; [done|].
  destruct (bool_decide (o_owner o = c)) eqn:Eow; [|done].
  edestruct (step_message_done s i c) as (m' & -> & -> & HI & Hsh & Hg & _); [exact Hr|exact Hl|exact He| |exact Hs|].
  { unfold handle. cbn [ms m_of]. rewrite Hc. unfold create_service_impl. cbn [ms m_of].
    rewrite Eo, Ed, Eow. cbn [negb]. unfold send. cbn [ms m_of]. rewrite Hc, Ha. cbn [andThen]. reflexivity. }
  eapply grows_head; [|exact Hg]. done.
Qed.

(* ---------------------------------------------------------------- satisfiability *)
Definition ex_i0 : input := {| i_ev := NewConnection 1 20; i_fresh := 7; i_bserial := None |}.
Definition ex_s1 : state :=
  match step init (i_ev ex_i0) (i_fresh ex_i0) (i_bserial ex_i0) with Done (s, _) => s | _ => init end.
Definition ex_i1 : input := {| i_ev := Message 1 (CreateObject 0 5); i_fresh := 8; i_bserial := None |}.

Lemma ex_hypotheses :
  reachable ex_s1 ∧ legal ex_s1 ex_i1 ∧
  ∃ cs, conns ex_s1 !! 1 = Some cs ∧ cs_alive cs = true ∧ objs ex_s1 !! 5 = None ∧
        ∃ s' out, step ex_s1 (i_ev ex_i1) (i_fresh ex_i1) (i_bserial ex_i1) = Done (s', out).
Proof.
  assert (step init (i_ev ex_i0) (i_fresh ex_i0) (i_bserial ex_i0) = Done (ex_s1, [])) as Hs by (vm_compute; reflexivity).
  split; [eapply (reach_step init ex_i0); [apply reach_init|repeat split; done|exact Hs]|].
  split.
  - split; [|repeat split; done]. vm_compute. intros Hin. set_solver.
  - eexists. split; [vm_compute; reflexivity|]. split; [reflexivity|]. split; [vm_compute; reflexivity|].
    eexists _, _. vm_compute. reflexivity.
Qed.

(* a disconnect destroys everything the connection owned, within the step *)
Lemma disconnect_step s i c s' out :
  reachable s → legal s i → i_ev i = ConnectionShutdown c →
  step s (ConnectionShutdown c) (i_fresh i) (i_bserial i) = Done (s', out) →
  conns s' !! c = None ∧
  (∀ u o, objs s' !! u = Some o → o_owner o ≠ c) ∧
  (∀ ou su sv o, svcs s' !! (ou, su) = Some sv → objs s' !! ou = Some o → o_owner o ≠ c).
Proof.
  intros Hr Hl He Hs.
  assert (conns s' !! c = None) as Hc.
  { eapply (shutdown_event_closes s c _ _ s' out (ConnectionShutdown c)); [by left|exact Hs]. }
  split; [done|]. apply reach_disconnected_owns_nothing; [|done].
  eapply reach_step; [exact Hr|exact Hl|]. rewrite He. exact Hs.
Qed.
