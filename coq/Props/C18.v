(* Props/C18.v — formatting preserves the schema and is idempotent.
   [schema]: the AST as seen through the public accessors of aldrin_parser::ast (comments and doc
   strings as value_inner()); [print] = Formatter::to_string, [toks a] = the token stream of
   [print a] (comments and doc strings are tokens), [tokenize]/[parse_toks] = the model of
   grammar.pest, [canon] = imports stably sorted by name (the only thing re-parsing changes).
   [wf_ast]: no leading schema comments without a [//!] line, the first identifier of a type
   reference does not start with a bare type keyword (both hold for every AST the parser
   produces), and no field that is not [required] is called "required" — which sources CAN
   violate: that is C18_required_field_refuted, the defect reported for /repo. *)
From Coq Require Import String List Permutation.
Open Scope string_scope.
From Aldrin Require Import Schema.Ast Schema.Token Schema.Printer Schema.Lexer Schema.Parser
  Schema.ParserProofs Schema.CanonProofs Schema.ReachProofs Schema.LexerProofs Props.C18_lemmas.
Import ListNotations.

Theorem C18_parse_toks : forall a, wf_ast a -> parse_toks (toks a) = Some (canon a).
Proof. exact parse_toks_toks. Qed.
Print Assumptions C18_parse_toks.

(* for every token stream that parses: the parser's own output always satisfies the other two
   well-formedness conditions, so only the field-name condition remains *)
Theorem C18_parse_toks_reachable : forall ts a,
  parse_toks ts = Some a -> no_bare_required a -> parse_toks (toks a) = Some (canon a).
Proof. exact parse_toks_reachable. Qed.
Print Assumptions C18_parse_toks_reachable.

Theorem C18_canon_idem : forall a, canon (canon a) = canon a.
Proof. exact canon_idem. Qed.
Print Assumptions C18_canon_idem.

Theorem C18_toks_canon : forall a, toks (canon a) = toks a.
Proof. exact toks_canon. Qed.
Print Assumptions C18_toks_canon.

(* formatting the result again changes nothing: the canonical AST prints to the same text *)
Theorem C18_print_canon : forall a, print (canon a) = print a.
Proof. exact print_canon. Qed.
Print Assumptions C18_print_canon.

Theorem C18_reparse_fixpoint : forall a, wf_ast a -> parse_toks (toks (canon a)) = Some (canon a).
Proof. exact parse_toks_fixpoint. Qed.
Print Assumptions C18_reparse_fixpoint.

(* imports as a sorted set: the sort only permutes *)
Theorem C18_imports_permuted : forall a, Permutation (s_imports (canon a)) (s_imports a).
Proof. exact imports_permuted. Qed.
Print Assumptions C18_imports_permuted.

(* every call of Formatter::indent has len <= 12 = INDENT.len() *)
Theorem C18_indent : forall ind a,
  (forall n, n <= 12 -> ind n = indent_real n) -> print_with ind a = print a.
Proof. exact indent_bound. Qed.
Print Assumptions C18_indent.

(* the character level, for the parts finished (partial): what the formatter prints for a type
   name (ASCII identifiers, decimal array lengths) lexes to exactly its token stream, and so does
   a whole field line without its prelude.  For complete schemas [tokenize (print a) = toks a]
   is executed by the check on every generated input, not proved. *)
Theorem C18_print_tokens_partial : forall t, lex_ty t = true ->
  tokenize (pr_ty t ++ ";") = (toks_ty t false ++ [TP PTerm])%list.
Proof. exact print_tokens_ty. Qed.
Print Assumptions C18_print_tokens_partial.

Theorem C18_print_tokens_field_partial : forall name id t,
  lex_ident name = true -> lex_uint id = true -> lex_ty t = true ->
  tokenize (name ++ " @ " ++ id ++ " = " ++ pr_ty t ++ ";" ++ LF) =
  (TWord name true :: TP PAt :: TInt id :: TP PEq :: toks_ty t false ++ [TP PTerm])%list.
Proof. exact print_tokens_field. Qed.
Print Assumptions C18_print_tokens_field_partial.

(* the faithful model refutes the unconditional property: a syntactically valid source whose
   formatted text does not parse (source "struct S {required@1=u8;}") *)
Theorem C18_required_field_refuted :
  exists src a, parse_toks (tokenize src) = Some a /\ parse_toks (tokenize (print a)) = None.
Proof. exact required_field_refuted. Qed.
Print Assumptions C18_required_field_refuted.

Example C18_wf_satisfiable : wf_ast example_ast.
Proof. exact example_wf. Qed.

Example C18_example_chain :
  parse_toks (toks example_ast) = Some (canon example_ast) /\
  tokenize (print example_ast) = toks example_ast /\
  parse_toks (tokenize (print example_ast)) = Some (canon example_ast) /\
  print (canon example_ast) = print example_ast /\
  canon example_ast <> example_ast.
Proof. exact example_roundtrip. Qed.

(* ---- the character level, in full ----
   [printable a]: every identifier of [a] is one the lexer takes as one word ([ident_ok]: ASCII
   identifiers and the non-ASCII code points the model lexer classifies), every integer literal
   is an optional minus sign and digits ([int_ok]), a constant's literal is of the kind its type
   says ([const_ok]: [str_ok] = a closed string literal, [uuid_ok] = the 8-4-4-4-12 form), every
   comment / doc text is one line with nothing to trim at its end ([text_ok]: what value_inner()
   returns).  No condition on field names: a field called "required" lexes back to the same
   tokens — it is the token-level parser that reads them differently (wf_ast in C18_parse_toks). *)
From Aldrin Require Import Schema.PrintLex Schema.PrintLexProofs.

Theorem C18_print_tokens : forall a, printable a -> tokenize (print a) = toks a.
Proof. exact print_tokens. Qed.
Print Assumptions C18_print_tokens.

(* the property on the model: parsing the formatted text gives the schema back (imports sorted) *)
Theorem C18_format_preserves : forall a, wf_ast a -> printable a ->
  parse_toks (tokenize (print a)) = Some (canon a).
Proof. exact format_preserves. Qed.
Print Assumptions C18_format_preserves.

(* ... and formatting what was parsed from the formatted text gives the same text *)
Theorem C18_format_idempotent_chars : forall a, wf_ast a -> printable a ->
  option_map print (parse_toks (tokenize (print a))) = Some (print a).
Proof. exact format_idempotent_chars. Qed.
Print Assumptions C18_format_idempotent_chars.

Theorem C18_printable_canon : forall a, printable a -> printable (canon a).
Proof. exact printable_canon. Qed.
Print Assumptions C18_printable_canon.

(* each leaf condition says: this leaf, on its own, is one token of its kind *)
Theorem C18_leaf_conditions :
  (forall w, ident_ok w = true -> tokenize w = [TWord w true]) /\
  (forall d, int_ok d = true -> tokenize d = [TInt d]) /\
  (forall v, str_ok v = true -> tokenize v = [TStr v]) /\
  (forall v, uuid_ok v = true -> tokenize v = [TUuid v]) /\
  (forall s, text_ok s = true -> tokenize ("//" ++ line_body s ++ LF) = [TComment s]).
Proof. exact leaf_conditions. Qed.
Print Assumptions C18_leaf_conditions.

Example C18_printable_satisfiable : printable example_ast.
Proof. exact example_printable. Qed.

Example C18_printable_nonascii : printable nonascii_ast.
Proof. exact nonascii_printable. Qed.

(* ---- for every source text ----
   the lexer only emits leaves that satisfy the leaf conditions and the parser only moves token
   payloads into the AST, so everything that parses is printable ... *)
From Aldrin Require Import Schema.PrintLexReach.

Theorem C18_parse_printable : forall src a, parse_toks (tokenize src) = Some a -> printable a.
Proof. exact parse_printable. Qed.
Print Assumptions C18_parse_printable.

(* ... and the property holds on the model for every source text that parses, at the character
   level, under the one condition the defect violates: the formatted text parses to the same
   schema (imports sorted), and formatting that again gives the same text *)
Theorem C18_format_roundtrip : forall src a,
  parse_toks (tokenize src) = Some a -> no_bare_required a ->
  parse_toks (tokenize (print a)) = Some (canon a) /\
  option_map print (parse_toks (tokenize (print a))) = Some (print a).
Proof. exact format_roundtrip. Qed.
Print Assumptions C18_format_roundtrip.

Theorem C18_format_fixpoint : forall src a,
  parse_toks (tokenize src) = Some a -> no_bare_required a ->
  exists a', parse_toks (tokenize (print a)) = Some a' /\ print a' = print a /\
             printable a' /\ canon a' = a'.
Proof. exact format_fixpoint. Qed.
Print Assumptions C18_format_fixpoint.
