(* Props/C18.v — formatting preserves the schema and is idempotent.
   [schema]: the AST as seen through the public accessors of aldrin_parser::ast (comments and doc
   strings as value_inner()); [print] = Formatter::to_string, [toks a] = the token stream of
   [print a] (comments and doc strings are tokens), [tokenize]/[parse_toks] = the model of
   grammar.pest, [canon] = imports stably sorted by name (the only thing re-parsing changes).
   [wf_ast]: no leading schema comments without a [//!] line, the first identifier of a type
   reference does not start with a bare type keyword (both hold for every AST the parser
   produces), and no field that is not [required] is called "required" — which sources CAN
   violate: that is C18_required_field_refuted, the defect reported for /repo. *)
From Coq Require Import String List Permutation.
Open Scope string_scope.
From Aldrin Require Import Schema.Ast Schema.Token Schema.Printer Schema.Lexer Schema.Parser
  Schema.ParserProofs Schema.CanonProofs Schema.ReachProofs Schema.LexerProofs Props.C18_lemmas.
Import ListNotations.

Theorem C18_parse_toks : forall a, wf_ast a -> parse_toks (toks a) = Some (canon a).
Proof. exact parse_toks_toks. Qed.
Print Assumptions C18_parse_toks.

(* for every token stream that parses: the parser's own output always satisfies the other two
   well-formedness conditions, so only the field-name condition remains *)
Theorem C18_parse_toks_reachable : forall ts a,
  parse_toks ts = Some a -> no_bare_required a -> parse_toks (toks a) = Some (canon a).
Proof. exact parse_toks_reachable. Qed.
Print Assumptions C18_parse_toks_reachable.

Theorem C18_canon_idem : forall a, canon (canon a) = canon a.
Proof. exact canon_idem. Qed.
Print Assumptions C18_canon_idem.

Theorem C18_toks_canon : forall a, toks (canon a) = toks a.
Proof. exact toks_canon. Qed.
Print Assumptions C18_toks_canon.

(* formatting the result again changes nothing: the canonical AST prints to the same text *)
Theorem C18_print_canon : forall a, print (canon a) = print a.
Proof. exact print_canon. Qed.
Print Assumptions C18_print_canon.

Theorem C18_reparse_fixpoint : forall a, wf_ast a -> parse_toks (toks (canon a)) = Some (canon a).
Proof. exact parse_toks_fixpoint. Qed.
Print Assumptions C18_reparse_fixpoint.

(* imports as a sorted set: the sort only permutes *)
Theorem C18_imports_permuted : forall a, Permutation (s_imports (canon a)) (s_imports a).
Proof. exact imports_permuted. Qed.
Print Assumptions C18_imports_permuted.

(* every call of Formatter::indent has len <= 12 = INDENT.len() *)
Theorem C18_indent : forall ind a,
  (forall n, n <= 12 -> ind n = indent_real n) -> print_with ind a = print a.
Proof. exact indent_bound. Qed.
Print Assumptions C18_indent.

(* the character level, for the parts finished (partial): what the formatter prints for a type
   name (ASCII identifiers, decimal array lengths) lexes to exactly its token stream, and so does
   a whole field line without its prelude.  For complete schemas [tokenize (print a) = toks a]
   is executed by the check on every generated input, not proved. *)
Theorem C18_print_tokens_partial : forall t, lex_ty t = true ->
  tokenize (pr_ty t ++ ";") = (toks_ty t false ++ [TP PTerm])%list.
Proof. exact print_tokens_ty. Qed.
Print Assumptions C18_print_tokens_partial.

Theorem C18_print_tokens_field_partial : forall name id t,
  lex_ident name = true -> lex_uint id = true -> lex_ty t = true ->
  tokenize (name ++ " @ " ++ id ++ " = " ++ pr_ty t ++ ";" ++ LF) =
  (TWord name true :: TP PAt :: TInt id :: TP PEq :: toks_ty t false ++ [TP PTerm])%list.
Proof. exact print_tokens_field. Qed.
Print Assumptions C18_print_tokens_field_partial.

(* the faithful model refutes the unconditional property: a syntactically valid source whose
   formatted text does not parse (source "struct S {required@1=u8;}") *)
Theorem C18_required_field_refuted :
  exists src a, parse_toks (tokenize src) = Some a /\ parse_toks (tokenize (print a)) = None.
Proof. exact required_field_refuted. Qed.
Print Assumptions C18_required_field_refuted.

Example C18_wf_satisfiable : wf_ast example_ast.
Proof. exact example_wf. Qed.

Example C18_example_chain :
  parse_toks (toks example_ast) = Some (canon example_ast) /\
  tokenize (print example_ast) = toks example_ast /\
  parse_toks (tokenize (print example_ast)) = Some (canon example_ast) /\
  print (canon example_ast) = print example_ast /\
  canon example_ast <> example_ast.
Proof. exact example_roundtrip. Qed.
