(* Props/C14_lemmas.v — names used by the statements of Props/C14.v and small facts about them. *)
From Aldrin Require Import Codec.Base Codec.BaseProofs gen.StreamConsts Stream.Packetizer
  Stream.PacketizerProofs Stream.Tokio Stream.TokioProofs.
From Coq Require Import ZifyBool ZifyNat ZifyN.
Open Scope N_scope.

(* a run of packetizer operations from Packetizer::new() *)
Definition final (sh : spare_shape) (ops : list op) : pk := fst (run sh ops pk_new).
Definition delivered (sh : spare_shape) (ops : list op) : list (list N) := fst (snd (run sh ops pk_new)).
Definition fed (sh : spare_shape) (ops : list op) : list N := snd (snd (run sh ops pk_new)).
(* frames still returned by calling next_message until it answers None, and what is left *)
Definition drained_frames (s : pk) : list (list N) := snd (drain_all s).
Definition leftover (s : pk) : list N := buf (fst (drain_all s)).
(* feeding a chunk list through the first interface with next_message calls never / always *)
Definition feed_ext (chunks : list (list N)) : list op := map (OExt 0) chunks.

Lemma frame_okb_spec f : frame_okb f = true -> frame_ok f.
Proof.
  unfold frame_okb, frame_ok. rewrite llen_spec. intros H.
  apply andb_prop in H. destruct H as [H1 H2]. split; lia.
Qed.

Lemma frames_exact' sh ops fs :
  Forall frame_ok fs -> fed sh ops = concat fs ->
  delivered sh ops ++ drained_frames (final sh ops) = fs /\ leftover (final sh ops) = [].
Proof. apply frames_exact. Qed.

Lemma frames_prefix' sh ops fs rest :
  Forall frame_ok fs -> incomplete rest -> fed sh ops = concat fs ++ rest ->
  delivered sh ops ++ drained_frames (final sh ops) = fs /\ leftover (final sh ops) = rest.
Proof. apply frames_prefix. Qed.

(* two arbitrary runs (chunkings, interfaces, interleavings of next_message, capacities, even
   different control-flow shapes of spare_capacity_mut) over the same byte stream *)
Lemma frag_independent sh1 sh2 ops1 ops2 fs rest :
  Forall frame_ok fs -> incomplete rest ->
  fed sh1 ops1 = concat fs ++ rest -> fed sh2 ops2 = fed sh1 ops1 ->
  delivered sh1 ops1 ++ drained_frames (final sh1 ops1) =
    delivered sh2 ops2 ++ drained_frames (final sh2 ops2) /\
  leftover (final sh1 ops1) = leftover (final sh2 ops2).
Proof.
  intros Hfs Hinc H1 H2.
  destruct (frames_prefix' sh1 ops1 fs rest Hfs Hinc H1) as [A1 B1].
  rewrite H1 in H2.
  destruct (frames_prefix' sh2 ops2 fs rest Hfs Hinc H2) as [A2 B2].
  split; congruence.
Qed.

Lemma only_complete' sh ops1 ops2 fs rest :
  Forall frame_ok fs -> incomplete rest -> fed sh (ops1 ++ ops2) = concat fs ++ rest ->
  (exists k, delivered sh ops1 = firstn k fs) /\
  concat (delivered sh ops1) ++ buf (final sh ops1) = fed sh ops1.
Proof. apply only_complete. Qed.

Lemma spare_nonempty' sh s room :
  sh <> ShapeOrig -> reachable sh s -> 0 < snd (spare sh room s).
Proof. intros Hs H. apply spare_nonempty_fixed; [exact Hs|apply reachable_ok in H; tauto]. Qed.

Lemma spare_nonempty_drained' sh s room :
  reachable sh s -> snd (next_message s) = None -> 0 < snd (spare sh room (fst (next_message s))).
Proof.
  intros H Hn. apply reachable_ok in H. destruct H as [Hc Hl].
  destruct (next_ok s Hc Hl). apply spare_nonempty_drained; auto. apply next_none_drained; auto.
Qed.

Lemma spare_this_tree :
  match this_shape with
  | ShapeOrig => exists s room, reachable this_shape s /\ snd (spare this_shape room s) = 0
  | _ => forall s room, reachable this_shape s -> 0 < snd (spare this_shape room s)
  end.
Proof. exact (spare_dichotomy this_shape). Qed.

(* one frame of 65541 bytes (> 64 KiB + 4) *)
Definition big_frame : list N := [5; 0; 1; 0] ++ repeat 9 (N.to_nat 65537).
Lemma big_frame_ok : frame_ok big_frame /\ lenN big_frame = 65541.
Proof. split; [apply frame_okb_spec|]; vm_compute; reflexivity. Qed.

(* the three messages of the packetizer unit tests, cut 3 / 25 / 6 *)
Definition unit_frames : list (list N) :=
  [[5;0;0;0;2];
   [22;0;0;0;3;1;183;195;190;19;83;119;70;110;180;191;55;56;118;82;61;27];
   [7;0;0;0;19;0;0]].
Lemma unit_frames_ok : Forall frame_ok unit_frames.
Proof. repeat constructor; apply frame_okb_spec; reflexivity. Qed.
Lemma unit_run :
  let s := concat unit_frames in
  let ops := [OExt 0 (firstn 3 s); ONext; OExt 0 (firstn 25 (skipn 3 s)); ONext; ONext; ONext;
              OSpare 0; OWr (skipn 28 s); ONext; ONext] in
  fed this_shape ops = s /\ delivered this_shape ops = unit_frames /\ buf (final this_shape ops) = [].
Proof. vm_compute. auto. Qed.
