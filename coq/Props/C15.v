(* Props/C15.v — client termination (the LOGIC of `aldrin::Client::run`, aldrin/src/client.rs).

   [run s ins] folds the automaton of Proto/ClientLife.v over a list of inputs: what
   `self.select().await` returned (transport message / error, handle request, abort, flush result)
   and what the handles send.  [phase s = Done r]: `Client::run` has returned r (None = Ok(())) and
   the Client, i.e. every map and the request queue, has been dropped.  [resolved s] logs every
   completed waiter: (w, Dropped) = the sender was dropped without a value, which its receiver
   observes as Error::Shutdown / end of stream.

   What these theorems do NOT cover (observed by `harness fault`, not proved): that a dropped
   `oneshot::Sender`/`mpsc::UnboundedSender` wakes the task polling its receiver (futures-channel),
   that the executor polls `run` again after a transport event (wakers), real scheduling, and the
   broker side of the connection. *)
From Coq Require Import NArith List Bool.
From Aldrin Require Import Proto.ClientLife Proto.ClientLifeProofs Props.C15_lemmas.
Import ListNotations.
Open Scope N_scope.

(* -- C15_returns ------------------------------------------------------------------------- *)
(* transport error / EOF at ANY index k = length pre of ANY input sequence, from ANY state that
   has not returned yet: the very step that observes the fault returns RunError::Transport(e) —
   one step — and the result never changes afterwards; every waiter pending at that moment is
   dropped in that step.  (EOF is not a separate value of AsyncTransport::receive_poll: a closed
   transport reports its own error, e.g. channel::Disconnected.) *)
Theorem C15_returns_fault : forall s0 pre a post e,
  is_done (run s0 pre) = false -> enabled (run s0 pre) a = true -> fault_of a = Some e ->
  phase (run s0 (pre ++ a :: post)) = Done (Some (ETransport e)) /\
  resolved (run s0 (pre ++ [a])) = map (fun w => (w, Dropped)) (pend (run s0 pre)) ++ resolved (run s0 pre).
Proof. exact returns_fault. Qed.
Print Assumptions C15_returns_fault.

(* a fault can always be observed: in every phase but Done a fault input is enabled *)
Theorem C15_fault_enabled : forall s e,
  is_done s = false ->
  enabled s (match phase s with InlineFlush => ISelFlushed (Some e) | _ => ISelTransport (TErr e) end) = true.
Proof. exact fault_enabled. Qed.
Print Assumptions C15_fault_enabled.

(* the clean causes ([clean_cause]: the peer's Shutdown — broker shutdown or the broker closing this
   connection —, Handle::shutdown, the last handle dropped), at ANY index of ANY history from a
   well-formed state: once the continuation contains the flush result and, unless the peer began,
   the peer's Shutdown, and no fault, run has returned Ok(()) *)
Theorem C15_returns_clean : forall s0 pre a w post,
  wf s0 -> phase (run s0 pre) = Running -> clean_cause (run s0 pre) a = Some w ->
  no_fault post ->
  (w = true -> existsb is_shutdown_msg post = true) ->
  existsb is_flushed_ok post = true ->
  phase (run s0 (pre ++ a :: post)) = Done None.
Proof. exact returns_clean_at. Qed.
Print Assumptions C15_returns_clean.

(* until then it is still draining (it does not return early) ... *)
Theorem C15_clean_waits : forall s0 pre a w post,
  wf s0 -> phase (run s0 pre) = Running -> clean_cause (run s0 pre) a = Some w ->
  no_fault post ->
  (w && negb (existsb is_shutdown_msg post)) || negb (existsb is_flushed_ok post) = true ->
  exists w', phase (run s0 (pre ++ a :: post)) = Draining w'.
Proof. exact clean_waits. Qed.
Print Assumptions C15_clean_waits.

(* ... and whatever follows a clean cause, the result is Ok or a transport error, nothing else *)
Theorem C15_clean_result : forall s0 pre a w post r,
  phase (run s0 pre) = Running -> clean_cause (run s0 pre) a = Some w ->
  phase (run s0 (pre ++ a :: post)) = Done r ->
  r = None \/ exists e, r = Some (ETransport e).
Proof. exact clean_result. Qed.
Print Assumptions C15_clean_result.

Theorem C15_done_final : forall ins s r, phase s = Done r -> phase (run s ins) = Done r.
Proof. exact done_stable_run. Qed.
Print Assumptions C15_done_final.

(* Select::select serves a source that stays ready within 4 calls (a pending fault is not starved) *)
Theorem C15_select_fair : forall p x rs,
  length rs = 4%nat -> Forall (fun r => r x = true) rs -> In (Some x) (selects p rs).
Proof. exact select_fair. Qed.
Print Assumptions C15_select_fair.

(* -- C15_no_orphan ----------------------------------------------------------------------- *)
(* in every reachable state every waiter ever created (id < nextw) is in exactly one place —
   the request queue, one entry of one map, or the log of completed waiters — and no other id is
   anywhere; when run has returned, queue and maps are gone and every waiter is completed, once *)
Theorem C15_no_orphan : forall v ins,
  let s := run (init v) ins in
  (forall w, count_occ N.eq_dec (qws (queue s) ++ mws (maps s) ++ map fst (resolved s)) w
             = if w <? nextw s then 1%nat else 0%nat) /\
  (forall r, phase s = Done r ->
     maps s = [] /\ queue s = [] /\
     forall w, w < nextw s -> count_occ N.eq_dec (map fst (resolved s)) w = 1%nat).
Proof. exact no_orphan. Qed.
Print Assumptions C15_no_orphan.

(* a waiter pending at any point of a history is completed exactly once in every later Done state *)
Theorem C15_pending_resolved : forall v ins more w r,
  In w (pend (run (init v) ins)) ->
  phase (run (init v) (ins ++ more)) = Done r ->
  count_occ N.eq_dec (map fst (resolved (run (init v) (ins ++ more)))) w = 1%nat.
Proof. exact pending_resolved. Qed.
Print Assumptions C15_pending_resolved.

(* the step that returns drops exactly what is still pending *)
Theorem C15_drop_on_return : forall r s,
  phase (finish r s) = Done r /\
  resolved (finish r s) = map (fun w => (w, Dropped)) (pend s) ++ resolved s.
Proof. exact drop_on_return. Qed.
Print Assumptions C15_drop_on_return.

(* -- C15_after_stop ---------------------------------------------------------------------- *)
(* a request sent by a handle after run returned is refused at once: its reply sender is dropped
   in the same step (Error::Shutdown), nothing is queued or stored; select inputs do nothing *)
Theorem C15_after_stop : forall v ins r q,
  phase (run (init v) ins) = Done r ->
  let s := run (init v) ins in
  let s' := step s (IEnqueue q) in
  phase s' = Done r /\ maps s' = [] /\ queue s' = [] /\
  (if has_reply q
   then resolved s' = (nextw s, Dropped) :: resolved s /\ nextw s' = nextw s + 1
   else s' = s).
Proof. exact stop_answers. Qed.
Print Assumptions C15_after_stop.

(* -- hypotheses are satisfiable ---------------------------------------------------------- *)
Example C15_ex_requested :
  phase (run (init 20) h_requested) = Done None /\
  resolved (run (init 20) h_requested) = [(0, Dropped)] /\
  outlog (run (init 20) h_requested) = [(OShutdown, None); (OCreateObject, Some 0)].
Proof. vm_compute. auto. Qed.

Example C15_ex_fault :
  phase (run (init 20) h_fault) = Done (Some (ETransport 7)) /\
  resolved (run (init 20) h_fault) = [(2, Dropped); (1, Dropped); (0, Dropped)].
Proof. vm_compute. auto. Qed.

(* the first iteration that ends with num_handles = 1 already leaves the loop: a client that is
   run before any Handle clone was registered shuts down on its first event *)
Example C15_ex_no_handle :
  phase (run (init 20) [IEnqueue QSyncClient; ISelHandle]) = Draining true.
Proof. vm_compute. reflexivity. Qed.
